import IsoVerif.Lemmas.Merge
import IsoVerif.Model.Profiles

/-!
`GeneInfo.split_exons`: the sweep over the separately sorted starts and ends.

The invariant is stated on the *remaining* suffixes `ss`/`es` of the two sorted lists:
* `state + cntLe ss x − cntLe es x ≥ 0` for every `x` (there are never more ends `≤ x` than starts `≤ x`;
  this replaces the order-statistics fact `S[i] ≤ E[i]` and yields `state ≥ 1` whenever an end is consumed);
* `state + cntLe ss p − cntLt es p` is the number of exons covering a position `p ≥ last_border`
  (coverage depth); the blocks returned cover exactly the positions `≥ last_border` of positive depth;
* no start / end border lies strictly inside a returned block (atoms).
-/
namespace IsoVerif.Lemmas
open IsoVerif.Gen IsoVerif.Model

/-! ### counting -/

/-- number of elements `≤ x` -/
def cntLe : List Int → Int → Int
  | [], _ => 0
  | a :: t, x => (if a ≤ x then 1 else 0) + cntLe t x

/-- number of elements `< x` -/
def cntLt : List Int → Int → Int
  | [], _ => 0
  | a :: t, x => (if a < x then 1 else 0) + cntLt t x

theorem cntLe_cons (a : Int) (t : List Int) (x : Int) :
    cntLe (a :: t) x = (if a ≤ x then 1 else 0) + cntLe t x := rfl

theorem cntLt_cons (a : Int) (t : List Int) (x : Int) :
    cntLt (a :: t) x = (if a < x then 1 else 0) + cntLt t x := rfl

theorem cntLe_nonneg (l : List Int) (x : Int) : 0 ≤ cntLe l x := by
  induction l with
  | nil => simp [cntLe]
  | cons a t ih => rw [cntLe_cons]; split <;> omega

theorem cntLt_nonneg (l : List Int) (x : Int) : 0 ≤ cntLt l x := by
  induction l with
  | nil => simp [cntLt]
  | cons a t ih => rw [cntLt_cons]; split <;> omega

theorem cntLe_zero (l : List Int) (x : Int) (h : ∀ a ∈ l, x < a) : cntLe l x = 0 := by
  induction l with
  | nil => rfl
  | cons a t ih =>
    rw [cntLe_cons, ih (fun b hb => h b (List.mem_cons_of_mem _ hb))]
    have := h a (by simp)
    split <;> omega

theorem cntLt_zero (l : List Int) (x : Int) (h : ∀ a ∈ l, x ≤ a) : cntLt l x = 0 := by
  induction l with
  | nil => rfl
  | cons a t ih =>
    rw [cntLt_cons, ih (fun b hb => h b (List.mem_cons_of_mem _ hb))]
    have := h a (by simp)
    split <;> omega

/-! ### insertion sort: membership, length, counts, sortedness -/

theorem mem_insertSorted (x y : Int) (l : List Int) : y ∈ insertSorted x l ↔ y = x ∨ y ∈ l := by
  induction l with
  | nil => simp [insertSorted]
  | cons a t ih =>
    simp only [insertSorted]
    split
    · simp
    · simp only [List.mem_cons, ih]
      constructor
      · rintro (h | h | h)
        · exact Or.inr (Or.inl h)
        · exact Or.inl h
        · exact Or.inr (Or.inr h)
      · rintro (h | h | h)
        · exact Or.inr (Or.inl h)
        · exact Or.inl h
        · exact Or.inr (Or.inr h)

theorem length_insertSorted (x : Int) (l : List Int) : (insertSorted x l).length = l.length + 1 := by
  induction l with
  | nil => rfl
  | cons a t ih => simp only [insertSorted]; split <;> simp [ih]

theorem cntLe_insertSorted (a : Int) (l : List Int) (x : Int) :
    cntLe (insertSorted a l) x = (if a ≤ x then 1 else 0) + cntLe l x := by
  induction l with
  | nil => rfl
  | cons b t ih =>
    simp only [insertSorted]
    split
    · rfl
    · rw [cntLe_cons, ih, cntLe_cons]; omega

theorem cntLt_insertSorted (a : Int) (l : List Int) (x : Int) :
    cntLt (insertSorted a l) x = (if a < x then 1 else 0) + cntLt l x := by
  induction l with
  | nil => rfl
  | cons b t ih =>
    simp only [insertSorted]
    split
    · rfl
    · rw [cntLt_cons, ih, cntLt_cons]; omega

/-- non-decreasing -/
def SortedInts (l : List Int) : Prop := List.Pairwise (· ≤ ·) l

theorem sorted_insertSorted (x : Int) (l : List Int) (h : SortedInts l) : SortedInts (insertSorted x l) := by
  induction l with
  | nil => simp [insertSorted, SortedInts]
  | cons a t ih =>
    have h' := List.pairwise_cons.mp h
    simp only [insertSorted]
    split
    · rename_i hle
      refine List.pairwise_cons.mpr ⟨?_, h⟩
      intro y hy
      rcases List.mem_cons.mp hy with rfl | hy'
      · exact hle
      · have := h'.1 y hy'; omega
    · rename_i hgt
      refine List.pairwise_cons.mpr ⟨?_, ih h'.2⟩
      intro y hy
      rcases (mem_insertSorted x y t).mp hy with rfl | hy'
      · omega
      · exact h'.1 y hy'

theorem mem_sortInts (y : Int) (l : List Int) : y ∈ sortInts l ↔ y ∈ l := by
  induction l with
  | nil => simp [sortInts]
  | cons a t ih => simp [sortInts, mem_insertSorted, ih]

theorem length_sortInts (l : List Int) : (sortInts l).length = l.length := by
  induction l with
  | nil => rfl
  | cons a t ih => simp [sortInts, length_insertSorted, ih]

theorem cntLe_sortInts (l : List Int) (x : Int) : cntLe (sortInts l) x = cntLe l x := by
  induction l with
  | nil => rfl
  | cons a t ih => simp only [sortInts, cntLe_insertSorted, ih, cntLe_cons]

theorem cntLt_sortInts (l : List Int) (x : Int) : cntLt (sortInts l) x = cntLt l x := by
  induction l with
  | nil => rfl
  | cons a t ih => simp only [sortInts, cntLt_insertSorted, ih, cntLt_cons]

theorem sorted_sortInts (l : List Int) : SortedInts (sortInts l) := by
  induction l with
  | nil => simp [sortInts, SortedInts]
  | cons a t ih => exact sorted_insertSorted a _ ih

theorem sorted_head_le {a : Int} {l : List Int} (h : SortedInts (a :: l)) : ∀ x ∈ a :: l, a ≤ x := by
  intro x hx
  rcases List.mem_cons.mp hx with rfl | hx'
  · omega
  · exact (List.pairwise_cons.mp h).1 x hx'

theorem sorted_tail {a : Int} {l : List Int} (h : SortedInts (a :: l)) : SortedInts l :=
  (List.pairwise_cons.mp h).2

/-! ### counts over the exon list -/

/-- each exon has its start `≤` its end, hence at every `x` at least as many starts as ends are `≤ x` -/
theorem cntLe_starts_ge_ends (exons : List Iv) (w : WFl exons) (x : Int) :
    cntLe (exons.map (·.2)) x ≤ cntLe (exons.map (·.1)) x := by
  induction exons with
  | nil => simp [cntLe]
  | cons a t ih =>
    have ha := WFl_head w
    have := ih (WFl_tail w)
    simp only [List.map_cons, cntLe_cons]
    split <;> split <;> omega

/-- coverage depth: #starts `≤ p` − #ends `< p` = number of exons covering `p` -/
def depthAt : List Iv → Int → Int
  | [], _ => 0
  | a :: t, p => (if a.1 ≤ p ∧ p ≤ a.2 then 1 else 0) + depthAt t p

theorem depth_eq (exons : List Iv) (w : WFl exons) (p : Int) :
    cntLe (exons.map (·.1)) p - cntLt (exons.map (·.2)) p = depthAt exons p := by
  induction exons with
  | nil => simp [cntLe, cntLt, depthAt]
  | cons a t ih =>
    have ha := WFl_head w
    have := ih (WFl_tail w)
    simp only [List.map_cons, cntLe_cons, cntLt_cons, depthAt]
    split <;> split <;> split <;> omega

theorem depthAt_nonneg (exons : List Iv) (p : Int) : 0 ≤ depthAt exons p := by
  induction exons with
  | nil => simp [depthAt]
  | cons a t ih => simp only [depthAt]; split <;> omega

theorem depthAt_pos_iff (exons : List Iv) (p : Int) : 0 < depthAt exons p ↔ cov exons p := by
  induction exons with
  | nil => simp [depthAt, cov_nil]
  | cons a t ih =>
    rw [cov_cons, ← ih]
    have := depthAt_nonneg t p
    simp only [depthAt]
    split
    · rename_i h; constructor
      · intro _; exact Or.inl h
      · intro _; omega
    · rename_i h; constructor
      · intro h'; exact Or.inr (by omega)
      · rintro (h' | h')
        · exact absurd h' h
        · omega

/-! ### the sweep invariant -/

/-- `x` is a new border value w.r.t. the previously consumed one -/
def newerBorder (prev : Option Int) (x : Int) : Prop := ∀ p, prev = some p → p < x

theorem not_newerBorder {prev : Option Int} {x : Int} (h : ¬ newerBorder prev x) : ∃ p, prev = some p ∧ x ≤ p := by
  cases prev with
  | none => exact absurd (fun p hp => by cases hp) h
  | some p =>
    refine ⟨p, rfl, ?_⟩
    by_cases hc : x ≤ p
    · exact hc
    · exact absurd (fun p' hp' => by injection hp' with e; omega) h

structure SplitInv (ss es : List Int) (ps pe : Option Int) (state lb : Int) : Prop where
  sS : SortedInts ss
  sE : SortedInts es
  hps : ∀ p, ps = some p → p ≤ lb
  hpe : ∀ q, pe = some q → q + 1 ≤ lb
  hss : ∀ s ∈ ss, lb ≤ s
  hes : ∀ e ∈ es, lb ≤ e ∨ (pe = some e ∧ lb = e + 1)
  hC : ∀ x, 0 ≤ state + cntLe ss x - cntLe es x
  hst : 0 ≤ state
  hbal : state + (ss.length : Int) = (es.length : Int)
  nnS : ∀ s ∈ ss, 0 ≤ s
  nnE : ∀ e ∈ es, 0 ≤ e
  hlb : lb = -1 → state = 0

/-- what the blocks returned for the remaining suffixes satisfy -/
def SplitPost (ss es : List Int) (state lb : Int) (res : List Iv) : Prop :=
  SD res ∧
  (∀ b ∈ res, lb ≤ b.1 ∧ b.1 ≤ b.2 ∧ (∀ s ∈ ss, s ≤ b.1 ∨ b.2 < s) ∧ (∀ e ∈ es, e < b.1 ∨ b.2 ≤ e) ∧
    (b.2 + 1 ∈ ss ∨ b.2 ∈ es)) ∧
  (∀ p, cov res p ↔ lb ≤ p ∧ 0 < state + cntLe ss p - cntLt es p)

theorem SD_cons_of {a : Iv} {res : List Iv} (h : SD res) (hlt : ∀ b ∈ res, a.2 < b.1) : SD (a :: res) := by
  cases res with
  | nil => trivial
  | cons b t => exact ⟨hlt b (by simp), h⟩

/-- an end is consumed only while the depth is positive -/
theorem state_pos {ss es : List Int} {e : Int} {ps pe : Option Int} {state lb : Int}
    (h : SplitInv ss (e :: es) ps pe state lb) (hgt : ∀ s ∈ ss, e < s) : 1 ≤ state := by
  have h1 := h.hC e
  rw [cntLe_zero ss e hgt, cntLe_cons] at h1
  have := cntLe_nonneg es e
  simp at h1; omega

theorem hC_end {ss es : List Int} {e : Int} {ps pe : Option Int} {state lb : Int}
    (h : SplitInv ss (e :: es) ps pe state lb) (hgt : ∀ s ∈ ss, e < s) :
    ∀ x, 0 ≤ state - 1 + cntLe ss x - cntLe es x := by
  intro x
  have hpos := state_pos h hgt
  by_cases hx : e ≤ x
  · have := h.hC x
    rw [cntLe_cons] at this
    simp only [hx, if_true] at this
    omega
  · have h1 : cntLe ss x = 0 := cntLe_zero ss x (fun s hs => by have := hgt s hs; omega)
    have h2 : cntLe es x = 0 := cntLe_zero es x (fun e' he' => by
      have := sorted_head_le h.sE e' (List.mem_cons_of_mem _ he'); omega)
    omega

theorem inv_start_new {s e : Int} {ss es : List Int} {ps pe : Option Int} {state lb : Int}
    (h : SplitInv (s :: ss) (e :: es) ps pe state lb) (hle : s ≤ e) :
    SplitInv ss (e :: es) (some s) pe (state + 1) s where
  sS := sorted_tail h.sS
  sE := h.sE
  hps := by intro p hp; injection hp with hp; omega
  hpe := by intro q hq; have := h.hpe q hq; have := h.hss s (by simp); omega
  hss := by intro s' hs'; exact sorted_head_le h.sS s' (List.mem_cons_of_mem _ hs')
  hes := by intro e' he'; left; have := sorted_head_le h.sE e' he'; omega
  hC := by
    intro x
    have := h.hC x
    rw [cntLe_cons s ss x] at this
    split at this <;> omega
  hst := by have := h.hst; omega
  hbal := by have := h.hbal; simp only [List.length_cons] at this ⊢; omega
  nnS := fun s' hs' => h.nnS s' (List.mem_cons_of_mem _ hs')
  nnE := h.nnE
  hlb := by intro hs; have := h.nnS s (by simp); omega

theorem inv_start_dup {s e : Int} {ss es : List Int} {ps pe : Option Int} {state lb : Int}
    (h : SplitInv (s :: ss) (e :: es) ps pe state lb) (hdup : ¬ newerBorder ps s) :
    SplitInv ss (e :: es) (some s) pe (state + 1) lb ∧ lb = s := by
  obtain ⟨p, hp, hsp⟩ := not_newerBorder hdup
  have h1 := h.hps p hp
  have h2 := h.hss s (by simp)
  have hlbs : lb = s := by omega
  refine ⟨?_, hlbs⟩
  exact {
    sS := sorted_tail h.sS
    sE := h.sE
    hps := by intro p' hp'; injection hp' with hp'; omega
    hpe := h.hpe
    hss := fun s' hs' => h.hss s' (List.mem_cons_of_mem _ hs')
    hes := h.hes
    hC := by
      intro x
      have := h.hC x
      rw [cntLe_cons s ss x] at this
      split at this <;> omega
    hst := by have := h.hst; omega
    hbal := by have := h.hbal; simp only [List.length_cons] at this ⊢; omega
    nnS := fun s' hs' => h.nnS s' (List.mem_cons_of_mem _ hs')
    nnE := h.nnE
    hlb := by intro hl; have := h.nnS s (by simp); omega }

theorem inv_end_new {e : Int} {ss es : List Int} {ps pe : Option Int} {state lb : Int}
    (h : SplitInv ss (e :: es) ps pe state lb) (hgt : ∀ s ∈ ss, e < s) (hnew : newerBorder pe e) :
    SplitInv ss es ps (some e) (state - 1) (e + 1) ∧ lb ≤ e ∧ 1 ≤ state := by
  have hpos := state_pos h hgt
  have hlbe : lb ≤ e := by
    rcases h.hes e (by simp) with h1 | ⟨h1, _⟩
    · exact h1
    · have := hnew e h1; omega
  refine ⟨?_, hlbe, hpos⟩
  exact {
    sS := h.sS
    sE := sorted_tail h.sE
    hps := by intro p hp; have := h.hps p hp; omega
    hpe := by intro q hq; injection hq with hq; omega
    hss := by intro s hs; have := hgt s hs; omega
    hes := by
      intro e' he'
      have := sorted_head_le h.sE e' (List.mem_cons_of_mem _ he')
      by_cases hc : e + 1 ≤ e'
      · exact Or.inl hc
      · have : e' = e := by omega
        subst this; exact Or.inr ⟨rfl, rfl⟩
    hC := hC_end h hgt
    hst := by omega
    hbal := by have := h.hbal; simp only [List.length_cons] at this ⊢; omega
    nnS := h.nnS
    nnE := fun e' he' => h.nnE e' (List.mem_cons_of_mem _ he')
    hlb := by intro hl; have := h.nnE e (by simp); omega }

theorem inv_end_dup {e : Int} {ss es : List Int} {ps pe : Option Int} {state lb : Int}
    (h : SplitInv ss (e :: es) ps pe state lb) (hgt : ∀ s ∈ ss, e < s) (hdup : ¬ newerBorder pe e) :
    SplitInv ss es ps (some e) (state - 1) lb ∧ lb = e + 1 ∧ 1 ≤ state := by
  have hpos := state_pos h hgt
  obtain ⟨q, hq, heq⟩ := not_newerBorder hdup
  have h1 := h.hpe q hq
  have hpe_eq : pe = some e ∧ lb = e + 1 := by
    rcases h.hes e (by simp) with h2 | h2
    · omega
    · exact h2
  refine ⟨?_, hpe_eq.2, hpos⟩
  exact {
    sS := h.sS
    sE := sorted_tail h.sE
    hps := h.hps
    hpe := by intro q' hq'; injection hq' with hq'; omega
    hss := h.hss
    hes := by
      intro e' he'
      rcases h.hes e' (List.mem_cons_of_mem _ he') with h2 | ⟨h2, h3⟩
      · exact Or.inl h2
      · rw [hpe_eq.1] at h2; exact Or.inr ⟨h2, h3⟩
    hC := hC_end h hgt
    hst := by omega
    hbal := by have := h.hbal; simp only [List.length_cons] at this ⊢; omega
    nnS := h.nnS
    nnE := fun e' he' => h.nnE e' (List.mem_cons_of_mem _ he')
    hlb := by intro hl; have := h.nnE e (by simp); omega }

theorem cov_append (l1 l2 : List Iv) (p : Int) : cov (l1 ++ l2) p ↔ cov l1 p ∨ cov l2 p := by
  simp only [cov, List.mem_append]
  constructor
  · rintro ⟨r, hr | hr, h⟩
    · exact Or.inl ⟨r, hr, h⟩
    · exact Or.inr ⟨r, hr, h⟩
  · rintro (⟨r, hr, h⟩ | ⟨r, hr, h⟩)
    · exact ⟨r, Or.inl hr, h⟩
    · exact ⟨r, Or.inr hr, h⟩

theorem post_end_new {e : Int} {ss es : List Int} {ps pe : Option Int} {state lb : Int} {res : List Iv}
    (h : SplitInv ss (e :: es) ps pe state lb) (hgt : ∀ s ∈ ss, e < s) (hlbe : lb ≤ e) (hpos : 1 ≤ state)
    (hp : SplitPost ss es (state - 1) (e + 1) res) : SplitPost ss (e :: es) state lb ((lb, e) :: res) := by
  obtain ⟨hsd, hb, hc⟩ := hp
  refine ⟨SD_cons_of hsd (fun b hb' => by have := (hb b hb').1; simp only; omega), ?_, ?_⟩
  · intro b hb'
    rcases List.mem_cons.mp hb' with rfl | hb''
    · refine ⟨by simp, hlbe, fun s hs => Or.inr (hgt s hs), fun e' he' => Or.inr ?_, Or.inr (by simp)⟩
      exact sorted_head_le h.sE e' he'
    · obtain ⟨h1, h2, h3, h4, h5⟩ := hb b hb''
      refine ⟨by omega, h2, h3, fun e' he' => ?_, h5.imp id (List.mem_cons_of_mem _)⟩
      rcases List.mem_cons.mp he' with rfl | he''
      · left; omega
      · exact h4 e' he''
  · intro p
    rw [cov_cons, hc p, cntLt_cons]
    simp only
    by_cases hpe : p ≤ e
    · have h1 : cntLe ss p = 0 := cntLe_zero ss p (fun s hs => by have := hgt s hs; omega)
      have h2 : cntLt es p = 0 := cntLt_zero es p (fun e' he' => by
        have := sorted_head_le h.sE e' (List.mem_cons_of_mem _ he'); omega)
      have h3 : ¬ e < p := by omega
      simp only [h3, if_false]
      constructor
      · rintro (h' | h')
        · exact ⟨h'.1, by omega⟩
        · omega
      · rintro ⟨h', _⟩; exact Or.inl ⟨h', hpe⟩
    · have h3 : e < p := by omega
      simp only [h3, if_true]
      constructor
      · rintro (h' | h')
        · omega
        · exact ⟨by omega, by omega⟩
      · rintro ⟨_, h'⟩; exact Or.inr ⟨by omega, by omega⟩

theorem post_end_dup {e : Int} {ss es : List Int} {state lb : Int} {res : List Iv}
    (hlb : lb = e + 1) (hp : SplitPost ss es (state - 1) lb res) : SplitPost ss (e :: es) state lb res := by
  obtain ⟨hsd, hb, hc⟩ := hp
  refine ⟨hsd, ?_, ?_⟩
  · intro b hb'
    obtain ⟨h1, h2, h3, h4, h5⟩ := hb b hb'
    refine ⟨h1, h2, h3, fun e' he' => ?_, h5.imp id (List.mem_cons_of_mem _)⟩
    rcases List.mem_cons.mp he' with rfl | he''
    · left; omega
    · exact h4 e' he''
  · intro p
    rw [hc p, cntLt_cons]
    constructor
    · rintro ⟨h1, h2⟩
      have h3 : e < p := by omega
      simp only [h3, if_true]; exact ⟨h1, by omega⟩
    · rintro ⟨h1, h2⟩
      have h3 : e < p := by omega
      simp only [h3, if_true] at h2; exact ⟨h1, by omega⟩

theorem post_start_new {s e : Int} {ss es : List Int} {ps pe : Option Int} {state lb : Int} {res : List Iv}
    (h : SplitInv (s :: ss) (e :: es) ps pe state lb) (hle : s ≤ e) (hp : SplitPost ss (e :: es) (state + 1) s res) :
    SplitPost (s :: ss) (e :: es) state lb
      ((if (lb != -1) = true ∧ state > 0 ∧ lb < s then [(lb, s - 1)] else []) ++ res) := by
  obtain ⟨hsd, hb, hc⟩ := hp
  have hlbs := h.hss s (by simp)
  have hssge : ∀ s' ∈ s :: ss, s ≤ s' := sorted_head_le h.sS
  have hesge : ∀ e' ∈ e :: es, s ≤ e' := fun e' he' => by have := sorted_head_le h.sE e' he'; omega
  -- the blocks of the rest
  have hrest : ∀ b ∈ res, lb ≤ b.1 ∧ b.1 ≤ b.2 ∧ (∀ s' ∈ s :: ss, s' ≤ b.1 ∨ b.2 < s') ∧
      (∀ e' ∈ e :: es, e' < b.1 ∨ b.2 ≤ e') ∧ (b.2 + 1 ∈ s :: ss ∨ b.2 ∈ e :: es) := by
    intro b hb'
    obtain ⟨h1, h2, h3, h4, h5⟩ := hb b hb'
    refine ⟨by omega, h2, fun s' hs' => ?_, h4, h5.imp (List.mem_cons_of_mem _) id⟩
    rcases List.mem_cons.mp hs' with rfl | hs''
    · exact Or.inl h1
    · exact h3 s' hs''
  have hcovrest : ∀ p, s ≤ p → (cov res p ↔ lb ≤ p ∧ 0 < state + cntLe (s :: ss) p - cntLt (e :: es) p) := by
    intro p hsp
    rw [hc p, cntLe_cons s ss p]
    simp only [hsp, if_true, true_and]
    constructor
    · intro h'; exact ⟨by omega, by omega⟩
    · rintro ⟨_, h'⟩; omega
  have hbelow : ∀ p, p < s → cntLe (s :: ss) p = 0 ∧ cntLt (e :: es) p = 0 := by
    intro p hps
    exact ⟨cntLe_zero _ p (fun s' hs' => by have := hssge s' hs'; omega),
      cntLt_zero _ p (fun e' he' => by have := hesge e' he'; omega)⟩
  split
  · rename_i hcond
    obtain ⟨hne, hst, hlt⟩ := hcond
    refine ⟨?_, ?_, ?_⟩
    · show SD ((lb, s - 1) :: res)
      exact SD_cons_of hsd (fun b hb' => by have := (hb b hb').1; simp only; omega)
    · intro b hb'
      rcases List.mem_cons.mp hb' with rfl | hb''
      · refine ⟨by simp, by simp only; omega, fun s' hs' => Or.inr ?_, fun e' he' => Or.inr ?_, Or.inl (by simp)⟩
        · have := hssge s' hs'; simp only; omega
        · have := hesge e' he'; simp only; omega
      · exact hrest b hb''
    · intro p
      show cov ((lb, s - 1) :: res) p ↔ _
      rw [cov_cons]
      simp only
      by_cases hps : p < s
      · obtain ⟨h1, h2⟩ := hbelow p hps
        rw [h1, h2]
        constructor
        · rintro (h' | h')
          · exact ⟨h'.1, by omega⟩
          · have := ((hc p).mp h').1; omega
        · rintro ⟨h', _⟩; exact Or.inl ⟨h', by omega⟩
      · rw [← hcovrest p (by omega)]
        constructor
        · rintro (h' | h')
          · omega
          · exact h'
        · intro h'; exact Or.inr h'
  · rename_i hcond
    refine ⟨by simpa using hsd, by simpa using hrest, ?_⟩
    intro p
    simp only [List.nil_append]
    by_cases hps : p < s
    · obtain ⟨h1, h2⟩ := hbelow p hps
      rw [h1, h2]
      constructor
      · intro h'; have := ((hc p).mp h').1; omega
      · rintro ⟨h1', h2'⟩
        exfalso; apply hcond
        refine ⟨?_, by omega, by omega⟩
        have hne : lb ≠ -1 := fun hl => by have := h.hlb hl; omega
        simpa using hne
    · exact hcovrest p (by omega)

theorem post_start_dup {s e : Int} {ss es : List Int} {state lb : Int} {res : List Iv}
    (hlb : lb = s) (hp : SplitPost ss (e :: es) (state + 1) lb res) : SplitPost (s :: ss) (e :: es) state lb res := by
  obtain ⟨hsd, hb, hc⟩ := hp
  refine ⟨hsd, ?_, ?_⟩
  · intro b hb'
    obtain ⟨h1, h2, h3, h4, h5⟩ := hb b hb'
    refine ⟨h1, h2, fun s' hs' => ?_, h4, h5.imp (List.mem_cons_of_mem _) id⟩
    rcases List.mem_cons.mp hs' with rfl | hs''
    · left; omega
    · exact h3 s' hs''
  · intro p
    rw [hc p, cntLe_cons s ss p]
    constructor
    · rintro ⟨h1, h2⟩
      have h3 : s ≤ p := by omega
      simp only [h3, if_true]; exact ⟨h1, by omega⟩
    · rintro ⟨h1, h2⟩
      have h3 : s ≤ p := by omega
      simp only [h3, if_true] at h2; exact ⟨h1, by omega⟩

theorem splitTail_cons_new {pe : Option Int} {e : Int} (es : List Int) (lb : Int) (h : newerBorder pe e) :
    splitTail (e :: es) pe lb = (lb, e) :: splitTail es (some e) (e + 1) := by
  cases pe with
  | none => simp [splitTail]
  | some q => have := h q rfl; simp [splitTail, this]

theorem splitTail_cons_dup {pe : Option Int} {e : Int} (es : List Int) (lb : Int) (h : ¬ newerBorder pe e) :
    splitTail (e :: es) pe lb = splitTail es (some e) lb := by
  obtain ⟨q, rfl, hq⟩ := not_newerBorder h
  have : ¬ q < e := by omega
  simp [splitTail, this]

/-- the second `while` (only ends remain) -/
theorem splitTail_spec (es : List Int) (ps pe : Option Int) (state lb : Int)
    (h : SplitInv [] es ps pe state lb) : SplitPost [] es state lb (splitTail es pe lb) := by
  induction es generalizing pe state lb with
  | nil =>
    have hb := h.hbal
    simp at hb
    refine ⟨trivial, by simp [splitTail], fun p => ?_⟩
    simp only [splitTail, cntLe, cntLt]
    constructor
    · intro h'; exact absurd h' (cov_nil p)
    · rintro ⟨_, h'⟩; omega
  | cons e es ih =>
    have hgt : ∀ s ∈ ([] : List Int), e < s := by intro s hs; cases hs
    by_cases hnew : newerBorder pe e
    · rw [splitTail_cons_new es lb hnew]
      obtain ⟨hinv, hlbe, hpos⟩ := inv_end_new h hgt hnew
      exact post_end_new h hgt hlbe hpos (ih _ _ _ hinv)
    · rw [splitTail_cons_dup es lb hnew]
      obtain ⟨hinv, hlbe, hpos⟩ := inv_end_dup h hgt hnew
      exact post_end_dup hlbe (ih _ _ _ hinv)

/-- the main `while`: it never runs out of ends, and the blocks satisfy `SplitPost` -/
theorem splitMain_spec (ss es : List Int) (ps pe : Option Int) (state lb : Int)
    (h : SplitInv ss es ps pe state lb) :
    ∃ res, splitMain ss es ps pe state lb = some res ∧ SplitPost ss es state lb res := by
  fun_induction splitMain ss es ps pe state lb with
  | case1 es ps pe state lb => exact ⟨_, rfl, splitTail_spec es ps pe state lb h⟩
  | case2 s ss ps pe state lb =>
    exfalso
    have := h.hbal; have := h.hst
    simp only [List.length_cons, List.length_nil] at *
    omega
  | case3 s ss e es ps pe state lb hle hnew blk ih =>
    obtain ⟨res, hres, hpost⟩ := ih (inv_start_new h hle)
    refine ⟨blk ++ res, by simp [hres], ?_⟩
    exact post_start_new h hle hpost
  | case4 s ss e es ps pe state lb hle hnew ih =>
    have hdup : ¬ newerBorder ps s := by
      intro hn; apply hnew
      cases ps with
      | none => rfl
      | some q => have := hn q rfl; simpa using this
    obtain ⟨hinv, hlbs⟩ := inv_start_dup h hdup
    obtain ⟨res, hres, hpost⟩ := ih hinv
    exact ⟨res, hres, post_start_dup hlbs hpost⟩
  | case5 s ss e es ps pe state lb hle hnew ih =>
    have hgt : ∀ s' ∈ s :: ss, e < s' := fun s' hs' => by have := sorted_head_le h.sS s' hs'; omega
    have hn : newerBorder pe e := by
      cases pe with
      | none => intro p hp; cases hp
      | some q => intro p hp; injection hp with hp; subst hp; simpa using hnew
    obtain ⟨hinv, hlbe, hpos⟩ := inv_end_new h hgt hn
    obtain ⟨res, hres, hpost⟩ := ih hinv
    exact ⟨(lb, e) :: res, by simp [hres], post_end_new h hgt hlbe hpos hpost⟩
  | case6 s ss e es ps pe state lb hle hnew ih =>
    have hgt : ∀ s' ∈ s :: ss, e < s' := fun s' hs' => by have := sorted_head_le h.sS s' hs'; omega
    have hdup : ¬ newerBorder pe e := by
      intro hn; apply hnew
      cases pe with
      | none => rfl
      | some q => have := hn q rfl; simpa using this
    obtain ⟨hinv, hlbe, hpos⟩ := inv_end_dup h hgt hdup
    obtain ⟨res, hres, hpost⟩ := ih hinv
    exact ⟨res, hres, post_end_dup hlbe hpost⟩

end IsoVerif.Lemmas
