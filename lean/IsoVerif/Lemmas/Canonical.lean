/-
Helper lemmas for C18 (canonical-site memo, strand detector).  Core Lean only.
-/
import IsoVerif.Model.Canonical

namespace IsoVerif.Lemmas.C18
open IsoVerif.Gen IsoVerif.Model IsoVerif.Model.C18

theorem lookup_mem {α β} [BEq α] [LawfulBEq α] {k : α} {v : β} :
    ∀ {l : List (α × β)}, l.lookup k = some v → (k, v) ∈ l := by
  intro l
  induction l with
  | nil => intro h; simp [List.lookup] at h
  | cons e rest ih =>
    intro h
    obtain ⟨k', v'⟩ := e
    simp only [List.lookup] at h
    split at h
    · rename_i heq
      have : k = k' := by simpa using heq
      cases h; subst this; simp
    · exact List.mem_cons_of_mem _ (ih h)

/-! ### canonical memo -/

/-- every stored answer is the pure function of (sequence, intron, strand) -/
def MemoOK (g : GeneRef) (σ : CanonMemo) : Prop :=
  ∀ e ∈ σ, e.2 = canonCompute g e.1.1 e.1.2

theorem memoOK_nil (g : GeneRef) : MemoOK g [] := by
  intro e he; cases he

theorem memoOK_cons {g : GeneRef} {σ : CanonMemo} (h : MemoOK g σ) (it : Iv) (st : Strand) :
    MemoOK g (((it, st), canonCompute g it st) :: σ) := by
  intro e he
  rcases List.mem_cons.mp he with rfl | he
  · rfl
  · exact h e he

theorem checkSitesStrand_spec (g : GeneRef) (st : Strand) :
    ∀ (introns : List Iv) (σ : CanonMemo), MemoOK g σ →
      (checkSitesStrand g introns st σ).1 = introns.all (fun it => canonCompute g it st) ∧
      MemoOK g (checkSitesStrand g introns st σ).2 := by
  intro introns
  induction introns with
  | nil => intro σ h; exact ⟨by simp [checkSitesStrand], by simpa [checkSitesStrand] using h⟩
  | cons it rest ih =>
    intro σ h
    simp only [checkSitesStrand, List.all_cons]
    split
    · rename_i v hv
      have hv' : v = canonCompute g it st := h _ (lookup_mem hv)
      split
      · rename_i hvt
        have := ih σ h
        rw [← hv', hvt]; simpa using this
      · rename_i hvf
        have hvf' : v = false := by simpa using hvf
        rw [← hv', hvf']; exact ⟨by simp, h⟩
    · split
      · rename_i hvt
        have := ih _ (memoOK_cons h it st)
        rw [hvt] at this ⊢; simpa using this
      · rename_i hvf
        have hvf' : canonCompute g it st = false := by simpa using hvf
        refine ⟨by simp [hvf'], ?_⟩
        exact memoOK_cons h it st


/-- the answer the statement demands for (sequence, introns, strand): every intron canonical on the strand; for the
    unknown strand `.`: the whole chain canonical on `+`, or the whole chain canonical on `-` -/
def pureAll (g : GeneRef) (introns : List Iv) (st : Strand) : Bool :=
  if st = .dot then (introns.all fun it => canonCompute g it .plus) || (introns.all fun it => canonCompute g it .minus)
  else introns.all fun it => canonCompute g it st

theorem checkSites_spec (g : GeneRef) (st : Strand) (introns : List Iv) (σ : CanonMemo) (h : MemoOK g σ) :
    (checkSites g introns st σ).1 = pureAll g introns st ∧ MemoOK g (checkSites g introns st σ).2 := by
  unfold checkSites pureAll
  by_cases hd : st = .dot
  · simp only [hd, if_true]
    have h1 := checkSitesStrand_spec g .plus introns σ h
    have h2 := checkSitesStrand_spec g .minus introns _ h1.2
    cases hb : (checkSitesStrand g introns .plus σ).1 with
    | true =>
      rw [hb] at h1
      simp only [if_true]
      exact ⟨by rw [← h1.1]; rfl, h1.2⟩
    | false =>
      rw [hb] at h1
      simp only [Bool.false_eq_true, if_false]
      exact ⟨by rw [h2.1, ← h1.1]; rfl, h2.2⟩
  · simp only [hd, if_false]
    exact checkSitesStrand_spec g st introns σ h

/-! ### slices -/

/-- a two-element Python slice starting at a non-negative index is `drop`/`take` -/
theorem pySlice_two {α} (s : List α) (a : Int) (ha : 0 ≤ a) :
    pySlice s a (a + 2) = (s.drop a.toNat).take 2 := by
  unfold pySlice
  simp only
  have h1 : ¬ a < 0 := by omega
  have h2 : ¬ a + 2 < 0 := by omega
  simp only [h1, h2, if_false]
  by_cases hlen : (s.length : Int) ≤ a
  · have : s.length ≤ a.toNat := by omega
    rw [List.drop_eq_nil_of_le this]
    have : s.length ≤ (min a (s.length : Int)).toNat := by omega
    rw [List.drop_eq_nil_of_le this]; simp
  · have e1 : (min a (s.length : Int)).toNat = a.toNat := by omega
    rw [e1, List.take_eq_take_iff]
    simp only [List.length_drop]
    omega

theorem take2_map_eq {α β} (f : α → β) (s : List α) (k : Nat) (a b : β) :
    ((s.drop k).take 2).map f = [a, b] ↔ (s[k]?).map f = some a ∧ (s[k + 1]?).map f = some b := by
  have h0 : s[k]? = (s.drop k)[0]? := by simp
  have h1 : s[k + 1]? = (s.drop k)[1]? := by simp
  rw [h0, h1]
  generalize s.drop k = t
  match t with
  | [] => simp
  | [x] => simp
  | x :: y :: r => simp


theorem pySlice_range {α} (s : List α) (a b : Int) (ha : 0 ≤ a) (hab : a ≤ b) (hb : b ≤ s.length) :
    pySlice s a b = (s.drop a.toNat).take (b - a).toNat := by
  unfold pySlice
  simp only
  have h1 : ¬ a < 0 := by omega
  have h2 : ¬ b < 0 := by omega
  simp only [h1, h2, if_false]
  have e1 : (min a (s.length : Int)).toNat = a.toNat := by omega
  have e2 : (min b (s.length : Int)).toNat = b.toNat := by omega
  rw [e1, e2]
  congr 1
  omega

/-- the same without the bound on `b`: a slice whose end lies beyond the end of the list is clamped by Python (and by
    pyfaidx), `take` clamps alike -/
theorem pySlice_range_clamp {α} (s : List α) (a b : Int) (ha : 0 ≤ a) (hab : a ≤ b) :
    pySlice s a b = (s.drop a.toNat).take (b - a).toNat := by
  by_cases hb : b ≤ s.length
  · exact pySlice_range s a b ha hab hb
  · unfold pySlice
    simp only
    have h1 : ¬ a < 0 := by omega
    have h2 : ¬ b < 0 := by omega
    simp only [h1, h2, if_false]
    have e2 : (min b (s.length : Int)).toNat = s.length := by omega
    by_cases hlen : (s.length : Int) ≤ a
    · have : s.length ≤ a.toNat := by omega
      rw [List.drop_eq_nil_of_le this]
      have : s.length ≤ (min a (s.length : Int)).toNat := by omega
      rw [List.drop_eq_nil_of_le this]; simp
    · have e1 : (min a (s.length : Int)).toNat = a.toNat := by omega
      rw [e1, e2, List.take_eq_take_iff]
      simp only [List.length_drop]
      omega

theorem take2_drop_slice {α} (s : List α) (a n k : Nat) (hk : k + 2 ≤ n) :
    (((s.drop a).take n).drop k).take 2 = (s.drop (a + k)).take 2 := by
  rw [List.drop_take, List.take_take, List.drop_drop]
  congr 1
  omega

/-! ### strand detector -/

/-- the strand the detector attributes to an intron in state `σ`: the stored one (annotation seed or an earlier
    computation) or, on a miss, the splice-site strand of the sequence -/
def eff (σ : StrandDict) (seq : Seq) (it : Iv) : Strand :=
  (σ.lookup it).getD (getIntronStrand it seq)

def nPlus (σ : StrandDict) (seq : Seq) (introns : List Iv) : Nat :=
  introns.countP fun it => decide (eff σ seq it = .plus)
def nMinus (σ : StrandDict) (seq : Seq) (introns : List Iv) : Nat :=
  introns.countP fun it => decide (eff σ seq it = .minus)

theorem eff_nil (seq : Seq) (it : Iv) : eff [] seq it = getIntronStrand it seq := by
  simp [eff, List.lookup]

theorem eff_cons (σ : StrandDict) (seq : Seq) (it it' : Iv) (s : Strand) :
    eff ((it, s) :: σ) seq it' = if it' = it then s else eff σ seq it' := by
  unfold eff
  by_cases hh : it' = it
  · subst hh; simp [List.lookup]
  · have : (it' == it) = false := by simpa using hh
    simp [List.lookup, this, hh]

theorem eff_cons_miss {σ : StrandDict} {seq : Seq} {it : Iv} (h : σ.lookup it = none) (it' : Iv) :
    eff ((it, getIntronStrand it seq) :: σ) seq it' = eff σ seq it' := by
  rw [eff_cons]
  split
  · rename_i hh; subst hh; simp [eff, h]
  · rfl

theorem countLoop_spec (seq : Seq) :
    ∀ (introns : List Iv) (σ : StrandDict) (f r : Nat),
      (countLoop seq introns σ f r).1 = (f + nPlus σ seq introns, r + nMinus σ seq introns) ∧
      ∀ it, eff (countLoop seq introns σ f r).2 seq it = eff σ seq it := by
  intro introns
  induction introns with
  | nil => intro σ f r; simp [countLoop, nPlus, nMinus]
  | cons it rest ih =>
    intro σ f r
    simp only [countLoop]
    split
    · rename_i st hst
      have he : eff σ seq it = st := by simp [eff, hst]
      have := ih σ (f + if st = .plus then 1 else 0) (r + if st = .minus then 1 else 0)
      refine ⟨?_, this.2⟩
      rw [this.1]
      simp only [nPlus, nMinus, List.countP_cons, he]
      by_cases h1 : st = .plus <;> by_cases h2 : st = .minus <;> simp [h1, h2] <;> omega
    · rename_i hnone
      have he : eff σ seq it = getIntronStrand it seq := by simp [eff, hnone]
      have hσ := eff_cons_miss (seq := seq) hnone
      have := ih ((it, getIntronStrand it seq) :: σ) (f + if getIntronStrand it seq = .plus then 1 else 0)
        (r + if getIntronStrand it seq = .minus then 1 else 0)
      refine ⟨?_, fun it' => by rw [this.2 it', hσ it']⟩
      rw [this.1]
      have e1 : nPlus ((it, getIntronStrand it seq) :: σ) seq rest = nPlus σ seq rest := by
        simp only [nPlus, hσ]
      have e2 : nMinus ((it, getIntronStrand it seq) :: σ) seq rest = nMinus σ seq rest := by
        simp only [nMinus, hσ]
      rw [e1, e2]
      simp only [nPlus, nMinus, List.countP_cons, he]
      by_cases h1 : getIntronStrand it seq = .plus <;> by_cases h2 : getIntronStrand it seq = .minus <;>
        simp [h1, h2] <;> omega

theorem count_spec (seq : Seq) (introns : List Iv) (σ : StrandDict) :
    (countCanonicalSites seq introns σ).1 = (nPlus σ seq introns, nMinus σ seq introns) ∧
    ∀ it, eff (countCanonicalSites seq introns σ).2 seq it = eff σ seq it := by
  have := countLoop_spec seq introns σ 0 0
  simpa [countCanonicalSites] using this

theorem nPlus_congr {σ σ' : StrandDict} {seq : Seq} (h : ∀ it, eff σ' seq it = eff σ seq it) (introns : List Iv) :
    nPlus σ' seq introns = nPlus σ seq introns ∧ nMinus σ' seq introns = nMinus σ seq introns := by
  simp only [nPlus, nMinus, h, and_self]

end IsoVerif.Lemmas.C18
