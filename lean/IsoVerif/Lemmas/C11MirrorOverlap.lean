/-
C11 helper lemmas — reflection of the gene profile of `OverlappingFeaturesProfileConstructor.construct_profile_for_features`
(Model/Profiles.lean `constructOverlapping`).  C13 gives the declarative meaning of the values +1 / −1 under its
hypotheses `Hyp`; here: every predicate of that meaning (`Best`-match, `TieLoser`, `InGap`, polyA/polyT masking) is
mirror-symmetric, the hypotheses are preserved when the known features are ordered by end as well, and the masked
value −2 is characterised.
-/
import IsoVerif.Gen.Prims
import IsoVerif.Model.Profiles
import IsoVerif.Model.C11Symmetry
import IsoVerif.Lemmas.C11Mirror
import IsoVerif.Lemmas.C11MirrorProfiles
import IsoVerif.Lemmas.C11MirrorSplit
import IsoVerif.Lemmas.C13ProfileSound
import IsoVerif.Lemmas.C13ProfileComplete

namespace IsoVerif.Lemmas.C11.Lists
open IsoVerif.Gen IsoVerif.Model IsoVerif.Model.C11 IsoVerif.Lemmas IsoVerif.Lemmas.C13

/-- the known features are ordered by end as well (none lies strictly inside another): then the mirror image of the
    list is ordered by start -/
def SortedEnds (K : List Iv) : Prop := K.Pairwise (fun a b => a.2 ≤ b.2)

/-- masked by a polyA position (feature starts more than δ behind it) or a polyT position (ends more than δ before it) -/
def Masked (δ pa pt : Int) (k : Iv) : Prop := (pa ≠ -1 ∧ k.1 > pa + δ) ∨ (pt ≠ -1 ∧ k.2 < pt - δ)

theorem equal_ranges_mirrorIv (L : Int) (a b : Iv) (d : Int) :
    equal_ranges (mirrorIv L a) (mirrorIv L b) d = equal_ranges a b d := by
  simp only [equal_ranges, mirrorIv, iabs]; grind

theorem matchDelta_mirrorIv (L : Int) (a b : Iv) : matchDelta (mirrorIv L a) (mirrorIv L b) = matchDelta a b := by
  simp only [matchDelta, mirrorIv, iabs]; grind

theorem masked_mirror (L δ pa pt : Int) (k : Iv) (hA : pa ≠ -1 → L + 1 - pa ≠ -1) (hT : pt ≠ -1 → L + 1 - pt ≠ -1) :
    Masked δ (mirrorPos L pt) (mirrorPos L pa) (mirrorIv L k) ↔ Masked δ pa pt k := by
  simp only [Masked, mirrorPos, mirrorIv_fst, mirrorIv_snd]
  by_cases ca : pa = -1 <;> by_cases ct : pt = -1
  · simp [ca, ct]
  · have := hT ct; simp [ca, ct, this]; omega
  · have := hA ca; simp [ca, ct, this]; omega
  · have h1 := hA ca; have h2 := hT ct; simp [ca, ct, h1, h2]; omega

/-! ### the hypotheses of C13 are preserved -/

theorem sortedStarts_mirror (L : Int) (K : List Iv) (hE : SortedEnds K) : SortedStarts (mirrorL L K) := by
  simp only [SortedStarts, mirrorL, List.pairwise_reverse, List.pairwise_map]
  exact hE.imp (fun {a b} h => by simp only [mirrorIv_fst]; omega)

theorem sortedEnds_mirror (L : Int) (K : List Iv) (hS : SortedStarts K) : SortedEnds (mirrorL L K) := by
  simp only [SortedEnds, mirrorL, List.pairwise_reverse, List.pairwise_map]
  exact hS.imp (fun {a b} h => by simp only [mirrorIv_snd]; omega)

theorem longerThan_mirror (L δ : Int) (K : List Iv) (h : LongerThan δ K) : LongerThan δ (mirrorL L K) := by
  intro k hk
  obtain ⟨x, hx, rfl⟩ := (mem_mirrorL' L K k).mp hk
  have := h x hx
  simp only [mirrorIv_fst, mirrorIv_snd]; omega

theorem sepBy_mirror (L δ : Int) (R : List Iv) (h : SepBy δ R) : SepBy δ (mirrorL L R) := by
  simp only [SepBy, mirrorL, List.pairwise_reverse, List.pairwise_map]
  exact h.imp (fun {a b} h => by simp only [mirrorIv_fst, mirrorIv_snd]; omega)

theorem wfr_mirror (L : Int) (R : List Iv) (h : WFR R) : WFR (mirrorL L R) := WFl_mirror L R h

/-! ### index-free reading of C13's predicates, and their mirror images -/

/-- consecutive elements of the mirror image are the mirrored consecutive elements, in the other order -/
theorem mirrorL_consecutive (L : Int) (R : List Iv) (j : Nat) (r r' : Iv) (h1 : R[j]? = some r) (h2 : R[j + 1]? = some r') :
    (mirrorL L R)[R.length - 2 - j]? = some (mirrorIv L r') ∧ (mirrorL L R)[R.length - 2 - j + 1]? = some (mirrorIv L r) := by
  have hlt : j + 1 < R.length := (List.getElem?_eq_some_iff.mp h2).1
  constructor
  · rw [mirrorL_getElem? L R _ (by omega)]
    have : R.length - 1 - (R.length - 2 - j) = j + 1 := by omega
    rw [this, h2]; rfl
  · rw [mirrorL_getElem? L R _ (by omega)]
    have : R.length - 1 - (R.length - 2 - j + 1) = j := by omega
    rw [this, h1]; rfl

theorem inGap_mirror_imp (L : Int) (R : List Iv) (k : Iv) (h : InGap R k) : InGap (mirrorL L R) (mirrorIv L k) := by
  obtain ⟨j, r, r', h1, h2, h3, h4⟩ := h
  obtain ⟨e1, e2⟩ := mirrorL_consecutive L R j r r' h1 h2
  exact ⟨R.length - 2 - j, mirrorIv L r', mirrorIv L r, e1, e2, by simp only [mirrorIv_fst, mirrorIv_snd]; omega,
    by simp only [mirrorIv_fst, mirrorIv_snd]; omega⟩

theorem inGap_mirror (L : Int) (R : List Iv) (k : Iv) : InGap (mirrorL L R) (mirrorIv L k) ↔ InGap R k := by
  constructor
  · intro h
    have := inGap_mirror_imp L (mirrorL L R) (mirrorIv L k) h
    rwa [mirrorL_mirrorL, mirrorIv_mirrorIv] at this
  · exact inGap_mirror_imp L R k

theorem tieLoser_iff (cmp : Iv → Iv → Bool) (K R : List Iv) (k : Iv) :
    TieLoser cmp K R k ↔ ∃ r ∈ R, ∃ k' ∈ K, cmp r k = true ∧ cmp r k' = true ∧ matchDelta r k' < matchDelta r k := by
  constructor
  · rintro ⟨j, r, i', k', h1, h2, h3, h4, h5⟩
    exact ⟨r, List.mem_of_getElem? h1, k', List.mem_of_getElem? h2, h3, h4, h5⟩
  · rintro ⟨r, hr, k', hk', h3, h4, h5⟩
    obtain ⟨j, hj⟩ := List.mem_iff_getElem?.mp hr
    obtain ⟨i', hi'⟩ := List.mem_iff_getElem?.mp hk'
    exact ⟨j, r, i', k', hj, hi', h3, h4, h5⟩

theorem tieLoser_mirror_imp (L δ : Int) (K R : List Iv) (k : Iv)
    (h : TieLoser (fun a b => equal_ranges a b δ) K R k) :
    TieLoser (fun a b => equal_ranges a b δ) (mirrorL L K) (mirrorL L R) (mirrorIv L k) := by
  rw [tieLoser_iff] at h ⊢
  obtain ⟨r, hr, k', hk', h3, h4, h5⟩ := h
  exact ⟨mirrorIv L r, (mem_mirrorL L r R).mpr hr, mirrorIv L k', (mem_mirrorL L k' K).mpr hk',
    by simp only [equal_ranges_mirrorIv]; exact h3, by simp only [equal_ranges_mirrorIv]; exact h4,
    by simp only [matchDelta_mirrorIv]; exact h5⟩

theorem tieLoser_mirror (L δ : Int) (K R : List Iv) (k : Iv) :
    TieLoser (fun a b => equal_ranges a b δ) (mirrorL L K) (mirrorL L R) (mirrorIv L k) ↔
      TieLoser (fun a b => equal_ranges a b δ) K R k := by
  constructor
  · intro h
    have := tieLoser_mirror_imp L δ (mirrorL L K) (mirrorL L R) (mirrorIv L k) h
    rwa [mirrorL_mirrorL, mirrorL_mirrorL, mirrorIv_mirrorIv] at this
  · exact tieLoser_mirror_imp L δ K R k

/-! ### the gene profile: masked entries, value range, range of the reversed profile -/

theorem zipWith_mask_total (c : Iv → Prop) [DecidablePred c] (K : List Iv) (g : List Int) (i : Nat) (k : Iv) (v : Int)
    (hk : K[i]? = some k) (hg : g[i]? = some v) :
    (List.zipWith (fun (k : Iv) (v : Int) => if c k then -2 else v) K g)[i]? = some (if c k then -2 else v) := by
  rw [List.getElem?_zipWith, hk, hg]

/-- a masked known feature gets −2 -/
theorem constructOverlapping_gene_masked (K : List Iv) (gr : Iv) (cmp absent : Iv → Iv → Bool) (δ : Int) (R : List Iv) (M : Iv)
    (pa pt : Int) (i : Nat) (k : Iv) (hk : K[i]? = some k) (hm : Masked δ pa pt k) :
    (constructOverlapping K gr cmp absent δ R M pa pt).gene[i]? = some (-2) := by
  have hi : i < K.length := (List.getElem?_eq_some_iff.mp hk).1
  have hlen : (ovEliminate K R (sweepState K gr cmp absent R M).matched (sweepState K gr cmp absent R M).gene).length = K.length := by
    rw [ovEliminate_length]; unfold sweepState; rw [ovSweep_gene_length]; simp
  obtain ⟨v, hv⟩ : ∃ v, (ovEliminate K R (sweepState K gr cmp absent R M).matched (sweepState K gr cmp absent R M).gene)[i]? = some v :=
    ⟨_, List.getElem?_eq_getElem (by omega)⟩
  unfold constructOverlapping
  simp only
  unfold sweepState at hv
  by_cases cpa : pa ≠ -1 ∧ k.1 > pa + δ
  · have e1 : (pa != -1) = true := by simpa using cpa.1
    simp only [e1, if_true]
    have s1 := zipWith_mask_total (fun k : Iv => k.1 > pa + δ) K _ i k v hk hv
    simp only [cpa.2, if_true] at s1
    split
    · have s2 := zipWith_mask_total (fun k : Iv => k.2 < pt - δ) K _ i k (-2) hk s1
      rw [s2]; split <;> rfl
    · exact s1
  · have cpt : pt ≠ -1 ∧ k.2 < pt - δ := by
      rcases hm with h | h
      · exact absurd h cpa
      · exact h
    have e2 : (pt != -1) = true := by simpa using cpt.1
    simp only [e2, if_true]
    split
    · have s1 := zipWith_mask_total (fun k : Iv => k.1 > pa + δ) K _ i k v hk hv
      have s2 := zipWith_mask_total (fun k : Iv => k.2 < pt - δ) K _ i k _ hk s1
      rw [s2]; simp only [cpt.2, if_true]
    · have s2 := zipWith_mask_total (fun k : Iv => k.2 < pt - δ) K _ i k v hk hv
      rw [s2]; simp only [cpt.2, if_true]

/-- an unmasked entry is the entry after sweep and tie elimination, and that is 0, +1 or −1 -/
theorem constructOverlapping_gene_unmasked (K : List Iv) (gr : Iv) (cmp absent : Iv → Iv → Bool) (δ : Int) (R : List Iv) (M : Iv)
    (pa pt : Int) (i : Nat) (k : Iv) (hk : K[i]? = some k) (hm : ¬ Masked δ pa pt k) :
    ∃ v, (constructOverlapping K gr cmp absent δ R M pa pt).gene[i]? = some v ∧ (v = 0 ∨ v = 1 ∨ v = -1) := by
  have hi : i < K.length := (List.getElem?_eq_some_iff.mp hk).1
  have hlen : (ovEliminate K R (sweepState K gr cmp absent R M).matched (sweepState K gr cmp absent R M).gene).length = K.length := by
    rw [ovEliminate_length]; unfold sweepState; rw [ovSweep_gene_length]; simp
  obtain ⟨v, hv⟩ : ∃ v, (ovEliminate K R (sweepState K gr cmp absent R M).matched (sweepState K gr cmp absent R M).gene)[i]? = some v :=
    ⟨_, List.getElem?_eq_getElem (by omega)⟩
  refine ⟨v, constructOverlapping_gene_fwd K gr cmp absent δ R M pa pt i k v hk hv (fun h => hm (Or.inl h))
    (fun h => hm (Or.inr h)), ?_⟩
  -- value range: initial 0 / −1, the sweep writes ±1, the elimination writes −1
  have hinit : ∀ x, (K.map (fun k => if absent M k then (-1 : Int) else 0))[i]? = some x → x = 0 ∨ x = -1 := by
    intro x hx
    simp only [List.getElem?_map, hk, Option.map_some, Option.some.injEq] at hx
    split at hx <;> omega
  have hsw : ∀ x, (sweepState K gr cmp absent R M).gene[i]? = some x → x = 0 ∨ x = 1 ∨ x = -1 := by
    intro x hx
    rcases ovSweep_gene_tri cmp absent M K 0 R 0
      { gene := K.map (fun k => if absent M k then -1 else 0), read := R.map (fun r => if absent gr r then -1 else 0), matched := [] } i with h | h | h
    · have hx' : (K.map (fun k => if absent M k then (-1 : Int) else 0))[i]? = some x := by
        rw [← h]; exact hx
      rcases hinit x hx' with e | e <;> omega
    · unfold sweepState at hx; rw [h] at hx; injection hx with hx; omega
    · unfold sweepState at hx; rw [h] at hx; injection hx with hx; omega
  rcases ovEliminate_spec K R (sweepState K gr cmp absent R M).matched (sweepState K gr cmp absent R M).gene i with he | ⟨he, _⟩
  · rw [he] at hv; exact hsw v hv
  · rw [he] at hv; injection hv with hv; omega

theorem leadingZeros_le (p : List Int) : leadingZeros p ≤ p.length := by
  induction p with
  | nil => simp [leadingZeros]
  | cons a t ih => simp only [leadingZeros, List.length_cons]; split <;> omega

theorem profileRange_reverse (p : List Int) :
    profileRange p.reverse = ((p.length : Int) - (profileRange p).2, (p.length : Int) - (profileRange p).1) := by
  simp only [profileRange, List.reverse_reverse, List.length_reverse]
  ext <;> simp <;> omega

end IsoVerif.Lemmas.C11.Lists
