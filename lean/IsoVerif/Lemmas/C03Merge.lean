/-
Lemmas about the natural sort key of `merge_files` (Model/Gtf.lean: `splitDigits`, `natKey`, `keyLt`,
`sortNatural`).  Core Lean only.
-/
import IsoVerif.Model.Gtf
import IsoVerif.Lemmas.C03Sort

namespace IsoVerif.Lemmas.C03
open IsoVerif.Gen IsoVerif.Model IsoVerif.Model.C03 IsoVerif.Lemmas

/-! ### code-point order on character lists -/

theorem charsLt_irrefl : ∀ a : List Char, charsLt a a = false
  | [] => rfl
  | c :: cs => by simp [charsLt, charsLt_irrefl cs]

theorem charsLt_asymm : ∀ a b : List Char, charsLt a b = true → charsLt b a = false
  | [], [], _ => rfl
  | [], _ :: _, _ => rfl
  | _ :: _, [], h => by simp [charsLt] at h
  | x :: xs, y :: ys, h => by
    simp only [charsLt] at h ⊢
    by_cases h1 : x.toNat < y.toNat
    · have : ¬ y.toNat < x.toNat := by omega
      simp [this, h1]
    · by_cases h2 : y.toNat < x.toNat
      · simp [h1, h2] at h
      · simp only [h1, h2, if_false] at h ⊢
        exact charsLt_asymm xs ys h

theorem charsLt_connected : ∀ a b : List Char, a ≠ b → charsLt a b = false → charsLt b a = true
  | [], [], h, _ => absurd rfl h
  | [], _ :: _, _, h => by simp [charsLt] at h
  | _ :: _, [], _, _ => rfl
  | x :: xs, y :: ys, hne, h => by
    simp only [charsLt] at h ⊢
    by_cases h1 : x.toNat < y.toNat
    · simp [h1] at h
    · by_cases h2 : y.toNat < x.toNat
      · simp [h2]
      · simp only [h1, h2, if_false] at h ⊢
        have hxy : x = y := Char.toNat_inj.mp (by omega)
        apply charsLt_connected xs ys _ h
        intro he; apply hne; rw [hxy, he]

theorem charsLt_trans : ∀ a b c : List Char, charsLt a b = true → charsLt b c = true → charsLt a c = true
  | [], [], _, h, _ => by simp [charsLt] at h
  | [], _ :: _, [], _, h => by simp [charsLt] at h
  | [], _ :: _, _ :: _, _, _ => rfl
  | _ :: _, [], _, h, _ => by simp [charsLt] at h
  | _ :: _, _ :: _, [], _, h => by simp [charsLt] at h
  | x :: xs, y :: ys, z :: zs, h1, h2 => by
    simp only [charsLt] at h1 h2 ⊢
    by_cases a1 : x.toNat < y.toNat
    · by_cases b1 : y.toNat < z.toNat
      · have : x.toNat < z.toNat := by omega
        simp [this]
      · by_cases b2 : z.toNat < y.toNat
        · simp [b1, b2] at h2
        · have : x.toNat < z.toNat := by omega
          simp [this]
    · by_cases a2 : y.toNat < x.toNat
      · simp [a1, a2] at h1
      · simp only [a1, a2, if_false] at h1
        by_cases b1 : y.toNat < z.toNat
        · have : x.toNat < z.toNat := by omega
          simp [this]
        · by_cases b2 : z.toNat < y.toNat
          · simp [b1, b2] at h2
          · simp only [b1, b2, if_false] at h2
            have e1 : ¬ x.toNat < z.toNat := by omega
            have e2 : ¬ z.toNat < x.toNat := by omega
            simp only [e1, e2, if_false]
            exact charsLt_trans xs ys zs h1 h2

/-! ### tokens of the same kind -/

/-- strict order between two tokens of the same kind (`int < int`, `str < str`) -/
def tokLt : Tok → Tok → Bool
  | .num x, .num y => decide (x < y)
  | .txt x, .txt y => charsLt x y
  | _, _ => false

def sameKind : Tok → Tok → Bool
  | .num _, .num _ => true
  | .txt _, .txt _ => true
  | _, _ => false

theorem tokLt_asymm (a b : Tok) (h : tokLt a b = true) : tokLt b a = false := by
  cases a <;> cases b <;> simp [tokLt] at h ⊢
  · omega
  · exact charsLt_asymm _ _ h

theorem tokLt_connected (a b : Tok) (hk : sameKind a b = true) (hne : a ≠ b) (h : tokLt a b = false) : tokLt b a = true := by
  cases a <;> cases b <;> simp [tokLt, sameKind] at h hk hne ⊢
  · omega
  · exact charsLt_connected _ _ hne h

theorem tokLt_trans (a b c : Tok) (h1 : tokLt a b = true) (h2 : tokLt b c = true) : tokLt a c = true := by
  cases a <;> cases b <;> cases c <;> simp [tokLt] at h1 h2 ⊢
  · omega
  · exact charsLt_trans _ _ _ h1 h2

theorem tokLt_irrefl (a : Tok) : tokLt a a = false := by
  cases a <;> simp [tokLt, charsLt_irrefl]

/-! ### shape of a key: text and number tokens alternate -/

/-- `Shape true k`: `k` is `txt, num, txt, …`; `Shape false k`: `num, txt, num, …` -/
def Shape : Bool → List Tok → Prop
  | _, [] => True
  | true, .txt _ :: l => Shape false l
  | false, .num _ :: l => Shape true l
  | true, .num _ :: _ => False
  | false, .txt _ :: _ => False

theorem Shape.head_sameKind {f : Bool} {a b : Tok} {as bs : List Tok} (ha : Shape f (a :: as)) (hb : Shape f (b :: bs)) :
    sameKind a b = true ∧ Shape (!f) as ∧ Shape (!f) bs := by
  cases f <;> cases a <;> cases b <;> simp_all [Shape, sameKind]

theorem keyLt_cons (a b : Tok) (as bs : List Tok) (hk : sameKind a b = true) :
    keyLt (a :: as) (b :: bs) = if a = b then keyLt as bs else some (tokLt a b) := by
  cases a <;> cases b <;> simp [sameKind] at hk <;> simp [keyLt, tokLt]

/-- the comparison of two keys of the same shape never raises -/
theorem keyLt_defined : ∀ (a b : List Tok) (f : Bool), Shape f a → Shape f b → ∃ r, keyLt a b = some r
  | [], [], _, _, _ => ⟨false, rfl⟩
  | [], _ :: _, _, _, _ => ⟨true, rfl⟩
  | _ :: _, [], _, _, _ => ⟨false, rfl⟩
  | x :: xs, y :: ys, f, ha, hb => by
    obtain ⟨hk, hx, hy⟩ := Shape.head_sameKind ha hb
    rw [keyLt_cons x y xs ys hk]
    split
    · exact keyLt_defined xs ys (!f) hx hy
    · exact ⟨_, rfl⟩

theorem keyLt_asymm : ∀ (a b : List Tok) (f : Bool), Shape f a → Shape f b → keyLt a b = some true → keyLt b a = some false
  | [], [], _, _, _, _ => rfl
  | [], _ :: _, _, _, _, _ => rfl
  | _ :: _, [], _, _, _, h => by simp [keyLt] at h
  | x :: xs, y :: ys, f, ha, hb, h => by
    obtain ⟨hk, hx, hy⟩ := Shape.head_sameKind ha hb
    obtain ⟨hk', _, _⟩ := Shape.head_sameKind hb ha
    rw [keyLt_cons x y xs ys hk] at h
    rw [keyLt_cons y x ys xs hk']
    by_cases he : x = y
    · subst he
      simp only [if_true] at h ⊢
      exact keyLt_asymm xs ys (!f) hx hy h
    · have he' : ¬ y = x := fun h => he h.symm
      simp only [he, he', if_false, Option.some.injEq] at h ⊢
      exact tokLt_asymm x y h

/-- `a ≤ b ≤ c → a ≤ c` for keys of the same shape (`a ≤ b` is `keyLt b a = some false`) -/
theorem keyLe_trans : ∀ (a b c : List Tok) (f : Bool), Shape f a → Shape f b → Shape f c →
    keyLt b a = some false → keyLt c b = some false → keyLt c a = some false
  | [], _, [], _, _, _, _, _, _ => rfl
  | [], _, _ :: _, _, _, _, _, _, _ => rfl
  | _ :: _, [], _, _, _, _, _, h, _ => by simp [keyLt] at h
  | _ :: _, _ :: _, [], _, _, _, _, _, h => by simp [keyLt] at h
  | x :: xs, y :: ys, z :: zs, f, ha, hb, hc, h1, h2 => by
    obtain ⟨kyx, hy, hx⟩ := Shape.head_sameKind hb ha
    obtain ⟨kzy, hz, _⟩ := Shape.head_sameKind hc hb
    obtain ⟨kzx, _, _⟩ := Shape.head_sameKind hc ha
    obtain ⟨kxy, _, _⟩ := Shape.head_sameKind ha hb
    obtain ⟨kyz, _, _⟩ := Shape.head_sameKind hb hc
    rw [keyLt_cons y x ys xs kyx] at h1
    rw [keyLt_cons z y zs ys kzy] at h2
    rw [keyLt_cons z x zs xs kzx]
    by_cases e1 : y = x
    · subst e1
      simp only [if_true] at h1
      by_cases e2 : z = y
      · subst e2
        simp only [if_true] at h2 ⊢
        exact keyLe_trans xs ys zs (!f) hx hy hz h1 h2
      · simpa [e2] using h2
    · simp only [e1, if_false, Option.some.injEq] at h1
      have hxy : tokLt x y = true := tokLt_connected y x kyx e1 h1
      by_cases e2 : z = y
      · subst e2
        simp [e1, h1]
      · simp only [e2, if_false, Option.some.injEq] at h2
        have hyz : tokLt y z = true := tokLt_connected z y kzy e2 h2
        have hxz : tokLt x z = true := tokLt_trans x y z hxy hyz
        have e3 : ¬ z = x := by
          intro h; subst h; rw [tokLt_irrefl] at hxz; cases hxz
        simp only [e3, if_false, Option.some.injEq]
        exact tokLt_asymm x z hxz

theorem keyLe_antisymm : ∀ (a b : List Tok) (f : Bool), Shape f a → Shape f b →
    keyLt a b = some false → keyLt b a = some false → a = b
  | [], [], _, _, _, _, _ => rfl
  | [], _ :: _, _, _, _, h, _ => by simp [keyLt] at h
  | _ :: _, [], _, _, _, _, h => by simp [keyLt] at h
  | x :: xs, y :: ys, f, ha, hb, h1, h2 => by
    obtain ⟨kxy, hx, hy⟩ := Shape.head_sameKind ha hb
    obtain ⟨kyx, _, _⟩ := Shape.head_sameKind hb ha
    rw [keyLt_cons x y xs ys kxy] at h1
    rw [keyLt_cons y x ys xs kyx] at h2
    by_cases e : x = y
    · subst e
      simp only [if_true] at h1 h2
      rw [keyLe_antisymm xs ys (!f) hx hy h1 h2]
    · have e' : ¬ y = x := fun h => e h.symm
      simp only [e, e', if_false, Option.some.injEq] at h1 h2
      have := tokLt_connected x y kxy e h1
      rw [h2] at this; cases this

/-! ### `re.split('(\d+)', s)` alternates text and digit pieces -/

/-- piece-level shape: text pieces contain no digit, digit pieces are non-empty and all digits -/
def PShape : Bool → List (List Char) → Prop
  | _, [] => True
  | true, p :: l => (p.all (fun c => !isDig c)) = true ∧ PShape false l
  | false, p :: l => (p ≠ [] ∧ p.all isDig = true) ∧ PShape true l

theorem splitDigits_shape : ∀ (cs cur : List Char) (inDig : Bool),
    (inDig = true → cur ≠ [] ∧ cur.all isDig = true) → (inDig = false → cur.all (fun c => !isDig c) = true) →
    PShape (!inDig) (splitDigits cs cur inDig)
  | [], cur, true, h1, _ => by
    have := h1 rfl
    simp only [splitDigits, if_true, Bool.not_true, PShape]
    refine ⟨⟨by simpa using this.1, by simpa using this.2⟩, by simp, trivial⟩
  | [], cur, false, _, h2 => by
    have := h2 rfl
    simp only [splitDigits, Bool.false_eq_true, if_false, Bool.not_false, PShape]
    exact ⟨by simpa using this, trivial⟩
  | c :: cs, cur, true, h1, _ => by
    have hc := h1 rfl
    simp only [splitDigits, if_true]
    by_cases hd : isDig c = true
    · simp only [hd, if_true]
      exact splitDigits_shape cs (c :: cur) true (fun _ => ⟨by simp, by simp [hd, hc.2]⟩) (fun h => by cases h)
    · simp only [hd, Bool.false_eq_true, if_false, Bool.not_true, PShape]
      refine ⟨⟨by simpa using hc.1, by simpa using hc.2⟩, ?_⟩
      have := splitDigits_shape cs [c] false (fun h => by cases h) (fun _ => by simp [hd])
      simpa using this
  | c :: cs, cur, false, _, h2 => by
    have hc := h2 rfl
    simp only [splitDigits, Bool.false_eq_true, if_false]
    by_cases hd : isDig c = true
    · simp only [hd, if_true, Bool.not_false, PShape]
      refine ⟨by simpa using hc, ?_⟩
      have := splitDigits_shape cs [c] true (fun _ => ⟨by simp, by simp [hd]⟩) (fun h => by cases h)
      simpa using this
    · simp only [hd, Bool.false_eq_true, if_false]
      exact splitDigits_shape cs (c :: cur) false (fun h => by cases h) (fun _ => by simp [hd, hc])

theorem map_tok_shape : ∀ (f : Bool) (l : List (List Char)), PShape f l →
    Shape f (l.map (fun t => if (!t.isEmpty && t.all isDig) = true then Tok.num (digitsVal 0 t) else Tok.txt (t.map lowerAscii)))
  | _, [], _ => trivial
  | true, p :: l, h => by
    obtain ⟨h1, h2⟩ := h
    have : (!p.isEmpty && p.all isDig) = false := by
      cases p with
      | nil => rfl
      | cons c cs =>
        simp only [List.all_cons, Bool.and_eq_true, Bool.not_eq_eq_eq_not, Bool.not_true] at h1
        simp [h1.1]
    simp only [List.map_cons, this, Bool.false_eq_true, if_false, Shape]
    exact map_tok_shape false l h2
  | false, p :: l, h => by
    obtain ⟨⟨h0, h1⟩, h2⟩ := h
    have : (!p.isEmpty && p.all isDig) = true := by
      cases p with
      | nil => exact absurd rfl h0
      | cons c cs => simpa using h1
    simp only [List.map_cons, this, if_true, Shape]
    exact map_tok_shape true l h2

/-- every key starts with a text token and alternates text / number tokens -/
theorem natKey_shape (s : List Char) : Shape true (natKey s) := by
  unfold natKey
  have := splitDigits_shape s [] false (fun h => by cases h) (fun _ => rfl)
  exact map_tok_shape true _ (by simpa using this)

/-! ### the sort -/

/-- the comparison used by the sort, as a total Boolean function on names -/
def nameLt {α} (name : α → List Char) (a b : α) : Bool := keyLt (natKey (name a)) (natKey (name b)) == some true

theorem nameLt_strict {α} (name : α → List Char) : StrictOrd (nameLt name) where
  asymm a b h := by
    unfold nameLt at *
    have := keyLt_asymm _ _ true (natKey_shape (name a)) (natKey_shape (name b)) (by simpa using h)
    simp [this]
  le_trans a b c h1 h2 := by
    unfold nameLt at *
    have d1 := keyLt_defined _ _ true (natKey_shape (name b)) (natKey_shape (name a))
    have d2 := keyLt_defined _ _ true (natKey_shape (name c)) (natKey_shape (name b))
    obtain ⟨r1, hr1⟩ := d1
    obtain ⟨r2, hr2⟩ := d2
    have e1 : r1 = false := by cases r1 <;> simp_all
    have e2 : r2 = false := by cases r2 <;> simp_all
    subst e1; subst e2
    have := keyLe_trans _ _ _ true (natKey_shape (name a)) (natKey_shape (name b)) (natKey_shape (name c)) hr1 hr2
    simp [this]

theorem insKey_eq {α} (name : α → List Char) (x : α) : ∀ l : List α, insKey name x l = some (insBy (nameLt name) x l)
  | [] => rfl
  | y :: ys => by
    obtain ⟨r, hr⟩ := keyLt_defined _ _ true (natKey_shape (name y)) (natKey_shape (name x))
    cases r
    · simp [insKey, insBy, nameLt, hr]
    · simp [insKey, insBy, nameLt, hr, insKey_eq name x ys]

/-- the sort never raises and is the stable insertion sort by the natural key -/
theorem sortNatural_eq {α} (name : α → List Char) : ∀ l : List α, sortNatural name l = some (isortBy (nameLt name) l)
  | [] => rfl
  | x :: xs => by
    simp only [sortNatural, sortNatural_eq name xs, isortBy, insKey_eq]

end IsoVerif.Lemmas.C03
