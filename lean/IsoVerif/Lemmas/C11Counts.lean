/-
C11 helper lemmas — Model/FeatureCounts.lean (C13) under translation.
-/
import IsoVerif.Model.FeatureCounts
import IsoVerif.Model.C11SymCounts
import IsoVerif.Lemmas.C11Shift
import IsoVerif.Lemmas.C11ShiftProfiles

namespace IsoVerif.Lemmas.C11
open IsoVerif.Gen IsoVerif.Model IsoVerif.Model.C11 IsoVerif.Model.C13

/-! ## association lists under an injective key map -/

theorem fc_shiftKey_inj (k : Int) (a b : CoordKey) : shiftKey k a = shiftKey k b ↔ a = b := by
  obtain ⟨a1, a2, a3⟩ := a
  obtain ⟨b1, b2, b3⟩ := b
  simp only [shiftKey, Prod.mk.injEq]
  constructor
  · rintro ⟨h1, h2, h3⟩; exact ⟨h1, by omega, by omega⟩
  · rintro ⟨h1, h2, h3⟩; exact ⟨h1, by omega, by omega⟩

theorem fc_shiftKey_beq (k : Int) (a b : CoordKey) : (shiftKey k a == shiftKey k b) = (a == b) := by
  rw [Bool.eq_iff_iff]; simp only [beq_iff_eq]; exact fc_shiftKey_inj k a b

theorem fc_pairKey_beq (k : Int) (a b : CoordKey × Nat) :
    ((shiftKey k a.1, a.2) == (shiftKey k b.1, b.2)) = (a == b) := by
  obtain ⟨a1, a2⟩ := a
  obtain ⟨b1, b2⟩ := b
  show ((shiftKey k a1 == shiftKey k b1) && (a2 == b2)) = ((a1 == b1) && (a2 == b2))
  rw [fc_shiftKey_beq]

theorem fc_incr_shift (k : Int) (m : List ((CoordKey × Nat) × Nat)) (a : CoordKey × Nat) :
    incr (m.map (fun p => ((shiftKey k p.1.1, p.1.2), p.2))) (shiftKey k a.1, a.2) =
      (incr m a).map (fun p => ((shiftKey k p.1.1, p.1.2), p.2)) := by
  induction m with
  | nil => rfl
  | cons p ps ih =>
    obtain ⟨b, n⟩ := p
    simp only [List.map_cons, incr]
    rw [fc_pairKey_beq k a b]
    split
    · rfl
    · simp only [List.map_cons, ih]

theorem fc_lookup_shift {β γ} (k : Int) (f : β → γ) (m : List (CoordKey × β)) (a : CoordKey) :
    (m.map (fun p => (shiftKey k p.1, f p.2))).lookup (shiftKey k a) = (m.lookup a).map f := by
  induction m with
  | nil => rfl
  | cons p ps ih =>
    obtain ⟨pk, pv⟩ := p
    simp only [List.map_cons, List.lookup_cons, fc_shiftKey_beq]
    cases a == pk <;> simp [ih]

theorem fc_merge_shift (k : Int) (a b : FeatureInfo) : (shiftFI k a).merge (shiftFI k b) = shiftFI k (a.merge b) := by
  unfold FeatureInfo.merge
  have hl : ∀ f : FeatureInfo, (shiftFI k f).label = f.label := fun _ => rfl
  rw [hl a, hl b]
  split <;> rfl

theorem fc_addName_shift (k : Int) (names : List (CoordKey × FeatureInfo)) (c : CoordKey) (fi : FeatureInfo) :
    addName FeatureInfo.merge (names.map (fun p => (shiftKey k p.1, shiftFI k p.2))) (shiftKey k c) (shiftFI k fi) =
      (addName FeatureInfo.merge names c fi).map (fun p => (shiftKey k p.1, shiftFI k p.2)) := by
  induction names with
  | nil => rfl
  | cons p ps ih =>
    obtain ⟨pk, pv⟩ := p
    simp only [List.map_cons, addName, fc_shiftKey_beq]
    split
    · simp only [List.map_cons, fc_merge_shift]
    · simp only [List.map_cons, ih]

theorem fc_coordKey_shift (k : Int) (f : FeatureInfo) : coordKey (shiftFI k f) = shiftKey k (coordKey f) := rfl

theorem fc_addLoop_shift (k : Int) (gid : Nat) : ∀ (prof : List Int) (pm : List FeatureInfo) (st : PCounter CoordKey),
    addLoop coordKey FeatureInfo.merge gid prof (pm.map (shiftFI k)) (shiftCounter k st) =
      (addLoop coordKey FeatureInfo.merge gid prof pm st).map (shiftCounter k) := by
  intro prof
  induction prof with
  | nil => intro pm st; rfl
  | cons v vs ih =>
    intro pm st
    simp only [addLoop]
    split
    · cases pm with
      | nil => rfl
      | cons fi rest =>
        simp only [List.map_cons]
        rw [← ih rest]
        congr 1
        simp only [shiftCounter, fc_coordKey_shift]
        have e1 := fc_incr_shift k st.incl (coordKey fi, gid)
        have e2 := fc_addName_shift k st.names (coordKey fi) fi
        simp only at e1
        rw [e1, e2]
    · split
      · cases pm with
        | nil => rfl
        | cons fi rest =>
          simp only [List.map_cons]
          rw [← ih rest]
          congr 1
          simp only [shiftCounter, fc_coordKey_shift]
          have e1 := fc_incr_shift k st.excl (coordKey fi, gid)
          have e2 := fc_addName_shift k st.names (coordKey fi) fi
          simp only at e1
          rw [e1, e2]
      · rw [← List.map_tail]; exact ih pm.tail st

theorem fc_ensureGroup_shift (k : Int) (st : PCounter CoordKey) (g : String) :
    ensureGroup (shiftCounter k st) g = shiftCounter k (ensureGroup st g) := by
  simp only [ensureGroup, shiftCounter]
  cases st.groupIds.lookup g <;> rfl

theorem fc_addReadInfoFromProfile_shift (k : Int) (st : PCounter CoordKey) (prof : List Int) (pm : List FeatureInfo)
    (g : String) :
    addReadInfoFromProfile coordKey FeatureInfo.merge (shiftCounter k st) prof (pm.map (shiftFI k)) g =
      (addReadInfoFromProfile coordKey FeatureInfo.merge st prof pm g).map (shiftCounter k) := by
  simp only [addReadInfoFromProfile, fc_ensureGroup_shift]
  have : (shiftCounter k (ensureGroup st g)).groupIds = (ensureGroup st g).groupIds := rfl
  rw [this]
  cases (ensureGroup st g).groupIds.lookup g with
  | none => rfl
  | some gid => exact fc_addLoop_shift k gid prof pm _

theorem fc_runCounter_shift (k : Int) (ig : Bool) (dg : String) : ∀ (evs : List ReadEv) (st : PCounter CoordKey),
    runCounter coordKey FeatureInfo.merge ig dg (shiftCounter k st) (evs.map (shiftReadEv k)) =
      (runCounter coordKey FeatureInfo.merge ig dg st evs).map (shiftCounter k) := by
  intro evs
  induction evs with
  | nil => intro st; rfl
  | cons ev evs ih =>
    intro st
    simp only [List.map_cons, runCounter, addReadInfo, shiftReadEv]
    rw [fc_addReadInfoFromProfile_shift]
    cases addReadInfoFromProfile coordKey FeatureInfo.merge st ev.profile ev.pmap (if ig = true then dg else ev.group) with
    | none => rfl
    | some st' => simp only [Option.map_some]; exact ih st'

theorem fc_getCount_shift (k : Int) (m : List ((CoordKey × Nat) × Nat)) (a : CoordKey × Nat) :
    getCount (m.map (fun p => ((shiftKey k p.1.1, p.1.2), p.2))) (shiftKey k a.1, a.2) = getCount m a := by
  simp only [getCount]
  have : (m.map (fun p => ((shiftKey k p.1.1, p.1.2), p.2))).lookup (shiftKey k a.1, a.2) = m.lookup a := by
    induction m with
    | nil => rfl
    | cons p ps ih =>
      obtain ⟨pk, pv⟩ := p
      simp only [List.map_cons, List.lookup_cons]
      rw [fc_pairKey_beq k a pk]
      cases a == pk <;> simp [ih]
  rw [this]

theorem fc_dumpRows_shift (k : Int) (st : PCounter CoordKey) :
    dumpRows (shiftCounter k st) = (dumpRows st).map (shiftRow k) := by
  simp only [dumpRows, shiftCounter, List.flatMap_map, List.map_flatMap]
  congr 1
  funext p
  obtain ⟨c, fi⟩ := p
  simp only [List.map_filterMap]
  congr 1
  funext g
  cases st.groupIds.lookup g with
  | none => rfl
  | some gid =>
    have e1 := fc_getCount_shift k st.incl (c, gid)
    have e2 := fc_getCount_shift k st.excl (c, gid)
    simp only at e1 e2
    simp only [e1, e2]
    split <;> simp [shiftRow]

/-! ## FeatureInfo construction -/

theorem fc_shiftIv_beq (k : Int) (a b : Iv) : (shiftIv k a == shiftIv k b) = (a == b) := by
  rw [Bool.eq_iff_iff]; simp only [beq_iff_eq]
  obtain ⟨a1, a2⟩ := a
  obtain ⟨b1, b2⟩ := b
  simp only [shiftIv, Prod.mk.injEq]
  constructor <;> (rintro ⟨h1, h2⟩; exact ⟨by omega, by omega⟩)

theorem fc_isoformEntries_shift (k : Int) (feats : List Iv) :
    isoformEntries (shiftL k feats) = (isoformEntries feats).map (fun e => (shiftIv k e.1, e.2)) := by
  match feats with
  | [] => rfl
  | [f] => rfl
  | f :: g :: rest =>
    simp only [shiftL_cons, isoformEntries]
    rw [← shiftL_cons, shiftL_getLast?]
    cases (g :: rest).getLast? with
    | none => simp [shiftL, List.map_dropLast, Function.comp_def]
    | some l => simp [shiftL, List.map_dropLast, Function.comp_def]

theorem fc_featureEntries_shift (k : Int) (isoforms : List IsoformFeatures) (f : Iv) :
    featureEntries (isoforms.map (shiftIsoFeats k)) (shiftIv k f) = featureEntries isoforms f := by
  simp only [featureEntries, List.flatMap_map]
  congr 1
  funext t
  simp only [shiftIsoFeats, fc_isoformEntries_shift, List.filter_map, List.map_map]
  congr 1
  apply List.filter_congr
  intro e _
  simp only [Function.comp, fc_shiftIv_beq]

theorem fc_featureType_shift (k : Int) (features : List Iv) (delta : Int) (f : Iv) (es : List (String × String × Bool)) :
    featureType (shiftL k features) delta (shiftIv k f) es = featureType features delta f es := by
  simp only [featureType, shiftL, List.any_map]
  have e1 : ((fun g => g != shiftIv k f && (equal_ranges (shiftIv k f) g delta || equal_ranges g (shiftIv k f) delta)) ∘ shiftIv k) =
      (fun g => g != f && (equal_ranges f g delta || equal_ranges g f delta)) := by
    funext g
    simp only [Function.comp, bne, fc_shiftIv_beq]
    have a1 : equal_ranges (shiftIv k f) (shiftIv k g) delta = equal_ranges f g delta := by
      simp only [equal_ranges, shiftIv, iabs]; grind
    have a2 : equal_ranges (shiftIv k g) (shiftIv k f) delta = equal_ranges g f delta := by
      simp only [equal_ranges, shiftIv, iabs]; grind
    rw [a1, a2]
  have e2 : ((fun g => g != shiftIv k f && contains g (shiftIv k f)) ∘ shiftIv k) = (fun g => g != f && contains g f) := by
    funext g
    simp only [Function.comp, bne, fc_shiftIv_beq]
    have a1 : contains (shiftIv k g) (shiftIv k f) = contains g f := by simp only [contains, shiftIv]; grind
    rw [a1]
  rw [e1, e2]

theorem fc_setFeatureProperties_shift (k : Int) (chr : String) (delta : Int) (features : List Iv)
    (isoforms : List IsoformFeatures) (nextId : Nat) :
    setFeatureProperties chr delta (shiftL k features) (isoforms.map (shiftIsoFeats k)) nextId =
      (setFeatureProperties chr delta features isoforms nextId).map (shiftFI k) := by
  simp only [setFeatureProperties]
  have hz : (shiftL k features).zipIdx = features.zipIdx.map (fun x => (shiftIv k x.1, x.2)) := by
    simp only [shiftL]; rw [List.zipIdx_map]; rfl
  rw [hz, List.map_map, List.map_map]
  congr 1
  funext x
  simp only [Function.comp, mkFeatureInfo, fc_featureEntries_shift, fc_featureType_shift]
  rfl

end IsoVerif.Lemmas.C11
