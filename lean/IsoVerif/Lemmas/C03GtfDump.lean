/-
What one `dump` call writes, stated in terms of the models handed to it (consequences of Lemmas/Gtf.lean).
Core Lean only.
-/
import IsoVerif.Lemmas.C03Gtf
import IsoVerif.Lemmas.Interval

namespace IsoVerif.Lemmas.C03
open IsoVerif.Gen IsoVerif.Model IsoVerif.Model.C03 IsoVerif.Lemmas

/-- the valid models of gene `g` in storage order -/
def validOfGene (models : List TModel) (g : Id) : List TModel :=
  (models.filter validM).filter (fun m => decide (m.gid = g))

theorem ofGene_map_fst (seen : List (TModel × Iv)) (g : Id) :
    (ofGene seen g).map (·.1) = (seen.map (·.1)).filter (fun m => decide (m.gid = g)) := by
  unfold ofGene
  induction seen with
  | nil => rfl
  | cons p t ih =>
    simp only [List.filter_cons, List.map_cons]
    by_cases h : p.1.gid = g <;> simp [h, ih]

theorem mem_featLines_not_tx (m : TModel) (c : Id) (s e : Int) (st : Strand) (g t : Id) :
    Line.tx c s e st g t ∉ featLines m := by
  unfold featLines
  simp

theorem mem_featLines_not_gene (m : TModel) (c : Id) (s e : Int) (st : Strand) (g : Id) (n : Nat) :
    Line.gene c s e st g n ∉ featLines m := by
  unfold featLines
  simp

theorem mem_txBlock_tx (p : TModel × Iv) (c : Id) (s e : Int) (st : Strand) (g t : Id) :
    Line.tx c s e st g t ∈ txBlock p ↔
      (p.1.chr = c ∧ p.2.1 = s ∧ p.2.2 = e ∧ p.1.strand = st ∧ p.1.gid = g ∧ p.1.tid = t) := by
  unfold txBlock
  simp only [List.mem_cons, Line.tx.injEq]
  constructor
  · rintro (h | h)
    · obtain ⟨h1, h2, h3, h4, h5, h6⟩ := h
      exact ⟨h1.symm, h2.symm, h3.symm, h4.symm, h5.symm, h6.symm⟩
    · exact absurd h (mem_featLines_not_tx _ _ _ _ _ _ _)
  · rintro ⟨h1, h2, h3, h4, h5, h6⟩
    exact Or.inl ⟨h1.symm, h2.symm, h3.symm, h4.symm, h5.symm, h6.symm⟩

theorem mem_txBlock_not_gene (p : TModel × Iv) (c : Id) (s e : Int) (st : Strand) (g : Id) (n : Nat) :
    Line.gene c s e st g n ∉ txBlock p := by
  unfold txBlock
  simp only [List.mem_cons, not_or]
  exact ⟨by simp, mem_featLines_not_gene _ _ _ _ _ _ _⟩

/-- every model processed by the first loop is one of the valid models handed over, with its region -/
theorem seen_mem {ctx : GeneCtx} {seen : List (TModel × Iv)} {acc : Acc} {models : List TModel}
    (hinv : Inv ctx seen acc) (hs : seen.map (·.1) = models.filter validM) (m : TModel) (tr : Iv) :
    (m, tr) ∈ seen ↔ (m ∈ models ∧ validM m = true ∧ regionOf? m = some tr) := by
  constructor
  · intro hp
    have h1 : m ∈ seen.map (·.1) := List.mem_map_of_mem (f := (·.1)) hp
    rw [hs, List.mem_filter] at h1
    exact ⟨h1.1, h1.2, (hinv.seen_ok _ hp).2.1⟩
  · rintro ⟨hm, hv, hr⟩
    have h1 : m ∈ seen.map (·.1) := by rw [hs, List.mem_filter]; exact ⟨hm, hv⟩
    obtain ⟨p, hp, hpe⟩ := List.mem_map.mp h1
    have := (hinv.seen_ok p hp).2.1
    obtain ⟨pm, ptr⟩ := p
    simp only at hpe
    subst hpe
    rw [hr] at this
    simp only [Option.some.injEq] at this
    subst this
    exact hp

/-- transcript lines of one call = the valid models of the call -/
theorem dump_tx_line {printed p' : List Id} {ctx : GeneCtx} {models : List TModel} {lines : List Line}
    (h : dump printed ctx models = some (p', lines)) (c : Id) (s e : Int) (st : Strand) (g t : Id) :
    Line.tx c s e st g t ∈ lines ↔
      ∃ m ∈ models, validM m = true ∧ regionOf? m = some (s, e) ∧ m.chr = c ∧ m.strand = st ∧ m.gid = g ∧ m.tid = t := by
  obtain ⟨acc, seen, hinv, hs, hl, _⟩ := dump_spec h
  subst hl
  simp only [List.mem_flatMap, geneBlock, List.mem_append]
  constructor
  · rintro ⟨⟨g', r⟩, _, hin⟩
    rcases hin with hin | ⟨p, hp, hin⟩
    · split at hin <;> simp at hin
    · rw [hinv.mods_eq] at hp
      have hp' : p ∈ seen := (List.mem_filter.mp hp).1
      rw [mem_txBlock_tx] at hin
      obtain ⟨pm, ptr⟩ := p
      have := (seen_mem hinv hs pm ptr).mp hp'
      obtain ⟨h1, h2, h3, h4, h5, h6⟩ := hin
      simp only at h1 h2 h3 h4 h5 h6
      refine ⟨pm, this.1, this.2.1, ?_, h1, h4, h5, h6⟩
      rw [this.2.2, ← h2, ← h3]
  · rintro ⟨m, hm, hv, hr, h1, h4, h5, h6⟩
    have hp : (m, (s, e)) ∈ seen := (seen_mem hinv hs m (s, e)).mpr ⟨hm, hv, hr⟩
    have hk : g ∈ acc.keys := (hinv.keys_iff g).mpr ⟨(m, (s, e)), hp, h5⟩
    obtain ⟨⟨g', r⟩, hgr, hge⟩ := List.mem_map.mp ((mem_geneOrder_fst hinv g).mpr hk)
    simp only at hge
    subst hge
    refine ⟨(g', r), hgr, Or.inr ⟨(m, (s, e)), ?_, ?_⟩⟩
    · rw [hinv.mods_eq]
      exact List.mem_filter.mpr ⟨hp, by simpa using h5⟩
    · rw [mem_txBlock_tx]
      exact ⟨h1, rfl, rfl, h4, h5, h6⟩

/-- what a gene line of one call says -/
structure GeneLineFacts (printed : List Id) (ctx : GeneCtx) (models : List TModel)
    (c : Id) (s e : Int) (st : Strand) (g : Id) (n : Nat) : Prop where
  fresh : g ∉ printed
  chr : c = ctx.chr
  nonempty : ∃ m ∈ models, validM m = true ∧ m.gid = g
  models_chr : ∀ m ∈ models, validM m = true → m.gid = g → m.chr = ctx.chr
  contains : ∀ m ∈ models, validM m = true → m.gid = g → ∀ tr, regionOf? m = some tr → s ≤ tr.1 ∧ tr.2 ≤ e
  contains_ref : ∀ rr, ctx.regions.lookup g = some rr → s ≤ rr.1 ∧ rr.2 ≤ e
  tight_start : (∃ rr, ctx.regions.lookup g = some rr ∧ rr.1 = s) ∨
    ∃ m ∈ models, validM m = true ∧ m.gid = g ∧ ∃ tr, regionOf? m = some tr ∧ tr.1 = s
  tight_end : (∃ rr, ctx.regions.lookup g = some rr ∧ rr.2 = e) ∨
    ∃ m ∈ models, validM m = true ∧ m.gid = g ∧ ∃ tr, regionOf? m = some tr ∧ tr.2 = e
  strand_last : ∃ m, (validOfGene models g).getLast? = some m ∧ st = m.strand
  count : n = (validOfGene models g).length

theorem getLast?_map {α β} (f : α → β) (l : List α) : (l.map f).getLast? = l.getLast?.map f := by
  induction l with
  | nil => rfl
  | cons a t ih =>
    cases t with
    | nil => rfl
    | cons b t' => simpa [List.getLast?_cons_cons] using ih

theorem dump_gene_line {printed p' : List Id} {ctx : GeneCtx} {models : List TModel} {lines : List Line}
    (h : dump printed ctx models = some (p', lines)) {c : Id} {s e : Int} {st : Strand} {g : Id} {n : Nat}
    (hl : Line.gene c s e st g n ∈ lines) : GeneLineFacts printed ctx models c s e st g n := by
  obtain ⟨acc, seen, hinv, hs, hlines, _⟩ := dump_spec h
  subst hlines
  simp only [List.mem_flatMap, geneBlock, List.mem_append] at hl
  obtain ⟨⟨g', r⟩, hgr, hin⟩ := hl
  rcases hin with hin | ⟨p, _, hin⟩
  · have hin' : g' ∉ printed ∧ c = r.chr ∧ s = r.range.1 ∧ e = r.range.2 ∧ st = r.strand ∧ g = g' ∧
        n = (acc.mods g').length := by
      by_cases hc : g' ∈ printed <;> simp_all
    obtain ⟨hc, h1, h2, h3, h4, h5, h6⟩ := hin'
    · subst h5
      have hinfo := (mem_geneOrder hinv g r).mp hgr
      have hvo : (ofGene seen g).map (·.1) = validOfGene models g := by
        rw [ofGene_map_fst, hs]; rfl
      have hcont := hinv.rec_contains g r hinfo
      have htight := hinv.rec_tight g r hinfo
      have hk : g ∈ acc.keys := (hinv.info_iff g).mp (by simp [hinfo])
      obtain ⟨p0, hp0, hp0g⟩ := (hinv.keys_iff g).mp hk
      constructor
      · exact hc
      · rw [h1]; exact hinv.rec_chr g r hinfo
      · obtain ⟨pm, ptr⟩ := p0
        have := (seen_mem hinv hs pm ptr).mp hp0
        exact ⟨pm, this.1, this.2.1, hp0g⟩
      · intro m hm hv hg
        cases hr : regionOf? m with
        | none =>
          -- a valid model with an empty exon list aborts the call; it cannot be in `seen`
          have : m ∈ seen.map (·.1) := by rw [hs, List.mem_filter]; exact ⟨hm, hv⟩
          obtain ⟨p, hp, hpe⟩ := List.mem_map.mp this
          have := (hinv.seen_ok p hp).2.1
          rw [hpe, hr] at this
          simp at this
        | some tr =>
          exact (hinv.seen_ok _ ((seen_mem hinv hs m tr).mpr ⟨hm, hv, hr⟩)).2.2
      · intro m hm hv hg tr hr
        have := hcont.1 (m, tr) ((seen_mem hinv hs m tr).mpr ⟨hm, hv, hr⟩) hg
        rw [h2, h3]; exact this
      · intro rr hrr
        rw [h2, h3]; exact hcont.2 rr hrr
      · rw [h2]
        rcases htight.1 with h7 | ⟨p, hp, hpg, hpe⟩
        · exact Or.inl h7
        · obtain ⟨pm, ptr⟩ := p
          have := (seen_mem hinv hs pm ptr).mp hp
          exact Or.inr ⟨pm, this.1, this.2.1, hpg, ptr, this.2.2, hpe⟩
      · rw [h3]
        rcases htight.2 with h7 | ⟨p, hp, hpg, hpe⟩
        · exact Or.inl h7
        · obtain ⟨pm, ptr⟩ := p
          have := (seen_mem hinv hs pm ptr).mp hp
          exact Or.inr ⟨pm, this.1, this.2.1, hpg, ptr, this.2.2, hpe⟩
      · obtain ⟨p, hp, hps⟩ := hinv.rec_strand g r hinfo
        refine ⟨p.1, ?_, by rw [h4, hps]⟩
        rw [← hvo, getLast?_map, hp]; rfl
      · rw [h6, hinv.mods_eq, ← hvo, List.length_map]
  · exact absurd hin (mem_txBlock_not_gene _ _ _ _ _ _ _)

/-- a gene line is written for exactly the genes that have a valid model in the call and were not printed before -/
theorem dump_gene_line_exists {printed p' : List Id} {ctx : GeneCtx} {models : List TModel} {lines : List Line}
    (h : dump printed ctx models = some (p', lines)) (g : Id) (hfresh : g ∉ printed)
    (hm : ∃ m ∈ models, validM m = true ∧ m.gid = g) :
    ∃ c s e st n, Line.gene c s e st g n ∈ lines := by
  obtain ⟨acc, seen, hinv, hs, hlines, _⟩ := dump_spec h
  subst hlines
  obtain ⟨m, hm1, hv, hg⟩ := hm
  have : m ∈ seen.map (·.1) := by rw [hs, List.mem_filter]; exact ⟨hm1, hv⟩
  obtain ⟨p, hp, hpe⟩ := List.mem_map.mp this
  have hk : g ∈ acc.keys := (hinv.keys_iff g).mpr ⟨p, hp, by rw [hpe]; exact hg⟩
  obtain ⟨⟨g', r⟩, hgr, hge⟩ := List.mem_map.mp ((mem_geneOrder_fst hinv g).mpr hk)
  simp only at hge
  subst hge
  refine ⟨r.chr, r.range.1, r.range.2, r.strand, (acc.mods g').length, ?_⟩
  simp only [List.mem_flatMap, geneBlock, List.mem_append]
  refine ⟨(g', r), hgr, Or.inl ?_⟩
  simp [hfresh]

/-- the new `printed_gene_ids` -/
theorem dump_printed {printed p' : List Id} {ctx : GeneCtx} {models : List TModel} {lines : List Line}
    (h : dump printed ctx models = some (p', lines)) (g : Id) :
    g ∈ p' ↔ g ∈ printed ∨ ∃ m ∈ models, validM m = true ∧ m.gid = g := by
  obtain ⟨acc, seen, hinv, hs, _, hp⟩ := dump_spec h
  rw [hp g, hinv.keys_iff g]
  constructor
  · rintro (h1 | ⟨p, hp1, hpg⟩)
    · exact Or.inl h1
    · obtain ⟨pm, ptr⟩ := p
      have := (seen_mem hinv hs pm ptr).mp hp1
      exact Or.inr ⟨pm, this.1, this.2.1, hpg⟩
  · rintro (h1 | ⟨m, hm1, hv, hg⟩)
    · exact Or.inl h1
    · have : m ∈ seen.map (·.1) := by rw [hs, List.mem_filter]; exact ⟨hm1, hv⟩
      obtain ⟨p, hp1, hpe⟩ := List.mem_map.mp this
      exact Or.inr ⟨p, hp1, by rw [hpe]; exact hg⟩

end IsoVerif.Lemmas.C03

namespace IsoVerif.Lemmas.C03
open IsoVerif.Gen IsoVerif.Model IsoVerif.Model.C03 IsoVerif.Lemmas

/-! ### projections of the output -/

def geneId? : Line → Option Id
  | .gene _ _ _ _ g _ => some g
  | _ => none

def txId? : Line → Option Id
  | .tx _ _ _ _ _ t => some t
  | _ => none

/-- gene ids of the gene records, in file order -/
def geneIds (ls : List Line) : List Id := ls.filterMap geneId?
/-- transcript ids of the transcript records, in file order -/
def txIds (ls : List Line) : List Id := ls.filterMap txId?

theorem mem_geneIds (ls : List Line) (g : Id) :
    g ∈ geneIds ls ↔ ∃ c s e st n, Line.gene c s e st g n ∈ ls := by
  unfold geneIds
  simp only [List.mem_filterMap]
  constructor
  · rintro ⟨l, hl, hg⟩
    cases l with
    | gene c s e st g' n => simp [geneId?] at hg; subst hg; exact ⟨c, s, e, st, n, hl⟩
    | tx => simp [geneId?] at hg
    | feat => simp [geneId?] at hg
  · rintro ⟨c, s, e, st, n, hl⟩
    exact ⟨_, hl, rfl⟩

theorem filterMap_flatMap' {α β γ} (f : β → Option γ) (g : α → List β) (l : List α) :
    (l.flatMap g).filterMap f = l.flatMap (fun a => (g a).filterMap f) := by
  induction l with
  | nil => rfl
  | cons a t ih => simp [List.flatMap_cons, List.filterMap_append, ih]

theorem geneIds_txBlocks (l : List (TModel × Iv)) : geneIds (l.flatMap txBlock) = [] := by
  unfold geneIds
  rw [List.filterMap_eq_nil_iff]
  intro ln hln
  obtain ⟨p, _, hp⟩ := List.mem_flatMap.mp hln
  cases ln with
  | gene c s e st g n => exact absurd hp (mem_txBlock_not_gene _ _ _ _ _ _ _)
  | tx => rfl
  | feat => rfl

theorem txIds_featLines (m : TModel) : txIds (featLines m) = [] := by
  unfold txIds featLines
  rw [List.filterMap_eq_nil_iff]
  intro ln hln
  simp only [List.mem_map] at hln
  obtain ⟨_, _, he⟩ := hln
  subst he; rfl

theorem txIds_txBlocks (l : List (TModel × Iv)) : txIds (l.flatMap txBlock) = l.map (·.1.tid) := by
  induction l with
  | nil => rfl
  | cons p t ih =>
    have : txIds (txBlock p) = [p.1.tid] := by
      unfold txBlock
      show List.filterMap txId? (_ :: _) = _
      rw [List.filterMap_cons]
      simp only [txId?]
      exact congrArg _ (txIds_featLines p.1)
    unfold txIds at *
    simp [List.flatMap_cons, List.filterMap_append, this, ih]

theorem geneIds_block (acc : Acc) (printed : List Id) (p : Id × GRec) :
    geneIds (geneBlock acc printed p) = if printed.contains p.1 then [] else [p.1] := by
  unfold geneBlock
  have h2 := geneIds_txBlocks (acc.mods p.1)
  unfold geneIds at *
  rw [List.filterMap_append, h2]
  by_cases hc : p.1 ∈ printed <;> simp [hc, geneId?]

theorem txIds_block (acc : Acc) (printed : List Id) (p : Id × GRec) :
    txIds (geneBlock acc printed p) = (acc.mods p.1).map (·.1.tid) := by
  unfold geneBlock
  have h2 := txIds_txBlocks (acc.mods p.1)
  unfold txIds at *
  rw [List.filterMap_append, h2]
  by_cases hc : p.1 ∈ printed <;> simp [hc, txId?]

/-- grouping a list by a key that ranges over a duplicate-free key list is a permutation -/
theorem flatMap_filter_perm {α} (key : α → Id) : ∀ (ks : List Id) (l : List α), ks.Nodup → (∀ a ∈ l, key a ∈ ks) →
    (ks.flatMap (fun k => l.filter (fun a => decide (key a = k)))).Perm l := by
  intro ks
  induction ks with
  | nil =>
    intro l _ h
    cases l with
    | nil => simp
    | cons a t => exact absurd (h a (by simp)) (by simp)
  | cons k ks ih =>
    intro l hnd h
    rw [List.nodup_cons] at hnd
    simp only [List.flatMap_cons]
    have hrest : ks.flatMap (fun k' => l.filter (fun a => decide (key a = k'))) =
        ks.flatMap (fun k' => (l.filter (fun a => !decide (key a = k))).filter (fun a => decide (key a = k'))) := by
      apply flatMap_congr_mem
      intro k' hk'
      rw [List.filter_filter]
      apply List.filter_congr
      intro a _
      by_cases h1 : key a = k'
      · have : k' ≠ k := by intro h2; exact hnd.1 (h2 ▸ hk')
        simp [h1, this]
      · simp [h1]
    rw [hrest]
    have ih' := ih (l.filter (fun a => !decide (key a = k))) hnd.2 (by
      intro a ha
      rw [List.mem_filter] at ha
      have := h a ha.1
      simp only [List.mem_cons] at this
      rcases this with h1 | h1
      · simp [h1] at ha
      · exact h1)
    exact (List.Perm.append_left _ ih').trans (List.filter_append_perm _ l)

/-- gene records and transcript records of one call -/
theorem dump_ids {printed p' : List Id} {ctx : GeneCtx} {models : List TModel} {lines : List Line}
    (h : dump printed ctx models = some (p', lines)) :
    (geneIds lines).Nodup ∧ (∀ g ∈ geneIds lines, g ∉ printed) ∧
    (txIds lines).Perm ((models.filter validM).map (·.tid)) := by
  obtain ⟨acc, seen, hinv, hs, hl, _⟩ := dump_spec h
  subst hl
  have hg : geneIds ((geneOrder acc).flatMap (geneBlock acc printed)) =
      ((geneOrder acc).map (·.1)).filter (fun g => !printed.contains g) := by
    unfold geneIds
    rw [filterMap_flatMap']
    have : ∀ p, List.filterMap geneId? (geneBlock acc printed p) = if printed.contains p.1 then [] else [p.1] :=
      geneIds_block acc printed
    simp only [this]
    induction geneOrder acc with
    | nil => rfl
    | cons q t ih =>
      simp only [List.flatMap_cons, List.map_cons, List.filter_cons, ih]
      by_cases hc : q.1 ∈ printed <;> simp [hc]
  refine ⟨?_, ?_, ?_⟩
  · rw [hg]; exact (geneOrder_nodup hinv).sublist List.filter_sublist
  · intro g hgm
    rw [hg, List.mem_filter] at hgm
    simpa using hgm.2
  · have ht : txIds ((geneOrder acc).flatMap (geneBlock acc printed)) =
        ((geneOrder acc).map (·.1)).flatMap (fun g => (ofGene seen g).map (·.1.tid)) := by
      unfold txIds
      rw [filterMap_flatMap']
      have : ∀ p, List.filterMap txId? (geneBlock acc printed p) = (acc.mods p.1).map (·.1.tid) := txIds_block acc printed
      simp only [this, List.flatMap_map, hinv.mods_eq]
    rw [ht]
    have hperm : ((geneOrder acc).map (·.1)).Perm acc.keys := by
      unfold geneOrder
      have hp := (isortBy_perm (fun a b : Id × GRec => ivLt a.2.range b.2.range)
        (acc.keys.filterMap (fun g => (acc.info g).map (fun r => (g, r))))).map (·.1)
      refine hp.trans ?_
      rw [geneOrder_fst]
      have : acc.keys.filter (fun g => (acc.info g).isSome) = acc.keys := by
        rw [List.filter_eq_self]
        intro g hg; exact (hinv.info_iff g).mpr hg
      rw [this]
    refine (hperm.flatMap_right _).trans ?_
    have h1 : acc.keys.flatMap (fun g => (ofGene seen g).map (·.1.tid)) =
        (acc.keys.flatMap (fun g => seen.filter (fun p => decide (p.1.gid = g)))).map (·.1.tid) := by
      rw [List.map_flatMap]; rfl
    rw [h1, ← hs, List.map_map]
    exact (flatMap_filter_perm (fun p : TModel × Iv => p.1.gid) acc.keys seen hinv.keys_nodup
      (fun p hp => (hinv.keys_iff _).mpr ⟨p, hp, rfl⟩)).map _

end IsoVerif.Lemmas.C03

namespace IsoVerif.Lemmas.C03
open IsoVerif.Gen IsoVerif.Model IsoVerif.Model.C03 IsoVerif.Lemmas

/-! ### exon / feature records -/

/-- exon and other-feature records of one call = the feature lines of the valid models of the call -/
theorem dump_feat_line {printed p' : List Id} {ctx : GeneCtx} {models : List TModel} {lines : List Line}
    (h : dump printed ctx models = some (p', lines)) (c : Id) (k : Int) (s e : Int) (st : Strand) (g t : Id) (num : Nat) :
    Line.feat c k s e st g t num ∈ lines ↔
      ∃ m ∈ models, validM m = true ∧ Line.feat c k s e st g t num ∈ featLines m := by
  obtain ⟨acc, seen, hinv, hs, hl, _⟩ := dump_spec h
  subst hl
  simp only [List.mem_flatMap, geneBlock, List.mem_append]
  constructor
  · rintro ⟨⟨g', r⟩, _, hin⟩
    rcases hin with hin | ⟨p, hp, hin⟩
    · split at hin <;> simp at hin
    · rw [hinv.mods_eq] at hp
      have hp' : p ∈ seen := (List.mem_filter.mp hp).1
      obtain ⟨pm, ptr⟩ := p
      have := (seen_mem hinv hs pm ptr).mp hp'
      unfold txBlock at hin
      simp only [List.mem_cons] at hin
      rcases hin with hin | hin
      · cases hin
      · exact ⟨pm, this.1, this.2.1, hin⟩
  · rintro ⟨m, hm, hv, hin⟩
    have : m ∈ seen.map (·.1) := by rw [hs, List.mem_filter]; exact ⟨hm, hv⟩
    obtain ⟨p, hp, hpe⟩ := List.mem_map.mp this
    have hk : p.1.gid ∈ acc.keys := (hinv.keys_iff _).mpr ⟨p, hp, rfl⟩
    obtain ⟨⟨g', r⟩, hgr, hge⟩ := List.mem_map.mp ((mem_geneOrder_fst hinv _).mpr hk)
    simp only at hge
    refine ⟨(g', r), hgr, Or.inr ⟨p, ?_, ?_⟩⟩
    · rw [hinv.mods_eq]
      exact List.mem_filter.mpr ⟨hp, by simpa using hge.symm⟩
    · unfold txBlock
      rw [hpe]
      exact List.mem_cons_of_mem _ hin

/-- the features of a model that are printed: `other_features` and the exons (kind 0) -/
def featsOf (m : TModel) : List Feat := m.other ++ m.exons.map (fun e => (e.1, e.2, (0 : Int)))

def sortedFeats (m : TModel) : List Feat :=
  if m.strand = strandMinus then (isortBy featLt (featsOf m)).reverse else isortBy featLt (featsOf m)

theorem sortedFeats_perm (m : TModel) : (sortedFeats m).Perm (featsOf m) := by
  unfold sortedFeats
  split
  · exact (List.reverse_perm _).trans (isortBy_perm _ _)
  · exact isortBy_perm _ _

theorem featLines_eq (m : TModel) :
    featLines m = (sortedFeats m).zipIdx.map
      (fun p => Line.feat m.chr p.1.2.2 p.1.1 p.1.2.1 m.strand m.gid m.tid (p.2 + 1)) := by
  unfold featLines sortedFeats featsOf
  split <;> rfl

theorem mem_featLines (m : TModel) (c : Id) (k : Int) (s e : Int) (st : Strand) (g t : Id) (num : Nat) :
    Line.feat c k s e st g t num ∈ featLines m →
      c = m.chr ∧ st = m.strand ∧ g = m.gid ∧ t = m.tid ∧ (s, e, k) ∈ featsOf m := by
  rw [featLines_eq]
  simp only [List.mem_map, Line.feat.injEq]
  rintro ⟨⟨f, i⟩, hp, h1, h2, h3, h4, h5, h6, h7, _⟩
  simp only at h1 h2 h3 h4 h5 h6 h7
  refine ⟨h1.symm, h5.symm, h6.symm, h7.symm, ?_⟩
  have hf : f ∈ sortedFeats m := by
    have := List.mem_map_of_mem (f := Prod.fst) hp
    rwa [List.zipIdx_map_fst] at this
  have := (sortedFeats_perm m).mem_iff.mp hf
  obtain ⟨f1, f2, f3⟩ := f
  simp only at h2 h3 h4
  subst h2; subst h3; subst h4
  exact this

theorem featLines_complete (m : TModel) (f : Feat) (hf : f ∈ featsOf m) :
    ∃ num, Line.feat m.chr f.2.2 f.1 f.2.1 m.strand m.gid m.tid num ∈ featLines m := by
  rw [featLines_eq]
  have hs : f ∈ sortedFeats m := (sortedFeats_perm m).mem_iff.mpr hf
  have : f ∈ (sortedFeats m).zipIdx.map Prod.fst := by rw [List.zipIdx_map_fst]; exact hs
  obtain ⟨⟨f', i⟩, hp, hfe⟩ := List.mem_map.mp this
  simp only at hfe
  subst hfe
  exact ⟨i + 1, List.mem_map.mpr ⟨(f', i), hp, rfl⟩⟩

/-- the exon coordinates of the exon records (kind 0), in file order -/
def exonOf? : Line → Option Iv
  | .feat _ k s e _ _ _ _ => if k = 0 then some (s, e) else none
  | _ => none

def exonRecs (ls : List Line) : List Iv := ls.filterMap exonOf?

/-- the exon records of a model's block are, up to order, exactly its exon list
    (`other_features` never has kind 'exon': `GeneInfo.OTHER_FEATURES`) -/
theorem exonRecs_featLines_perm (m : TModel) (ho : ∀ f ∈ m.other, f.2.2 ≠ 0) :
    (exonRecs (featLines m)).Perm m.exons := by
  rw [featLines_eq]
  unfold exonRecs
  rw [List.filterMap_map]
  have hcomp : (exonOf? ∘ fun p : Feat × Nat => Line.feat m.chr p.1.2.2 p.1.1 p.1.2.1 m.strand m.gid m.tid (p.2 + 1)) =
      ((fun f : Feat => if f.2.2 = 0 then some (f.1, f.2.1) else none) ∘ Prod.fst) := by
    funext p; rfl
  rw [hcomp, ← List.filterMap_map, List.zipIdx_map_fst]
  refine ((sortedFeats_perm m).filterMap _).trans ?_
  unfold featsOf
  rw [List.filterMap_append]
  have h1 : List.filterMap (fun f : Feat => if f.2.2 = 0 then some (f.1, f.2.1) else none) m.other = [] := by
    rw [List.filterMap_eq_nil_iff]
    intro f hf
    simp [ho f hf]
  have h2 : List.filterMap (fun f : Feat => if f.2.2 = 0 then some (f.1, f.2.1) else none)
      (m.exons.map (fun e => (e.1, e.2, (0 : Int)))) = m.exons := by
    rw [List.filterMap_map]
    induction m.exons with
    | nil => rfl
    | cons a t ih => simp [List.filterMap_cons, ih]
  rw [h1, h2]
  exact List.Perm.refl _

end IsoVerif.Lemmas.C03

namespace IsoVerif.Lemmas.C03
open IsoVerif.Gen IsoVerif.Model IsoVerif.Model.C03 IsoVerif.Lemmas

theorem nodup_map_inj {α β} (f : α → β) : ∀ (l : List α), (l.map f).Nodup → ∀ a ∈ l, ∀ b ∈ l, f a = f b → a = b
  | [], _, _, ha, _, _, _ => by cases ha
  | x :: xs, h, a, ha, b, hb, hab => by
    simp only [List.map_cons, List.nodup_cons] at h
    rcases List.mem_cons.mp ha with ha | ha <;> rcases List.mem_cons.mp hb with hb | hb
    · rw [ha, hb]
    · rw [ha] at hab; exact absurd (hab ▸ List.mem_map_of_mem hb) h.1
    · rw [hb] at hab; exact absurd (hab.symm ▸ List.mem_map_of_mem ha) h.1
    · exact nodup_map_inj f xs h.2 a ha b hb hab

/-- two intervals of a sorted disjoint well-formed list are equal or share no position -/
theorem SD_mem_disjoint : ∀ (l : List Iv), SD l → WFl l → ∀ a ∈ l, ∀ b ∈ l, a = b ∨ a.2 < b.1 ∨ b.2 < a.1
  | [], _, _, _, ha, _, _ => by cases ha
  | x :: xs, hs, hw, a, ha, b, hb => by
    rcases List.mem_cons.mp ha with ea | ma
    · rcases List.mem_cons.mp hb with eb | mb
      · left; rw [ea, eb]
      · right; left; rw [ea]; exact SD_all_right hs hw b mb
    · rcases List.mem_cons.mp hb with eb | mb
      · right; right; rw [eb]; exact SD_all_right hs hw a ma
      · exact SD_mem_disjoint xs (SD_tail hs) (WFl_tail hw) a ma b mb

/-- a history that did not abort has no gated model with an empty exon list -/
theorem runCalls_region_some : ∀ (calls : List Call) (printed p' : List Id) (out : List Line),
    runCalls printed calls = some (p', out) →
    ∀ cl ∈ calls, ∀ m ∈ cl.models, validM m = true → ∃ tr, regionOf? m = some tr := by
  intro calls
  induction calls with
  | nil => intro _ _ _ _ cl hcl; cases hcl
  | cons c cs ih =>
    intro printed p' out h cl hcl m hm hv
    simp only [runCalls] at h
    cases hd : dump printed c.ctx c.models with
    | none => simp [hd] at h
    | some r1 =>
      obtain ⟨p1, l1⟩ := r1
      simp only [hd] at h
      cases hr : runCalls p1 cs with
      | none => simp [hr] at h
      | some r2 =>
        rcases List.mem_cons.mp hcl with he | hcl
        · subst he
          obtain ⟨acc, seen, hinv, hs, _, _⟩ := dump_spec hd
          have : m ∈ seen.map (·.1) := by rw [hs, List.mem_filter]; exact ⟨hm, hv⟩
          obtain ⟨p, hp, hpe⟩ := List.mem_map.mp this
          have := (hinv.seen_ok p hp).2.1
          rw [hpe] at this
          exact ⟨p.2, this⟩
        · obtain ⟨p2, l2⟩ := r2
          exact ih p1 p2 l2 hr cl hcl m hm hv

end IsoVerif.Lemmas.C03
