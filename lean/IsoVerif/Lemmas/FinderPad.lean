/-
C16 (growth c05edge) — helper lemmas for Props/C16Pad.lean: the repaired walk (`P` stepped over) against the walk of
the tree before the repair.
-/
import IsoVerif.Model.FinderPad
import IsoVerif.Lemmas.MoveRef

namespace IsoVerif.Lemmas.C16
open IsoVerif.Gen IsoVerif.Model IsoVerif.Model.C16

theorem moveRefLoopFix_done (T read ref : Int) (ops : List CigarOp) (h : ¬ read < T) :
    moveRefLoopFix T read ref ops = ref := by
  cases ops <;> simp [moveRefLoopFix, h]

/-- the repaired loop = the old loop on the operations without `P` -/
theorem moveRefLoopFix_eq_filter (T : Int) : ∀ (ops : List CigarOp) (read ref : Int),
    moveRefLoop T read ref (ops.filter notPad) = some (moveRefLoopFix T read ref ops) := by
  intro ops
  induction ops with
  | nil => intro read ref; simp [moveRefLoop, moveRefLoopFix]
  | cons op rest ih =>
    intro read ref
    by_cases hlt : read < T
    · obtain ⟨k, n⟩ := op
      by_cases hk : k = CigarEvent.padding
      · subst hk
        have hp : notPad (CigarEvent.padding, n) = false := by simp [notPad]
        rw [List.filter_cons, hp]
        simp only [Bool.false_eq_true, if_false]
        rw [ih]
        simp [moveRefLoopFix, hlt]
      · have hp : notPad (k, n) = true := by simp [notPad, hk]
        rw [List.filter_cons, hp]
        simp only [if_true]
        cases k <;> first
          | exact absurd rfl hk
          | (simp only [moveRefLoop, moveRefLoopFix, hlt, not_true_eq_false, if_false, if_true, reduceCtorEq, false_or,
              or_false, or_true, true_or, ih]
             try (split <;> simp only [ih]))
    · rw [moveRefLoop_done _ _ _ _ hlt, moveRefLoopFix_done _ _ _ _ hlt]

/-- the repair is conservative: whatever the old loop returned, the repaired loop returns -/
theorem moveRefLoop_some_fix (T : Int) : ∀ (ops : List CigarOp) (read ref r : Int),
    moveRefLoop T read ref ops = some r → moveRefLoopFix T read ref ops = r := by
  intro ops
  induction ops with
  | nil => intro read ref r h; simpa [moveRefLoop, moveRefLoopFix] using h
  | cons op rest ih =>
    intro read ref r h
    by_cases hlt : read < T
    · obtain ⟨k, n⟩ := op
      cases k <;> simp [moveRefLoop, moveRefLoopFix, hlt] at h ⊢
      all_goals first
        | exact ih _ _ _ h
        | exact h
        | (split at h <;> rename_i hc <;> simp [hc] <;> exact ih _ _ _ h)
    · rw [moveRefLoop_done _ _ _ _ hlt] at h
      rw [moveRefLoopFix_done _ _ _ _ hlt]
      exact Option.some.inj h

theorem coreOf_filter_notPad : ∀ ops : List CigarOp, coreOf (ops.filter notPad) = (coreOf ops).filter notPad := by
  intro ops
  induction ops with
  | nil => rfl
  | cons op rest ih =>
    obtain ⟨k, n⟩ := op
    by_cases hc : isClipOp k = true
    · have hp : notPad (k, n) = true := by cases k <;> simp [isClipOp] at hc <;> simp [notPad]
      rw [List.filter_cons, hp]
      simp only [if_true]
      rw [coreOf_cons_clip _ _ hc, coreOf_cons_clip _ _ hc]; rfl
    · have hc' : isClipOp k = false := by simpa using hc
      rw [coreOf_cons_nonclip _ _ hc']
      by_cases hp : notPad (k, n) = true
      · rw [List.filter_cons, List.filter_cons, hp]
        simp only [if_true]
        rw [coreOf_cons_nonclip _ _ hc', ih]
      · have hp' : notPad (k, n) = false := by simpa using hp
        rw [List.filter_cons, List.filter_cons, hp']
        simp only [Bool.false_eq_true, if_false]
        exact ih

theorem refColsUpTo_expand_filter : ∀ (l : List CigarOp) (q : Nat),
    refColsUpTo (expand (l.filter notPad)) q = refColsUpTo (expand l) q := by
  intro l
  induction l with
  | nil => intro q; rfl
  | cons op rest ih =>
    intro q
    obtain ⟨k, n⟩ := op
    by_cases hk : k = CigarEvent.padding
    · subst hk
      have : notPad (CigarEvent.padding, n) = false := by simp [notPad]
      rw [List.filter_cons, this]
      simp only [Bool.false_eq_true, if_false]
      rw [expand_cons]
      have h1 : consumesQuery CigarEvent.padding = false := by decide
      have h2 : consumesRef CigarEvent.padding = false := by decide
      simp only [h1, h2]
      rw [refColsUpTo_rep_none, ih]
    · have : notPad (k, n) = true := by simp [notPad, hk]
      rw [List.filter_cons, this]
      simp only [if_true]
      rw [expand_cons, expand_cons]
      -- the same leading block of columns on both sides; recurse behind it
      generalize (k, n).2.toNat = m
      generalize (consumesQuery (k, n).1, consumesRef (k, n).1) = c
      induction m generalizing q with
      | zero => simpa using ih q
      | succ m ihm =>
        obtain ⟨cq, cr⟩ := c
        simp only [List.replicate_succ, List.cons_append]
        cases cq with
        | true =>
          cases q with
          | zero => simp [refColsUpTo]
          | succ q => simp only [refColsUpTo]; rw [ihm]
        | false => simp only [refColsUpTo]; rw [ihm]

end IsoVerif.Lemmas.C16
