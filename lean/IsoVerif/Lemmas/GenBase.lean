/-
Facts about the run-time helpers emitted into `Gen/Loops.lean` (`pyIdx`, `pyRange`, …), shared by the refinement
proofs of C19 (`Lemmas/GenLoops.lean`) and C16 (`Lemmas/GenCigar.lean`).
-/
import IsoVerif.Gen.LoopsRt
import IsoVerif.Model.Interval

namespace IsoVerif.Lemmas.GenLoops
open IsoVerif.Gen IsoVerif.Model

/-! ### run-time helpers of the generated code -/

@[simp] theorem pyIdx_natCast {α} (l : List α) (k : Nat) : pyIdx l (k : Int) = l[k]? := by
  simp [pyIdx]

@[simp] theorem pyIdx_zero {α} (l : List α) : pyIdx l 0 = l.head? := by
  simp [pyIdx, List.head?_eq_getElem?]

theorem pyIdx_neg_one {α} (l : List α) : pyIdx l (-1) = l.getLast? := by
  cases l with
  | nil => simp [pyIdx]
  | cons a t =>
    have h : ((((a :: t).length : Nat) : Int) + -1).toNat = t.length := by
      simp only [List.length_cons]; omega
    simp only [pyIdx]
    rw [if_neg (by omega), if_pos (by simp only [List.length_cons]; omega), h, List.getLast?_eq_getElem?]
    simp

theorem pyIdx_eq_pyGet {α} (l : List α) (i : Int) : pyIdx l i = pyGet? l i := rfl

theorem pyRangeN_succ (a : Int) (n : Nat) : pyRangeN a (n + 1) = a :: pyRangeN (a + 1) n := rfl

theorem drop_eq_cons_of_getElem {α} (l : List α) (k : Nat) (x : α) (h : l[k]? = some x) :
    l.drop k = x :: l.drop (k + 1) := by
  obtain ⟨hk, rfl⟩ := List.getElem?_eq_some_iff.mp h
  exact List.drop_eq_getElem_cons hk

theorem take_succ_reverse {α} (l : List α) (k : Nat) (h : k < l.length) :
    (l.take (k + 1)).reverse = l[k] :: (l.take k).reverse := by
  rw [List.take_succ_eq_append_getElem h]; simp

end IsoVerif.Lemmas.GenLoops
