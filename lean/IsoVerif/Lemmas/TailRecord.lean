/-
Helper lemmas for C16 (end-to-end statement about one record): guards of the finder, and what a zero exon count
says about the position.
-/
import IsoVerif.Model.TailSpec
import IsoVerif.Lemmas.PolyA
import IsoVerif.Lemmas.FinderSpec

namespace IsoVerif.Lemmas.C16
open IsoVerif.Gen IsoVerif.Model IsoVerif.Model.C16

/-- a position reported by `find_polya_tail` other than −1: the record passed the guards and the scan found a tail -/
theorem polya_found (w num den : Nat) (s : Int) (cigar : List CigarOp) (seq : List Char) (fromPos toPos : Int)
    (chk : Bool) (r : Int) (h : findPolyaTail w num den s cigar seq fromPos toPos chk = some r) (hr : r ≠ -1) :
    cigar ≠ [] ∧ seq ≠ [] ∧ softClipTail cigar < seq.length ∧
      ∃ p, tailScan w num den chk (regionA cigar seq fromPos toPos) = some p := by
  unfold findPolyaTail at h
  by_cases h1 : cigar = []
  · simp [h1] at h
  by_cases h2 : seq = []
  · simp [h1, h2] at h; omega
  by_cases h3 : softClipTail cigar < seq.length
  · refine ⟨h1, h2, h3, ?_⟩
    simp only [h1, h2, if_false, h3, not_true_eq_false] at h
    unfold regionA
    cases hts : tailScan w num den chk _ with
    | none => rw [hts] at h; simp at h; omega
    | some p => exact ⟨p, rfl⟩
  · simp [h1, h2, h3] at h

theorem polyt_found (w num den : Nat) (s : Int) (cigar : List CigarOp) (seq : List Char) (fromPos toPos : Int)
    (chk : Bool) (r : Int) (h : findPolytHead w num den s cigar seq fromPos toPos chk = some r) (hr : r ≠ -1) :
    cigar ≠ [] ∧ seq ≠ [] ∧ softClipHead cigar < seq.length ∧
      ∃ p, tailScan w num den chk (regionT cigar seq fromPos toPos) = some p := by
  unfold findPolytHead at h
  by_cases h1 : cigar = []
  · simp [h1] at h
  by_cases h2 : seq = []
  · simp [h1, h2] at h; omega
  by_cases h3 : softClipHead cigar < seq.length
  · refine ⟨h1, h2, h3, ?_⟩
    simp only [h1, h2, if_false, h3, not_true_eq_false] at h
    unfold regionT
    cases hts : tailScan w num den chk _ with
    | none => rw [hts] at h; simp at h; omega
    | some p => exact ⟨p, rfl⟩
  · simp [h1, h2, h3] at h

/-- no terminal exon looks like a polyA tail: the position is on the last exon or after it -/
theorem count_zero_on_last (mf : Int) (exons : List Iv) (pos : Int) (last : Iv)
    (h0 : countPolyaExons mf exons pos = 0) (hp : pos ≠ -1) (hl : exons.getLast? = some last) :
    last.2 ≤ pos ∨ last.1 < pos := by
  unfold countPolyaExons at h0
  simp only [hp, if_false] at h0
  have hrev : ∃ rest, exons.reverse = last :: rest := by
    rw [List.getLast?_eq_head?_reverse] at hl
    cases hr : exons.reverse with
    | nil => rw [hr] at hl; cases hl
    | cons a t => rw [hr] at hl; simp at hl; exact ⟨t, by rw [hl]⟩
  obtain ⟨rest, hrev⟩ := hrev
  rw [hrev] at h0
  simp only [countPolyaLoop] at h0
  by_cases h1 : last.2 ≤ pos
  · exact Or.inl h1
  · simp only [h1, if_false] at h0
    by_cases h2 : isPolyaExon mf pos last = true
    · simp only [h2, if_true] at h0
      have := (countPolyaLoop_bounds mf pos rest (0 + 1)).1
      omega
    · right
      simp only [isPolyaExon, Bool.or_eq_true, decide_eq_true_eq, Bool.and_eq_true, not_or] at h2
      omega

theorem count_zero_on_first (mf : Int) (exons : List Iv) (pos : Int) (first : Iv)
    (h0 : countPolytExons mf exons pos = 0) (hp : pos ≠ -1) (hf : exons.head? = some first) :
    pos ≤ first.1 ∨ pos < first.2 := by
  unfold countPolytExons at h0
  simp only [hp, if_false] at h0
  cases exons with
  | nil => cases hf
  | cons a rest =>
    simp only [List.head?_cons, Option.some.injEq] at hf
    subst hf
    simp only [countPolytLoop] at h0
    by_cases h1 : a.1 ≥ pos
    · exact Or.inl h1
    · simp only [h1, if_false] at h0
      by_cases h2 : isPolytExon mf pos a = true
      · simp only [h2, if_true] at h0
        have := (countPolytLoop_bounds mf pos rest (0 + 1)).1
        omega
      · right
        simp only [isPolytExon, Bool.or_eq_true, decide_eq_true_eq, Bool.and_eq_true, not_or] at h2
        omega

end IsoVerif.Lemmas.C16
