/-
Helper lemmas for C13: `sorted(set(..))` as a canonical form, the label merge of `FeatureInfo.merge` (candidate repair of
finding G1) as an algebra, the name table of the counter as a fold.  Core Lean only.
-/
import IsoVerif.Model.FeatureCounts

namespace IsoVerif.Lemmas.C13
open IsoVerif.Model IsoVerif.Model.C13 IsoVerif.Gen

/-! ### sortSD: the strictly increasing list with the same members -/

section SortSD
variable {α : Type} [DecidableEq α]

/-- a strict linear order given as a Boolean relation -/
structure StrictLin (lt : α → α → Bool) : Prop where
  irrefl : ∀ a, lt a a = false
  trans : ∀ a b c, lt a b = true → lt b c = true → lt a c = true
  conn : ∀ a b, lt a b = false → lt b a = false → a = b

/-- strictly increasing -/
def Incr (lt : α → α → Bool) (l : List α) : Prop := l.Pairwise (fun a b => lt a b = true)

theorem mem_insertSD (lt : α → α → Bool) (x : α) (l : List α) (y : α) : y ∈ insertSD lt x l ↔ y = x ∨ y ∈ l := by
  induction l with
  | nil => simp [insertSD]
  | cons z zs ih =>
    unfold insertSD
    split
    · rename_i h; subst h; simp
    · split
      · simp
      · simp only [List.mem_cons, ih]
        constructor
        · rintro (h | h | h)
          · exact Or.inr (Or.inl h)
          · exact Or.inl h
          · exact Or.inr (Or.inr h)
        · rintro (h | h | h)
          · exact Or.inr (Or.inl h)
          · exact Or.inl h
          · exact Or.inr (Or.inr h)

theorem mem_sortSD (lt : α → α → Bool) (l : List α) (y : α) : y ∈ sortSD lt l ↔ y ∈ l := by
  induction l with
  | nil => simp [sortSD]
  | cons x xs ih => simp [sortSD, mem_insertSD, ih]

theorem insertSD_incr {lt : α → α → Bool} (h : StrictLin lt) (x : α) (l : List α) (hs : Incr lt l) :
    Incr lt (insertSD lt x l) := by
  induction l with
  | nil => simp [insertSD, Incr]
  | cons z zs ih =>
    unfold insertSD
    have hz : ∀ y ∈ zs, lt z y = true := (List.pairwise_cons.mp hs).1
    have hzs : Incr lt zs := (List.pairwise_cons.mp hs).2
    split
    · exact hs
    · rename_i hne
      split
      · rename_i hlt
        refine List.pairwise_cons.mpr ⟨?_, hs⟩
        intro y hy
        rcases List.mem_cons.mp hy with e | e
        · subst e; exact hlt
        · exact h.trans _ _ _ hlt (hz y e)
      · rename_i hnlt
        have hzx : lt z x = true := by
          cases hc : lt z x with
          | true => rfl
          | false => exact absurd (h.conn x z (by simpa using hnlt) hc) hne
        refine List.pairwise_cons.mpr ⟨?_, ih hzs⟩
        intro y hy
        rcases (mem_insertSD lt x zs y).mp hy with e | e
        · subst e; exact hzx
        · exact hz y e

theorem sortSD_incr {lt : α → α → Bool} (h : StrictLin lt) (l : List α) : Incr lt (sortSD lt l) := by
  induction l with
  | nil => simp [sortSD, Incr]
  | cons x xs ih => exact insertSD_incr h x _ ih

omit [DecidableEq α] in
/-- a strictly increasing list is determined by its members -/
theorem incr_ext {lt : α → α → Bool} (h : StrictLin lt) : ∀ (l1 l2 : List α), Incr lt l1 → Incr lt l2 →
    (∀ y, y ∈ l1 ↔ y ∈ l2) → l1 = l2 := by
  intro l1
  induction l1 with
  | nil =>
    intro l2 _ _ hm
    cases l2 with
    | nil => rfl
    | cons b bs => exact absurd ((hm b).mpr (List.mem_cons_self ..)) (by simp)
  | cons a as ih =>
    intro l2 h1 h2 hm
    cases l2 with
    | nil => exact absurd ((hm a).mp (List.mem_cons_self ..)) (by simp)
    | cons b bs =>
      have ha : ∀ y ∈ as, lt a y = true := (List.pairwise_cons.mp h1).1
      have hb : ∀ y ∈ bs, lt b y = true := (List.pairwise_cons.mp h2).1
      have hab : a = b := by
        rcases List.mem_cons.mp ((hm a).mp (List.mem_cons_self ..)) with e | e
        · exact e
        · rcases List.mem_cons.mp ((hm b).mpr (List.mem_cons_self ..)) with e' | e'
          · exact e'.symm
          · have := h.trans _ _ _ (ha b e') (hb a e)
            rw [h.irrefl] at this; exact absurd this (by simp)
      subst hab
      congr 1
      apply ih _ (List.pairwise_cons.mp h1).2 (List.pairwise_cons.mp h2).2
      intro y
      constructor
      · intro hy
        rcases List.mem_cons.mp ((hm y).mp (List.mem_cons_of_mem _ hy)) with e | e
        · subst e; have := ha y hy; rw [h.irrefl] at this; exact absurd this (by simp)
        · exact e
      · intro hy
        rcases List.mem_cons.mp ((hm y).mpr (List.mem_cons_of_mem _ hy)) with e | e
        · subst e; have := hb y hy; rw [h.irrefl] at this; exact absurd this (by simp)
        · exact e

theorem sortSD_congr {lt : α → α → Bool} (h : StrictLin lt) (l1 l2 : List α) (hm : ∀ y, y ∈ l1 ↔ y ∈ l2) :
    sortSD lt l1 = sortSD lt l2 :=
  incr_ext h _ _ (sortSD_incr h l1) (sortSD_incr h l2) (fun y => by rw [mem_sortSD, mem_sortSD, hm])

theorem sortSD_of_incr {lt : α → α → Bool} (h : StrictLin lt) (l : List α) (hs : Incr lt l) : sortSD lt l = l :=
  incr_ext h _ _ (sortSD_incr h l) hs (mem_sortSD lt l)

omit [DecidableEq α] in
theorem incr_nodup {lt : α → α → Bool} (h : StrictLin lt) (l : List α) (hs : Incr lt l) : l.Nodup := by
  unfold Incr at hs
  exact hs.imp (fun {a b} hab e => by subst e; rw [h.irrefl] at hab; exact absurd hab (by simp))

omit [DecidableEq α] in
/-- more than one element ⇔ two different members -/
theorem incr_length_gt_one {lt : α → α → Bool} (h : StrictLin lt) (l : List α) (hs : Incr lt l) :
    1 < l.length ↔ ∃ x ∈ l, ∃ y ∈ l, x ≠ y := by
  match l, hs with
  | [], _ => simp
  | [z], _ => 
    simp only [List.length_singleton, Nat.lt_irrefl, List.mem_singleton, false_iff]
    rintro ⟨x, hx, y, hy, hne⟩; exact hne (hx.trans hy.symm)
  | z :: w :: r, hs =>
    constructor
    · intro _
      refine ⟨z, by simp, w, by simp, ?_⟩
      intro e; subst e
      have := (List.pairwise_cons.mp hs).1 z (by simp)
      rw [h.irrefl] at this; exact absurd this (by simp)
    · intro _; simp

theorem sortSD_length_gt_one {lt : α → α → Bool} (h : StrictLin lt) (l : List α) :
    1 < (sortSD lt l).length ↔ ∃ x ∈ l, ∃ y ∈ l, x ≠ y := by
  rw [incr_length_gt_one h _ (sortSD_incr h l)]
  simp only [mem_sortSD]

end SortSD

theorem strLt_lin : StrictLin strLt where
  irrefl a := by simp [strLt, String.lt_irrefl]
  trans a b c h1 h2 := by
    simp only [strLt, decide_eq_true_eq] at *
    exact String.lt_trans h1 h2
  conn a b h1 h2 := by
    simp only [strLt, decide_eq_false_iff_not] at *
    exact String.le_antisymm (String.not_lt.mp h2) (String.not_lt.mp h1)

theorem charLt_lin : StrictLin charLt where
  irrefl a := by simp [charLt, Char.lt_irrefl]
  trans a b c h1 h2 := by
    simp only [charLt, decide_eq_true_eq] at *
    exact Char.lt_trans h1 h2
  conn a b h1 h2 := by
    simp only [charLt, decide_eq_false_iff_not] at *
    exact Char.le_antisymm (Char.not_lt.mp h2) (Char.not_lt.mp h1)

/-! ### strand strings of `set_feature_properties` over the standard strands -/

theorem incr_filter {α : Type} {lt : α → α → Bool} (l : List α) (p : α → Bool) (h : Incr lt l) : Incr lt (l.filter p) :=
  List.Pairwise.sublist List.filter_sublist h

/-- a strictly increasing list over a strictly increasing universe is the universe filtered by membership -/
theorem incr_eq_filter {α : Type} [DecidableEq α] {lt : α → α → Bool} (h : StrictLin lt) (U l : List α) (hU : Incr lt U)
    (hl : Incr lt l) (hsub : ∀ x ∈ l, x ∈ U) : l = U.filter (fun x => decide (x ∈ l)) := by
  apply incr_ext h _ _ hl (incr_filter U _ hU)
  intro y
  simp only [List.mem_filter, decide_eq_true_eq]
  exact ⟨fun hy => ⟨hsub y hy, hy⟩, fun hy => hy.2⟩

/-- GTF strands are `+`, `-`, `.`: the concatenation of a sorted duplicate-free list of them has strictly increasing
    characters (the strand part of the normal form) -/
theorem concat_std_strands_incr (l : List String) (hl : Incr strLt l) (hstd : ∀ s ∈ l, s ∈ ["+", "-", "."]) :
    Incr charLt (concatStrs l).toList := by
  have hU : Incr strLt ["+", "-", "."] := by unfold Incr; decide
  rw [incr_eq_filter strLt_lin ["+", "-", "."] l hU hl hstd]
  by_cases h1 : "+" ∈ l <;> by_cases h2 : "-" ∈ l <;> by_cases h3 : "." ∈ l <;>
    simp only [List.filter, h1, h2, h3, decide_true, decide_false] <;> unfold Incr <;> decide

/-! ### the label merge as an algebra -/

theorem mergeBase_comm (a b : List Char) : mergeBase a b = mergeBase b a := by
  unfold mergeBase
  by_cases h1 : a.head? = some 'X' <;> by_cases h2 : b.head? = some 'X' <;>
    by_cases h3 : a.head? = some 'I' <;> by_cases h4 : b.head? = some 'I' <;> simp [h1, h2, h3, h4]

theorem mergeFlags_comm (a b : List Char) (n : Nat) : mergeFlags a b n = mergeFlags b a n := by
  unfold mergeFlags
  rw [mergeBase_comm a b]
  by_cases s1 : 'S' ∈ a <;> by_cases s2 : 'S' ∈ b <;> by_cases c1 : 'C' ∈ a <;> by_cases c2 : 'C' ∈ b <;>
    by_cases u1 : 'U' ∈ a <;> by_cases u2 : 'U' ∈ b <;> simp [s1, s2, c1, c2, u1, u2]

theorem mergeBase_cases (a b : List Char) : mergeBase a b = 'X' ∨ mergeBase a b = 'I' ∨ mergeBase a b = 'T' := by
  unfold mergeBase; split
  · exact Or.inl rfl
  · split
    · exact Or.inr (Or.inl rfl)
    · exact Or.inr (Or.inr rfl)

theorem mergeBase_eq_X (a b : List Char) : mergeBase a b = 'X' ↔ (a.head? = some 'X' ∧ b.head? = some 'X') := by
  unfold mergeBase; split
  · rename_i h; simp [h]
  · rename_i h; split <;> simp [h]

theorem mergeBase_eq_I (a b : List Char) : mergeBase a b = 'I' ↔ (a.head? = some 'I' ∧ b.head? = some 'I') := by
  unfold mergeBase; split
  · rename_i h
    constructor
    · intro e; exact absurd e (by decide)
    · rintro ⟨h1, _⟩; rw [h.1] at h1; exact absurd h1 (by decide)
  · split
    · rename_i h; simp [h]
    · rename_i h; simp [h]

theorem mergeFlags_S (a b : List Char) (n : Nat) : 'S' ∈ mergeFlags a b n ↔ ('S' ∈ a ∨ 'S' ∈ b) := by
  unfold mergeFlags
  rcases mergeBase_cases a b with hb | hb | hb <;> rw [hb] <;>
    by_cases s1 : 'S' ∈ a <;> by_cases s2 : 'S' ∈ b <;> by_cases c : ('C' ∈ a ∨ 'C' ∈ b) <;>
      by_cases u : ('U' ∈ a ∧ 'U' ∈ b) <;> by_cases hn : n > 1 <;> simp [s1, s2, c, u, hn]

theorem mergeFlags_C (a b : List Char) (n : Nat) : 'C' ∈ mergeFlags a b n ↔ ('C' ∈ a ∨ 'C' ∈ b) := by
  unfold mergeFlags
  rcases mergeBase_cases a b with hb | hb | hb <;> rw [hb] <;>
    by_cases c1 : 'C' ∈ a <;> by_cases c2 : 'C' ∈ b <;> by_cases s : ('S' ∈ a ∨ 'S' ∈ b) <;>
      by_cases u : ('U' ∈ a ∧ 'U' ∈ b) <;> by_cases hn : n > 1 <;> simp [c1, c2, s, u, hn]

theorem mergeFlags_U (a b : List Char) (n : Nat) : 'U' ∈ mergeFlags a b n ↔ (¬ 1 < n ∧ 'U' ∈ a ∧ 'U' ∈ b) := by
  unfold mergeFlags
  rcases mergeBase_cases a b with hb | hb | hb <;> rw [hb] <;>
    by_cases u1 : 'U' ∈ a <;> by_cases u2 : 'U' ∈ b <;> by_cases s : ('S' ∈ a ∨ 'S' ∈ b) <;>
      by_cases c : ('C' ∈ a ∨ 'C' ∈ b) <;> by_cases hn : n > 1 <;> simp [u1, u2, s, c, hn]

/-- what the flags of a merged label say -/
theorem mergeFlags_spec (a b : List Char) (n : Nat) :
    (mergeFlags a b n).head? = some (mergeBase a b) ∧
    ('S' ∈ mergeFlags a b n ↔ ('S' ∈ a ∨ 'S' ∈ b)) ∧
    ('C' ∈ mergeFlags a b n ↔ ('C' ∈ a ∨ 'C' ∈ b)) ∧
    ('U' ∈ mergeFlags a b n ↔ (¬ 1 < n ∧ 'U' ∈ a ∧ 'U' ∈ b)) :=
  ⟨by unfold mergeFlags; rfl, mergeFlags_S a b n, mergeFlags_C a b n, mergeFlags_U a b n⟩

theorem mergeBase_assoc (a b c : List Char) (n m : Nat) :
    mergeBase (mergeFlags a b n) c = mergeBase a (mergeFlags b c m) := by
  have h1 := (mergeFlags_spec a b n).1
  have h2 := (mergeFlags_spec b c m).1
  unfold mergeBase
  rw [h1, h2]
  simp only [Option.some.injEq, mergeBase_eq_X, mergeBase_eq_I]
  by_cases x1 : a.head? = some 'X' <;> by_cases x2 : b.head? = some 'X' <;> by_cases x3 : c.head? = some 'X' <;>
    by_cases i1 : a.head? = some 'I' <;> by_cases i2 : b.head? = some 'I' <;> by_cases i3 : c.head? = some 'I' <;>
    simp [x1, x2, x3, i1, i2, i3]

/-- the flags of a three-way merge, in either bracketing, when the gene counts are those of merged gene lists:
    `nab > 1 → n > 1`, `nbc > 1 → n > 1` -/
theorem mergeFlags_assoc (a b c : List Char) (nab nbc n : Nat) (h1 : 1 < nab → 1 < n) (h2 : 1 < nbc → 1 < n) :
    mergeFlags (mergeFlags a b nab) c n = mergeFlags a (mergeFlags b c nbc) n := by
  obtain ⟨_, s1, c1, u1⟩ := mergeFlags_spec a b nab
  obtain ⟨_, s2, c2, u2⟩ := mergeFlags_spec b c nbc
  have hb := mergeBase_assoc a b c nab nbc
  unfold mergeFlags at hb ⊢
  unfold mergeFlags at s1 c1 u1 s2 c2 u2
  rw [hb]
  simp only [s1, c1, u1, s2, c2, u2]
  by_cases hn : 1 < n
  · simp [hn, or_assoc]
  · have hab : ¬ 1 < nab := fun h => hn (h1 h)
    have hbc : ¬ 1 < nbc := fun h => hn (h2 h)
    simp [hn, hab, hbc, or_assoc, and_assoc]

theorem genes_two_of_sub (l1 l2 : List String) (hsub : ∀ y, y ∈ l1 → y ∈ l2) :
    1 < (sortSD strLt l1).length → 1 < (sortSD strLt l2).length := by
  rw [sortSD_length_gt_one strLt_lin, sortSD_length_gt_one strLt_lin]
  rintro ⟨x, hx, y, hy, hne⟩
  exact ⟨x, hsub x hx, y, hsub y hy, hne⟩

/-- MERGE IS COMMUTATIVE -/
theorem mergeLabel_comm (a b : Label) : mergeLabel a b = mergeLabel b a := by
  unfold mergeLabel
  have hg : sortSD strLt (a.genes ++ b.genes) = sortSD strLt (b.genes ++ a.genes) :=
    sortSD_congr strLt_lin _ _ (fun y => by simp only [List.mem_append]; exact Or.comm)
  have hs : sortSD charLt (a.strand.toList ++ b.strand.toList) = sortSD charLt (b.strand.toList ++ a.strand.toList) :=
    sortSD_congr charLt_lin _ _ (fun y => by simp only [List.mem_append]; exact Or.comm)
  simp only [hg, hs, mergeFlags_comm a.ftype.toList b.ftype.toList]

/-- MERGE IS ASSOCIATIVE -/
theorem mergeLabel_assoc (a b c : Label) : mergeLabel (mergeLabel a b) c = mergeLabel a (mergeLabel b c) := by
  unfold mergeLabel
  simp only [String.toList_ofList]
  have hg : sortSD strLt (sortSD strLt (a.genes ++ b.genes) ++ c.genes) =
      sortSD strLt (a.genes ++ sortSD strLt (b.genes ++ c.genes)) :=
    sortSD_congr strLt_lin _ _ (fun y => by simp only [List.mem_append, mem_sortSD, or_assoc])
  have hs : sortSD charLt (sortSD charLt (a.strand.toList ++ b.strand.toList) ++ c.strand.toList) =
      sortSD charLt (a.strand.toList ++ sortSD charLt (b.strand.toList ++ c.strand.toList)) :=
    sortSD_congr charLt_lin _ _ (fun y => by simp only [List.mem_append, mem_sortSD, or_assoc])
  rw [hg, hs]
  congr 2
  apply mergeFlags_assoc
  · apply genes_two_of_sub
    intro y hy; simp only [List.mem_append, mem_sortSD] at hy ⊢
    rcases hy with h | h
    · exact Or.inl h
    · exact Or.inr (Or.inl h)
  · apply genes_two_of_sub
    intro y hy; simp only [List.mem_append, mem_sortSD] at hy ⊢
    exact Or.inr hy

/-- the flags depend on the arguments only through the base letter, the S / C / U memberships -/
theorem mergeFlags_congr (a b a' b' : List Char) (n : Nat) (hb : mergeBase a b = mergeBase a' b')
    (hS : ('S' ∈ a ∨ 'S' ∈ b) ↔ ('S' ∈ a' ∨ 'S' ∈ b')) (hC : ('C' ∈ a ∨ 'C' ∈ b) ↔ ('C' ∈ a' ∨ 'C' ∈ b'))
    (hU : ¬ 1 < n → (('U' ∈ a ∧ 'U' ∈ b) ↔ ('U' ∈ a' ∧ 'U' ∈ b'))) : mergeFlags a b n = mergeFlags a' b' n := by
  unfold mergeFlags
  rw [hb]
  by_cases hn : 1 < n
  · simp [hn, hS, hC]
  · have := hU hn
    simp [hn, hS, hC, this]

theorem mergeBase_self_of_head (f : List Char) (c : Char) (hc : c = 'X' ∨ c = 'I' ∨ c = 'T') (h : f.head? = some c) :
    mergeBase f f = c := by
  unfold mergeBase
  rcases hc with e | e | e <;> subst e <;> simp [h]

/-- a label in normal form: what `set_feature_properties` and `merge` produce: gene list strictly increasing, strand
    characters strictly increasing, flag string = base letter, S, C, then M exactly for more than one gene, else U or
    nothing (written as a fixed point of the flag merge) -/
structure LNormal (a : Label) : Prop where
  genes_incr : Incr strLt a.genes
  strand_incr : Incr charLt a.strand.toList
  flags : a.ftype.toList = mergeFlags a.ftype.toList a.ftype.toList a.genes.length

/-- every merged label is in normal form -/
theorem mergeLabel_normal (a b : Label) : LNormal (mergeLabel a b) := by
  refine ⟨sortSD_incr strLt_lin _, ?_, ?_⟩
  · simp only [mergeLabel, String.toList_ofList]; exact sortSD_incr charLt_lin _
  · simp only [mergeLabel, String.toList_ofList]
    generalize (sortSD strLt (a.genes ++ b.genes)).length = n
    obtain ⟨h0, hS, hC, hU⟩ := mergeFlags_spec a.ftype.toList b.ftype.toList n
    apply mergeFlags_congr
    · exact (mergeBase_self_of_head _ _ (mergeBase_cases _ _) h0).symm
    · rw [hS]; simp
    · rw [hC]; simp
    · intro hn; rw [hU]; simp [hn]

/-- MERGE IS IDEMPOTENT on labels in normal form -/
theorem mergeLabel_idem (a : Label) (h : LNormal a) : mergeLabel a a = a := by
  have hg : sortSD strLt (a.genes ++ a.genes) = a.genes := by
    rw [sortSD_congr strLt_lin (a.genes ++ a.genes) a.genes (fun y => by simp)]
    exact sortSD_of_incr strLt_lin _ h.genes_incr
  have hs : sortSD charLt (a.strand.toList ++ a.strand.toList) = a.strand.toList := by
    rw [sortSD_congr charLt_lin (a.strand.toList ++ a.strand.toList) a.strand.toList (fun y => by simp)]
    exact sortSD_of_incr charLt_lin _ h.strand_incr
  unfold mergeLabel
  simp only [hg, hs]
  rw [← h.flags, String.ofList_toList, String.ofList_toList]

theorem mergeLabel_idem_merged (a b : Label) : mergeLabel (mergeLabel a b) (mergeLabel a b) = mergeLabel a b :=
  mergeLabel_idem _ (mergeLabel_normal a b)

theorem mem_mergeLabel_genes (a b : Label) (g : String) : g ∈ (mergeLabel a b).genes ↔ g ∈ a.genes ∨ g ∈ b.genes := by
  simp [mergeLabel, mem_sortSD]

theorem mem_mergeLabel_strand (a b : Label) (c : Char) :
    c ∈ (mergeLabel a b).strand.toList ↔ c ∈ a.strand.toList ∨ c ∈ b.strand.toList := by
  simp [mergeLabel, mem_sortSD]

/-- the flag string of `set_feature_properties` is in normal form with respect to its gene list -/
theorem featureType_normal (features : List Iv) (δ : Int) (f : Iv) (es : List (String × String × Bool)) :
    (featureType features δ f es).toList =
      mergeFlags (featureType features δ f es).toList (featureType features δ f es).toList
        (sortSD strLt (es.map (fun e => e.2.1))).length := by
  have h1 : es.length = 1 → ¬ 1 < (sortSD strLt (es.map (fun e => e.2.1))).length := by
    intro hl
    match es, hl with
    | [e], _ => simp [sortSD, insertSD]
  unfold featureType
  simp only []
  generalize es.all (fun e => e.2.2) = b1
  generalize es.any (fun e => e.2.2) = b2
  generalize features.any (fun g => g != f && (equal_ranges f g δ || equal_ranges g f δ)) = b3
  generalize features.any (fun g => g != f && contains g f) = b4
  generalize (sortSD strLt (es.map (fun e => e.2.1))).length = n at h1
  by_cases hl : es.length = 1
  · have hn := h1 hl
    cases b1 <;> cases b2 <;> cases b3 <;> cases b4 <;>
      simp [hl, hn, mergeFlags, mergeBase, String.toList_append]
  · by_cases hn : 1 < n <;> cases b1 <;> cases b2 <;> cases b3 <;> cases b4 <;>
      simp [hl, hn, mergeFlags, mergeBase, String.toList_append]

/-- every description produced by `set_feature_properties` over the GTF strands is in normal form -/
theorem setFeatureProperties_normal (chr : String) (δ : Int) (features : List Iv) (isoforms : List IsoformFeatures) (n : Nat)
    (hstd : ∀ t ∈ isoforms, t.strand ∈ ["+", "-", "."]) :
    ∀ x ∈ setFeatureProperties chr δ features isoforms n, LNormal x.label := by
  intro x hx
  unfold setFeatureProperties at hx
  obtain ⟨y, _, hy⟩ := List.mem_map.mp hx
  subst hy
  refine ⟨sortSD_incr strLt_lin _, ?_, featureType_normal _ _ _ _⟩
  apply concat_std_strands_incr _ (sortSD_incr strLt_lin _)
  intro s hs
  simp only [mem_sortSD, List.mem_map, featureEntries, List.mem_flatMap, List.mem_filter] at hs
  obtain ⟨⟨s', g', b⟩, ⟨t, ht, e, _, he⟩, hs'⟩ := hs
  simp only [Prod.mk.injEq] at he
  simp only at hs'
  rw [← hs', ← he.1]; exact hstd t ht

/-! ### FeatureInfo.merge -/

def FNormal (f : FeatureInfo) : Prop := LNormal f.label

theorem merge_coords (a b : FeatureInfo) : (a.merge b).chr = a.chr ∧ (a.merge b).start = a.start ∧ (a.merge b).stop = a.stop ∧
    (a.merge b).id = a.id := by
  unfold FeatureInfo.merge; split <;> simp

theorem merge_coordKey (a b : FeatureInfo) : coordKey (a.merge b) = coordKey a := by
  obtain ⟨h1, h2, h3, _⟩ := merge_coords a b
  simp [coordKey, h1, h2, h3]

theorem merge_label_of_ne (a b : FeatureInfo) (h : a.label ≠ b.label) : (a.merge b).label = mergeLabel a.label b.label := by
  unfold FeatureInfo.merge; rw [if_neg h]; rfl

/-- on descriptions in normal form the short cut `labels equal → self` is the merge itself -/
theorem merge_label (a b : FeatureInfo) (ha : FNormal a) : (a.merge b).label = mergeLabel a.label b.label := by
  by_cases h : a.label = b.label
  · have : a.merge b = a := by unfold FeatureInfo.merge; rw [if_pos h]
    rw [this, ← h, mergeLabel_idem _ ha]
  · exact merge_label_of_ne a b h

theorem merge_normal (a b : FeatureInfo) (ha : FNormal a) : FNormal (a.merge b) := by
  unfold FNormal; rw [merge_label a b ha]; exact mergeLabel_normal _ _

theorem mem_merge_genes (a b : FeatureInfo) (g : String) : g ∈ (a.merge b).genes ↔ g ∈ a.genes ∨ g ∈ b.genes := by
  by_cases h : a.label = b.label
  · have : a.merge b = a := by unfold FeatureInfo.merge; rw [if_pos h]
    rw [this]
    have : a.genes = b.genes := congrArg Label.genes h
    rw [← this]; simp
  · have := congrArg Label.genes (merge_label_of_ne a b h)
    simp only [FeatureInfo.label] at this
    rw [this]; exact mem_mergeLabel_genes _ _ g

theorem mem_merge_strand (a b : FeatureInfo) (c : Char) :
    c ∈ (a.merge b).strand.toList ↔ c ∈ a.strand.toList ∨ c ∈ b.strand.toList := by
  by_cases h : a.label = b.label
  · have : a.merge b = a := by unfold FeatureInfo.merge; rw [if_pos h]
    rw [this]
    have : a.strand = b.strand := congrArg Label.strand h
    rw [← this]; simp
  · have := congrArg Label.strand (merge_label_of_ne a b h)
    simp only [FeatureInfo.label] at this
    rw [this]; exact mem_mergeLabel_strand _ _ c

theorem merge_genes_incr (a b : FeatureInfo) (ha : Incr strLt a.genes) : Incr strLt (a.merge b).genes := by
  by_cases h : a.label = b.label
  · have : a.merge b = a := by unfold FeatureInfo.merge; rw [if_pos h]
    rw [this]; exact ha
  · have := congrArg Label.genes (merge_label_of_ne a b h)
    simp only [FeatureInfo.label] at this
    rw [this]; exact (mergeLabel_normal _ _).genes_incr

theorem merge_strand_incr (a b : FeatureInfo) (ha : Incr charLt a.strand.toList) : Incr charLt (a.merge b).strand.toList := by
  by_cases h : a.label = b.label
  · have : a.merge b = a := by unfold FeatureInfo.merge; rw [if_pos h]
    rw [this]; exact ha
  · have := congrArg Label.strand (merge_label_of_ne a b h)
    simp only [FeatureInfo.label] at this
    rw [this]; exact (mergeLabel_normal _ _).strand_incr

/-! ### folds of merges -/

theorem foldl_merge_coordKey (f : FeatureInfo) (r : List FeatureInfo) : coordKey (r.foldl FeatureInfo.merge f) = coordKey f := by
  induction r generalizing f with
  | nil => rfl
  | cons x xs ih => rw [List.foldl_cons, ih, merge_coordKey]

theorem mem_foldl_merge_genes (f : FeatureInfo) (r : List FeatureInfo) (g : String) :
    g ∈ (r.foldl FeatureInfo.merge f).genes ↔ ∃ x ∈ f :: r, g ∈ x.genes := by
  induction r generalizing f with
  | nil => simp
  | cons x xs ih =>
    rw [List.foldl_cons, ih, ]
    simp only [List.mem_cons, exists_eq_or_imp, mem_merge_genes, or_assoc]

theorem mem_foldl_merge_strand (f : FeatureInfo) (r : List FeatureInfo) (c : Char) :
    c ∈ (r.foldl FeatureInfo.merge f).strand.toList ↔ ∃ x ∈ f :: r, c ∈ x.strand.toList := by
  induction r generalizing f with
  | nil => simp
  | cons x xs ih =>
    rw [List.foldl_cons, ih]
    simp only [List.mem_cons, exists_eq_or_imp, mem_merge_strand, or_assoc]

theorem foldl_merge_incr (f : FeatureInfo) (r : List FeatureInfo) (hg : Incr strLt f.genes) (hs : Incr charLt f.strand.toList) :
    Incr strLt (r.foldl FeatureInfo.merge f).genes ∧ Incr charLt (r.foldl FeatureInfo.merge f).strand.toList := by
  induction r generalizing f with
  | nil => exact ⟨hg, hs⟩
  | cons x xs ih => rw [List.foldl_cons]; exact ih _ (merge_genes_incr f x hg) (merge_strand_incr f x hs)

/-- on descriptions in normal form the stored label is the fold of the label merge -/
theorem foldl_merge_label (f : FeatureInfo) (r : List FeatureInfo) (hf : FNormal f) :
    (r.foldl FeatureInfo.merge f).label = r.foldl (fun l x => mergeLabel l x.label) f.label ∧
    FNormal (r.foldl FeatureInfo.merge f) := by
  induction r generalizing f with
  | nil => exact ⟨rfl, hf⟩
  | cons x xs ih =>
    rw [List.foldl_cons, List.foldl_cons, ← merge_label f x hf]
    exact ih _ (merge_normal f x hf)

/-! ### the join of a non-empty list of labels does not depend on the order -/

theorem mergeLabel_right_comm (z x y : Label) : mergeLabel (mergeLabel z x) y = mergeLabel (mergeLabel z y) x := by
  rw [mergeLabel_assoc, mergeLabel_comm x y, ← mergeLabel_assoc]

theorem foldl_mergeLabel_perm (l1 l2 : List Label) (h : l1.Perm l2) (b : Label) :
    l1.foldl mergeLabel b = l2.foldl mergeLabel b :=
  List.Perm.foldl_eq' h (fun x _ y _ z => mergeLabel_right_comm z x y) b

/-- merging a member in beforehand changes nothing (members in normal form) -/
theorem foldl_mergeLabel_absorb (l : List Label) (hl : ∀ x ∈ l, LNormal x) (x : Label) (hx : x ∈ l) (b : Label) :
    l.foldl mergeLabel (mergeLabel b x) = l.foldl mergeLabel b := by
  induction l generalizing b with
  | nil => simp at hx
  | cons y ys ih =>
    rw [List.foldl_cons, List.foldl_cons]
    rcases List.mem_cons.mp hx with e | e
    · subst e
      rw [mergeLabel_assoc, mergeLabel_idem x (hl x (List.mem_cons_self ..))]
    · rw [mergeLabel_right_comm]
      exact ih (fun z hz => hl z (List.mem_cons_of_mem _ hz)) e _

/-- join of a non-empty list: first element merged with the rest, left to right (`none` for the empty list) -/
def labelJoin : List Label → Option Label
  | [] => none
  | f :: r => some (r.foldl mergeLabel f)

theorem labelJoin_eq_foldl (l : List Label) (hl : ∀ x ∈ l, LNormal x) (x : Label) (hx : x ∈ l) :
    labelJoin l = some (l.foldl mergeLabel x) := by
  cases l with
  | nil => simp at hx
  | cons f r =>
    have hf := hl f (List.mem_cons_self ..)
    have h1 : (f :: r).foldl mergeLabel f = r.foldl mergeLabel f := by
      rw [List.foldl_cons, mergeLabel_idem f hf]
    have h2 : (f :: r).foldl mergeLabel x = (f :: r).foldl mergeLabel f := by
      rw [← foldl_mergeLabel_absorb (f :: r) hl f (List.mem_cons_self ..) x, mergeLabel_comm x f,
          foldl_mergeLabel_absorb (f :: r) hl x hx f]
    simp only [labelJoin]; rw [h2, h1]

/-- ORDER INDEPENDENCE: the join of the labels seen does not depend on the order in which they were seen -/
theorem labelJoin_perm (l1 l2 : List Label) (h : l1.Perm l2) (hl : ∀ x ∈ l1, LNormal x) : labelJoin l1 = labelJoin l2 := by
  cases l1 with
  | nil => have := h.symm.eq_nil; subst this; rfl
  | cons f r =>
    have hf2 : f ∈ l2 := h.subset (List.mem_cons_self ..)
    have hl2 : ∀ x ∈ l2, LNormal x := fun x hx => hl x (h.symm.subset hx)
    rw [labelJoin_eq_foldl _ hl f (List.mem_cons_self ..), labelJoin_eq_foldl _ hl2 f hf2,
        foldl_mergeLabel_perm _ _ h f]

end IsoVerif.Lemmas.C13
