/-
C11 helper lemmas — reflection `x ↦ L + 1 − x` (intervals swap their ends, lists are reversed) of the list
functions of Model/Interval.lean.  One section per model file, so that further models can be appended.
-/
import IsoVerif.Gen.Prims
import IsoVerif.Model.Interval
import IsoVerif.Model.C11Symmetry
import IsoVerif.Lemmas.Interval
import IsoVerif.Lemmas.Lists
import IsoVerif.Lemmas.Jaccard
import IsoVerif.Lemmas.C11Shift
import IsoVerif.Lemmas.BinSearchRev

namespace IsoVerif.Lemmas.C11
open IsoVerif.Gen IsoVerif.Model IsoVerif.Model.C11 IsoVerif.Lemmas

/-! ## generic list facts -/

@[simp] theorem mirrorIv_fst (L : Int) (a : Iv) : (mirrorIv L a).1 = L + 1 - a.2 := rfl
@[simp] theorem mirrorIv_snd (L : Int) (a : Iv) : (mirrorIv L a).2 = L + 1 - a.1 := rfl

theorem mirrorIv_mirrorIv (L : Int) (a : Iv) : mirrorIv L (mirrorIv L a) = a := by
  simp only [mirrorIv]; ext <;> simp <;> omega

theorem mirrorL_nil (L : Int) : mirrorL L [] = [] := rfl
theorem mirrorL_cons (L : Int) (a : Iv) (l : List Iv) : mirrorL L (a :: l) = mirrorL L l ++ [mirrorIv L a] := by
  simp [mirrorL]
theorem mirrorL_append (L : Int) (l1 l2 : List Iv) : mirrorL L (l1 ++ l2) = mirrorL L l2 ++ mirrorL L l1 := by
  simp [mirrorL]
theorem mirrorL_singleton (L : Int) (a : Iv) : mirrorL L [a] = [mirrorIv L a] := rfl
theorem mirrorL_eq_map_reverse (L : Int) (l : List Iv) : mirrorL L l = l.reverse.map (mirrorIv L) := by
  simp [mirrorL]
theorem mirrorL_reverse (L : Int) (l : List Iv) : (mirrorL L l).reverse = l.map (mirrorIv L) := by
  simp [mirrorL]
theorem mirrorL_length (L : Int) (l : List Iv) : (mirrorL L l).length = l.length := by simp [mirrorL]
theorem mirrorL_mirrorL (L : Int) (l : List Iv) : mirrorL L (mirrorL L l) = l := by
  simp only [mirrorL, List.map_reverse, List.reverse_reverse, List.map_map]
  have : (mirrorIv L ∘ mirrorIv L) = id := by funext a; exact mirrorIv_mirrorIv L a
  simp [this]
theorem mirrorL_head? (L : Int) (l : List Iv) : (mirrorL L l).head? = l.getLast?.map (mirrorIv L) := by
  simp [mirrorL]
theorem mirrorL_getLast? (L : Int) (l : List Iv) : (mirrorL L l).getLast? = l.head?.map (mirrorIv L) := by
  simp [mirrorL]
theorem mirrorL_getElem? (L : Int) (l : List Iv) (i : Nat) (h : i < l.length) :
    (mirrorL L l)[i]? = l[l.length - 1 - i]?.map (mirrorIv L) := by
  simp only [mirrorL]
  rw [List.getElem?_reverse (by simpa using h)]
  simp

/-! ## Model/Interval.lean -/

theorem intervalsTotalLength_append (l1 l2 : List Iv) :
    intervalsTotalLength (l1 ++ l2) = intervalsTotalLength l1 + intervalsTotalLength l2 := by
  induction l1 with
  | nil => simp [intervalsTotalLength]
  | cons a t ih => simp only [List.cons_append, intervalsTotalLength, ih]; omega

theorem intervalsTotalLength_mirror (L : Int) (l : List Iv) :
    intervalsTotalLength (mirrorL L l) = intervalsTotalLength l := by
  induction l with
  | nil => rfl
  | cons a t ih =>
    simp only [mirrorL_cons, intervalsTotalLength_append, ih, intervalsTotalLength, interval_len, mirrorIv_fst,
      mirrorIv_snd]
    omega

/-- the prefix loop on the mirrored blocks is the suffix loop on the original ones (term by term) -/
theorem sumToLoop_mirror (L p : Int) (l : List Iv) :
    sumToLoop (mirrorP L p) (l.map (mirrorIv L)) = sumFromLoop p l := by
  induction l with
  | nil => rfl
  | cons a t ih =>
    simp only [mirrorP] at ih
    simp only [List.map_cons, sumToLoop, sumFromLoop, ih, mirrorIv_fst, mirrorIv_snd, mirrorP]
    grind

theorem sumFromLoop_mirror (L p : Int) (l : List Iv) :
    sumFromLoop (mirrorP L p) (l.map (mirrorIv L)) = sumToLoop p l := by
  induction l with
  | nil => rfl
  | cons a t ih =>
    simp only [mirrorP] at ih
    simp only [List.map_cons, sumToLoop, sumFromLoop, ih, mirrorIv_fst, mirrorIv_snd, mirrorP]
    grind

/-! ### sorted disjoint lists stay sorted disjoint -/

theorem SD_append_singleton (l : List Iv) (x : Iv) :
    SD (l ++ [x]) ↔ SD l ∧ (∀ t, l.getLast? = some t → t.2 < x.1) := by
  induction l with
  | nil => simp [SD]
  | cons a t ih =>
    cases t with
    | nil => simp [SD]
    | cons b t' =>
      simp only [List.cons_append, SD] at ih ⊢
      rw [ih]
      simp only [List.getLast?_cons_cons, and_assoc]

theorem SD_mirror (L : Int) (l : List Iv) (h : SD l) : SD (mirrorL L l) := by
  induction l with
  | nil => trivial
  | cons a t ih =>
    rw [mirrorL_cons, SD_append_singleton]
    refine ⟨ih (SD_tail h), ?_⟩
    intro x hx
    rw [mirrorL_getLast?] at hx
    cases t with
    | nil => simp at hx
    | cons b t' =>
      simp only [List.head?_cons, Option.map_some, Option.some.injEq] at hx
      subst hx
      have := h.1
      simp only [mirrorIv_fst, mirrorIv_snd]; omega

theorem WFl_mirror (L : Int) (l : List Iv) (h : WFl l) : WFl (mirrorL L l) := by
  intro r hr
  simp only [mirrorL, List.mem_reverse, List.mem_map] at hr
  obtain ⟨a, ha, rfl⟩ := hr
  have := h a ha
  simp only [mirrorIv_fst, mirrorIv_snd]; omega

/-! ### the number of common positions is invariant -/

theorem intersection_len_mirror (L : Int) (a b : Iv) :
    intersection_len (mirrorIv L a) (mirrorIv L b) = intersection_len a b := by
  simp only [intersection_len, mirrorIv]; omega

theorem rowSum_append (a : Iv) (l1 l2 : List Iv) : rowSum a (l1 ++ l2) = rowSum a l1 + rowSum a l2 := by
  simp [rowSum, List.sum_append]

theorem rowSum_mirror (L : Int) (a : Iv) (l : List Iv) : rowSum (mirrorIv L a) (mirrorL L l) = rowSum a l := by
  induction l with
  | nil => rfl
  | cons b t ih =>
    rw [mirrorL_cons, rowSum_append, ih]
    simp only [rowSum, List.map_cons, List.map_nil, List.sum_cons, List.sum_nil, intersection_len_mirror]
    omega

theorem inter_append_left (l1 l1' l2 : List Iv) : inter (l1 ++ l1') l2 = inter l1 l2 + inter l1' l2 := by
  simp [inter, List.sum_append]

theorem inter_mirror (L : Int) (l1 l2 : List Iv) : inter (mirrorL L l1) (mirrorL L l2) = inter l1 l2 := by
  induction l1 with
  | nil => simp [mirrorL_nil, inter]
  | cons a t ih =>
    rw [mirrorL_cons, inter_append_left, ih]
    simp only [inter, List.map_cons, List.map_nil, List.sum_cons, List.sum_nil, rowSum_mirror]
    omega

/-! ### extra_exon_percentage -/

theorem extraExonLoop_append (reg : Iv) (l1 l2 : List Iv) :
    extraExonLoop reg (l1 ++ l2) =
      ((extraExonLoop reg l1).1 + (extraExonLoop reg l2).1, (extraExonLoop reg l1).2 + (extraExonLoop reg l2).2) := by
  induction l1 with
  | nil => simp [extraExonLoop]
  | cons e es ih =>
    simp only [List.cons_append, extraExonLoop, ih]
    ext <;> simp <;> omega

theorem extraExonLoop_mirror (L : Int) (reg : Iv) (l : List Iv) :
    extraExonLoop (mirrorIv L reg) (mirrorL L l) = extraExonLoop reg l := by
  induction l with
  | nil => rfl
  | cons e es ih =>
    rw [mirrorL_cons, extraExonLoop_append, ih]
    simp only [extraExonLoop, mirrorIv_fst, mirrorIv_snd]
    ext <;> simp <;> grind

/-! ### junctions_from_blocks -/

/-- appending one more block appends at most one junction -/
theorem junctionsFromBlocks_snoc (l : List Iv) (x y : Iv) :
    junctionsFromBlocks (l ++ [x, y]) =
      junctionsFromBlocks (l ++ [x]) ++ (if x.2 + 1 < y.1 then [(x.2 + 1, y.1 - 1)] else []) := by
  induction l with
  | nil => simp [junctionsFromBlocks]
  | cons a t ih =>
    cases t with
    | nil =>
      simp only [List.cons_append, List.nil_append, junctionsFromBlocks] at ih ⊢
      split <;> split <;> simp
    | cons b t' =>
      simp only [List.cons_append, junctionsFromBlocks] at ih ⊢
      split <;> simp [ih]

theorem junctionsFromBlocks_mirror (L : Int) (l : List Iv) :
    junctionsFromBlocks (mirrorL L l) = mirrorL L (junctionsFromBlocks l) := by
  fun_induction junctionsFromBlocks l with
  | case1 => rfl
  | case2 a => rfl
  | case3 a b t h ih =>
    have e : mirrorL L (a :: b :: t) = mirrorL L t ++ [mirrorIv L b, mirrorIv L a] := by
      simp [mirrorL]
    rw [e, junctionsFromBlocks_snoc]
    have e2 : mirrorL L t ++ [mirrorIv L b] = mirrorL L (b :: t) := by simp [mirrorL]
    rw [e2, ih, mirrorL_cons]
    have hc : L + 1 - b.1 + 1 < L + 1 - a.2 := by omega
    simp only [mirrorIv_fst, mirrorIv_snd, hc, if_true, mirrorIv]
    congr 2; ext <;> simp <;> omega
  | case4 a b t h ih =>
    have e : mirrorL L (a :: b :: t) = mirrorL L t ++ [mirrorIv L b, mirrorIv L a] := by
      simp [mirrorL]
    rw [e, junctionsFromBlocks_snoc]
    have e2 : mirrorL L t ++ [mirrorIv L b] = mirrorL L (b :: t) := by simp [mirrorL]
    rw [e2, ih]
    have hc : ¬ (L + 1 - b.1 + 1 < L + 1 - a.2) := by omega
    simp only [mirrorIv_fst, mirrorIv_snd, hc, if_false, List.append_nil]

/-! ### indexing the mirrored list, brackets for the binary searches -/

theorem pyGet?_mirror (L : Int) (l : List Iv) (i : Nat) (h : i < l.length) :
    pyGet? (mirrorL L l) ((l.length : Int) - 1 - (i : Int)) = (pyGet? l (i : Int)).map (mirrorIv L) := by
  have e : (l.length : Int) - 1 - (i : Int) = ((l.length - 1 - i : Nat) : Int) := by omega
  rw [e, pyGet?_nonneg, pyGet?_nonneg, mirrorL_getElem? L l _ (by omega)]
  congr 2; omega

theorem strictInc_starts_of_SD (l : List Iv) (h : SD l) (w : WFl l) : StrictInc (l.map (·.1)) := by
  induction l with
  | nil => trivial
  | cons a t ih =>
    cases t with
    | nil => trivial
    | cons b t' =>
      refine ⟨?_, ih (SD_tail h) (WFl_tail w)⟩
      have := h.1; have := w a (by simp); show a.1 < b.1; omega

theorem strictInc_ends_of_SD (l : List Iv) (h : SD l) (w : WFl l) : StrictInc (l.map (fun r => r.2 + 1)) := by
  induction l with
  | nil => trivial
  | cons a t ih =>
    cases t with
    | nil => trivial
    | cons b t' =>
      refine ⟨?_, ih (SD_tail h) (WFl_tail w)⟩
      have := h.1; have := w b (by simp); show a.2 + 1 < b.2 + 1; omega

/-- discrete intermediate value: between a start ≤ pos and a later start > pos there is a crossing -/
theorem exists_bracket (l : List Iv) (pos : Int) (f tl : Iv) (hf : l.head? = some f) (ht : l.getLast? = some tl)
    (h1 : f.1 ≤ pos) (h2 : pos < tl.1) :
    ∃ (t : Nat) (a b : Iv), l[t]? = some a ∧ l[t + 1]? = some b ∧ a.1 ≤ pos ∧ pos < b.1 := by
  induction l generalizing f with
  | nil => simp at hf
  | cons x r ih =>
    simp only [List.head?_cons, Option.some.injEq] at hf; subst hf
    cases r with
    | nil =>
      simp only [List.getLast?_singleton, Option.some.injEq] at ht; subst ht; omega
    | cons y r' =>
      by_cases c : pos < y.1
      · exact ⟨0, x, y, by simp, by simp, h1, c⟩
      · have ht' : (y :: r').getLast? = some tl := by simpa [List.getLast?_cons_cons] using ht
        obtain ⟨t, a, b, ha, hb, h3, h4⟩ := ih y rfl ht' (by omega)
        exact ⟨t + 1, a, b, by simpa using ha, by simpa using hb, h3, h4⟩

end IsoVerif.Lemmas.C11
