import IsoVerif.Lemmas.Lists

namespace IsoVerif.Lemmas
open IsoVerif.Gen IsoVerif.Model

def headLen : List Iv → Int
  | [] => 0
  | a :: _ => a.2 - a.1 + 1

@[simp] theorem headLen_cons (a : Iv) (l : List Iv) : headLen (a :: l) = a.2 - a.1 + 1 := rfl
@[simp] theorem headLen_nil : headLen [] = 0 := rfl

theorem tailUnion_false (l : List Iv) : tailUnion false l = intervalsTotalLength l := by
  induction l with
  | nil => rfl
  | cons a t ih => simp [tailUnion, intervalsTotalLength, interval_len, ih]

theorem tailUnion_eq (inc : Bool) (l : List Iv) :
    tailUnion inc l = intervalsTotalLength l - (if inc then headLen l else 0) := by
  cases l with
  | nil => simp [tailUnion, intervalsTotalLength, headLen]
  | cons a t =>
    simp only [tailUnion, tailUnion_false, intervalsTotalLength, interval_len, headLen]
    split <;> simp <;> omega

theorem rowSum_zero_right {a b : Iv} {bs : List Iv} (h2 : SD (b :: bs)) (w2 : WFl (b :: bs)) (hab : a.2 ≤ b.2) :
    rowSum a bs = 0 :=
  rowSum_zero (fun r hr => by
    have := SD_all_right h2 w2 r hr
    simp only [intersection_len]; omega)

theorem colSum_zero_right {a b : Iv} {as : List Iv} (h1 : SD (a :: as)) (w1 : WFl (a :: as)) (hab : b.2 ≤ a.2) :
    colSum as b = 0 :=
  colSum_zero (fun r hr => by
    have := SD_all_right h1 w1 r hr
    simp only [intersection_len]; omega)

/-- generalised invariant of the main loop of `jaccard_similarity` -/
theorem jaccardLoop_spec (l1 : List Iv) (i1 : Bool) (l2 : List Iv) (i2 : Bool)
    (h1 : SD l1) (h2 : SD l2) (w1 : WFl l1) (w2 : WFl l2)
    (hn : ¬(i1 = true ∧ i2 = true))
    (hI1 : i1 = true → ∀ a ∈ l1.head?, ∀ b ∈ l2.head?, a.1 < b.1)
    (hI2 : i2 = true → ∀ a ∈ l1.head?, ∀ b ∈ l2.head?, b.1 < a.1) :
    jaccardLoop l1 i1 l2 i2 = some (inter l1 l2,
      intervalsTotalLength l1 + intervalsTotalLength l2 - inter l1 l2
        - (if i1 then headLen l1 else 0) - (if i2 then headLen l2 else 0)) := by
  fun_induction jaccardLoop l1 i1 l2 i2 with
  | case1 i1 l2 i2 =>
    simp only [inter_nil_left, tailUnion_eq, intervalsTotalLength, headLen_nil]
    congr 2; split <;> simp
  | case2 a as i1 i2 =>
    simp only [inter_nil_right, tailUnion_eq, intervalsTotalLength, headLen_nil]
    congr 2; split <;> simp
  | case3 a as i1 b bs i2 hov hboth =>
    exfalso; apply hn; simpa using hboth
  | case4 a as i1 b bs i2 hov hboth hlt ih =>
    have ha := WFl_head w1
    have hb := WFl_head w2
    simp [overlaps] at hov
    have hc : colSum as b = 0 := colSum_zero_right h1 w1 (by omega)
    have hA : i1 = true → a.1 < b.1 := fun hi => hI1 hi a (by simp) b (by simp)
    have hB : i2 = true → b.1 < a.1 := fun hi => hI2 hi a (by simp) b (by simp)
    have e1 := inter_cons_cons a b as bs
    have e2 := inter_cons_left a as bs
    have hil : intersection_len a b = min a.2 b.2 - max a.1 b.1 + 1 := by simp only [intersection_len]; omega
    rw [ih h1 (SD_tail h2) w1 (WFl_tail w2) (by simp)
      (by intro _ x hx y hy; simp at hx; subst hx
          have := SD_all_right h2 w2 y (by cases bs <;> simp_all)
          omega)
      (by simp)]
    rw [e1, e2, hc, hil]
    simp only [Option.map_some, Bool.false_eq_true, ↓reduceIte, intervalsTotalLength, interval_len, headLen_cons,
      ovInter, ovUnion]
    congr 2
    · omega
    · cases i1 <;> cases i2 <;> simp_all <;> omega
  | case5 a as i1 b bs i2 hov hboth hlt ih =>
    have ha := WFl_head w1
    have hb := WFl_head w2
    simp [overlaps] at hov
    have hr : rowSum a bs = 0 := rowSum_zero_right h2 w2 (by omega)
    have hA : i1 = true → a.1 < b.1 := fun hi => hI1 hi a (by simp) b (by simp)
    have hB : i2 = true → b.1 < a.1 := fun hi => hI2 hi a (by simp) b (by simp)
    have e1 := inter_cons_cons a b as bs
    have e2 := inter_cons_right b as bs
    have hil : intersection_len a b = min a.2 b.2 - max a.1 b.1 + 1 := by simp only [intersection_len]; omega
    rw [ih (SD_tail h1) h2 (WFl_tail w1) w2 (by simp) (by simp)
      (by intro _ x hx y hy; simp at hy; subst hy
          have := SD_all_right h1 w1 x (by cases as <;> simp_all)
          omega)]
    rw [e1, e2, hr, hil]
    simp only [Option.map_some, Bool.false_eq_true, ↓reduceIte, intervalsTotalLength, interval_len, headLen_cons,
      ovInter, ovUnion]
    congr 2
    · omega
    · cases i1 <;> cases i2 <;> simp_all <;> omega
  | case6 a as i1 b bs i2 hov hlo ih =>
    have ha := WFl_head w1
    have hb := WFl_head w2
    simp [left_of] at hlo
    have hab : intersection_len a b = 0 := by simp only [intersection_len]; omega
    have hc : colSum as b = 0 := colSum_zero_right h1 w1 (by omega)
    have hA : i1 = true → a.1 < b.1 := fun hi => hI1 hi a (by simp) b (by simp)
    have e1 := inter_cons_cons a b as bs
    have e2 := inter_cons_left a as bs
    rw [ih h1 (SD_tail h2) w1 (WFl_tail w2) (by simp)
      (by intro hi x hx y hy; simp at hx; subst hx
          have := hA hi
          omega)
      (by simp)]
    rw [e1, e2, hc, hab]
    simp only [Option.map_some, Bool.false_eq_true, ↓reduceIte, intervalsTotalLength, interval_len, headLen_cons]
    congr 2
    · omega
    · cases i1 <;> cases i2 <;> simp_all <;> omega
  | case7 a as i1 b bs i2 hov hlo ih =>
    have ha := WFl_head w1
    have hb := WFl_head w2
    simp [left_of] at hlo
    simp [overlaps] at hov
    have hlt : a.2 < b.1 := by omega
    have hab : intersection_len a b = 0 := by simp only [intersection_len]; omega
    have hr : rowSum a bs = 0 := rowSum_zero_right h2 w2 (by omega)
    have hB : i2 = true → b.1 < a.1 := fun hi => hI2 hi a (by simp) b (by simp)
    have e1 := inter_cons_cons a b as bs
    have e2 := inter_cons_right b as bs
    rw [ih (SD_tail h1) h2 (WFl_tail w1) w2 (by simp) (by simp)
      (by intro hi x hx y hy; simp at hy; subst hy
          have := hB hi
          omega)]
    rw [e1, e2, hr, hab]
    simp only [Option.map_some, Bool.false_eq_true, ↓reduceIte, intervalsTotalLength, interval_len, headLen_cons]
    congr 2
    · omega
    · cases i1 <;> cases i2 <;> simp_all <;> omega

end IsoVerif.Lemmas
