/-
Refinement lemmas for the two-pointer sweeps `read_coverage_fraction`, `jaccard_similarity`, `merge_ranges` of
Gen/Loops.lean (Python lists `included1/2`, `union` versus the flags / reversed accumulator of the hand model).
Statements: Props/C19Gen.lean.
-/
import IsoVerif.Gen.Loops
import IsoVerif.Lemmas.GenBase
import IsoVerif.Lemmas.GenSums

namespace IsoVerif.Lemmas.GenLoops
open IsoVerif.Gen IsoVerif.Model IsoVerif.Lemmas

/-! ### `read_coverage_fraction` -/

theorem coverage_loop (l1 l2 : List Iv) (fuel k1 k2 : Nat) (acc : Int)
    (h1 : k1 ≤ l1.length) (h2 : k2 ≤ l2.length) (hf : l1.length + l2.length + 1 ≤ fuel + k1 + k2) :
    read_coverage_fraction.loop1 l1 l2 fuel acc (k1 : Int) (k2 : Int)
      = pyDivF (acc + readCoverageSweep (l1.drop k1) (l2.drop k2)) (intervalsTotalLength l1) := by
  induction fuel generalizing k1 k2 acc with
  | zero => omega
  | succ fuel ih =>
    unfold read_coverage_fraction.loop1
    simp only [pyLen, pyIdx_natCast]
    by_cases hlt1 : k1 < l1.length
    · by_cases hlt2 : k2 < l2.length
      · have hx : l1[k1]? = some l1[k1] := List.getElem?_eq_getElem hlt1
        have hy : l2[k2]? = some l2[k2] := List.getElem?_eq_getElem hlt2
        have hd1 := drop_eq_cons_of_getElem l1 k1 _ hx
        have hd2 := drop_eq_cons_of_getElem l2 k2 _ hy
        have hc1 : ((k1 : Int) + 1) = ((k1 + 1 : Nat) : Int) := by omega
        have hc2 : ((k2 : Int) + 1) = ((k2 + 1 : Nat) : Int) := by omega
        have hl1 : (k1 : Int) < (l1.length : Int) := by omega
        have hl2 : (k2 : Int) < (l2.length : Int) := by omega
        simp only [hx, hy, hl1, hl2, decide_true, Bool.and_self, if_true, hc1, hc2]
        rw [hd1, hd2, readCoverageSweep]
        by_cases ho : overlaps l1[k1] l2[k2] = true
        · simp only [ho, if_true]
          by_cases hb : l2[k2].2 < l1[k1].2
          · simp only [hb, decide_true, if_true]
            rw [ih k1 (k2 + 1) _ (by omega) (by omega) (by omega), hd1]
            congr 1; omega
          · simp only [hb, decide_false, if_false, Bool.false_eq_true]
            rw [ih (k1 + 1) k2 _ (by omega) (by omega) (by omega), hd2]
            congr 1; omega
        · simp only [ho, Bool.false_eq_true, if_false]
          by_cases hlo : left_of l2[k2] l1[k1] = true
          · simp only [hlo, if_true]
            rw [ih k1 (k2 + 1) _ (by omega) (by omega) (by omega), hd1]
          · simp only [hlo, Bool.false_eq_true, if_false]
            rw [ih (k1 + 1) k2 _ (by omega) (by omega) (by omega), hd2]
      · have : l2.drop k2 = [] := List.drop_eq_nil_of_le (by omega)
        have hl2 : ¬ (k2 : Int) < (l2.length : Int) := by omega
        have hd1 := drop_eq_cons_of_getElem l1 k1 _ (List.getElem?_eq_getElem hlt1)
        rw [this, hd1, readCoverageSweep]
        simp [hl2, read_coverage_fraction.after1, intervals_total_length_eq]
    · have : l1.drop k1 = [] := List.drop_eq_nil_of_le (by omega)
      have hl1 : ¬ (k1 : Int) < (l1.length : Int) := by omega
      rw [this, readCoverageSweep]
      simp [hl1, read_coverage_fraction.after1, intervals_total_length_eq]

theorem read_coverage_fraction_eq (l1 l2 : List Iv) :
    read_coverage_fraction l1 l2 = readCoverageFraction l1 l2 := by
  unfold read_coverage_fraction readCoverageFraction
  have := coverage_loop l1 l2 (read_coverage_fraction.fuel1 l1 l2) 0 0 0 (by omega) (by omega)
    (by simp [read_coverage_fraction.fuel1])
  simp only [Int.natCast_zero, List.drop_zero, Int.zero_add] at this
  simp only [this, pyDivF]

/-! ### the `included` arrays of `jaccard_similarity` / `merge_ranges` versus the two flags of the hand model -/

@[simp] theorem pySet_natCast {α} (l : List α) (k : Nat) (v : α) :
    pySet l (k : Int) v = if k < l.length then some (l.set k v) else none := by
  simp [pySet]

/-- `inc` is the Python list `includedX` when the sweep stands at position `k`: the entry at `k` is the model's
    flag, every later entry is still 0 (earlier entries are never read again) -/
def IncInv (inc : List Int) (n k : Nat) (flag : Bool) : Prop :=
  inc.length = n ∧ (k < n → inc[k]? = some (if flag then 1 else 0)) ∧ ∀ j, k < j → j < n → inc[j]? = some 0

theorem IncInv.init (n : Nat) : IncInv (List.replicate n 0) n 0 false := by
  refine ⟨by simp, fun h => by simp [h], fun j _ hj => by simp [hj]⟩

theorem IncInv.get {inc n k f} (h : IncInv inc n k f) (hk : k < n) :
    inc[k]? = some (if f then 1 else 0) := h.2.1 hk

theorem IncInv.next {inc n k f} (h : IncInv inc n k f) : IncInv inc n (k + 1) false := by
  refine ⟨h.1, fun hk => by simpa using h.2.2 (k + 1) (by omega) hk, fun j hj hn => h.2.2 j (by omega) hn⟩

theorem IncInv.set_stay {inc n k f} (h : IncInv inc n k f) : IncInv (inc.set k 1) n k true := by
  refine ⟨by simp [h.1], fun hk => by simp [h.1, hk], fun j hj hn => ?_⟩
  rw [List.getElem?_set_ne (by omega)]; exact h.2.2 j hj hn

theorem IncInv.set_next {inc n k f} (h : IncInv inc n k f) : IncInv (inc.set k 1) n (k + 1) false :=
  (h.set_stay).next

/-- what `after3` computes from the two sums -/
def jfin (it u : Int) : Option (Int × Int) := if u = 0 then none else some (it, u)

theorem jaccard_after3 (l1 l2 : List Iv) (u it p1 p2 : Int) (i1 i2 : List Int) :
    jaccard_similarity.after3 l1 l2 u it p1 p2 i1 i2 = jfin it u := by
  unfold jaccard_similarity.after3 jfin pyDivF
  by_cases h : u = 0 <;> simp [h]

theorem jaccard_tail3 (l1 l2 : List Iv) (fuel k2 : Nat) (u it p1 : Int) (inc1 inc2 : List Int) (i2 : Bool)
    (hinv : IncInv inc2 l2.length k2 i2) (hk : k2 ≤ l2.length) (hf : l2.length + 1 ≤ fuel + k2) :
    jaccard_similarity.loop3 l1 l2 fuel u it p1 (k2 : Int) inc1 inc2
      = jfin it (u + tailUnion i2 (l2.drop k2)) := by
  induction fuel generalizing k2 u i2 with
  | zero => omega
  | succ fuel ih =>
    unfold jaccard_similarity.loop3
    simp only [pyLen, pyIdx_natCast]
    by_cases hlt : k2 < l2.length
    · have hx : l2[k2]? = some l2[k2] := List.getElem?_eq_getElem hlt
      have hd := drop_eq_cons_of_getElem l2 k2 _ hx
      have hc : ((k2 : Int) + 1) = ((k2 + 1 : Nat) : Int) := by omega
      have hl : (k2 : Int) < (l2.length : Int) := by omega
      simp only [hl, decide_true, if_true, hinv.get hlt, hx, hc, hd, tailUnion]
      cases i2
      · simp only [Bool.false_eq_true, if_false, decide_true, if_true]
        rw [ih (k2 + 1) _ false hinv.next (by omega) (by omega)]
        congr 1; omega
      · simp only [if_true, show ¬ ((1 : Int) = 0) by omega, decide_false, Bool.false_eq_true, if_false]
        rw [ih (k2 + 1) _ false hinv.next (by omega) (by omega)]
        congr 1; omega
    · have hl : ¬ (k2 : Int) < (l2.length : Int) := by omega
      have : l2.drop k2 = [] := List.drop_eq_nil_of_le (by omega)
      simp [hl, this, tailUnion, jaccard_after3]

theorem jaccard_tail2 (l1 l2 : List Iv) (fuel k1 k2 : Nat) (u it : Int) (inc1 inc2 : List Int) (i1 i2 : Bool)
    (hinv1 : IncInv inc1 l1.length k1 i1) (hinv2 : IncInv inc2 l2.length k2 i2)
    (hk1 : k1 ≤ l1.length) (hk2 : k2 ≤ l2.length) (hf : l1.length + 1 ≤ fuel + k1) :
    jaccard_similarity.loop2 l1 l2 fuel u it (k1 : Int) (k2 : Int) inc1 inc2
      = jfin it (u + tailUnion i1 (l1.drop k1) + tailUnion i2 (l2.drop k2)) := by
  induction fuel generalizing k1 u i1 with
  | zero => omega
  | succ fuel ih =>
    unfold jaccard_similarity.loop2
    simp only [pyLen, pyIdx_natCast]
    by_cases hlt : k1 < l1.length
    · have hx : l1[k1]? = some l1[k1] := List.getElem?_eq_getElem hlt
      have hd := drop_eq_cons_of_getElem l1 k1 _ hx
      have hc : ((k1 : Int) + 1) = ((k1 + 1 : Nat) : Int) := by omega
      have hl : (k1 : Int) < (l1.length : Int) := by omega
      simp only [hl, decide_true, if_true, hinv1.get hlt, hx, hc, hd, tailUnion]
      cases i1
      · simp only [Bool.false_eq_true, if_false, decide_true, if_true]
        rw [ih (k1 + 1) _ false hinv1.next (by omega) (by omega)]
        congr 2; omega
      · simp only [if_true, show ¬ ((1 : Int) = 0) by omega, decide_false, Bool.false_eq_true, if_false]
        rw [ih (k1 + 1) _ false hinv1.next (by omega) (by omega)]
        congr 2; omega
    · have hl : ¬ (k1 : Int) < (l1.length : Int) := by omega
      have : l1.drop k1 = [] := List.drop_eq_nil_of_le (by omega)
      simp only [hl, decide_false, Bool.false_eq_true, if_false, this, tailUnion, Int.add_zero,
        jaccard_similarity.after2, jaccard_similarity.fuel3]
      exact jaccard_tail3 l1 l2 _ k2 u it _ inc1 inc2 i2 hinv2 hk2 (by omega)


/-- the result of the main loop given what the hand model's loop returns for the remaining blocks -/
def jcont (it u : Int) : Option (Int × Int) → Option (Int × Int)
  | none => none
  | some p => jfin (it + p.1) (u + p.2)

theorem jcont_map (it u di du : Int) (o : Option (Int × Int)) :
    jcont it u (o.map (fun p => (p.1 + di, p.2 + du))) = jcont (it + di) (u + du) o := by
  cases o with
  | none => rfl
  | some p =>
    simp only [Option.map_some, jcont]
    congr 1 <;> omega

theorem jcont_map2 (it u du : Int) (o : Option (Int × Int)) :
    jcont it u (o.map (fun p => (p.1, p.2 + du))) = jcont it (u + du) o := by
  cases o with
  | none => rfl
  | some p =>
    simp only [Option.map_some, jcont]
    congr 1; omega

theorem jaccard_main (l1 l2 : List Iv) (fuel k1 k2 : Nat) (u it : Int) (inc1 inc2 : List Int) (i1 i2 : Bool)
    (hinv1 : IncInv inc1 l1.length k1 i1) (hinv2 : IncInv inc2 l2.length k2 i2)
    (hk1 : k1 ≤ l1.length) (hk2 : k2 ≤ l2.length) (hf : l1.length + l2.length + 1 ≤ fuel + k1 + k2) :
    jaccard_similarity.loop1 l1 l2 fuel u it (k1 : Int) (k2 : Int) inc1 inc2
      = jcont it u (jaccardLoop (l1.drop k1) i1 (l2.drop k2) i2) := by
  induction fuel generalizing k1 k2 u it inc1 inc2 i1 i2 with
  | zero => omega
  | succ fuel ih =>
    unfold jaccard_similarity.loop1
    simp only [pyLen, pyIdx_natCast]
    by_cases hlt1 : k1 < l1.length
    · by_cases hlt2 : k2 < l2.length
      · have hx : l1[k1]? = some l1[k1] := List.getElem?_eq_getElem hlt1
        have hy : l2[k2]? = some l2[k2] := List.getElem?_eq_getElem hlt2
        have hd1 := drop_eq_cons_of_getElem l1 k1 _ hx
        have hd2 := drop_eq_cons_of_getElem l2 k2 _ hy
        have hc1 : ((k1 : Int) + 1) = ((k1 + 1 : Nat) : Int) := by omega
        have hc2 : ((k2 : Int) + 1) = ((k2 + 1 : Nat) : Int) := by omega
        have hl1 : (k1 : Int) < (l1.length : Int) := by omega
        have hl2 : (k2 : Int) < (l2.length : Int) := by omega
        have hs1 : k1 < inc1.length := by rw [hinv1.1]; exact hlt1
        have hs2 : k2 < inc2.length := by rw [hinv2.1]; exact hlt2
        simp only [hx, hy, hl1, hl2, decide_true, Bool.and_self, if_true, hc1, hc2, hinv1.get hlt1, hinv2.get hlt2,
          pySet_natCast, hs1, hs2]
        rw [hd1, hd2, jaccardLoop]
        by_cases ho : overlaps l1[k1] l2[k2] = true
        · simp only [ho, if_true]
          by_cases hb : l2[k2].2 < l1[k1].2
          · simp only [hb, decide_true, if_true]
            cases i1 <;> cases i2 <;>
              simp only [Bool.false_eq_true, if_false, if_true, decide_true, decide_false, Bool.and_self, Bool.and_false,
                Bool.and_true, Bool.not_false, Bool.not_true, ovUnion, ovInter, jcont_map,
                show ¬ ((1 : Int) = 0) by omega, show ¬ ((0 : Int) = 1) by omega] <;>
              first
              | rfl
              | rw [ih k1 (k2 + 1) _ _ _ _ true false hinv1.set_stay hinv2.set_next (by omega) (by omega) (by omega), hd1]
          · simp only [hb, decide_false, Bool.false_eq_true, if_false]
            cases i1 <;> cases i2 <;>
              simp only [Bool.false_eq_true, if_false, if_true, decide_true, decide_false, Bool.and_self, Bool.and_false,
                Bool.and_true, Bool.not_false, Bool.not_true, ovUnion, ovInter, jcont_map,
                show ¬ ((1 : Int) = 0) by omega, show ¬ ((0 : Int) = 1) by omega] <;>
              first
              | rfl
              | rw [ih (k1 + 1) k2 _ _ _ _ false true hinv1.set_next hinv2.set_stay (by omega) (by omega) (by omega), hd2]
        · simp only [ho, Bool.false_eq_true, if_false]
          by_cases hlo : left_of l2[k2] l1[k1] = true
          · simp only [hlo, if_true, jcont_map2]
            cases i2 <;>
              simp only [Bool.false_eq_true, if_false, if_true, decide_true, decide_false,
                show ¬ ((1 : Int) = 0) by omega, Int.add_zero]
            · rw [ih k1 (k2 + 1) _ _ _ _ i1 false hinv1 hinv2.set_next (by omega) (by omega) (by omega), hd1]
            · rw [ih k1 (k2 + 1) _ _ _ _ i1 false hinv1 hinv2.next (by omega) (by omega) (by omega), hd1]
          · simp only [hlo, Bool.false_eq_true, if_false, jcont_map2]
            cases i1 <;>
              simp only [Bool.false_eq_true, if_false, if_true, decide_true, decide_false,
                show ¬ ((1 : Int) = 0) by omega, Int.add_zero]
            · rw [ih (k1 + 1) k2 _ _ _ _ false i2 hinv1.set_next hinv2 (by omega) (by omega) (by omega), hd2]
            · rw [ih (k1 + 1) k2 _ _ _ _ false i2 hinv1.next hinv2 (by omega) (by omega) (by omega), hd2]
      · have hnil : l2.drop k2 = [] := List.drop_eq_nil_of_le (by omega)
        have hl2 : ¬ (k2 : Int) < (l2.length : Int) := by omega
        have hd1 := drop_eq_cons_of_getElem l1 k1 _ (List.getElem?_eq_getElem hlt1)
        simp only [hl2, decide_false, Bool.and_false, Bool.false_eq_true, if_false, jaccard_similarity.after1,
          jaccard_similarity.fuel2]
        rw [jaccard_tail2 l1 l2 _ k1 k2 u it inc1 inc2 i1 i2 hinv1 hinv2 hk1 hk2 (by omega), hnil]
        rw [hd1, jaccardLoop, ← hd1]
        simp [jcont, tailUnion]
    · have hnil : l1.drop k1 = [] := List.drop_eq_nil_of_le (by omega)
      have hl1 : ¬ (k1 : Int) < (l1.length : Int) := by omega
      simp only [hl1, decide_false, Bool.false_and, Bool.false_eq_true, if_false, jaccard_similarity.after1,
        jaccard_similarity.fuel2]
      rw [jaccard_tail2 l1 l2 _ k1 k2 u it inc1 inc2 i1 i2 hinv1 hinv2 hk1 hk2 (by omega), hnil, jaccardLoop]
      simp [jcont, tailUnion]

theorem jaccard_similarity_eq (l1 l2 : List Iv) : jaccard_similarity l1 l2 = jaccardSweep l1 l2 := by
  unfold jaccard_similarity jaccardSweep
  have := jaccard_main l1 l2 (jaccard_similarity.fuel1 l1 l2) 0 0 0 0
    (List.replicate l1.length 0) (List.replicate l2.length 0) false false (IncInv.init _) (IncInv.init _)
    (by omega) (by omega) (by simp [jaccard_similarity.fuel1])
  simp only [Int.natCast_zero, List.drop_zero] at this
  simp only [pyLen, Int.toNat_natCast, this]
  cases jaccardLoop l1 false l2 false with
  | none => rfl
  | some p => simp [jcont, jfin]

/-! ### `merge_ranges`: the Python list `union` is the model's accumulator reversed -/

theorem pyIdx_neg_one_reverse {α} (acc : List α) : pyIdx acc.reverse (-1) = acc.head? := by
  rw [pyIdx_neg_one, List.getLast?_reverse]

theorem pySet_neg_one_reverse {α} (a : α) (t : List α) (v : α) :
    pySet (a :: t).reverse (-1) v = some ((v :: t).reverse) := by
  have h1 : ¬ (0 : Int) ≤ -1 := by omega
  have h2 : -(((a :: t).reverse.length : Nat) : Int) ≤ -1 := by simp only [List.length_reverse, List.length_cons]; omega
  have h3 : ((((a :: t).reverse.length : Nat) : Int) + -1).toNat = t.reverse.length := by
    simp only [List.length_reverse, List.length_cons]; omega
  simp only [pySet, if_neg h1, if_pos h2, h3]
  simp [List.reverse_cons]

/-- what `after3` returns for the model's final accumulator -/
def mfin : Option (List Iv) → Option (List Iv)
  | none => none
  | some acc => if acc.isEmpty then none else some acc.reverse

theorem merge_after3 (l1 l2 : List Iv) (acc : List Iv) (it p1 p2 : Int) (i1 i2 : List Int) :
    merge_ranges.after3 l1 l2 acc.reverse it p1 p2 i1 i2 = mfin (some acc) := by
  unfold merge_ranges.after3 mfin
  cases acc <;> simp [pyLen] <;> omega

theorem merge_tail3 (l1 l2 : List Iv) (fuel k2 : Nat) (acc : List Iv) (it p1 : Int) (inc1 inc2 : List Int) (i2 : Bool)
    (hinv : IncInv inc2 l2.length k2 i2) (hk : k2 ≤ l2.length) (hf : l2.length + 1 ≤ fuel + k2) :
    merge_ranges.loop3 l1 l2 fuel acc.reverse it p1 (k2 : Int) inc1 inc2
      = mfin (some (tailAppend i2 acc (l2.drop k2))) := by
  induction fuel generalizing k2 acc i2 with
  | zero => omega
  | succ fuel ih =>
    unfold merge_ranges.loop3
    simp only [pyLen, pyIdx_natCast]
    by_cases hlt : k2 < l2.length
    · have hx : l2[k2]? = some l2[k2] := List.getElem?_eq_getElem hlt
      have hd := drop_eq_cons_of_getElem l2 k2 _ hx
      have hc : ((k2 : Int) + 1) = ((k2 + 1 : Nat) : Int) := by omega
      have hl : (k2 : Int) < (l2.length : Int) := by omega
      simp only [hl, decide_true, if_true, hinv.get hlt, hx, hc, hd, tailAppend]
      cases i2
      · simp only [Bool.false_eq_true, if_false, decide_true, if_true, ← List.reverse_cons]
        rw [ih (k2 + 1) _ false hinv.next (by omega) (by omega)]
      · simp only [if_true, show ¬ ((1 : Int) = 0) by omega, decide_false, Bool.false_eq_true, if_false]
        rw [ih (k2 + 1) _ false hinv.next (by omega) (by omega)]
    · have hl : ¬ (k2 : Int) < (l2.length : Int) := by omega
      have : l2.drop k2 = [] := List.drop_eq_nil_of_le (by omega)
      simp only [hl, decide_false, Bool.false_eq_true, if_false, this, tailAppend, merge_after3]

theorem tailAppend_nil (inc : Bool) (acc : List Iv) : tailAppend inc acc [] = acc := rfl

theorem merge_tail2 (l1 l2 : List Iv) (fuel k1 k2 : Nat) (acc : List Iv) (it : Int) (inc1 inc2 : List Int) (i1 i2 : Bool)
    (hinv1 : IncInv inc1 l1.length k1 i1) (hinv2 : IncInv inc2 l2.length k2 i2)
    (hk1 : k1 ≤ l1.length) (hk2 : k2 ≤ l2.length) (hf : l1.length + 1 ≤ fuel + k1) :
    merge_ranges.loop2 l1 l2 fuel acc.reverse it (k1 : Int) (k2 : Int) inc1 inc2
      = mfin (some (tailAppend i2 (tailAppend i1 acc (l1.drop k1)) (l2.drop k2))) := by
  induction fuel generalizing k1 acc i1 with
  | zero => omega
  | succ fuel ih =>
    unfold merge_ranges.loop2
    simp only [pyLen, pyIdx_natCast]
    by_cases hlt : k1 < l1.length
    · have hx : l1[k1]? = some l1[k1] := List.getElem?_eq_getElem hlt
      have hd := drop_eq_cons_of_getElem l1 k1 _ hx
      have hc : ((k1 : Int) + 1) = ((k1 + 1 : Nat) : Int) := by omega
      have hl : (k1 : Int) < (l1.length : Int) := by omega
      simp only [hl, decide_true, if_true, hinv1.get hlt, hx, hc, hd, tailAppend]
      cases i1
      · simp only [Bool.false_eq_true, if_false, decide_true, if_true, ← List.reverse_cons]
        rw [ih (k1 + 1) _ false hinv1.next (by omega) (by omega)]
      · simp only [if_true, show ¬ ((1 : Int) = 0) by omega, decide_false, Bool.false_eq_true, if_false]
        rw [ih (k1 + 1) _ false hinv1.next (by omega) (by omega)]
    · have hl : ¬ (k1 : Int) < (l1.length : Int) := by omega
      have : l1.drop k1 = [] := List.drop_eq_nil_of_le (by omega)
      simp only [hl, decide_false, Bool.false_eq_true, if_false, this, tailAppend,
        merge_ranges.after2, merge_ranges.fuel3]
      exact merge_tail3 l1 l2 _ k2 acc it _ inc1 inc2 i2 hinv2 hk2 (by omega)

theorem merge_main (l1 l2 : List Iv) (fuel k1 k2 : Nat) (acc : List Iv) (it : Int) (inc1 inc2 : List Int) (i1 i2 : Bool)
    (hinv1 : IncInv inc1 l1.length k1 i1) (hinv2 : IncInv inc2 l2.length k2 i2)
    (hk1 : k1 ≤ l1.length) (hk2 : k2 ≤ l2.length) (hf : l1.length + l2.length + 1 ≤ fuel + k1 + k2) :
    merge_ranges.loop1 l1 l2 fuel acc.reverse it (k1 : Int) (k2 : Int) inc1 inc2
      = mfin (mergeLoop (l1.drop k1) i1 (l2.drop k2) i2 acc) := by
  induction fuel generalizing k1 k2 acc it inc1 inc2 i1 i2 with
  | zero => omega
  | succ fuel ih =>
    unfold merge_ranges.loop1
    simp only [pyLen, pyIdx_natCast]
    by_cases hlt1 : k1 < l1.length
    · by_cases hlt2 : k2 < l2.length
      · have hx : l1[k1]? = some l1[k1] := List.getElem?_eq_getElem hlt1
        have hy : l2[k2]? = some l2[k2] := List.getElem?_eq_getElem hlt2
        have hd1 := drop_eq_cons_of_getElem l1 k1 _ hx
        have hd2 := drop_eq_cons_of_getElem l2 k2 _ hy
        have hc1 : ((k1 : Int) + 1) = ((k1 + 1 : Nat) : Int) := by omega
        have hc2 : ((k2 : Int) + 1) = ((k2 + 1 : Nat) : Int) := by omega
        have hl1 : (k1 : Int) < (l1.length : Int) := by omega
        have hl2 : (k2 : Int) < (l2.length : Int) := by omega
        have hs1 : k1 < inc1.length := by rw [hinv1.1]; exact hlt1
        have hs2 : k2 < inc2.length := by rw [hinv2.1]; exact hlt2
        simp only [hx, hy, hl1, hl2, decide_true, Bool.and_self, if_true, hc1, hc2, hinv1.get hlt1, hinv2.get hlt2,
          pySet_natCast, hs1, hs2]
        rw [hd1, hd2, mergeLoop]
        by_cases ho : overlaps l1[k1] l2[k2] = true
        · simp only [ho, if_true]
          cases acc with
          | nil =>
            by_cases hb : l2[k2].2 < l1[k1].2
            · simp only [hb, decide_true, if_true]
              cases i1 <;> cases i2 <;>
                simp only [Bool.false_eq_true, if_false, if_true, decide_true, decide_false, Bool.and_self, Bool.and_false,
                  Bool.and_true, Bool.not_false, Bool.not_true, ovAcc, bumpLast, pyIdx_neg_one_reverse, List.head?_nil,
                  show ¬ ((1 : Int) = 0) by omega, show ¬ ((0 : Int) = 1) by omega, ← List.reverse_cons] <;>
                first
                | rfl
                | rw [ih k1 (k2 + 1) _ _ _ _ true false hinv1.set_stay hinv2.set_next (by omega) (by omega) (by omega), hd1]
            · simp only [hb, decide_false, Bool.false_eq_true, if_false]
              cases i1 <;> cases i2 <;>
                simp only [Bool.false_eq_true, if_false, if_true, decide_true, decide_false, Bool.and_self, Bool.and_false,
                  Bool.and_true, Bool.not_false, Bool.not_true, ovAcc, bumpLast, pyIdx_neg_one_reverse, List.head?_nil,
                  show ¬ ((1 : Int) = 0) by omega, show ¬ ((0 : Int) = 1) by omega, ← List.reverse_cons] <;>
                first
                | rfl
                | rw [ih (k1 + 1) k2 _ _ _ _ false true hinv1.set_next hinv2.set_stay (by omega) (by omega) (by omega), hd2]
          | cons c acc =>
            by_cases hb : l2[k2].2 < l1[k1].2
            · simp only [hb, decide_true, if_true]
              cases i1 <;> cases i2 <;>
                simp only [Bool.false_eq_true, if_false, if_true, decide_true, decide_false, Bool.and_self, Bool.and_false,
                  Bool.and_true, Bool.not_false, Bool.not_true, ovAcc, bumpLast, pyIdx_neg_one_reverse, List.head?_cons,
                  pySet_neg_one_reverse,
                  show ¬ ((1 : Int) = 0) by omega, show ¬ ((0 : Int) = 1) by omega, ← List.reverse_cons] <;>
                first
                | rfl
                | rw [ih k1 (k2 + 1) _ _ _ _ true false hinv1.set_stay hinv2.set_next (by omega) (by omega) (by omega), hd1]
            · simp only [hb, decide_false, Bool.false_eq_true, if_false]
              cases i1 <;> cases i2 <;>
                simp only [Bool.false_eq_true, if_false, if_true, decide_true, decide_false, Bool.and_self, Bool.and_false,
                  Bool.and_true, Bool.not_false, Bool.not_true, ovAcc, bumpLast, pyIdx_neg_one_reverse, List.head?_cons,
                  pySet_neg_one_reverse,
                  show ¬ ((1 : Int) = 0) by omega, show ¬ ((0 : Int) = 1) by omega, ← List.reverse_cons] <;>
                first
                | rfl
                | rw [ih (k1 + 1) k2 _ _ _ _ false true hinv1.set_next hinv2.set_stay (by omega) (by omega) (by omega), hd2]
        · simp only [ho, Bool.false_eq_true, if_false]
          by_cases hlo : left_of l2[k2] l1[k1] = true
          · simp only [hlo, if_true]
            cases i2 <;>
              simp only [Bool.false_eq_true, if_false, if_true, decide_true, decide_false,
                show ¬ ((1 : Int) = 0) by omega, ← List.reverse_cons]
            · rw [ih k1 (k2 + 1) _ _ _ _ i1 false hinv1 hinv2.set_next (by omega) (by omega) (by omega), hd1]
            · rw [ih k1 (k2 + 1) _ _ _ _ i1 false hinv1 hinv2.next (by omega) (by omega) (by omega), hd1]
          · simp only [hlo, Bool.false_eq_true, if_false]
            cases i1 <;>
              simp only [Bool.false_eq_true, if_false, if_true, decide_true, decide_false,
                show ¬ ((1 : Int) = 0) by omega, ← List.reverse_cons]
            · rw [ih (k1 + 1) k2 _ _ _ _ false i2 hinv1.set_next hinv2 (by omega) (by omega) (by omega), hd2]
            · rw [ih (k1 + 1) k2 _ _ _ _ false i2 hinv1.next hinv2 (by omega) (by omega) (by omega), hd2]
      · have he2 : k2 = l2.length := by omega
        subst he2
        have hnil : l2.drop l2.length = [] := List.drop_eq_nil_of_le (by omega)
        have hd1 := drop_eq_cons_of_getElem l1 k1 _ (List.getElem?_eq_getElem hlt1)
        simp only [Int.lt_irrefl, decide_false, Bool.and_false, Bool.false_eq_true, if_false, merge_ranges.after1,
          merge_ranges.fuel2, pyLen, decide_true, Bool.or_true, if_true]
        rw [merge_tail2 l1 l2 _ k1 l2.length acc it inc1 inc2 i1 i2 hinv1 hinv2 hk1 hk2 (by omega), hnil]
        rw [tailAppend_nil, hd1, mergeLoop]
    · have he1 : k1 = l1.length := by omega
      subst he1
      have hnil : l1.drop l1.length = [] := List.drop_eq_nil_of_le (by omega)
      simp only [Int.lt_irrefl, decide_false, Bool.false_and, Bool.false_eq_true, if_false, merge_ranges.after1,
        merge_ranges.fuel2, pyLen, decide_true, Bool.true_or, if_true]
      rw [merge_tail2 l1 l2 _ l1.length k2 acc it inc1 inc2 i1 i2 hinv1 hinv2 hk1 hk2 (by omega), hnil, mergeLoop]
      rfl

theorem merge_ranges_eq (l1 l2 : List Iv) : merge_ranges l1 l2 = mergeRanges l1 l2 := by
  unfold merge_ranges mergeRanges
  have := merge_main l1 l2 (merge_ranges.fuel1 l1 l2) 0 0 [] 0
    (List.replicate l1.length 0) (List.replicate l2.length 0) false false (IncInv.init _) (IncInv.init _)
    (by omega) (by omega) (by simp [merge_ranges.fuel1])
  simp only [Int.natCast_zero, List.drop_zero, List.reverse_nil] at this
  simp only [pyLen, Int.toNat_natCast, this]
  cases mergeLoop l1 false l2 false [] with
  | none => rfl
  | some p => rfl

end IsoVerif.Lemmas.GenLoops
