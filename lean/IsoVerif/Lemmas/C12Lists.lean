/-
Helper lemmas for the end-to-end part of C12: first-wins duplicate elimination under block-wise permutations,
naturality under maps, grouping a list by a key.  Core Lean only.
-/
import IsoVerif.Model.Resolver
import IsoVerif.Lemmas.Resolver
import IsoVerif.Lemmas.BamClusters

namespace IsoVerif.Lemmas.C12
open IsoVerif.Model.Resolver IsoVerif.Lemmas.Resolver
open List

section FirstWins
variable {α : Type} (eq : α → α → Bool)

theorem firstWinsAux_append (kept a b : List α) :
    firstWinsAux eq kept (a ++ b) = firstWinsAux eq (firstWinsAux eq kept a) b := by
  induction a generalizing kept with
  | nil => simp [firstWinsAux]
  | cons x t ih =>
    simp only [List.cons_append, firstWinsAux]
    split
    · exact ih kept
    · exact ih _

/-- duplicate elimination commutes with a map along which the equality test is pulled back -/
theorem firstWinsAux_map {β : Type} (f : α → β) (eqb : β → β → Bool) (kept l : List α) :
    (firstWinsAux (fun a b => eqb (f a) (f b)) kept l).map f = firstWinsAux eqb (kept.map f) (l.map f) := by
  induction l generalizing kept with
  | nil => simp [firstWinsAux]
  | cons x t ih =>
    simp only [List.map_cons, firstWinsAux, List.any_map, Function.comp_def]
    split
    · exact ih kept
    · rw [ih]; simp

theorem firstWins_map {β : Type} (f : α → β) (eqb : β → β → Bool) (l : List α) :
    (firstWins (fun a b => eqb (f a) (f b)) l).map f = firstWins eqb (l.map f) := by
  simpa [firstWins] using firstWinsAux_map f eqb [] l

/-- the accumulator matters only as a multiset -/
theorem firstWinsAux_perm_acc (l : List α) {kept kept' : List α} (h : kept ~ kept') :
    firstWinsAux eq kept l ~ firstWinsAux eq kept' l := by
  induction l generalizing kept kept' with
  | nil => simpa [firstWinsAux] using h
  | cons x t ih =>
    simp only [firstWinsAux, h.any_eq]
    split
    · exact ih h
    · exact ih (h.append_right [x])

/-- inside a block in which `eq`-equal elements are equal, the order of the block does not matter -/
theorem firstWinsAux_perm_block (hsymm : ∀ a b, eq a b = eq b a) {b b' : List α} (hp : b ~ b') :
    (∀ x ∈ b, ∀ y ∈ b, eq x y = true → x = y) →
    ∀ {kept kept' : List α}, kept ~ kept' → firstWinsAux eq kept b ~ firstWinsAux eq kept' b' := by
  induction hp with
  | nil => intro _ kept kept' h; simpa [firstWinsAux] using h
  | cons x _ ih =>
    intro H kept kept' h
    simp only [firstWinsAux, h.any_eq]
    have H' := fun a ha c hc => H a (List.mem_cons_of_mem _ ha) c (List.mem_cons_of_mem _ hc)
    split
    · exact ih H' h
    · exact ih H' (h.append_right [x])
  | swap x y t =>
    intro H kept kept' h
    -- left list: y :: x :: t, right list: x :: y :: t
    simp only [firstWinsAux, h.any_eq, List.any_append, List.any_cons, List.any_nil, Bool.or_false]
    cases hy : kept'.any (fun k => eq k y) <;> cases hx : kept'.any (fun k => eq k x) <;>
      simp only [Bool.false_or, Bool.true_or, if_true, Bool.false_eq_true, if_false]
    · -- neither is excluded by the accumulator
      cases hxy : eq x y with
      | true =>
        have hyx : eq y x = true := by rw [hsymm]; exact hxy
        have : x = y := H x (by simp) y (by simp) hxy
        subst this
        simp only [hxy, if_true]
        exact firstWinsAux_perm_acc eq t (h.append_right [x])
      | false =>
        have hyx : eq y x = false := by rw [hsymm]; exact hxy
        simp only [hyx, Bool.false_eq_true, if_false]
        refine firstWinsAux_perm_acc eq t ?_
        have h1 : kept ++ [y] ++ [x] ~ kept' ++ [y] ++ [x] := (h.append_right [y]).append_right [x]
        have h2 : kept' ++ [y] ++ [x] ~ kept' ++ [x] ++ [y] := by
          simp only [List.append_assoc]
          exact Perm.append_left kept' (by simpa using Perm.swap x y [])
        exact h1.trans h2
    · exact firstWinsAux_perm_acc eq t (h.append_right [y])
    · exact firstWinsAux_perm_acc eq t (h.append_right [x])
    · exact firstWinsAux_perm_acc eq t h
  | trans h1 _ ih1 ih2 =>
    intro H kept kept' h
    refine (ih1 H h).trans (ih2 ?_ (Perm.refl _))
    intro a ha c hc
    exact H a (h1.mem_iff.mpr ha) c (h1.mem_iff.mpr hc)

/-- **block-wise permutation invariance of first-wins elimination**: two lists cut into the same number of blocks,
    corresponding blocks being permutations of each other, and inside a block `eq`-equal elements being equal: the
    survivors are the same multiset -/
theorem firstWinsAux_blocks (hsymm : ∀ a b, eq a b = eq b a) {B B' : List (List α)}
    (h : Forall2 (fun b b' => b ~ b') B B') :
    (∀ b ∈ B, ∀ x ∈ b, ∀ y ∈ b, eq x y = true → x = y) →
    ∀ {kept kept' : List α}, kept ~ kept' → firstWinsAux eq kept B.flatten ~ firstWinsAux eq kept' B'.flatten := by
  induction h with
  | nil => intro _ kept kept' hk; simpa [firstWinsAux] using hk
  | cons hb _ ih =>
    intro H kept kept' hk
    simp only [List.flatten_cons, firstWinsAux_append]
    exact ih (fun b hb' => H b (List.mem_cons_of_mem _ hb'))
      (firstWinsAux_perm_block eq hsymm hb (H _ List.mem_cons_self) hk)

theorem firstWins_blocks (hsymm : ∀ a b, eq a b = eq b a) {B B' : List (List α)}
    (h : Forall2 (fun b b' => b ~ b') B B')
    (H : ∀ b ∈ B, ∀ x ∈ b, ∀ y ∈ b, eq x y = true → x = y) :
    firstWins eq B.flatten ~ firstWins eq B'.flatten :=
  firstWinsAux_blocks eq hsymm h H (Perm.refl [])

/-- when all elements are `eq`-equal to each other only the first survives -/
theorem firstWinsAux_all_eq (k : α) (l : List α) (h : ∀ x ∈ l, eq k x = true) :
    firstWinsAux eq [k] l = [k] := by
  induction l with
  | nil => rfl
  | cons x t ih =>
    have hx : eq k x = true := h x (by simp)
    simp only [firstWinsAux, List.any_cons, hx, Bool.true_or, if_true]
    exact ih (fun y hy => h y (List.mem_cons_of_mem _ hy))

theorem firstWins_all_eq (k : α) (l : List α) (h : ∀ x ∈ l, eq k x = true) :
    firstWins eq (k :: l) = [k] := by
  simp only [firstWins, firstWinsAux, List.any_nil, Bool.false_eq_true, if_false, List.nil_append]
  exact firstWinsAux_all_eq eq k l h

end FirstWins

/-! ### Forall2 -/

theorem forall2_map {α β γ δ : Type} {R : α → β → Prop} {S : γ → δ → Prop} (f : α → γ) (g : β → δ)
    {l1 : List α} {l2 : List β} (h : Forall2 R l1 l2) (hfg : ∀ a b, R a b → S (f a) (g b)) :
    Forall2 S (l1.map f) (l2.map g) := by
  induction h with
  | nil => exact Forall2.nil
  | cons hab _ ih => exact Forall2.cons (hfg _ _ hab) ih

theorem forall2_append {α β : Type} {R : α → β → Prop} {a1 a2 : List α} {b1 b2 : List β}
    (h1 : Forall2 R a1 b1) (h2 : Forall2 R a2 b2) : Forall2 R (a1 ++ a2) (b1 ++ b2) := by
  induction h1 with
  | nil => simpa using h2
  | cons hab _ ih => exact Forall2.cons hab ih

theorem forall2_flatMap {α β γ δ : Type} {R : α → β → Prop} {S : γ → δ → Prop} (f : α → List γ) (g : β → List δ)
    {l1 : List α} {l2 : List β} (h : Forall2 R l1 l2) (hfg : ∀ a b, R a b → Forall2 S (f a) (g b)) :
    Forall2 S (l1.flatMap f) (l2.flatMap g) := by
  induction h with
  | nil => exact Forall2.nil
  | cons hab _ ih =>
    simp only [List.flatMap_cons]
    exact forall2_append (hfg _ _ hab) ih

theorem forall2_refl_of {α : Type} {R : α → α → Prop} (l : List α) (h : ∀ a ∈ l, R a a) : Forall2 R l l := by
  induction l with
  | nil => exact Forall2.nil
  | cons a t ih => exact Forall2.cons (h a (by simp)) (ih (fun b hb => h b (List.mem_cons_of_mem _ hb)))

theorem forall2_flatten_perm {α : Type} {B B' : List (List α)} (h : Forall2 (fun b b' => b ~ b') B B') :
    B.flatten ~ B'.flatten := by
  induction h with
  | nil => simp
  | cons hb _ ih => simp only [List.flatten_cons]; exact hb.append ih

theorem forall2_length {α β : Type} {R : α → β → Prop} {l1 : List α} {l2 : List β} (h : Forall2 R l1 l2) :
    l1.length = l2.length := by
  induction h with
  | nil => rfl
  | cons _ _ ih => simp [ih]

/-! ### sublists of duplicate-free lists, grouping by a key -/

/-- a sub-list of a duplicate-free list is determined by its members -/
theorem sublist_eq_filter {α : Type} {s z : List α} (p : α → Bool) (hs : s.Sublist z) (hz : z.Nodup)
    (hmem : ∀ x ∈ z, x ∈ s ↔ p x = true) : s = z.filter p := by
  induction hs with
  | slnil => rfl
  | cons a hs' ih =>
    rename_i s' z'
    simp only [List.nodup_cons] at hz
    have ha : p a = false := by
      cases hpa : p a with
      | false => rfl
      | true =>
        have : a ∈ s' := (hmem a (by simp)).mpr hpa
        exact absurd (hs'.subset this) hz.1
    simp only [List.filter_cons, ha, Bool.false_eq_true, if_false]
    exact ih hz.2 (fun x hx => hmem x (List.mem_cons_of_mem _ hx))
  | cons_cons a hs' ih =>
    rename_i s' z'
    simp only [List.nodup_cons] at hz
    have ha : p a = true := (hmem a (by simp)).mp (by simp)
    simp only [List.filter_cons, ha, if_true, List.cons.injEq, true_and]
    refine ih hz.2 (fun x hx => ?_)
    have := hmem x (List.mem_cons_of_mem _ hx)
    have hxa : x ≠ a := fun e => hz.1 (e ▸ hx)
    simpa [hxa] using this

/-- a list is, as a multiset, the union over its keys of the sub-lists with that key -/
theorem perm_group {α : Type} (key : α → Nat) (K : List Nat) (hK : K.Nodup) (l : List α)
    (hcover : ∀ x ∈ l, key x ∈ K) : l ~ K.flatMap (fun r => l.filter (fun x => key x == r)) := by
  induction l with
  | nil => simp
  | cons x t ih =>
    have hsingle : ∀ (K : List Nat), K.Nodup → key x ∈ K →
        K.flatMap (fun r => (x :: t).filter (fun y => key y == r)) ~
          x :: K.flatMap (fun r => t.filter (fun y => key y == r)) := by
      intro K
      induction K with
      | nil => intro _ h; cases h
      | cons k ks ihk =>
        intro hnd hmem
        simp only [List.nodup_cons] at hnd
        simp only [List.flatMap_cons, List.filter_cons]
        by_cases hk : key x = k
        · subst hk
          simp only [beq_self_eq_true, if_true, List.cons_append]
          refine Perm.cons x (Perm.append_left _ ?_)
          -- x does not occur under any other key
          have : ∀ r ∈ ks, ((if (key x == r) = true then x :: t.filter (fun y => key y == r)
              else t.filter (fun y => key y == r))) = t.filter (fun y => key y == r) := by
            intro r hr
            have : (key x == r) = false := by
              rw [beq_eq_false_iff_ne]; intro e; exact hnd.1 (e ▸ hr)
            simp [this]
          refine Perm.of_eq ?_
          rw [List.flatMap_def, List.flatMap_def, List.map_congr_left this]
        · have hk' : (key x == k) = false := by rw [beq_eq_false_iff_ne]; exact hk
          simp only [hk', Bool.false_eq_true, if_false]
          have hmem' : key x ∈ ks := by
            rcases List.mem_cons.mp hmem with h | h
            · exact absurd h hk
            · exact h
          have := ihk hnd.2 hmem'
          simp only [List.filter_cons] at this
          exact (Perm.append_left _ this).trans perm_middle
    have h1 := hsingle K hK (hcover x (by simp))
    exact (Perm.cons x (ih (fun y hy => hcover y (List.mem_cons_of_mem _ hy)))).trans h1.symm

/-- the keys of a list in first-occurrence order -/
def keysOf {α : Type} (key : α → Nat) (l : List α) : List Nat :=
  firstWins (fun a b : Nat => a == b) (l.map key)

theorem keysOf_nodup {α : Type} (key : α → Nat) (l : List α) : (keysOf key l).Nodup := by
  have := firstWins_pairwise (fun a b : Nat => a == b) (l.map key)
  exact this.imp (fun h => by simpa using h)

theorem mem_keysOf {α : Type} (key : α → Nat) (l : List α) (r : Nat) : r ∈ keysOf key l ↔ ∃ x ∈ l, key x = r := by
  constructor
  · intro h
    have := mem_of_mem_firstWins _ h
    simpa using this
  · rintro ⟨x, hx, rfl⟩
    obtain ⟨k, hk, hkx⟩ := firstWins_repr (fun a b : Nat => a == b) (by simp) (l.map key) (key x)
      (List.mem_map.mpr ⟨x, hx, rfl⟩)
    simp only [beq_iff_eq] at hkx
    subst hkx; exact hk

theorem keysOf_perm {α : Type} (key : α → Nat) {l l' : List α} (h : l ~ l') : keysOf key l ~ keysOf key l' := by
  rw [perm_ext_iff_of_nodup (keysOf_nodup key l) (keysOf_nodup key l')]
  intro r
  rw [mem_keysOf, mem_keysOf]
  constructor <;> rintro ⟨x, hx, e⟩
  · exact ⟨x, h.mem_iff.mp hx, e⟩
  · exact ⟨x, h.mem_iff.mpr hx, e⟩

theorem perm_group_keys {α : Type} (key : α → Nat) (l : List α) :
    l ~ (keysOf key l).flatMap (fun r => l.filter (fun x => key x == r)) :=
  perm_group key _ (keysOf_nodup key l) l (fun x hx => (mem_keysOf key l _).mpr ⟨x, hx, rfl⟩)

theorem flatMap_perm_keys {β : Type} {K K' : List Nat} (hK : K ~ K') (f g : Nat → List β)
    (hfg : ∀ r ∈ K, f r ~ g r) : K.flatMap f ~ K'.flatMap g := by
  have h1 : K.flatMap f ~ K.flatMap g := by
    clear hK
    induction K with
    | nil => simp
    | cons k ks ih =>
      simp only [List.flatMap_cons]
      exact (hfg k (by simp)).append (ih (fun r hr => hfg r (List.mem_cons_of_mem _ hr)))
  exact h1.trans (hK.flatMap_right g)

end IsoVerif.Lemmas.C12
