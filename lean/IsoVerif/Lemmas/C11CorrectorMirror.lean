/-
C11 helper lemmas — Model/Corrector.lean under reflection: the pieces of `process_events` / `correct_assigned_read`
that are mirror images of themselves (one event of the if/elif chain, the fuzzy junction loop, the exon chain).
-/
import IsoVerif.Gen.Prims
import IsoVerif.Gen.Corrector
import IsoVerif.Model.Interval
import IsoVerif.Model.Corrector
import IsoVerif.Model.C11Symmetry
import IsoVerif.Model.C11SymBedCorr
import IsoVerif.Lemmas.Interval
import IsoVerif.Lemmas.Corrector
import IsoVerif.Lemmas.C11Shift
import IsoVerif.Lemmas.C11Mirror

namespace IsoVerif.Lemmas.C11
open IsoVerif.Gen IsoVerif.Model IsoVerif.Model.C14 IsoVerif.Model.C11 IsoVerif.Lemmas IsoVerif.Lemmas.C14

/-! ## Model/Corrector.lean — reflection -/

/-! ### the exon chain -/

theorem buildExons_mirror (L : Int) (reg : Iv) (ni : List Iv) :
    buildExons (mirrorIv L reg) (mirrorL L ni) = mirrorL L (buildExons reg ni) := by
  cases ni with
  | nil => rfl
  | cons a t =>
    obtain ⟨l, hl⟩ : ∃ l, (a :: t).getLast? = some l := getLast?_cons_some a t
    simp only [buildExons, mirrorL_head?, mirrorL_getLast?, hl, List.head?_cons, Option.map_some,
      junctionsFromBlocks_mirror]
    rw [mirrorL_cons, mirrorL_append, mirrorL_singleton]
    simp only [mirrorIv_fst, mirrorIv_snd, mirrorIv, List.cons_append, List.nil_append, List.append_assoc]
    congr 1
    · ext <;> simp <;> omega
    · congr 2; ext <;> simp <;> omega

theorem corr_SD_of_mirror (L : Int) (l : List Iv) (h : SD (mirrorL L l)) : SD l := by
  have := SD_mirror L _ h
  rwa [mirrorL_mirrorL] at this

theorem corr_WFl_of_mirror (L : Int) (l : List Iv) (h : WFl (mirrorL L l)) : WFl l := by
  have := WFl_mirror L _ h
  rwa [mirrorL_mirrorL] at this

theorem validChain_mirror (L : Int) (l : List Iv) : validChain (mirrorL L l) = validChain l := by
  rw [Bool.eq_iff_iff, validChain_iff, validChain_iff]
  exact ⟨fun h => ⟨corr_WFl_of_mirror L l h.1, corr_SD_of_mirror L l h.2⟩, fun h => ⟨WFl_mirror L l h.1, SD_mirror L l h.2⟩⟩

/-- `Spaced` (non-empty intervals, a gap of at least one position between neighbours) read from the other end -/
theorem Spaced_append_singleton (l : List Iv) (x : Iv) :
    Spaced (l ++ [x]) ↔ Spaced l ∧ x.1 ≤ x.2 ∧ (∀ y, l.getLast? = some y → y.2 + 1 < x.1) := by
  induction l with
  | nil => simp [Spaced]
  | cons a t ih =>
    cases t with
    | nil =>
      simp only [List.nil_append, List.cons_append, Spaced, List.getLast?_singleton, Option.some.injEq]
      constructor
      · rintro ⟨h1, h2, h3⟩; exact ⟨h1, h3, fun y hy => by subst hy; exact h2⟩
      · rintro ⟨h1, h3, h2⟩; exact ⟨h1, h2 a rfl, h3⟩
    | cons b t' =>
      have e : (a :: b :: t') ++ [x] = a :: b :: (t' ++ [x]) := by simp
      have hl : (a :: b :: t').getLast? = (b :: t').getLast? := by simp [List.getLast?_cons_cons]
      rw [e]
      simp only [Spaced, hl]
      have ih' := ih
      simp only [List.cons_append] at ih'
      rw [ih']
      constructor
      · rintro ⟨h1, h2, h3, h4, h5⟩; exact ⟨⟨h1, h2, h3⟩, h4, h5⟩
      · rintro ⟨⟨h1, h2, h3⟩, h4, h5⟩; exact ⟨h1, h2, h3, h4, h5⟩

theorem Spaced_mirror (L : Int) (l : List Iv) (h : Spaced l) : Spaced (mirrorL L l) := by
  induction l with
  | nil => exact trivial
  | cons a t ih =>
    rw [mirrorL_cons, Spaced_append_singleton]
    refine ⟨ih (Spaced_tail h), by have := Spaced_head h; simp; omega, ?_⟩
    intro y hy
    rw [mirrorL_getLast?] at hy
    cases t with
    | nil => simp at hy
    | cons b t' =>
      simp only [List.head?_cons, Option.map_some, Option.some.injEq] at hy
      subst hy
      obtain ⟨_, h2, _⟩ := h
      simp; omega

theorem validIntronChain_mirror (L : Int) (l : List Iv) : validIntronChain (mirrorL L l) = validIntronChain l := by
  rw [Bool.eq_iff_iff, validIntronChain_iff, validIntronChain_iff]
  constructor
  · intro h
    have := Spaced_mirror L _ h
    rwa [mirrorL_mirrorL] at this
  · exact Spaced_mirror L l

/-! ### fuzzy junction correction -/

theorem fuzzySite_mirror (L own ref : Int) (e : Int × Int) :
    fuzzySite (L + 1 - own) (L + 1 - ref) e = L + 1 - fuzzySite own ref e := by
  simp only [fuzzySite]
  by_cases h : own = ref
  · simp [h]
  · have : ¬ (L + 1 - own = L + 1 - ref) := by omega
    simp only [h, this, if_false]; split <;> rfl

theorem fuzzyLoop_append (err : Nat → Bool → Int × Int) (rs1 qs1 rs2 qs2 : List Iv) (i : Nat)
    (h : rs1.length = qs1.length) :
    fuzzyLoop err (rs1 ++ rs2) (qs1 ++ qs2) i = fuzzyLoop err rs1 qs1 i ++ fuzzyLoop err rs2 qs2 (i + rs1.length) := by
  induction rs1 generalizing qs1 i with
  | nil =>
    cases qs1 with
    | nil => simp [fuzzyLoop]
    | cons _ _ => simp at h
  | cons r rs ih =>
    cases qs1 with
    | nil => simp at h
    | cons q qs =>
      simp only [List.cons_append, fuzzyLoop, ih qs (i + 1) (by simpa using h), List.length_cons]
      congr 3; omega

theorem fuzzyLoop_congr (err err' : Nat → Bool → Int × Int) (rs qs : List Iv) (i : Nat)
    (h : ∀ j b, i ≤ j → j < i + rs.length → err j b = err' j b) :
    fuzzyLoop err rs qs i = fuzzyLoop err' rs qs i := by
  induction rs generalizing qs i with
  | nil => simp [fuzzyLoop]
  | cons r rs ih =>
    cases qs with
    | nil => simp [fuzzyLoop]
    | cons q qs =>
      simp only [fuzzyLoop]
      rw [h i true (by omega) (by simp), h i false (by omega) (by simp),
        ih qs (i + 1) (fun j b h1 h2 => h j b (by omega) (by simp at h2 ⊢; omega))]

/-- the loop on the mirrored introns with the error counts read from the other end -/
theorem fuzzyLoop_mirror_aux (L : Int) (err : Nat → Bool → Int × Int) (rs qs : List Iv) (off : Nat)
    (h : rs.length = qs.length) :
    fuzzyLoop (fun i left => err (off + rs.length - 1 - i) (!left)) (mirrorL L rs) (mirrorL L qs) 0
      = mirrorL L (fuzzyLoop err rs qs off) := by
  induction rs generalizing qs off with
  | nil =>
    cases qs with
    | nil => rfl
    | cons _ _ => simp at h
  | cons r rs ih =>
    cases qs with
    | nil => simp at h
    | cons q qs =>
      have hl : rs.length = qs.length := by simpa using h
      rw [mirrorL_cons, mirrorL_cons, fuzzyLoop_append _ _ _ _ _ _ (by simp [mirrorL_length, hl])]
      have hc := fuzzyLoop_congr (fun i left => err (off + (r :: rs).length - 1 - i) (!left))
        (fun i left => err (off + 1 + rs.length - 1 - i) (!left)) (mirrorL L rs) (mirrorL L qs) 0
        (by intro j b _ _; simp only [List.length_cons]; congr 1; omega)
      rw [hc, ih qs (off + 1) hl]
      simp only [fuzzyLoop, mirrorL_cons, mirrorL_length, List.length_cons, Nat.zero_add, mirrorIv_fst, mirrorIv_snd,
        fuzzySite_mirror, Bool.not_true, Bool.not_false]
      have e0 : off + (rs.length + 1) - 1 - rs.length = off := by omega
      rw [e0]
      rfl

theorem fuzzyLoop_mirror (L : Int) (err : Nat → Bool → Int × Int) (rs qs : List Iv) (h : rs.length = qs.length) :
    fuzzyLoop (mirrorErr rs.length err) (mirrorL L rs) (mirrorL L qs) 0 = mirrorL L (fuzzyLoop err rs qs 0) := by
  have := fuzzyLoop_mirror_aux L err rs qs 0 h
  simp only [Nat.zero_add] at this
  exact this

/-! ### indexing and slicing the mirrored list -/

theorem corr_pyGet?_mirror_int (L : Int) (l : List Iv) (a : Int) (h0 : 0 ≤ a) (h1 : a < l.length) :
    pyGet? (mirrorL L l) ((l.length : Int) - 1 - a) = (pyGet? l a).map (mirrorIv L) := by
  have := pyGet?_mirror L l a.toNat (by omega)
  have e : ((a.toNat : Nat) : Int) = a := by omega
  rw [e] at this
  exact this

theorem corr_drop_take_reverse {α} (xs : List α) (a c x : Nat) (h : a + c + x = xs.length) :
    (xs.reverse.drop x).take c = ((xs.drop a).take c).reverse := by
  rw [List.drop_reverse, List.take_reverse, List.length_take, List.drop_take]
  have e1 : min (xs.length - x) xs.length = a + c := by omega
  rw [e1]
  have e2 : a + c - c = a := by omega
  have e3 : xs.length - x - a = c := by omega
  rw [e2, e3]

/-- a slice `[a .. b]` of the original list is the slice `[n−1−b .. n−1−a]` of the mirrored list, mirrored;
    an empty range (`b < a`) is empty on both sides, whatever the indices -/
theorem sliceIncl_mirror (L : Int) (l : List Iv) (a b : Int) (h : a ≤ b → 0 ≤ a ∧ b < l.length) :
    sliceIncl (mirrorL L l) ((l.length : Int) - 1 - b) ((l.length : Int) - 1 - a)
      = match sliceIncl l a b with
        | .ok xs => .ok (mirrorL L xs)
        | .error e => .error e := by
  by_cases hab : a ≤ b
  · obtain ⟨h0, h1⟩ := h hab
    rw [sliceIncl_inrange l a b h0 hab h1,
      sliceIncl_inrange (mirrorL L l) _ _ (by omega) (by omega) (by rw [mirrorL_length]; omega)]
    simp only
    congr 1
    have ec : ((l.length : Int) - 1 - a + 1 - ((l.length : Int) - 1 - b)).toNat = (b + 1 - a).toNat := by omega
    rw [ec]
    simp only [mirrorL]
    rw [corr_drop_take_reverse (l.map (mirrorIv L)) a.toNat (b + 1 - a).toNat ((l.length : Int) - 1 - b).toNat
      (by simp only [List.length_map]; omega)]
    simp only [List.map_drop, List.map_take]
  · have e1 : (b + 1 - a).toNat = 0 := by omega
    have e2 : ((l.length : Int) - 1 - a + 1 - ((l.length : Int) - 1 - b)).toNat = 0 := by omega
    simp only [sliceIncl, e1, e2, rangeGet]
    rfl

/-! ### one event of the if/elif chain -/

theorem corr_swapLR_swapLR (t : MatchEventSubtype) : swapLR (swapLR t) = t := by cases t <;> rfl

theorem corr_swapLR_eq_iff (t u : MatchEventSubtype) : swapLR t = u ↔ t = swapLR u := by
  constructor
  · intro h; rw [← h, corr_swapLR_swapLR]
  · intro h; rw [h, corr_swapLR_swapLR]

theorem contains_swapLR (l : List MatchEventSubtype) (hl : ∀ u ∈ l, swapLR u = u) (t : MatchEventSubtype) :
    l.contains (swapLR t) = l.contains t := by
  rw [Bool.eq_iff_iff]
  simp only [List.contains_iff_mem]
  constructor
  · intro h
    have := hl _ h
    rw [corr_swapLR_swapLR] at this
    rw [this]; exact h
  · intro h
    rw [hl _ h]; exact h

theorem known_types_fixed : ∀ u ∈ corrector_known_event_types, swapLR u = u := by decide

theorem misalignmentSet_fixed (p : CParams) : ∀ u ∈ misalignmentSet p, swapLR u = u := by
  intro u hu
  simp only [misalignmentSet, List.mem_append] at hu
  rcases hu with hu | hu <;> split at hu <;> simp at hu <;> subst hu <;> rfl

/-- the event's index ranges point into the read's / the isoform's intron lists wherever the chain reads them -/
structure EventInRange (n m : Nat) (e : MEvent) : Prop where
  read : 0 ≤ e.read.1 ∧ e.read.1 < n ∧ 0 ≤ e.read.2 ∧ e.read.2 < n
  iso : (e.etype = MatchEventSubtype.terminal_exon_misalignment_left ∨
         e.etype = MatchEventSubtype.terminal_exon_misalignment_right ∨
         e.etype = MatchEventSubtype.intron_shift ∨ e.etype = MatchEventSubtype.exon_misalignment) →
        0 ≤ e.iso.1 ∧ e.iso.1 < m ∧ 0 ≤ e.iso.2 ∧ e.iso.2 < m
  /-- `terminal_exon_misalignment_*` read `isoform_region[0]` on BOTH sides: symmetric only for a single intron -/
  single : (e.etype = MatchEventSubtype.terminal_exon_misalignment_left ∨
            e.etype = MatchEventSubtype.terminal_exon_misalignment_right) → e.iso.1 = e.iso.2

/-- well-formed retained micro introns: ANY read exon `0 … nRead` (first and last included), any number of
    bindings per exon, each naming an isoform intron by an in-range index -/
def MicroWF (nRead nIso : Nat) (mm : List (Int × Int)) : Prop :=
  ∀ q ∈ mm, 0 ≤ q.1 ∧ q.1 ≤ nRead ∧ 0 ≤ q.2 ∧ q.2 < nIso

/-- well-formed event map: distinct keys; an event is keyed by the first intron of its in-range, non-empty read
    range; ranges are pairwise disjoint; at most one event moves the left end of the region and at most one the
    right end (the micro-intron insertions have their own map: `MicroWF`) -/
def EmapWF (nRead nIso : Nat) (emap : List (Int × MEvent)) : Prop :=
  (emap.map (·.1)).Nodup ∧
  (∀ q ∈ emap, 0 ≤ q.1 → q.2.read.1 = q.1 ∧ q.2.read.1 ≤ q.2.read.2 ∧ EventInRange nRead nIso q.2) ∧
  (∀ q ∈ emap, ∀ q' ∈ emap, 0 ≤ q.1 → q.1 < q'.1 → q.2.read.2 < q'.1) ∧
  (∀ q ∈ emap, 0 ≤ q.1) ∧
  -- the LAST event that moves an end of the region wins: at most one event per end
  (emap.filter (fun q => q.2.etype = MatchEventSubtype.fake_terminal_exon_left ∨
                         q.2.etype = MatchEventSubtype.terminal_exon_misalignment_left)).length ≤ 1 ∧
  (emap.filter (fun q => q.2.etype = MatchEventSubtype.fake_terminal_exon_right ∨
                         q.2.etype = MatchEventSubtype.terminal_exon_misalignment_right)).length ≤ 1

theorem keepStep_mirror (L : Int) (ri corr : List Iv) (e : MEvent) (reg : Iv) (m : Nat) (hn : corr.length = ri.length)
    (hr : 0 ≤ e.read.1 ∧ e.read.1 < ri.length ∧ 0 ≤ e.read.2 ∧ e.read.2 < ri.length) :
    keepStep (mirrorL L ri) (mirrorL L corr) (mirrorMEvent ri.length m e) (mirrorIv L reg) []
      = mirrorExRes L (keepStep ri corr e reg []) := by
  simp only [keepStep, mirrorMEvent, mirrorIdx, contains_swapLR _ known_types_fixed]
  split
  · have := sliceIncl_mirror L corr e.read.1 e.read.2 (fun _ => ⟨hr.1, by omega⟩)
    rw [hn] at this
    rw [this]
    cases sliceIncl corr e.read.1 e.read.2 <;> simp [mirrorExRes]
  · have := sliceIncl_mirror L ri e.read.1 e.read.2 (fun _ => ⟨hr.1, by omega⟩)
    rw [this]
    cases sliceIncl ri e.read.1 e.read.2 <;> simp [mirrorExRes]

theorem corr_contains_well_inside_mirror (L : Int) (a b : Iv) (d : Int) :
    contains_well_inside (mirrorIv L a) (mirrorIv L b) d = contains_well_inside a b d := by
  simp only [contains_well_inside, mirrorIv]; grind

theorem misalignmentSet_mem (p : CParams) (t : MatchEventSubtype) (h : (misalignmentSet p).contains t = true) :
    t = MatchEventSubtype.intron_shift ∨ t = MatchEventSubtype.exon_misalignment := by
  simp only [List.contains_iff_mem, misalignmentSet, List.mem_append] at h
  rcases h with h | h <;> split at h <;> simp at h
  · exact Or.inl h
  · exact Or.inr h

theorem misalignmentSet_not (p : CParams) (t : MatchEventSubtype) (h1 : t ≠ MatchEventSubtype.intron_shift)
    (h2 : t ≠ MatchEventSubtype.exon_misalignment) : (misalignmentSet p).contains t = false := by
  cases h : (misalignmentSet p).contains t
  · rfl
  · rcases misalignmentSet_mem p t h with h | h
    · exact absurd h h1
    · exact absurd h h2

/-- the `fake_terminal_exon_left` body on the mirrored data is the mirrored `…_right` body, and vice versa -/
theorem fake_left_right_mirror (L : Int) (ri : List Iv) (read : Int × Int) (reg : Iv)
    (hr : 0 ≤ read.1 ∧ read.1 < ri.length ∧ 0 ≤ read.2 ∧ read.2 < ri.length) :
    (if (ri.length : Int) - 1 - read.2 ≠ (ri.length : Int) - 1 - read.1 then (.error .assertion : Except CErr (Iv × List Iv))
     else match pyGet? (mirrorL L ri) ((ri.length : Int) - 1 - read.2) with
       | none => .error .index
       | some x => .ok (((mirrorIv L reg).1, x.1 - 1), []))
      = mirrorExRes L (if read.1 ≠ read.2 then .error .assertion
          else match pyGet? ri read.1 with
            | none => .error .index
            | some x => .ok ((x.2 + 1, reg.2), [])) := by
  by_cases ha : read.1 = read.2
  · have e1 : ¬ ((ri.length : Int) - 1 - read.2 ≠ (ri.length : Int) - 1 - read.1) := by omega
    have e2 : ¬ (read.1 ≠ read.2) := by omega
    simp only [e1, e2, if_false]
    rw [corr_pyGet?_mirror_int L ri read.2 hr.2.2.1 hr.2.2.2, ← ha]
    cases pyGet? ri read.1 with
    | none => rfl
    | some x =>
      simp only [Option.map_some, mirrorExRes, mirrorIv_fst, mirrorIv_snd, mirrorL_nil, mirrorIv]
      congr 3; omega
  · have e1 : ((ri.length : Int) - 1 - read.2 ≠ (ri.length : Int) - 1 - read.1) := by omega
    simp only [e1, ha, ne_eq, not_false_eq_true, if_true, mirrorExRes]

theorem fake_right_left_mirror (L : Int) (ri : List Iv) (read : Int × Int) (reg : Iv)
    (hr : 0 ≤ read.1 ∧ read.1 < ri.length ∧ 0 ≤ read.2 ∧ read.2 < ri.length) :
    (if (ri.length : Int) - 1 - read.2 ≠ (ri.length : Int) - 1 - read.1 then (.error .assertion : Except CErr (Iv × List Iv))
     else match pyGet? (mirrorL L ri) ((ri.length : Int) - 1 - read.2) with
       | none => .error .index
       | some x => .ok ((x.2 + 1, (mirrorIv L reg).2), []))
      = mirrorExRes L (if read.1 ≠ read.2 then .error .assertion
          else match pyGet? ri read.1 with
            | none => .error .index
            | some x => .ok ((reg.1, x.1 - 1), [])) := by
  by_cases ha : read.1 = read.2
  · have e1 : ¬ ((ri.length : Int) - 1 - read.2 ≠ (ri.length : Int) - 1 - read.1) := by omega
    have e2 : ¬ (read.1 ≠ read.2) := by omega
    simp only [e1, e2, if_false]
    rw [corr_pyGet?_mirror_int L ri read.2 hr.2.2.1 hr.2.2.2, ← ha]
    cases pyGet? ri read.1 with
    | none => rfl
    | some x =>
      simp only [Option.map_some, mirrorExRes, mirrorIv_fst, mirrorIv_snd, mirrorL_nil, mirrorIv]
      congr 3; omega
  · have e1 : ((ri.length : Int) - 1 - read.2 ≠ (ri.length : Int) - 1 - read.1) := by omega
    simp only [e1, ha, ne_eq, not_false_eq_true, if_true, mirrorExRes]

theorem misalign_slice_mirror (L : Int) (n : Nat) (isoI : List Iv) (iso read : Int × Int) (reg : Iv)
    (hii : 0 ≤ iso.1 ∧ iso.1 < isoI.length ∧ 0 ≤ iso.2 ∧ iso.2 < isoI.length) :
    (if (n : Int) - 1 - read.2 ≠ (n : Int) - 1 - read.1 then (.error .assertion : Except CErr (Iv × List Iv))
     else match sliceIncl (mirrorL L isoI) ((isoI.length : Int) - 1 - iso.2) ((isoI.length : Int) - 1 - iso.1) with
       | .ok xs => .ok (mirrorIv L reg, [] ++ xs)
       | .error x => .error x)
      = mirrorExRes L (if read.1 ≠ read.2 then .error .assertion
          else match sliceIncl isoI iso.1 iso.2 with
            | .ok xs => .ok (reg, [] ++ xs)
            | .error x => .error x) := by
  by_cases hra : read.1 = read.2
  · have e1 : ¬ ((n : Int) - 1 - read.2 ≠ (n : Int) - 1 - read.1) := by omega
    have e2 : ¬ (read.1 ≠ read.2) := by omega
    simp only [e1, e2, if_false]
    rw [sliceIncl_mirror L isoI iso.1 iso.2 (fun _ => ⟨hii.1, hii.2.2.2⟩)]
    cases sliceIncl isoI iso.1 iso.2 <;> simp [mirrorExRes]
  · have e1 : ((n : Int) - 1 - read.2 ≠ (n : Int) - 1 - read.1) := by omega
    simp only [e1, hra, ne_eq, not_false_eq_true, if_true, mirrorExRes]

theorem eventStep_mirror (L : Int) (p : CParams) (rr : Iv) (ri corr : List Iv) (isoR : Iv) (isoI : List Iv)
    (e : MEvent) (reg : Iv) (hn : corr.length = ri.length) (h : EventInRange ri.length isoI.length e) :
    eventStep p (mirrorIv L rr) (mirrorL L ri) (mirrorL L corr) (mirrorIv L isoR) (mirrorL L isoI)
        (mirrorMEvent ri.length isoI.length e) (mirrorIv L reg) []
      = mirrorExRes L (eventStep p rr ri corr isoR isoI e reg []) := by
  obtain ⟨hr, hi, hs⟩ := h
  have hk := keepStep_mirror L ri corr e reg isoI.length hn hr
  obtain ⟨et, iso, read⟩ := e
  simp only at hr hi hs
  have hmis := contains_swapLR _ (misalignmentSet_fixed p) et
  simp only [mirrorMEvent, mirrorIdx] at hk
  by_cases h1 : et = MatchEventSubtype.fake_terminal_exon_left
  · subst h1
    have hm := misalignmentSet_not p MatchEventSubtype.fake_terminal_exon_left (by decide) (by decide)
    have hm' := misalignmentSet_not p MatchEventSubtype.fake_terminal_exon_right (by decide) (by decide)
    simp only [swapLR] at hk
    simp only [eventStep, mirrorMEvent, mirrorIdx, swapLR, reduceCtorEq, false_and, true_and, if_false, hm, hm',
      Bool.false_eq_true]
    by_cases hf : p.fl.fake_terminal_exons = true
    · simp only [hf, if_true]
      first
        | exact fake_left_right_mirror L ri read reg hr
        | exact fake_right_left_mirror L ri read reg hr
    · simp only [hf, if_false]; exact hk
  by_cases h2 : et = MatchEventSubtype.fake_terminal_exon_right
  · subst h2
    have hm := misalignmentSet_not p MatchEventSubtype.fake_terminal_exon_left (by decide) (by decide)
    have hm' := misalignmentSet_not p MatchEventSubtype.fake_terminal_exon_right (by decide) (by decide)
    simp only [swapLR] at hk
    simp only [eventStep, mirrorMEvent, mirrorIdx, swapLR, reduceCtorEq, false_and, true_and, if_false, hm, hm',
      Bool.false_eq_true]
    by_cases hf : p.fl.fake_terminal_exons = true
    · simp only [hf, if_true]
      first
        | exact fake_left_right_mirror L ri read reg hr
        | exact fake_right_left_mirror L ri read reg hr
    · simp only [hf, if_false]; exact hk
  by_cases h3 : et = MatchEventSubtype.terminal_exon_misalignment_left
  · subst h3
    have hm := misalignmentSet_not p MatchEventSubtype.terminal_exon_misalignment_left (by decide) (by decide)
    have hm' := misalignmentSet_not p MatchEventSubtype.terminal_exon_misalignment_right (by decide) (by decide)
    have hii := hi (Or.inl rfl)
    have hss := hs (Or.inl rfl)
    simp only [swapLR] at hk
    simp only [eventStep, mirrorMEvent, mirrorIdx, swapLR, reduceCtorEq, false_and, true_and, if_false, hm, hm',
      Bool.false_eq_true]
    by_cases hf : p.fl.terminal_exons = true
    · simp only [hf, if_true]
      rw [corr_pyGet?_mirror_int L isoI iso.2 hii.2.2.1 hii.2.2.2, ← hss]
      cases pyGet? isoI iso.1 with
      | none => rfl
      | some x =>
        simp only [Option.map_some, mirrorExRes, mirrorIv_fst, mirrorIv_snd, List.nil_append, mirrorL_singleton,
          mirrorIv]
    · simp only [hf, if_false]; exact hk
  by_cases h4 : et = MatchEventSubtype.terminal_exon_misalignment_right
  · subst h4
    have hm := misalignmentSet_not p MatchEventSubtype.terminal_exon_misalignment_left (by decide) (by decide)
    have hm' := misalignmentSet_not p MatchEventSubtype.terminal_exon_misalignment_right (by decide) (by decide)
    have hii := hi (Or.inr (Or.inl rfl))
    have hss := hs (Or.inr rfl)
    simp only [swapLR] at hk
    simp only [eventStep, mirrorMEvent, mirrorIdx, swapLR, reduceCtorEq, false_and, true_and, if_false, hm, hm',
      Bool.false_eq_true]
    by_cases hf : p.fl.terminal_exons = true
    · simp only [hf, if_true]
      rw [corr_pyGet?_mirror_int L isoI iso.2 hii.2.2.1 hii.2.2.2, ← hss]
      cases pyGet? isoI iso.1 with
      | none => rfl
      | some x =>
        simp only [Option.map_some, mirrorExRes, mirrorIv_fst, mirrorIv_snd, List.nil_append, mirrorL_singleton,
          mirrorIv]
    · simp only [hf, if_false]; exact hk
  -- none of the four terminal types: the mirrored type is none of them either
  have s1 : swapLR et ≠ MatchEventSubtype.fake_terminal_exon_left := fun c => h2 ((corr_swapLR_eq_iff _ _).mp c)
  have s2 : swapLR et ≠ MatchEventSubtype.fake_terminal_exon_right := fun c => h1 ((corr_swapLR_eq_iff _ _).mp c)
  have s3 : swapLR et ≠ MatchEventSubtype.terminal_exon_misalignment_left := fun c => h4 ((corr_swapLR_eq_iff _ _).mp c)
  have s4 : swapLR et ≠ MatchEventSubtype.terminal_exon_misalignment_right := fun c => h3 ((corr_swapLR_eq_iff _ _).mp c)
  simp only [eventStep, mirrorMEvent, mirrorIdx, h1, h2, h3, h4, s1, s2, s3, s4, false_and, if_false, hmis]
  by_cases hc : (misalignmentSet p).contains et = true
  · have hii := hi (Or.inr (Or.inr (misalignmentSet_mem p et hc)))
    simp only [hc, if_true]
    rw [corr_pyGet?_mirror_int L isoI iso.2 hii.2.2.1 hii.2.2.2, corr_pyGet?_mirror_int L isoI iso.1 hii.1 hii.2.1]
    obtain ⟨a, ha, _⟩ := pyGet_inrange isoI iso.1 hii.1 hii.2.1
    obtain ⟨b, hb, _⟩ := pyGet_inrange isoI iso.2 hii.2.2.1 hii.2.2.2
    simp only [ha, hb, Option.map_some]
    have hcw : contains_well_inside (mirrorIv L rr) ((mirrorIv L b).1, (mirrorIv L a).2) p.delta
        = contains_well_inside rr (a.1, b.2) p.delta := corr_contains_well_inside_mirror L rr (a.1, b.2) p.delta
    rw [hcw]
    by_cases hw : contains_well_inside rr (a.1, b.2) p.delta = true
    · simp only [hw, if_true]
      exact misalign_slice_mirror L ri.length isoI iso read reg hii
    · simp only [hw, if_false]
      exact hk
  · simp only [hc, if_false]
    exact hk

end IsoVerif.Lemmas.C11
