/-
C11 helper lemmas — reflection of `GeneInfo.split_exons` (Model/Profiles.lean).

C19's `split_exons_spec` (sorted disjoint blocks, same positions as the exons, no block straddles an exon border, every
block ENDS at a border) is turned into a left/right symmetric description: two neighbouring positions lie in one block
iff both are exon positions and no exon border (`cut`) lies between them.  Together with `SD_ext` (Lemmas/C11MirrorMerge)
this determines the blocks, and the description is mirror-symmetric.
-/
import IsoVerif.Gen.Prims
import IsoVerif.Model.Interval
import IsoVerif.Model.Profiles
import IsoVerif.Model.C11Symmetry
import IsoVerif.Lemmas.C11Mirror
import IsoVerif.Lemmas.C11MirrorMerge

namespace IsoVerif.Lemmas.C11.Lists
open IsoVerif.Gen IsoVerif.Model IsoVerif.Model.C11 IsoVerif.Lemmas

/-- an exon border between positions `p` and `p + 1`: an exon starts at `p + 1` or ends at `p` -/
def cut (l : List Iv) (p : Int) : Prop := ∃ e ∈ l, e.1 = p + 1 ∨ e.2 = p

/-- the conclusions of C19's `split_exons_spec`, read symmetrically -/
theorem atoms_lnk (exons blocks : List Iv) (w : WFl exons)
    (hc : ∀ p, cov blocks p ↔ cov exons p)
    (hn : ∀ b ∈ blocks, ∀ e ∈ exons, contains e b = true ∨ overlaps e b = false)
    (he : ∀ b ∈ blocks, ∃ e ∈ exons, e.1 = b.2 + 1 ∨ e.2 = b.2) (p : Int) :
    lnk blocks p ↔ cov exons p ∧ cov exons (p + 1) ∧ ¬ cut exons p := by
  constructor
  · rintro ⟨b, hb, x1, x2⟩
    refine ⟨(hc p).mp ⟨b, hb, x1, by omega⟩, (hc (p + 1)).mp ⟨b, hb, by omega, x2⟩, ?_⟩
    rintro ⟨e, hee, hcut⟩
    have hwe := w e hee
    rcases hn b hb e hee with h | h
    · simp only [contains, Bool.and_eq_true, decide_eq_true_eq] at h; omega
    · simp only [overlaps, Bool.not_eq_false', Bool.or_eq_true, decide_eq_true_eq] at h; omega
  · rintro ⟨h1, _, h3⟩
    obtain ⟨b, hb, x1, x2⟩ := (hc p).mpr h1
    by_cases c : p + 1 ≤ b.2
    · exact ⟨b, hb, x1, c⟩
    · exfalso
      have e : b.2 = p := by omega
      obtain ⟨ex, hex, hcut⟩ := he b hb
      exact h3 ⟨ex, hex, by omega⟩

theorem cut_mirrorL (L : Int) (l : List Iv) (p : Int) : cut (mirrorL L l) p ↔ cut l (L - p) := by
  simp only [cut, mirrorL, List.mem_reverse, List.mem_map]
  constructor
  · rintro ⟨r, ⟨a, ha, rfl⟩, h⟩
    simp only [mirrorIv_fst, mirrorIv_snd] at h
    exact ⟨a, ha, by omega⟩
  · rintro ⟨a, ha, h⟩
    exact ⟨mirrorIv L a, ⟨a, ha, rfl⟩, by simp only [mirrorIv_fst, mirrorIv_snd]; omega⟩

/-- two lists that satisfy the atom description of the same exons (one of them read in the mirror) coincide -/
theorem atoms_mirror_unique (L : Int) (exons blocks blocks' : List Iv) (w : WFl exons)
    (hsd : SD blocks) (hwf : WFl blocks)
    (hc : ∀ p, cov blocks p ↔ cov exons p)
    (hn : ∀ b ∈ blocks, ∀ e ∈ exons, contains e b = true ∨ overlaps e b = false)
    (he : ∀ b ∈ blocks, ∃ e ∈ exons, e.1 = b.2 + 1 ∨ e.2 = b.2)
    (hsd' : SD blocks') (hwf' : WFl blocks')
    (hc' : ∀ p, cov blocks' p ↔ cov (mirrorL L exons) p)
    (hn' : ∀ b ∈ blocks', ∀ e ∈ mirrorL L exons, contains e b = true ∨ overlaps e b = false)
    (he' : ∀ b ∈ blocks', ∃ e ∈ mirrorL L exons, e.1 = b.2 + 1 ∨ e.2 = b.2) :
    blocks' = mirrorL L blocks := by
  apply SD_ext _ _ hsd' (SD_mirror L blocks hsd) hwf' (WFl_mirror L blocks hwf)
  · intro p; rw [hc' p, cov_mirrorL, cov_mirrorL, hc]
  · intro p
    rw [atoms_lnk (mirrorL L exons) blocks' (WFl_mirror L exons w) hc' hn' he' p, lnk_mirrorL,
      atoms_lnk exons blocks w hc hn he (L - p), cov_mirrorL, cov_mirrorL, cut_mirrorL]
    have e1 : L + 1 - (p + 1) = L - p := by omega
    have e2 : L + 1 - p = L - p + 1 := by omega
    rw [e1, e2]
    constructor
    · rintro ⟨a, b, c⟩; exact ⟨b, a, c⟩
    · rintro ⟨a, b, c⟩; exact ⟨b, a, c⟩

/-! ### moving a list into the non-negative half line -/

theorem exists_shift_nonneg (l : List Iv) : ∃ k : Int, 0 ≤ k ∧ ∀ e ∈ l, 0 ≤ e.1 + k := by
  induction l with
  | nil => exact ⟨0, by omega, fun e he => by cases he⟩
  | cons a t ih =>
    obtain ⟨k, hk, hall⟩ := ih
    refine ⟨max k (-a.1), by omega, fun e he => ?_⟩
    rcases List.mem_cons.mp he with rfl | he'
    · omega
    · have := hall e he'; omega

theorem shiftL_shiftL (j k : Int) (l : List Iv) : shiftL j (shiftL k l) = shiftL (k + j) l := by
  simp only [shiftL, List.map_map]
  apply List.map_congr_left
  intro a _; simp only [Function.comp, shiftIv]; ext <;> simp <;> omega

theorem shiftL_zero (l : List Iv) : shiftL 0 l = l := by
  simp only [shiftL]
  have : shiftIv 0 = id := by funext a; simp [shiftIv]
  rw [this]; simp

/-- mirroring a shifted list in a longer chromosome = shifting the mirror image -/
theorem mirrorL_shiftL (L k j : Int) (l : List Iv) : mirrorL (L + k + j) (shiftL k l) = shiftL j (mirrorL L l) := by
  simp only [mirrorL, shiftL, List.map_reverse, List.map_map]
  congr 1
  apply List.map_congr_left
  intro a _; simp only [Function.comp, shiftIv, mirrorIv]; ext <;> simp <;> omega

theorem mem_shiftL (k : Int) (l : List Iv) (x : Iv) : x ∈ shiftL k l ↔ ∃ e ∈ l, x = shiftIv k e := by
  simp only [shiftL, List.mem_map]
  constructor
  · rintro ⟨e, he, rfl⟩; exact ⟨e, he, rfl⟩
  · rintro ⟨e, he, rfl⟩; exact ⟨e, he, rfl⟩

theorem mem_mirrorL' (L : Int) (l : List Iv) (x : Iv) : x ∈ mirrorL L l ↔ ∃ e ∈ l, x = mirrorIv L e := by
  simp only [mirrorL, List.mem_reverse, List.mem_map]
  constructor
  · rintro ⟨e, he, rfl⟩; exact ⟨e, he, rfl⟩
  · rintro ⟨e, he, rfl⟩; exact ⟨e, he, rfl⟩

end IsoVerif.Lemmas.C11.Lists
