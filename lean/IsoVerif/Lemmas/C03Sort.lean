/-
Lemmas about the structural stable insertion sort `isortBy` that models Python's `sorted` (Model/Gtf.lean).
Core Lean only.
-/
import IsoVerif.Model.Gtf

namespace IsoVerif.Lemmas.C03
open IsoVerif.Gen IsoVerif.Model IsoVerif.Model.C03 IsoVerif.Lemmas

/-- what the sort needs from a strict comparison (`a ≤ b` is `lt b a = false`) -/
structure StrictOrd {α} (lt : α → α → Bool) : Prop where
  asymm : ∀ a b, lt a b = true → lt b a = false
  le_trans : ∀ a b c, lt b a = false → lt c b = false → lt c a = false

theorem insBy_perm {α} (lt : α → α → Bool) (x : α) (l : List α) : (insBy lt x l).Perm (x :: l) := by
  induction l with
  | nil => simp [insBy]
  | cons y ys ih =>
    simp only [insBy]
    split
    · exact (List.Perm.cons y ih).trans (List.Perm.swap x y ys)
    · exact List.Perm.refl _

theorem isortBy_perm {α} (lt : α → α → Bool) (l : List α) : (isortBy lt l).Perm l := by
  induction l with
  | nil => simp [isortBy]
  | cons x xs ih => exact (insBy_perm lt x _).trans (List.Perm.cons x ih)

theorem mem_isortBy {α} (lt : α → α → Bool) (l : List α) (a : α) : a ∈ isortBy lt l ↔ a ∈ l :=
  (isortBy_perm lt l).mem_iff

theorem insBy_sorted {α} {lt : α → α → Bool} (h : StrictOrd lt) (x : α) (l : List α)
    (hs : l.Pairwise (fun a b => lt b a = false)) : (insBy lt x l).Pairwise (fun a b => lt b a = false) := by
  induction l with
  | nil => simp [insBy]
  | cons y ys ih =>
    simp only [insBy]
    have hy := List.pairwise_cons.mp hs
    split
    · rename_i hlt
      refine List.pairwise_cons.mpr ⟨?_, ih hy.2⟩
      intro z hz
      have hz' := (insBy_perm lt x ys).mem_iff.mp hz
      cases hz' with
      | head => exact h.asymm _ _ hlt
      | tail _ hz'' => exact hy.1 z hz''
    · rename_i hlt
      have hxy : lt y x = false := by simpa using hlt
      refine List.pairwise_cons.mpr ⟨?_, hs⟩
      intro z hz
      cases hz with
      | head => exact hxy
      | tail _ hz' => exact h.le_trans x y z hxy (hy.1 z hz')

theorem isortBy_sorted {α} {lt : α → α → Bool} (h : StrictOrd lt) (l : List α) :
    (isortBy lt l).Pairwise (fun a b => lt b a = false) := by
  induction l with
  | nil => simp [isortBy]
  | cons x xs ih => exact insBy_sorted h x _ ih

theorem isortBy_eq_self {α} (lt : α → α → Bool) (l : List α)
    (hs : l.Pairwise (fun a b => lt b a = false)) : isortBy lt l = l := by
  induction l with
  | nil => simp [isortBy]
  | cons x xs ih =>
    have hx := List.pairwise_cons.mp hs
    simp only [isortBy, ih hx.2]
    cases xs with
    | nil => simp [insBy]
    | cons y ys =>
      have : lt y x = false := hx.1 y (by simp)
      simp [insBy, this]

/-- Python tuple order on pairs (non-strict) -/
def ivLe (a b : Iv) : Prop := a.1 < b.1 ∨ (a.1 = b.1 ∧ a.2 ≤ b.2)

theorem ivLt_false_iff (a b : Iv) : ivLt b a = false ↔ ivLe a b := by
  simp only [ivLt, ivLe]
  by_cases h1 : b.1 < a.1 <;> by_cases h2 : b.1 = a.1 <;> by_cases h3 : b.2 < a.2 <;> simp [h1, h2, h3] <;> omega

theorem ivLt_strict : StrictOrd ivLt where
  asymm a b h := by
    simp only [ivLt, Bool.or_eq_true, Bool.and_eq_true, decide_eq_true_eq] at h
    simp only [ivLt, Bool.or_eq_false_iff, Bool.and_eq_false_iff, decide_eq_false_iff_not]
    omega
  le_trans a b c h1 h2 := by
    rw [ivLt_false_iff] at *
    unfold ivLe at *
    omega

theorem intLt_strict : StrictOrd intLt where
  asymm a b h := by simp [intLt] at *; omega
  le_trans a b c h1 h2 := by simp [intLt] at *; omega

theorem featLt_strict : StrictOrd featLt where
  asymm a b h := by
    simp only [featLt, Bool.or_eq_true, Bool.and_eq_true, decide_eq_true_eq] at h
    simp only [featLt, Bool.or_eq_false_iff, Bool.and_eq_false_iff, decide_eq_false_iff_not]
    omega
  le_trans a b c h1 h2 := by
    simp only [featLt, Bool.or_eq_false_iff, Bool.and_eq_false_iff, decide_eq_false_iff_not] at *
    omega

end IsoVerif.Lemmas.C03
