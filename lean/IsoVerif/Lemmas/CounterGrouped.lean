/-
Bridge lemmas between the C02 counter model and the C09 counter model (grouped tables): what a C02 call is worth
in the C09 model (`callVal`) is its documented contribution; which calls confirm a feature.  Core Lean only.
-/
import IsoVerif.Model.CounterGrouped
import IsoVerif.Lemmas.Counter
import IsoVerif.Lemmas.CounterSteps
import IsoVerif.Lemmas.C09
import IsoVerif.Lemmas.C09Split

namespace IsoVerif.Lemmas.C02
open IsoVerif.Gen IsoVerif.Model.C02
open IsoVerif.Model.C09 (Call ReadInfo RawInfo Effect callEffect readEffect rawEffect Counter)
open IsoVerif.Lemmas.C09 (callVal incsVal sumOver)

/-! ### the two copies of the weight functions -/

theorem processAmbiguous_c09 (s : CountingStrategy) (k : Nat) :
    IsoVerif.Model.C09.processAmbiguous s k = processAmbiguous s k := rfl

theorem processInconsistent_c09 (s : CountingStrategy) (t : ReadAssignmentType) (k : Nat) :
    IsoVerif.Model.C09.processInconsistent s t k =
      (match processInconsistent s t k with
       | some v => .ok v
       | none => .error .zeroDivision) := by
  unfold IsoVerif.Model.C09.processInconsistent processInconsistent
  by_cases h1 : t = ReadAssignmentType.inconsistent_ambiguous ∨ k > 1
  · simp only [h1, if_true]
    cases ha : s.ambiguous <;> cases hi : s.inconsistent <;> simp
    by_cases hk : k = 0 <;> simp [hk]
  · simp only [h1, if_false]
    cases hi : s.inconsistent <;> cases hm : s.inconsistent_minor <;> simp
    by_cases ht : t = ReadAssignmentType.inconsistent_non_intronic <;> simp [ht]

theorem docWeight_ambiguous (s : CountingStrategy) (k : Nat) (hk : 0 < k) :
    docWeight s .ambiguous k = processAmbiguous s k := by
  have := weight_table_aux s .ambiguous k hk
  simp only [codeWeight, if_true, Option.some.injEq] at this
  exact this.symm

theorem docWeight_inconsistent (s : CountingStrategy) (t : ReadAssignmentType) (k : Nat) (hk : 0 < k)
    (hamb : t ≠ .ambiguous) (hinc : t.is_inconsistent = true) :
    processInconsistent s t k = some (docWeight s t k) := by
  have := weight_table_aux s t k hk
  simpa [codeWeight, hamb, hinc] using this

theorem docWeight_other (s : CountingStrategy) (t : ReadAssignmentType) (k : Nat)
    (hamb : t ≠ .ambiguous) (hinc : t.is_inconsistent = false) (hu : t.is_unique = false) :
    docWeight s t k = 0 := by
  cases t <;> simp_all [docWeight, ReadAssignmentType.is_inconsistent, ReadAssignmentType.is_unique,
    rat_is_inconsistent_list, rat_is_unique_list]

theorem inconsistent_not_unique (t : ReadAssignmentType) (h : t.is_inconsistent = true) : t.is_unique = false := by
  cases t <;> simp_all [ReadAssignmentType.is_inconsistent, ReadAssignmentType.is_unique,
    rat_is_inconsistent_list, rat_is_unique_list]

theorem ambiguous_flags : ReadAssignmentType.ambiguous.is_unique = false ∧
    ReadAssignmentType.ambiguous.is_inconsistent = false := by decide

/-! ### value of a list of `inc` statements -/

theorem incsVal_map (fs : List String) (v : Rat) (b : String → Bool) (f : String) :
    incsVal (fs.map (fun f' => (f', v, b f'))) f = cnt fs f * v := by
  induction fs with
  | nil => simp [incsVal, cnt, Rat.zero_mul]
  | cons x xs ih =>
    simp only [List.map_cons, incsVal, ih, cnt_cons]
    by_cases h : x = f <;> simp [h] <;> grind

theorem incsVal_map_nodup (fs : List String) (hnd : fs.Nodup) (v : Rat) (b : String → Bool) (f : String) :
    incsVal (fs.map (fun f' => (f', v, b f'))) f = if f ∈ fs then v else 0 := by
  rw [incsVal_map, cnt_of_nodup fs hnd]
  split <;> simp [Rat.one_mul, Rat.zero_mul]

theorem sumOver_eq_ratSum {α : Type} (l : List α) (v : α → Rat) : sumOver l v = ratSum (l.map v) := by
  induction l with
  | nil => rfl
  | cons x xs ih => simp [sumOver, ih]

/-! ### one call: C09 value = C02 documented contribution -/

theorem skipped_false (a : Assignment String) (h : skipped a = false) :
    a.atype.is_unassigned = false ∧ a.isoMatches.isEmpty = false ∧ firstTranscriptNone a = false := by
  simp only [skipped, Bool.or_eq_false_iff] at h
  exact ⟨h.1.1, h.1.2, h.2⟩

/-- **the bridge**: whatever the call, what the C09 counter adds to feature `f` for it is the documented
    contribution of the C02 specification -/
theorem callVal_toCall (s : CountingStrategy) (lvl : Level) (te : Tagged) (c : Call) (h : toCall lvl te = some c)
    (f : String) : callVal s c f = contribution s lvl te.1 f := by
  obtain ⟨e, g⟩ := te
  cases e with
  | unassigned n => simp [toCall] at h
  | unaligned n => simp [toCall] at h
  | confirm fs =>
    simp only [toCall, Option.some.injEq] at h
    subst h
    simp [callVal, callEffect, Effect.none, incsVal, contribution]
  | raw noId fs =>
    simp only [toCall, Option.some.injEq] at h
    subst h
    cases noId with
    | true => simp [callVal, callEffect, rawEffect, Effect.none, incsVal, contribution]
    | false =>
      match fs with
      | [] => simp [callVal, callEffect, rawEffect, Effect.none, incsVal, contribution, cnt, Rat.zero_mul]
      | [f1] =>
        have hd : docWeight s .ambiguous 1 = 1 := by
          rw [docWeight_ambiguous s 1 (by omega)]; simp [processAmbiguous]
        simp only [callVal, callEffect, rawEffect, Effect.none, Bool.not_false, Bool.not_true, Bool.false_eq_true,
          if_false, incsVal, contribution, List.length_singleton, hd, Rat.mul_one, cnt_cons, cnt_nil, Rat.add_zero]
      | f1 :: f2 :: rest =>
        have hd := docWeight_ambiguous s (f1 :: f2 :: rest).length (by simp)
        simp only [callVal, callEffect, rawEffect, Effect.none, Bool.not_false, Bool.not_true, Bool.false_eq_true,
          if_false, contribution, hd]
        rw [incsVal_map (f1 :: f2 :: rest) _ (fun _ => true) f, processAmbiguous_c09]
  | read ra =>
    cases ra with
    | none =>
      simp only [toCall, Option.some.injEq] at h
      subst h
      simp [callVal, callEffect, readEffect, Effect.none, incsVal, contribution]
    | some a =>
      simp only [toCall, Option.some.injEq] at h
      subst h
      by_cases hsk : skipped a = true
      · -- one of the three guards of add_read_info fires: nothing is counted
        have hc : contribution s lvl (Event.read (some a)) f = 0 := by simp [contribution, hsk]
        rw [hc]
        simp only [skipped, Bool.or_eq_true] at hsk
        simp only [callVal, callEffect, readEffect, Bool.not_true, Bool.false_eq_true, if_false]
        rcases hsk with (h1 | h1) | h1
        · simp [h1, Effect.none, incsVal]
        · by_cases h0 : a.atype.is_unassigned = true
          · simp [h0, Effect.none, incsVal]
          · simp [h1, Effect.none, incsVal]
        · by_cases h0 : a.atype.is_unassigned = true ∨ (!(!a.isoMatches.isEmpty)) = true
          · simp only [h0, if_true]; simp [Effect.none, incsVal]
          · simp only [h0, if_false]
            have hm : (!a.isoMatches.isEmpty) = true := by
              cases hh : a.isoMatches.isEmpty
              · rfl
              · exact absurd (Or.inr (by simp [hh])) h0
            simp [hm, h1, Effect.none, incsVal]
      · have hsk' : skipped a = false := by simpa using hsk
        obtain ⟨h1, h2, h3⟩ := skipped_false a hsk'
        have hnd := features_nodup lvl a
        simp only [callVal, callEffect, readEffect, Bool.not_true, Bool.false_eq_true, if_false, h1, h2, h3,
          Bool.not_false, false_or, and_false, contribution, hsk']
        by_cases hamb : typeOf lvl a = .ambiguous
        · simp only [hamb, if_true, ambiguous_flags.1, Bool.false_eq_true, if_false, Effect.none]
          rw [incsVal_map_nodup _ hnd, processAmbiguous_c09]
          by_cases hf : f ∈ features lvl a
          · have hk : 0 < (features lvl a).length := List.length_pos_of_mem hf
            simp [hf, docWeight_ambiguous s _ hk]
          · simp [hf]
        · simp only [hamb, if_false]
          by_cases hinc : (typeOf lvl a).is_inconsistent = true
          · have hu := inconsistent_not_unique _ hinc
            simp only [hinc, if_true, hu, Bool.false_eq_true, if_false]
            rw [processInconsistent_c09]
            by_cases hf : f ∈ features lvl a
            · have hk : 0 < (features lvl a).length := List.length_pos_of_mem hf
              rw [docWeight_inconsistent s _ _ hk hamb hinc]
              simp only [hf, if_true]
              by_cases hpos : docWeight s (typeOf lvl a) (features lvl a).length > 0
              · simp only [hpos, if_true, Effect.none]
                rw [incsVal_map_nodup _ hnd]
                simp [hf]
              · simp only [hpos, if_false, Effect.none, incsVal]
                have := docWeight_nonneg s (typeOf lvl a) (features lvl a).length
                grind
            · simp only [hf, if_false]
              cases hp : processInconsistent s (typeOf lvl a) (features lvl a).length with
              | none => simp
              | some v =>
                simp only
                by_cases hpos : v > 0
                · simp only [hpos, if_true, Effect.none]
                  rw [incsVal_map_nodup _ hnd]
                  simp [hf]
                · simp [hpos, Effect.none, incsVal]
          · have hinc' : (typeOf lvl a).is_inconsistent = false := by simpa using hinc
            simp only [hinc', Bool.false_eq_true, if_false]
            by_cases hu : (typeOf lvl a).is_unique = true
            · simp only [hu, if_true]
              cases hfs : features lvl a with
              | nil => simp
              | cons f0 rest =>
                simp only [incsVal, List.head?_cons, Option.some.injEq, Rat.add_zero]
            · have hu' : (typeOf lvl a).is_unique = false := by simpa using hu
              simp only [hu', Bool.false_eq_true, if_false, Effect.none, incsVal,
                docWeight_other s _ _ hamb hinc' hu']
              simp

/-- a call that is not a call of the C09 model contributes nothing -/
theorem contribution_of_no_call (s : CountingStrategy) (lvl : Level) (te : Tagged) (h : toCall lvl te = none)
    (f : String) : contribution s lvl te.1 f = 0 := by
  obtain ⟨e, g⟩ := te
  cases e with
  | unassigned n => simp [contribution]
  | unaligned n => simp [contribution]
  | confirm fs => simp [toCall] at h
  | raw noId fs => simp [toCall] at h
  | read ra => cases ra <;> simp [toCall] at h

/-- the read group of the bridged call -/
theorem toCall_group (lvl : Level) (te : Tagged) (c : Call) (h : toCall lvl te = some c) :
    c.group = some te.2 ∨ (c.group = none ∧ ∀ s f, contribution s lvl te.1 f = 0) := by
  obtain ⟨e, g⟩ := te
  cases e with
  | unassigned n => simp [toCall] at h
  | unaligned n => simp [toCall] at h
  | confirm fs =>
    simp only [toCall, Option.some.injEq] at h
    subst h
    exact Or.inr ⟨rfl, fun s f => by simp [contribution]⟩
  | raw noId fs =>
    simp only [toCall, Option.some.injEq] at h
    subst h
    exact Or.inl rfl
  | read ra =>
    cases ra <;>
    · simp only [toCall, Option.some.injEq] at h
      subst h
      exact Or.inl rfl

/-- summing a function of the bridged calls over the C09 stream = summing over the tagged C02 calls -/
theorem sumOver_toCalls (lvl : Level) (tes : List Tagged) (v : Call → Rat) :
    sumOver (toCalls lvl tes) v =
      ratSum (tes.map (fun te => match toCall lvl te with | some c => v c | none => 0)) := by
  induction tes with
  | nil => rfl
  | cons te rest ih =>
    unfold toCalls at ih ⊢
    cases hc : toCall lvl te with
    | none => simp [hc, ih, Rat.zero_add]
    | some c => simp [hc, sumOver, ih]

/-! ### which calls confirm a feature -/

/-- the call puts `f` into `confirmed_features` of the C09 counter -/
def callConfirms (s : CountingStrategy) (x : Call) (f : String) : Prop :=
  match x with
  | .confirmFeatures fs => f ∈ fs
  | x => ∃ e, callEffect s x = .ok e ∧ e.confirm = some f

theorem step_confirmed09 {c c' : Counter} {x : Call} (h : IsoVerif.Model.C09.step c x = .ok c') (f : String) :
    f ∈ c'.confirmed ↔ f ∈ c.confirmed ∨ callConfirms c.strategy x f := by
  cases x with
  | confirmFeatures fs =>
    simp only [IsoVerif.Model.C09.step] at h
    injection h with h; subst h
    simp only [callConfirms]
    exact IsoVerif.Lemmas.C09Split.foldl_setInsert_mem fs c.confirmed f
  | raw r =>
    simp only [IsoVerif.Model.C09.step, IsoVerif.Model.C09.addReadInfoRaw] at h
    obtain ⟨_, _, hc, _⟩ := IsoVerif.Lemmas.C09.applyEffect_spec h
    rw [hc]
    simp only [callConfirms, callEffect]
    cases hcf : (rawEffect c.strategy r).confirm with
    | none => simp [hcf]
    | some f0 =>
      simp only [IsoVerif.Lemmas.C09Split.mem_setInsert]
      constructor
      · rintro (h1 | h1)
        · exact Or.inl h1
        · exact Or.inr ⟨_, rfl, by rw [hcf, h1]⟩
      · rintro (h1 | ⟨e, he, h1⟩)
        · exact Or.inl h1
        · injection he with he
          subst he
          rw [hcf] at h1
          exact Or.inr (Option.some.inj h1).symm
  | info r =>
    simp only [IsoVerif.Model.C09.step, IsoVerif.Model.C09.addReadInfo] at h
    split at h
    · cases h
    · rename_i e he
      obtain ⟨_, _, hc, _⟩ := IsoVerif.Lemmas.C09.applyEffect_spec h
      rw [hc]
      simp only [callConfirms, callEffect, he]
      cases hcf : e.confirm with
      | none => simp [hcf]
      | some f0 =>
        simp only [IsoVerif.Lemmas.C09Split.mem_setInsert]
        constructor
        · rintro (h1 | h1)
          · exact Or.inl h1
          · exact Or.inr ⟨e, rfl, by rw [hcf, h1]⟩
        · rintro (h1 | ⟨e', he', h1⟩)
          · exact Or.inl h1
          · injection he' with he'
            subst he'
            rw [hcf] at h1
            exact Or.inr (Option.some.inj h1).symm

theorem run_confirmed09 {c c' : Counter} {calls : List Call} (h : IsoVerif.Model.C09.run c calls = .ok c') (f : String) :
    f ∈ c'.confirmed ↔ f ∈ c.confirmed ∨ ∃ x ∈ calls, callConfirms c.strategy x f := by
  induction calls generalizing c with
  | nil =>
    simp only [IsoVerif.Model.C09.run] at h
    injection h with h; subst h; simp
  | cons x xs ih =>
    simp only [IsoVerif.Model.C09.run] at h
    split at h
    · cases h
    · rename_i c1 h1
      have hs : c1.strategy = c.strategy := (IsoVerif.Lemmas.C09.step_spec h1).1.2.2.2.1
      rw [ih h, step_confirmed09 h1 f, hs]
      simp only [List.mem_cons, exists_eq_or_imp]
      grind

/-- the effect of a rawEffect never confirms -/
theorem rawEffect_confirm (s : CountingStrategy) (r : RawInfo) : (rawEffect s r).confirm = none := by
  unfold rawEffect
  split
  · rfl
  · split <;> rfl

/-- a bridged call confirms `f` in the C09 model iff the C02 specification says the call confirms `f` -/
theorem callConfirms_toCall (s : CountingStrategy) (lvl : Level) (te : Tagged) (c : Call) (h : toCall lvl te = some c)
    (f : String) : callConfirms s c f ↔ confirmsFeature lvl te.1 f := by
  obtain ⟨e, g⟩ := te
  cases e with
  | unassigned n => simp [toCall] at h
  | unaligned n => simp [toCall] at h
  | confirm fs =>
    simp only [toCall, Option.some.injEq] at h
    subst h
    simp [callConfirms, confirmsFeature]
  | raw noId fs =>
    simp only [toCall, Option.some.injEq] at h
    subst h
    simp only [callConfirms, callEffect, confirmsFeature]
    constructor
    · rintro ⟨e, he, hc⟩
      injection he with he
      subst he
      rw [rawEffect_confirm] at hc
      cases hc
    · exact False.elim
  | read ra =>
    cases ra with
    | none =>
      simp only [toCall, Option.some.injEq] at h
      subst h
      simp only [callConfirms, callEffect, readEffect, confirmsFeature]
      constructor
      · rintro ⟨e, he, hc⟩
        simp only [Bool.not_false, if_true] at he
        injection he with he
        subst he
        simp [Effect.none] at hc
      · exact False.elim
    | some a =>
      simp only [toCall, Option.some.injEq] at h
      subst h
      simp only [callConfirms, callEffect, confirmsFeature]
      by_cases hsk : skipped a = true
      · constructor
        · rintro ⟨e, he, hc⟩
          exfalso
          simp only [skipped, Bool.or_eq_true] at hsk
          simp only [readEffect, Bool.not_true, Bool.false_eq_true, if_false] at he
          rcases hsk with (h1 | h1) | h1
          · simp only [h1, true_or, if_true] at he
            injection he with he; subst he; simp [Effect.none] at hc
          · simp only [h1, Bool.not_true, Bool.not_false, or_true, if_true] at he
            injection he with he; subst he; simp [Effect.none] at hc
          · by_cases h0 : a.atype.is_unassigned = true ∨ (!(!a.isoMatches.isEmpty)) = true
            · simp only [h0, if_true] at he
              injection he with he; subst he; simp [Effect.none] at hc
            · simp only [h0, if_false] at he
              have hm : (!a.isoMatches.isEmpty) = true := by
                cases hh : a.isoMatches.isEmpty
                · rfl
                · exact absurd (Or.inr (by simp [hh])) h0
              simp only [hm, h1, and_self, if_true] at he
              injection he with he; subst he; simp [Effect.none] at hc
        · rintro ⟨h1, _⟩
          rw [hsk] at h1; cases h1
      · have hsk' : skipped a = false := by simpa using hsk
        obtain ⟨h1, h2, h3⟩ := skipped_false a hsk'
        simp only [readEffect, Bool.not_true, Bool.false_eq_true, if_false, h1, h2, h3, Bool.not_false, false_or,
          and_false, hsk', true_and]
        by_cases hamb : typeOf lvl a = .ambiguous
        · simp only [hamb, if_true]
          constructor
          · rintro ⟨e, he, hc⟩
            injection he with he; subst he; simp [Effect.none] at hc
          · rintro ⟨h, _⟩; exact absurd rfl h
        · simp only [hamb, if_false, ne_eq, not_false_eq_true, true_and]
          by_cases hinc : (typeOf lvl a).is_inconsistent = true
          · have hu := inconsistent_not_unique _ hinc
            simp only [hinc, if_true, hu, Bool.false_eq_true, false_and, iff_false, not_exists, not_and]
            intro e he
            split at he
            · cases he
            · split at he <;> (injection he with he; subst he; simp [Effect.none])
          · have hinc' : (typeOf lvl a).is_inconsistent = false := by simpa using hinc
            simp only [hinc', Bool.false_eq_true, if_false]
            by_cases hu : (typeOf lvl a).is_unique = true
            · simp only [hu, if_true, true_and]
              cases hfs : features lvl a with
              | nil => simp
              | cons f0 rest =>
                simp only [List.head?_cons, Option.some.injEq]
                constructor
                · rintro ⟨e, he, hc⟩
                  injection he with he; subst he
                  simp only at hc
                  split at hc
                  · rename_i hcf
                    exact ⟨Option.some.inj hc, by simpa using hcf⟩
                  · cases hc
                · rintro ⟨hf, hcf⟩
                  exact ⟨_, rfl, by simp [hcf, hf]⟩
            · have hu' : (typeOf lvl a).is_unique = false := by simpa using hu
              simp only [hu', Bool.false_eq_true, if_false, false_and, iff_false, not_exists, not_and]
              intro e he
              injection he with he; subst he; simp [Effect.none]

end IsoVerif.Lemmas.C02
