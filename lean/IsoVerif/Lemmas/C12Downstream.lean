/-
Helper lemmas for the end-to-end part of C12: assembling `downstream` (Model/BamPipeline.lean) from the stamped stream
(assignment ids, chromosome ids), the per-chromosome loader / counters and the merge.
-/
import IsoVerif.Model.BamPipeline
import IsoVerif.Lemmas.C12Pipeline

namespace IsoVerif.Lemmas.C12
open IsoVerif.Gen IsoVerif.Model.C12 IsoVerif.Model.Resolver IsoVerif.Model.C02 IsoVerif.Lemmas.Resolver
open IsoVerif.Lemmas.C02
open List

/-! ### relations between two runs -/

def OptRel {α β : Type} (R : α → β → Prop) : Option α → Option β → Prop
  | none, none => True
  | some a, some b => R a b
  | _, _ => False

/-- same loaded records up to order and assignment ids, same dumped tables -/
def ChrEq (o o' : ChrOut) : Prop :=
  o.records.map PRec.eraseAid ~ o'.records.map PRec.eraseAid ∧ o.gene = o'.gene ∧ o.transcript = o'.transcript

/-- two runs agree: per chromosome `ChrEq`, identical merged count tables and TPM tables -/
def OutEq (x x' : Output) : Prop :=
  Forall2 ChrEq x.chrs x'.chrs ∧ x.geneCounts = x'.geneCounts ∧ x.transcriptCounts = x'.transcriptCounts ∧
  x.geneTpm = x'.geneTpm ∧ x.transcriptTpm = x'.transcriptTpm

theorem mapM_rel {α α' β β' : Type} {R : β → β' → Prop} (f : α → Option β) (f' : α' → Option β')
    {l : List α} {l' : List α'} (h : Forall2 (fun x x' => OptRel R (f x) (f' x')) l l') :
    OptRel (Forall2 R) (l.mapM f) (l'.mapM f') := by
  induction h with
  | nil => exact Forall2.nil
  | @cons a b t t' hab _ ih =>
    rw [List.mapM_cons, List.mapM_cons]
    cases hfa : f a with
    | none =>
      cases hfb : f' b with
      | none => exact True.intro
      | some y => rw [hfa, hfb] at hab; exact hab.elim
    | some x =>
      cases hfb : f' b with
      | none => rw [hfa, hfb] at hab; exact hab.elim
      | some y =>
        rw [hfa, hfb] at hab
        cases ht : t.mapM f with
        | none =>
          cases ht' : t'.mapM f' with
          | none => exact True.intro
          | some ys => rw [ht, ht'] at ih; exact ih.elim
        | some xs =>
          cases ht' : t'.mapM f' with
          | none => rw [ht, ht'] at ih; exact ih.elim
          | some ys =>
            rw [ht, ht'] at ih
            exact Forall2.cons hab ih

theorem forall2_getElem? {α β : Type} {R : α → β → Prop} {l : List α} {l' : List β} (h : Forall2 R l l') (i : Nat) :
    OptRel R l[i]? l'[i]? := by
  induction h generalizing i with
  | nil => exact True.intro
  | cons hab _ ih =>
    cases i with
    | zero => exact hab
    | succ n => simpa using ih n

theorem forall2_zipIdx {α β : Type} {R : α → β → Prop} {l : List α} {l' : List β} (h : Forall2 R l l') (k : Nat) :
    Forall2 (fun x x' => R x.1 x'.1 ∧ x.2 = x'.2) (l.zipIdx k) (l'.zipIdx k) := by
  induction h generalizing k with
  | nil => exact Forall2.nil
  | cons hab _ ih => exact Forall2.cons ⟨hab, rfl⟩ (ih (k + 1))

theorem forall2_imp {α β : Type} {R S : α → β → Prop} {l : List α} {l' : List β} (h : Forall2 R l l')
    (hRS : ∀ a b, R a b → S a b) : Forall2 S l l' := by
  induction h with
  | nil => exact Forall2.nil
  | cons hab _ ih => exact Forall2.cons (hRS _ _ hab) ih

/-! ### the stamped stream -/

theorem stamp_eraseAid (c a : Nat) (p : PRec) : (p.stamp c a).eraseAid = p.stamp c 0 := rfl

theorem stampChr_eraseAid (c : Nat) (ids : Nat → Nat) (l : List PRec) :
    (stampChr c ids l).map PRec.eraseAid = l.map (fun p => p.stamp c 0) := by
  unfold stampChr
  rw [List.map_map]
  have : (PRec.eraseAid ∘ fun x : PRec × Nat => x.1.stamp c (ids x.2)) = (fun p => p.stamp c 0) ∘ Prod.fst := by
    funext x; rfl
  rw [this, ← List.map_map]
  simp

theorem zipIdx_snd_pairwise {α : Type} (l : List α) : l.zipIdx.Pairwise (fun a b => a.2 ≠ b.2) := by
  have hnodup : (l.zipIdx.map (·.2)).Nodup := by
    have : l.zipIdx.map (·.2) = List.range' 0 l.length := by
      apply List.ext_getElem?
      intro i
      simp only [List.getElem?_map, List.getElem?_zipIdx, Option.map_map]
      by_cases h : i < l.length
      · simp [h]
      · simp [h]
    rw [this]; exact List.nodup_range'
  exact List.pairwise_map.mp hnodup

theorem stampChr_chr (c : Nat) (ids : Nat → Nat) (l : List PRec) : ∀ p ∈ stampChr c ids l, p.basic.chr = c := by
  intro p hp
  obtain ⟨x, _, rfl⟩ := List.mem_map.mp hp
  rfl

theorem stampChr_distinct (c : Nat) (ids : Nat → Nat) (hinj : ∀ i j, ids i = ids j → i = j) (l : List PRec) :
    (stampChr c ids l).Pairwise (fun a b => ¬ (a.basic.aid = b.basic.aid ∧ a.basic.chr = b.basic.chr)) := by
  unfold stampChr
  rw [List.pairwise_map]
  refine (zipIdx_snd_pairwise l).imp ?_
  intro a b hab h
  exact hab (hinj _ _ h.1)

/-- the stamped chromosomes: each list carries its own index as `chr`, the indices are pairwise different -/
structure Tagged (L : List (List PRec × Nat)) : Prop where
  chr : ∀ x ∈ L, ∀ y ∈ x.1, y.basic.chr = x.2
  distinct : L.Pairwise (fun a b => a.2 ≠ b.2)

theorem tagged_stamped (ids : Nat → Nat → Nat) (chroms : List (List PRec)) :
    Tagged (stampedOf ids chroms) := by
  unfold stampedOf
  constructor
  · intro x hx y hy
    obtain ⟨x0, _, rfl⟩ := List.mem_map.mp hx
    exact stampChr_chr _ _ _ y hy
  · rw [List.pairwise_map]
    exact zipIdx_snd_pairwise chroms

/-- the records of chromosome `c` are the records of the stream that carry `chr = c` -/
theorem flatten_filter_tagged {L : List (List PRec × Nat)} (hL : Tagged L) :
    ∀ x ∈ L, ((L.map (·.1)).flatten).filter (onChr x.2) = x.1 := by
  induction L with
  | nil => intro x hx; cases hx
  | cons a t ih =>
    have ht : Tagged t :=
      ⟨fun x hx => hL.chr x (List.mem_cons_of_mem _ hx), (List.pairwise_cons.mp hL.distinct).2⟩
    have hat := (List.pairwise_cons.mp hL.distinct).1
    intro x hx
    simp only [List.map_cons, List.flatten_cons, List.filter_append]
    rcases List.mem_cons.mp hx with rfl | hx
    · have h1 : x.1.filter (onChr x.2) = x.1 := by
        rw [List.filter_eq_self]
        intro y hy
        simp [onChr, hL.chr x (by simp) y hy]
      have h2 : ((t.map (·.1)).flatten).filter (onChr x.2) = [] := by
        rw [List.filter_eq_nil_iff]
        intro y hy
        obtain ⟨l, hl, hyl⟩ := List.mem_flatten.mp hy
        obtain ⟨z, hz, rfl⟩ := List.mem_map.mp hl
        have := ht.chr z hz y hyl
        simp only [onChr, beq_iff_eq, this]
        exact fun e => hat z hz e.symm
      rw [h1, h2, List.append_nil]
    · have h1 : a.1.filter (onChr x.2) = [] := by
        rw [List.filter_eq_nil_iff]
        intro y hy
        have := hL.chr a (by simp) y hy
        simp only [onChr, beq_iff_eq, this]
        exact hat x hx
      rw [h1, List.nil_append]
      exact ih ht x hx

theorem stream_distinct {L : List (List PRec × Nat)} (hL : Tagged L)
    (hin : ∀ x ∈ L, x.1.Pairwise (fun a b => ¬ (a.basic.aid = b.basic.aid ∧ a.basic.chr = b.basic.chr))) :
    (((L.map (·.1)).flatten).map (·.basic)).Pairwise (fun a b => ¬ (a.aid = b.aid ∧ a.chr = b.chr)) := by
  rw [List.pairwise_map, List.pairwise_flatten]
  constructor
  · intro l hl
    obtain ⟨x, hx, rfl⟩ := List.mem_map.mp hl
    exact hin x hx
  · rw [List.pairwise_map]
    refine (List.Pairwise.and_mem.mp hL.distinct).imp ?_
    rintro a b ⟨ha, hb, hab⟩ x hx y hy h
    rw [hL.chr a ha x hx, hL.chr b hb y hy] at h
    exact hab h.2

/-! ### one chromosome: counters -/

theorem toAssignment_eraseAid (p : PRec) : p.eraseAid.toAssignment = p.toAssignment := rfl

theorem countChr_perm (s : CountingStrategy) (lvl : Level) (le : Nat → Nat → Bool) (ho : TotalOrder le)
    (complete : List Nat) {loaded loaded' : List PRec}
    (h : loaded.map PRec.eraseAid ~ loaded'.map PRec.eraseAid) :
    countChr s lvl le complete loaded = countChr s lvl le complete loaded' := by
  unfold countChr
  have e : ∀ l : List PRec, l.map (fun p => Event.read (some p.toAssignment)) =
      (l.map PRec.eraseAid).map (fun p => Event.read (some p.toAssignment)) := by
    intro l; rw [List.map_map]; rfl
  rw [e loaded, e loaded']
  exact counter_perm_invariant_aux s lvl le ho true _ (h.map _)

theorem chrOutOf_rel (cfg : Config) (ho : TotalOrder cfg.le) (c : Nat) {loaded loaded' : List PRec}
    (h : loaded.map PRec.eraseAid ~ loaded'.map PRec.eraseAid) :
    OptRel ChrEq (chrOutOf cfg c loaded) (chrOutOf cfg c loaded') := by
  unfold chrOutOf
  rw [countChr_perm cfg.geneStrategy .gene cfg.le ho (cfg.completeGenes c) h,
    countChr_perm cfg.transcriptStrategy .transcript cfg.le ho (cfg.completeTranscripts c) h]
  cases countChr cfg.geneStrategy .gene cfg.le (cfg.completeGenes c) loaded' with
  | none => exact True.intro
  | some g =>
    cases countChr cfg.transcriptStrategy .transcript cfg.le (cfg.completeTranscripts c) loaded' with
    | none => exact True.intro
    | some t => exact ⟨h, rfl, rfl⟩

/-! ### the merge -/

theorem merged_parts_eq {outs outs' : List ChrOut} (h : Forall2 ChrEq outs outs') (order : List Nat) :
    (order.filterMap (fun c => outs[c]?)).map (·.gene) = (order.filterMap (fun c => outs'[c]?)).map (·.gene) ∧
    (order.filterMap (fun c => outs[c]?)).map (·.transcript) =
      (order.filterMap (fun c => outs'[c]?)).map (·.transcript) := by
  induction order with
  | nil => exact ⟨rfl, rfl⟩
  | cons c cs ih =>
    have hc := forall2_getElem? h c
    simp only [List.filterMap_cons]
    cases h1 : outs[c]? with
    | none =>
      cases h2 : outs'[c]? with
      | none => exact ih
      | some y => rw [h1, h2] at hc; exact hc.elim
    | some x =>
      cases h2 : outs'[c]? with
      | none => rw [h1, h2] at hc; exact hc.elim
      | some y =>
        rw [h1, h2] at hc
        simp only [List.map_cons, hc.2.1, hc.2.2, ih.1, ih.2, and_self]

theorem forall2_imp_mem {α β : Type} {R S : α → β → Prop} {l : List α} {l' : List β} (h : Forall2 R l l')
    (hRS : ∀ a b, a ∈ l → b ∈ l' → R a b → S a b) : Forall2 S l l' := by
  induction h with
  | nil => exact Forall2.nil
  | cons hab _ ih =>
    exact Forall2.cons (hRS _ _ (by simp) (by simp) hab)
      (ih (fun a b ha hb => hRS a b (List.mem_cons_of_mem _ ha) (List.mem_cons_of_mem _ hb)))

/-! ### the aid-free stream as a list of blocks -/

/-- all blocks of the experiment in processing order, records stamped with their chromosome, assignment ids forgotten -/
def globalBlocks (CB : List (List (List PRec))) : List (List PRec) :=
  CB.zipIdx.flatMap (fun x => x.1.map (fun b => b.map (fun p => p.stamp x.2 0)))

theorem stream_eraseAid (ids : Nat → Nat → Nat) (CB : List (List (List PRec))) :
    (((stampedOf ids (CB.map List.flatten)).map (·.1)).flatten).map PRec.eraseAid = (globalBlocks CB).flatten := by
  unfold stampedOf globalBlocks
  rw [List.map_flatten, List.map_map, List.map_map, List.zipIdx_map, List.map_map, List.flatMap_def,
    List.flatten_flatten, List.map_map]
  congr 1
  apply List.map_congr_left
  intro x _
  simp only [Function.comp, Prod.map, id, stampChr_eraseAid, List.map_flatten]

theorem globalBlocks_forall2 {CB CB' : List (List (List PRec))}
    (hF : Forall2 (Forall2 (fun b b' => b ~ b')) CB CB') :
    Forall2 (fun b b' => b ~ b') (globalBlocks CB) (globalBlocks CB') := by
  unfold globalBlocks
  refine forall2_flatMap _ _ (forall2_zipIdx hF 0) ?_
  rintro x x' ⟨h1, h2⟩
  rw [h2]
  exact forall2_map _ _ h1 (fun a b hab => hab.map _)

/-- **everything downstream of the per-alignment records is invariant under block-wise permutations** -/
theorem downstream_blocks_aux (cfg : Config) (ho : TotalOrder cfg.le) (ids ids' : Nat → Nat → Nat)
    (hinj : ∀ c i j, ids c i = ids c j → i = j) (hinj' : ∀ c i j, ids' c i = ids' c j → i = j)
    (u u' : List Nat) (hu : countUnaligned u = countUnaligned u')
    (CB CB' : List (List (List PRec))) (hF : Forall2 (Forall2 (fun b b' => b ~ b')) CB CB')
    (hNS : ∀ blocks ∈ CB, ∀ b ∈ blocks, ∀ p ∈ b, p.basic.atype ≠ .suspended)
    (hD : BlockDupOK (globalBlocks CB)) :
    OptRel OutEq (downstream cfg ids u (CB.map List.flatten)) (downstream cfg ids' u' (CB'.map List.flatten)) := by
  -- the two stamped streams
  have hT := tagged_stamped ids (CB.map List.flatten)
  have hT' := tagged_stamped ids' (CB'.map List.flatten)
  have hdist : ∀ (ids : Nat → Nat → Nat), (∀ c i j, ids c i = ids c j → i = j) → ∀ (chroms : List (List PRec)),
      ∀ x ∈ stampedOf ids chroms,
        x.1.Pairwise (fun a b => ¬ (a.basic.aid = b.basic.aid ∧ a.basic.chr = b.basic.chr)) := by
    intro ids hinj chroms x hx
    obtain ⟨x0, _, rfl⟩ := List.mem_map.mp hx
    exact stampChr_distinct _ _ (hinj _) _
  have hU := stream_distinct hT (hdist ids hinj _)
  have hU' := stream_distinct hT' (hdist ids' hinj' _)
  -- no `suspended` input record
  have hns : ∀ (ids : Nat → Nat → Nat) (CB : List (List (List PRec))),
      (∀ blocks ∈ CB, ∀ b ∈ blocks, ∀ p ∈ b, p.basic.atype ≠ .suspended) →
      NoSuspendedInput ((((stampedOf ids (CB.map List.flatten)).map (·.1)).flatten).map (·.basic)) := by
    intro ids CB h r hr
    obtain ⟨p, hp, rfl⟩ := List.mem_map.mp hr
    obtain ⟨l, hl, hpl⟩ := List.mem_flatten.mp hp
    obtain ⟨x, hx, rfl⟩ := List.mem_map.mp hl
    obtain ⟨x0, hx0, rfl⟩ := List.mem_map.mp hx
    obtain ⟨y, hy, rfl⟩ := List.mem_map.mp hpl
    have hy1 : y.1 ∈ x0.1 := by
      have := List.mem_zipIdx_iff_getElem?.mp hy
      exact List.mem_of_getElem? this
    have hx1 : x0.1 ∈ CB.map List.flatten := by
      have := List.mem_zipIdx_iff_getElem?.mp hx0
      exact List.mem_of_getElem? this
    obtain ⟨blocks, hb, hbe⟩ := List.mem_map.mp hx1
    rw [← hbe] at hy1
    obtain ⟨b, hbb, hyb⟩ := List.mem_flatten.mp hy1
    exact h blocks hb b hbb y.1 hyb
  have hNS' : ∀ blocks ∈ CB', ∀ b ∈ blocks, ∀ p ∈ b, p.basic.atype ≠ .suspended := by
    -- the records of the second representation are those of the first
    have hmem : ∀ {CB CB' : List (List (List PRec))}, Forall2 (Forall2 (fun b b' => b ~ b')) CB CB' →
        ∀ blocks' ∈ CB', ∀ b' ∈ blocks', ∀ p ∈ b', ∃ blocks ∈ CB, ∃ b ∈ blocks, p ∈ b := by
      intro CB CB' h
      induction h with
      | nil => intro _ h; cases h
      | @cons x x' t t' hxx _ ih =>
        intro blocks' hb' b' hbb' p hp
        rcases List.mem_cons.mp hb' with rfl | hb'
        · have : ∀ {x x' : List (List PRec)}, Forall2 (fun b b' => b ~ b') x x' →
              ∀ b' ∈ x', ∀ p ∈ b', ∃ b ∈ x, p ∈ b := by
            intro x x' h
            induction h with
            | nil => intro _ h; cases h
            | @cons a a' s s' haa _ ih2 =>
              intro b' hb' p hp
              rcases List.mem_cons.mp hb' with rfl | hb'
              · exact ⟨a, by simp, haa.mem_iff.mpr hp⟩
              · obtain ⟨b, hb, hpb⟩ := ih2 b' hb' p hp
                exact ⟨b, List.mem_cons_of_mem _ hb, hpb⟩
          obtain ⟨b, hb, hpb⟩ := this hxx b' hbb' p hp
          exact ⟨x, by simp, b, hb, hpb⟩
        · obtain ⟨blocks, hb, b, hbb, hpb⟩ := ih blocks' hb' b' hbb' p hp
          exact ⟨blocks, List.mem_cons_of_mem _ hb, b, hbb, hpb⟩
    intro blocks' hb' b' hbb' p hp
    obtain ⟨blocks, hb, b, hbb, hpb⟩ := hmem hF blocks' hb' b' hbb' p hp
    exact hNS blocks hb b hbb p hpb
  obtain ⟨resolved, hres, hload⟩ := loadChr_spec cfg.highMemory _ hU (hns ids CB hNS)
  obtain ⟨resolved', hres', hload'⟩ := loadChr_spec cfg.highMemory _ hU' (hns ids' CB' hNS')
  unfold downstream
  rw [hres, hres']
  simp only
  -- chromosome by chromosome
  have hlen : Forall2 (fun x x' => x.2 = x'.2) (stampedOf ids (CB.map List.flatten))
      (stampedOf ids' (CB'.map List.flatten)) := by
    unfold stampedOf
    have h0 : Forall2 (fun (_ _ : List PRec) => True) (CB.map List.flatten) (CB'.map List.flatten) :=
      forall2_map _ _ hF (fun _ _ _ => True.intro)
    exact forall2_map _ _ (forall2_zipIdx h0 0) (fun a b hab => hab.2)
  have hblocks := globalBlocks_forall2 hF
  have hchr : Forall2 (fun x x' => OptRel ChrEq (processChr cfg resolved x.2 x.1) (processChr cfg resolved' x'.2 x'.1))
      (stampedOf ids (CB.map List.flatten)) (stampedOf ids' (CB'.map List.flatten)) := by
    refine forall2_imp_mem hlen ?_
    intro x x' hx hx' hc
    have e1 := flatten_filter_tagged hT x hx
    have e2 := flatten_filter_tagged hT' x' hx'
    unfold processChr
    rw [← e1, ← e2, hload x.2, hload' x'.2, ← hc]
    simp only
    apply chrOutOf_rel cfg ho
    have p1 := (loadSpec_perm _ hU x.2).map PRec.eraseAid
    have p2 := (loadSpec_perm _ hU' x.2).map PRec.eraseAid
    rw [specRecords_eraseAid, stream_eraseAid] at p1 p2
    exact p1.trans ((specRecords_blocks x.2 hblocks hD).trans p2.symm)
  have hm := mapM_rel (R := ChrEq) (fun x : List PRec × Nat => processChr cfg resolved x.2 x.1)
    (fun x : List PRec × Nat => processChr cfg resolved' x.2 x.1) hchr
  cases h1 : (stampedOf ids (CB.map List.flatten)).mapM (fun x => processChr cfg resolved x.2 x.1) with
  | none =>
    cases h2 : (stampedOf ids' (CB'.map List.flatten)).mapM (fun x => processChr cfg resolved' x.2 x.1) with
    | none => exact True.intro
    | some outs' => rw [h1, h2] at hm; exact hm.elim
  | some outs =>
    cases h2 : (stampedOf ids' (CB'.map List.flatten)).mapM (fun x => processChr cfg resolved' x.2 x.1) with
    | none => rw [h1, h2] at hm; exact hm.elim
    | some outs' =>
      rw [h1, h2] at hm
      have hm' : Forall2 ChrEq outs outs' := hm
      obtain ⟨hg, ht⟩ := merged_parts_eq hm' cfg.mergeOrder
      show OutEq (assemble cfg u outs) (assemble cfg u' outs')
      unfold OutEq assemble
      simp only [hg, ht, hu, and_self, and_true]
      exact hm'

/-! ### statements' vocabulary and glue used by Props/C12EndToEnd.lean -/

/-- the blocks of every chromosome of the experiment -/
def blocksOf (cfg : Config) (split : SplitFn) (assign : Nat → Assign PRec) (genome : List (List (List Aln))) :
    List (List (List PRec)) :=
  genome.zipIdx.map (fun x =>
    if cfg.highMemory then collectBlocksMem split (assign x.2) x.1 else collectBlocks split (assign x.2) x.1)

theorem endToEnd_eq (cfg : Config) (split : SplitFn) (assign : Nat → Assign PRec) (ids : Nat → Nat → Nat)
    (u : List Nat) (genome : List (List (List Aln))) :
    endToEnd cfg split assign ids u genome = downstream cfg ids u ((blocksOf cfg split assign genome).map List.flatten) := by
  unfold endToEnd blocksOf
  congr 1
  rw [List.map_map]
  apply List.map_congr_left
  intro x _
  simp only [Function.comp]
  split
  · exact collectMem_eq_flatten _ _ _
  · exact collect_eq_flatten _ _ _

theorem mem_block_of_assign {R : Type} (split : SplitFn) (assign : Assign R) (files : List (List Aln)) :
    (∀ b ∈ collectBlocks split assign files, ∃ sub, ∀ p ∈ b, ∃ i a, assign sub i a = some p) ∧
    (∀ b ∈ collectBlocksMem split assign files, ∃ sub, ∀ p ∈ b, ∃ i a, assign sub i a = some p) := by
  constructor
  · intro b hb
    simp only [collectBlocks, List.mem_flatMap, List.mem_map] at hb
    obtain ⟨rc, _, sub, _, rfl⟩ := hb
    refine ⟨sub, ?_⟩
    intro p hp
    simp only [regionRecords, List.mem_filterMap] at hp
    obtain ⟨e, _, he⟩ := hp
    exact ⟨e.1, e.2, he⟩
  · intro b hb
    simp only [collectBlocksMem, List.mem_flatMap, List.mem_map] at hb
    obtain ⟨rc, _, sub, _, rfl⟩ := hb
    refine ⟨sub, ?_⟩
    intro p hp
    simp only [List.mem_filterMap] at hp
    obtain ⟨e, _, he⟩ := hp
    exact ⟨e.1, e.2, he⟩

theorem optRel_tables {o o' : Option Output} (h : OptRel OutEq o o') :
    o.map (fun o => (o.geneCounts, o.transcriptCounts, o.geneTpm, o.transcriptTpm)) =
    o'.map (fun o => (o.geneCounts, o.transcriptCounts, o.geneTpm, o.transcriptTpm)) := by
  cases o with
  | none => cases o' with
    | none => rfl
    | some _ => exact h.elim
  | some x => cases o' with
    | none => exact h.elim
    | some y =>
      obtain ⟨_, h1, h2, h3, h4⟩ := h
      simp [h1, h2, h3, h4]

def natLe (a b : Nat) : Bool := decide (a ≤ b)

theorem natLe_total : TotalOrder natLe :=
  ⟨fun a b c h1 h2 => by simp only [natLe, decide_eq_true_eq] at *; omega,
   fun a b => by simp only [natLe, decide_eq_true_eq]; omega,
   fun a b h1 h2 => by simp only [natLe, decide_eq_true_eq] at *; omega⟩


end IsoVerif.Lemmas.C12
