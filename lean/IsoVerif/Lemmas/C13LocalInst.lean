/-
Helper lemmas and the hypothesis structures for Props/C13Local.lean (closure `p13local`): the feature lists of the GeneInfo of
a loaded gene list (`exonsOf`, `intronsOf`), what an exon / intron event says about a row key, the hypotheses of the two
instances (`ExonHyp`, `IntronHyp`), "a touched feature belongs to an overlapped gene", provenance of the events of a chromosome.
-/
import IsoVerif.Props.C13Chromosome
import IsoVerif.Lemmas.C13Local

namespace IsoVerif.Lemmas.C13LocalInst
open IsoVerif.Gen IsoVerif.Model IsoVerif.Model.Resolver IsoVerif.Model.C13 IsoVerif.Model.C13Chr
open IsoVerif.Lemmas.C13 IsoVerif.Lemmas.C13Chr IsoVerif.Lemmas.C13Local
open IsoVerif.Props.C13Chromosome IsoVerif.Props.C13Profiles
open IsoVerif.Model.Regions (Aln)

theorem filter_vis_self {α : Type} (G : List GeneRec) (f : α → Nat) (l : List α) (h : ∀ m ∈ l, ∃ g ∈ G, g.gid = f m) :
    l.filter (fun m => G.any (fun x => x.gid == f m)) = l := by
  apply List.filter_eq_self.mpr
  intro m hm
  obtain ⟨g, hg, e⟩ := h m hm
  exact List.any_eq_true.mpr ⟨g, hg, by simp [e]⟩

/-- a gene the alignment overlaps is loaded by every region that gives the alignment its full gene view -/
theorem mem_load_of_view (genes : List GeneRec) (R : Iv) (a : Aln) (hv : view a (loadGenes genes R) = view a genes)
    (g : GeneRec) (hg : g ∈ genes) (ho : overlaps (iv1 a) g.span = true) : g ∈ loadGenes genes R := by
  have : g ∈ view a genes := List.mem_filter.mpr ⟨hg, ho⟩
  rw [← hv] at this
  exact (List.mem_filter.mp this).1


/-- `exon_profiles.features` of the GeneInfo of the loaded genes -/
def exonsOf (A : Ann) (G : List GeneRec) : List Iv := sortDedupIv ((geneIn A G).isoforms.flatMap (·.feats))

theorem mem_exonsOf (A : Ann) (G : List GeneRec) (x : Iv) :
    x ∈ exonsOf A G ↔ ∃ g ∈ G, ∃ t ∈ A.isoforms g.gid, x ∈ t.feats := by
  simp only [exonsOf, mem_sortDedupIv, geneIn, List.mem_flatMap]
  constructor
  · rintro ⟨t, ⟨g, hg, ht⟩, hx⟩; exact ⟨g, hg, t, ht, hx⟩
  · rintro ⟨g, hg, t, ht, hx⟩; exact ⟨t, ⟨g, hg, ht⟩, hx⟩

/-- what the exon event of an alignment says about a row key, position-wise -/
theorem exonEv_says_iff (A : Ann) (G : List GeneRec) (a : Aln) (ignore : Bool) (dflt : String) (v : Int) (k : CoordKey) (g : String) :
    (exonEv A G a).any (evSays ignore dflt v k g) = true ↔
      ∃ f l, (A.reads a.rid).blocks.head? = some f ∧ (A.reads a.rid).blocks.getLast? = some l ∧
        (if ignore then dflt else (A.reads a.rid).group) = g ∧ k.1 = A.chr ∧
        ∃ i : Nat, (exonsOf A G)[i]? = some (k.2.1, k.2.2) ∧
          (constructOverlapping (exonsOf A G) (hull G) (fun x y => equal_ranges x y A.delta) (fun x y => contains x y) A.delta
            (A.reads a.rid).blocks (f.2 + A.delta, l.1 - A.delta) (A.reads a.rid).polya (A.reads a.rid).polyt).gene[i]? = some v := by
  by_cases hG : G = []
  · subst hG
    simp [exonEv, exonsOf, geneIn, sortDedupIv]
  · have hne : G.isEmpty = false := by simpa using hG
    have hev : exonEv A G a = (constructExonProfile (exonsOf A G) (hull G) A.delta (A.reads a.rid).blocks (A.reads a.rid).polya
        (A.reads a.rid).polyt).map (fun p => (⟨p.gene, setFeatureProperties A.chr A.delta (exonsOf A G) (geneIn A G).isoforms 0, (A.reads a.rid).group⟩ : ReadEv)) := by
      simp only [exonEv, hne, Bool.false_eq_true, ↓reduceIte, exonEvent, mkGene, exonsOf, geneIn, Nat.zero_add]
    rw [hev]
    unfold evSays
    rw [says_iff]
    unfold constructExonProfile
    constructor
    · rintro ⟨p, hp, hg, hc, i, hk, hv⟩
      split at hp
      · rename_i f l hf hl
        simp only [Option.some.injEq] at hp; subst hp
        exact ⟨f, l, hf, hl, hg, hc, i, hk, hv⟩
      · simp at hp
    · rintro ⟨f, l, hf, hl, hg, hc, i, hk, hv⟩
      simp only [hf, hl]
      exact ⟨_, rfl, hg, hc, i, hk, hv⟩

/-- the hypotheses of the exon instance: those of the meaning theorems (`Hyp`: annotated exons longer than δ, read blocks well
    formed and more than δ apart), the coordinate conventions (exons inside their gene record, 1-based; read blocks inside the
    alignment: `reference_start + 1 ≤ block ≤ reference_end`).  (The residual `endClear` of the first version - no gene starts at
    the last aligned base - is gone with fix `fix_gene_query_last_base`: the gene query is 1-based now.) -/
structure ExonHyp (A : Ann) (genes : List GeneRec) (all : List Aln) : Prop where
  delta_nonneg : 0 ≤ A.delta
  long : ∀ g ∈ genes, ∀ t ∈ A.isoforms g.gid, ∀ e ∈ t.feats, e.2 - e.1 ≥ A.delta
  inside : ∀ g ∈ genes, ∀ t ∈ A.isoforms g.gid, ∀ e ∈ t.feats, g.span.1 ≤ e.1 ∧ e.2 ≤ g.span.2
  sep : ∀ a ∈ all, SepBy A.delta (A.reads a.rid).blocks
  wf : ∀ a ∈ all, WFR (A.reads a.rid).blocks
  blocksIn : ∀ a ∈ all, ∀ b ∈ (A.reads a.rid).blocks, a.start + 1 ≤ b.1 ∧ b.2 ≤ a.stop

theorem exon_hyp (A : Ann) (genes : List GeneRec) (all : List Aln) (H : ExonHyp A genes all) (G : List GeneRec)
    (hG : ∀ g ∈ G, g ∈ genes) (a : Aln) (ha : a ∈ all) : Hyp A.delta (exonsOf A G) (A.reads a.rid).blocks := by
  refine ⟨sortedStarts_sortDedupIv _, ?_, H.sep a ha, H.wf a ha⟩
  intro x hx
  obtain ⟨g, hg, t, ht, hxt⟩ := (mem_exonsOf A G x).mp hx
  exact H.long g (hG g hg) t ht x hxt

/-- an annotated exon the read touches belongs to a gene the alignment overlaps -/
theorem exon_touch_overlaps (A : Ann) (genes : List GeneRec) (all : List Aln) (H : ExonHyp A genes all) (a : Aln) (ha : a ∈ all)
    (f l : Iv) (hf : (A.reads a.rid).blocks.head? = some f) (hl : (A.reads a.rid).blocks.getLast? = some l)
    (g : GeneRec) (hg : g ∈ genes) (t : IsoformFeatures) (ht : t ∈ A.isoforms g.gid) (x : Iv) (hx : x ∈ t.feats)
    (htouch : Touches A.delta (fun p q => contains p q) (A.reads a.rid).blocks (f.2 + A.delta, l.1 - A.delta) x) :
    overlaps (iv1 a) g.span = true := by
  have hd := H.delta_nonneg
  have hlong := H.long g hg t ht x hx
  have hin := H.inside g hg t ht x hx
  have hfm : f ∈ (A.reads a.rid).blocks := List.mem_of_mem_head? (by rw [hf]; rfl)
  have hlm : l ∈ (A.reads a.rid).blocks := List.mem_of_getLast? hl
  rw [ov_iff]
  simp only [iv1]
  rcases htouch with ⟨r, hr, he⟩ | he | ⟨j, r, r', hr, hr', h1, h2⟩
  · have hb := H.blocksIn a ha r hr
    have := (eqr_iff r x A.delta).mp he
    constructor <;> omega
  · have hb1 := H.blocksIn a ha f hfm
    have hb2 := H.blocksIn a ha l hlm
    have hw1 := H.wf a ha f hfm
    have hw2 := H.wf a ha l hlm
    simp only [contains, Bool.and_eq_true, decide_eq_true_eq] at he
    constructor <;> omega
  · have hb1 := H.blocksIn a ha r (List.mem_of_getElem? hr)
    have hb2 := H.blocksIn a ha r' (List.mem_of_getElem? hr')
    have hw1 := H.wf a ha r (List.mem_of_getElem? hr)
    have hw2 := H.wf a ha r' (List.mem_of_getElem? hr')
    constructor <;> omega

theorem loadGenes_sub (genes : List GeneRec) (R : Iv) : ∀ g ∈ loadGenes genes R, g ∈ genes :=
  fun _ hg => (List.mem_filter.mp hg).1


/-! ### the property maps of the real events have distinct row keys (`hnd` discharged for the instances) -/

theorem keptEvents_mem (its : List Item) (rid : Nat) (es : List ReadEv) (h : keptEvents its rid = some es) :
    ∀ ev ∈ es, ∃ it ∈ its, it.ev = some ev := by
  intro ev hev
  unfold keptEvents at h
  cases hr : resolve .take_best ((readItems its rid).map (·.brec)) with
  | none => rw [hr] at h; simp at h
  | some vs =>
    rw [hr] at h
    simp only [Option.map_some, Option.some.injEq] at h
    subst h
    obtain ⟨p, hp, hpe⟩ := List.mem_filterMap.mp hev
    have hit : p.1 ∈ its := (List.mem_filter.mp (List.of_mem_zip hp).1).1
    refine ⟨p.1, hit, ?_⟩
    split at hpe
    · simp at hpe
    · exact hpe

theorem collectEvents_mem (its : List Item) : ∀ (rids : List Nat) (evs : List ReadEv), collectEvents its rids = some evs →
    ∀ ev ∈ evs, ∃ it ∈ its, it.ev = some ev := by
  intro rids
  induction rids with
  | nil => intro evs h ev hev; simp [collectEvents] at h; subst h; simp at hev
  | cons r rest ih =>
    intro evs h ev hev
    simp only [collectEvents] at h
    cases h1 : keptEvents its r with
    | none => rw [h1] at h; simp at h
    | some a =>
      cases h2 : collectEvents its rest with
      | none => rw [h1, h2] at h; simp at h
      | some b =>
        rw [h1, h2] at h
        simp only [Option.some.injEq] at h
        subst h
        rcases List.mem_append.mp hev with h' | h'
        · exact keptEvents_mem its r a h1 ev h'
        · exact ih b h2 ev h'

/-- every event of the chromosome is the event `P.ev G a` of some alignment against some loaded gene list -/
theorem chromosomeEvents_origin (rep : Bool) (genes : List GeneRec) (P : Proc) (out : List (Iv × List Aln)) (rids : List Nat)
    (evs : List ReadEv) (h : chromosomeEvents rep genes P out rids = some evs) :
    ∀ ev ∈ evs, ∃ G a, P.ev G a = some ev := by
  intro ev hev
  obtain ⟨it, hit, he⟩ := collectEvents_mem _ rids evs h ev hev
  obtain ⟨p, _, hitp⟩ := List.mem_flatMap.mp hit
  obtain ⟨a, _, rfl⟩ := List.mem_map.mp hitp
  exact ⟨_, a, he⟩

theorem exonEv_keys_nodup (A : Ann) (G : List GeneRec) (a : Aln) (ev : ReadEv) (h : exonEv A G a = some ev) :
    (ev.pmap.map coordKey).Nodup := by
  unfold exonEv at h
  split at h
  · simp at h
  · simp only [exonEvent, Option.map_eq_some_iff] at h
    obtain ⟨p, _, rfl⟩ := h
    exact setFeatureProperties_keys_nodup _ _ _ _ _ (nodup_sortDedupIv _)


/-- the isoforms with their introns, as `GeneInfo.__init__` keeps them for `set_feature_properties` -/
def isoIntrons (A : Ann) (G : List GeneRec) : List IsoformFeatures :=
  (geneIn A G).isoforms.map (fun t => { t with feats := junctionsFromBlocks t.feats })

/-- `intron_profiles.features` of the GeneInfo of the loaded genes -/
def intronsOf (A : Ann) (G : List GeneRec) : List Iv := sortDedupIv ((isoIntrons A G).flatMap (·.feats))

theorem mem_intronsOf (A : Ann) (G : List GeneRec) (x : Iv) :
    x ∈ intronsOf A G ↔ ∃ g ∈ G, ∃ t ∈ A.isoforms g.gid, x ∈ junctionsFromBlocks t.feats := by
  simp only [intronsOf, isoIntrons, mem_sortDedupIv, geneIn, List.mem_flatMap, List.mem_map]
  constructor
  · rintro ⟨t', ⟨t, ⟨g, hg, ht⟩, rfl⟩, hx⟩; exact ⟨g, hg, t, ht, hx⟩
  · rintro ⟨g, hg, t, ht, hx⟩; exact ⟨_, ⟨t, ⟨g, hg, ht⟩, rfl⟩, hx⟩

theorem intronEv_says_iff (A : Ann) (G : List GeneRec) (a : Aln) (ignore : Bool) (dflt : String) (v : Int) (k : CoordKey) (g : String) :
    (intronEv A G a).any (evSays ignore dflt v k g) = true ↔
      ∃ f l, (A.reads a.rid).blocks.head? = some f ∧ (A.reads a.rid).blocks.getLast? = some l ∧
        (if ignore then dflt else (A.reads a.rid).group) = g ∧ k.1 = A.chr ∧
        ∃ i : Nat, (intronsOf A G)[i]? = some (k.2.1, k.2.2) ∧
          (constructOverlapping (intronsOf A G) (hull G) (fun x y => equal_ranges x y A.delta)
            (fun x y => overlaps_at_least x y A.absDelta) A.delta
            (junctionsFromBlocks (A.reads a.rid).blocks) (f.1, l.2) (A.reads a.rid).polya (A.reads a.rid).polyt).gene[i]? = some v := by
  by_cases hG : G = []
  · subst hG
    simp [intronEv, intronsOf, isoIntrons, geneIn, sortDedupIv]
  · have hne : G.isEmpty = false := by simpa using hG
    have hev : intronEv A G a = (constructIntronProfile (intronsOf A G) (hull G) A.delta A.absDelta (A.reads a.rid).blocks
        (A.reads a.rid).polya (A.reads a.rid).polyt).map (fun p => (⟨p.gene, setFeatureProperties A.chr A.delta (intronsOf A G) (isoIntrons A G) (0 + (exonsOf A G).length), (A.reads a.rid).group⟩ : ReadEv)) := by
      simp only [intronEv, hne, Bool.false_eq_true, ↓reduceIte, intronEvent, mkGene, intronsOf, isoIntrons, exonsOf, geneIn]
    rw [hev]
    unfold evSays
    rw [says_iff]
    unfold constructIntronProfile
    constructor
    · rintro ⟨p, hp, hg, hc, i, hk, hv⟩
      split at hp
      · rename_i f l hf hl
        simp only [Option.some.injEq] at hp; subst hp
        exact ⟨f, l, hf, hl, hg, hc, i, hk, hv⟩
      · simp at hp
    · rintro ⟨f, l, hf, hl, hg, hc, i, hk, hv⟩
      simp only [hf, hl]
      exact ⟨_, rfl, hg, hc, i, hk, hv⟩

/-- the hypotheses of the intron instance: `Hyp` of the meaning theorems for annotated introns / read introns, and the
    coordinate conventions (well-formed annotated exons inside their gene record, read blocks inside the alignment) -/
structure IntronHyp (A : Ann) (genes : List GeneRec) (all : List Aln) : Prop where
  delta_nonneg : 0 ≤ A.delta
  long : ∀ g ∈ genes, ∀ t ∈ A.isoforms g.gid, ∀ j ∈ junctionsFromBlocks t.feats, j.2 - j.1 ≥ A.delta
  inside : ∀ g ∈ genes, ∀ t ∈ A.isoforms g.gid, ∀ e ∈ t.feats, g.span.1 ≤ e.1 ∧ e.1 ≤ e.2 ∧ e.2 ≤ g.span.2
  sep : ∀ a ∈ all, SepBy A.delta (junctionsFromBlocks (A.reads a.rid).blocks)
  wf : ∀ a ∈ all, WFR (A.reads a.rid).blocks
  blocksIn : ∀ a ∈ all, ∀ b ∈ (A.reads a.rid).blocks, a.start + 1 ≤ b.1 ∧ b.2 ≤ a.stop

theorem intron_hyp (A : Ann) (genes : List GeneRec) (all : List Aln) (H : IntronHyp A genes all) (G : List GeneRec)
    (hG : ∀ g ∈ G, g ∈ genes) (a : Aln) (ha : a ∈ all) :
    Hyp A.delta (intronsOf A G) (junctionsFromBlocks (A.reads a.rid).blocks) := by
  refine ⟨sortedStarts_sortDedupIv _, ?_, H.sep a ha, fun r hr => (junction_bounds _ r hr).2.2⟩
  intro x hx
  obtain ⟨g, hg, t, ht, hxt⟩ := (mem_intronsOf A G x).mp hx
  exact H.long g (hG g hg) t ht x hxt

theorem overlaps_at_least_true (p q : Iv) (d : Int) (h : overlaps_at_least p q d = true) : q.1 ≤ p.2 ∧ p.1 ≤ q.2 := by
  unfold overlaps_at_least at h
  simp only at h
  split at h
  · simp at h
  · rename_i hc
    simp only [Bool.or_eq_true, decide_eq_true_eq, not_or, Int.not_lt] at hc
    omega

/-- an annotated intron the read touches belongs to a gene the alignment overlaps -/
theorem intron_touch_overlaps (A : Ann) (genes : List GeneRec) (all : List Aln) (H : IntronHyp A genes all) (a : Aln) (ha : a ∈ all)
    (f l : Iv) (hf : (A.reads a.rid).blocks.head? = some f) (hl : (A.reads a.rid).blocks.getLast? = some l)
    (g : GeneRec) (hg : g ∈ genes) (t : IsoformFeatures) (ht : t ∈ A.isoforms g.gid) (x : Iv) (hx : x ∈ junctionsFromBlocks t.feats)
    (htouch : Touches A.delta (fun p q => overlaps_at_least p q A.absDelta) (junctionsFromBlocks (A.reads a.rid).blocks) (f.1, l.2) x) :
    overlaps (iv1 a) g.span = true := by
  have hd := H.delta_nonneg
  have hlong := H.long g hg t ht x hx
  obtain ⟨⟨c, hc, hc1⟩, ⟨d, hd', hd1⟩, _⟩ := junction_bounds t.feats x hx
  have hic := H.inside g hg t ht c hc
  have hid := H.inside g hg t ht d hd'
  have hfm : f ∈ (A.reads a.rid).blocks := List.mem_of_mem_head? (by rw [hf]; rfl)
  have hlm : l ∈ (A.reads a.rid).blocks := List.mem_of_getLast? hl
  have hjb : ∀ r ∈ junctionsFromBlocks (A.reads a.rid).blocks, a.start + 2 ≤ r.1 ∧ r.1 ≤ r.2 ∧ r.2 ≤ a.stop - 1 := by
    intro r hr
    obtain ⟨⟨c', hc', e1⟩, ⟨d'', hd'', e2⟩, h3⟩ := junction_bounds _ r hr
    have b1 := H.blocksIn a ha c' hc'
    have b2 := H.blocksIn a ha d'' hd''
    have w1 := H.wf a ha c' hc'
    have w2 := H.wf a ha d'' hd''
    omega
  rw [ov_iff]
  simp only [iv1]
  rcases htouch with ⟨r, hr, he⟩ | he | ⟨j, r, r', hr, hr', h1, h2⟩
  · have hb := hjb r hr
    have := (eqr_iff r x A.delta).mp he
    constructor <;> omega
  · have hb1 := H.blocksIn a ha f hfm
    have hb2 := H.blocksIn a ha l hlm
    have := overlaps_at_least_true _ _ _ he
    simp only at this
    constructor <;> omega
  · have hb1 := hjb r (List.mem_of_getElem? hr)
    have hb2 := hjb r' (List.mem_of_getElem? hr')
    constructor <;> omega


theorem intronEv_keys_nodup (A : Ann) (G : List GeneRec) (a : Aln) (ev : ReadEv) (h : intronEv A G a = some ev) :
    (ev.pmap.map coordKey).Nodup := by
  unfold intronEv at h
  split at h
  · simp at h
  · simp only [intronEvent, Option.map_eq_some_iff] at h
    obtain ⟨p, _, rfl⟩ := h
    exact setFeatureProperties_keys_nodup _ _ _ _ _ (nodup_sortDedupIv _)


end IsoVerif.Lemmas.C13LocalInst
