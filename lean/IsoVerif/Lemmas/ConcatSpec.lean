/-
Helper lemmas for C16: `concat_gapless_blocks` on pysam's blocks against its specification (Model/TailSpec.lean).
-/
import IsoVerif.Model.TailSpec
import IsoVerif.Lemmas.Cigar

namespace IsoVerif.Lemmas.C16
open IsoVerif.Gen IsoVerif.Model IsoVerif.Model.C16

theorem inMatch_eq (k : CigarEvent) : k.in_cigar_match_events = isAligned k := by
  cases k <;> decide

/-! ### pysam blocks -/

theorem alignedBlocksAux_nil_of_none : ∀ (rest : List CigarOp) (pos : Int), hasAligned rest = false →
    alignedBlocksAux pos rest = [] := by
  intro rest
  induction rest with
  | nil => intro pos _; rfl
  | cons op rest ih =>
    intro pos h
    simp only [hasAligned, List.any_cons, Bool.or_eq_false_iff] at h
    simp only [alignedBlocksAux, h.1, Bool.false_eq_true, if_false]
    split <;> exact ih _ (by simpa [hasAligned] using h.2)

theorem alignedBlocksAux_cons_of_some : ∀ (rest : List CigarOp) (pos : Int), hasAligned rest = true →
    ∃ b bs, alignedBlocksAux pos rest = b :: bs := by
  intro rest
  induction rest with
  | nil => intro pos h; cases h
  | cons op rest ih =>
    intro pos h
    by_cases ha : isAligned op.1 = true
    · exact ⟨(pos, pos + op.2), alignedBlocksAux (pos + op.2) rest, by simp only [alignedBlocksAux, ha, if_true]⟩
    · have hr : hasAligned rest = true := by
        simp only [hasAligned, List.any_cons, Bool.or_eq_true] at h
        rcases h with h | h
        · exact absurd h ha
        · simpa [hasAligned] using h
      simp only [alignedBlocksAux, ha, Bool.false_eq_true, if_false]
      split <;> exact ih _ hr

/-! ### list bookkeeping of the specification -/

theorem hasAligned_append (a b : List CigarOp) : hasAligned (a ++ b) = (hasAligned a || hasAligned b) := by
  simp [hasAligned, List.any_append]

theorem leadOf_snoc_of_aligned (seg : List CigarOp) (x : CigarOp) (h : hasAligned seg = true) :
    leadOf (seg ++ [x]) = leadOf seg := by
  induction seg with
  | nil => cases h
  | cons o seg ih =>
    by_cases ho : isAligned o.1 = true
    · simp [leadOf, ho]
    · have hs : hasAligned seg = true := by
        simp only [hasAligned, List.any_cons, Bool.or_eq_true] at h
        rcases h with h | h
        · exact absurd h ho
        · simpa [hasAligned] using h
      have := ih hs
      simp only [leadOf] at this ⊢
      simp [ho, this]

theorem leadOf_of_none (seg : List CigarOp) (h : hasAligned seg = false) : leadOf seg = seg := by
  induction seg with
  | nil => rfl
  | cons o seg ih =>
    simp only [hasAligned, List.any_cons, Bool.or_eq_false_iff] at h
    have := ih (by simpa [hasAligned] using h.2)
    simp only [leadOf] at this ⊢
    simp [h.1, this]

theorem leadOf_snoc_first (seg : List CigarOp) (x : CigarOp) (h : hasAligned seg = false)
    (hx : isAligned x.1 = true) : leadOf (seg ++ [x]) = seg := by
  induction seg with
  | nil => simp [leadOf, hx]
  | cons o seg ih =>
    simp only [hasAligned, List.any_cons, Bool.or_eq_false_iff] at h
    have := ih (by simpa [hasAligned] using h.2)
    simp only [leadOf] at this ⊢
    simp [h.1, this]

theorem aLA_snoc_al (l : List CigarOp) (x : CigarOp) (hx : isAligned x.1 = true) :
    afterLastAligned (l ++ [x]) = [] := by
  simp [afterLastAligned, hx]

theorem aLA_snoc_nal (l : List CigarOp) (x : CigarOp) (hx : isAligned x.1 = false) :
    afterLastAligned (l ++ [x]) = afterLastAligned l ++ [x] := by
  simp [afterLastAligned, hx]

theorem lastDel_snoc (l : List CigarOp) (x : CigarOp) :
    lastDel (l ++ [x]) = if x.1 = CigarEvent.deletion then x.2 else lastDel l := by
  unfold lastDel
  by_cases hx : x.1 = CigarEvent.deletion
  · simp [List.filter_append, hx]
  · simp [List.filter_append, hx]

/-- no block is open after `l` -/
def Closed (l : List CigarOp) : Prop :=
  hasAligned l = false ∨ (afterLastAligned l).any (fun o => o.1 == CigarEvent.skipped) = true

theorem dropWhile_append_of_any {α} (p : α → Bool) (a b : List α) (h : a.any (fun x => !p x) = true) :
    (a ++ b).dropWhile p = a.dropWhile p ++ b := by
  induction a with
  | nil => simp at h
  | cons x a ih =>
    by_cases hp : p x = true
    · simp only [List.any_cons, hp, Bool.not_true, Bool.false_or] at h
      simp [hp, ih h]
    · simp [hp]

theorem dropWhile_all {α} (p : α → Bool) (a : List α) (h : a.any (fun x => !p x) = false) : a.dropWhile p = [] := by
  induction a with
  | nil => rfl
  | cons x a ih =>
    simp only [List.any_cons, Bool.or_eq_false_iff, Bool.not_eq_false'] at h
    simp [h.1, ih h.2]

/-- after a closed prefix a non-aligned operation is simply appended to what was seen since the last block -/
theorem sinceBlock_snoc_closed (l : List CigarOp) (x : CigarOp) (hc : Closed l) (hx : isAligned x.1 = false) :
    sinceBlock (l ++ [x]) = sinceBlock l ++ [x] := by
  unfold sinceBlock
  rw [hasAligned_append, aLA_snoc_nal l x hx]
  have hx' : hasAligned [x] = false := by simp [hasAligned, hx]
  rw [hx', Bool.or_false]
  rcases hc with h | h
  · simp [h]
  · by_cases hl : hasAligned l = true
    · simp only [hl, if_true]
      exact dropWhile_append_of_any _ _ _ (by simpa using h)
    · simp [hl]

theorem closed_snoc_nal (l : List CigarOp) (x : CigarOp) (hc : Closed l) (hx : isAligned x.1 = false) :
    Closed (l ++ [x]) := by
  rcases hc with h | h
  · left; rw [hasAligned_append, h]; simp [hasAligned, hx]
  · right; rw [aLA_snoc_nal l x hx, List.any_append, h]; rfl

theorem pendingDel_snoc_closed (l : List CigarOp) (x : CigarOp) (hc : Closed l) (hx : isAligned x.1 = false) :
    pendingDel (l ++ [x]) = if x.1 = CigarEvent.deletion then x.2 else pendingDel l := by
  unfold pendingDel
  rw [sinceBlock_snoc_closed l x hc hx, lastDel_snoc]

/-- an open block is closed by `N`; nothing is pending then -/
theorem open_snoc_N (l : List CigarOp) (n : Int) (ho : ¬ Closed l) :
    Closed (l ++ [(CigarEvent.skipped, n)]) ∧ pendingDel (l ++ [(CigarEvent.skipped, n)]) = 0 := by
  have hal : hasAligned l = true := by
    cases h : hasAligned l with
    | true => rfl
    | false => exact absurd (Or.inl h) ho
  have hnoN : (afterLastAligned l).any (fun o => o.1 == CigarEvent.skipped) = false := by
    cases h : (afterLastAligned l).any (fun o => o.1 == CigarEvent.skipped) with
    | false => rfl
    | true => exact absurd (Or.inr h) ho
  have hx : isAligned (CigarEvent.skipped, n).1 = false := rfl
  constructor
  · right; rw [aLA_snoc_nal l _ hx, List.any_append]; simp
  · unfold pendingDel sinceBlock
    rw [hasAligned_append, hal, aLA_snoc_nal l _ hx]
    simp only [Bool.true_or, if_true]
    have : (afterLastAligned l ++ [(CigarEvent.skipped, n)]).dropWhile (fun o => !(o.1 == CigarEvent.skipped))
        = [(CigarEvent.skipped, n)] := by
      have hall : (afterLastAligned l).dropWhile (fun o => !(o.1 == CigarEvent.skipped)) = [] :=
        dropWhile_all _ _ (by simpa using hnoN)
      rw [List.dropWhile_append, hall]
      simp
    rw [this]
    simp [lastDel]

theorem open_snoc_nonN (l : List CigarOp) (x : CigarOp) (ho : ¬ Closed l) (hx : x.1 ≠ CigarEvent.skipped) :
    ¬ Closed (l ++ [x]) := by
  have hal : hasAligned l = true := by
    cases h : hasAligned l with
    | true => rfl
    | false => exact absurd (Or.inl h) ho
  have hnoN : (afterLastAligned l).any (fun o => o.1 == CigarEvent.skipped) = false := by
    cases h : (afterLastAligned l).any (fun o => o.1 == CigarEvent.skipped) with
    | false => rfl
    | true => exact absurd (Or.inr h) ho
  intro hc
  rcases hc with h | h
  · rw [hasAligned_append, hal] at h; cases h
  · by_cases ha : isAligned x.1 = true
    · rw [aLA_snoc_al l x ha] at h; cases h
    · rw [aLA_snoc_nal l x (by simpa using ha), List.any_append, hnoN] at h
      simp [hx] at h

theorem snoc_aligned_open (l : List CigarOp) (x : CigarOp) (hx : isAligned x.1 = true) : ¬ Closed (l ++ [x]) := by
  intro hc
  rcases hc with h | h
  · rw [hasAligned_append] at h; simp [hasAligned, hx] at h
  · rw [aLA_snoc_al l x hx] at h; cases h

/-! ### the loop against the specification -/

/-- what the loop returns, flushed -/
def flush (p : List Iv × Option Iv) : List Iv := p.1 ++ p.2.toList

/-- `deletions_before_block` after `pre ++ seg` (`seg` the open `N`-free run) -/
def absDel (pre seg : List CigarOp) : Int := if hasAligned seg then 0 else pendingDel (pre ++ seg)

theorem filterMap_single {α β} (f : α → Option β) (x : α) : [x].filterMap f = (f x).toList := by
  cases h : f x <;> simp [List.filterMap_cons, h]

theorem truncAligned_cons_some (op : CigarOp) (rest : List CigarOp) (h : hasAligned (op :: rest) = true) :
    truncAligned (op :: rest) = op :: truncAligned rest := by simp [truncAligned, h]

theorem truncAligned_none (l : List CigarOp) (h : hasAligned l = false) : truncAligned l = [] := by
  cases l with
  | nil => rfl
  | cons op rest => simp [truncAligned, h]

theorem hasAligned_cons (op : CigarOp) (rest : List CigarOp) :
    hasAligned (op :: rest) = (isAligned op.1 || hasAligned rest) := by simp [hasAligned]

theorem gaplessOf_none (s : Int) (pre seg : List CigarOp) (h : hasAligned seg = false) :
    gaplessOf s (pre, seg) = none := by simp [gaplessOf, h]

theorem concat_fold (s : Int) : ∀ (rest pre seg : List CigarOp) (res : List Iv),
    (Closed (pre ++ seg) ↔ hasAligned seg = false) →
    flush (concatGaplessAux (gaplessOf s (pre, seg)) (absDel pre seg) res rest
        (alignedBlocksAux (s + refLen pre + refLen seg) rest))
      = res ++ (cutsNAux pre seg (truncAligned rest)).filterMap (gaplessOf s) := by
  intro rest
  induction rest with
  | nil =>
    intro pre seg res _
    simp only [concatGaplessAux, truncAligned, cutsNAux, filterMap_single, flush]
  | cons op rest ih =>
    intro pre seg res hcl
    obtain ⟨k, n⟩ := op
    cases hA : hasAligned ((k, n) :: rest) with
    | false =>
      rw [alignedBlocksAux_nil_of_none _ _ hA, truncAligned_none _ hA]
      simp only [concatGaplessAux, cutsNAux, filterMap_single, flush]
    | true =>
      rw [truncAligned_cons_some _ _ hA]
      cases hop : isAligned k with
      | true =>
        -- an aligned operation: opens a block or extends the open one; consumes one pysam block
        have hnN : ¬ ((k, n).1 = CigarEvent.skipped) := by cases k <;> simp [isAligned] at hop <;> simp
        have hnD : ¬ (k = CigarEvent.deletion) := by cases k <;> simp [isAligned] at hop <;> simp
        have hcr : consumesRef k = true := by cases k <;> simp [isAligned] at hop <;> rfl
        have hblocks : alignedBlocksAux (s + refLen pre + refLen seg) ((k, n) :: rest) =
            (s + refLen pre + refLen seg, s + refLen pre + refLen seg + n) ::
              alignedBlocksAux (s + refLen pre + refLen seg + n) rest := by
          simp only [alignedBlocksAux, hop, if_true]
        have hopen : ¬ Closed (pre ++ (seg ++ [(k, n)])) := by
          rw [← List.append_assoc]; exact snoc_aligned_open _ _ hop
        have hseg' : hasAligned (seg ++ [(k, n)]) = true := by rw [hasAligned_snoc]; simp [hop]
        have hcl' : Closed (pre ++ (seg ++ [(k, n)])) ↔ hasAligned (seg ++ [(k, n)]) = false := by
          rw [hseg']; exact ⟨fun h => absurd h hopen, fun h => by cases h⟩
        have hpos : s + refLen pre + refLen (seg ++ [(k, n)]) = s + refLen pre + refLen seg + n := by
          rw [refLen_snoc]; simp [hcr]; omega
        have hih := ih pre (seg ++ [(k, n)]) res hcl'
        rw [hpos] at hih
        simp only [cutsNAux, hnN, if_false]
        rw [← hih, hblocks]
        cases hseg : hasAligned seg with
        | false =>
          have hg : gaplessOf s (pre, seg ++ [(k, n)]) =
              some (s + refLen pre + refLen seg - pendingDel (pre ++ seg), s + refLen pre + refLen seg + n) := by
            simp only [gaplessOf, hseg', if_true, leadOf_snoc_first seg (k, n) hseg hop]
            rw [refLen_snoc]; simp [hcr]; omega
          rw [gaplessOf_none s pre seg hseg, hg]
          simp only [concatGaplessAux, inMatch_eq, hop, if_true, absDel, hseg, hseg', Bool.false_eq_true, if_false]
        | true =>
          have hg0 : gaplessOf s (pre, seg) =
              some (s + refLen pre + refLen (leadOf seg) - pendingDel (pre ++ leadOf seg),
                s + refLen pre + refLen seg) := by simp [gaplessOf, hseg]
          have hg : gaplessOf s (pre, seg ++ [(k, n)]) =
              some (s + refLen pre + refLen (leadOf seg) - pendingDel (pre ++ leadOf seg),
                s + refLen pre + refLen seg + n) := by
            simp only [gaplessOf, hseg', if_true, leadOf_snoc_of_aligned seg (k, n) hseg]
            rw [refLen_snoc]; simp [hcr]; omega
          rw [hg0, hg]
          simp only [concatGaplessAux, inMatch_eq, hop, if_true, absDel, hseg, hseg', hnN, hnD, if_false]
      | false =>
        -- not aligned: no pysam block is consumed; more aligned operations follow
        have hrest : hasAligned rest = true := by rw [hasAligned_cons] at hA; simpa [hop] using hA
        cases hseg : hasAligned seg with
        | false =>
          have hclosed : Closed (pre ++ seg) := hcl.2 hseg
          by_cases hN : k = CigarEvent.skipped
          · -- `N` while no block is open: the (unsupported) run ends
            subst hN
            have hcl' : Closed ((pre ++ seg ++ [(CigarEvent.skipped, n)]) ++ []) ↔ hasAligned ([] : List CigarOp) = false := by
              simp only [List.append_nil]
              exact ⟨fun _ => rfl, fun _ => closed_snoc_nal _ _ hclosed rfl⟩
            have hih := ih (pre ++ seg ++ [(CigarEvent.skipped, n)]) [] res hcl'
            have hpos : s + refLen (pre ++ seg ++ [(CigarEvent.skipped, n)]) + refLen [] =
                s + refLen pre + refLen seg + n := by
              simp only [refLen_append, refLen_cons, refLen_nil]; simp [consumesRef]; omega
            rw [hpos] at hih
            have hdel : absDel (pre ++ seg ++ [(CigarEvent.skipped, n)]) [] = absDel pre seg := by
              simp only [absDel, hseg, hasAligned_nil, Bool.false_eq_true, if_false, List.append_nil]
              rw [pendingDel_snoc_closed _ _ hclosed rfl]; simp
            rw [hdel, gaplessOf_none s _ [] hasAligned_nil] at hih
            simp only [cutsNAux, if_true, List.filterMap_cons, gaplessOf_none s pre seg hseg]
            rw [← hih]
            have hb : alignedBlocksAux (s + refLen pre + refLen seg) ((CigarEvent.skipped, n) :: rest) =
                alignedBlocksAux (s + refLen pre + refLen seg + n) rest := by
              simp [alignedBlocksAux, isAligned, consumesRef]
            rw [hb]
            obtain ⟨b, bs, hbs⟩ := alignedBlocksAux_cons_of_some rest (s + refLen pre + refLen seg + n) hrest
            rw [hbs]
            simp [concatGaplessAux, CigarEvent.in_cigar_match_events, cigar_match_events]
          · -- `D` sets the pending deletion, anything else is ignored
            have hnN : ¬ ((k, n).1 = CigarEvent.skipped) := hN
            have hseg' : hasAligned (seg ++ [(k, n)]) = false := by rw [hasAligned_snoc]; simp [hseg, hop]
            have hcl' : Closed (pre ++ (seg ++ [(k, n)])) ↔ hasAligned (seg ++ [(k, n)]) = false := by
              rw [← List.append_assoc]
              exact ⟨fun _ => hseg', fun _ => closed_snoc_nal _ _ hclosed hop⟩
            have hih := ih pre (seg ++ [(k, n)]) res hcl'
            have hdel : absDel pre (seg ++ [(k, n)]) = if k = CigarEvent.deletion then n else absDel pre seg := by
              simp only [absDel, hseg, hseg', Bool.false_eq_true, if_false]
              rw [← List.append_assoc, pendingDel_snoc_closed _ _ hclosed hop]
            rw [hdel, gaplessOf_none s pre _ hseg'] at hih
            simp only [cutsNAux, hnN, if_false]
            rw [← hih, gaplessOf_none s pre seg hseg]
            by_cases hD : k = CigarEvent.deletion
            · subst hD
              have hpos : s + refLen pre + refLen (seg ++ [(CigarEvent.deletion, n)]) = s + refLen pre + refLen seg + n := by
                rw [refLen_snoc]; simp [consumesRef]; omega
              have hb : alignedBlocksAux (s + refLen pre + refLen seg) ((CigarEvent.deletion, n) :: rest) =
                  alignedBlocksAux (s + refLen pre + refLen seg + n) rest := by
                simp [alignedBlocksAux, isAligned, consumesRef]
              rw [hpos, hb]
              obtain ⟨b, bs, hbs⟩ := alignedBlocksAux_cons_of_some rest (s + refLen pre + refLen seg + n) hrest
              rw [hbs]
              simp [concatGaplessAux, CigarEvent.in_cigar_match_events, cigar_match_events]
            · have hcr : consumesRef k = false := by
                cases k <;> simp [isAligned] at hop <;> simp at hN hD <;> rfl
              have hpos : s + refLen pre + refLen (seg ++ [(k, n)]) = s + refLen pre + refLen seg := by
                rw [refLen_snoc]; simp [hcr]
              have hb : alignedBlocksAux (s + refLen pre + refLen seg) ((k, n) :: rest) =
                  alignedBlocksAux (s + refLen pre + refLen seg) rest := by
                simp [alignedBlocksAux, hop, hcr]
              rw [hpos, hb]
              obtain ⟨b, bs, hbs⟩ := alignedBlocksAux_cons_of_some rest (s + refLen pre + refLen seg) hrest
              rw [hbs]
              simp [concatGaplessAux, inMatch_eq, hop, hD]
        | true =>
          have hopen : ¬ Closed (pre ++ seg) := fun h => by have := hcl.1 h; rw [hseg] at this; cases this
          have hg0 : gaplessOf s (pre, seg) =
              some (s + refLen pre + refLen (leadOf seg) - pendingDel (pre ++ leadOf seg),
                s + refLen pre + refLen seg) := by simp [gaplessOf, hseg]
          by_cases hN : k = CigarEvent.skipped
          · -- `N` closes the open block
            subst hN
            obtain ⟨hc1, hp0⟩ := open_snoc_N (pre ++ seg) n hopen
            have hcl' : Closed ((pre ++ seg ++ [(CigarEvent.skipped, n)]) ++ []) ↔ hasAligned ([] : List CigarOp) = false := by
              simp only [List.append_nil]
              exact ⟨fun _ => rfl, fun _ => hc1⟩
            have hih := ih (pre ++ seg ++ [(CigarEvent.skipped, n)]) []
              (res ++ [(s + refLen pre + refLen (leadOf seg) - pendingDel (pre ++ leadOf seg),
                s + refLen pre + refLen seg)]) hcl'
            have hpos : s + refLen (pre ++ seg ++ [(CigarEvent.skipped, n)]) + refLen [] =
                s + refLen pre + refLen seg + n := by
              simp only [refLen_append, refLen_cons, refLen_nil]; simp [consumesRef]; omega
            rw [hpos] at hih
            have hdel : absDel (pre ++ seg ++ [(CigarEvent.skipped, n)]) [] = 0 := by
              simp only [absDel, hasAligned_nil, Bool.false_eq_true, if_false, List.append_nil]
              exact hp0
            rw [hdel, gaplessOf_none s _ [] hasAligned_nil] at hih
            simp only [cutsNAux, if_true, List.filterMap_cons, hg0]
            have hb : alignedBlocksAux (s + refLen pre + refLen seg) ((CigarEvent.skipped, n) :: rest) =
                alignedBlocksAux (s + refLen pre + refLen seg + n) rest := by
              simp [alignedBlocksAux, isAligned, consumesRef]
            rw [hb]
            obtain ⟨b, bs, hbs⟩ := alignedBlocksAux_cons_of_some rest (s + refLen pre + refLen seg + n) hrest
            rw [hbs] at hih ⊢
            have hdel0 : absDel pre seg = 0 := by simp [absDel, hseg]
            rw [hdel0]
            simp only [concatGaplessAux, if_true]
            rw [hih]
            simp [List.append_assoc]
          · have hnN : ¬ ((k, n).1 = CigarEvent.skipped) := hN
            have hseg' : hasAligned (seg ++ [(k, n)]) = true := by rw [hasAligned_snoc]; simp [hseg]
            have hopen' : ¬ Closed (pre ++ (seg ++ [(k, n)])) := by
              rw [← List.append_assoc]; exact open_snoc_nonN _ _ hopen hN
            have hcl' : Closed (pre ++ (seg ++ [(k, n)])) ↔ hasAligned (seg ++ [(k, n)]) = false := by
              rw [hseg']; exact ⟨fun h => absurd h hopen', fun h => by cases h⟩
            have hih := ih pre (seg ++ [(k, n)]) res hcl'
            have hdel : absDel pre (seg ++ [(k, n)]) = 0 := by simp [absDel, hseg']
            have hdel0 : absDel pre seg = 0 := by simp [absDel, hseg]
            simp only [cutsNAux, hnN, if_false]
            rw [← hih, hg0, hdel, hdel0]
            by_cases hD : k = CigarEvent.deletion
            · subst hD
              have hg : gaplessOf s (pre, seg ++ [(CigarEvent.deletion, n)]) =
                  some (s + refLen pre + refLen (leadOf seg) - pendingDel (pre ++ leadOf seg),
                    s + refLen pre + refLen seg + n) := by
                simp only [gaplessOf, hseg', if_true, leadOf_snoc_of_aligned seg _ hseg]
                rw [refLen_snoc]; simp [consumesRef]; omega
              have hpos : s + refLen pre + refLen (seg ++ [(CigarEvent.deletion, n)]) = s + refLen pre + refLen seg + n := by
                rw [refLen_snoc]; simp [consumesRef]; omega
              have hb : alignedBlocksAux (s + refLen pre + refLen seg) ((CigarEvent.deletion, n) :: rest) =
                  alignedBlocksAux (s + refLen pre + refLen seg + n) rest := by
                simp [alignedBlocksAux, isAligned, consumesRef]
              rw [hg, hpos, hb]
              obtain ⟨b, bs, hbs⟩ := alignedBlocksAux_cons_of_some rest (s + refLen pre + refLen seg + n) hrest
              rw [hbs]
              simp [concatGaplessAux]
            · have hcr : consumesRef k = false := by
                cases k <;> simp [isAligned] at hop <;> simp at hN hD <;> rfl
              have hg : gaplessOf s (pre, seg ++ [(k, n)]) =
                  some (s + refLen pre + refLen (leadOf seg) - pendingDel (pre ++ leadOf seg),
                    s + refLen pre + refLen seg) := by
                simp only [gaplessOf, hseg', if_true, leadOf_snoc_of_aligned seg _ hseg]
                rw [refLen_snoc]; simp [hcr]
              have hpos : s + refLen pre + refLen (seg ++ [(k, n)]) = s + refLen pre + refLen seg := by
                rw [refLen_snoc]; simp [hcr]
              have hb : alignedBlocksAux (s + refLen pre + refLen seg) ((k, n) :: rest) =
                  alignedBlocksAux (s + refLen pre + refLen seg) rest := by
                simp [alignedBlocksAux, hop, hcr]
              rw [hg, hpos, hb]
              obtain ⟨b, bs, hbs⟩ := alignedBlocksAux_cons_of_some rest (s + refLen pre + refLen seg) hrest
              rw [hbs]
              simp [concatGaplessAux, inMatch_eq, hop, hN, hD]

end IsoVerif.Lemmas.C16
