/-
C07 with a process pool: a task behaves the same whenever it is started during its parallel stage.

Model/ResumePool.lean lets every task of a parallel stage look at the file system *when the stage starts*.  In the code a
worker evaluates its `os.path.exists` tests and opens its input files when the executor hands it the task — possibly
after other tasks have performed any number of their events.  That makes no difference (for **every** variant of the
model, repaired or not): what a task reads, checks or writes (`Rcol c` / `Rcon c`) is disjoint from what the other
tasks of the stage write (`Tcol c'` / `Tcon c'`, `c' ≠ c`).
-/
import IsoVerif.Lemmas.ResumePool

namespace IsoVerif.Lemmas.Resume
open IsoVerif.Model.Resume

def actPath : Act → Path
  | .ev e => e.path
  | .exist p => p
  | .load p => p
  | .rm p => p

/-- executing actions on two file systems that agree on a set of paths containing every path the actions mention gives
    the same events and the same outcome, and the results still agree on the set -/
theorem runActs_agree (S : Path → Bool) (as : List Act) (fs fs' : FS)
    (hS : ∀ a ∈ as, S (actPath a) = true) (h : ∀ p, S p = true → fs' p = fs p) :
    (runActs as fs').evs = (runActs as fs).evs ∧ (runActs as fs').ok = (runActs as fs).ok ∧
      ∀ p, S p = true → (runActs as fs').fs p = (runActs as fs).fs p := by
  induction as generalizing fs fs' with
  | nil => exact ⟨rfl, rfl, h⟩
  | cons a as ih =>
    have hS' : ∀ a' ∈ as, S (actPath a') = true := fun a' ha' => hS a' (by simp [ha'])
    have hset : ∀ e : Ev, ∀ p, S p = true → apply fs' e p = apply fs e p := by
      intro e p hp
      simp only [apply, FS.set]
      split
      · rfl
      · exact h p hp
    cases a with
    | ev e =>
      obtain ⟨h1, h2, h3⟩ := ih (apply fs e) (apply fs' e) hS' (hset e)
      simp only [runActs]
      exact ⟨by rw [h1], h2, h3⟩
    | exist p =>
      have hp : fs'.has p = fs.has p := by simp only [FS.has, h p (hS (.exist p) (by simp))]
      simp only [runActs, hp]
      split
      · exact ih fs fs' hS' h
      · exact ⟨rfl, rfl, h⟩
    | load p =>
      have hp : fs'.loadable p = fs.loadable p := by simp only [FS.loadable, h p (hS (.load p) (by simp))]
      simp only [runActs, hp]
      split
      · exact ih fs fs' hS' h
      · exact ⟨rfl, rfl, h⟩
    | rm p =>
      have hp : fs'.has p = fs.has p := by simp only [FS.has, h p (hS (.rm p) (by simp))]
      simp only [runActs, hp]
      split
      · obtain ⟨h1, h2, h3⟩ := ih (apply fs (.remove p)) (apply fs' (.remove p)) hS' (hset _)
        exact ⟨by rw [h1], h2, h3⟩
      · exact ⟨rfl, rfl, h⟩

/-- events of other tasks leave the paths of `S` alone -/
theorem applyAll_outside (S : Path → Bool) (fs : FS) (es : List Ev) (h : ∀ e ∈ es, S e.path = false) :
    ∀ p, S p = true → applyAll fs es p = fs p := by
  intro p hp
  apply applyAll_untouched
  intro e he hpe
  have := h e he
  rw [hpe, hp] at this
  exact absurd this (by simp)

/-! ### read collection -/

/-- everything the collection task of chromosome `c` reads, checks or writes -/
def Rcol (c : Chr) : Path → Bool
  | .rgSplit c' => c' == c
  | .save c' => c' == c
  | .groups c' => c' == c
  | .bamstat c' => c' == c
  | .collected c' => c' == c
  | .refFa => true          -- the unpacked reference and the index (written by the main process before the stage)
  | .refFaiData => true
  | _ => false

theorem collectChr_agree (v : Variant) (cfg : Cfg) (rs sk : Bool) (c : Chr) (fs fs' : FS)
    (h : ∀ p, Rcol c p = true → fs' p = fs p) : collectChr v cfg rs sk c fs' = collectChr v cfg rs sk c fs := by
  have h1 : fs' (.rgSplit c) = fs (.rgSplit c) := h _ (by simp [Rcol])
  have h2 : fs' (.collected c) = fs (.collected c) := h _ (by simp [Rcol])
  have h3 : fs' (.groups c) = fs (.groups c) := h _ (by simp [Rcol])
  have h4 : fs' (.save c) = fs (.save c) := h _ (by simp [Rcol])
  have h5 : fs' .refFa = fs .refFa := h _ rfl
  have h6 : fs' .refFaiData = fs .refFaiData := h _ rfl
  simp only [collectChr, refOK, FS.has, FS.good, h1, h2, h3, h4, h5, h6]
  rfl

theorem collectChr_paths (v : Variant) (cfg : Cfg) (rs sk : Bool) (c : Chr) (fs : FS) :
    (collectChr v cfg rs sk c fs).all (fun a => Rcol c (actPath a)) = true := by
  unfold collectChr
  rcases v with ⟨fl, dp, lf, cu, cb, dd, fsq, rc⟩
  cases sk <;> cases fl <;> by_cases hf : cfg.rg = RG.file <;>
    simp only [hf, if_true, if_false, Bool.false_eq_true] <;> (try split) <;>
    simp [evs, Rcol, actPath, Ev.path]

theorem Rcol_Tcol {c c' : Chr} (hne : c' ≠ c) {p : Path} (h : Tcol c' p = true) : Rcol c p = false := by
  cases p <;> simp [Tcol] at h <;> simp [Rcol] <;> intro e <;> exact hne (h ▸ e ▸ rfl)

/-! ### model construction -/

/-- everything the model-construction task of chromosome `c` reads, checks or writes -/
def Rcon (c : Chr) : Path → Bool
  | .info => true
  | .multimap c' => c' == c
  | .save c' => c' == c
  | .part _ c' => c' == c
  | .partLin _ c' => c' == c
  | .partStats _ c' => c' == c
  | .readStat c' => c' == c
  | .trStat c' => c' == c
  | .processed c' => c' == c
  | .refFa => true
  | .refFaiData => true
  | _ => false

theorem constructChr_agree (v : Variant) (cfg : Cfg) (rs : Bool) (c : Chr) (fs fs' : FS)
    (h : ∀ p, Rcon c p = true → fs' p = fs p) : constructChr v cfg rs c fs' = constructChr v cfg rs c fs := by
  have h1 : fs' (.processed c) = fs (.processed c) := h _ (by simp [Rcon])
  have h2 : fs' .info = fs .info := h _ rfl
  have h3 : fs' .refFa = fs .refFa := h _ rfl
  have h4 : fs' .refFaiData = fs .refFaiData := h _ rfl
  simp only [constructChr, refOK, FS.has, FS.good, h1, h2, h3, h4]
  rfl

set_option maxRecDepth 8000 in
theorem constructChr_paths (v : Variant) (cfg : Cfg) (rs : Bool) (c : Chr) (fs : FS) :
    (constructChr v cfg rs c fs).all (fun a => Rcon c (actPath a)) = true := by
  unfold constructChr
  split
  · cases hn : cfg.noModel <;> simp [trStatPaths, hn, Rcon, actPath]
  · cases hn : cfg.noModel <;>
      simp [evs, aggInit, trStatPaths, hn, dumpUngrouped, dumpGrouped, dumpProfile, Rcon, actPath, Ev.path, List.all_append,
        List.all_map, List.all_flatMap, List.all_filter, Function.comp_def]

theorem Rcon_Tcon {c c' : Chr} (hne : c' ≠ c) {p : Path} (h : Tcon c' p = true) : Rcon c p = false := by
  cases p <;> simp [Tcon] at h <;> simp [Rcon] <;> intro e <;> exact hne (h ▸ e ▸ rfl)

/-! ### started at any moment -/

theorem collect_start_indep (v : Variant) (cfg : Cfg) (rs sk : Bool) (c : Chr) (fs : FS) (es : List Ev)
    (hes : ∀ e ∈ es, ∃ c', c' ≠ c ∧ Tcol c' e.path = true) :
    (runActs (collectChr v cfg rs sk c (applyAll fs es)) (applyAll fs es)).evs = (runActs (collectChr v cfg rs sk c fs) fs).evs ∧
    (runActs (collectChr v cfg rs sk c (applyAll fs es)) (applyAll fs es)).ok = (runActs (collectChr v cfg rs sk c fs) fs).ok := by
  have h : ∀ p, Rcol c p = true → applyAll fs es p = fs p :=
    applyAll_outside (Rcol c) fs es (fun e he => by obtain ⟨c', hne, hT⟩ := hes e he; exact Rcol_Tcol hne hT)
  rw [collectChr_agree v cfg rs sk c fs (applyAll fs es) h]
  have hp := collectChr_paths v cfg rs sk c fs
  simp only [List.all_eq_true] at hp
  obtain ⟨h1, h2, _⟩ := runActs_agree (Rcol c) _ fs (applyAll fs es) hp h
  exact ⟨h1, h2⟩

theorem construct_start_indep (v : Variant) (cfg : Cfg) (rs : Bool) (c : Chr) (fs : FS) (es : List Ev)
    (hes : ∀ e ∈ es, ∃ c', c' ≠ c ∧ Tcon c' e.path = true) :
    (runActs (constructChr v cfg rs c (applyAll fs es)) (applyAll fs es)).evs = (runActs (constructChr v cfg rs c fs) fs).evs ∧
    (runActs (constructChr v cfg rs c (applyAll fs es)) (applyAll fs es)).ok = (runActs (constructChr v cfg rs c fs) fs).ok := by
  have h : ∀ p, Rcon c p = true → applyAll fs es p = fs p :=
    applyAll_outside (Rcon c) fs es (fun e he => by obtain ⟨c', hne, hT⟩ := hes e he; exact Rcon_Tcon hne hT)
  rw [constructChr_agree v cfg rs c fs (applyAll fs es) h]
  have hp := constructChr_paths v cfg rs c fs
  simp only [List.all_eq_true] at hp
  obtain ⟨h1, h2, _⟩ := runActs_agree (Rcon c) _ fs (applyAll fs es) hp h
  exact ⟨h1, h2⟩

/-! ### footprints, every variant -/

theorem collectChr_T_any (v : Variant) (cfg : Cfg) (rs sk : Bool) (c : Chr) (fs : FS) :
    (eventsOf (collectChr v cfg rs sk c fs)).all (fun e => Tcol c e.path) = true := by
  unfold collectChr
  rcases v with ⟨fl, dp, lf, cu, cb, dd, fsq, rc⟩
  cases sk <;> cases fl <;> by_cases hf : cfg.rg = RG.file <;>
    simp only [hf, if_true, if_false, Bool.false_eq_true] <;> (try split) <;>
    simp [eventsOf, eventsOf_append, evs, Tcol, Ev.path]

set_option maxRecDepth 8000 in
theorem constructChr_T_any (v : Variant) (cfg : Cfg) (rs : Bool) (c : Chr) (fs : FS) :
    (eventsOf (constructChr v cfg rs c fs)).all (fun e => Tcon c e.path) = true := by
  unfold constructChr
  split
  · cases hn : cfg.noModel <;> simp [trStatPaths, hn, eventsOf]
  · cases hn : cfg.noModel <;>
      simp [eventsOf, eventsOf_append, eventsOf_evs, aggInit, trStatPaths, hn, dumpUngrouped, dumpGrouped, dumpProfile, Tcon,
        Ev.path, List.all_append, List.all_map, List.all_flatMap, List.all_filter, Function.comp_def]

end IsoVerif.Lemmas.Resume
