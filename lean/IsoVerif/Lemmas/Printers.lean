/-
Helper definitions and lemmas for the read-level printers (Model/Printers.lean, Model/ReusePrint.lean):
the memo-free specification of the lines of one record, purity of the printers over the memo of
`check_sites_are_canonical` (from C18's `read_field_pure`), list lemmas for the loader on full records.
-/
import IsoVerif.Model.ReusePrint
import IsoVerif.Props.C18

namespace IsoVerif.Lemmas.Printers
open IsoVerif.Gen IsoVerif.Model IsoVerif.Model.Serial IsoVerif.Model.Printers
open IsoVerif.Model.C18 IsoVerif.Props.C18

/-! ### the lines of one record as a function of the record and the gene info only -/

/-- the `Canonical=` field: printed iff `--check_canonical` and the locus has a reference region; its value is C18's
    `pureFlag` (Unspliced / True / False from the reference window, the read's introns and its strand) -/
def canonField (P : Params) (gv : GeneView) (r : ReadAssignment) : Option String :=
  if P.checkCanonical = true ∧ gv.ref.refRegion ≠ [] then some (pureFlag gv.ref r.exons (strandOf r.strand)) else none

/-- the tokens of the additional-info column of a matched line, in order -/
def infoTokens (P : Params) (gv : GeneView) (r : ReadAssignment) (m : IsoformMatch) : List String :=
  ["gene_assignment=" ++ r.geneAssignmentType.name ++ ";", "PolyA=" ++ boolStr r.polyAFound ++ ";"]
  ++ (if P.cage then ["CAGE=" ++ boolStr r.cageFound ++ ";"] else [])
  ++ (match canonField P gv r with
      | some c => ["Canonical=" ++ c ++ ";"]
      | none => [])
  ++ ["Classification=" ++ m.matchClassification.name ++ ";"]
  ++ attrTokens r.additionalAttributes

/-- the line of one isoform match (no memo) -/
def specMatchLine (P : Params) (gv : GeneView) (r : ReadAssignment) (m : IsoformMatch) : Option TsvLine :=
  match m.assignedTranscript with
  | none => some (unmatchedLine r ["Classification=" ++ m.matchClassification.name ++ ";"])
  | some t =>
    match gv.isoformIntrons.lookup t, m.assignedGene with
    | some isoformIntrons, some g =>
      some { readId := r.readId, chr := r.chrId, strand := r.strand, isoformId := t, geneId := g,
             assignmentType := r.assignmentType.name,
             events := ",".intercalate (m.events.map (fun e =>
                         eventStr e r.strand (junctionsFromBlocks r.exons) isoformIntrons)),
             exons := rangeListToStr r.exons,
             info := infoColumn (infoTokens P gv r m) }
    | _, _ => none

/-- all matches, in order; `none` when one of them raises -/
def specMatchLines (P : Params) (gv : GeneView) (r : ReadAssignment) : List IsoformMatch → Option (List TsvLine)
  | [] => some []
  | m :: ms =>
    match specMatchLine P gv r m, specMatchLines P gv r ms with
    | some l, some ls => some (l :: ls)
    | _, _ => none

/-- the TSV lines of a record -/
def specTsv (ck : Checker) (P : Params) (gv : GeneView) (r : ReadAssignment) : Option (List TsvLine) :=
  if !ck.check r then some []
  else if r.isoformMatches.isEmpty then some [unmatchedLine r []]
  else specMatchLines P gv r r.isoformMatches

/-- both files: the BED record (if any) and the TSV lines of one record -/
def recordLines (C : PrinterCfg) (gv : GeneView) (r : ReadAssignment) : Option (List C14.BedRecord × List TsvLine) :=
  match bedOf C.bedChecker printer_bed_print_corrected gv r, specTsv C.tsvChecker C.params gv r with
  | some b, some ls => some (b.toList, ls)
  | _, _ => none

/-- the lines of a list of records: the per-record lines concatenated, provided every record prints -/
def specRecords (C : PrinterCfg) (gv : GeneView) : List ReadAssignment → Option Lines
  | [] => some { bed := [], tsv := [] }
  | r :: rs =>
    match recordLines C gv r, specRecords C gv rs with
    | some x, some rest => some { bed := x.1 ++ rest.bed, tsv := x.2 ++ rest.tsv }
    | _, _ => none

/-! ### purity over the memo -/

theorem matchLine_pure {gv : GeneView} {σ : CanonMemo} (h : Reachable gv.ref σ) (P : Params) (r : ReadAssignment)
    (m : IsoformMatch) :
    (matchLine P gv r m σ).map (·.1) = specMatchLine P gv r m ∧
    ∀ out, matchLine P gv r m σ = some out → Reachable gv.ref out.2 := by
  have hp := read_field_pure h P.checkCanonical r.exons (strandOf r.strand)
  unfold matchLine specMatchLine
  cases m.assignedTranscript with
  | none =>
    dsimp only
    refine ⟨rfl, ?_⟩
    intro out ho
    simp only [Option.some.injEq] at ho
    subst ho
    exact h
  | some t =>
    dsimp only
    cases gv.isoformIntrons.lookup t with
    | none => exact ⟨rfl, fun _ ho => by simp at ho⟩
    | some ii =>
      cases m.assignedGene with
      | none => exact ⟨rfl, fun _ ho => by simp at ho⟩
      | some g =>
        dsimp only
        refine ⟨?_, ?_⟩
        · simp only [Option.map_some, infoTokens, canonField, hp.1] <;> rfl
        · intro out ho
          simp only [Option.some.injEq] at ho
          subst ho
          exact hp.2

theorem matchLines_pure {gv : GeneView} (P : Params) (r : ReadAssignment) :
    ∀ (ms : List IsoformMatch) (σ : CanonMemo), Reachable gv.ref σ →
      (matchLines P gv r ms σ).map (·.1) = specMatchLines P gv r ms ∧
      ∀ out, matchLines P gv r ms σ = some out → Reachable gv.ref out.2 := by
  intro ms
  induction ms with
  | nil =>
    intro σ h
    refine ⟨rfl, ?_⟩
    intro out ho
    simp only [matchLines, Option.some.injEq] at ho
    subst ho
    exact h
  | cons m ms ih =>
    intro σ h
    have h1 := matchLine_pure h P r m
    cases hm : matchLine P gv r m σ with
    | none =>
      rw [hm] at h1
      have e1 : specMatchLine P gv r m = none := h1.1.symm
      simp only [matchLines, specMatchLines, hm, e1]
      exact ⟨rfl, fun _ ho => by simp at ho⟩
    | some x =>
      obtain ⟨l, σ'⟩ := x
      rw [hm] at h1
      have e1 : specMatchLine P gv r m = some l := h1.1.symm
      have hr : Reachable gv.ref σ' := h1.2 _ rfl
      have h2 := ih σ' hr
      cases hms : matchLines P gv r ms σ' with
      | none =>
        rw [hms] at h2
        have e2 : specMatchLines P gv r ms = none := h2.1.symm
        simp only [matchLines, specMatchLines, hm, e1, hms, e2]
        exact ⟨rfl, fun _ ho => by simp at ho⟩
      | some y =>
        obtain ⟨ls, σ''⟩ := y
        rw [hms] at h2
        have e2 : specMatchLines P gv r ms = some ls := h2.1.symm
        simp only [matchLines, specMatchLines, hm, e1, hms, e2]
        refine ⟨rfl, ?_⟩
        intro out ho
        simp only [Option.some.injEq] at ho
        subst ho
        exact h2.2 (ls, σ'') rfl

theorem tsvOf_pure {gv : GeneView} {σ : CanonMemo} (h : Reachable gv.ref σ) (ck : Checker) (P : Params)
    (r : ReadAssignment) :
    (tsvOf ck P gv r σ).map (·.1) = specTsv ck P gv r ∧
    ∀ out, tsvOf ck P gv r σ = some out → Reachable gv.ref out.2 := by
  unfold tsvOf specTsv
  by_cases hc : ck.check r = true
  · simp only [hc, Bool.not_true, Bool.false_eq_true, if_false]
    by_cases he : r.isoformMatches.isEmpty = true
    · simp only [he, if_true]
      refine ⟨rfl, ?_⟩
      intro out ho
      simp only [Option.some.injEq] at ho
      subst ho
      exact h
    · simp only [he, Bool.false_eq_true, if_false]
      exact matchLines_pure P r r.isoformMatches σ h
  · have hc' : ck.check r = false := by simpa using hc
    simp only [hc', Bool.not_false, if_true]
    refine ⟨rfl, ?_⟩
    intro out ho
    simp only [Option.some.injEq] at ho
    subst ho
    exact h

/-- the composite printer over the records of a gene region prints, whatever the memo held before, the
    concatenation of the memo-free per-record lines -/
theorem printRecords_pure (C : PrinterCfg) (gv : GeneView) :
    ∀ (rs : List ReadAssignment) (σ : CanonMemo), Reachable gv.ref σ → printRecords C gv rs σ = specRecords C gv rs := by
  intro rs
  induction rs with
  | nil => intro σ _; rfl
  | cons r rs ih =>
    intro σ h
    have ht := tsvOf_pure h C.tsvChecker C.params r
    cases hb : bedOf C.bedChecker printer_bed_print_corrected gv r with
    | none => simp only [printRecords, specRecords, recordLines, hb]
    | some b =>
      cases hts : tsvOf C.tsvChecker C.params gv r σ with
      | none =>
        rw [hts] at ht
        have e1 : specTsv C.tsvChecker C.params gv r = none := ht.1.symm
        simp only [printRecords, specRecords, recordLines, hb, hts, e1]
      | some x =>
        obtain ⟨ls, σ'⟩ := x
        rw [hts] at ht
        have e1 : specTsv C.tsvChecker C.params gv r = some ls := ht.1.symm
        simp only [printRecords, specRecords, recordLines, hb, hts, e1, ih σ' (ht.2 _ rfl)]
        cases specRecords C gv rs <;> rfl

/-! ### counting lines -/

theorem specMatchLines_cons {P : Params} {gv : GeneView} {r : ReadAssignment} {m : IsoformMatch}
    {ms : List IsoformMatch} {ls : List TsvLine} (h : specMatchLines P gv r (m :: ms) = some ls) :
    ∃ l ls', specMatchLine P gv r m = some l ∧ specMatchLines P gv r ms = some ls' ∧ ls = l :: ls' := by
  cases h1 : specMatchLine P gv r m with
  | none => simp [specMatchLines, h1] at h
  | some l =>
    cases h2 : specMatchLines P gv r ms with
    | none => simp [specMatchLines, h1, h2] at h
    | some ls' =>
      simp only [specMatchLines, h1, h2, Option.some.injEq] at h
      exact ⟨l, ls', rfl, rfl, h.symm⟩

theorem specMatchLines_length (P : Params) (gv : GeneView) (r : ReadAssignment) :
    ∀ (ms : List IsoformMatch) (ls : List TsvLine), specMatchLines P gv r ms = some ls → ls.length = ms.length := by
  intro ms
  induction ms with
  | nil => intro ls h; simp only [specMatchLines, Option.some.injEq] at h; subst h; rfl
  | cons m ms ih =>
    intro ls h
    obtain ⟨l, ls', _, h2, rfl⟩ := specMatchLines_cons h
    simp [ih ls' h2]

/-- a line of a match carries the record's read id, chromosome, strand, assignment type and exon string -/
theorem specMatchLine_common {P : Params} {gv : GeneView} {r : ReadAssignment} {m : IsoformMatch} {l : TsvLine}
    (h : specMatchLine P gv r m = some l) :
    l.readId = r.readId ∧ l.chr = r.chrId ∧ l.strand = r.strand ∧
      l.assignmentType = r.assignmentType.name ∧ l.exons = rangeListToStr r.exons := by
  unfold specMatchLine at h
  cases ht : m.assignedTranscript with
  | none =>
    simp only [ht, Option.some.injEq] at h
    subst h
    exact ⟨rfl, rfl, rfl, rfl, rfl⟩
  | some t =>
    cases hk : gv.isoformIntrons.lookup t with
    | none => simp [ht, hk] at h
    | some ii =>
      cases hg : m.assignedGene with
      | none => simp [ht, hk, hg] at h
      | some g =>
        simp only [ht, hk, hg, Option.some.injEq] at h
        subst h
        exact ⟨rfl, rfl, rfl, rfl, rfl⟩

theorem specMatchLines_common (P : Params) (gv : GeneView) (r : ReadAssignment) :
    ∀ (ms : List IsoformMatch) (ls : List TsvLine), specMatchLines P gv r ms = some ls →
      ∀ l ∈ ls, l.readId = r.readId ∧ l.chr = r.chrId ∧ l.strand = r.strand ∧
        l.assignmentType = r.assignmentType.name ∧ l.exons = rangeListToStr r.exons := by
  intro ms
  induction ms with
  | nil => intro ls h l hl; simp only [specMatchLines, Option.some.injEq] at h; subst h; cases hl
  | cons m ms ih =>
    intro ls h l hl
    obtain ⟨l0, ls', h1, h2, rfl⟩ := specMatchLines_cons h
    rcases List.mem_cons.mp hl with rfl | hl'
    · exact specMatchLine_common h1
    · exact ih ls' h2 l hl'

/-! ### list helpers -/

theorem map_eq_replicate {α β : Type} (g : α → β) (c : β) (l : List α) (h : ∀ x ∈ l, g x = c) :
    l.map g = List.replicate l.length c := by
  induction l with
  | nil => rfl
  | cons a t ih =>
    simp only [List.map_cons, List.length_cons, List.replicate_succ, h a (by simp),
      ih (fun x hx => h x (List.mem_cons_of_mem _ hx))]

end IsoVerif.Lemmas.Printers
