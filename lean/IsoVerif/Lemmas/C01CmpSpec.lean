/-
What the two presence lists of `compare_junctions` are (Model/JunctionCompare.lean `sweep`), for intron chains as the
pipeline produces them: sorted, separated, each intron longer than 2δ and inside its region.
  readProf[i] =  1  iff some isoform intron equals read intron i within δ
              = −1  iff none does and the read intron overlaps the isoform region
              =  0  otherwise                                  (symmetric for isoProf)
Core Lean only.
-/
import IsoVerif.Lemmas.C01CmpTotal

namespace IsoVerif.Lemmas.C01Cmp
open IsoVerif.Gen IsoVerif.Model IsoVerif.Model.C01 IsoVerif.Lemmas

/-- some isoform junction of `K` equals `r` within δ -/
def matchedBy (δ : Int) (K : List Iv) (r : Iv) : Bool := K.any (fun k => equal_ranges k r δ)
/-- some read junction of `R` equals `k` within δ -/
def matchesSome (δ : Int) (R : List Iv) (k : Iv) : Bool := R.any (fun r => equal_ranges k r δ)

def specR (δ : Int) (ir : Iv) (K : List Iv) (r : Iv) : Int :=
  if matchedBy δ K r then 1 else if overlaps ir r then -1 else 0
def specK (δ : Int) (rr : Iv) (R : List Iv) (k : Iv) : Int :=
  if matchesSome δ R k then 1 else if overlaps rr k then -1 else 0

/-- static hypotheses on (suffixes of) the two chains -/
structure Geo (δ : Int) (rr ir : Iv) (rs ks : List Iv) : Prop where
  dpos : 0 ≤ δ
  rsd : SD rs
  ksd : SD ks
  rlong : ∀ r ∈ rs, 2 * δ ≤ r.2 - r.1
  klong : ∀ k ∈ ks, 2 * δ ≤ k.2 - k.1
  rin : ∀ r ∈ rs, rr.1 ≤ r.1 ∧ r.2 ≤ rr.2
  kin : ∀ k ∈ ks, ir.1 ≤ k.1 ∧ k.2 ≤ ir.2

theorem Geo.tail_r {δ rr ir r rs ks} (g : Geo δ rr ir (r :: rs) ks) : Geo δ rr ir rs ks :=
  ⟨g.dpos, SD_tail g.rsd, g.ksd, fun x hx => g.rlong x (List.mem_cons_of_mem _ hx), g.klong,
   fun x hx => g.rin x (List.mem_cons_of_mem _ hx), g.kin⟩

theorem Geo.tail_k {δ rr ir rs k ks} (g : Geo δ rr ir rs (k :: ks)) : Geo δ rr ir rs ks :=
  ⟨g.dpos, g.rsd, SD_tail g.ksd, g.rlong, fun x hx => g.klong x (List.mem_cons_of_mem _ hx), g.rin,
   fun x hx => g.kin x (List.mem_cons_of_mem _ hx)⟩

theorem Geo.rwf {δ rr ir rs ks} (g : Geo δ rr ir rs ks) : WFl rs := by
  intro r hr; have := g.rlong r hr; have := g.dpos; omega

theorem Geo.kwf {δ rr ir rs ks} (g : Geo δ rr ir rs ks) : WFl ks := by
  intro k hk; have := g.klong k hk; have := g.dpos; omega

theorem Geo.r_after {δ rr ir r rs ks} (g : Geo δ rr ir (r :: rs) ks) : ∀ r' ∈ rs, r.2 < r'.1 :=
  SD_all_right g.rsd g.rwf

theorem Geo.k_after {δ rr ir rs k ks} (g : Geo δ rr ir rs (k :: ks)) : ∀ k' ∈ ks, k.2 < k'.1 :=
  SD_all_right g.ksd g.kwf

theorem eq_iff (k r : Iv) (δ : Int) :
    equal_ranges k r δ = true ↔ (-δ ≤ k.1 - r.1 ∧ k.1 - r.1 ≤ δ) ∧ (-δ ≤ k.2 - r.2 ∧ k.2 - r.2 ≤ δ) := by
  simp only [equal_ranges, Bool.and_eq_true, decide_eq_true_eq, iabs_le]

theorem eq_false_of (k r : Iv) (δ : Int)
    (h : ¬ ((-δ ≤ k.1 - r.1 ∧ k.1 - r.1 ≤ δ) ∧ (-δ ≤ k.2 - r.2 ∧ k.2 - r.2 ≤ δ))) : equal_ranges k r δ = false := by
  cases e : equal_ranges k r δ with
  | false => rfl
  | true => exact absurd ((eq_iff k r δ).mp e) h

theorem overlaps_true_iff (a b : Iv) : overlaps a b = true ↔ b.1 ≤ a.2 ∧ a.1 ≤ b.2 := by
  simp only [overlaps, Bool.not_eq_true', Bool.or_eq_false_iff, decide_eq_false_iff_not]; omega

theorem overlaps_false_iff (a b : Iv) : overlaps a b = false ↔ a.2 < b.1 ∨ b.2 < a.1 := by
  simp only [overlaps, Bool.not_eq_false', Bool.or_eq_true, decide_eq_true_eq]

theorem specR_cons_of_not {δ ir k ks r} (h : equal_ranges k r δ = false) : specR δ ir (k :: ks) r = specR δ ir ks r := by
  unfold specR matchedBy; rw [List.any_cons, h, Bool.false_or]

theorem specK_cons_of_not {δ rr r rs k} (h : equal_ranges k r δ = false) : specK δ rr (r :: rs) k = specK δ rr rs k := by
  unfold specK matchesSome; rw [List.any_cons, h, Bool.false_or]

theorem specR_of_match {δ ir k ks r} (h : equal_ranges k r δ = true) : specR δ ir (k :: ks) r = 1 := by
  unfold specR matchedBy; rw [List.any_cons, h, Bool.true_or]; rfl

theorem specK_of_match {δ rr r rs k} (h : equal_ranges k r δ = true) : specK δ rr (r :: rs) k = 1 := by
  unfold specK matchesSome; rw [List.any_cons, h, Bool.true_or]; rfl

theorem map_specR_cons {δ ir k ks} {rs : List Iv} (h : ∀ r ∈ rs, equal_ranges k r δ = false) :
    rs.map (specR δ ir (k :: ks)) = rs.map (specR δ ir ks) :=
  List.map_congr_left (fun r hr => specR_cons_of_not (h r hr))

theorem map_specK_cons {δ rr r rs} {ks : List Iv} (h : ∀ k ∈ ks, equal_ranges k r δ = false) :
    ks.map (specK δ rr (r :: rs)) = ks.map (specK δ rr rs) :=
  List.map_congr_left (fun k hk => specK_cons_of_not (h k hk))

theorem matchedBy_false {δ : Int} {K : List Iv} {r : Iv} (h : ∀ k ∈ K, equal_ranges k r δ = false) :
    matchedBy δ K r = false := by
  simp only [matchedBy, List.any_eq_false]
  intro k hk; simp [h k hk]

theorem matchesSome_false {δ : Int} {R : List Iv} {k : Iv} (h : ∀ r ∈ R, equal_ranges k r δ = false) :
    matchesSome δ R k = false := by
  simp only [matchesSome, List.any_eq_false]
  intro r hr; simp [h r hr]

/-- the terminating read loop when every isoform junction has been passed -/
theorem trailRead_spec (δ : Int) (ir : Iv) (ki : Nat) :
    ∀ (rs : List Iv) (ri : Nat) (rv : Int), SD rs → WFl rs →
      (rv = 0 ∨ (rv = -1 ∧ ∀ r ∈ rs.head?, overlaps ir r = true)) →
      (∀ r ∈ rs, ir.1 ≤ r.2) →
      (trailRead ir ki rs ri rv).1 = rs.map (specR δ ir []) := by
  intro rs
  induction rs with
  | nil => intro _ _ _ _ _ _; rfl
  | cons r rs ih =>
    intro ri rv hsd hwf hrv hin
    simp only [trailRead]
    have hnm : specR δ ir [] r = if overlaps ir r then -1 else 0 := by simp [specR, matchedBy]
    split
    · rename_i hov
      rw [List.map_cons, hnm, if_pos hov]
      rw [ih (ri + 1) 0 (SD_tail hsd) (WFl_tail hwf) (Or.inl rfl) (fun x hx => hin x (List.mem_cons_of_mem _ hx))]
    · rename_i hov
      have hrv0 : rv = 0 := by
        rcases hrv with h | ⟨_, h⟩
        · exact h
        · exact absurd (h r (by simp)) hov
      rw [List.map_cons, hnm, if_neg hov, hrv0]
      show (0 : Int) :: rs.map (fun _ => (0 : Int)) = _
      congr 1
      -- every later read junction lies beyond the isoform region as well
      have hr2 := hin r (by simp)
      have hov' : overlaps ir r = false := by simpa using hov
      have hbey : ir.2 < r.1 := by
        rcases (overlaps_false_iff _ _).mp hov' with h | h
        · exact h
        · omega
      apply List.map_congr_left
      intro x hx
      have h1 := SD_all_right hsd hwf x hx
      have h2 := hwf r (by simp)
      have : overlaps ir x = false := (overlaps_false_iff _ _).mpr (Or.inl (by omega))
      simp [specR, matchedBy, this]

theorem trailIso_spec (δ : Int) (rr : Iv) (ri : Nat) :
    ∀ (ks : List Iv) (ki : Nat) (kv : Int), SD ks → WFl ks →
      (kv = 0 ∨ (kv = -1 ∧ ∀ k ∈ ks.head?, overlaps rr k = true)) →
      (∀ k ∈ ks, rr.1 ≤ k.2) →
      (trailIso rr ri ks ki kv).1 = ks.map (specK δ rr []) := by
  intro ks
  induction ks with
  | nil => intro _ _ _ _ _ _; rfl
  | cons k ks ih =>
    intro ki kv hsd hwf hkv hin
    simp only [trailIso]
    have hnm : specK δ rr [] k = if overlaps rr k then -1 else 0 := by simp [specK, matchesSome]
    split
    · rename_i hov
      rw [List.map_cons, hnm, if_pos hov]
      rw [ih (ki + 1) 0 (SD_tail hsd) (WFl_tail hwf) (Or.inl rfl) (fun x hx => hin x (List.mem_cons_of_mem _ hx))]
    · rename_i hov
      have hkv0 : kv = 0 := by
        rcases hkv with h | ⟨_, h⟩
        · exact h
        · exact absurd (h k (by simp)) hov
      rw [List.map_cons, hnm, if_neg hov, hkv0]
      show (0 : Int) :: ks.map (fun _ => (0 : Int)) = _
      congr 1
      have hr2 := hin k (by simp)
      have hov' : overlaps rr k = false := by simpa using hov
      have hbey : rr.2 < k.1 := by
        rcases (overlaps_false_iff _ _).mp hov' with h | h
        · exact h
        · omega
      apply List.map_congr_left
      intro x hx
      have h1 := SD_all_right hsd hwf x hx
      have h2 := hwf k (by simp)
      have : overlaps rr x = false := (overlaps_false_iff _ _).mpr (Or.inl (by omega))
      simp [specK, matchesSome, this]

/-- the presence lists of the sweep are the declarative profiles `specR` / `specK` -/
theorem sweep_spec (δ : Int) (rr ir : Iv) (rs : List Iv) (ri : Nat) (rv : Int) (ks : List Iv) (ki : Nat) (kv : Int)
    (cur : Cur) (g : Geo δ rr ir rs ks)
    (hrv : rv = 0 ∨ (rv = -1 ∧ ∀ r ∈ rs.head?, overlaps ir r = true))
    (hkv : kv = 0 ∨ (kv = -1 ∧ ∀ k ∈ ks.head?, overlaps rr k = true))
    (h2r : 0 < ki → ∀ r ∈ rs, ir.1 ≤ r.2) (h2k : 0 < ri → ∀ k ∈ ks, rr.1 ≤ k.2)
    (hnr : 0 < ri + rs.length) (hnk : 0 < ki + ks.length) :
    (sweep δ rr ir rs ri rv ks ki kv cur).readProf = rs.map (specR δ ir ks) ∧
    (sweep δ rr ir rs ri rv ks ki kv cur).isoProf = ks.map (specK δ rr rs) := by
  fun_induction sweep δ rr ir rs ri rv ks ki kv cur with
  | case1 ri rv ks ki kv cur =>
    refine ⟨rfl, ?_⟩
    exact trailIso_spec δ rr ri ks ki kv g.ksd g.kwf hkv (h2k (by simpa using hnr))
  | case2 r rs ri rv ki kv cur =>
    refine ⟨?_, rfl⟩
    exact trailRead_spec δ ir ki (r :: rs) ri rv g.rsd g.rwf hrv (h2r (by simpa using hnk))
  | case3 r rs ri rv k ks ki kv cur heq o ih =>
    simp only [o]
    have hd := g.dpos
    have hkl := g.klong k (by simp)
    have hrl := g.rlong r (by simp)
    have hrin := g.rin r (by simp)
    have hkin := g.kin k (by simp)
    obtain ⟨⟨e1, e2⟩, ⟨e3, e4⟩⟩ := (eq_iff k r δ).mp heq
    have hra := g.r_after
    have hka := g.tail_r.k_after
    obtain ⟨ih1, ih2⟩ := ih g.tail_r.tail_k (Or.inl rfl) (Or.inl rfl)
      (fun _ x hx => by
        have := hra x hx; have := g.rlong x (List.mem_cons_of_mem _ hx); omega)
      (fun _ x hx => by
        have := hka x hx; have := g.klong x (List.mem_cons_of_mem _ hx); omega)
      (by omega) (by omega)
    constructor
    · rw [List.map_cons, specR_of_match heq, ih1]
      congr 1
      symm
      apply map_specR_cons
      intro x hx
      have := hra x hx
      exact eq_false_of _ _ _ (by intro ⟨⟨_, _⟩, ⟨_, _⟩⟩; omega)
    · rw [List.map_cons, specK_of_match heq, ih2]
      congr 1
      symm
      apply map_specK_cons
      intro x hx
      have := hka x hx
      exact eq_false_of _ _ _ (by intro ⟨⟨_, _⟩, ⟨_, _⟩⟩; omega)
  | case4 r rs ri rv k ks ki kv cur heq hov hlt o ih =>
    simp only [o]
    have hd := g.dpos
    have hkl := g.klong k (by simp)
    have hrl := g.rlong r (by simp)
    have hrin := g.rin r (by simp)
    have hkin := g.kin k (by simp)
    obtain ⟨o1, o2⟩ := (overlaps_true_iff k r).mp hov
    have hra := g.r_after
    have hka := g.k_after
    have hnoeq : ∀ k' ∈ k :: ks, equal_ranges k' r δ = false := by
      intro k' hk'
      rcases List.mem_cons.mp hk' with rfl | hk'
      · simpa using heq
      · have := hka k' hk'
        have := g.klong k' (List.mem_cons_of_mem _ hk')
        exact eq_false_of _ _ _ (by intro ⟨⟨_, _⟩, ⟨_, _⟩⟩; omega)
    obtain ⟨ih1, ih2⟩ := ih g.tail_r (Or.inl rfl)
      (Or.inr ⟨rfl, fun x hx => by
        simp only [List.head?_cons, Option.mem_def, Option.some.injEq] at hx; subst hx
        exact (overlaps_true_iff _ _).mpr ⟨by omega, by omega⟩⟩)
      (fun h x hx => h2r h x (List.mem_cons_of_mem _ hx))
      (fun _ x hx => by
        rcases List.mem_cons.mp hx with rfl | hx
        · omega
        · have := hka x hx; have := g.klong x (List.mem_cons_of_mem _ hx); omega)
      (by omega) hnk
    constructor
    · rw [List.map_cons, ih1]
      congr 1
      have hm : matchedBy δ (k :: ks) r = false := matchedBy_false hnoeq
      have ho : overlaps ir r = true := (overlaps_true_iff _ _).mpr ⟨by omega, by omega⟩
      simp [specR, hm, ho]
    · rw [ih2]
      symm
      exact map_specK_cons hnoeq
  | case5 r rs ri rv k ks ki kv cur heq hov hlt o ih =>
    simp only [o]
    have hd := g.dpos
    have hkl := g.klong k (by simp)
    have hrl := g.rlong r (by simp)
    have hrin := g.rin r (by simp)
    have hkin := g.kin k (by simp)
    obtain ⟨o1, o2⟩ := (overlaps_true_iff k r).mp hov
    have hra := g.r_after
    have hka := g.k_after
    have hnoeq : ∀ r' ∈ r :: rs, equal_ranges k r' δ = false := by
      intro r' hr'
      rcases List.mem_cons.mp hr' with rfl | hr'
      · simpa using heq
      · have := hra r' hr'
        have := g.rlong r' (List.mem_cons_of_mem _ hr')
        exact eq_false_of _ _ _ (by intro ⟨⟨_, _⟩, ⟨_, _⟩⟩; omega)
    obtain ⟨ih1, ih2⟩ := ih g.tail_k
      (Or.inr ⟨rfl, fun x hx => by
        simp only [List.head?_cons, Option.mem_def, Option.some.injEq] at hx; subst hx
        exact (overlaps_true_iff _ _).mpr ⟨by omega, by omega⟩⟩)
      (Or.inl rfl)
      (fun _ x hx => by
        rcases List.mem_cons.mp hx with rfl | hx
        · omega
        · have := hra x hx; have := g.rlong x (List.mem_cons_of_mem _ hx); omega)
      (fun h x hx => h2k h x (List.mem_cons_of_mem _ hx))
      hnr (by omega)
    constructor
    · rw [ih1]
      symm
      exact map_specR_cons hnoeq
    · rw [List.map_cons, ih2]
      congr 1
      have hm : matchesSome δ (r :: rs) k = false := matchesSome_false hnoeq
      have ho : overlaps rr k = true := (overlaps_true_iff _ _).mpr ⟨by omega, by omega⟩
      simp [specK, hm, ho]
  | case6 r rs ri rv k ks ki kv cur heq hov hl flag o ih =>
    simp only [o, flag]
    have hd := g.dpos
    have hkl := g.klong k (by simp)
    have hrl := g.rlong r (by simp)
    have hrin := g.rin r (by simp)
    have hkin := g.kin k (by simp)
    have hl' : k.2 < r.1 := by simpa [left_of] using hl
    have hra := g.r_after
    have hnoeq : ∀ r' ∈ r :: rs, equal_ranges k r' δ = false := by
      intro r' hr'
      rcases List.mem_cons.mp hr' with rfl | hr'
      · simpa using heq
      · have := hra r' hr'
        have := g.rlong r' (List.mem_cons_of_mem _ hr')
        exact eq_false_of _ _ _ (by intro ⟨⟨_, _⟩, ⟨_, _⟩⟩; omega)
    obtain ⟨ih1, ih2⟩ := ih g.tail_k hrv (Or.inl rfl)
      (fun _ x hx => by
        rcases List.mem_cons.mp hx with rfl | hx
        · omega
        · have := hra x hx; have := g.rlong x (List.mem_cons_of_mem _ hx); omega)
      (fun h x hx => h2k h x (List.mem_cons_of_mem _ hx))
      hnr (by omega)
    constructor
    · rw [ih1]
      symm
      exact map_specR_cons hnoeq
    · rw [List.map_cons, ih2]
      congr 1
      have hm : matchesSome δ (r :: rs) k = false := matchesSome_false hnoeq
      by_cases ho : overlaps rr k = true
      · simp [specK, hm, ho]
      · have ho' : overlaps rr k = false := by simpa using ho
        have hri : ¬ (0 < ri) := by
          intro h
          have := h2k h k (by simp)
          exact ho ((overlaps_true_iff _ _).mpr ⟨by omega, by omega⟩)
        have hkv0 : kv = 0 := by
          rcases hkv with h | ⟨_, h⟩
          · exact h
          · exact absurd (h k (by simp)) ho
        have hri0 : decide (ri > 0) = false := by simpa using hri
        simp [specK, hm, ho', hri0, hkv0]
  | case7 r rs ri rv k ks ki kv cur heq hov hl flag o ih =>
    simp only [o, flag]
    have hd := g.dpos
    have hkl := g.klong k (by simp)
    have hrl := g.rlong r (by simp)
    have hrin := g.rin r (by simp)
    have hkin := g.kin k (by simp)
    have hov' : overlaps k r = false := by simpa using hov
    have hl' : r.2 < k.1 := by
      have : ¬ (k.2 < r.1) := by simpa [left_of] using hl
      rcases (overlaps_false_iff _ _).mp hov' with h | h
      · omega
      · exact h
    have hka := g.k_after
    have hnoeq : ∀ k' ∈ k :: ks, equal_ranges k' r δ = false := by
      intro k' hk'
      rcases List.mem_cons.mp hk' with rfl | hk'
      · simpa using heq
      · have := hka k' hk'
        have := g.klong k' (List.mem_cons_of_mem _ hk')
        exact eq_false_of _ _ _ (by intro ⟨⟨_, _⟩, ⟨_, _⟩⟩; omega)
    obtain ⟨ih1, ih2⟩ := ih g.tail_r (Or.inl rfl) hkv
      (fun h x hx => h2r h x (List.mem_cons_of_mem _ hx))
      (fun _ x hx => by
        rcases List.mem_cons.mp hx with rfl | hx
        · omega
        · have := hka x hx; have := g.klong x (List.mem_cons_of_mem _ hx); omega)
      (by omega) hnk
    constructor
    · rw [List.map_cons, ih1]
      congr 1
      have hm : matchedBy δ (k :: ks) r = false := matchedBy_false hnoeq
      by_cases ho : overlaps ir r = true
      · simp [specR, hm, ho]
      · have ho' : overlaps ir r = false := by simpa using ho
        have hki : ¬ (0 < ki) := by
          intro h
          have := h2r h r (by simp)
          exact ho ((overlaps_true_iff _ _).mpr ⟨by omega, by omega⟩)
        have hrv0 : rv = 0 := by
          rcases hrv with h | ⟨_, h⟩
          · exact h
          · exact absurd (h r (by simp)) ho
        have hki0 : decide (ki > 0) = false := by simpa using hki
        simp [specR, hm, ho', hki0, hrv0]
    · rw [ih2]
      symm
      exact map_specK_cons hnoeq

end IsoVerif.Lemmas.C01Cmp
