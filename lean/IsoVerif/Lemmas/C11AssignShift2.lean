/-
C11 helper lemmas — translation of the assignment model, part 2: read profiles, candidate selection, nucleotide
scores, match categorisation, exon elongation events.
-/
import IsoVerif.Lemmas.C11AssignShift

namespace IsoVerif.Lemmas.C11.AssignShift
open IsoVerif.Gen IsoVerif.Model IsoVerif.Model.C01 IsoVerif.Model.C11

/-! ## read profiles -/

theorem constructProfiles_shift (k : Int) (g : Gene) (p : Params) (blocks : List Iv) (pa : PolyA)
    (hA : SafePos k pa.extA) (hT : SafePos k pa.extT) :
    constructProfiles (shiftGene k g) p (shiftL k blocks) (shiftPolyA k pa)
      = (constructProfiles g p blocks pa).map (shiftReadProf k) := by
  simp only [constructProfiles, regionOf_shift]
  cases regionOf blocks with
  | none => rfl
  | some reg =>
    have e1 := IsoVerif.Props.C11Profiles.shift_equivariant_constructOverlapping k
      (fun a b => equal_ranges a b p.delta) (fun a b => overlaps_at_least a b p.minimal_intron_absence_overlap)
      (IsoVerif.Props.C11Profiles.shiftInv_equal_ranges k p.delta)
      (IsoVerif.Props.C11Profiles.shiftInv_overlaps_at_least k p.minimal_intron_absence_overlap)
      g.introns (g.start, g.stop) p.delta (junctionsFromBlocks blocks) reg pa.extA pa.extT hA hT
    have e2 := IsoVerif.Props.C11Profiles.shift_equivariant_constructNonOverlapping k
      (fun a b => overlaps_at_least_when_overlap a b p.minimal_exon_overlap)
      (IsoVerif.Props.C11Profiles.shiftInv_overlaps_at_least_when_overlap k p.minimal_exon_overlap)
      g.splitExons p.delta blocks pa.extA pa.extT hA hT
    simp only [Option.map_some, shiftGene, shiftPolyA, junctionsFromBlocks_shift]
    have e1' : constructOverlapping (shiftL k g.introns) (g.start + k, g.stop + k)
        (fun a b => equal_ranges a b p.delta) (fun a b => overlaps_at_least a b p.minimal_intron_absence_overlap)
        p.delta (shiftL k (junctionsFromBlocks blocks)) (shiftIv k reg) (shiftPos k pa.extA) (shiftPos k pa.extT)
        = constructOverlapping g.introns (g.start, g.stop)
        (fun a b => equal_ranges a b p.delta) (fun a b => overlaps_at_least a b p.minimal_intron_absence_overlap)
        p.delta (junctionsFromBlocks blocks) reg pa.extA pa.extT := e1
    rw [e1', e2]
    cases constructNonOverlapping g.splitExons (fun a b => overlaps_at_least_when_overlap a b p.minimal_exon_overlap)
      p.delta blocks pa.extA pa.extT with
    | none => rfl
    | some sp => rfl

/-! ## candidate selection -/

theorem contains_approx_shift (k : Int) (a b : Iv) (d : Int) :
    contains_approx (shiftIv k a) (shiftIv k b) d = contains_approx a b d := by
  simp only [contains_approx, shiftIv]; grind

theorem contains_shift (k : Int) (a b : Iv) : contains (shiftIv k a) (shiftIv k b) = contains a b := by
  simp only [contains, shiftIv]; grind

theorem findContaining_shift (k : Int) (p : Params) (rp : ReadProf) (hint : List IsoInfo) :
    findContaining p (shiftReadProf k rp) (hint.map (shiftIsoInfo k))
      = (findContaining p rp hint).map (shiftIsoInfo k) := by
  simp only [findContaining, List.filter_map]
  congr 1
  apply List.filter_congr
  intro I _
  simp only [Function.comp, shiftIsoInfo, shiftReadProf, contains_approx_shift]

theorem findOverlapping_shift (k : Int) (rp : ReadProf) (hint : List IsoInfo) :
    findOverlapping (shiftReadProf k rp) (hint.map (shiftIsoInfo k))
      = (findOverlapping rp hint).map (List.map (shiftIsoInfo k)) := by
  simp only [findOverlapping, filterOpt_map]
  rfl

theorem findMatchingIntron_shift (k : Int) (rp : ReadProf) (hint : List IsoInfo) :
    findMatchingIntron (shiftReadProf k rp) (hint.map (shiftIsoInfo k))
      = (findMatchingIntron rp hint).map (List.map (shiftIsoInfo k)) := by
  simp only [findMatchingIntron, filterOpt_map]
  rfl

theorem findMatchingSplit_shift (k : Int) (rp : ReadProf) (hint : List IsoInfo) :
    findMatchingSplit (shiftReadProf k rp) (hint.map (shiftIsoInfo k))
      = (findMatchingSplit rp hint).map (List.map (shiftIsoInfo k)) := by
  simp only [findMatchingSplit, filterOpt_map]
  rfl

/-! ## nucleotide scores -/

theorem extendedRegion_shift (k : Int) (p : Params) (I : IsoInfo) :
    extendedRegion p (shiftIsoInfo k I) = (extendedRegion p I).map (shiftIv k) := by
  simp only [extendedRegion, shiftIsoInfo, regionOf_shift, Option.map_map]
  congr 1
  funext r
  simp only [Function.comp, shiftIv]
  ext <;> simp <;> omega

theorem jaccardScore_shift (k : Int) (p : Params) (rp : ReadProf) (I : IsoInfo) :
    jaccardScore p (shiftReadProf k rp) (shiftIsoInfo k I) = jaccardScore p rp I := by
  simp only [jaccardScore, extendedRegion_shift]
  have e : jaccardSweep (shiftReadProf k rp).blocks (shiftIsoInfo k I).exons = jaccardSweep rp.blocks I.exons :=
    IsoVerif.Props.C11Lists.shift_equivariant_jaccardSweep k rp.blocks I.exons
  rw [e]
  cases extendedRegion p I with
  | none => cases jaccardSweep rp.blocks I.exons <;> rfl
  | some ext =>
    have e2 : extraExonPercentage (shiftIv k ext) (shiftReadProf k rp).blocks = extraExonPercentage ext rp.blocks :=
      IsoVerif.Props.C11Lists.shift_equivariant_extraExonPercentage k ext rp.blocks
    cases jaccardSweep rp.blocks I.exons with
    | none => rfl
    | some js => simp only [Option.map_some, e2]

theorem coverageScore_shift (k : Int) (p : Params) (rp : ReadProf) (I : IsoInfo) :
    coverageScore p (shiftReadProf k rp) (shiftIsoInfo k I) = coverageScore p rp I := by
  simp only [coverageScore, extendedRegion_shift]
  have e : readCoverageFraction (shiftReadProf k rp).blocks (shiftIsoInfo k I).exons
      = readCoverageFraction rp.blocks I.exons :=
    IsoVerif.Props.C11Lists.shift_equivariant_readCoverageFraction k rp.blocks I.exons
  rw [e]
  cases extendedRegion p I with
  | none => cases readCoverageFraction rp.blocks I.exons <;> rfl
  | some ext =>
    have e2 : extraExonPercentage (shiftIv k ext) (shiftReadProf k rp).blocks = extraExonPercentage ext rp.blocks :=
      IsoVerif.Props.C11Lists.shift_equivariant_extraExonPercentage k ext rp.blocks
    cases readCoverageFraction rp.blocks I.exons with
    | none => rfl
    | some js => simp only [Option.map_some, e2]

/-- `resolve_by_nucleotide_score` commutes with any relabelling of the isoforms that keeps the scores -/
theorem resolveByScore_map (sh : IsoInfo → IsoInfo) (score score' : IsoInfo → Option Rat)
    (hs : ∀ I, score' (sh I) = score I) (factor : Option Rat) (matched : List IsoInfo) :
    resolveByScore score' factor (matched.map sh) = (resolveByScore score factor matched).map (List.map sh) := by
  unfold resolveByScore
  have e : mapOpt (fun I => (score' I).map (fun s => (I, s))) (matched.map sh)
      = (mapOpt (fun I => (score I).map (fun s => (I, s))) matched).map
          (List.map (fun (x : IsoInfo × Rat) => (sh x.1, x.2))) := by
    rw [mapOpt_map, ← mapOpt_comp_map]
    apply mapOpt_congr
    intro I _
    rw [hs I]
    cases score I <;> rfl
  rw [e]
  cases matched with
  | nil => rfl
  | cons a t =>
    simp only [List.map_cons, List.isEmpty_cons]
    cases mapOpt (fun I => (score I).map (fun s => (I, s))) (a :: t) with
    | none => rfl
    | some scores =>
      simp only [Option.map_some, List.map_map]
      have e2 : (List.map ((fun x : IsoInfo × Rat => x.2) ∘ fun x : IsoInfo × Rat => (sh x.1, x.2)) scores)
          = List.map (fun x => x.2) scores := by
        apply List.map_congr_left; intro x _; rfl
      rw [e2]
      cases maxRat (List.map (fun x => x.2) scores) with
      | none => rfl
      | some best =>
        cases factor with
        | none =>
          simp only [Option.map_some, List.filter_map, List.map_map, Bool.false_eq_true, if_false]
          rfl
        | some f =>
          simp only [Option.map_some, List.filter_map, List.map_map, Bool.false_eq_true, if_false]
          rfl

theorem resolveByScore_jaccard_shift (k : Int) (p : Params) (rp : ReadProf) (factor : Option Rat) (matched : List IsoInfo) :
    resolveByScore (jaccardScore p (shiftReadProf k rp)) factor (matched.map (shiftIsoInfo k))
      = (resolveByScore (jaccardScore p rp) factor matched).map (List.map (shiftIsoInfo k)) :=
  resolveByScore_map _ _ _ (jaccardScore_shift k p rp) factor matched

theorem resolveByScore_coverage_shift (k : Int) (p : Params) (rp : ReadProf) (factor : Option Rat) (matched : List IsoInfo) :
    resolveByScore (coverageScore p (shiftReadProf k rp)) factor (matched.map (shiftIsoInfo k))
      = (resolveByScore (coverageScore p rp) factor matched).map (List.map (shiftIsoInfo k)) :=
  resolveByScore_map _ _ _ (coverageScore_shift k p rp) factor matched

/-! ## match categorisation -/

theorem isFsm_shift (k : Int) (rp : ReadProf) (I : IsoInfo) :
    isFsm (shiftReadProf k rp) (shiftIsoInfo k I) = isFsm rp I := by
  simp only [isFsm, shiftIsoInfo, shiftReadProf, regionOf_shift, Option.map_map]
  congr 1
  funext r
  simp only [Function.comp, contains_shift]

theorem detectIsmSubtype_shift (k : Int) (rp : ReadProf) (I : IsoInfo) :
    detectIsmSubtype (shiftReadProf k rp) (shiftIsoInfo k I) = detectIsmSubtype rp I := by
  simp only [detectIsmSubtype, shiftIsoInfo, shiftReadProf, regionOf_shift, Option.map_map]
  congr 1
  funext r
  have h1 : (r.1 + k < rp.region.1 + k) ↔ (r.1 < rp.region.1) := by omega
  have h2 : (r.2 + k > rp.region.2 + k) ↔ (r.2 > rp.region.2) := by omega
  simp only [Function.comp, shiftIv_fst, shiftIv_snd, h1, h2]

theorem categorizeSplice_shift (k : Int) (rp : ReadProf) (I : IsoInfo) :
    categorizeSplice (shiftReadProf k rp) (shiftIsoInfo k I) = categorizeSplice rp I := by
  simp only [categorizeSplice, isFsm_shift, detectIsmSubtype_shift]
  simp only [shiftIsoInfo, shiftReadProf, shiftL_length]

theorem spliceMatch_shift (k : Int) (rp : ReadProf) (I : IsoInfo) :
    spliceMatch (shiftReadProf k rp) (shiftIsoInfo k I) = spliceMatch rp I := by
  simp only [spliceMatch, categorizeSplice_shift]
  rfl

theorem unsplicedMatch_shift (k : Int) (I : IsoInfo) : unsplicedMatch (shiftIsoInfo k I) = unsplicedMatch I := by
  simp only [unsplicedMatch, shiftIsoInfo, shiftL_length]

/-! ## `categorize_exon_elongation_subtype` -/

/-- the exon measured by `categorize_exon_elongation_subtype` (outermost, or the next one behind a short fake terminal
    exon) moves with the locus -/
theorem measuredExon_shift (k : Int) (p : Params) (o : Iv) (nx : Option Iv) (s : Iv) :
    measuredExon p (shiftIv k o) (nx.map (shiftIv k)) (shiftIv k s) = shiftIv k (measuredExon p o nx s) := by
  have hl : interval_len (shiftIv k o) = interval_len o := by
    simp only [interval_len, shiftIv]; omega
  cases nx with
  | none => rfl
  | some n =>
    simp only [measuredExon, Option.map_some, overlaps_shift, hl]
    split <;> rfl

theorem elongationEvents_shift (k : Int) (g : Gene) (p : Params) (rp : ReadProf) (I : IsoInfo) :
    elongationEvents (shiftGene k g) p (shiftReadProf k rp) (shiftIsoInfo k I) = elongationEvents g p rp I := by
  simp only [elongationEvents, shiftGene, shiftReadProf, shiftIsoInfo, shiftL_length, shiftL_head?, shiftL_getLast?,
    pyGet?_shiftL, ← shiftL_reverse, shiftL_getElem?]
  split
  · rfl
  · split
    · rfl
    · split
      · rfl
      · cases commonLast I.splitProf rp.split.gene
            (min (I.splitRange.2 - 1) (rp.split.range.2 - 1) + 1).toNat (min (I.splitRange.2 - 1) (rp.split.range.2 - 1)) with
        | none => rfl
        | some cl =>
          simp only
          cases rp.blocks.head? <;> cases rp.blocks.getLast? <;>
            cases pyGet? g.splitExons (commonFirst (List.drop (max I.splitRange.1 rp.split.range.1).toNat I.splitProf)
              (List.drop (max I.splitRange.1 rp.split.range.1).toNat rp.split.gene) (max I.splitRange.1 rp.split.range.1)) <;>
            cases pyGet? g.splitExons cl <;> simp only [Option.map_none, Option.map_some]
          rename_i fr lr sf sl
          simp only [measuredExon_shift]
          generalize measuredExon p fr rp.blocks[1]? sf = fr'
          generalize measuredExon p lr rp.blocks.reverse[1]? sl = lr'
          have a1 : sf.1 + k - (fr'.1 + k) = sf.1 - fr'.1 := by omega
          have a2 : lr'.2 + k - (sl.2 + k) = lr'.2 - sl.2 := by omega
          simp only [overlaps_shift, shiftIv_fst, shiftIv_snd, a1, a2]
          rfl

end IsoVerif.Lemmas.C11.AssignShift
