/-
C01, forward clause, SPLIT-EXON half: invariants of `NonOverlappingFeaturesProfileConstructor.construct_profile`
(Model/Profiles.lean `noSweep`) and completeness of `FeatureProfiles.set_profiles` (`markLoop`) for the `contains`
comparator used for the split-exon profiles of the isoforms.  Core Lean only.
-/
import IsoVerif.Lemmas.C01Forward
import IsoVerif.Lemmas.Profiles
import IsoVerif.Lemmas.Lists

namespace IsoVerif.Lemmas.C01
open IsoVerif.Gen IsoVerif.Model IsoVerif.Lemmas

/-! ### sorted, disjoint lists by index -/

theorem drop_of_get {α} {l : List α} {i : Nat} {a : α} (h : l[i]? = some a) : l.drop i = a :: l.drop (i + 1) := by
  obtain ⟨hi, e⟩ := List.getElem?_eq_some_iff.mp h
  rw [← e]; exact List.drop_eq_getElem_cons hi

theorem SD_get_lt {l : List Iv} (hsd : SD l) (hw : WFl l) {a b : Nat} {x y : Iv} (ha : l[a]? = some x)
    (hb : l[b]? = some y) (hab : a < b) : x.2 < y.1 := by
  have hd := drop_of_get ha
  have hmem : y ∈ l.drop (a + 1) := mem_drop_of_lt hd hb hab
  exact SD_all_right (by rw [← hd]; exact SD_drop l a hsd) (by rw [← hd]; exact WFl_drop l a hw) y hmem

theorem SD_get_le {l : List Iv} (hsd : SD l) (hw : WFl l) {a b : Nat} {x y : Iv} (ha : l[a]? = some x)
    (hb : l[b]? = some y) (hab : a ≤ b) : x.1 ≤ y.1 ∧ x.2 ≤ y.2 := by
  rcases Nat.lt_or_eq_of_le hab with h | h
  · have := SD_get_lt hsd hw ha hb h
    have := hw x (List.mem_of_getElem? ha)
    have := hw y (List.mem_of_getElem? hb)
    omega
  · subst h; rw [ha] at hb; cases hb; omega

/-! ### `noSweep` -/

theorem noSweep_gene_length (cmp : Iv → Iv → Bool) (ks : List Iv) (gi : Nat) (rs : List Iv) (ri : Nat) (st : NoState) :
    (noSweep cmp ks gi rs ri st).gene.length = st.gene.length := by
  fun_induction noSweep cmp ks gi rs ri st with
  | case1 => rfl
  | case2 => rfl
  | case3 k ks gi r rs ri st hlt st' ih => rw [ih]; simp only [st']; split <;> simp
  | case4 k ks gi r rs ri st h1 hlt st' ih => rw [ih]; simp only [st']; split <;> simp
  | case5 k ks gi r rs ri st h1 h2 st' hlt ih => rw [ih]; simp only [st']; split <;> simp
  | case6 k ks gi r rs ri st h1 h2 st' hlt ih => rw [ih]; simp only [st']; split <;> simp

theorem noSweep_read_length (cmp : Iv → Iv → Bool) (ks : List Iv) (gi : Nat) (rs : List Iv) (ri : Nat) (st : NoState) :
    (noSweep cmp ks gi rs ri st).read.length = st.read.length := by
  fun_induction noSweep cmp ks gi rs ri st with
  | case1 => rfl
  | case2 => rfl
  | case3 k ks gi r rs ri st hlt st' ih => rw [ih]; simp only [st']; split <;> simp
  | case4 k ks gi r rs ri st h1 hlt st' ih => rw [ih]; simp only [st']; split <;> simp
  | case5 k ks gi r rs ri st h1 h2 st' hlt ih => rw [ih]; simp only [st']; split <;> simp
  | case6 k ks gi r rs ri st h1 h2 st' hlt ih => rw [ih]; simp only [st']; split <;> simp

/-- a mark 1 (gene or read side) is never overwritten -/
theorem noSweep_persist (cmp : Iv → Iv → Bool) (ks : List Iv) (gi : Nat) (rs : List Iv) (ri : Nat) (st : NoState) :
    (∀ i : Nat, st.gene[i]? = some 1 → (noSweep cmp ks gi rs ri st).gene[i]? = some 1) ∧
    (∀ j : Nat, st.read[j]? = some 1 → (noSweep cmp ks gi rs ri st).read[j]? = some 1) := by
  fun_induction noSweep cmp ks gi rs ri st with
  | case1 => exact ⟨fun _ h => h, fun _ h => h⟩
  | case2 => exact ⟨fun _ h => h, fun _ h => h⟩
  | case3 k ks gi r rs ri st hlt st' ih =>
    refine ⟨fun i h => ih.1 i ?_, fun j h => ih.2 j ?_⟩
    · simp only [st']; split <;> exact h
    · simp only [st']
      split
      · rename_i hc
        by_cases e : ri = j
        · subst e
          exfalso
          rw [List.getD_eq_getElem?_getD, h] at hc
          simp at hc
        · show (st.read.set ri (-1))[j]? = some 1
          rw [List.getElem?_set_ne e]; exact h
      · exact h
  | case4 k ks gi r rs ri st h1 hlt st' ih =>
    refine ⟨fun i h => ih.1 i ?_, fun j h => ih.2 j ?_⟩
    · simp only [st']
      split
      · rename_i hc
        by_cases e : gi = i
        · subst e
          exfalso
          rw [List.getD_eq_getElem?_getD, h] at hc
          simp at hc
        · show (st.gene.set gi (-1))[i]? = some 1
          rw [List.getElem?_set_ne e]; exact h
      · exact h
    · simp only [st']; split <;> exact h
  | case5 k ks gi r rs ri st h1 h2 st' hlt ih =>
    refine ⟨fun i h => ih.1 i ?_, fun j h => ih.2 j ?_⟩
    · simp only [st']
      split
      · by_cases e : gi = i
        · subst e; exact List.getElem?_set_self (getElem?_lt h)
        · show (st.gene.set gi 1)[i]? = some 1
          rw [List.getElem?_set_ne e]; exact h
      · exact h
    · simp only [st']
      split
      · by_cases e : ri = j
        · subst e; exact List.getElem?_set_self (getElem?_lt h)
        · show (st.read.set ri 1)[j]? = some 1
          rw [List.getElem?_set_ne e]; exact h
      · exact h
  | case6 k ks gi r rs ri st h1 h2 st' hlt ih =>
    refine ⟨fun i h => ih.1 i ?_, fun j h => ih.2 j ?_⟩
    · simp only [st']
      split
      · by_cases e : gi = i
        · subst e; exact List.getElem?_set_self (getElem?_lt h)
        · show (st.gene.set gi 1)[i]? = some 1
          rw [List.getElem?_set_ne e]; exact h
      · exact h
    · simp only [st']
      split
      · by_cases e : ri = j
        · subst e; exact List.getElem?_set_self (getElem?_lt h)
        · show (st.read.set ri 1)[j]? = some 1
          rw [List.getElem?_set_ne e]; exact h
      · exact h

/-- COMPLETENESS of the sweep over two sorted, disjoint lists: every overlapping pair is visited, so a pair that also
    satisfies the comparator gets both of its members marked 1 -/
theorem noSweep_marks (cmp : Iv → Iv → Bool) (K R : List Iv) (hK : SD K) (hKw : WFl K) (hR : SD R) (hRw : WFl R)
    (i j : Nat) (k r : Iv) (hi : K[i]? = some k) (hj : R[j]? = some r) (hov : overlaps r k = true)
    (hc : cmp r k = true)
    (ks : List Iv) (gi : Nat) (rs : List Iv) (ri : Nat) (st : NoState)
    (hKd : K.drop gi = ks) (hRd : R.drop ri = rs) (hgl : st.gene.length = K.length) (hrl : st.read.length = R.length)
    (hgi : gi ≤ i) (hri : ri ≤ j) :
    (noSweep cmp ks gi rs ri st).gene[i]? = some 1 ∧ (noSweep cmp ks gi rs ri st).read[j]? = some 1 := by
  have hov' : ¬ r.2 < k.1 ∧ ¬ k.2 < r.1 := by
    simp [overlaps] at hov; omega
  fun_induction noSweep cmp ks gi rs ri st with
  | case1 gi rs ri st =>
    exfalso
    have : K.length ≤ gi := by
      have := congrArg List.length hKd; simp at this; omega
    have := getElem?_lt hi; omega
  | case2 k0 ks gi ri st =>
    exfalso
    have : R.length ≤ ri := by
      have := congrArg List.length hRd; simp at this; omega
    have := getElem?_lt hj; omega
  | case3 k0 ks gi r0 rs ri st hlt st' ih =>
    obtain ⟨hr0, hRd'⟩ := drop_cons_get hRd
    obtain ⟨hk0, _⟩ := drop_cons_get hKd
    have hne : ri ≠ j := by
      intro e; subst e
      rw [hj] at hr0; cases hr0
      have := (SD_get_le hK hKw hk0 hi hgi).1
      omega
    apply ih hKd hRd' _ _ hgi (by omega)
    · simp only [st']; split <;> simp [hgl]
    · simp only [st']; split <;> simp [hrl]
  | case4 k0 ks gi r0 rs ri st h1 hlt st' ih =>
    obtain ⟨hr0, _⟩ := drop_cons_get hRd
    obtain ⟨hk0, hKd'⟩ := drop_cons_get hKd
    have hne : gi ≠ i := by
      intro e; subst e
      rw [hi] at hk0; cases hk0
      have := (SD_get_le hR hRw hr0 hj hri).1
      omega
    apply ih hKd' hRd _ _ (by omega) hri
    · simp only [st']; split <;> simp [hgl]
    · simp only [st']; split <;> simp [hrl]
  | case5 k0 ks gi r0 rs ri st h1 h2 st' hlt ih =>
    obtain ⟨hr0, hRd'⟩ := drop_cons_get hRd
    obtain ⟨hk0, _⟩ := drop_cons_get hKd
    have hgl' : st'.gene.length = K.length := by simp only [st']; split <;> simp [hgl]
    have hrl' : st'.read.length = R.length := by simp only [st']; split <;> simp [hrl]
    by_cases e : ri = j
    · subst e
      rw [hj] at hr0; cases hr0
      by_cases e2 : gi = i
      · subst e2
        rw [hi] at hk0; cases hk0
        have hp := noSweep_persist cmp (k :: ks) gi rs (ri + 1) st'
        have hgil : gi < st.gene.length := by rw [hgl]; exact getElem?_lt hi
        have hril : ri < st.read.length := by rw [hrl]; exact getElem?_lt hj
        refine ⟨hp.1 gi ?_, hp.2 ri ?_⟩
        · simp only [st', hc]; exact List.getElem?_set_self hgil
        · simp only [st', hc]; exact List.getElem?_set_self hril
      · exfalso
        have := SD_get_lt hK hKw hk0 hi (by omega)
        omega
    · exact ih hKd hRd' hgl' hrl' hgi (by omega)
  | case6 k0 ks gi r0 rs ri st h1 h2 st' hlt ih =>
    obtain ⟨hr0, _⟩ := drop_cons_get hRd
    obtain ⟨hk0, hKd'⟩ := drop_cons_get hKd
    have hgl' : st'.gene.length = K.length := by simp only [st']; split <;> simp [hgl]
    have hrl' : st'.read.length = R.length := by simp only [st']; split <;> simp [hrl]
    by_cases e2 : gi = i
    · subst e2
      rw [hi] at hk0; cases hk0
      by_cases e : ri = j
      · subst e
        rw [hj] at hr0; cases hr0
        have hp := noSweep_persist cmp ks (gi + 1) (r :: rs) ri st'
        have hgil : gi < st.gene.length := by rw [hgl]; exact getElem?_lt hi
        have hril : ri < st.read.length := by rw [hrl]; exact getElem?_lt hj
        refine ⟨hp.1 gi ?_, hp.2 ri ?_⟩
        · simp only [st', hc]; exact List.getElem?_set_self hgil
        · simp only [st', hc]; exact List.getElem?_set_self hril
      · exfalso
        have := SD_get_lt hR hRw hr0 hj (by omega)
        omega
    · exact ih hKd' hRd hgl' hrl' (by omega) hri

/-- SOUNDNESS invariant of the sweep: what a 1 / a −1 of the gene profile means -/
structure NoInv (cmp : Iv → Iv → Bool) (K R : List Iv) (st : NoState) : Prop where
  glen : st.gene.length = K.length
  gene1 : ∀ i : Nat, st.gene[i]? = some 1 →
    ∃ (k : Iv) (j : Nat) (r : Iv), K[i]? = some k ∧ R[j]? = some r ∧ overlaps r k = true ∧ cmp r k = true
  geneN : ∀ i : Nat, st.gene[i]? = some (-1) →
    ∃ (k : Iv) (j : Nat) (r r' : Iv), K[i]? = some k ∧ R[j]? = some r ∧ R[j + 1]? = some r' ∧ r.2 < k.2 ∧ k.2 < r'.1
  dom : ∀ v ∈ st.gene, v = 0 ∨ v = 1 ∨ v = -1

theorem noInv_set_one {cmp K R} {st : NoState} (h : NoInv cmp K R st) (gi ri : Nat) (k r : Iv)
    (hk : K[gi]? = some k) (hr : R[ri]? = some r) (hov : overlaps r k = true) (hc : cmp r k = true) :
    NoInv cmp K R { gene := st.gene.set gi 1, read := st.read.set ri 1 } := by
  refine ⟨by simp [h.glen], ?_, ?_, ?_⟩
  · intro i hi
    by_cases e : gi = i
    · subst e; exact ⟨k, ri, r, hk, hr, hov, hc⟩
    · have hi' : (st.gene.set gi 1)[i]? = some 1 := hi
      rw [List.getElem?_set_ne e] at hi'; exact h.gene1 i hi'
  · intro i hi
    have hi' : (st.gene.set gi 1)[i]? = some (-1) := hi
    by_cases e : gi = i
    · subst e
      rw [List.getElem?_set] at hi'
      simp at hi'
    · rw [List.getElem?_set_ne e] at hi'; exact h.geneN i hi'
  · intro v hv
    rcases List.mem_or_eq_of_mem_set hv with h1 | h1
    · exact h.dom v h1
    · right; left; exact h1

theorem noSweep_inv (cmp : Iv → Iv → Bool) (K R : List Iv) (hK : SD K) (hKw : WFl K)
    (ks : List Iv) (gi : Nat) (rs : List Iv) (ri : Nat) (st : NoState)
    (hKd : K.drop gi = ks) (hRd : R.drop ri = rs)
    (hside : ri > 0 → ∃ r', R[ri - 1]? = some r' ∧ ∀ k' ∈ ks, r'.2 < k'.2)
    (h : NoInv cmp K R st) : NoInv cmp K R (noSweep cmp ks gi rs ri st) := by
  fun_induction noSweep cmp ks gi rs ri st with
  | case1 => exact h
  | case2 => exact h
  | case3 k0 ks gi r0 rs ri st hlt st' ih =>
    obtain ⟨hr0, hRd'⟩ := drop_cons_get hRd
    apply ih hKd hRd'
    · intro _
      refine ⟨r0, by simpa using hr0, ?_⟩
      intro k' hk'
      have hsd : SD (k0 :: ks) := by rw [← hKd]; exact SD_drop K gi hK
      have hwf : WFl (k0 :: ks) := by rw [← hKd]; exact WFl_drop K gi hKw
      have := IsoVerif.Lemmas.SD_head_le hsd hwf k' hk'
      have := hwf k' hk'
      omega
    · simp only [st']
      split
      · exact ⟨h.glen, h.gene1, h.geneN, h.dom⟩
      · exact h
  | case4 k0 ks gi r0 rs ri st h1 hlt st' ih =>
    obtain ⟨hr0, _⟩ := drop_cons_get hRd
    obtain ⟨hk0, hKd'⟩ := drop_cons_get hKd
    apply ih hKd' hRd
    · intro hpos
      obtain ⟨r', hr', hall⟩ := hside hpos
      exact ⟨r', hr', fun k' hk' => hall k' (List.mem_cons_of_mem _ hk')⟩
    · simp only [st']
      split
      · rename_i hc
        simp only [Bool.and_eq_true, decide_eq_true_eq] at hc
        obtain ⟨r', hr', hall⟩ := hside hc.1
        refine ⟨by simp [h.glen], ?_, ?_, ?_⟩
        · intro i hi
          have hi' : (st.gene.set gi (-1))[i]? = some 1 := hi
          by_cases e : gi = i
          · subst e
            rw [List.getElem?_set] at hi'
            simp at hi'
          · rw [List.getElem?_set_ne e] at hi'; exact h.gene1 i hi'
        · intro i hi
          have hi' : (st.gene.set gi (-1))[i]? = some (-1) := hi
          by_cases e : gi = i
          · subst e
            refine ⟨k0, ri - 1, r', r0, hk0, hr', ?_, hall k0 (by simp), hlt⟩
            have e2 : ri - 1 + 1 = ri := by omega
            rw [e2]; exact hr0
          · rw [List.getElem?_set_ne e] at hi'; exact h.geneN i hi'
        · intro v hv
          rcases List.mem_or_eq_of_mem_set hv with h1 | h1
          · exact h.dom v h1
          · right; right; exact h1
      · exact h
  | case5 k0 ks gi r0 rs ri st h1 h2 st' hlt ih =>
    obtain ⟨hr0, hRd'⟩ := drop_cons_get hRd
    obtain ⟨hk0, _⟩ := drop_cons_get hKd
    apply ih hKd hRd'
    · intro _
      refine ⟨r0, by simpa using hr0, ?_⟩
      intro k' hk'
      have hsd : SD (k0 :: ks) := by rw [← hKd]; exact SD_drop K gi hK
      have hwf : WFl (k0 :: ks) := by rw [← hKd]; exact WFl_drop K gi hKw
      rcases List.mem_cons.mp hk' with e | e
      · subst e; exact hlt
      · have := SD_all_right hsd hwf k' e
        have := hwf k' hk'
        omega
    · simp only [st']
      split
      · rename_i hc
        exact noInv_set_one h gi ri k0 r0 hk0 hr0 (by simp [overlaps]; omega) hc
      · exact h
  | case6 k0 ks gi r0 rs ri st h1 h2 st' hlt ih =>
    obtain ⟨hr0, _⟩ := drop_cons_get hRd
    obtain ⟨hk0, hKd'⟩ := drop_cons_get hKd
    apply ih hKd' hRd
    · intro hpos
      obtain ⟨r', hr', hall⟩ := hside hpos
      exact ⟨r', hr', fun k' hk' => hall k' (List.mem_cons_of_mem _ hk')⟩
    · simp only [st']
      split
      · rename_i hc
        exact noInv_set_one h gi ri k0 r0 hk0 hr0 (by simp [overlaps]; omega) hc
      · exact h

theorem noSweep_init_inv (cmp : Iv → Iv → Bool) (K R : List Iv) :
    NoInv cmp K R { gene := K.map (fun _ => 0), read := R.map (fun _ => 0) } := by
  refine ⟨by simp, ?_, ?_, ?_⟩
  · intro i hi
    simp only [List.getElem?_map] at hi
    cases hk : K[i]? <;> simp [hk] at hi
  · intro i hi
    simp only [List.getElem?_map] at hi
    cases hk : K[i]? <;> simp [hk] at hi
  · intro v hv
    simp only [List.mem_map] at hv
    obtain ⟨_, _, e⟩ := hv
    left; exact e.symm

/-! ### `markLoop` with the `contains` comparator (split-exon profiles of the isoforms) -/

/-- completeness: an atom contained in one of the (remaining) transcript exons is marked, provided every remaining
    exon still has an atom ahead (generalised over the `inMatch` flag) -/
theorem markLoop_complete_contains (tf ks : List Iv) (m : Bool)
    (hs : SD ks) (hsw : WFl ks) (ht : SD tf) (htw : WFl tf)
    (hB : ∀ g ∈ tf, (∃ k ∈ ks, contains g k = true) ∨ (m = true ∧ tf.head? = some g))
    (hC : m = true → ∃ f kp, tf.head? = some f ∧ contains f kp = true ∧ kp.1 ≤ kp.2 ∧ ∀ r ∈ ks, kp.2 < r.1)
    (i : Nat) (k : Iv) (hk : ks[i]? = some k) (f : Iv) (hf : f ∈ tf) (hin : contains f k = true) :
    (markLoop (fun a b => contains a b) tf ks m)[i]? = some true := by
  fun_induction markLoop (fun a b => contains a b) tf ks m generalizing i f with
  | case1 feats m => simp at hf
  | case2 f0 tf m => simp at hk
  | case3 f0 tf k0 ks m hc ih =>
    cases i with
    | zero => simp
    | succ i =>
      simp at hk ⊢
      have hk0w : k0.1 ≤ k0.2 := hsw k0 (by simp)
      have hc' : f0.1 ≤ k0.1 ∧ k0.2 ≤ f0.2 := by
        simp [contains] at hc; omega
      apply ih (SD_tail hs) (WFl_tail hsw) ht htw ?_ ?_ i hk f hf hin
      · intro g hg
        rcases List.mem_cons.mp hg with e | e
        · right; simp [e]
        · left
          have hfg : f0.2 < g.1 := SD_all_right ht htw g e
          rcases hB g hg with ⟨k', hk', hck'⟩ | ⟨_, hh⟩
          · rcases List.mem_cons.mp hk' with e' | e'
            · exfalso
              subst e'
              simp [contains] at hck'; omega
            · exact ⟨k', e', hck'⟩
          · exfalso
            simp at hh; subst hh
            have := htw f0 (by simp); omega
      · intro _
        exact ⟨f0, k0, by simp, hc, hk0w, fun r hr => SD_all_right hs hsw r hr⟩
  | case4 f0 tf k0 ks hc ih =>
    obtain ⟨f1, kp, hf1, hkp, hkpw, hall⟩ := hC rfl
    simp at hf1; subst hf1
    have hkp' : f0.1 ≤ kp.1 ∧ kp.2 ≤ f0.2 := by
      simp [contains] at hkp; omega
    have hin' : f0.1 ≤ k.1 ∧ k.2 ≤ f0.2 → False := by
      intro hh
      apply hc
      have hk0 := hall k0 (by simp)
      have hkm : k ∈ k0 :: ks := List.mem_of_getElem? hk
      have hk0w : k0.1 ≤ k0.2 := hsw k0 (by simp)
      simp only [contains, Bool.and_eq_true, decide_eq_true_eq]
      rcases List.mem_cons.mp hkm with e | e
      · subst e; omega
      · have := SD_all_right hs hsw k e
        have := hsw k hkm
        omega
    have hf' : f ∈ tf := by
      rcases List.mem_cons.mp hf with e | e
      · exfalso; subst e
        simp [contains] at hin
        exact hin' (by omega)
      · exact e
    apply ih hs hsw (SD_tail ht) (WFl_tail htw) ?_ (by simp) i hk f hf' hin
    intro g hg
    left
    rcases hB g (List.mem_cons_of_mem _ hg) with hh | ⟨_, hh⟩
    · exact hh
    · exfalso
      simp at hh; subst hh
      have := SD_all_right ht htw f0 hg
      have := htw f0 (by simp); omega
  | case5 f0 tf k0 ks m hc hm ih =>
    have hmf : m = false := by cases m <;> simp_all
    subst hmf
    -- k0 is contained in no remaining exon
    have hk0 : ∀ g ∈ f0 :: tf, contains g k0 = false := by
      intro g hg
      rcases List.mem_cons.mp hg with e | e
      · subst e; simpa using hc
      · have hfg : f0.2 < g.1 := SD_all_right ht htw g e
        rcases hB f0 (by simp) with ⟨k1, hk1, hck1⟩ | ⟨hh, _⟩
        · rcases List.mem_cons.mp hk1 with e' | e'
          · subst e'; exact absurd hck1 (by simpa using hc)
          · have := SD_all_right hs hsw k1 e'
            have := hsw k0 (by simp)
            have := hsw k1 hk1
            simp [contains] at hck1
            simp only [contains, Bool.and_eq_false_iff, decide_eq_false_iff_not]
            omega
        · cases hh
    cases i with
    | zero =>
      simp at hk; subst hk
      rw [hk0 f hf] at hin; cases hin
    | succ i =>
      simp at hk ⊢
      apply ih (SD_tail hs) (WFl_tail hsw) ht htw ?_ (by simp) i hk f hf hin
      intro g hg
      left
      rcases hB g hg with ⟨k', hk', hck'⟩ | ⟨hh, _⟩
      · rcases List.mem_cons.mp hk' with e' | e'
        · subst e'; rw [hk0 g hg] at hck'; cases hck'
        · exact ⟨k', e', hck'⟩
      · cases hh

end IsoVerif.Lemmas.C01
