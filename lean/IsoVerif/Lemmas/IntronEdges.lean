/-
Helper lemmas for C04 (edge relation of the intron graph): every intron-to-intron edge is the image of a read
adjacency under the merges (cluster substitution, `collapse_vertex`) performed so far; `thread_ends` / `thread_starts`
return vertices attached to the intron.  Core Lean only.
-/
import IsoVerif.Model.IntronGraph
import IsoVerif.Lemmas.IntronGraph
import IsoVerif.Lemmas.ModelConstruction

namespace IsoVerif.Lemmas.C04
open IsoVerif.Gen IsoVerif.Model IsoVerif.Model.C04

/-! ### read adjacencies and merge closure -/

/-- `a` is immediately followed by `b` in `l` -/
def AdjIn (l : List Iv) (a b : Iv) : Prop := ∃ pre post, l = pre ++ a :: b :: post

/-- consecutive introns of the corrected alignment of a non-multimapper read -/
def Adj (reads : List Read) (a b : Iv) : Prop := ∃ r ∈ reads, r.multimapper = false ∧ AdjIn r.introns a b

/-- reflexive-transitive closure of a "may be merged into" relation `M` -/
inductive Rep (M : Iv → Iv → Prop) : Iv → Iv → Prop where
  | refl (a : Iv) : Rep M a a
  | tail {a b c : Iv} : Rep M a b → M b c → Rep M a c

theorem Rep.trans {M : Iv → Iv → Prop} {a b c : Iv} (h1 : Rep M a b) (h2 : Rep M b c) : Rep M a c := by
  induction h2 with
  | refl => exact h1
  | tail _ hm ih => exact Rep.tail ih hm

theorem Rep.single {M : Iv → Iv → Prop} {a b : Iv} (h : M a b) : Rep M a b := Rep.tail (Rep.refl a) h

/-- a label that merges preserve is constant along `Rep` -/
theorem Rep.label {M : Iv → Iv → Prop} {β} (w : Iv → β) (hM : ∀ c s, M c s → w c = w s) {a u : Iv} (h : Rep M a u) :
    w a = w u := by
  induction h with
  | refl => rfl
  | tail _ hm ih => rw [ih]; exact hM _ _ hm

/-- with `M = Eq` nothing moves -/
theorem Rep.eq_of_eq {a u : Iv} (h : Rep (fun c s => c = s) a u) : a = u := by
  induction h with
  | refl => rfl
  | tail _ hm ih => rw [ih]; exact hm

/-- both splice sites within `δ` -/
def Near (δ : Int) (a b : Iv) : Prop := iabs (a.1 - b.1) ≤ δ ∧ iabs (a.2 - b.2) ≤ δ

theorem iabs_sub_comm (x y : Int) : iabs (x - y) = iabs (y - x) := by
  unfold iabs; split <;> split <;> omega

theorem Near.symm {δ : Int} {a b : Iv} (h : Near δ a b) : Near δ b a := by
  unfold Near at *
  rw [iabs_sub_comm b.1, iabs_sub_comm b.2]; exact h

theorem Near.eq_of_zero {a b : Iv} (h : Near 0 a b) : a = b := by
  unfold Near iabs at h
  apply Prod.ext <;> (have := h.1; have := h.2; split at * <;> split at * <;> omega)

/-- edge `(u, v)` is the image of a read adjacency `(a, b)`: `a` was merged into `u`, `b` into `v` -/
def Wit (reads : List Read) (M : Iv → Iv → Prop) (u v : Iv) : Prop := ∃ a b, Adj reads a b ∧ Rep M a u ∧ Rep M b v

/-- every pair of the edge list whose second component is an intron vertex satisfies `Q` -/
def PairW (e : List (Iv × Iv)) (Q : Iv → Iv → Prop) : Prop := ∀ p ∈ e, isIntronVertex p.2 = true → Q p.1 p.2

theorem pairW_setAdd {Q : Iv → Iv → Prop} {e : List (Iv × Iv)} (he : PairW e Q) {a b : Iv}
    (hab : isIntronVertex b = true → Q a b) : PairW (setAdd e (a, b)) Q := by
  intro p hp
  rcases mem_setAdd.1 hp with h | h
  · exact he p h
  · subst h; exact hab

theorem pairW_filter {Q : Iv → Iv → Prop} {e : List (Iv × Iv)} (he : PairW e Q) (f : Iv × Iv → Bool) :
    PairW (e.filter f) Q := fun p hp => he p (List.mem_filter.1 hp).1

theorem replaceMember_pairW {Q : Iv → Iv → Prop} {m m' : List (Iv × Iv)} {k c s : Iv} (hm : PairW m Q)
    (hc : isIntronVertex c = true) (hcs : ∀ k, Q k c → Q k s) (h : replaceMember m k c s = some m') : PairW m' Q := by
  unfold replaceMember at h
  split at h
  · rename_i hk
    simp at h; subst h
    exact pairW_setAdd (pairW_filter hm _) (fun _ => hcs k (hm _ hk hc))
  · simp at h

theorem replaceMembers_pairW {Q : Iv → Iv → Prop} (ks : List Iv) {m m' : List (Iv × Iv)} {c s : Iv} (hm : PairW m Q)
    (hc : isIntronVertex c = true) (hcs : ∀ k, Q k c → Q k s) (h : replaceMembers m c s ks = some m') : PairW m' Q := by
  induction ks generalizing m with
  | nil => simp [replaceMembers] at h; subst h; exact hm
  | cons k t ih =>
    simp only [replaceMembers] at h
    split at h
    · simp at h
    · rename_i m1 hm1
      exact ih (replaceMember_pairW hm hc hcs hm1) h

theorem foldl_setAdd_pairW {Q : Iv → Iv → Prop} (l : List Iv) (s : Iv) (m : List (Iv × Iv)) (hm : PairW m Q)
    (hl : ∀ i ∈ l, isIntronVertex i = true → Q s i) : PairW (l.foldl (fun m i => setAdd m (s, i)) m) Q := by
  induction l generalizing m with
  | nil => simpa using hm
  | cons a t ih =>
    simp only [List.foldl_cons]
    exact ih _ (pairW_setAdd hm (hl a (by simp))) (fun i hi => hl i (by simp [hi]))

theorem members_pairW {Q : Iv → Iv → Prop} {e : List (Iv × Iv)} (he : PairW e Q) (c : Iv) :
    ∀ i ∈ (e.filter (fun p => p.1 = c)).map (·.2), isIntronVertex i = true → Q c i := by
  intro i hi hint
  simp only [List.mem_map, List.mem_filter] at hi
  obtain ⟨p, ⟨hp, hpc⟩, rfl⟩ := hi
  have := he p hp hint
  simp at hpc
  rw [hpc] at this
  exact this

/-! ### the correction map only relates mergeable introns -/

theorem mem_takeWhile_imp {α} {p : α → Bool} {l : List α} {x : α} (h : x ∈ l.takeWhile p) : p x = true := by
  induction l with
  | nil => simp at h
  | cons a t ih =>
    simp only [List.takeWhile_cons] at h
    split at h
    · rename_i ha
      simp at h
      rcases h with h | h
      · subst h; exact ha
      · exact ih h
    · simp at h

theorem simAfter_near {δ : Int} {x o : Iv} {rest : List Iv} (h : o ∈ simAfter δ x rest) : Near δ o x := by
  simp only [simAfter, List.mem_filter] at h
  have h1 := mem_takeWhile_imp h.1
  exact ⟨by simpa using h1, by simpa using h.2⟩

theorem simPairs_near {δ : Int} {l : List Iv} {p : Iv × Iv} (h : p ∈ simPairs δ l) : Near δ p.1 p.2 := by
  induction l with
  | nil => simp [simPairs] at h
  | cons x rest ih =>
    simp only [simPairs, List.mem_append, List.mem_map] at h
    rcases h with ⟨o, ho, rfl⟩ | h
    · exact (simAfter_near ho).symm
    · exact ih h

theorem similarOf_near {δ : Int} {pairs : List (Iv × Iv)} (hp : ∀ p ∈ pairs, Near δ p.1 p.2) {x y : Iv}
    (h : y ∈ similarOf pairs x) : Near δ x y := by
  simp only [similarOf, List.mem_filterMap] at h
  obtain ⟨p, hpm, hy⟩ := h
  split at hy
  · rename_i h1
    simp at hy; subst hy; rw [← h1]; exact hp p hpm
  · split at hy
    · rename_i _ h2
      simp at hy; subst hy; rw [← h2]; exact (hp p hpm).symm
    · simp at hy

theorem clusterStep_corr {δ : Int} {pairs : List (Iv × Iv)} {minCount : Int} {c : Collector} {ci : Int × Iv}
    (hp : ∀ p ∈ pairs, Near δ p.1 p.2) (hc : ∀ p ∈ c.corr, Near δ p.1 p.2) :
    ∀ p ∈ (clusterStep pairs minCount c ci).corr, Near δ p.1 p.2 := by
  unfold clusterStep
  simp only
  split
  · exact hc
  · split
    · split
      · rename_i s hs
        have hs' := maxIv?_mem hs
        simp only [List.mem_filter] at hs'
        intro p hpm
        rcases mem_amSet hpm with h | h
        · subst h; exact similarOf_near hp hs'.1
        · exact hc p h
      · exact hc
    · split
      · exact hc
      · exact hc

theorem collectorProcess_corr_near (known : List Iv) (δ : Int) (reads : List Read) (minCount : Int) :
    ∀ p ∈ (collectorProcess known δ reads minCount).corr, Near δ p.1 p.2 := by
  unfold collectorProcess clusterIntrons
  generalize sortedByCount (collectIntrons reads) = l
  have hp : ∀ p ∈ simPairs δ (sortIv (amKeys (collectIntrons reads))), Near δ p.1 p.2 := fun p h => simPairs_near h
  generalize simPairs δ (sortIv (amKeys (collectIntrons reads))) = pairs at hp
  have : ∀ (c : Collector), (∀ p ∈ c.corr, Near δ p.1 p.2) →
      ∀ p ∈ (l.foldl (clusterStep pairs minCount) c).corr, Near δ p.1 p.2 := by
    induction l with
    | nil => intro c hc; simpa using hc
    | cons a t ih => intro c hc; simp only [List.foldl_cons]; exact ih _ (clusterStep_corr hp hc)
  exact this _ (by simp [Collector.empty])

/-! ### `simplify_correction_map` composes entries: a transitive relation on the entries is preserved -/

theorem chase_rel {R : Iv → Iv → Prop} (hrefl : ∀ a, R a a) (htrans : ∀ a b c, R a b → R b c → R a c)
    {m : List (Iv × Iv)} (hm : ∀ p ∈ m, R p.1 p.2) (fuel : Nat) (s e : Iv) (h : chase m fuel s = some e) : R s e := by
  induction fuel generalizing s with
  | zero => simp [chase] at h
  | succ n ih =>
    simp only [chase] at h
    split at h
    · simp at h; subst h; exact hrefl s
    · rename_i s' hs'
      exact htrans _ _ _ (hm _ (amGet?_mem hs')) (ih s' h)

theorem simplifyStep_rel {R : Iv → Iv → Prop} (hrefl : ∀ a, R a a) (htrans : ∀ a b c, R a b → R b c → R a c)
    {disc : List Iv} {st st' : List (Iv × Iv) × List Iv} {i : Iv}
    (hm : ∀ p ∈ st.1, R p.1 p.2) (h : simplifyStep disc st i = some st') : ∀ p ∈ st'.1, R p.1 p.2 := by
  unfold simplifyStep at h
  split at h
  · simp at h
  · rename_i subs hsubs
    split at h
    · simp at h; subst h; exact hm
    · split at h
      · simp at h; subst h; exact hm
      · split at h
        · simp at h
        · rename_i e he
          split at h
          · simp at h; subst h; exact hm
          · simp at h; subst h
            intro p hp
            rcases mem_amSet hp with h' | h'
            · subst h'
              exact htrans i subs e (hm (i, subs) (amGet?_mem hsubs)) (chase_rel hrefl htrans hm _ subs e he)
            · exact hm p h'

theorem simplifyLoop_rel {R : Iv → Iv → Prop} (hrefl : ∀ a, R a a) (htrans : ∀ a b c, R a b → R b c → R a c)
    {disc : List Iv} (l : List Iv) {st st' : List (Iv × Iv) × List Iv}
    (hm : ∀ p ∈ st.1, R p.1 p.2) (h : simplifyLoop disc l st = some st') : ∀ p ∈ st'.1, R p.1 p.2 := by
  induction l generalizing st with
  | nil => simp [simplifyLoop] at h; subst h; exact hm
  | cons i t ih =>
    simp only [simplifyLoop] at h
    split at h
    · simp at h
    · rename_i st1 hst1
      exact ih (simplifyStep_rel hrefl htrans hm hst1) h

theorem foldl_discardErase_corr_sub (l : List Iv) (c : Collector) :
    ∀ p ∈ (l.foldl (fun c i => { c.discard i with corr := amErase (c.discard i).corr i }) c).corr, p ∈ c.corr := by
  induction l generalizing c with
  | nil => simp
  | cons a t ih =>
    simp only [List.foldl_cons]
    intro p hp
    have := ih _ p hp
    exact (mem_amErase this).1

theorem simplifyCorrectionMap_rel {R : Iv → Iv → Prop} (hrefl : ∀ a, R a a) (htrans : ∀ a b c, R a b → R b c → R a c)
    {c c' : Collector} (hc : ∀ p ∈ c.corr, R p.1 p.2) (h : c.simplifyCorrectionMap = some c') :
    ∀ p ∈ c'.corr, R p.1 p.2 := by
  unfold Collector.simplifyCorrectionMap at h
  split at h
  · simp at h
  · rename_i m toRemove hloop
    simp at h; subst h
    have h1 := simplifyLoop_rel hrefl htrans (st := (c.corr, [])) _ hc hloop
    intro p hp
    exact h1 p (foldl_discardErase_corr_sub _ _ p hp)

/-! ### the edge invariant over operation histories -/

structure EdgeInv (reads : List Read) (M : Iv → Iv → Prop) (g : Graph) : Prop where
  sub : GSub g (fun v => v ∈ obsIntrons reads)
  corr : ∀ p ∈ g.col.corr, Rep M p.1 p.2
  out : PairW g.out (Wit reads M)
  inc : PairW g.inc (fun k v => Wit reads M v k)

/-- what the edge invariant asks of a history: `add_edge` is called on consecutive read introns (as `construct()`
    does), `collapse_vertex(c, s)` only when `c` may be merged into `s` -/
def OpOk (reads : List Read) (M : Iv → Iv → Prop) : Op → Prop
  | .addEdge v1 v2 => Adj reads v1 v2
  | .collapse c s => M c s
  | _ => True

theorem substitute_rep {M : Iv → Iv → Prop} {c : Collector} (hc : ∀ p ∈ c.corr, Rep M p.1 p.2) (v : Iv) :
    Rep M v (c.substitute v) := by
  unfold Collector.substitute
  split
  · rename_i s hs; exact hc _ (amGet?_mem hs)
  · exact Rep.refl v

theorem wit_right {reads : List Read} {M : Iv → Iv → Prop} {u c s : Iv} (hm : M c s) (h : Wit reads M u c) :
    Wit reads M u s := by
  obtain ⟨a, b, hab, ha, hb⟩ := h
  exact ⟨a, b, hab, ha, Rep.tail hb hm⟩

theorem wit_left {reads : List Read} {M : Iv → Iv → Prop} {c s v : Iv} (hm : M c s) (h : Wit reads M c v) :
    Wit reads M s v := by
  obtain ⟨a, b, hab, ha, hb⟩ := h
  exact ⟨a, b, hab, Rep.tail ha hm, hb⟩

theorem collapseVertex_edgeInv {reads : List Read} {M : Iv → Iv → Prop} {g g' : Graph} (hg : EdgeInv reads M g)
    {c s : Iv} (hc : c ∈ obsIntrons reads) (hs : s ∈ obsIntrons reads) (hci : isIntronVertex c = true) (hm : M c s)
    (h : g.collapseVertex c s = some g') : EdgeInv reads M g' := by
  have hsub := collapseVertex_gsub hg.sub hc hs h
  unfold Graph.collapseVertex at h
  simp only at h
  split at h
  · simp at h
  · rename_i inc1 hinc1
    split at h
    · simp at h
    · rename_i out2 hout2
      simp at h; subst h
      have hinc1' : PairW inc1 (fun k v => Wit reads M v k) :=
        replaceMembers_pairW _ hg.inc hci (fun k hk => wit_left hm hk) hinc1
      have hout1 : PairW ((outOf g c).foldl (fun m i => setAdd m (s, i)) g.out) (Wit reads M) :=
        foldl_setAdd_pairW _ _ _ hg.out (fun i hi hint => wit_left hm (members_pairW hg.out c i hi hint))
      refine ⟨hsub, ?_, replaceMembers_pairW _ hout1 hci (fun k hk => wit_right hm hk) hout2, ?_⟩
      · intro p hp
        simp only [Collector.addSubstitute] at hp
        rcases mem_amSet hp with h' | h'
        · subst h'; exact Rep.single hm
        · exact hg.corr p h'
      · exact foldl_setAdd_pairW _ _ _ hinc1' (fun i hi hint => wit_right hm (members_pairW hinc1' c i hi hint))

theorem applyOp_edgeInv {reads : List Read} {M : Iv → Iv → Prop} (hpos : ∀ v ∈ obsIntrons reads, 0 ≤ v.1)
    {g g' : Graph} (hg : EdgeInv reads M g) (op : Op) (hsc : opScoped (obsIntrons reads) g op = true)
    (hok : OpOk reads M op) (h : applyOp g op = some g') : EdgeInv reads M g' := by
  have hv := (gsub_iff g (fun v => v ∈ obsIntrons reads)).1 hg.sub
  have hsub : GSub g' (fun v => v ∈ obsIntrons reads) := by
    refine applyOp_gsub hg.sub op ?_ h
    cases op <;> simp [opScoped] at hsc ⊢
    · exact hsc
    · exact ⟨hv _ hsc.1, hv _ hsc.2⟩
    · exact hv _ hsc
    · exact hv _ hsc
    · exact ⟨hv _ hsc.1, hsc.2⟩
    · exact ⟨hv _ hsc.1, hsc.2⟩
  cases op with
  | addEdge v1 v2 =>
    simp [applyOp] at h; subst h
    have hw : Wit reads M (g.col.substitute v1) (g.col.substitute v2) :=
      ⟨v1, v2, hok, substitute_rep hg.corr v1, substitute_rep hg.corr v2⟩
    exact ⟨hsub, hg.corr, pairW_setAdd hg.out (fun _ => hw), pairW_setAdd hg.inc (fun _ => hw)⟩
  | collapse c s =>
    simp [opScoped] at hsc
    have hc := hv _ hsc.1
    exact collapseVertex_edgeInv hg hc (hv _ hsc.2) (by simpa [isIntronVertex] using hpos c hc) hok h
  | delVertex v => simp [applyOp] at h; subst h; exact ⟨hsub, hg.corr, pairW_filter hg.out _, pairW_filter hg.inc _⟩
  | delOut v => simp [applyOp] at h; subst h; exact ⟨hsub, hg.corr, pairW_filter hg.out _, hg.inc⟩
  | delInc v => simp [applyOp] at h; subst h; exact ⟨hsub, hg.corr, hg.out, pairW_filter hg.inc _⟩
  | discard v => simp [applyOp] at h; subst h; exact ⟨hsub, hg.corr, hg.out, hg.inc⟩
  | touch v =>
    simp [applyOp] at h; subst h
    refine ⟨hsub, ?_, hg.out, hg.inc⟩
    unfold Collector.touch; split <;> exact hg.corr
  | simplifyMap =>
    simp only [applyOp, Option.map_eq_some_iff] at h
    obtain ⟨c', hc', rfl⟩ := h
    exact ⟨hsub, simplifyCorrectionMap_rel Rep.refl (fun _ _ _ => Rep.trans) hg.corr hc', hg.out, hg.inc⟩
  | attachOut v t =>
    simp [applyOp] at h; subst h
    simp [opScoped] at hsc
    exact ⟨hsub, hg.corr, pairW_setAdd hg.out (fun ht => by simp [hsc.2] at ht), hg.inc⟩
  | attachInc v t =>
    simp [applyOp] at h; subst h
    simp [opScoped] at hsc
    exact ⟨hsub, hg.corr, hg.out, pairW_setAdd hg.inc (fun ht => by simp [hsc.2] at ht)⟩

theorem runOps_edgeInv {reads : List Read} {M : Iv → Iv → Prop} (hpos : ∀ v ∈ obsIntrons reads, 0 ≤ v.1)
    (ops : List Op) {g g' : Graph} (hg : EdgeInv reads M g) (hok : ∀ op ∈ ops, OpOk reads M op)
    (h : runOps (obsIntrons reads) g ops = some g') : EdgeInv reads M g' := by
  induction ops generalizing g with
  | nil => simp [runOps] at h; subst h; exact hg
  | cons op t ih =>
    simp only [runOps] at h
    split at h
    · rename_i hsc
      split at h
      · simp at h
      · rename_i g1 hg1
        exact ih (applyOp_edgeInv hpos hg op hsc (hok op (by simp)) hg1) (fun o ho => hok o (by simp [ho])) h
    · simp at h

theorem readEdgeOps_adj (l : List Iv) : ∀ op ∈ readEdgeOps l, ∃ v1 v2, op = Op.addEdge v1 v2 ∧ AdjIn l v1 v2 := by
  induction l with
  | nil => simp [readEdgeOps]
  | cons a t ih =>
    cases t with
    | nil => simp [readEdgeOps]
    | cons b u =>
      intro op hop
      simp only [readEdgeOps, List.mem_cons] at hop
      rcases hop with h | h
      · exact ⟨a, b, h, [], u, rfl⟩
      · obtain ⟨v1, v2, e, pre, post, hl⟩ := ih op h
        exact ⟨v1, v2, e, a :: pre, post, by rw [hl]; rfl⟩

theorem constructOps_ok (M : Iv → Iv → Prop) (col : Collector) (reads : List Read) :
    ∀ op ∈ constructOps col reads, OpOk reads M op := by
  intro op hop
  simp only [constructOps, List.mem_flatMap] at hop
  obtain ⟨r, hr, hop⟩ := hop
  split at hop
  · simp at hop
  · rename_i hc
    have hmm : r.multimapper = false := by
      cases h : r.multimapper <;> simp [h] at hc ⊢
    obtain ⟨v1, v2, rfl, hadj⟩ := readEdgeOps_adj _ op hop
    exact ⟨r, hr, hmm, hadj⟩

theorem init_edgeInv (known : List Iv) (δ minCount : Int) (reads : List Read) (M : Iv → Iv → Prop)
    (hδ : ∀ k s, Near δ k s → M k s) : EdgeInv reads M (Graph.init known δ reads minCount) := by
  refine ⟨⟨collectorProcess_csub known δ reads minCount, by simp [Graph.init, ESub], by simp [Graph.init, ESub]⟩, ?_,
    by simp [Graph.init, PairW], by simp [Graph.init, PairW]⟩
  intro p hp
  exact Rep.single (hδ _ _ (collectorProcess_corr_near known δ reads minCount p hp))

/-- the path `thread_introns` builds: consecutive vertices are images of consecutive read introns -/
theorem threadIntrons_adj {M : Iv → Iv → Prop} {c : Collector} (hc : ∀ p ∈ c.corr, Rep M p.1 p.2) (l : List Iv)
    {path : List Iv} (h : threadIntrons c l = some path) {u v : Iv} (huv : AdjIn path u v) :
    ∃ a b, AdjIn l a b ∧ Rep M a u ∧ Rep M b v := by
  have hmap := (threadIntrons_eq_map l h).1
  subst hmap
  clear h
  obtain ⟨pre, post, hl⟩ := huv
  induction l generalizing pre with
  | nil => simp at hl
  | cons x t ih =>
    cases pre with
    | nil =>
      cases t with
      | nil => simp at hl
      | cons y t' =>
        simp only [List.map_cons, List.nil_append, List.cons.injEq] at hl
        obtain ⟨h1, h2, _⟩ := hl
        exact ⟨x, y, ⟨[], t', rfl⟩, h1 ▸ substitute_rep hc x, h2 ▸ substitute_rep hc y⟩
    | cons p pre' =>
      simp only [List.map_cons, List.cons_append, List.cons.injEq] at hl
      obtain ⟨a, b, ⟨pr, po, e⟩, ha, hb⟩ := ih pre' hl.2
      exact ⟨a, b, ⟨x :: pr, po, by rw [e]; rfl⟩, ha, hb⟩

/-! ### `thread_ends` / `thread_starts` return vertices attached to the intron, of the right kind -/

theorem mem_getOutgoing {g : Graph} {intron v : Iv} {vt : Option Int} (h : v ∈ getOutgoing g intron vt) :
    (intron, v) ∈ g.out ∧ vertexOfType vt v = true := by
  simp only [getOutgoing, mem_sortIv, List.mem_filter, outOf, List.mem_map] at h
  obtain ⟨⟨p, ⟨hp, hk⟩, rfl⟩, ht⟩ := h
  simp at hk
  exact ⟨by rw [← hk]; exact hp, ht⟩

theorem mem_getIncoming {g : Graph} {intron v : Iv} {vt : Option Int} (h : v ∈ getIncoming g intron vt) :
    (intron, v) ∈ g.inc ∧ vertexOfType vt v = true := by
  simp only [getIncoming, mem_sortIv, List.mem_filter, incOf, List.mem_map] at h
  obtain ⟨⟨p, ⟨hp, hk⟩, rfl⟩, ht⟩ := h
  simp at hk
  exact ⟨by rw [← hk]; exact hp, ht⟩

theorem pickEnd_mem {apa endPos : Int} {trusted : Bool} {l : List Iv} {v : Iv}
    (h : pickEnd apa endPos trusted l = some v) : v ∈ l := by
  cases l with
  | nil => simp [pickEnd] at h
  | cons last rest =>
    have : v = last := by
      simp only [pickEnd] at h
      by_cases c1 : (trusted && decide (endPos ≥ last.2) && decide (last.1 = VERTEX_read_end)) = true
      · rw [if_pos c1] at h; simpa using h.symm
      · rw [if_neg c1] at h
        split at h <;> simp at h <;> exact h.2.symm
    subst this; simp

theorem pickStart_mem {startPos : Int} {trusted : Bool} {l : List Iv} {v : Iv}
    (h : pickStart startPos trusted l = some v) : v ∈ l := by
  cases l with
  | nil => simp [pickStart] at h
  | cons first rest =>
    have : v = first := by
      simp only [pickStart] at h
      by_cases c1 : (trusted && decide (startPos ≤ first.2) && decide (first.1 = VERTEX_read_start)) = true
      · rw [if_pos c1] at h; simpa using h.symm
      · rw [if_neg c1] at h
        split at h <;> simp at h <;> exact h.2.symm
    subst this; simp

theorem threadEnds_spec {g : Graph} {delta apa : Int} {intron : Iv} {endPos : Int} {trusted : Bool} {v : Iv}
    (h : threadEnds g delta apa intron endPos trusted = some v) :
    (intron, v) ∈ g.out ∧ (v.1 = VERTEX_polya ∨ v.1 = VERTEX_read_end) := by
  unfold threadEnds at h
  simp only at h
  split at h
  · rename_i w hw
    simp at h; subst h
    split at hw
    · have := mem_getOutgoing (List.mem_of_find?_eq_some hw)
      exact ⟨this.1, Or.inl (by simpa [vertexOfType] using this.2)⟩
    · simp at hw
  · have hp : pickEnd apa endPos trusted
        (sortByPos (getOutgoing g intron (some VERTEX_read_end) ++ getOutgoing g intron (some VERTEX_polya))).reverse = some v := by
      split at h
      · exact h
      · split at h
        · simp at h
        · exact h
    have hm := pickEnd_mem hp
    simp only [List.mem_reverse, sortByPos, mem_insSort, List.mem_append] at hm
    rcases hm with hm | hm
    · have := mem_getOutgoing hm
      exact ⟨this.1, Or.inr (by simpa [vertexOfType] using this.2)⟩
    · have := mem_getOutgoing hm
      exact ⟨this.1, Or.inl (by simpa [vertexOfType] using this.2)⟩

theorem threadStarts_spec {g : Graph} {delta apa : Int} {intron : Iv} {startPos : Int} {trusted : Bool} {v : Iv}
    (h : threadStarts g delta apa intron startPos trusted = some v) :
    (intron, v) ∈ g.inc ∧ (v.1 = VERTEX_polyt ∨ v.1 = VERTEX_read_start) := by
  unfold threadStarts at h
  simp only at h
  split at h
  · rename_i w hw
    simp at h; subst h
    split at hw
    · have := mem_getIncoming (List.mem_of_find?_eq_some hw)
      exact ⟨this.1, Or.inl (by simpa [vertexOfType] using this.2)⟩
    · simp at hw
  · have hp : pickStart startPos trusted
        (sortByPos (getIncoming g intron (some VERTEX_read_start) ++ getIncoming g intron (some VERTEX_polyt))) = some v := by
      split at h
      · exact h
      · split at h
        · simp at h
        · exact h
    have hm := pickStart_mem hp
    simp only [sortByPos, mem_insSort, List.mem_append] at hm
    rcases hm with hm | hm
    · have := mem_getIncoming hm
      exact ⟨this.1, Or.inr (by simpa [vertexOfType] using this.2)⟩
    · have := mem_getIncoming hm
      exact ⟨this.1, Or.inl (by simpa [vertexOfType] using this.2)⟩

/-- the shape of a full-length path registered by `fill` with the real `thread_ends` / `thread_starts` -/
theorem readPath_graph_spec {g : Graph} {delta apa : Int} {req : Bool} {a : Read} {path : List Iv}
    (h : readPath g (graphThreadParams g delta apa req) a = some (path, true)) :
    a.multimapper = false ∧ ∃ ip s e first last, threadIntrons g.col a.introns = some ip ∧
      ip.head? = some first ∧ ip.getLast? = some last ∧ path = s :: ip ++ [e] ∧
      (first, s) ∈ g.inc ∧ (s.1 = VERTEX_polyt ∨ s.1 = VERTEX_read_start) ∧
      (last, e) ∈ g.out ∧ (e.1 = VERTEX_polya ∨ e.1 = VERTEX_read_end) ∧
      (req = true → e.1 = VERTEX_polya ∨ s.1 = VERTEX_polyt) := by
  unfold readPath at h
  split at h
  · simp at h
  · rename_i hmm
    refine ⟨by simpa using hmm, ?_⟩
    split at h
    · simp at h
    · simp at h
    · rename_i i t hthread
      split at h
      · rename_i firstExon lastExon lastIntron _ _ hlast
        simp only [Option.some.injEq, Prod.mk.injEq, graphThreadParams] at h
        obtain ⟨hp, hf⟩ := h
        cases hte : threadEnds g delta apa lastIntron lastExon.2 (decide (a.strand = "+") && a.polya) with
        | none => simp [hte] at hf
        | some tv =>
          cases hts : threadStarts g delta apa i firstExon.1 (decide (a.strand = "-") && a.polyt) with
          | none => simp [hte, hts] at hf
          | some sv =>
            simp only [hte, hts] at hp hf
            have he := threadEnds_spec hte
            have hs := threadStarts_spec hts
            refine ⟨i :: t, sv, tv, i, lastIntron, hthread, rfl, hlast, by rw [← hp]; simp, hs.1, hs.2, he.1, he.2, ?_⟩
            intro hreq
            subst hreq
            simpa using hf
      · simp at h

/-! ### what the length guard of `construct_fl_isoforms` enforces -/

/-- strictly increasing intron chain inside the range `[s, e]`: every intron well-formed and strictly inside the range,
    and a non-empty exon between consecutive introns -/
def ChainMonotone (s : Int) (ip : List Iv) (e : Int) : Prop :=
  (∀ i ∈ ip, i.1 ≤ i.2 ∧ s < i.1 ∧ i.2 < e) ∧ ∀ a b, AdjIn ip a b → a.2 + 1 < b.1

theorem chainMonotone_of_pathGapped : ∀ (ip : List Iv) (s e : Int), PathGapped s ip e → ChainMonotone s ip e ∧ s ≤ e
  | [], s, e, h => ⟨⟨by simp, by rintro a b ⟨pre, post, hl⟩; simp at hl⟩, h⟩
  | i :: t, s, e, h => by
    obtain ⟨h1, h2, h3⟩ := h
    obtain ⟨⟨ih1, ih2⟩, ih3⟩ := chainMonotone_of_pathGapped t (i.2 + 1) e h3
    refine ⟨⟨?_, ?_⟩, by omega⟩
    · intro j hj
      rcases List.mem_cons.mp hj with rfl | hj
      · exact ⟨h2, h1, by omega⟩
      · have := ih1 j hj; exact ⟨this.1, by omega, this.2.2⟩
    · rintro a b ⟨pre, post, hl⟩
      cases pre with
      | nil =>
        simp only [List.nil_append, List.cons.injEq] at hl
        obtain ⟨rfl, rfl⟩ := hl
        have := (ih1 b (by simp)).2.1
        omega
      | cons p pre' =>
        simp only [List.cons_append, List.cons.injEq] at hl
        exact ih2 a b ⟨pre', post, hl.2⟩

end IsoVerif.Lemmas.C04
