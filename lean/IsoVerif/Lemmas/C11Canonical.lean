/-
C11 helper lemmas — reverse complement is an involution; windows of a reversed list; filters under a map.
-/
import IsoVerif.Model.C11Canonical

namespace IsoVerif.Lemmas.C11
open IsoVerif.Gen IsoVerif.Model.C11

theorem compBase_involutive (c : Char) : compBase (compBase c) = c := by
  unfold compBase
  by_cases h1 : c = 'A' <;> by_cases h2 : c = 'T' <;> by_cases h3 : c = 'C' <;> by_cases h4 : c = 'G' <;> simp_all

theorem rcList_involutive (l : List Char) : rcList (rcList l) = l := by
  have : (compBase ∘ compBase) = id := by funext c; exact compBase_involutive c
  simp [rcList, List.map_reverse, this]

theorem rcSeq_involutive (s : String) : rcSeq (rcSeq s) = s := by
  have : (compBase ∘ compBase) = id := by funext c; exact compBase_involutive c
  simp [rcSeq, List.map_reverse, this]

theorem filter_length_map {α} (l : List α) (m : α → α) (f g : α → Bool) (h : ∀ x, f (m x) = g x) :
    ((l.map m).filter f).length = (l.filter g).length := by
  induction l with
  | nil => rfl
  | cons a t ih => simp only [List.map_cons, List.filter_cons, h a]; split <;> simp [ih]

theorem window_reverse (l : List Char) (i m : Nat) (h : i + m ≤ l.length) :
    (l.reverse.drop i).take m = ((l.drop (l.length - i - m)).take m).reverse := by
  rw [List.drop_reverse, List.take_reverse]
  congr 1
  simp only [List.length_take]
  have : min (l.length - i) l.length = l.length - i := by omega
  rw [this, List.drop_take]
  congr 1; omega

theorem intronStrand_cases (p : Sites) :
    intronStrandOfSites p = "." ∨ intronStrandOfSites p = "+" ∨ intronStrandOfSites p = "-" := by
  simp only [intronStrandOfSites]
  cases isFwdSite p <;> cases isRevSite p <;> simp

end IsoVerif.Lemmas.C11
