/-
Helper lemmas for the text level of C03 (Model/GtfText.lean): evaluation of the generated format literals, the
attribute-column reader, tab splitting.  Core Lean only.
-/
import IsoVerif.Model.GtfText
import IsoVerif.Lemmas.Ids
import IsoVerif.Lemmas.IdsPrinter

namespace IsoVerif.Lemmas.C03T
open IsoVerif.Gen IsoVerif.Model.C17 IsoVerif.Model.C03T IsoVerif.Lemmas.C17

/-! ### the generated format literals as segments (closed terms: kernel evaluation) -/

def q : Str := ['"']

theorem gene_fmt_segs : parseFmt gtf_gene_fmt.toList [] = some
    [Seg.str, Seg.lit ['\t'], Seg.str, Seg.lit ['\t', 'g', 'e', 'n', 'e', '\t'], Seg.int, Seg.lit ['\t'], Seg.int,
     Seg.lit ['\t', '.', '\t'], Seg.str, Seg.lit ['\t', '.', '\t', 'g', 'e', 'n', 'e', '_', 'i', 'd', ' ', '"'], Seg.str, Seg.lit ['"', ';', ' ', 't', 'r', 'a', 'n', 's', 'c', 'r', 'i', 'p', 't', 's', ' ', '"'],
     Seg.int, Seg.lit ['"', ';', ' '], Seg.str, Seg.lit ['\n']] := by decide +kernel

theorem transcript_fmt_segs : parseFmt gtf_transcript_fmt.toList [] = some
    [Seg.str, Seg.lit ['\t'], Seg.str, Seg.lit ['\t', 't', 'r', 'a', 'n', 's', 'c', 'r', 'i', 'p', 't', '\t'], Seg.int, Seg.lit ['\t'], Seg.int,
     Seg.lit ['\t', '.', '\t'], Seg.str, Seg.lit ['\t', '.', '\t', 'g', 'e', 'n', 'e', '_', 'i', 'd', ' ', '"'], Seg.str, Seg.lit ['"', ';', ' ', 't', 'r', 'a', 'n', 's', 'c', 'r', 'i', 'p', 't', '_', 'i', 'd', ' ', '"'],
     Seg.str, Seg.lit ['"', ';', ' '], Seg.str, Seg.lit ['\n']] := by decide +kernel

theorem prefix_fmt_segs : parseFmt gtf_prefix_fmt.toList [] = some
    [Seg.str, Seg.lit ['\t'], Seg.str, Seg.lit ['\t']] := by decide +kernel

theorem coord_fmt_segs : parseFmt gtf_feature_coord_fmt.toList [] = some
    [Seg.str, Seg.lit ['\t'], Seg.int, Seg.lit ['\t'], Seg.int, Seg.lit ['\t']] := by decide +kernel

theorem suffix_fmt_segs : parseFmt gtf_suffix_fmt.toList [] = some
    [Seg.lit ['.', '\t'], Seg.str, Seg.lit ['\t', '.', '\t', 'g', 'e', 'n', 'e', '_', 'i', 'd', ' ', '"'], Seg.str, Seg.lit ['"', ';', ' ', 't', 'r', 'a', 'n', 's', 'c', 'r', 'i', 'p', 't', '_', 'i', 'd', ' ', '"'],
     Seg.str, Seg.lit ['"', ';']] := by decide +kernel

theorem feature_attr_fmt_segs : parseFmt gtf_feature_attr_fmt.toList [] = some
    [Seg.lit [' ', 'e', 'x', 'o', 'n', '_', 'n', 'u', 'm', 'b', 'e', 'r', ' ', '"'], Seg.int, Seg.lit ['"', ';', ' ', 'e', 'x', 'o', 'n', '_', 'i', 'd', ' ', '"'], Seg.str, Seg.lit ['"', ';', ' '], Seg.str,
     Seg.lit ['\n']] := by decide +kernel

theorem exon_key_fmt_segs : parseFmt gtf_exon_key_fmt.toList [] = some
    [Seg.lit ['_'], Seg.int, Seg.lit ['_'], Seg.int, Seg.lit ['_'], Seg.str] := by decide +kernel

theorem gi_exon_key_fmt_segs : parseFmt gi_exon_key_fmt.toList [] = some
    [Seg.lit ['_'], Seg.int, Seg.lit ['_'], Seg.int, Seg.lit ['_'], Seg.str] := by decide +kernel

theorem tm_attr_fmt_segs : parseFmt tm_attr_fmt.toList [] = some
    [Seg.str, Seg.lit [' ', '"'], Seg.str, Seg.lit ['"', ';']] := by decide +kernel

theorem gi_gene_attr_fmt_segs : parseFmt gi_gene_attr_fmt.toList [] = some
    [Seg.str, Seg.lit [' ', '"'], Seg.str, Seg.lit ['"', ';', ' ']] := by decide +kernel
theorem gi_transcript_attr_fmt_segs : parseFmt gi_transcript_attr_fmt.toList [] = some
    [Seg.str, Seg.lit [' ', '"'], Seg.str, Seg.lit ['"', ';', ' ']] := by decide +kernel
theorem gi_exon_attr_fmt_segs : parseFmt gi_exon_attr_fmt.toList [] = some
    [Seg.str, Seg.lit [' ', '"'], Seg.str, Seg.lit ['"', ';', ' ']] := by decide +kernel

/-- one rendered attribute `key "value";` -/
def item (k v : Str) : Str := k ++ ' ' :: '"' :: (v ++ ['"', ';'])

theorem tm_attr_format (k v : Str) : pyFormat tm_attr_fmt [FArg.s k, FArg.s v] = some (item k v) := by
  simp [pyFormat, tm_attr_fmt_segs, applyFmt, item]

theorem gi_gene_attr_format (k v : Str) : pyFormat gi_gene_attr_fmt [FArg.s k, FArg.s v] = some (item k v ++ [' ']) := by
  simp [pyFormat, gi_gene_attr_fmt_segs, applyFmt, item]
theorem gi_transcript_attr_format (k v : Str) :
    pyFormat gi_transcript_attr_fmt [FArg.s k, FArg.s v] = some (item k v ++ [' ']) := by
  simp [pyFormat, gi_transcript_attr_fmt_segs, applyFmt, item]
theorem gi_exon_attr_format (k v : Str) : pyFormat gi_exon_attr_fmt [FArg.s k, FArg.s v] = some (item k v ++ [' ']) := by
  simp [pyFormat, gi_exon_attr_fmt_segs, applyFmt, item]

theorem exon_key_format (s e : Int) (strand : Str) :
    pyFormat gtf_exon_key_fmt [FArg.d s, FArg.d e, FArg.s strand]
      = some ('_' :: (pyStrInt s ++ '_' :: (pyStrInt e ++ '_' :: strand))) := by
  simp [pyFormat, exon_key_fmt_segs, applyFmt]

theorem gi_exon_key_format (s e : Int) (strand : Str) :
    pyFormat gi_exon_key_fmt [FArg.d s, FArg.d e, FArg.s strand]
      = some ('_' :: (pyStrInt s ++ '_' :: (pyStrInt e ++ '_' :: strand))) := by
  simp [pyFormat, gi_exon_key_fmt_segs, applyFmt]

/-! ### `additional_attributes_str` -/

theorem mapM_some_eq {α β} (f : α → Option β) (g : α → β) (h : ∀ x, f x = some (g x)) :
    ∀ l : List α, l.mapM f = some (l.map g)
  | [] => rfl
  | x :: xs => by simp [List.mapM_cons, h x, mapM_some_eq f g h xs]

theorem additionalStr_eq (a : Attrs) :
    additionalStr a = some (pyJoin tm_attr_join.toList (a.map (fun kv => item kv.1 kv.2))) := by
  have h := mapM_some_eq (fun kv : Str × Str => pyFormat tm_attr_fmt [FArg.s kv.1, FArg.s kv.2])
    (fun kv => item kv.1 kv.2) (fun kv => tm_attr_format kv.1 kv.2) a
  simp [additionalStr, h]

/-! ### the attribute-column reader -/

/-- a character allowed in a key: not a blank, not a quote -/
abbrev keyChar (c : Char) : Prop := c ≠ ' ' ∧ c ≠ '"'

/-- a key the reader gives back: non-empty, no blank / quote, not starting with `;` -/
def CleanKey (k : Str) : Prop := (∃ c r, k = c :: r ∧ c ≠ ';') ∧ ∀ c ∈ k, keyChar c

abbrev CleanVal (v : Str) : Prop := '"' ∉ v

def CleanAttrs (a : Attrs) : Prop := ∀ kv ∈ a, CleanKey kv.1 ∧ CleanVal kv.2

theorem go_key (acc : Attrs) (rest : Str) : ∀ (k' k : Str), (∀ c ∈ k', keyChar c) →
    parseAttrsGo (PS.key k) acc (k' ++ ' ' :: rest) = parseAttrsGo (PS.preq (k ++ k')) acc rest
  | [], k, _ => by simp [parseAttrsGo]
  | c :: cs, k, h => by
      have hc := h c (by simp)
      have := go_key acc rest cs (k ++ [c]) (fun x hx => h x (by simp [hx]))
      simp only [List.cons_append, parseAttrsGo, hc.1, hc.2, if_false]
      rw [this]; simp

theorem go_val (acc : Attrs) (rest k : Str) : ∀ (v' v : Str), '"' ∉ v' →
    parseAttrsGo (PS.val k v) acc (v' ++ '"' :: rest) = parseAttrsGo (PS.post k (v ++ v')) acc rest
  | [], v, _ => by simp [parseAttrsGo]
  | c :: cs, v, h => by
      have hc : c ≠ '"' := fun e => h (by simp [e])
      have := go_val acc rest k cs (v ++ [c]) (fun hx => h (by simp [hx]))
      simp only [List.cons_append, parseAttrsGo, hc, if_false]
      rw [this]; simp

theorem go_blanks (acc : Attrs) (rest : Str) : ∀ n : Nat,
    parseAttrsGo PS.start acc (List.replicate n ' ' ++ rest) = parseAttrsGo PS.start acc rest
  | 0 => by simp
  | n + 1 => by
      simp [List.replicate_succ, parseAttrsGo, go_blanks acc rest n]

/-- reading one item -/
theorem go_item (acc : Attrs) (rest k v : Str) (hk : CleanKey k) (hv : CleanVal v) :
    parseAttrsGo PS.start acc (item k v ++ rest) = parseAttrsGo PS.start ((k, v) :: acc) rest := by
  obtain ⟨⟨c, r, rfl, hsemi⟩, hall⟩ := hk
  have hc := hall c (by simp)
  have hr : ∀ x ∈ r, keyChar x := fun x hx => hall x (by simp [hx])
  have h1 : item (c :: r) v ++ rest = c :: (r ++ ' ' :: ('"' :: (v ++ '"' :: (';' :: rest)))) := by
    simp [item]
  rw [h1]
  simp only [parseAttrsGo, hc.1, hc.2, hsemi, if_false, or_self]
  rw [go_key acc _ r [c] hr]
  simp only [parseAttrsGo, if_true]
  rw [go_val ((acc)) _ _ v [] hv]
  simp [parseAttrsGo]

/-- a text that the reader, started between items, turns into the pairs `ps` -/
def ReadsAs (t : Str) (ps : Attrs) : Prop := ∀ acc, parseAttrsGo PS.start acc t = some (acc.reverse ++ ps)

theorem readsAs_nil : ReadsAs [] [] := by intro acc; simp [parseAttrsGo]

theorem readsAs_blank {t : Str} {ps : Attrs} (h : ReadsAs t ps) : ReadsAs (' ' :: t) ps := by
  intro acc
  have := go_blanks acc t 1
  simp only [List.replicate_one, List.singleton_append] at this
  rw [this]; exact h acc

theorem readsAs_item {t : Str} {ps : Attrs} {k v : Str} (hk : CleanKey k) (hv : CleanVal v) (h : ReadsAs t ps) :
    ReadsAs (item k v ++ t) ((k, v) :: ps) := by
  intro acc
  rw [go_item acc t k v hk hv, h]
  simp

theorem readsAs_append_blank {t : Str} {ps : Attrs} {k v : Str} (hk : CleanKey k) (hv : CleanVal v) (h : ReadsAs t ps) :
    ReadsAs (item k v ++ ' ' :: t) ((k, v) :: ps) := readsAs_item hk hv (readsAs_blank h)

theorem readsAs_parse {t : Str} {ps : Attrs} (h : ReadsAs t ps) : parseAttrs t = some ps := by
  simpa [parseAttrs] using h []

/-- the text `set_gene_attributes` assembles from pairs: `key "value"; ` each -/
def giText (ps : Attrs) : Str := ps.flatMap (fun kv => item kv.1 kv.2 ++ [' '])

theorem readsAs_giText_append : ∀ (ps : Attrs) {t : Str} {qs : Attrs}, CleanAttrs ps → ReadsAs t qs →
    ReadsAs (giText ps ++ t) (ps ++ qs)
  | [], _, _, _, h => by simpa [giText] using h
  | (k, v) :: r, t, qs, hc, h => by
      have h1 := hc (k, v) (by simp)
      have ih := readsAs_giText_append r (fun kv hkv => hc kv (by simp [hkv])) h
      have : giText ((k, v) :: r) ++ t = item k v ++ ' ' :: (giText r ++ t) := by simp [giText]
      rw [this]
      exact readsAs_append_blank h1.1 h1.2 ih

theorem readsAs_giText (ps : Attrs) (hc : CleanAttrs ps) : ReadsAs (giText ps) ps := by
  simpa using readsAs_giText_append ps hc readsAs_nil

/-- `" ".join` of items followed by a text that starts between items -/
theorem readsAs_join : ∀ (ps : Attrs) {t : Str} {qs : Attrs}, CleanAttrs ps → ReadsAs t qs →
    ReadsAs (pyJoin [' '] (ps.map (fun kv => item kv.1 kv.2)) ++ t) (ps ++ qs)
  | [], _, _, _, h => by simpa [pyJoin] using h
  | [(k, v)], t, qs, hc, h => by
      have h1 := hc (k, v) (by simp)
      simpa [pyJoin] using readsAs_item h1.1 h1.2 h
  | (k, v) :: kv2 :: r, t, qs, hc, h => by
      have h1 := hc (k, v) (by simp)
      have ih := readsAs_join (kv2 :: r) (fun kv hkv => hc kv (by simp at hkv ⊢; exact Or.inr hkv)) h
      have : pyJoin [' '] (((k, v) :: kv2 :: r).map (fun kv => item kv.1 kv.2)) ++ t
          = item k v ++ ' ' :: (pyJoin [' '] ((kv2 :: r).map (fun kv => item kv.1 kv.2)) ++ t) := by
        simp [pyJoin]
      rw [this]
      exact readsAs_append_blank h1.1 h1.2 ih

/-! ### tab splitting -/

theorem pySplitGo_cons (sep : Char) : ∀ (a cur b : Str), sep ∉ a →
    pySplitGo sep cur (a ++ sep :: b) = (cur ++ a) :: pySplitGo sep [] b
  | [], cur, b, _ => by simp [pySplitGo]
  | c :: cs, cur, b, h => by
      have hc : c ≠ sep := fun e => h (by simp [e])
      have := pySplitGo_cons sep cs (cur ++ [c]) b (fun hx => h (by simp [hx]))
      simp only [List.cons_append, pySplitGo, hc, if_false]
      rw [this]; simp

theorem pySplit_cons (sep : Char) (a b : Str) (h : sep ∉ a) : pySplit sep (a ++ sep :: b) = a :: pySplit sep b := by
  simpa [pySplit] using pySplitGo_cons sep a [] b h

theorem pySplit_no_sep (sep : Char) (a : Str) (h : sep ∉ a) : pySplit sep a = [a] := by
  simpa [pySplit] using pySplitGo_no_sep sep a [] h

theorem tab_not_mem_pyStrNat (n : Nat) : '\t' ∉ pyStrNat n := not_digit_not_mem (by decide) n

theorem tab_not_mem_pyStrInt (n : Int) : '\t' ∉ pyStrInt n := by
  unfold pyStrInt
  split
  · simp only [List.mem_cons, not_or]; exact ⟨by decide, tab_not_mem_pyStrNat _⟩
  · exact tab_not_mem_pyStrNat _

theorem quote_not_mem_pyStrNat (n : Nat) : '"' ∉ pyStrNat n := not_digit_not_mem (by decide) n

/-! ### columns -/

abbrev NoTab (s : Str) : Prop := '\t' ∉ s

theorem pySplit_join_tabs : ∀ (cols : List Str), cols ≠ [] → (∀ c ∈ cols, NoTab c) →
    pySplit '\t' (pyJoin ['\t'] cols) = cols
  | [], h, _ => absurd rfl h
  | [x], _, hc => by simpa [pyJoin] using pySplit_no_sep '\t' x (hc x (by simp))
  | x :: y :: r, _, hc => by
      have ih := pySplit_join_tabs (y :: r) (by simp) (fun c h => hc c (by simp at h ⊢; exact Or.inr h))
      have : pyJoin ['\t'] (x :: y :: r) = x ++ '\t' :: pyJoin ['\t'] (y :: r) := by simp [pyJoin]
      rw [this, pySplit_cons '\t' _ _ (hc x (by simp)), ih]

def kGeneId : Str := ['g', 'e', 'n', 'e', '_', 'i', 'd']
def kTranscripts : Str := ['t', 'r', 'a', 'n', 's', 'c', 'r', 'i', 'p', 't', 's']
def kTranscriptId : Str := ['t', 'r', 'a', 'n', 's', 'c', 'r', 'i', 'p', 't', '_', 'i', 'd']
def kExonNumber : Str := ['e', 'x', 'o', 'n', '_', 'n', 'u', 'm', 'b', 'e', 'r']
def kExonId : Str := ['e', 'x', 'o', 'n', '_', 'i', 'd']
def wGene : Str := ['g', 'e', 'n', 'e']
def wTranscript : Str := ['t', 'r', 'a', 'n', 's', 'c', 'r', 'i', 'p', 't']

theorem cleanKey_geneId : CleanKey kGeneId := ⟨⟨_, _, rfl, by decide⟩, by simp [kGeneId, keyChar]⟩
theorem cleanKey_transcripts : CleanKey kTranscripts := ⟨⟨_, _, rfl, by decide⟩, by simp [kTranscripts, keyChar]⟩
theorem cleanKey_transcriptId : CleanKey kTranscriptId := ⟨⟨_, _, rfl, by decide⟩, by simp [kTranscriptId, keyChar]⟩
theorem cleanKey_exonNumber : CleanKey kExonNumber := ⟨⟨_, _, rfl, by decide⟩, by simp [kExonNumber, keyChar]⟩
theorem cleanKey_exonId : CleanKey kExonId := ⟨⟨_, _, rfl, by decide⟩, by simp [kExonId, keyChar]⟩

theorem pyStrInt_ofNat (n : Nat) : pyStrInt (n : Int) = pyStrNat n := by
  simp [pyStrInt]

theorem noTab_item {k v : Str} (hk : NoTab k) (hv : NoTab v) : NoTab (item k v) := by
  simp only [NoTab, item, List.mem_append, List.mem_cons, not_or] at *
  refine ⟨hk, by decide, by decide, hv, by decide, by decide, ?_⟩
  simp

theorem gene_render (chr source strand gid extra : Str) (s e : Int) (ntx : Nat) (id : Option Str) :
    renderLine (SLine.gene chr source s e strand gid ntx extra, id) = some
      (pyJoin ['\t'] [chr, source, wGene, pyStrInt s, pyStrInt e, ['.'], strand, ['.'],
         item kGeneId gid ++ ' ' :: (item kTranscripts (pyStrNat ntx) ++ ' ' :: extra)] ++ ['\n']) := by
  simp [renderLine, pyFormat, gene_fmt_segs, applyFmt, pyJoin, item, kGeneId, kTranscripts, wGene, pyStrInt_ofNat]

theorem transcript_render (chr source strand gid tid extra : Str) (s e : Int) (additional : Attrs) (id : Option Str) :
    renderLine (SLine.transcript chr source s e strand gid tid additional extra, id) = some
      (pyJoin ['\t'] [chr, source, wTranscript, pyStrInt s, pyStrInt e, ['.'], strand, ['.'],
         item kGeneId gid ++ ' ' :: (item kTranscriptId tid ++ ' ' ::
           (pyJoin [' '] (additional.map (fun kv => item kv.1 kv.2)) ++ extra))] ++ ['\n']) := by
  have hj : tm_attr_join.toList = [' '] := by decide +kernel
  simp [renderLine, additionalStr_eq, hj, pyFormat, transcript_fmt_segs, applyFmt, pyJoin, item, kGeneId, kTranscriptId,
    wTranscript]

theorem feature_render (chr source ftype strand gid tid extra eid : Str) (s e : Int) (num : Nat) :
    renderLine (SLine.feature chr source ftype s e strand gid tid num extra, some eid) = some
      (pyJoin ['\t'] [chr, source, ftype, pyStrInt s, pyStrInt e, ['.'], strand, ['.'],
         item kGeneId gid ++ ' ' :: (item kTranscriptId tid ++ ' ' :: (item kExonNumber (pyStrNat num) ++ ' ' ::
           (item kExonId eid ++ ' ' :: extra)))] ++ ['\n']) := by
  simp [renderLine, pyFormat, prefix_fmt_segs, coord_fmt_segs, suffix_fmt_segs, feature_attr_fmt_segs, applyFmt, pyJoin,
    item, kGeneId, kTranscriptId, kExonNumber, kExonId, pyStrInt_ofNat]

/-! ### association lists -/

theorem assocGet_set_same {α} (k : Str) (v : α) : ∀ l : List (Str × α), assocGet k (assocSet k v l) = some v
  | [] => by simp [assocSet, assocGet]
  | (k', v') :: r => by
      by_cases e : k = k'
      · simp [assocSet, assocGet, e]
      · simp [assocSet, assocGet, e, assocGet_set_same k v r]

theorem assocGet_set_other {α} (k k' : Str) (v : α) (h : k' ≠ k) :
    ∀ l : List (Str × α), assocGet k' (assocSet k v l) = assocGet k' l
  | [] => by simp [assocSet, assocGet, h]
  | (k2, v2) :: r => by
      by_cases e : k = k2
      · subst e; simp [assocSet, assocGet, h]
      · by_cases e' : k' = k2
        · simp [assocSet, assocGet, e, e']
        · simp [assocSet, assocGet, e, e', assocGet_set_other k k' v h r]


end IsoVerif.Lemmas.C03T
