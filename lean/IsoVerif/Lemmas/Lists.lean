import IsoVerif.Lemmas.Interval
import IsoVerif.Lemmas.BinSearch

namespace IsoVerif.Lemmas
open IsoVerif.Gen IsoVerif.Model

/-- number of positions of `r` that are `< p` -/
def lenBelow (r : Iv) (p : Int) : Int := max 0 (min r.2 (p - 1) - r.1 + 1)
/-- number of positions of `r` that are `> p` -/
def lenAbove (r : Iv) (p : Int) : Int := max 0 (r.2 - max r.1 (p + 1) + 1)

/-- exon lists as produced from an alignment: well formed, each exon separated from the next by ≥ 1 base -/
def Gapped : List Iv → Prop
  | [] => True
  | [a] => a.1 ≤ a.2
  | a :: b :: t => a.1 ≤ a.2 ∧ a.2 + 1 < b.1 ∧ Gapped (b :: t)

theorem SD_head_le {a : Iv} {l : List Iv} (h : SD (a :: l)) (w : WFl (a :: l)) : ∀ r ∈ a :: l, a.1 ≤ r.1 := by
  intro r hr
  cases hr with
  | head => omega
  | tail _ hr' => have := SD_all_right h w r hr'; have := WFl_head w; omega

theorem SD_le_last {l : List Iv} (h : SD l) (w : WFl l) (t : Iv) (ht : l.getLast? = some t) :
    ∀ r ∈ l, r.2 ≤ t.2 := by
  induction l with
  | nil => intro r hr; cases hr
  | cons a rest ih =>
    intro r hr
    cases rest with
    | nil =>
      simp at ht; subst ht
      simp at hr; subst hr; omega
    | cons b rest' =>
      have ht' : (b :: rest').getLast? = some t := by simpa [List.getLast?_cons_cons] using ht
      have hall := ih (SD_tail h) (WFl_tail w) ht'
      cases hr with
      | head =>
        have hb := hall b (by simp)
        have := h.1; have := w b (by simp); omega
      | tail _ hr' => exact hall r hr'

theorem sumToLoop_eq (p : Int) (l : List Iv) (h : SD l) (w : WFl l) :
    sumToLoop p l = (l.map (lenBelow · p)).sum := by
  induction l with
  | nil => rfl
  | cons a rest ih =>
    have ha := WFl_head w
    simp only [sumToLoop, List.map_cons, List.sum_cons]
    split
    · rename_i hlt
      rw [ih (SD_tail h) (WFl_tail w)]
      simp only [lenBelow]
      split <;> omega
    · rename_i hge
      have hz : ∀ r ∈ rest, lenBelow r p = 0 := by
        intro r hr
        have := SD_all_right h w r hr
        have := w r (by simp [hr])
        simp only [lenBelow]; omega
      have : (rest.map (lenBelow · p)).sum = 0 := by
        clear ih
        induction rest with
        | nil => rfl
        | cons b t ih2 =>
          simp only [List.map_cons, List.sum_cons]
          rw [hz b (by simp)]
          have := ih2 (by
            cases t with
            | nil => trivial
            | cons c t' => exact ⟨by have := h.1; have := h.2.1; have := w b (by simp); omega, h.2.2⟩)
            (fun r hr => w r (by simp at hr ⊢; rcases hr with rfl | hr; exact Or.inl rfl; exact Or.inr (Or.inr hr)))
            (fun r hr => hz r (by simp [hr]))
          omega
      simp only [lenBelow] at *
      omega

theorem sum_zero_of_all_zero (l : List Iv) (f : Iv → Int) (h : ∀ r ∈ l, f r = 0) : (l.map f).sum = 0 := by
  induction l with
  | nil => rfl
  | cons a t ih =>
    simp only [List.map_cons, List.sum_cons]
    rw [h a (by simp), ih (fun r hr => h r (by simp [hr]))]; rfl

theorem total_eq_sum_of_all (l : List Iv) (f : Iv → Int) (h : ∀ r ∈ l, f r = r.2 - r.1 + 1) :
    intervalsTotalLength l = (l.map f).sum := by
  induction l with
  | nil => rfl
  | cons a t ih =>
    simp only [intervalsTotalLength, interval_len, List.map_cons, List.sum_cons]
    rw [h a (by simp), ih (fun r hr => h r (by simp [hr]))]

theorem sum_to_point_aux (l : List Iv) (p : Int) (h : SD l) (w : WFl l) (hne : l ≠ []) :
    sumIntervalsToPoint l p = some ((l.map (lenBelow · p)).sum) := by
  cases l with
  | nil => exact absurd rfl hne
  | cons a rest =>
    obtain ⟨t, ht⟩ : ∃ t, (a :: rest).getLast? = some t := ⟨(a :: rest).getLast (by simp), List.getLast?_eq_some_getLast (by simp)⟩
    simp only [sumIntervalsToPoint, List.head?_cons, ht]
    split
    · rename_i hle
      congr 1
      symm
      apply sum_zero_of_all_zero
      intro r hr
      have := SD_head_le h w r hr
      have := w r hr
      simp only [lenBelow]; omega
    · split
      · rename_i hgt
        congr 1
        apply total_eq_sum_of_all
        intro r hr
        have := SD_le_last h w t ht r hr
        have := w r hr
        simp only [lenBelow]; omega
      · congr 1
        exact sumToLoop_eq p _ h w

/-- reversed view: a list whose reverse is SD -/
theorem sumFromLoop_eq (p : Int) (l : List Iv) (h : SD l.reverse) (w : WFl l) :
    sumFromLoop p l = (l.map (lenAbove · p)).sum := by
  induction l with
  | nil => rfl
  | cons a rest ih =>
    have ha := WFl_head w
    -- in l.reverse = rest.reverse ++ [a], every element of rest ends before a starts
    have hbefore : ∀ r ∈ rest, r.2 < a.1 := by
      intro r hr
      have hsd : SD (rest.reverse ++ [a]) := by simpa using h
      clear ih
      -- generic fact: SD (xs ++ [a]) → ∀ r ∈ xs, r.2 < a.1
      have gen : ∀ (xs : List Iv), SD (xs ++ [a]) → WFl xs → ∀ r ∈ xs, r.2 < a.1 := by
        intro xs
        induction xs with
        | nil => intro _ _ r hr; cases hr
        | cons x xs ihx =>
          intro hs hwx r hr
          cases xs with
          | nil =>
            simp at hr; subst hr
            exact hs.1
          | cons y ys =>
            have hs' : SD ((y :: ys) ++ [a]) := hs.2
            have hall := ihx hs' (WFl_tail hwx)
            cases hr with
            | head => have := hall y (by simp); have := hs.1; have := hwx y (by simp); omega
            | tail _ hr' => exact hall r hr'
      exact gen rest.reverse hsd (fun r hr => w r (by simp at hr; simp [hr])) r (by simp [hr])
    have hsdrest : SD rest.reverse := by
      have hsd : SD (rest.reverse ++ [a]) := by simpa using h
      have gen : ∀ (xs : List Iv), SD (xs ++ [a]) → SD xs := by
        intro xs
        induction xs with
        | nil => intro _; trivial
        | cons x xs ihx =>
          intro hs
          cases xs with
          | nil => trivial
          | cons y ys => exact ⟨hs.1, ihx hs.2⟩
      exact gen _ hsd
    simp only [sumFromLoop, List.map_cons, List.sum_cons]
    split
    · rw [ih hsdrest (WFl_tail w)]
      simp only [lenAbove]
      split <;> omega
    · have hz : ∀ r ∈ rest, lenAbove r p = 0 := by
        intro r hr
        have := hbefore r hr
        have := w r (by simp [hr])
        simp only [lenAbove]; omega
      rw [sum_zero_of_all_zero rest _ hz]
      simp only [lenAbove]; omega

theorem sum_from_point_aux (l : List Iv) (p : Int) (h : SD l) (w : WFl l) (hne : l ≠ []) :
    sumIntervalsFromPoint l p = some ((l.map (lenAbove · p)).sum) := by
  cases l with
  | nil => exact absurd rfl hne
  | cons a rest =>
    obtain ⟨t, ht⟩ : ∃ t, (a :: rest).getLast? = some t := ⟨(a :: rest).getLast (by simp), List.getLast?_eq_some_getLast (by simp)⟩
    simp only [sumIntervalsFromPoint, List.head?_cons, ht]
    split
    · rename_i hlt
      congr 1
      apply total_eq_sum_of_all
      intro r hr
      have := SD_head_le h w r hr
      have := w r hr
      simp only [lenAbove]; omega
    · split
      · rename_i hgt
        congr 1
        symm
        apply sum_zero_of_all_zero
        intro r hr
        have := SD_le_last h w t ht r hr
        have := w r hr
        simp only [lenAbove]; omega
      · congr 1
        rw [sumFromLoop_eq p _ (by simpa using h) (fun r hr => w r (by simp at hr ⊢; rcases hr with h | h; exact Or.inr h; exact Or.inl h))]
        rw [List.map_reverse, List.sum_reverse]

theorem junctions_exons_core (a : Iv) (rest : List Iv) (x y : Int) (t : Iv) (h : Gapped (a :: rest))
    (ht : (a :: rest).getLast? = some t) :
    junctionsFromBlocks ((x, a.1 - 1) :: (junctionsFromBlocks (a :: rest) ++ [(t.2 + 1, y)])) = a :: rest := by
  induction rest generalizing a x with
  | nil =>
    simp at ht; subst ht
    have : a.1 ≤ a.2 := h
    simp only [junctionsFromBlocks, List.nil_append]
    have h1 : a.1 - 1 + 1 < a.2 + 1 := by omega
    simp only [h1, if_true]
    congr 1
    ext <;> simp
  | cons b rest' ih =>
    obtain ⟨h1, h2, h3⟩ := h
    have ht' : (b :: rest').getLast? = some t := by simpa [List.getLast?_cons_cons] using ht
    have hj : junctionsFromBlocks (a :: b :: rest') = (a.2 + 1, b.1 - 1) :: junctionsFromBlocks (b :: rest') := by
      simp [junctionsFromBlocks, h2]
    rw [hj]
    simp only [List.cons_append]
    have hlt : a.1 - 1 + 1 < a.2 + 1 := by omega
    rw [junctionsFromBlocks]
    simp only [hlt, if_true]
    have := ih b (a.2 + 1) h3 ht'
    rw [this]
    congr 1
    ext <;> simp <;> omega

theorem junctions_exons_inverse_aux (ex : List Iv) (f t : Iv) (h : Gapped ex)
    (hf : ex.head? = some f) (ht : ex.getLast? = some t) :
    getExons (f.1, t.2) (junctionsFromBlocks ex) = ex := by
  cases ex with
  | nil => simp at hf
  | cons a rest =>
    simp at hf; subst hf
    simp only [getExons]
    exact junctions_exons_core a rest 0 0 t h ht

theorem getElem?_last {α} (l : List α) (t : α) (ht : l.getLast? = some t) : l[l.length - 1]? = some t := by
  rw [List.getLast?_eq_getElem?] at ht; exact ht

theorem bin_search_aux (l : List Iv) (pos : Int) (hinc : StrictInc (l.map (·.1))) (hw : WFl l)
    (f tl : Iv) (hf : l.head? = some f) (ht : l.getLast? = some tl)
    (t : Nat) (a b : Iv) (hta : l[t]? = some a) (htb : l[t + 1]? = some b)
    (hpa : a.1 ≤ pos) (hpb : pos < b.1) (hin : pos ≤ tl.2) :
    intervalBinSearch l pos = some (t : Int) := by
  have hlen : t + 1 < l.length := (List.getElem?_eq_some_iff.mp htb).1
  have hmta : (l.map (·.1))[t]? = some a.1 := by simp [hta]
  have hmtb : (l.map (·.1))[t + 1]? = some b.1 := by simp [htb]
  have hf0 : l[0]? = some f := by rw [← List.head?_eq_getElem?]; exact hf
  have hlast := getElem?_last l tl ht
  -- f.1 ≤ a.1
  have hfa : f.1 ≤ a.1 := by
    rcases Nat.eq_zero_or_pos t with h0 | hpos
    · subst h0; rw [hf0] at hta; injection hta with e; subst e; omega
    · have := strictInc_mono hinc 0 t hpos f.1 a.1 (by simp [hf0]) hmta; omega
  -- b.1 ≤ tl.1
  have hbt : b.1 ≤ tl.1 := by
    rcases Nat.lt_or_ge (t + 1) (l.length - 1) with h' | h'
    · have := strictInc_mono hinc (t + 1) (l.length - 1) h' b.1 tl.1 hmtb (by simp [hlast]); omega
    · have : t + 1 = l.length - 1 := by omega
      rw [this, hlast] at htb; injection htb with e; subst e; omega
  simp only [intervalBinSearch, hf, ht]
  have hno : ¬ (pos > tl.2 ∨ pos < f.1) := by omega
  have hnl : ¬ (pos ≥ tl.1) := by omega
  simp only [hno, hnl, if_false]
  rw [binSearchLoop_eq]
  have hlm : (l.map (·.1)).length = l.length := by simp
  have hr := rem_le ((l.length - 1) / 2)
  rw [loop_correct (l.map (·.1)) pos hinc t a.1 b.1 hmta hmtb hpa hpb (2 * l.length + 2) ((l.length - 1) / 2) ((l.length - 1) / 2)
    (by omega) (by omega) (by rw [hlm]; omega) (by split <;> omega)]
  rfl

end IsoVerif.Lemmas
