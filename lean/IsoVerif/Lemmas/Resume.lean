/-
Helper lemmas for C07 (Model/Resume.lean): the lock/data invariant `J`, its preservation along event lists,
and the facts about `runActs` / `runStages` used by Props/C07.lean.
-/
import IsoVerif.Model.Resume

namespace IsoVerif.Lemmas.Resume
open IsoVerif.Model.Resume

/-! ### file-system basics -/

@[simp] theorem set_same (fs : FS) (p : Path) (v : Option Tok) : (fs.set p v) p = v := by simp [FS.set]
theorem set_other (fs : FS) {p q : Path} (v : Option Tok) (h : q ≠ p) : (fs.set p v) q = fs q := by simp [FS.set, h]

theorem has_set (fs : FS) (p q : Path) (v : Option Tok) :
    (fs.set p v).has q = if q = p then v.isSome else fs.has q := by
  simp only [FS.has, FS.set]; split <;> rfl

theorem good_set (fs : FS) (p q : Path) (v : Option Tok) :
    (fs.set p v).good q = if q = p then (v == some Tok.good) else fs.good q := by
  simp only [FS.good, FS.set]; split <;> rfl

theorem good_has {fs : FS} {p : Path} (h : fs.good p = true) : fs.has p = true := by
  simp only [FS.good, beq_iff_eq] at h; simp [FS.has, h]

@[simp] theorem empty_has (p : Path) : FS.empty.has p = false := rfl
@[simp] theorem empty_good (p : Path) : FS.empty.good p = false := rfl

theorem applyAll_append (fs : FS) (a b : List Ev) : applyAll fs (a ++ b) = applyAll (applyAll fs a) b := by
  induction a generalizing fs with
  | nil => rfl
  | cons e a ih => simp [applyAll, ih]

/-- events on other paths do not change the value at `p` -/
theorem applyAll_untouched (fs : FS) (es : List Ev) (p : Path) (h : ∀ e ∈ es, e.path ≠ p) :
    applyAll fs es p = fs p := by
  induction es generalizing fs with
  | nil => rfl
  | cons e es ih =>
    simp only [applyAll]
    rw [ih]
    · exact set_other fs _ (fun hp => h e (by simp) hp.symm)
    · intro e' he'; exact h e' (by simp [he'])

/-! ### a predicate at every prefix of an event list -/

def AllP (P : FS → Prop) : FS → List Ev → Prop
  | fs, [] => P fs
  | fs, e :: es => P fs ∧ AllP P (apply fs e) es

theorem AllP_head {P : FS → Prop} {fs : FS} {es : List Ev} (h : AllP P fs es) : P fs := by
  cases es with
  | nil => exact h
  | cons e es => exact h.1

theorem AllP_last {P : FS → Prop} {fs : FS} {es : List Ev} (h : AllP P fs es) : P (applyAll fs es) := by
  induction es generalizing fs with
  | nil => exact h
  | cons e es ih => exact ih h.2

theorem AllP_append {P : FS → Prop} {fs : FS} {a b : List Ev} :
    AllP P fs (a ++ b) ↔ AllP P fs a ∧ AllP P (applyAll fs a) b := by
  induction a generalizing fs with
  | nil => simp only [List.nil_append, applyAll, AllP]; exact ⟨fun h => ⟨AllP_head h, h⟩, fun h => h.2⟩
  | cons e a ih =>
    simp only [List.cons_append, AllP, applyAll, ih]
    exact ⟨fun ⟨h1, h2, h3⟩ => ⟨⟨h1, h2⟩, h3⟩, fun ⟨⟨h1, h2⟩, h3⟩ => ⟨h1, h2, h3⟩⟩

theorem AllP_take {P : FS → Prop} {fs : FS} {es : List Ev} (h : AllP P fs es) (k : Nat) :
    P (applyAll fs (es.take k)) := by
  induction es generalizing fs k with
  | nil => simp only [List.take_nil, applyAll]; exact h
  | cons e es ih =>
    cases k with
    | zero => simpa [applyAll] using h.1
    | succ k => simpa [applyAll] using ih h.2 k

/-! ### locks and the data they guard -/

/-- the files a lock vouches for (in configuration `cfg`) -/
def guarded (cfg : Cfg) : Path → List Path
  | .rgLock => if cfg.rg = .file then cfg.chrs.map Path.rgSplit else []
  | .collected c => if c ∈ cfg.chrs then [.save c, .groups c, .bamstat c] else []
  | .lock => .info :: cfg.chrs.flatMap (fun c => [Path.multimap c, Path.save c])
  | .processed c => if c ∈ cfg.chrs then chrOutputs cfg c else []
  | .refFai => if idxTrusted cfg then [.refFaiData] else []     -- an index that exists is read as it is
  | _ => []

def isLock : Path → Bool
  | .rgLock | .collected _ | .lock | .processed _ | .refFai => true
  | _ => false

theorem mem_trStatPaths {cfg : Cfg} {c : Chr} {d : Path} (h : d ∈ trStatPaths cfg c) : d = .trStat c := by
  simp only [trStatPaths] at h; split at h <;> simp_all

theorem mem_chrOutputs {cfg : Cfg} {c : Chr} {d : Path} (h : d ∈ chrOutputs cfg c) :
    (∃ s, d = .part s c) ∨ (∃ s, d = .partLin s c) ∨ (∃ s, d = .partStats s c) ∨ d = .readStat c ∨ d = .trStat c := by
  simp only [chrOutputs, List.mem_append, List.mem_map, List.mem_flatMap, List.mem_cons, List.not_mem_nil, or_false] at h
  rcases h with (((⟨s, _, rfl⟩ | ⟨s, _, rfl | rfl⟩) | ⟨s, _, rfl | rfl⟩) | ⟨s, _, rfl⟩) | rfl | h
  · exact Or.inl ⟨s, rfl⟩
  · exact Or.inl ⟨s, rfl⟩
  · exact Or.inr (Or.inr (Or.inl ⟨s, rfl⟩))
  · exact Or.inl ⟨s, rfl⟩
  · exact Or.inr (Or.inl ⟨s, rfl⟩)
  · exact Or.inl ⟨s, rfl⟩
  · exact Or.inr (Or.inr (Or.inr (Or.inl rfl)))
  · exact Or.inr (Or.inr (Or.inr (Or.inr (mem_trStatPaths h))))

theorem guarded_isLock {cfg : Cfg} {l d : Path} (h : d ∈ guarded cfg l) : isLock l = true := by
  cases l <;> simp_all [guarded, isLock]

theorem guarded_not_lock {cfg : Cfg} {l d : Path} (h : d ∈ guarded cfg l) : isLock d = false := by
  cases l <;> simp only [guarded] at h
  all_goals try (simp at h; done)
  · split at h
    · simp only [List.mem_map] at h; obtain ⟨c, _, rfl⟩ := h; rfl
    · simp at h
  · split at h
    · simp only [List.mem_cons, List.not_mem_nil, or_false] at h; rcases h with rfl | rfl | rfl <;> rfl
    · simp at h
  · simp only [List.mem_cons, List.mem_flatMap, List.not_mem_nil, or_false] at h
    rcases h with rfl | ⟨c, _, rfl | rfl⟩ <;> rfl
  · split at h
    · rcases mem_chrOutputs h with ⟨s, rfl⟩ | ⟨s, rfl⟩ | ⟨s, rfl⟩ | rfl | rfl <;> rfl
    · simp at h
  · split at h
    · simp only [List.mem_cons, List.not_mem_nil, or_false] at h; subst h; rfl
    · simp at h

theorem guarded_nil_of_not_lock {cfg : Cfg} {p : Path} (h : isLock p = false) : guarded cfg p = [] := by
  cases p <;> simp_all [guarded, isLock]

theorem not_mem_guarded_self (cfg : Cfg) (p : Path) : p ∉ guarded cfg p := by
  intro h
  have h1 := guarded_isLock h
  have h2 := guarded_not_lock h
  simp [h1] at h2

/-- the invariant: `.params` is complete and every existing lock vouches only for complete, correct files -/
def J (cfg : Cfg) (fs : FS) : Prop :=
  fs.good .params = true ∧ ∀ l, fs.has l = true → ∀ d ∈ guarded cfg l, fs.good d = true

theorem J_set {cfg : Cfg} {fs : FS} {p : Path} {v : Option Tok} (h : J cfg fs) (hp : p ≠ .params)
    (hA : v ≠ some .good → ∀ l, p ∈ guarded cfg l → fs.has l = false)
    (hB : v ≠ none → ∀ d ∈ guarded cfg p, fs.good d = true) : J cfg (fs.set p v) := by
  refine ⟨?_, ?_⟩
  · rw [good_set]; simp [Ne.symm hp, h.1]
  · intro l hl d hd
    rw [good_set]
    by_cases hdp : d = p
    · subst hdp
      simp only [if_true]
      by_cases hv : v = some .good
      · simp [hv]
      · have hl' := hA hv l hd
        have hne : l ≠ d := fun e => not_mem_guarded_self cfg d (e ▸ hd)
        rw [has_set] at hl
        simp [hne, hl'] at hl
    · simp only [hdp, if_false]
      rw [has_set] at hl
      by_cases hlp : l = p
      · subst hlp
        simp only [if_true] at hl
        exact hB (by intro e; simp [e] at hl) d hd
      · simp only [hlp, if_false] at hl
        exact h.2 l hl d hd

/-- a list of events that creates no lock and writes unfinished data only where no existing lock vouches for it
    keeps the invariant at every prefix -/
theorem allJ_body {cfg : Cfg} {fs : FS} {body : List Ev} (h : J cfg fs)
    (hp : ∀ e ∈ body, e.path ≠ .params)
    (hl : ∀ e ∈ body, isLock e.path = true → e.val = none)
    (hd : ∀ e ∈ body, e.val ≠ some .good → ∀ l, e.path ∈ guarded cfg l → fs.has l = false) :
    AllP (J cfg) fs body := by
  induction body generalizing fs with
  | nil => exact h
  | cons e es ih =>
    refine ⟨h, ih ?_ ?_ ?_ ?_⟩
    · apply J_set h (hp e (by simp))
      · exact hd e (by simp)
      · intro hv d hdm
        have := guarded_isLock hdm
        exact absurd (hl e (by simp) this) hv
    · intro e' he'; exact hp e' (by simp [he'])
    · intro e' he'; exact hl e' (by simp [he'])
    · intro e' he' hv l hm
      have h0 := hd e' (by simp [he']) hv l hm
      simp only [apply]
      rw [has_set]
      by_cases hle : l = e.path
      · subst hle
        have := hl e (by simp) (guarded_isLock hm)
        simp [this]
      · simp [hle, h0]

/-- creating a lock whose data is complete keeps the invariant -/
theorem J_create_lock {cfg : Cfg} {fs : FS} {l : Path} (h : J cfg fs) (hlock : isLock l = true)
    (hg : ∀ d ∈ guarded cfg l, fs.good d = true) : J cfg (apply fs (.create l)) := by
  show J cfg (fs.set l (some .bad))
  apply J_set h
  · intro e; subst e; simp [isLock] at hlock
  · intro _ l' hm
    have := guarded_not_lock hm
    simp [hlock] at this
  · intro _ d hd; exact hg d hd

theorem refOK_frame {cfg : Cfg} {fs fs' : FS} (h1 : fs' .refFa = fs .refFa) (h2 : fs' .refFaiData = fs .refFaiData) :
    refOK cfg fs' = refOK cfg fs := by
  simp only [refOK, FS.good, h1, h2]

/-! ### actions that do not raise -/

def eventsOf : List Act → List Ev
  | [] => []
  | .ev e :: as => e :: eventsOf as
  | .exist _ :: as => eventsOf as
  | .load _ :: as => eventsOf as
  | .rm p :: as => .remove p :: eventsOf as

def ChecksOK : List Act → FS → Prop
  | [], _ => True
  | .ev e :: as, fs => ChecksOK as (apply fs e)
  | .exist p :: as, fs => fs.has p = true ∧ ChecksOK as fs
  | .load p :: as, fs => fs.good p = true ∧ ChecksOK as fs
  | .rm p :: as, fs => fs.has p = true ∧ ChecksOK as (apply fs (.remove p))

theorem runActs_fs (as : List Act) (fs : FS) : (runActs as fs).fs = applyAll fs (runActs as fs).evs := by
  induction as generalizing fs with
  | nil => rfl
  | cons a as ih =>
    cases a with
    | ev e => simp only [runActs, applyAll]; exact ih _
    | exist p => simp only [runActs]; split <;> first | exact ih _ | rfl
    | load p => simp only [runActs]; split <;> first | exact ih _ | rfl
    | rm p => simp only [runActs]; split <;> first | (simp only [applyAll]; exact ih _) | rfl

theorem runActs_of_checks {as : List Act} {fs : FS} (h : ChecksOK as fs) :
    (runActs as fs).ok = true ∧ (runActs as fs).evs = eventsOf as := by
  induction as generalizing fs with
  | nil => exact ⟨rfl, rfl⟩
  | cons a as ih =>
    cases a with
    | ev e => have := ih h; simp only [runActs, eventsOf]; exact ⟨this.1, by rw [this.2]⟩
    | exist p => have := ih h.2; simp only [runActs, eventsOf, h.1, if_true]; exact this
    | load p =>
      have := ih h.2
      have hl : fs.loadable p = true := by
        have h1 := h.1; simp only [FS.good, beq_iff_eq] at h1; simp [FS.loadable, h1]
      simp only [runActs, eventsOf, hl, if_true]; exact this
    | rm p => have := ih h.2; simp only [runActs, eventsOf, h.1, if_true]; exact ⟨this.1, by rw [this.2]⟩

theorem eventsOf_append (a b : List Act) : eventsOf (a ++ b) = eventsOf a ++ eventsOf b := by
  induction a with
  | nil => rfl
  | cons x a ih => cases x <;> simp [eventsOf, ih]

theorem checks_append {a b : List Act} {fs : FS} :
    ChecksOK (a ++ b) fs ↔ ChecksOK a fs ∧ ChecksOK b (applyAll fs (eventsOf a)) := by
  induction a generalizing fs with
  | nil => simp [ChecksOK, eventsOf, applyAll]
  | cons x a ih =>
    cases x <;> simp only [List.cons_append, ChecksOK, eventsOf, applyAll, ih, and_assoc]

@[simp] theorem eventsOf_evs (l : List Ev) : eventsOf (evs l) = l := by
  induction l with
  | nil => rfl
  | cons e l ih => simp only [evs, List.map_cons, eventsOf] at *; rw [ih]

theorem checks_evs (l : List Ev) (fs : FS) : ChecksOK (evs l) fs := by
  induction l generalizing fs with
  | nil => trivial
  | cons e l ih => exact ih _

theorem runStages_fs (ss : List Stage) (fs : FS) : (runStages ss fs).fs = applyAll fs (runStages ss fs).evs := by
  induction ss generalizing fs with
  | nil => rfl
  | cons s ss ih =>
    simp only [runStages]
    split
    · simp only [applyAll_append, ← runActs_fs]; exact ih _
    · exact runActs_fs _ _

theorem runStages_append (a b : List Stage) (fs : FS) :
    runStages (a ++ b) fs =
      if (runStages a fs).ok then
        ⟨(runStages a fs).evs ++ (runStages b (runStages a fs).fs).evs, (runStages b (runStages a fs).fs).fs,
         (runStages b (runStages a fs).fs).ok⟩
      else runStages a fs := by
  induction a generalizing fs with
  | nil => simp [runStages]
  | cons s a ih =>
    simp only [List.cons_append, runStages]
    by_cases h1 : (runActs (s fs) fs).ok = true
    · simp only [h1, if_true, ih]
      by_cases h2 : (runStages a (runActs (s fs) fs).fs).ok = true
      · simp [h2, List.append_assoc]
      · simp [h2]
    · simp [h1]

end IsoVerif.Lemmas.Resume
