import IsoVerif.Lemmas.Lists

namespace IsoVerif.Lemmas
open IsoVerif.Gen IsoVerif.Model

theorem pyGet?_nonneg {α} (l : List α) (i : Nat) : pyGet? l (i : Int) = l[i]? := by
  simp [pyGet?]

/-- the reversed search at index `ind ≥ 1` follows the forward loop at `ind − 1` on the list `ends + 1`
    (`e[j] < pos ≤ e[j+1]` ⟺ `e[j]+1 ≤ pos < e[j+1]+1`), as long as that forward run succeeds -/
theorem rev_of_fwd (l : List Iv) (pos : Int) (hinc : StrictInc (l.map (fun r => r.2 + 1))) :
    ∀ fuel ind step t, 1 ≤ ind →
      loopStarts (l.map (fun r => r.2 + 1)) pos fuel (ind - 1) step = some t →
      binSearchRevLoop l pos fuel ind step = some (t + 1) := by
  intro fuel
  induction fuel with
  | zero => intro ind step t _ h; simp [loopStarts] at h
  | succ fuel ih =>
    intro ind step t hind h
    obtain ⟨j, rfl⟩ : ∃ j, ind = j + 1 := ⟨ind - 1, by omega⟩
    simp only [Nat.add_sub_cancel] at h
    unfold loopStarts at h
    unfold binSearchRevLoop
    have hcast : ((j + 1 : Nat) : Int) - 1 = (j : Int) := by omega
    rw [hcast, pyGet?_nonneg]
    simp only [List.getElem?_map] at h
    cases h1 : l[j]? with
    | none => simp [h1] at h
    | some a =>
      cases h2 : l[j + 1]? with
      | none => simp [h1, h2] at h
      | some b =>
        simp only [h1, h2, Option.map_some] at h ⊢
        have hab : a.2 + 1 < b.2 + 1 :=
          strictInc_mono hinc j (j + 1) (by omega) _ _ (by simp [h1]) (by simp [h2])
        by_cases hit : a.2 + 1 ≤ pos ∧ pos < b.2 + 1
        · simp only [hit, and_self, if_true] at h
          have hit' : a.2 < pos ∧ pos ≤ b.2 := by omega
          simp only [hit', and_self, if_true]
          injection h with h; subst h; rfl
        · simp only [hit, if_false] at h
          have hit' : ¬ (a.2 < pos ∧ pos ≤ b.2) := by omega
          simp only [hit', if_false]
          by_cases hlt : pos < a.2 + 1
          · simp only [hlt, if_true] at h
            have hgt : ¬ pos > b.2 := by omega
            simp only [hgt, if_false]
            by_cases hs : max 1 (step / 2) ≤ j
            · simp only [hs, if_true] at h
              have hs' : max 1 (step / 2) ≤ j + 1 := by omega
              simp only [hs', if_true]
              have := ih (j + 1 - max 1 (step / 2)) (max 1 (step / 2)) t (by omega)
                (by rw [show j + 1 - max 1 (step / 2) - 1 = j - max 1 (step / 2) by omega]; exact h)
              exact this
            · simp [hs] at h
          · simp only [hlt, if_false] at h
            have hgt : pos > b.2 := by omega
            simp only [hgt, if_true]
            have := ih (j + 1 + max 1 (step / 2)) (max 1 (step / 2)) t (by omega)
              (by rw [show j + 1 + max 1 (step / 2) - 1 = j + max 1 (step / 2) by omega]; exact h)
            exact this

theorem bin_search_rev_aux (l : List Iv) (pos : Int) (hinc : StrictInc (l.map (fun r => r.2 + 1)))
    (f tl : Iv) (hf : l.head? = some f) (ht : l.getLast? = some tl)
    (t : Nat) (a b : Iv) (hta : l[t]? = some a) (htb : l[t + 1]? = some b)
    (hpa : a.2 < pos) (hpb : pos ≤ b.2) (hin : f.1 ≤ pos) :
    intervalBinSearchRev l pos = some ((t : Int) + 1) := by
  have hlen : t + 1 < l.length := (List.getElem?_eq_some_iff.mp htb).1
  have hmta : (l.map (fun r => r.2 + 1))[t]? = some (a.2 + 1) := by simp [hta]
  have hmtb : (l.map (fun r => r.2 + 1))[t + 1]? = some (b.2 + 1) := by simp [htb]
  have hf0 : l[0]? = some f := by rw [← List.head?_eq_getElem?]; exact hf
  have hlast := getElem?_last l tl ht
  have hfa : f.2 ≤ a.2 := by
    rcases Nat.eq_zero_or_pos t with h0 | hpos
    · subst h0; rw [hf0] at hta; injection hta with e; subst e; omega
    · have := strictInc_mono hinc 0 t hpos (f.2 + 1) (a.2 + 1) (by simp [hf0]) hmta; omega
  have hbt : b.2 ≤ tl.2 := by
    rcases Nat.lt_or_ge (t + 1) (l.length - 1) with h' | h'
    · have := strictInc_mono hinc (t + 1) (l.length - 1) h' (b.2 + 1) (tl.2 + 1) hmtb (by simp [hlast]); omega
    · have : t + 1 = l.length - 1 := by omega
      rw [this, hlast] at htb; injection htb with e; subst e; omega
  simp only [intervalBinSearchRev, hf, ht]
  have hno : ¬ (pos > tl.2 ∨ pos < f.1) := by omega
  have hnl : ¬ (pos ≤ f.2) := by omega
  simp only [hno, hnl, if_false]
  have hlm : (l.map (fun r => r.2 + 1)).length = l.length := by simp
  by_cases h3 : 3 ≤ l.length
  · have hr := rem_le ((l.length - 1) / 2)
    have hfw := loop_correct (l.map (fun r => r.2 + 1)) pos hinc t (a.2 + 1) (b.2 + 1) hmta hmtb (by omega) (by omega)
      (2 * l.length + 2) ((l.length - 1) / 2 - 1) ((l.length - 1) / 2)
      (by omega) (by omega) (by rw [hlm]; omega) (by split <;> omega)
    rw [rev_of_fwd l pos hinc _ ((l.length - 1) / 2) _ t (by omega) hfw]
    simp
  · -- two intervals: one step from index 0 (Python's l[-1] wrap is harmless) to index 1
    have h2 : l.length = 2 := by omega
    have ht0 : t = 0 := by omega
    subst ht0
    match l, h2, hf0, htb, hlast with
    | [x, y], _, hf0, htb, hlast =>
      simp at hf0 htb hlast
      subst hf0; subst htb
      have e1 : ¬ (y.2 < pos ∧ pos ≤ x.2) := by omega
      have e2 : x.2 < pos := by omega
      simp [binSearchRevLoop, pyGet?, e1, e2, hpb]

end IsoVerif.Lemmas
