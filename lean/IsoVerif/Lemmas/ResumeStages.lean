/-
C07: stage-by-stage facts about a run of the repaired code (`fixed`) from a file system satisfying the invariant `J`:
every stage completes, keeps `J` at every prefix of its events, and establishes what the next stages need.
-/
import IsoVerif.Lemmas.Resume

namespace IsoVerif.Lemmas.Resume
open IsoVerif.Model.Resume

structure WF (cfg : Cfg) : Prop where
  nd : cfg.chrs.Nodup
  mnd : cfg.mchrs.Nodup
  bnd : cfg.bchrs.Nodup
  m_iff : ∀ c, c ∈ cfg.mchrs ↔ c ∈ cfg.chrs
  /-- with `--read_group file:…` every chromosome of the reference is in the BAM header (`split_read_group_table` writes
      one table per header contig, `create_read_grouper` opens one per reference contig); the header may list more
      contigs; without a read-group table nothing depends on the header -/
  b_sub : cfg.rg = .file → ∀ c ∈ cfg.chrs, c ∈ cfg.bchrs

/-- the locks that may vouch for a path (independent of the configuration) -/
def locksOf : Path → List Path
  | .rgSplit _ => [.rgLock]
  | .save c => [.collected c, .lock]
  | .groups c => [.collected c]
  | .bamstat c => [.collected c]
  | .multimap _ => [.lock]
  | .info => [.lock]
  | .part _ c => [.processed c]
  | .partLin _ c => [.processed c]
  | .partStats _ c => [.processed c]
  | .readStat c => [.processed c]
  | .trStat c => [.processed c]
  | .refFaiData => [.refFai]
  | _ => []

theorem mem_guarded_locksOf {cfg : Cfg} {l d : Path} (h : d ∈ guarded cfg l) : l ∈ locksOf d := by
  cases l <;> simp only [guarded] at h
  all_goals try (simp at h; done)
  · split at h
    · simp only [List.mem_map] at h; obtain ⟨c, _, rfl⟩ := h; simp [locksOf]
    · simp at h
  · split at h
    · simp only [List.mem_cons, List.not_mem_nil, or_false] at h; rcases h with rfl | rfl | rfl <;> simp [locksOf]
    · simp at h
  · simp only [List.mem_cons, List.mem_flatMap, List.not_mem_nil, or_false] at h
    rcases h with rfl | ⟨c, _, rfl | rfl⟩ <;> simp [locksOf]
  · split at h
    · rcases mem_chrOutputs h with ⟨s, rfl⟩ | ⟨s, rfl⟩ | ⟨s, rfl⟩ | rfl | rfl <;> simp [locksOf]
    · simp at h
  · split at h
    · simp only [List.mem_cons, List.not_mem_nil, or_false] at h; subst h; simp [locksOf]
    · simp at h

/-- syntactic check of a lock-free list of events: no lock, not `.params`, and only locks from `L` may vouch for the paths -/
def bodyOK (L : List Path) (body : List Ev) : Bool :=
  body.all (fun e => !isLock e.path && (e.path != Path.params) && (locksOf e.path).all (fun l => decide (l ∈ L)))

theorem allJ_of_bodyOK {cfg : Cfg} {fs : FS} {L : List Path} {body : List Ev} (h : J cfg fs)
    (hb : bodyOK L body = true) (hL : ∀ l ∈ L, fs.has l = false) : AllP (J cfg) fs body := by
  simp only [bodyOK, List.all_eq_true, Bool.and_eq_true, Bool.not_eq_true', bne_iff_ne, ne_eq, decide_eq_true_eq] at hb
  apply allJ_body h
  · intro e he; exact (hb e he).1.2
  · intro e he hl; have := (hb e he).1.1; simp [hl] at this
  · intro e he _ l hm
    exact hL l ((hb e he).2 l (mem_guarded_locksOf hm))

/-- removing locks keeps the invariant -/
theorem allJ_removeLocks {cfg : Cfg} {fs : FS} {ls : List Path} (h : J cfg fs) (hl : ∀ l ∈ ls, isLock l = true) :
    AllP (J cfg) fs (ls.map Ev.remove) := by
  apply allJ_body h
  · intro e he; simp only [List.mem_map] at he; obtain ⟨l, hl', rfl⟩ := he
    intro hp; have := hl l hl'; simp only [Ev.path] at hp; subst hp; simp [isLock] at this
  · intro e he _; simp only [List.mem_map] at he; obtain ⟨l, _, rfl⟩ := he; rfl
  · intro e he _ l' hm; simp only [List.mem_map] at he; obtain ⟨l, hl', rfl⟩ := he
    have := guarded_not_lock hm; simp [Ev.path, hl l hl'] at this

/-- events confined to a class of paths leave every other path alone -/
theorem frame {fs : FS} {es : List Ev} (T : Path → Bool) (h : es.all (fun e => T e.path) = true) {p : Path}
    (hp : T p = false) : applyAll fs es p = fs p := by
  apply applyAll_untouched
  intro e he hpe
  simp only [List.all_eq_true] at h
  have := h e he
  rw [hpe, hp] at this
  exact absurd this (by simp)

/-- a stage (or a list of stages) completes and keeps the invariant at every prefix -/
def Good (cfg : Cfg) (fs : FS) (r : Res) : Prop := r.ok = true ∧ AllP (J cfg) fs r.evs

theorem good_of_checks {cfg : Cfg} {fs : FS} {as : List Act} (hc : ChecksOK as fs) (hj : AllP (J cfg) fs (eventsOf as)) :
    Good cfg fs (runActs as fs) ∧ (runActs as fs).fs = applyAll fs (eventsOf as) := by
  have := runActs_of_checks hc
  refine ⟨⟨this.1, by rw [this.2]; exact hj⟩, by rw [runActs_fs, this.2]⟩

theorem good_nil {cfg : Cfg} {fs : FS} (h : J cfg fs) : Good cfg fs (runActs [] fs) := ⟨rfl, h⟩

theorem good_cons {cfg : Cfg} {fs : FS} {s : Stage} {ss : List Stage}
    (h1 : Good cfg fs (runActs (s fs) fs)) (h2 : Good cfg (runActs (s fs) fs).fs (runStages ss (runActs (s fs) fs).fs)) :
    Good cfg fs (runStages (s :: ss) fs) ∧
      (runStages (s :: ss) fs).fs = (runStages ss (runActs (s fs) fs).fs).fs := by
  simp only [runStages, h1.1, if_true]
  refine ⟨⟨h2.1, ?_⟩, trivial⟩
  rw [AllP_append, ← runActs_fs]
  exact ⟨h1.2, h2.2⟩

theorem good_append {cfg : Cfg} {fs : FS} {a b : List Stage}
    (h1 : Good cfg fs (runStages a fs)) (h2 : Good cfg (runStages a fs).fs (runStages b (runStages a fs).fs)) :
    Good cfg fs (runStages (a ++ b) fs) ∧ (runStages (a ++ b) fs).fs = (runStages b (runStages a fs).fs).fs := by
  rw [runStages_append]
  simp only [h1.1, if_true]
  refine ⟨⟨h2.1, ?_⟩, trivial⟩
  rw [AllP_append, ← runStages_fs]
  exact ⟨h1.2, h2.2⟩

end IsoVerif.Lemmas.Resume
