/-
Helper lemmas for Props/C13Chromosome.lean: the extent of a sub-region's alignments, the gene view of an alignment, the
resolver on the records one alignment gets in several sub-regions (twins), sums over the reads of a chromosome.
-/
import IsoVerif.Model.C13Chromosome
import IsoVerif.Lemmas.C13Counts
import IsoVerif.Lemmas.Resolver
import IsoVerif.Props.C08

namespace IsoVerif.Lemmas.C13Chr
open IsoVerif.Gen IsoVerif.Model IsoVerif.Model.Resolver IsoVerif.Model.C13 IsoVerif.Model.C13Chr
open IsoVerif.Lemmas.Resolver IsoVerif.Lemmas.C13
open IsoVerif.Model.Regions (Aln)

theorem ov_iff (a b : Iv) : overlaps a b = true ↔ b.1 ≤ a.2 ∧ a.1 ≤ b.2 := by
  simp only [overlaps, Bool.not_eq_true', Bool.or_eq_false_iff, decide_eq_false_iff_not]; omega

theorem inj_of_nodup_map {α β : Type} (f : α → β) : ∀ (l : List α), (l.map f).Nodup → ∀ x ∈ l, ∀ y ∈ l, f x = f y → x = y := by
  intro l
  induction l with
  | nil => intro _ x hx; simp at hx
  | cons z zs ih =>
    intro hnd x hx y hy hxy
    rw [List.map_cons, List.nodup_cons] at hnd
    rcases List.mem_cons.mp hx with rfl | hx' <;> rcases List.mem_cons.mp hy with rfl | hy'
    · rfl
    · exact absurd (hxy ▸ List.mem_map_of_mem hy') hnd.1
    · exact absurd (hxy ▸ List.mem_map_of_mem hx') hnd.1
    · exact ih hnd.2 x hx' y hy' hxy

/-! ### the extent -/

theorem geneRegion_spec (as : List Aln) : ∀ r : Iv,
    (geneRegion r as).1 ≤ r.1 ∧ r.2 ≤ (geneRegion r as).2 ∧
    ∀ a ∈ as, (geneRegion r as).1 ≤ a.start ∧ a.stop - 1 ≤ (geneRegion r as).2 := by
  induction as with
  | nil => intro r; simp [geneRegion]
  | cons x xs ih =>
    intro r
    have h := ih (min r.1 x.start, max r.2 (x.stop - 1))
    simp only [geneRegion, List.foldl_cons] at h ⊢
    obtain ⟨h1, h2, h3⟩ := h
    refine ⟨by omega, by omega, ?_⟩
    intro a ha
    rcases List.mem_cons.mp ha with rfl | ha
    · constructor <;> omega
    · exact h3 a ha

/-- the genes an alignment overlaps (its 1-based interval against the 1-based gene records), among a list of genes -/
def view (a : Aln) (G : List GeneRec) : List GeneRec := G.filter (fun g => overlaps (iv1 a) g.span)

/-- a region that contains the alignment loads every gene the alignment overlaps -/
theorem view_loadGenes (genes : List GeneRec) (R : Iv) (a : Aln) (h1 : R.1 ≤ a.start) (h2 : a.stop - 1 ≤ R.2) :
    view a (loadGenes genes R) = view a genes := by
  unfold view loadGenes
  rw [List.filter_filter]
  apply List.filter_congr
  intro g _
  cases hov : overlaps (iv1 a) g.span with
  | false => simp
  | true =>
    have := (ov_iff (iv1 a) g.span).mp hov
    simp only [iv1] at this
    have : overlaps (R.1 + 1, R.2 + 1) g.span = true := (ov_iff _ g.span).mpr ⟨by simp only; omega, by simp only; omega⟩
    simp [this]

/-- repaired loading: in every sub-region the alignment is handed to, its gene view is its view of the whole annotation -/
theorem view_repaired (genes : List GeneRec) (ra : Iv × List Aln) (a : Aln) (ha : a ∈ ra.2) :
    view a (loadGenes genes (loadRegion true ra)) = view a genes := by
  obtain ⟨_, _, h⟩ := geneRegion_spec ra.2 ra.1
  have := h a ha
  exact view_loadGenes genes _ a (by simpa [loadRegion] using this.1) (by simpa [loadRegion] using this.2)

/-! ### the resolver on twins -/

theorem firstWinsAux_all_eq {α : Type} (eq : α → α → Bool) (x : α) : ∀ rest : List α, (∀ y ∈ rest, eq x y = true) →
    firstWinsAux eq [x] rest = [x] := by
  intro rest
  induction rest with
  | nil => intro _; rfl
  | cons y ys ih =>
    intro h
    have hy := h y (by simp)
    simp only [firstWinsAux, List.any_cons, List.any_nil, hy, Bool.or_false, ↓reduceIte]
    exact ih (fun z hz => h z (by simp [hz]))

theorem firstWins_all_eq {α : Type} (eq : α → α → Bool) (l : List α) (hne : l ≠ []) (h : ∀ x ∈ l, ∀ y ∈ l, eq x y = true) :
    (firstWins eq l).length = 1 := by
  cases l with
  | nil => exact absurd rfl hne
  | cons x rest =>
    have : firstWins eq (x :: rest) = firstWinsAux eq [x] rest := by
      simp [firstWins, firstWinsAux]
    rw [this, firstWinsAux_all_eq eq x rest (fun y hy => h x (by simp) y (by simp [hy]))]
    rfl

/-- **twins**: a non-empty list of records that are pairwise equal under `__eq__`, none suspended (the records ONE alignment
    gets in the sub-regions it overlaps, under the repaired loading): the resolver answers, returns at most as many verdicts
    as records, and exactly ONE of them is not suspended -/
theorem resolve_twins (l : List Rec) (hne : l ≠ []) (hin : NoSuspendedInput l)
    (heq : ∀ x ∈ l, ∀ y ∈ l, recEq x y = true) :
    ∃ out, resolve .take_best l = some out ∧ out.length ≤ l.length ∧ (retained out).length = 1 := by
  by_cases h1 : l.length ≤ 1
  · refine ⟨l, by simp [resolve, h1], Nat.le_refl _, ?_⟩
    have hl : l.length = 1 := by
      cases l with
      | nil => exact absurd rfl hne
      | cons x xs => simp at h1 ⊢; exact h1
    have : retained l = l := by
      unfold retained
      apply List.filter_eq_self.mpr
      intro r hr
      have := hin r hr
      simp only [Bool.not_eq_eq_eq_not, Bool.not_true, beq_eq_false_iff_ne, ne_eq]
      exact this
    rw [this, hl]
  · have h2 : 2 ≤ l.length := by omega
    obtain ⟨cand, _, hsel, hsub, hcne, _, _, _⟩ := IsoVerif.Props.C08.priority_candidates l hne
    have hres : resolve .take_best l = some (applyKeep l (findDuplicates cand)) := by
      simp only [resolve, h1, ↓reduceIte]; exact hsel
    have hk1 : (findDuplicates cand).length = 1 := by
      unfold findDuplicates
      apply firstWins_all_eq _ cand hcne
      intro x hx y hy
      exact heq x.1 (mem_of_mem_zipIdx (hsub.subset hx)) y.1 (mem_of_mem_zipIdx (hsub.subset hy))
    have hksub : (findDuplicates cand).Sublist l.zipIdx := (firstWins_sublist _ cand).trans hsub
    refine ⟨_, hres, by simp [applyKeep], ?_⟩
    rw [retained_applyKeep_eq hksub hin, List.length_map, hk1]

/-! ### counting over the kept events of one read -/

theorem countP_filterMap_zip {α β γ : Type} (f : α × β → Option γ) (φ : γ → Bool) (l : List (α × β)) :
    (l.filterMap f).countP φ = l.countP (fun p => (f p).any φ) := by
  induction l with
  | nil => rfl
  | cons x xs ih =>
    cases hx : f x with
    | none => simp [hx, ih]
    | some c => simp [hx, ih, List.countP_cons]

theorem countP_zip_snd {α β : Type} (q : β → Bool) : ∀ (l : List α) (m : List β), m.length ≤ l.length →
    (l.zip m).countP (fun p => q p.2) = m.countP q := by
  intro l m
  induction m generalizing l with
  | nil => intro _; simp
  | cons y ys ih =>
    intro h
    cases l with
    | nil => simp at h
    | cons x xs =>
      simp only [List.zip_cons_cons, List.countP_cons]
      rw [ih xs (by simpa using h)]

end IsoVerif.Lemmas.C13Chr
