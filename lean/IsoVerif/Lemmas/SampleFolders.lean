/-
C10 (experiment name = folder name) — lemmas about `Model/SampleFolders.lean`: what a joined path means, what
`check_experiment_name` excludes, and the libraries a list file yields.
-/
import IsoVerif.Model.SampleFolders
import IsoVerif.Lemmas.SampleNames

namespace IsoVerif.Lemmas.C10
open IsoVerif.Model.C10

/-! ### `split('/')` -/

theorem splitSlash_ne_nil (p : List Char) : splitSlash p ≠ [] := by
  cases p with
  | nil => simp [splitSlash]
  | cons c cs =>
    simp only [splitSlash]
    split
    · simp
    · split <;> simp

/-- a slash cuts the path: the components left of it, then the components right of it -/
theorem splitSlash_append_slash (a b : List Char) : splitSlash (a ++ '/' :: b) = splitSlash a ++ splitSlash b := by
  induction a with
  | nil => simp [splitSlash]
  | cons c cs ih =>
    by_cases hc : c = '/'
    · simp [splitSlash, hc, ih]
    · have hne := splitSlash_ne_nil cs
      simp only [List.cons_append, splitSlash, if_neg hc, ih]
      cases hs : splitSlash cs with
      | nil => exact absurd hs hne
      | cons h t => simp

/-- a text without a slash is one component -/
theorem splitSlash_of_no_slash (n : List Char) (h : '/' ∉ n) : splitSlash n = [n] := by
  induction n with
  | nil => simp [splitSlash]
  | cons c cs ih =>
    have hc : c ≠ '/' := fun e => h (by simp [e])
    have hcs : '/' ∉ cs := fun e => h (by simp [e])
    simp [splitSlash, hc, ih hcs]

theorem resolveFrom_append_slash (base : List (List Char)) (a b : List Char) :
    resolveFrom base (a ++ '/' :: b) = resolveFrom (resolveFrom base a) b := by
  simp [resolveFrom, splitSlash_append_slash, List.foldl_append]

/-- an ordinary directory entry name: not empty, not `.`, not `..`, no slash -/
def PlainComp (c : List Char) : Prop := c ≠ [] ∧ c ≠ ['.'] ∧ c ≠ ['.', '.'] ∧ '/' ∉ c

theorem resolveFrom_plain (base : List (List Char)) (n : List Char) (h : PlainComp n) : resolveFrom base n = base ++ [n] := by
  obtain ⟨h0, h1, h2, hs⟩ := h
  simp [resolveFrom, splitSlash_of_no_slash n hs, walkStep, h0, h1, h2]

theorem resolveFrom_nil (base : List (List Char)) : resolveFrom base [] = base := by
  simp [resolveFrom, splitSlash, walkStep]

/-- `os.path.join(a, b)` with a relative `b` means: go to `a`, then walk `b` -/
theorem resolve_join (a b : List Char) (hb : b.head? ≠ some '/') :
    resolveL (pathJoinL a b) = resolveFrom (resolveL a) b := by
  unfold pathJoinL
  rw [if_neg hb]
  by_cases ha : a = [] ∨ a.getLast? = some '/'
  · rw [if_pos ha]
    rcases ha with ha | ha
    · subst ha
      simp [resolveL, resolveFrom_nil]
    · obtain ⟨a', rfl⟩ := List.getLast?_eq_some_iff.mp ha
      have e1 : a' ++ ['/'] ++ b = a' ++ '/' :: b := by simp
      have e2 : a' ++ ['/'] = a' ++ '/' :: [] := rfl
      rw [e1]
      unfold resolveL
      rw [resolveFrom_append_slash, e2, resolveFrom_append_slash, resolveFrom_nil]
  · rw [if_neg ha]
    unfold resolveL
    rw [resolveFrom_append_slash]

theorem plain_head (n : List Char) (h : PlainComp n) : n.head? ≠ some '/' := by
  obtain ⟨h0, _, _, hs⟩ := h
  cases n with
  | nil => simp
  | cons c cs =>
    intro e
    simp only [List.head?_cons, Option.some.injEq] at e
    exact hs (by simp [e])

/-! ### `check_experiment_name` -/

theorem takeWhile_eq_self {α} (p : α → Bool) (l : List α) (h : l.takeWhile p = l) : ∀ x ∈ l, p x = true := by
  induction l with
  | nil => simp
  | cons a l ih =>
    by_cases ha : p a = true
    · simp only [List.takeWhile_cons, ha, if_true, List.cons.injEq, true_and] at h
      intro x hx
      rcases List.mem_cons.mp hx with rfl | hx
      · exact ha
      · exact ih h x hx
    · simp [ha] at h

theorem basename_eq_self (n : List Char) (h : basenameL n = n) : '/' ∉ n := by
  unfold basenameL at h
  have h' : n.reverse.takeWhile (fun c => c != '/') = n.reverse := by
    have := congrArg List.reverse h
    simpa using this
  have hall := takeWhile_eq_self _ _ h'
  intro hm
  have := hall '/' (by simpa using hm)
  simp at this

/-- a name that passes `check_experiment_name` is an ordinary directory entry name -/
theorem plain_of_not_bad (n : List Char) (h : badFolderNameL n = false) : PlainComp n := by
  simp only [badFolderNameL, Bool.or_eq_false_iff, bne_eq_false_iff_eq, beq_eq_false_iff_ne, ne_eq] at h
  obtain ⟨⟨⟨h0, h1⟩, h2⟩, hb⟩ := h
  exact ⟨h0, h1, h2, basename_eq_self n hb⟩

/-- … and so is the name followed by a suffix without a slash: the file prefix -/
theorem plain_append (n s : List Char) (h : PlainComp n) (hs : '/' ∉ s) : PlainComp (n ++ s) := by
  obtain ⟨h0, h1, h2, hsl⟩ := h
  refine ⟨by simp [h0], ?_, ?_, ?_⟩
  · intro e
    cases n with
    | nil => exact h0 rfl
    | cons c t =>
      simp only [List.cons_append, List.cons.injEq, List.append_eq_nil_iff] at e
      exact h1 (by rw [e.1, e.2.1])
  · intro e
    cases n with
    | nil => exact h0 rfl
    | cons c t =>
      cases t with
      | nil =>
        simp only [List.cons_append, List.nil_append, List.cons.injEq] at e
        exact h1 (by rw [e.1])
      | cons d u =>
        simp only [List.cons_append, List.cons.injEq, List.append_eq_nil_iff] at e
        exact h2 (by rw [e.1, e.2.1, e.2.2.1])
  · simp [hsl, hs]

/-- the folder of an accepted name is the entry `name` of the output folder, and its files are entries of that folder -/
theorem folder_of_plain (out n : List Char) (h : PlainComp n) : resolveL (outDirL out n) = resolveL out ++ [n] := by
  unfold outDirL
  rw [resolve_join out n (plain_head n h), resolveFrom_plain _ n h]

theorem file_of_plain (out n s : List Char) (h : PlainComp n) (hs : '/' ∉ s) :
    resolveL (outFileL out n s) = resolveL out ++ [n, n ++ s] := by
  unfold outFileL
  have hp := plain_append n s h hs
  rw [resolve_join _ _ (plain_head _ hp), resolveFrom_plain _ _ hp, folder_of_plain out n h]
  simp

/-! ### list files: one file per line ⇒ one file per library -/

/-- every library registered so far / pending holds exactly one file -/
def LibsInv (s : ListSt) : Prop :=
  (∀ t ∈ s.st.acc, ∀ lib ∈ t.2.1, lib.length = 1) ∧ ∀ lib ∈ s.cur, lib.length = 1

def ListLine.oneFile : ListLine → Prop
  | .files fs _ => fs.length = 1
  | .header _ => True

theorem flush_libs (s : ListSt) (hI : LibsInv s) : ∀ t ∈ s.flush.acc, ∀ lib ∈ t.2.1, lib.length = 1 := by
  unfold ListSt.flush
  split
  · exact hI.1
  · intro t ht lib hl
    simp only [List.mem_append, List.mem_singleton] at ht
    rcases ht with ht | rfl
    · exact hI.1 t ht lib hl
    · exact hI.2 lib hl

theorem listStepR_libs (rc : Bool) (pfx : String) (s s' : ListSt) (l : ListLine) (hl : ListLine.oneFile l)
    (h : listStepR rc pfx s l = some s') (hI : LibsInv s) : LibsInv s' := by
  cases l with
  | header nm =>
    simp only [listStepR] at h
    generalize (if nm.isEmpty = true then pfx ++ toString s.flush.index else nm) = nm0 at h
    by_cases hc : (s.flush.names.contains nm0 && renameBlocked rc s.flush.names nm0 (pfx ++ toString s.flush.index)) = true
    · rw [if_pos hc] at h; simp at h
    · rw [if_neg hc] at h
      simp only [Option.some.injEq] at h
      subst h
      exact ⟨flush_libs s hI, by simp⟩
  | files fs label =>
    simp only [listStepR] at h
    cases ha : addFiles (dictGet s.st.dict s.curName) (fs.map (fun f => (f.path, lineLabel fs label))) with
    | none => simp [ha] at h
    | some d' =>
      simp only [ha, Option.some.injEq] at h
      subst h
      refine ⟨hI.1, ?_⟩
      intro lib hm
      simp only [List.mem_append, List.mem_singleton] at hm
      rcases hm with hm | rfl
      · exact hI.2 lib hm
      · simpa [ListLine.oneFile] using hl

theorem listLoopR_libs (rc : Bool) (pfx : String) (lines : List ListLine) (s s' : ListSt)
    (hl : ∀ l ∈ lines, ListLine.oneFile l) (h : listLoopR rc pfx s lines = some s') (hI : LibsInv s) : LibsInv s' := by
  induction lines generalizing s with
  | nil =>
    simp only [listLoopR, Option.some.injEq] at h
    exact h ▸ hI
  | cons l ls ih =>
    simp only [listLoopR] at h
    cases hs : listStepR rc pfx s l with
    | none => simp [hs] at h
    | some s1 =>
      simp only [hs] at h
      exact ih s1 (fun x hx => hl x (by simp [hx])) h (listStepR_libs rc pfx s s1 l (hl l (by simp)) hs hI)

/-- the first file of every one-file library is every file -/
theorem mapM_head_of_singletons (libs : List (List String)) (h : ∀ lib ∈ libs, lib.length = 1) :
    libs.mapM List.head? = some libs.flatten := by
  induction libs with
  | nil => rfl
  | cons lib rest ih =>
    have h1 := h lib (by simp)
    have ih' := ih (fun x hx => h x (by simp [hx]))
    match lib, h1 with
    | [f], _ => simp [List.mapM_cons, ih']

end IsoVerif.Lemmas.C10
