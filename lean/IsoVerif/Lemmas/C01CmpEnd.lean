/-
C01, tail clause: WHEN can `compare_junctions` emit an end artifact (`fake_terminal_exon_*`,
`terminal_exon_misalignment_*`, `incomplete_intron_retention_*`)?  For every input (no well-formedness assumed) each such
event says something about the POSITIONS of the read's and the isoform's ends (`ArtGeom`); the position-only predicates
`endCleanRight` / `endCleanLeft` (Model/JunctionSpec.lean) exclude the two that are not major inconsistencies at one end
(`compareJunctions_clean_right / _left`).  Used by Props/C01Tail.lean to derive the hypothesis "the comparator reports no
end artifact" of `tail_far_never_consistent` from the geometry of the read.  Core Lean only.
-/
import IsoVerif.Lemmas.C01CmpFar
import IsoVerif.Lemmas.C01CmpTotal

namespace IsoVerif.Lemmas.C01Cmp
open IsoVerif.Gen IsoVerif.Model IsoVerif.Model.C01 IsoVerif.Lemmas

/-- what an end-artifact event type says about the positions; `True` for every other type -/
def ArtGeom (c : CmpCtx) (rj : List Iv) (rr : Iv) (ij : List Iv) (ir : Iv) : MatchEventSubtype → Prop
  | .fake_terminal_exon_right => rj ≠ [] ∧ lastExonLen rr rj ≤ c.p.max_fake_terminal_exon_len
  | .fake_terminal_exon_left => rj ≠ [] ∧ firstExonLen rr rj ≤ c.p.max_fake_terminal_exon_len
  | .terminal_exon_misalignment_right =>
      rj.length > 1 ∧ ij ≠ [] ∧ iabs (lastExonLen rr rj - lastExonLen ir ij) < 2 * c.p.delta
  | .terminal_exon_misalignment_left =>
      rj.length > 1 ∧ ij ≠ [] ∧ iabs (firstExonLen rr rj - firstExonLen ir ij) < 2 * c.p.delta
  | .incomplete_intron_retention_right =>
      ∃ k ∈ ij, rr.1 < k.1 ∧ contains rr k = false ∧ overlaps_at_least rr k c.p.minor_exon_extension = true
  | .incomplete_intron_retention_left =>
      ∃ k ∈ ij, k.1 ≤ rr.1 ∧ contains rr k = false ∧ overlaps_at_least rr k c.p.minor_exon_extension = true
  | _ => True

/-- one of the six end-artifact types -/
def isArt (t : MatchEventSubtype) : Bool :=
  decide (t = .fake_terminal_exon_right ∨ t = .fake_terminal_exon_left ∨ t = .terminal_exon_misalignment_right ∨
    t = .terminal_exon_misalignment_left ∨ t = .incomplete_intron_retention_right ∨ t = .incomplete_intron_retention_left)

theorem artGeom_of_not {c rj rr ij ir} {t : MatchEventSubtype} (h : isArt t = false) : ArtGeom c rj rr ij ir t := by
  cases t <;> first | trivial | (exact absurd h (by decide))

/-- closes `some X = some t ⊢ isArt t = false` for a concrete non-artifact `X`, and impossible leaves -/
macro "art_leaf" h:ident : tactic =>
  `(tactic| first
    | (cases $h:ident; done)
    | (simp only [Option.some.injEq] at $h:ident; subst $h:ident; decide)
    | (simp only [Option.some.injEq] at $h:ident; subst $h:ident; split <;> decide)
    | (simp at $h:ident; done))

theorem alternative_sites_notArt (s : String) (k : Bool) (t : MatchEventSubtype) (h : alternative_sites s k = some t) :
    isArt t = false := by
  unfold alternative_sites at h
  simp only [Option.map_eq_some_iff] at h
  obtain ⟨p, hp, rfl⟩ := h
  have hm := List.mem_of_find?_eq_some hp
  have : ∀ q ∈ alternative_sites_table, isArt q.2 = false := by decide
  exact this p hm

theorem altSiteEvent_notArt {c rr rj ir ij rc ic r k known t} (h : altSiteEvent c rr rj ir ij rc ic r k known = some t) :
    isArt t = false := by
  unfold altSiteEvent at h
  dsimp only at h
  repeat' split at h
  all_goals first
    | exact alternative_sites_notArt _ _ _ h
    | art_leaf h

theorem relabelSuspicious_notArt {c rr rj rc ev t} (hev : isArt ev = false)
    (h : relabelSuspicious c rr rj rc ev = some t) : isArt t = false := by
  unfold relabelSuspicious at h
  repeat' split at h
  all_goals first
    | (simp only [Option.some.injEq] at h; subst h; exact hev)
    | art_leaf h

theorem classifySingle_notArt {c rr rj ir ij rc ic s k t} (h : classifySingle c rr rj ir ij rc ic s k = some t) :
    isArt t = false := by
  unfold classifySingle at h
  split at h
  · split at h
    · repeat' split at h
      all_goals art_leaf h
    · split at h
      · cases h
      · rename_i ev hev
        exact relabelSuspicious_notArt (altSiteEvent_notArt hev) h
  · cases h

theorem classifySkipped_notArt {c ij i0 i1 s k sb t} (h : classifySkipped c ij i0 i1 s k sb = some (some t)) :
    isArt t = false := by
  unfold classifySkipped at h
  split at h
  · cases h
  · repeat' split at h
    all_goals first
      | (simp only [Option.some.injEq] at h; subst h; decide)
      | (simp at h)

/-- the terminal-exon branch under the condition of the cascade: `terminal_exon_misalignment_*` compares the lengths of
    the outermost exons of read and isoform at that end -/
theorem classifyTerminal_art {c rr rj ir ij} {r0 i0 : Nat} {k t} (hn : rj.length > 1) (hi : 0 < ij.length)
    (hc : (r0 = 0 ∧ i0 = 0) ∨ (r0 : Int) = (rj.length : Int) - 1)
    (h : classifyTerminal c rr rj ir ij r0 i0 k = some t) : ArtGeom c rj rr ij ir t := by
  have hine : ij ≠ [] := by intro e; rw [e] at hi; simp at hi
  unfold classifyTerminal at h
  dsimp only at h
  split at h
  · cases h
  · rename_i re ie hex
    split at h
    · rename_i hlen
      split at h
      · rename_i h0
        simp only [Option.some.injEq] at h; subst h
        have hi0 : i0 = 0 := by
          rcases hc with hc | hc
          · exact hc.2
          · omega
        rw [if_pos ⟨h0, hi0⟩] at hex
        split at hex
        · rename_i a b ha hb
          simp only [Option.some.injEq, Prod.mk.injEq] at hex
          obtain ⟨rfl, rfl⟩ := hex
          rw [getPrecedingExon_zero_len (by omega) ha, getPrecedingExon_zero_len hi hb] at hlen
          exact ⟨hn, hine, hlen⟩
        · cases hex
      · rename_i h0
        simp only [Option.some.injEq] at h; subst h
        rw [if_neg (fun hh => h0 hh.1)] at hex
        split at hex
        · rename_i a b ha hb
          simp only [Option.some.injEq, Prod.mk.injEq] at hex
          obtain ⟨rfl, rfl⟩ := hex
          rw [getFollowingExon_neg1_len (by omega) ha, getFollowingExon_neg1_len hi hb] at hlen
          exact ⟨hn, hine, hlen⟩
        · cases hex
    · split at h <;> (simp only [Option.some.injEq] at h; subst h; trivial)

theorem cascadeBoth_art {c rr rj ir ij r0 r1 i0 i1 d t} (hi : 0 < ij.length)
    (h : cascadeBoth c rr rj ir ij r0 r1 i0 i1 d = some (some t)) : ArtGeom c rj rr ij ir t := by
  unfold cascadeBoth at h
  dsimp only at h
  split at h
  · simp only [Option.map_eq_some_iff, Option.some.injEq] at h
    obtain ⟨a, ha, rfl⟩ := h
    exact artGeom_of_not (classifySingle_notArt ha)
  · split at h
    · rename_i hcond
      simp only [Option.map_eq_some_iff, Option.some.injEq] at h
      obtain ⟨a, ha, rfl⟩ := h
      refine classifyTerminal_art hcond.1 hi ?_ ha
      rcases hcond.2.2.2 with hh | hh
      · exact Or.inl ⟨hh.1, hh.2.1⟩
      · exact Or.inr hh.1
    · split at h
      · split at h <;> (simp only [Option.some.injEq] at h; subst h; trivial)
      · split at h
        · exact artGeom_of_not (classifySkipped_notArt h)
        · split at h
          · repeat' split at h
            all_goals first
              | (simp only [Option.some.injEq] at h; subst h; trivial)
              | (simp at h)
          · split at h
            · split at h <;> (simp only [Option.some.injEq] at h; subst h; trivial)
            · simp at h

theorem gatherBoth_iso_pos {c rr rj ir ij r0 r1 i0 i1 d} (h : gatherBoth c rr rj ir ij r0 r1 i0 i1 = some d) :
    0 < ij.length := by
  unfold gatherBoth at h
  split at h
  · split at h
    · split at h
      · rename_i ia _ _ _ hia _
        exact Nat.lt_of_le_of_lt (Nat.zero_le _) (List.getElem?_eq_some_iff.mp hia).1
      · cases h
    · cases h
  · cases h

theorem classifyBothTy_art {c rr rj ir ij r0 r1 i0 i1 t} (h : classifyBothTy c rr rj ir ij r0 r1 i0 i1 = some t) :
    ArtGeom c rj rr ij ir t := by
  unfold classifyBothTy at h
  split at h
  · cases h
  · rename_i d hd
    split at h
    · cases h
    · rename_i t' hc
      simp only [Option.some.injEq] at h; subst h
      exact cascadeBoth_art (gatherBoth_iso_pos hd) hc
    · repeat' split at h
      all_goals first
        | (cases h; done)
        | (simp only [Option.some.injEq] at h; subst h; trivial)

theorem classifyRetention_art {c rr rj ij ir rp ip e} (h : classifyRetention c rr rj ij rp ip = some (some e)) :
    ArtGeom c rj rr ij ir e.ty := by
  unfold classifyRetention at h
  dsimp only at h
  split at h
  · cases h
  · rename_i k hk
    have hkm : k ∈ ij := List.mem_of_getElem? hk
    split at h
    · repeat' split at h
      all_goals first
        | (cases h; done)
        | (simp only [Option.some.injEq] at h; subst h; trivial)
    · rename_i hnc
      split at h
      · rename_i hov
        split at h
        · rename_i hle
          simp only [Option.some.injEq] at h; subst h
          exact ⟨k, hkm, hle, by simpa using hnc, hov⟩
        · rename_i hle
          simp only [Option.some.injEq] at h; subst h
          exact ⟨k, hkm, by omega, by simpa using hnc, hov⟩
      · simp at h

theorem getExon_nil_zero (reg : Iv) : getExon reg [] 0 = none := by
  simp [getExon, pyGet?]

theorem classifyExtra_art {c rr rj ij ir rp ip e} (hr : 0 < rj.length) (h : classifyExtra c rr rj rp ip = some e) :
    ArtGeom c rj rr ij ir e.ty := by
  have hrne : rj ≠ [] := by intro e; rw [e] at hr; simp at hr
  unfold classifyExtra at h
  dsimp only at h
  split at h
  · cases h
  · simp only [Option.some.injEq] at h; subst h; trivial
  · split at h
    · cases h
    · simp only [Option.some.injEq] at h; subst h; trivial
    · split at h
      · cases h
      · rename_i e' hf
        simp only [Option.some.injEq] at h; subst h
        unfold fakeTerminalOfExtra at hf
        split at hf
        · cases hf
        · rename_i e'' hl
          simp only [Option.some.injEq] at hf; subst hf
          unfold fakeLeftOfExtra at hl
          split at hl
          · split at hl
            · cases hl
            · rename_i ex hex
              split at hl
              · rename_i hlen
                simp only [Option.some.injEq] at hl; subst hl
                rw [getExon_zero_len hex] at hlen
                exact ⟨hrne, hlen⟩
              · simp at hl
          · simp at hl
        · unfold fakeRightOfExtra at hf
          split at hf
          · split at hf
            · cases hf
            · rename_i ex hex
              split at hf
              · rename_i hlen
                simp only [Option.some.injEq] at hf; subst hf
                rw [getExon_last_len (-1) (Or.inl rfl) hr hex] at hlen
                exact ⟨hrne, hlen⟩
              · simp at hf
          · simp at hf
      · simp only [Option.some.injEq] at h; subst h; trivial

theorem classifyPair_art {c rr rj ir ij pr e} (hr : 0 < rj.length) (h : classifyPair c rr rj ir ij pr = some (some e)) :
    ArtGeom c rj rr ij ir e.ty := by
  cases pr with
  | retention rp ip => exact classifyRetention_art h
  | extra rp ip =>
    simp only [classifyPair, Option.map_eq_some_iff, Option.some.injEq] at h
    obtain ⟨e', he', rfl⟩ := h
    exact classifyExtra_art hr he'
  | both r0 r1 i0 i1 =>
    simp only [classifyPair, Option.map_eq_some_iff, Option.some.injEq] at h
    obtain ⟨t, ht, rfl⟩ := h
    exact classifyBothTy_art ht

theorem detect_art {c rr rj ir ij} (hr : 0 < rj.length) : ∀ (prs : List CPair) (evs : List Event),
    detectContradictions c rr rj ir ij prs = some evs → ∀ e ∈ evs, ArtGeom c rj rr ij ir e.ty := by
  intro prs
  induction prs with
  | nil => intro evs h e he; simp only [detectContradictions, Option.some.injEq] at h; subst h; cases he
  | cons p rest ih =>
    intro evs h e he
    simp only [detectContradictions] at h
    split at h
    · cases h
    · rename_i oe hoe
      split at h
      · cases h
      · rename_i es hes
        simp only [Option.some.injEq] at h; subst h
        cases oe with
        | none => exact ih es hes e he
        | some e0 =>
          rcases List.mem_cons.mp he with rfl | he
          · exact classifyPair_art hr hoe
          · exact ih es hes e he

theorem leftFlank_art {c prof rr rj ij ir evs} (hr : 0 < rj.length) (h : leftFlank c prof rr rj = some evs) :
    ∀ e ∈ evs, ArtGeom c rj rr ij ir e.ty := by
  have hrne : rj ≠ [] := by intro e; rw [e] at hr; simp at hr
  unfold leftFlank at h
  split at h
  · cases h
  · rename_i ex hex
    split at h
    · rename_i hlen
      simp only [Option.some.injEq] at h; subst h
      intro e he
      rcases List.mem_cons.mp he with rfl | he
      · rw [getExon_zero_len hex] at hlen
        exact ⟨hrne, hlen⟩
      · simp only [List.mem_map] at he
        obtain ⟨i, _, rfl⟩ := he
        trivial
    · simp only [Option.some.injEq] at h; subst h
      intro e he
      simp only [List.mem_map] at he
      obtain ⟨i, _, rfl⟩ := he
      trivial

theorem rightFlank_art {c prof rr rj ij ir evs} (hr : 0 < rj.length) (hlen : prof.length = rj.length)
    (h : rightFlank c prof rr rj = some evs) : ∀ e ∈ evs, ArtGeom c rj rr ij ir e.ty := by
  have hrne : rj ≠ [] := by intro e; rw [e] at hr; simp at hr
  unfold rightFlank at h
  split at h
  · cases h
  · rename_i ex hex
    split at h
    · rename_i hl
      simp only [Option.some.injEq] at h; subst h
      intro e he
      rcases List.mem_cons.mp he with rfl | he
      · rw [getExon_last_len _ (Or.inr (by rw [hlen])) hr hex] at hl
        exact ⟨hrne, hl⟩
      · simp only [List.mem_map] at he
        obtain ⟨i, _, rfl⟩ := he
        trivial
    · simp only [Option.some.injEq] at h; subst h
      intro e he
      simp only [List.mem_map] at he
      obtain ⟨i, _, rfl⟩ := he
      trivial

theorem addExtraOut_art {c prof rr rj ij ir isoStart evs} (hr : 0 < rj.length) (hlen : prof.length = rj.length)
    (h : addExtraOut c prof rr rj isoStart = some evs) : ∀ e ∈ evs, ArtGeom c rj rr ij ir e.ty := by
  unfold addExtraOut at h
  split at h
  · cases h
  · rename_i el er _
    split at h
    · rename_i a b ha hb
      simp only [Option.some.injEq] at h; subst h
      intro e he
      rcases List.mem_append.mp he with he | he
      · split at ha
        · exact leftFlank_art hr ha e he
        · simp only [Option.some.injEq] at ha; subst ha; cases he
      · split at hb
        · exact rightFlank_art hr hlen hb e he
        · simp only [Option.some.injEq] at hb; subst hb; cases he
    · cases h

theorem monoExonEvents_art (c : CmpCtx) (rr : Iv) (ij : List Iv) (ir : Iv) : ∀ (l : List Iv) (i : Nat),
    (∀ k ∈ l, k ∈ ij) → ∀ e ∈ monoExonEvents c rr l i, ArtGeom c [] rr ij ir e.ty := by
  intro l
  induction l with
  | nil => intro i _ e he; simp [monoExonEvents] at he
  | cons k rest ih =>
    intro i hsub e he
    have hrest : ∀ x ∈ rest, x ∈ ij := fun x hx => hsub x (List.mem_cons_of_mem _ hx)
    have hk : k ∈ ij := hsub k (by simp)
    simp only [monoExonEvents] at he
    split at he
    · rcases List.mem_cons.mp he with rfl | he
      · split <;> trivial
      · exact ih (i + 1) hrest e he
    · rename_i hnc
      split at he
      · rename_i hov
        rcases List.mem_cons.mp he with rfl | he
        · split
          · rename_i hle
            exact ⟨k, hk, hle, by simpa using hnc, hov.1⟩
          · rename_i hle
            exact ⟨k, hk, by omega, by simpa using hnc, hov.1⟩
        · exact ih (i + 1) hrest e he
      · exact ih (i + 1) hrest e he

/-- **every end-artifact event of `compare_junctions` is explained by the positions** (all inputs) -/
theorem compareJunctions_art (c : CmpCtx) (rj : List Iv) (rr : Iv) (ij : List Iv) (ir : Iv) (evs : List Event)
    (h : compareJunctions c rj rr ij ir = some evs) : ∀ e ∈ evs, ArtGeom c rj rr ij ir e.ty := by
  unfold compareJunctions at h
  split at h
  · rename_i hemp
    have : rj = [] := by simpa using hemp
    subst this
    simp only [Option.some.injEq] at h; subst h
    unfold monoExonSubtype
    split
    · intro e he; simp only [List.mem_singleton] at he; subst he; trivial
    · dsimp only
      split
      · intro e he; simp only [List.mem_singleton] at he; subst he; trivial
      · exact monoExonEvents_art c rr ij ir ij 0 (fun k hk => hk)
  · rename_i hemp
    have hr : 0 < rj.length := by
      cases rj with
      | nil => simp at hemp
      | cons _ _ => simp
    dsimp only at h
    split at h
    · cases h
    · rename_i ev1 hev1
      have h1 : ∀ e ∈ ev1, ArtGeom c rj rr ij ir e.ty := by
        split at hev1
        · exact detect_art hr _ _ hev1
        · simp only [Option.some.injEq] at hev1; subst hev1; intro e he; cases he
      simp only [Option.map_eq_some_iff] at h
      obtain ⟨ev2, hev2, rfl⟩ := h
      have h2 : ∀ e ∈ ev2, ArtGeom c rj rr ij ir e.ty := by
        split at hev2
        · simp only [Option.map_eq_some_iff] at hev2
          obtain ⟨x, hx, rfl⟩ := hev2
          intro e he
          rcases List.mem_append.mp he with he | he
          · exact h1 e he
          · exact addExtraOut_art hr (sweep_ok c.p.delta rr ir rj.length ij.length rj 0 0 ij 0 0 none (by simp) (by simp)
              trivial).1 hx e he
        · simp only [Option.some.injEq] at hev2; subst hev2; exact h1
      split
      · intro e he; simp only [List.mem_singleton] at he; subst he; trivial
      · exact h2

/-- **no end artifact at the RIGHT end**: for a read whose last exon is longer than `max_fake_terminal_exon_len` and (≥ 2
    introns) differs from the isoform's last exon by at least 2δ in length, `compare_junctions` emits neither
    `fake_terminal_exon_right` nor `terminal_exon_misalignment_right` — all inputs, no well-formedness assumed -/
theorem compareJunctions_clean_right (c : CmpCtx) (rj : List Iv) (rr : Iv) (ij : List Iv) (ir : Iv) (evs : List Event)
    (h : compareJunctions c rj rr ij ir = some evs) (hc : endCleanRight c.p rj rr ij ir = true) :
    ∀ e ∈ evs, e.ty ≠ .fake_terminal_exon_right ∧ e.ty ≠ .terminal_exon_misalignment_right := by
  intro e he
  have hg := compareJunctions_art c rj rr ij ir evs h e he
  simp only [endCleanRight, Bool.and_eq_true, Bool.or_eq_true, decide_eq_true_eq, List.isEmpty_iff] at hc
  obtain ⟨c1, c2⟩ := hc
  constructor
  · intro ht
    rw [ht] at hg
    obtain ⟨g1, g2⟩ : rj ≠ [] ∧ lastExonLen rr rj ≤ c.p.max_fake_terminal_exon_len := hg
    rcases c1 with c1 | c1
    · exact g1 c1
    · omega
  · intro ht
    rw [ht] at hg
    obtain ⟨g1, g2, g3⟩ : rj.length > 1 ∧ ij ≠ [] ∧ iabs (lastExonLen rr rj - lastExonLen ir ij) < 2 * c.p.delta := hg
    rcases c2 with (c2 | c2) | c2
    · omega
    · exact g2 c2
    · omega

/-- mirror image: the LEFT end -/
theorem compareJunctions_clean_left (c : CmpCtx) (rj : List Iv) (rr : Iv) (ij : List Iv) (ir : Iv) (evs : List Event)
    (h : compareJunctions c rj rr ij ir = some evs) (hc : endCleanLeft c.p rj rr ij ir = true) :
    ∀ e ∈ evs, e.ty ≠ .fake_terminal_exon_left ∧ e.ty ≠ .terminal_exon_misalignment_left := by
  intro e he
  have hg := compareJunctions_art c rj rr ij ir evs h e he
  simp only [endCleanLeft, Bool.and_eq_true, Bool.or_eq_true, decide_eq_true_eq, List.isEmpty_iff] at hc
  obtain ⟨c1, c2⟩ := hc
  constructor
  · intro ht
    rw [ht] at hg
    obtain ⟨g1, g2⟩ : rj ≠ [] ∧ firstExonLen rr rj ≤ c.p.max_fake_terminal_exon_len := hg
    rcases c1 with c1 | c1
    · exact g1 c1
    · omega
  · intro ht
    rw [ht] at hg
    obtain ⟨g1, g2, g3⟩ : rj.length > 1 ∧ ij ≠ [] ∧ iabs (firstExonLen rr rj - firstExonLen ir ij) < 2 * c.p.delta := hg
    rcases c2 with (c2 | c2) | c2
    · omega
    · exact g2 c2
    · omega

/-- isoform ids are distinct: an isoform is determined by its id -/
theorem pairwise_id_inj : ∀ (l : List IsoInfo), l.Pairwise (fun a b => a.id < b.id) →
    ∀ a ∈ l, ∀ b ∈ l, a.id = b.id → a = b := by
  intro l
  induction l with
  | nil => intro _ a ha; cases ha
  | cons x t ih =>
    intro hp a ha b hb hab
    rw [List.pairwise_cons] at hp
    rcases List.mem_cons.mp ha with ea | ha'
    · rcases List.mem_cons.mp hb with eb | hb'
      · rw [ea, eb]
      · have := hp.1 b hb'; rw [ea] at hab; omega
    · rcases List.mem_cons.mp hb with eb | hb'
      · have := hp.1 a ha'; rw [eb] at hab; omega
      · exact ih hp.2 a ha' b hb' hab

end IsoVerif.Lemmas.C01Cmp
