/-
Helper lemmas for C16 (polyA window scan).
-/
import IsoVerif.Model.PolyAFinder

namespace IsoVerif.Lemmas.C16
open IsoVerif.Gen IsoVerif.Model IsoVerif.Model.C16

/-- number of 'A' in the window of length `w` that starts at `j` -/
def winCount (seq : List Bool) (j w : Nat) : Nat := countTrue ((seq.drop j).take w)

theorem countTrue_cons (b : Bool) (l : List Bool) : countTrue (b :: l) = (if b then 1 else 0) + countTrue l := by
  cases b <;> simp [countTrue] <;> omega

theorem countTrue_append (a b : List Bool) : countTrue (a ++ b) = countTrue a + countTrue b := by
  simp [countTrue, List.countP_append]

/-- sliding the window by one: drop the first flag, add the one that enters -/
theorem slide (f b : Bool) (front back : List Bool) (w : Nat) (hw : 1 ≤ w)
    (h : (f :: front).drop w = b :: back) :
    front.drop w = back ∧
    (countTrue (front.take w) : Int) = countTrue ((f :: front).take w) - (if f then 1 else 0) + (if b then 1 else 0) := by
  obtain ⟨w', rfl⟩ : ∃ w', w = w' + 1 := ⟨w - 1, by omega⟩
  simp only [List.drop_succ_cons] at h
  have hd : front.drop (w' + 1) = back := by
    have := congrArg (List.drop 1) h
    simpa [List.drop_drop, Nat.add_comm] using this
  refine ⟨hd, ?_⟩
  have ht : front.take (w' + 1) = front.take w' ++ [b] := by
    have h1 : front.take (w' + 1) = front.take w' ++ (front.drop w').take 1 := by
      rw [← List.take_append_drop w' (front.take (w' + 1))]
      simp [List.take_take, List.drop_take]
    rw [h1, h]; simp
  rw [ht, List.take_succ_cons, countTrue_append, countTrue_cons, countTrue_cons]
  simp [countTrue]
  cases f <;> cases b <;> simp <;> omega

/-- what the window loop returns, in terms of window counts -/
theorem findPolyaLoop_spec (c w : Nat) (hw : 1 ≤ w) : ∀ (front back : List Bool) (i : Nat) (a : Int),
    back = front.drop w → a = (countTrue (front.take w) : Int) →
    match findPolyaLoop c a i front back with
    | some r => ∃ k, r = i + k ∧ k + w < front.length ∧ c ≤ winCount front k w ∧ ∀ j < k, winCount front j w < c
    | none => ∀ j, j + w < front.length → winCount front j w < c := by
  intro front
  induction front with
  | nil =>
    intro back i a hb _
    simp at hb; subst hb
    simp [findPolyaLoop]
  | cons f front ih =>
    intro back i a hb ha
    cases back with
    | nil =>
      simp only [findPolyaLoop]
      intro j hj
      have : ((f :: front).drop w).length = 0 := by rw [← hb]; rfl
      simp at this
      simp at hj; omega
    | cons b back =>
      have hlen : w < (f :: front).length := by
        have : ((f :: front).drop w).length = (b :: back).length := by rw [← hb]
        simp at this; simp; omega
      by_cases hc : a ≥ (c : Int)
      · simp only [findPolyaLoop, hc, if_true]
        refine ⟨0, rfl, by simpa using hlen, ?_, by intro j hj; omega⟩
        simp only [winCount, List.drop_zero]
        omega
      · simp only [findPolyaLoop, hc, if_false]
        obtain ⟨hd, hcount⟩ := slide f b front back w hw hb.symm
        have ha' : (if (f && !b) = true then a - 1 else if (!f && b) = true then a + 1 else a)
            = (countTrue (front.take w) : Int) := by
          rw [hcount, ← ha]
          cases f <;> cases b <;> simp <;> omega
        have h := ih back (i + 1) _ hd.symm ha'
        have h0 : winCount (f :: front) 0 w < c := by
          simp only [winCount, List.drop_zero]; omega
        split at h
        · rename_i r hr
          obtain ⟨k, hk1, hk2, hk3, hk4⟩ := h
          refine ⟨k + 1, by omega, by simp; omega, by simpa [winCount] using hk3, ?_⟩
          intro j hj
          cases j with
          | zero => exact h0
          | succ j' => simpa [winCount] using hk4 j' (by omega)
        · rename_i hr
          intro j hj
          cases j with
          | zero => exact h0
          | succ j' => simpa [winCount] using h j' (by simp at hj; omega)

end IsoVerif.Lemmas.C16
