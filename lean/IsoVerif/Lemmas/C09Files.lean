/-
Helper lemmas for the internal text files of C09 (`Model/C09Files.lean`): file iteration, terminators, `set.add` folds,
`split('\t', 1)`, dictionaries built line by line, characters of table fields.  Core Lean only.
-/
import IsoVerif.Model.C09Files
import IsoVerif.Lemmas.C09Split

namespace IsoVerif.Lemmas.C09Files
open IsoVerif.Model.C09 IsoVerif.Lemmas.C09Split

/-! ### file iteration -/

/-- the lines of a file, concatenated, are its text -/
theorem fileLines_flatten : ∀ t : List Char, (fileLines t).flatten = t
  | [] => rfl
  | c :: s => by
    have ih := fileLines_flatten s
    simp only [fileLines]
    split
    · rename_i h
      subst h
      simp [ih]
    · split
      · rename_i h0
        rw [h0] at ih
        simp only [List.flatten_nil] at ih
        subst ih
        rfl
      · rename_i l ls h0
        rw [h0] at ih
        simp only [List.flatten_cons] at ih
        simp [← ih]

/-- no line is empty -/
theorem fileLines_ne_nil : ∀ (t : List Char) (l : List Char), l ∈ fileLines t → l ≠ []
  | [], l, h => by simp [fileLines] at h
  | c :: s, l, h => by
    have ih := fileLines_ne_nil s
    simp only [fileLines] at h
    split at h
    · rcases List.mem_cons.mp h with rfl | h
      · simp
      · exact ih l h
    · split at h
      · simp only [List.mem_singleton] at h
        subst h
        simp
      · rename_i l0 ls h0
        rcases List.mem_cons.mp h with rfl | h
        · simp
        · exact ih l (by rw [h0]; exact List.mem_cons_of_mem _ h)

/-- a line is terminated at the first newline -/
theorem fileLines_line (rest : List Char) : ∀ (l : List Char), '\n' ∉ l →
    fileLines (l ++ '\n' :: rest) = (l ++ ['\n']) :: fileLines rest
  | [], _ => by simp [fileLines]
  | c :: l, h => by
    have hc : ¬ c = '\n' := fun e => h (by rw [e]; exact List.mem_cons_self)
    have ih := fileLines_line rest l (fun hm => h (List.mem_cons_of_mem _ hm))
    simp only [List.cons_append, fileLines, hc, if_false, ih]

/-- writing newline-free items, one per line, and iterating over the file gives the items back (with terminators) -/
theorem fileLines_linesText : ∀ (items : List (List Char)), (∀ l ∈ items, '\n' ∉ l) →
    fileLines (linesText items) = items.map (fun l => l ++ ['\n'])
  | [], _ => rfl
  | l :: t, h => by
    have ih := fileLines_linesText t (fun x hx => h x (List.mem_cons_of_mem _ hx))
    have e : linesText (l :: t) = l ++ '\n' :: linesText t := by simp [linesText]
    rw [e, fileLines_line _ l (h l List.mem_cons_self), ih]
    rfl

theorem chomp_line (l : List Char) : chomp (l ++ ['\n']) = l := by
  simp [chomp]

theorem chomp_no_newline (l : List Char) (h : l.getLast? ≠ some '\n') : chomp l = l := by
  simp [chomp, h]

/-! ### `set.add` folds -/

theorem foldl_setInsert_nodup_eq : ∀ (π acc : List String), (acc ++ π).Nodup → π.foldl setInsert acc = acc ++ π
  | [], acc, _ => by simp
  | x :: t, acc, h => by
    have hx : x ∉ acc := by
      intro hm
      have := (List.nodup_append.mp h).2.2 x hm x List.mem_cons_self
      exact this rfl
    have e : setInsert acc x = acc ++ [x] := by simp [setInsert, hx]
    rw [List.foldl_cons, e, foldl_setInsert_nodup_eq t (acc ++ [x]) (by simpa using h)]
    simp

/-! ### `line.split('\t', 1)` -/

theorem splitFirstTab_spec (g : List Char) : ∀ (r : List Char), '\t' ∉ r → splitFirstTab (r ++ '\t' :: g) = some (r, g)
  | [], _ => by simp [splitFirstTab]
  | c :: r, h => by
    have hc : ¬ c = '\t' := fun e => h (by rw [e]; exact List.mem_cons_self)
    have ih := splitFirstTab_spec g r (fun hm => h (List.mem_cons_of_mem _ hm))
    simp only [List.cons_append, splitFirstTab, hc, if_false, ih]

theorem splitFirstTab_none : ∀ (l : List Char), '\t' ∉ l → splitFirstTab l = none
  | [], _ => rfl
  | c :: l, h => by
    have hc : ¬ c = '\t' := fun e => h (by rw [e]; exact List.mem_cons_self)
    simp only [splitFirstTab, hc, if_false, splitFirstTab_none l (fun hm => h (List.mem_cons_of_mem _ hm))]

/-- the line written for (read, group) is read back as (read, group) when the read id has no tab -/
theorem loadSplitLine_entry (m : List (String × String)) (r g : String) (hr : '\t' ∉ r.toList) :
    loadSplitLine m ((r.toList ++ ['\t'] ++ g.toList) ++ ['\n']) = .ok (dictSet m r g) := by
  have e : r.toList ++ ['\t'] ++ g.toList = r.toList ++ '\t' :: g.toList := by simp
  simp only [loadSplitLine, chomp_line, e, splitFirstTab_spec g.toList r.toList hr, String.ofList_toList]

/-- the dictionary built from a list of entries -/
def dictOf (es : List (String × String)) (m0 : List (String × String)) : List (String × String) :=
  es.foldl (fun m e => dictSet m e.1 e.2) m0

theorem loadSplitLines_entries : ∀ (es : List (String × String)) (m0 : List (String × String)),
    (∀ e ∈ es, '\t' ∉ e.1.toList) →
    loadSplitLines (es.map (fun e => (e.1.toList ++ ['\t'] ++ e.2.toList) ++ ['\n'])) m0 = .ok (dictOf es m0)
  | [], _, _ => rfl
  | e :: t, m0, h => by
    simp only [List.map_cons, loadSplitLines, loadSplitLine_entry m0 e.1 e.2 (h e List.mem_cons_self)]
    exact loadSplitLines_entries t _ (fun x hx => h x (List.mem_cons_of_mem _ hx))

theorem lookup_append_single (xs : List (String × String)) (e : String × String) (r : String) :
    (xs ++ [e]).lookup r = match xs.lookup r with
      | some g => some g
      | none => if r = e.1 then some e.2 else none := by
  induction xs with
  | nil =>
    obtain ⟨e1, e2⟩ := e
    by_cases h : r = e1
    · subst h; simp [List.lookup]
    · have : (r == e1) = false := by simp [h]
      simp [List.lookup, this, h]
  | cons p t iht =>
    obtain ⟨k0, v0⟩ := p
    by_cases h : r = k0
    · subst h; simp [List.lookup]
    · have : (r == k0) = false := by simp [h]
      simp only [List.cons_append, List.lookup, this]
      exact iht

/-- later entries win -/
theorem lookup_dictOf : ∀ (es : List (String × String)) (m0 : List (String × String)) (r : String),
    (dictOf es m0).lookup r = match es.reverse.lookup r with
      | some g => some g
      | none => m0.lookup r
  | [], m0, r => by simp [dictOf]
  | e :: t, m0, r => by
    have ih := lookup_dictOf t (dictSet m0 e.1 e.2) r
    simp only [dictOf, List.foldl_cons] at ih ⊢
    rw [ih, lookup_dictSet, List.reverse_cons, lookup_append_single]
    cases t.reverse.lookup r with
    | some g => rfl
    | none => simp only; split <;> simp_all

/-- the lines `split_read_group_table` writes are exactly the (read, group) entries, rendered `read\tgroup` -/
theorem splitTableLines_eq (m : List (String × String)) (chr : String) :
    ∀ (alns : List (String × Option String)) (seen : List String),
      splitTableLines m chr alns seen = (splitEntries m chr alns seen).map (fun e => e.1.toList ++ ['\t'] ++ e.2.toList)
  | [], _ => rfl
  | (rid, c) :: as, seen => by
    have ih := fun seen' => splitTableLines_eq m chr as seen'
    simp only [splitTableLines, splitEntries]
    by_cases hc : c = some chr
    · simp only [hc, if_true]
      cases m.lookup rid with
      | none => exact ih seen
      | some g =>
        simp only
        by_cases hs : seen.contains rid = true
        · simp only [hs, if_true]; exact ih seen
        · simp only [hs, Bool.false_eq_true, if_false, List.map_cons, ih]
    · simp only [hc, if_false]; exact ih seen

/-! ### characters of the fields of a user table -/

theorem mem_joinWith (d : List Char) : ∀ (pieces : List (List Char)) (p : List Char), p ∈ pieces →
    ∀ c ∈ p, c ∈ joinWith d pieces
  | [], _, h, _, _ => by simp at h
  | [a], p, h, c, hc => by
    simp only [List.mem_singleton] at h
    subst h
    simpa [joinWith] using hc
  | a :: b :: rest, p, h, c, hc => by
    simp only [joinWith, List.mem_append]
    rcases List.mem_cons.mp h with rfl | h
    · exact Or.inl (Or.inl hc)
    · exact Or.inr (mem_joinWith d (b :: rest) p h c hc)

theorem mem_pyStrip (l : List Char) (c : Char) (h : c ∈ pyStrip l) : c ∈ l := by
  unfold pyStrip at h
  rw [List.mem_reverse] at h
  have h1 := (List.dropWhile_suffix isPySpace).subset h
  rw [List.mem_reverse] at h1
  exact (List.dropWhile_suffix isPySpace).subset h1

/-- both fields of a table row consist of characters of the row's line -/
theorem rowEntry_chars (rc gc : Nat) (delim line : List Char) (e : String × String)
    (h : rowEntry rc gc delim line = some e) : (∀ c ∈ e.1.toList, c ∈ line) ∧ (∀ c ∈ e.2.toList, c ∈ line) := by
  unfold rowEntry at h
  simp only at h
  split at h
  · cases h
  · cases delim with
    | nil => simp [pySplit] at h
    | cons d0 dt =>
      simp only [pySplit] at h
      split at h
      · cases h
      · have hj := splitGo_join d0 dt (pyStrip line)
        generalize hcols : (splitGo d0 dt (pyStrip line)).1 :: (splitGo d0 dt (pyStrip line)).2 = cols at h hj
        split at h
        · rename_i r g hr hg
          injection h with h
          subst h
          have hrm : r ∈ cols := List.mem_of_getElem? hr
          have hgm : g ∈ cols := List.mem_of_getElem? hg
          constructor
          · intro c hc
            rw [String.toList_ofList] at hc
            exact mem_pyStrip line c (hj ▸ mem_joinWith (d0 :: dt) cols r hrm c hc)
          · intro c hc
            rw [String.toList_ofList] at hc
            exact mem_pyStrip line c (hj ▸ mem_joinWith (d0 :: dt) cols g hgm c hc)
        · cases h

/-- a character that occurs in no line of the table occurs in no read id and no group of the loaded table -/
theorem loadTable_chars (rc gc : Nat) (delim : List Char) (hd : delim ≠ []) (x : Char) :
    ∀ (lines : List (List Char)) (m0 m : List (String × String)), (∀ l ∈ lines, x ∉ l) →
      (∀ k v, m0.lookup k = some v → x ∉ v.toList) → loadTable rc gc delim lines m0 = .ok m →
      ∀ k v, m.lookup k = some v → x ∉ v.toList
  | [], m0, m, _, h0, hm => by
    simp only [loadTable, Except.ok.injEq] at hm
    subst hm
    exact h0
  | l :: ls, m0, m, hl, h0, hm => by
    simp only [loadTable, loadLine_eq rc gc delim hd m0 l] at hm
    refine loadTable_chars rc gc delim hd x ls _ m (fun l' hl' => hl l' (List.mem_cons_of_mem _ hl')) ?_ hm
    cases he : rowEntry rc gc delim l with
    | none => exact h0
    | some e =>
      intro k v hk
      simp only [lookup_dictSet] at hk
      split at hk
      · injection hk with hk
        subst hk
        intro hx
        exact hl l List.mem_cons_self ((rowEntry_chars rc gc delim l e he).2 x hx)
      · exact h0 k v hk

end IsoVerif.Lemmas.C09Files
