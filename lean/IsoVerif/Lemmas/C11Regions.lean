/-
C11 helper lemmas — Model/Regions.lean (C05) under translation: by whole bins (`k = COVERAGE_BIN * j`) for everything
that looks at the coverage dictionary, by any k for the clustering of adjacent alignments.
-/
import IsoVerif.Model.Regions
import IsoVerif.Model.C11SymRegions
import IsoVerif.Lemmas.C11Shift

namespace IsoVerif.Lemmas.C11
open IsoVerif.Gen IsoVerif.Model IsoVerif.Model.C11 IsoVerif.Model.Regions

theorem rg_bin_shift (x j : Int) : bin (x + ap_COVERAGE_BIN * j) = bin x + j := by
  simp only [bin, ap_COVERAGE_BIN]; omega

theorem rg_covGet_shift (j : Int) (d : CovDict) (k : Int) : covGet (shiftCov j d) (k + j) = covGet d k := by
  induction d with
  | nil => rfl
  | cons p ps ih =>
    simp only [shiftCov, List.map_cons, covGet] at ih ⊢
    have : (p.1 + j = k + j) ↔ (p.1 = k) := by omega
    simp only [this, ih]

theorem rg_covBump_shift (j : Int) (d : CovDict) (k : Int) : covBump (shiftCov j d) (k + j) = shiftCov j (covBump d k) := by
  induction d with
  | nil => rfl
  | cons p ps ih =>
    simp only [shiftCov, List.map_cons, covBump] at ih ⊢
    have : (p.1 + j = k + j) ↔ (p.1 = k) := by omega
    simp only [this]
    split
    · rfl
    · simp only [List.map_cons, ih]

theorem rg_covBumpRange_shift (j : Int) (n : Nat) : ∀ (d : CovDict) (lo : Int),
    covBumpRange (shiftCov j d) (lo + j) n = shiftCov j (covBumpRange d lo n) := by
  induction n with
  | zero => intro d lo; rfl
  | succ n ih =>
    intro d lo
    simp only [covBumpRange, rg_covBump_shift]
    have : lo + j + 1 = lo + 1 + j := by omega
    rw [this, ih]

theorem rg_minKey_shift (j : Int) (d : CovDict) : minKey (shiftCov j d) = (minKey d).map (· + j) := by
  induction d with
  | nil => rfl
  | cons p ps ih =>
    simp only [shiftCov, List.map_cons, minKey] at ih ⊢
    rw [ih]
    cases minKey ps with
    | none => rfl
    | some m => simp only [Option.map_some]; congr 1; omega

theorem rg_maxKey_shift (j : Int) (d : CovDict) : maxKey (shiftCov j d) = (maxKey d).map (· + j) := by
  induction d with
  | nil => rfl
  | cons p ps ih =>
    simp only [shiftCov, List.map_cons, maxKey] at ih ⊢
    rw [ih]
    cases maxKey ps with
    | none => rfl
    | some m => simp only [Option.map_some]; congr 1; omega

theorem rg_splitInner_shift (j : Int) (d : CovDict) (last cs : Int) (fuel : Nat) : ∀ (pos maxCov : Int),
    splitInner (shiftCov j d) (last + j) (cs + j) fuel (pos + j) maxCov =
      (splitInner d last cs fuel pos maxCov).map (fun r => (r.1 + j, r.2)) := by
  induction fuel with
  | zero => intro pos maxCov; rfl
  | succ f ih =>
    intro pos maxCov
    simp only [splitInner, rg_covGet_shift]
    have c1 : (pos + j ≤ last + j ∧ pos + j - (cs + j) < minBins) ↔ (pos ≤ last ∧ pos - cs < minBins) := by
      constructor <;> (intro h; constructor <;> omega)
    simp only [c1]
    split
    · have : pos + j + 1 = pos + 1 + j := by omega
      rw [this, ih]
    · rfl

theorem rg_splitOuter_shift (j : Int) (d : CovDict) (R : Iv) (last : Int) (innerFuel : Nat) (fuel : Nat) :
    ∀ (cs pos maxCov : Int),
      splitOuter (shiftCov j d) (shiftIv (ap_COVERAGE_BIN * j) R) (last + j) innerFuel fuel (cs + j) (pos + j) maxCov =
        (splitOuter d R last innerFuel fuel cs pos maxCov).map (shiftL (ap_COVERAGE_BIN * j)) := by
  induction fuel with
  | zero => intro cs pos maxCov; rfl
  | succ f ih =>
    intro cs pos maxCov
    simp only [splitOuter, rg_splitInner_shift]
    have c1 : (pos + j ≤ last + j) ↔ (pos ≤ last) := by omega
    simp only [c1]
    split
    · cases hI : splitInner d last cs innerFuel pos maxCov with
      | none => rfl
      | some pm =>
        obtain ⟨p, m⟩ := pm
        simp only [Option.map_some]
        have e1 : min (p + j + 1) (last + j + 1) = min (p + 1) (last + 1) + j := by omega
        rw [e1, rg_covGet_shift, ih]
        cases splitOuter d R last innerFuel f p (min (p + 1) (last + 1)) (covGet d p) with
        | none => rfl
        | some rest =>
          simp only [Option.map_some, shiftL_cons, shiftIv, ap_COVERAGE_BIN]
          congr 2
          ext <;> simp <;> omega
    · rfl

theorem rg_splitLoop_shift (j : Int) (R : Iv) (d : CovDict) :
    splitLoop (shiftIv (ap_COVERAGE_BIN * j) R) (shiftCov j d) = (splitLoop R d).map (shiftL (ap_COVERAGE_BIN * j)) := by
  simp only [splitLoop, rg_minKey_shift, rg_maxKey_shift]
  cases minKey d with
  | none => rfl
  | some first =>
    cases maxKey d with
    | none => rfl
    | some last =>
      simp only [Option.map_some]
      have e1 : last + j + 2 - (first + j) = last + 2 - first := by omega
      have e2 : first + j + 1 = first + 1 + j := by omega
      rw [e1, e2, rg_covGet_shift, rg_splitOuter_shift]

theorem rg_setFirstStart_shift (k x : Int) (l : List Iv) :
    setFirstStart (x + k) (shiftL k l) = shiftL k (setFirstStart x l) := by
  cases l with
  | nil => rfl
  | cons r rs => simp [setFirstStart, shiftL_cons, shiftIv]

theorem rg_setLastEnd_shift (k x : Int) (l : List Iv) :
    setLastEnd (x + k) (shiftL k l) = shiftL k (setLastEnd x l) := by
  induction l with
  | nil => rfl
  | cons r rs ih =>
    cases rs with
    | nil => simp [setLastEnd, shiftL, shiftIv]
    | cons r' rs' =>
      simp only [shiftL_cons, setLastEnd] at ih ⊢
      rw [ih]

theorem rg_retile_shift (k : Int) (R : Iv) (l : List Iv) :
    retile (shiftIv k R) (shiftL k l) = shiftL k (retile R l) := by
  cases l with
  | nil => rfl
  | cons r rs =>
    simp only [retile, shiftL_cons, shiftIv_fst, shiftIv_snd]
    rw [← shiftL_cons, rg_setFirstStart_shift, rg_setLastEnd_shift]

theorem rg_smallRegion_shift (k : Int) (R : Iv) (count : Nat) : smallRegion (shiftIv k R) count = smallRegion R count := by
  have : interval_len (shiftIv k R) = interval_len R := by simp only [interval_len, shiftIv]; omega
  simp only [smallRegion, this]

theorem rg_splitCoverageRegions_shift (j : Int) (R : Iv) (count : Nat) (d : CovDict) :
    splitCoverageRegions (shiftIv (ap_COVERAGE_BIN * j) R) count (shiftCov j d) =
      (splitCoverageRegions R count d).map (shiftL (ap_COVERAGE_BIN * j)) := by
  simp only [splitCoverageRegions, rg_smallRegion_shift, rg_splitLoop_shift]
  split
  · rfl
  · cases splitLoop R d with
    | none => rfl
    | some regs => simp only [Option.map_some, rg_retile_shift]

/-! ### the storage built from shifted alignments -/

theorem rg_binS_shift (j : Int) (a : Aln) : (shiftAln (ap_COVERAGE_BIN * j) a).binS = a.binS + j := by
  simp only [Aln.binS, shiftAln, rg_bin_shift]

theorem rg_binE_shift (j : Int) (a : Aln) : (shiftAln (ap_COVERAGE_BIN * j) a).binE = a.binE + j := by
  simp only [Aln.binE, shiftAln]
  have : a.stop + ap_COVERAGE_BIN * j - 1 = a.stop - 1 + ap_COVERAGE_BIN * j := by omega
  rw [this, rg_bin_shift]

theorem rg_hullAdd_shift (k : Int) (reg : Option Iv) (a : Aln) :
    hullAdd (reg.map (shiftIv k)) (shiftAln k a) = shiftIv k (hullAdd reg a) := by
  cases reg with
  | none => simp only [Option.map_none, hullAdd, shiftAln, shiftIv]; ext <;> simp <;> omega
  | some r => simp only [Option.map_some, hullAdd, shiftAln, shiftIv]; ext <;> simp <;> omega

/-- what a storage holds apart from the two index dictionaries: region, coverage, alignments -/
def storeView (s : Store) : Option Iv × CovDict × List Aln := (s.region, s.cov, s.alns)

def shiftView (j : Int) (v : Option Iv × CovDict × List Aln) : Option Iv × CovDict × List Aln :=
  (v.1.map (shiftIv (ap_COVERAGE_BIN * j)), shiftCov j v.2.1, v.2.2.map (shiftAln (ap_COVERAGE_BIN * j)))

theorem rg_add_view (j : Int) (s s' : Store) (a : Aln) (h : storeView s' = shiftView j (storeView s)) :
    storeView (s'.add (shiftAln (ap_COVERAGE_BIN * j) a)) = shiftView j (storeView (s.add a)) := by
  simp only [storeView, shiftView, Prod.mk.injEq] at h
  obtain ⟨h1, h2, h3⟩ := h
  simp only [storeView, shiftView, Store.add, h1, h2, h3, rg_hullAdd_shift, rg_binS_shift, rg_binE_shift, Option.map_some,
    List.map_append, List.map_cons, List.map_nil, Prod.mk.injEq, true_and]
  have e : a.binE + j + 1 - (a.binS + j) = a.binE + 1 - a.binS := by omega
  rw [e, rg_covBumpRange_shift]
  simp

theorem rg_foldl_add_view (j : Int) (l : List Aln) : ∀ (s s' : Store), storeView s' = shiftView j (storeView s) →
    storeView ((l.map (shiftAln (ap_COVERAGE_BIN * j))).foldl Store.add s') = shiftView j (storeView (l.foldl Store.add s)) := by
  induction l with
  | nil => intro s s' h; exact h
  | cons a t ih =>
    intro s s' h
    simp only [List.map_cons, List.foldl_cons]
    exact ih _ _ (rg_add_view j s s' a h)

theorem rg_buildStore_view (j : Int) (l : List Aln) :
    storeView (buildStore (l.map (shiftAln (ap_COVERAGE_BIN * j)))) = shiftView j (storeView (buildStore l)) :=
  rg_foldl_add_view j l Store.empty Store.empty rfl

/-! ### clustering of adjacent alignments and the default-mode (`BAMAlignmentStorage`) forwarding -/

theorem rg_iv_shift (k : Int) (a : Aln) : (shiftAln k a).iv = shiftIv k a.iv := by
  simp only [Aln.iv, shiftAln, shiftIv]; ext <;> simp <;> omega

theorem rg_notAdjacent_shift (k : Int) (reg : Option Iv) (a : Aln) :
    notAdjacent (reg.map (shiftIv k)) (shiftAln k a) = notAdjacent reg a := by
  cases reg with
  | none => rfl
  | some r => simp only [Option.map_some, notAdjacent, rg_iv_shift, overlaps_shift]

/-- the forwarded storages and the open one, as views -/
def pview (st : PState) : (Option Iv × CovDict × List Aln) × List (Option Iv × CovDict × List Aln) :=
  (storeView st.store, st.out.map storeView)

theorem rg_processStep_view (j : Int) (st st' : PState) (a : Aln)
    (h : pview st' = (shiftView j (pview st).1, (pview st).2.map (shiftView j))) :
    pview (processStep st' (shiftAln (ap_COVERAGE_BIN * j) a)) =
      (shiftView j (pview (processStep st a)).1, (pview (processStep st a)).2.map (shiftView j)) := by
  simp only [pview, Prod.mk.injEq] at h
  obtain ⟨h1, h2⟩ := h
  have hreg : st'.store.region = st.store.region.map (shiftIv (ap_COVERAGE_BIN * j)) := by
    have := congrArg Prod.fst h1; simpa [storeView, shiftView] using this
  simp only [processStep, hreg, rg_notAdjacent_shift]
  split
  · simp only [pview, List.map_append, List.map_cons, List.map_nil, h1, h2, Prod.mk.injEq, and_true]
    exact rg_add_view j Store.empty Store.empty a rfl
  · simp only [pview, h2, Prod.mk.injEq, and_true]
    exact rg_add_view j st.store st'.store a h1

theorem rg_foldl_processStep_view (j : Int) (l : List Aln) : ∀ (st st' : PState),
    pview st' = (shiftView j (pview st).1, (pview st).2.map (shiftView j)) →
    pview ((l.map (shiftAln (ap_COVERAGE_BIN * j))).foldl processStep st') =
      (shiftView j (pview (l.foldl processStep st)).1, (pview (l.foldl processStep st)).2.map (shiftView j)) := by
  induction l with
  | nil => intro st st' h; exact h
  | cons a t ih =>
    intro st st' h
    simp only [List.map_cons, List.foldl_cons]
    exact ih _ _ (rg_processStep_view j st st' a h)

theorem rg_processStores_view (j : Int) (l : List Aln) :
    (processStores (l.map (shiftAln (ap_COVERAGE_BIN * j)))).map storeView =
      (processStores l).map (fun s => shiftView j (storeView s)) := by
  have h := rg_foldl_processStep_view j l PState.init PState.init rfl
  simp only [pview, Prod.mk.injEq] at h
  obtain ⟨h1, h2⟩ := h
  have hreg : ((l.map (shiftAln (ap_COVERAGE_BIN * j))).foldl processStep PState.init).store.region =
      ((l.foldl processStep PState.init).store.region).map (shiftIv (ap_COVERAGE_BIN * j)) := by
    have := congrArg Prod.fst h1; simpa [storeView, shiftView] using this
  simp only [processStores, processFinish, hreg, Option.isSome_map]
  split
  · simp only [List.map_append, List.map_cons, List.map_nil, h1, h2, List.map_map]; rfl
  · simp only [h2, List.map_map]; rfl

theorem rg_bamGet_shift (k : Int) (all : List Aln) (r : Iv) :
    bamGet (all.map (shiftAln k)) (shiftIv k r) = (bamGet all r).map (shiftAln k) := by
  simp only [bamGet, List.filter_map]
  congr 1
  apply List.filter_congr
  intro a _
  simp only [Function.comp, rg_iv_shift, overlaps_shift]

/-- image of the `(region, alignments)` pairs handed to `process_alignments_in_region` -/
def shiftOut (k : Int) (o : List (Iv × List Aln)) : List (Iv × List Aln) :=
  o.map (fun p => (shiftIv k p.1, p.2.map (shiftAln k)))

theorem rg_mapRegions_shift (k : Int) (all : List Aln) (regs : List Iv) :
    mapRegions (fun r => some (bamGet (all.map (shiftAln k)) r)) (shiftL k regs) =
      (mapRegions (fun r => some (bamGet all r)) regs).map (shiftOut k) := by
  induction regs with
  | nil => rfl
  | cons r rs ih =>
    simp only [shiftL_cons, mapRegions, ih, rg_bamGet_shift]
    cases mapRegions (fun r => some (bamGet all r)) rs <;> simp [shiftOut]

theorem rg_forward_bam_view (j : Int) (all : List Aln) (s s' : Store)
    (h : storeView s' = shiftView j (storeView s)) :
    forward .bam (all.map (shiftAln (ap_COVERAGE_BIN * j))) s' =
      (forward .bam all s).map (shiftOut (ap_COVERAGE_BIN * j)) := by
  simp only [storeView, shiftView, Prod.mk.injEq] at h
  obtain ⟨h1, h2, h3⟩ := h
  simp only [forward, forwardWith, h1, h2, h3, List.length_map]
  cases hr : s.region with
  | none => rfl
  | some R =>
    simp only [Option.map_some, rg_splitCoverageRegions_shift]
    cases hs : splitCoverageRegions R s.alns.length s.cov with
    | none => rfl
    | some regs =>
      simp only [Option.map_some]
      match regs with
      | [] => simp [shiftL, mapRegions, getAlignments, shiftOut]
      | [x] =>
        simp only [shiftL, List.map_cons, List.map_nil, getAlignments, h1, hr, Option.map_some, rg_bamGet_shift]
        simp [shiftOut]
      | x :: y :: t =>
        simp only [shiftL, List.map_cons, getAlignments]
        have := rg_mapRegions_shift (ap_COVERAGE_BIN * j) all (x :: y :: t)
        simpa [shiftL] using this

theorem rg_collectStores_bam (j : Int) (all : List Aln) : ∀ (ss ss' : List Store),
    ss'.map storeView = ss.map (fun s => shiftView j (storeView s)) →
    collectStores (forward .bam (all.map (shiftAln (ap_COVERAGE_BIN * j)))) ss' =
      (collectStores (forward .bam all) ss).map (shiftOut (ap_COVERAGE_BIN * j)) := by
  intro ss
  induction ss with
  | nil =>
    intro ss' h
    have : ss' = [] := by simpa using h
    subst this; rfl
  | cons s t ih =>
    intro ss' h
    cases ss' with
    | nil => simp at h
    | cons s' t' =>
      simp only [List.map_cons, List.cons.injEq] at h
      simp only [collectStores, rg_forward_bam_view j all s s' h.1, ih t' h.2]
      cases forward .bam all s <;> cases collectStores (forward .bam all) t <;> simp [shiftOut]

theorem rg_collect_bam_shift (j : Int) (all : List Aln) :
    collect .bam (all.map (shiftAln (ap_COVERAGE_BIN * j))) = (collect .bam all).map (shiftOut (ap_COVERAGE_BIN * j)) :=
  rg_collectStores_bam j all _ _ (rg_processStores_view j all)

/-! ### the clusters themselves do not depend on the bin grid: ANY k -/

def rview (s : Store) : Option Iv × List Aln := (s.region, s.alns)
def shiftRView (k : Int) (v : Option Iv × List Aln) : Option Iv × List Aln :=
  (v.1.map (shiftIv k), v.2.map (shiftAln k))

theorem rg_add_rview (k : Int) (s s' : Store) (a : Aln) (h : rview s' = shiftRView k (rview s)) :
    rview (s'.add (shiftAln k a)) = shiftRView k (rview (s.add a)) := by
  simp only [rview, shiftRView, Prod.mk.injEq] at h
  obtain ⟨h1, h2⟩ := h
  simp only [rview, shiftRView, Store.add, h1, h2, rg_hullAdd_shift, Option.map_some, List.map_append, List.map_cons,
    List.map_nil]

def prview (st : PState) : (Option Iv × List Aln) × List (Option Iv × List Aln) := (rview st.store, st.out.map rview)

theorem rg_processStep_rview (k : Int) (st st' : PState) (a : Aln)
    (h : prview st' = (shiftRView k (prview st).1, (prview st).2.map (shiftRView k))) :
    prview (processStep st' (shiftAln k a)) =
      (shiftRView k (prview (processStep st a)).1, (prview (processStep st a)).2.map (shiftRView k)) := by
  simp only [prview, Prod.mk.injEq] at h
  obtain ⟨h1, h2⟩ := h
  have hreg : st'.store.region = st.store.region.map (shiftIv k) := by
    have := congrArg Prod.fst h1; simpa [rview, shiftRView] using this
  simp only [processStep, hreg, rg_notAdjacent_shift]
  split
  · simp only [prview, List.map_append, List.map_cons, List.map_nil, h1, h2, Prod.mk.injEq, and_true]
    exact rg_add_rview k Store.empty Store.empty a rfl
  · simp only [prview, h2, Prod.mk.injEq, and_true]
    exact rg_add_rview k st.store st'.store a h1

theorem rg_foldl_processStep_rview (k : Int) (l : List Aln) : ∀ (st st' : PState),
    prview st' = (shiftRView k (prview st).1, (prview st).2.map (shiftRView k)) →
    prview ((l.map (shiftAln k)).foldl processStep st') =
      (shiftRView k (prview (l.foldl processStep st)).1, (prview (l.foldl processStep st)).2.map (shiftRView k)) := by
  induction l with
  | nil => intro st st' h; exact h
  | cons a t ih =>
    intro st st' h
    simp only [List.map_cons, List.foldl_cons]
    exact ih _ _ (rg_processStep_rview k st st' a h)

theorem rg_processStores_rview (k : Int) (l : List Aln) :
    (processStores (l.map (shiftAln k))).map rview = (processStores l).map (fun s => shiftRView k (rview s)) := by
  have h := rg_foldl_processStep_rview k l PState.init PState.init rfl
  simp only [prview, Prod.mk.injEq] at h
  obtain ⟨h1, h2⟩ := h
  have hreg : ((l.map (shiftAln k)).foldl processStep PState.init).store.region =
      ((l.foldl processStep PState.init).store.region).map (shiftIv k) := by
    have := congrArg Prod.fst h1; simpa [rview, shiftRView] using this
  simp only [processStores, processFinish, hreg, Option.isSome_map]
  split
  · simp only [List.map_append, List.map_cons, List.map_nil, h1, h2, List.map_map]; rfl
  · simp only [h2, List.map_map]; rfl

theorem rg_clusters_shift (k : Int) (l : List Aln) :
    clusters (l.map (shiftAln k)) = (clusters l).map (List.map (shiftAln k)) ∧
    (processStores (l.map (shiftAln k))).map (·.region) = (processStores l).map (fun s => s.region.map (shiftIv k)) := by
  have h := rg_processStores_rview k l
  constructor
  · have := congrArg (List.map Prod.snd) h
    simp only [List.map_map] at this
    simp only [clusters, List.map_map]
    exact this
  · have := congrArg (List.map Prod.fst) h
    simp only [List.map_map] at this
    exact this

theorem rg_statKey_shift (k : Int) (a : Aln) : statKey (shiftAln k a) = statKey a := rfl

theorem rg_processStats_shift (k : Int) (l : List Aln) : processStats (l.map (shiftAln k)) = processStats l := by
  have aux : ∀ (l : List Aln) (st st' : PState), st'.stats = st.stats →
      st'.store.region = st.store.region.map (shiftIv k) →
      ((l.map (shiftAln k)).foldl processStep st').stats = (l.foldl processStep st).stats := by
    intro l
    induction l with
    | nil => intro st st' h _; exact h
    | cons a t ih =>
      intro st st' h hr
      simp only [List.map_cons, List.foldl_cons]
      apply ih
      · simp only [processStep, hr, rg_notAdjacent_shift]
        split <;> simp only [statStep, rg_statKey_shift, h]
      · simp only [processStep, hr, rg_notAdjacent_shift]
        split
        · simp only [Store.add, Store.empty]
          have := rg_hullAdd_shift k none a
          simpa using congrArg some this
        · simp only [Store.add, hr]
          have := rg_hullAdd_shift k st.store.region a
          simpa using congrArg some this
  exact aux l PState.init PState.init rfl rfl

end IsoVerif.Lemmas.C11
