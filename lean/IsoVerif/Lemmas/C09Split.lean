/-
Helper lemmas for C09 (core Lean only): `str.split` (`splitGo`), dict lookups, `set.add`.
-/
import IsoVerif.Model.C09

namespace IsoVerif.Lemmas.C09Split
open IsoVerif.Gen IsoVerif.Model.C09

/-! ### `str.split` -/

theorem joinWith_cons_head (d : List Char) (c : Char) (a : List Char) (rest : List (List Char)) :
    joinWith d ((c :: a) :: rest) = c :: joinWith d (a :: rest) := by
  cases rest with
  | nil => rfl
  | cons b r => simp [joinWith]

/-- joining the pieces with the delimiter gives the string back -/
theorem splitGo_join (d0 : Char) (dt s : List Char) :
    joinWith (d0 :: dt) ((splitGo d0 dt s).1 :: (splitGo d0 dt s).2) = s := by
  fun_induction splitGo d0 dt s with
  | case1 => rfl
  | case2 c s h r ih =>
    have hp : dt <+: s := List.isPrefixOf_iff_prefix.mp h.2
    have hs : dt ++ s.drop dt.length = s := List.prefix_iff_eq_append.mp hp
    simp only [joinWith]
    rw [ih, h.1]
    simp [hs]
  | case3 c s h r ih =>
    rw [joinWith_cons_head, ih]

theorem cons_prefix_iff (d0 c : Char) (dt s : List Char) : (d0 :: dt) <+: (c :: s) ↔ (c = d0 ∧ dt.isPrefixOf s = true) := by
  rw [List.cons_prefix_cons, List.isPrefixOf_iff_prefix]
  constructor
  · rintro ⟨h1, h2⟩; exact ⟨h1.symm, h2⟩
  · rintro ⟨h1, h2⟩; exact ⟨h1.symm, h2⟩

/-- the last piece contains no occurrence of the delimiter -/
theorem splitGo_last (d0 : Char) (dt s : List Char) :
    ¬ (d0 :: dt) <:+: ((splitGo d0 dt s).1 :: (splitGo d0 dt s).2).getLast (by simp) := by
  fun_induction splitGo d0 dt s with
  | case1 => simp
  | case2 c s h r ih =>
    simpa [List.getLast_cons] using ih
  | case3 c s h r ih =>
    have hj := splitGo_join d0 dt s
    generalize hsp : splitGo d0 dt s = q at ih hj
    have hq : r = q := hsp
    subst hq
    obtain ⟨a, rest⟩ := r
    simp only at ih hj ⊢
    by_cases h2 : rest = []
    · subst h2
      simp only [joinWith] at hj
      subst hj
      simp only [List.getLast_singleton] at ih ⊢
      rw [List.infix_cons_iff]
      rintro (hp | hi)
      · exact h ((cons_prefix_iff d0 c dt a).mp hp)
      · exact ih hi
    · rw [List.getLast_cons h2]
      rw [List.getLast_cons h2] at ih
      exact ih

/-- there is a single piece exactly when the delimiter does not occur -/
theorem splitGo_single_iff (d0 : Char) (dt s : List Char) :
    (splitGo d0 dt s).2 = [] ↔ ¬ (d0 :: dt) <:+: s := by
  constructor
  · intro h2
    have hj := splitGo_join d0 dt s
    have hl := splitGo_last d0 dt s
    simp only [h2, List.getLast_singleton] at hl
    rw [h2] at hj
    simp only [joinWith] at hj
    rw [hj] at hl
    exact hl
  · intro hn
    by_cases h2 : (splitGo d0 dt s).2 = []
    · exact h2
    · exfalso
      apply hn
      have hj := splitGo_join d0 dt s
      obtain ⟨b, rest, hb⟩ := List.exists_cons_of_ne_nil h2
      rw [hb] at hj
      simp only [joinWith] at hj
      exact ⟨(splitGo d0 dt s).1, joinWith (d0 :: dt) (b :: rest), by simpa [List.append_assoc] using hj⟩

/-! ### dict lookups, declaratively -/

theorem lookup_none_iff {β} (l : List (String × β)) (k : String) : l.lookup k = none ↔ ∀ v, (k, v) ∉ l := by
  induction l with
  | nil => simp
  | cons p t ih =>
    obtain ⟨k0, v0⟩ := p
    rw [List.lookup_cons]
    by_cases h : k = k0
    · subst h
      simp only [beq_self_eq_true]
      constructor
      · intro h; cases h
      · intro h; exact absurd List.mem_cons_self (h v0)
    · have hb : (k == k0) = false := by simp [h]
      simp only [hb, ih]
      constructor
      · intro hh v hm
        rcases List.mem_cons.mp hm with e | e
        · injection e with e1 _; exact h e1
        · exact hh v e
      · intro hh v hm; exact hh v (List.mem_cons_of_mem _ hm)

/-- the first entry with key `k` is what a dict built without duplicate keys holds for `k` -/
theorem lookup_first {β} (pre post : List (String × β)) (k : String) (v : β) (h : ∀ v', (k, v') ∉ pre) :
    (pre ++ (k, v) :: post).lookup k = some v := by
  induction pre with
  | nil => simp [List.lookup]
  | cons p t ih =>
    obtain ⟨k0, v0⟩ := p
    have hne : k ≠ k0 := by intro e; subst e; exact h v0 List.mem_cons_self
    have hb : (k == k0) = false := by simp [hne]
    simp only [List.cons_append, List.lookup_cons, hb]
    exact ih (fun v' hm => h v' (List.mem_cons_of_mem _ hm))

theorem suffix_after_last_unique (c : Char) (p p' g g' : List Char) (h : p ++ c :: g = p' ++ c :: g')
    (hg : c ∉ g) (hg' : c ∉ g') : g = g' := by
  induction p generalizing p' with
  | nil =>
    cases p' with
    | nil => simpa using h
    | cons x t =>
      simp only [List.nil_append, List.cons_append, List.cons.injEq] at h
      exact absurd (by rw [h.2]; simp) hg
  | cons x t ih =>
    cases p' with
    | nil =>
      simp only [List.nil_append, List.cons_append, List.cons.injEq] at h
      exact absurd (by rw [← h.2]; simp) hg'
    | cons y u =>
      simp only [List.cons_append, List.cons.injEq] at h
      exact ih u h.2

/-! ### `set.add` -/

theorem mem_setInsert (s : List String) (x y : String) : y ∈ setInsert s x ↔ y ∈ s ∨ y = x := by
  unfold setInsert
  split
  · rename_i h
    have hx : x ∈ s := by simpa using h
    constructor
    · exact Or.inl
    · rintro (h | h)
      · exact h
      · rw [h]; exact hx
  · simp

theorem setInsert_nodup {s : List String} (h : s.Nodup) (x : String) : (setInsert s x).Nodup := by
  unfold setInsert
  split
  · exact h
  · rename_i hx
    have hx' : x ∉ s := by simpa using hx
    exact List.nodup_append.mpr ⟨h, by simp, by intro a ha b hb; simp at hb; subst hb; intro e; subst e; exact hx' ha⟩

theorem foldl_setInsert_mem (s acc : List String) (x : String) : x ∈ s.foldl setInsert acc ↔ x ∈ acc ∨ x ∈ s := by
  induction s generalizing acc with
  | nil => simp
  | cons y t ih =>
    simp only [List.foldl_cons, ih, mem_setInsert, List.mem_cons]
    constructor
    · rintro ((h | h) | h)
      · exact Or.inl h
      · exact Or.inr (Or.inl h)
      · exact Or.inr (Or.inr h)
    · rintro (h | h | h)
      · exact Or.inl (Or.inl h)
      · exact Or.inl (Or.inr h)
      · exact Or.inr h

theorem foldl_setInsert_nodup (s acc : List String) (h : acc.Nodup) : (s.foldl setInsert acc).Nodup := by
  induction s generalizing acc with
  | nil => exact h
  | cons y t ih => exact ih _ (setInsert_nodup h y)

/-! ### dict assignment -/

theorem lookup_dictSet (m : List (String × String)) (k v k' : String) :
    (dictSet m k v).lookup k' = if k' = k then some v else m.lookup k' := by
  induction m with
  | nil =>
    by_cases h : k' = k
    · subst h; simp [dictSet, List.lookup]
    · have : (k' == k) = false := by simp [h]
      simp [dictSet, List.lookup, this, h]
  | cons p t ih =>
    obtain ⟨k0, v0⟩ := p
    simp only [dictSet]
    by_cases h0 : k0 = k
    · subst h0
      by_cases h : k' = k0
      · subst h; simp [List.lookup]
      · have : (k' == k0) = false := by simp [h]
        simp [List.lookup, this, h]
    · simp only [h0, if_false]
      by_cases h : k' = k0
      · subst h
        have : ¬ k' = k := fun e => h0 e
        simp [List.lookup, this]
      · have hb : (k' == k0) = false := by simp [h]
        simp only [List.lookup, hb]
        exact ih

/-! ### `load_table`, `split_read_group_table` -/

/-- the (read id, group) entry a line of the table contributes; `none` for comments, blank and short lines -/
def rowEntry (rc gc : Nat) (delim : List Char) (line : List Char) : Option (String × String) :=
  let l := pyStrip line
  if l.head? = some '#' ∨ l = [] then none
  else
    match pySplit delim l with
    | .error _ => none
    | .ok cols =>
      if cols.length ≤ max rc gc then none
      else
        match cols[rc]?, cols[gc]? with
        | some r, some g => some (String.ofList r, String.ofList g)
        | _, _ => none

/-- with a non-empty column delimiter `load_table` never fails on a line, and adds exactly the line's entry -/
theorem loadLine_eq (rc gc : Nat) (delim : List Char) (hd : delim ≠ []) (m : List (String × String)) (line : List Char) :
    loadLine rc gc delim m line = .ok (match rowEntry rc gc delim line with
      | some e => dictSet m e.1 e.2
      | none => m) := by
  obtain ⟨d0, dt, rfl⟩ := List.exists_cons_of_ne_nil hd
  unfold loadLine rowEntry
  simp only [pySplit]
  split
  · rfl
  · split
    · rfl
    · rename_i hlen
      have h1 : rc < ((splitGo d0 dt (pyStrip line)).1 :: (splitGo d0 dt (pyStrip line)).2).length := by omega
      have h2 : gc < ((splitGo d0 dt (pyStrip line)).1 :: (splitGo d0 dt (pyStrip line)).2).length := by omega
      rw [List.getElem?_eq_getElem h1, List.getElem?_eq_getElem h2]

theorem splitGo_no_delim (d0 : Char) : ∀ (s : List Char), d0 ∉ s → splitGo d0 [] s = (s, [])
  | [], _ => by simp [splitGo]
  | c :: s, h => by
    have hc : c ≠ d0 := fun e => h (by rw [e]; exact List.mem_cons_self)
    have ih := splitGo_no_delim d0 s (fun hm => h (List.mem_cons_of_mem _ hm))
    rw [splitGo]
    simp [hc, ih]

theorem splitGo_one (d0 : Char) (g : List Char) (hg : d0 ∉ g) :
    ∀ (r : List Char), d0 ∉ r → splitGo d0 [] (r ++ d0 :: g) = (r, [g])
  | [], _ => by
    rw [List.nil_append, splitGo]
    simp [splitGo_no_delim d0 g hg]
  | c :: r, h => by
    have hc : c ≠ d0 := fun e => h (by rw [e]; exact List.mem_cons_self)
    have ih := splitGo_one d0 g hg r (fun hm => h (List.mem_cons_of_mem _ hm))
    rw [List.cons_append, splitGo]
    simp [hc, ih]

/-- a field that survives `line.strip()` at the ends of the line and `split('\t')` -/
def CleanField (s : String) : Prop :=
  s.toList ≠ [] ∧ '\t' ∉ s.toList ∧ (∀ c, s.toList.head? = some c → isPySpace c = false) ∧
  (∀ c, s.toList.getLast? = some c → isPySpace c = false)

theorem dropWhile_head_false {α} (p : α → Bool) : ∀ (l : List α), (∀ c, l.head? = some c → p c = false) → l.dropWhile p = l
  | [], _ => rfl
  | c :: t, h => by
    have := h c rfl
    simp [List.dropWhile, this]

theorem pyStrip_clean (l : List Char) (h1 : ∀ c, l.head? = some c → isPySpace c = false)
    (h2 : ∀ c, l.getLast? = some c → isPySpace c = false) : pyStrip l = l := by
  unfold pyStrip
  rw [dropWhile_head_false isPySpace l h1]
  rw [dropWhile_head_false isPySpace l.reverse (by intro c hc; rw [List.head?_reverse] at hc; exact h2 c hc)]
  simp

theorem rowEntry_clean_aux (r g : List Char) (hr : r ≠ []) (hg : g ≠ []) (htr : '\t' ∉ r) (htg : '\t' ∉ g)
    (hh : ∀ c, r.head? = some c → isPySpace c = false) (hl : ∀ c, g.getLast? = some c → isPySpace c = false)
    (hhash : r.head? ≠ some '#') :
    pyStrip (r ++ '\t' :: g) = r ++ '\t' :: g ∧ (r ++ '\t' :: g).head? ≠ some '#' ∧ (r ++ '\t' :: g) ≠ [] ∧
    pySplit ['\t'] (r ++ '\t' :: g) = .ok [r, g] := by
  obtain ⟨c0, r', rfl⟩ := List.exists_cons_of_ne_nil hr
  refine ⟨?_, ?_, by simp, ?_⟩
  · apply pyStrip_clean
    · intro c hc; exact hh c (by simpa using hc)
    · intro c hc
      apply hl c
      obtain ⟨gi, gl, hgl⟩ : ∃ gi gl, g = gi ++ [gl] := ⟨g.dropLast, g.getLast hg, (List.dropLast_concat_getLast hg).symm⟩
      subst hgl
      have e : (c0 :: r' ++ '\t' :: (gi ++ [gl])) = ((c0 :: r' ++ '\t' :: gi) ++ [gl]) := by simp
      rw [e, List.getLast?_concat] at hc
      simpa using hc
  · simpa using hhash
  · simp only [pySplit]
    rw [splitGo_one '\t' g htg (c0 :: r') htr]

def CleanRead (s : String) : Prop := CleanField s ∧ s.toList.head? ≠ some '#'

theorem rowEntry_clean (r g : String) (hr : CleanRead r) (hg : CleanField g) :
    rowEntry 0 1 ['\t'] (r.toList ++ ['\t'] ++ g.toList) = some (r, g) := by
  obtain ⟨⟨hr1, hr2, hr3, _⟩, hr5⟩ := hr
  obtain ⟨hg1, hg2, _, hg4⟩ := hg
  obtain ⟨h1, h2, h3, h4⟩ := rowEntry_clean_aux r.toList g.toList hr1 hg1 hr2 hg2 hr3 hg4 hr5
  have e : r.toList ++ ['\t'] ++ g.toList = r.toList ++ '\t' :: g.toList := by simp
  unfold rowEntry
  simp only [e, h1, h4]
  rw [if_neg (by rintro (h | h); exact h2 h; exact h3 h)]
  simp [String.ofList_toList]

/-- the (read, group) pairs written to the file of chromosome `chr` -/
def splitEntries (m : List (String × String)) (chr : String) :
    List (String × Option String) → List String → List (String × String)
  | [], _ => []
  | (rid, c) :: as, seen =>
    if c = some chr then
      match m.lookup rid with
      | some g =>
        if seen.contains rid then splitEntries m chr as seen
        else (rid, g) :: splitEntries m chr as (rid :: seen)
      | none => splitEntries m chr as seen
    else splitEntries m chr as seen

theorem splitTable_entries (m : List (String × String)) (chr : String) :
    ∀ (alns : List (String × Option String)) (seen : List String),
      (∀ rid c g, (rid, c) ∈ alns → m.lookup rid = some g → CleanRead rid ∧ CleanField g) →
      (splitTableLines m chr alns seen).filterMap (rowEntry 0 1 ['\t']) = splitEntries m chr alns seen
  | [], _, _ => rfl
  | (rid, c) :: as, seen, h => by
    have ih := fun seen' => splitTable_entries m chr as seen' (fun rid c g hm => h rid c g (List.mem_cons_of_mem _ hm))
    simp only [splitTableLines, splitEntries]
    by_cases hc : c = some chr
    · simp only [hc, if_true]
      cases hl : m.lookup rid with
      | none => exact ih seen
      | some g =>
        simp only
        by_cases hs : seen.contains rid = true
        · simp only [hs, if_true]; exact ih seen
        · obtain ⟨h1, h2⟩ := h rid c g List.mem_cons_self hl
          simp only [hs, Bool.false_eq_true, if_false, List.filterMap_cons, rowEntry_clean rid g h1 h2, ih]
    · simp only [hc, if_false]; exact ih seen

theorem mem_splitEntries (m : List (String × String)) (chr : String) :
    ∀ (alns : List (String × Option String)) (seen : List String) (r g : String),
      (r, g) ∈ splitEntries m chr alns seen ↔ (r ∉ seen ∧ (r, some chr) ∈ alns ∧ m.lookup r = some g)
  | [], _, _, _ => by simp [splitEntries]
  | (rid, c) :: as, seen, r, g => by
    have ih := fun seen' => mem_splitEntries m chr as seen' r g
    simp only [splitEntries]
    by_cases hc : c = some chr
    · subst hc
      simp only [if_true]
      cases hl : m.lookup rid with
      | none =>
        simp only [ih, List.mem_cons, Prod.mk.injEq]
        constructor
        · rintro ⟨h1, h2, h3⟩; exact ⟨h1, Or.inr h2, h3⟩
        · rintro ⟨h1, h2 | h2, h3⟩
          · rw [h2.1, hl] at h3; cases h3
          · exact ⟨h1, h2, h3⟩
      | some g0 =>
        simp only
        by_cases hs : seen.contains rid = true
        · simp only [hs, if_true, ih, List.mem_cons, Prod.mk.injEq]
          have hs' : rid ∈ seen := by simpa using hs
          constructor
          · rintro ⟨h1, h2, h3⟩; exact ⟨h1, Or.inr h2, h3⟩
          · rintro ⟨h1, h2 | h2, h3⟩
            · rw [h2.1] at h1; exact absurd hs' h1
            · exact ⟨h1, h2, h3⟩
        · have hs' : rid ∉ seen := by simpa using hs
          simp only [hs, Bool.false_eq_true, if_false, List.mem_cons, Prod.mk.injEq, ih]
          constructor
          · rintro (⟨h1, h2⟩ | ⟨h1, h2, h3⟩)
            · subst h1; subst h2; exact ⟨hs', Or.inl (by simp), hl⟩
            · exact ⟨fun hm => h1 (Or.inr hm), Or.inr h2, h3⟩
          · rintro ⟨h1, h2 | h2, h3⟩
            · left; rw [h2.1, hl] at h3; exact ⟨h2.1, (Option.some.inj h3).symm⟩
            · by_cases hr : r = rid
              · left; subst hr; rw [hl] at h3; exact ⟨rfl, (Option.some.inj h3).symm⟩
              · right; exact ⟨by rintro (h | h); exact hr h; exact h1 h, h2, h3⟩
    · simp only [hc, if_false, ih, List.mem_cons, Prod.mk.injEq]
      constructor
      · rintro ⟨h1, h2, h3⟩; exact ⟨h1, Or.inr h2, h3⟩
      · rintro ⟨h1, h2 | h2, h3⟩
        · exact absurd h2.2.symm hc
        · exact ⟨h1, h2, h3⟩

theorem splitEntries_keys_nodup (m : List (String × String)) (chr : String) :
    ∀ (alns : List (String × Option String)) (seen : List String),
      ((splitEntries m chr alns seen).map Prod.fst).Nodup
  | [], _ => by simp [splitEntries]
  | (rid, c) :: as, seen => by
    have ih := fun seen' => splitEntries_keys_nodup m chr as seen'
    simp only [splitEntries]
    split
    · split
      · rename_i g hg
        split
        · exact ih seen
        · simp only [List.map_cons, List.nodup_cons]
          refine ⟨?_, ih _⟩
          intro hm
          obtain ⟨p, hp, hp1⟩ := List.mem_map.mp hm
          obtain ⟨r', g'⟩ := p
          simp only at hp1
          subst hp1
          exact ((mem_splitEntries m chr as (r' :: seen) r' g').mp hp).1 List.mem_cons_self
      · exact ih seen
    · exact ih seen

/-- for an association list with unique keys, `lookup` is membership -/
theorem lookup_iff_mem_of_nodup : ∀ (l : List (String × String)), (l.map Prod.fst).Nodup → ∀ k v,
    (l.lookup k = some v ↔ (k, v) ∈ l)
  | [], _, _, _ => by simp
  | (k0, v0) :: t, h, k, v => by
    simp only [List.map_cons, List.nodup_cons] at h
    rw [List.lookup_cons]
    by_cases hk : k = k0
    · subst hk
      simp only [beq_self_eq_true, List.mem_cons, Prod.mk.injEq, true_and, Option.some.injEq]
      constructor
      · intro e; exact Or.inl e.symm
      · rintro (e | e)
        · exact e.symm
        · exact absurd (List.mem_map.mpr ⟨_, e, rfl⟩) h.1
    · have hb : (k == k0) = false := by simp [hk]
      simp only [hb, lookup_iff_mem_of_nodup t h.2 k v, List.mem_cons, Prod.mk.injEq, hk, false_and, false_or]

end IsoVerif.Lemmas.C09Split
