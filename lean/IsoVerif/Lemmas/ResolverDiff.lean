/-
C08 — helper lemmas for Props/C08Diff.lean (the differential form of "the losers are suppressed everywhere"):
duplicate elimination on a duplicate-free list, sublists that contain everything, winners among themselves.
-/
import IsoVerif.Model.Resolver
import IsoVerif.Lemmas.Resolver
import IsoVerif.Lemmas.ResolverSpec
import IsoVerif.Props.C08Spec

namespace IsoVerif.Lemmas.ResolverDiff
open IsoVerif.Gen IsoVerif.Model.Resolver IsoVerif.Lemmas.Resolver IsoVerif.Lemmas.ResolverSpec IsoVerif.Props.C08

/-- duplicate elimination leaves a list without `eq`-duplicates alone -/
theorem firstWinsAux_of_pairwise {α : Type} (eq : α → α → Bool) (l kept : List α)
    (h : (kept ++ l).Pairwise (fun a b => eq a b = false)) : firstWinsAux eq kept l = kept ++ l := by
  induction l generalizing kept with
  | nil => simp [firstWinsAux]
  | cons x rest ih =>
    have hp := List.pairwise_append.mp h
    have hx : kept.any (fun k => eq k x) = false := by
      rw [List.any_eq_false]
      intro k hk
      simpa using hp.2.2 k hk x (by simp)
    simp only [firstWinsAux, hx, Bool.false_eq_true, ↓reduceIte]
    rw [ih (kept ++ [x]) (by simpa using h)]
    simp

theorem sublist_eq_of_superset {α : Type} {l₁ l₂ : List α} (hs : l₁.Sublist l₂) (hall : ∀ x ∈ l₂, x ∈ l₁)
    (hnd : l₂.Nodup) : l₁ = l₂ := by
  induction hs with
  | slnil => rfl
  | cons a h ih =>
    rename_i l₁' l₂'
    have ha : a ∈ l₁' := hall a (by simp)
    exact absurd (h.subset ha) (List.nodup_cons.mp hnd).1
  | cons_cons a h ih =>
    rename_i l₁' l₂'
    have hnd' := List.nodup_cons.mp hnd
    congr 1
    apply ih _ hnd'.2
    intro x hx
    rcases List.mem_cons.mp (hall x (List.mem_cons_of_mem _ hx)) with rfl | h'
    · exact absurd hx hnd'.1
    · exact h'

theorem zipIdx_nodup (s : List Rec) : s.zipIdx.Nodup := by
  have : (s.zipIdx.map (·.2)).Nodup := by
    have : s.zipIdx.map (·.2) = List.range' 0 s.length := by
      apply List.ext_getElem?
      intro i
      simp only [List.getElem?_map, List.getElem?_zipIdx, Option.map_map]
      by_cases h : i < s.length
      · simp [h]
      · simp [h]
    rw [this]; exact List.nodup_range'
  have h2 : s.zipIdx.Pairwise (fun a b => a.2 ≠ b.2) := by
    rw [List.Nodup, List.pairwise_map] at this; exact this
  exact h2.imp (fun h e => h (by rw [e]))

/-- the class a winner belongs to when some record is assigned -/
theorem winner_assigned {l : List Rec} {r : Rec} (w : Winner l r) (hA : Has Cons l ∨ Has Inc l) : Cons r ∨ Inc r := by
  obtain ⟨w1, w2, w3, w4, _⟩ := w
  by_cases c1 : Has PU l
  · exact Or.inl (w1 c1).1
  · by_cases c2 : Has Cons l
    · exact Or.inl (w2 c1 c2)
    · by_cases c3 : Has PInc l
      · exact Or.inr (w3 c2 c3).1.1
      · rcases hA with h | h
        · exact absurd h c2
        · exact Or.inr (w4 c2 c3 h).1

/-- winners stay winners among themselves -/
theorem winner_sub (l s : List Rec) (hs : ∀ r ∈ s, r ∈ l ∧ Winner l r) (hA : Has Cons l ∨ Has Inc l) :
    ∀ r ∈ s, Winner s r := by
  have mono : ∀ P : Rec → Prop, Has P s → Has P l := fun P ⟨q, hq, hp⟩ => ⟨q, (hs q hq).1, hp⟩
  intro r hr
  obtain ⟨_, w1, w2, w3, w4, _⟩ := hs r hr
  by_cases c1 : Has PU l
  · have hc : Cons r := (w1 c1).1
    exact ⟨fun _ => w1 c1, fun h => absurd ⟨r, hr, w1 c1⟩ h, fun h => absurd ⟨r, hr, hc⟩ h,
      fun h => absurd ⟨r, hr, hc⟩ h, fun h => absurd ⟨r, hr, hc⟩ h⟩
  · by_cases c2 : Has Cons l
    · have hc : Cons r := w2 c1 c2
      exact ⟨fun h => absurd (mono _ h) c1, fun _ _ => hc, fun h => absurd ⟨r, hr, hc⟩ h,
        fun h => absurd ⟨r, hr, hc⟩ h, fun h => absurd ⟨r, hr, hc⟩ h⟩
    · by_cases c3 : Has PInc l
      · obtain ⟨hP, hmin⟩ := w3 c2 c3
        exact ⟨fun h => absurd (mono _ h) c1, fun _ h => absurd (mono _ h) c2,
          fun _ _ => ⟨hP, fun q hq hPq => hmin q (hs q hq).1 hPq⟩,
          fun _ h => absurd ⟨r, hr, hP⟩ h, fun _ h => absurd ⟨r, hr, hP.1⟩ h⟩
      · have c4 : Has Inc l := by
          rcases hA with h | h
          · exact absurd h c2
          · exact h
        obtain ⟨hI, hmin⟩ := w4 c2 c3 c4
        exact ⟨fun h => absurd (mono _ h) c1, fun _ h => absurd (mono _ h) c2, fun _ h => absurd (mono _ h) c3,
          fun _ _ _ => ⟨hI, fun q hq hIq => hmin q (hs q hq).1 hIq⟩, fun _ h => absurd ⟨r, hr, hI⟩ h⟩

end IsoVerif.Lemmas.ResolverDiff
