/-
Helper lemmas for C13 (profiles), completeness direction: under explicit decidable hypotheses on the inputs the
sweep of construct_profile_for_features visits every (read feature, known feature) pair that satisfies
`equal_ranges · · δ`.  Core Lean only.
-/
import IsoVerif.Lemmas.C13ProfileSound
import IsoVerif.Lemmas.Interval

namespace IsoVerif.Lemmas.C13
open IsoVerif.Model IsoVerif.Model.C13 IsoVerif.Gen

/-- consecutive (hence all later) read features start more than δ after the end of an earlier one -/
def SepBy (δ : Int) (R : List Iv) : Prop := R.Pairwise (fun a b => a.2 + δ < b.1)

/-- every known feature is longer than δ -/
def LongerThan (δ : Int) (K : List Iv) : Prop := ∀ k ∈ K, k.2 - k.1 ≥ δ

def WFR (R : List Iv) : Prop := ∀ r ∈ R, r.1 ≤ r.2

theorem eqr_iff (a b : Iv) (d : Int) :
    equal_ranges a b d = true ↔ (-d ≤ a.1 - b.1 ∧ a.1 - b.1 ≤ d) ∧ (-d ≤ a.2 - b.2 ∧ a.2 - b.2 ≤ d) := by
  simp only [equal_ranges, Bool.and_eq_true, decide_eq_true_eq, IsoVerif.Lemmas.iabs_le]

theorem ovSweep_matched_mono (cmp absent : Iv → Iv → Bool) (M : Iv) :
    ∀ (ks : List Iv) (gi : Nat) (rs : List Iv) (ri : Nat) (st : OvState) (p : Nat × Nat),
      p ∈ st.matched → p ∈ (ovSweep cmp absent M ks gi rs ri st).matched := by
  intro ks gi rs ri st
  induction ks, gi, rs, ri, st using ovSweep.induct cmp absent M with
  | case1 => intro p h; simpa [ovSweep] using h
  | case2 => intro p h; simpa [ovSweep] using h
  | case3 k ks gi r rs ri st h1 st' ih =>
    intro p h
    rw [ovSweep]; simp only [h1, if_true]
    apply ih p
    simp only [st']; split <;> exact h
  | case4 k ks gi r rs ri st h1 h2 st' ih =>
    intro p h
    rw [ovSweep]; simp only [h1, h2, if_true, if_false]
    apply ih p
    simp only [st']; split <;> exact h
  | case5 k ks gi r rs ri st h1 h2 h3 ih =>
    intro p h
    rw [ovSweep]; simp only [h1, h2, h3, if_true, if_false]
    apply ih p
    simp [h]
  | case6 k ks gi r rs ri st h1 h2 h3 h4 st' ih =>
    intro p h
    rw [ovSweep]; simp only [h1, h2, h3, h4, if_true, if_false]
    apply ih p
    simp only [st']; split <;> exact h
  | case7 k ks gi r rs ri st h1 h2 h3 h4 =>
    intro p h
    rw [ovSweep]; simp [h1, h2, h3, h4]; exact h

/-- the sweep never writes the gene profile below the current known position -/
theorem ovSweep_gene_below (cmp absent : Iv → Iv → Bool) (M : Iv) :
    ∀ (ks : List Iv) (gi : Nat) (rs : List Iv) (ri : Nat) (st : OvState) (i : Nat),
      i < gi → (ovSweep cmp absent M ks gi rs ri st).gene[i]? = st.gene[i]? := by
  intro ks gi rs ri st
  induction ks, gi, rs, ri, st using ovSweep.induct cmp absent M with
  | case1 => intro i _; simp [ovSweep]
  | case2 => intro i _; simp [ovSweep]
  | case3 k ks gi r rs ri st h1 st' ih =>
    intro i hi
    rw [ovSweep]; simp only [h1, if_true]
    refine Eq.trans (ih i hi) ?_
    simp only [st']; split <;> rfl
  | case4 k ks gi r rs ri st h1 h2 st' ih =>
    intro i hi
    rw [ovSweep]; simp only [h1, h2, if_true, if_false]
    refine Eq.trans (ih i (by omega)) ?_
    simp only [st']; split
    · simp only [List.getElem?_set]; have : gi ≠ i := by omega
      simp [this]
    · rfl
  | case5 k ks gi r rs ri st h1 h2 h3 ih =>
    intro i hi
    rw [ovSweep]; simp only [h1, h2, h3, if_true, if_false]
    refine Eq.trans (ih i (by omega)) ?_
    simp only [List.getElem?_set]; have : gi ≠ i := by omega
    simp [this]
  | case6 k ks gi r rs ri st h1 h2 h3 h4 st' ih =>
    intro i hi
    rw [ovSweep]; simp only [h1, h2, h3, h4, if_true, if_false]
    refine Eq.trans (ih i (by omega)) ?_
    simp only [st']; split
    · simp only [List.getElem?_set]; have : gi ≠ i := by omega
      simp [this]
    · rfl
  | case7 k ks gi r rs ri st h1 h2 h3 h4 =>
    intro i _
    rw [ovSweep]; simp [h1, h2, h3, h4]

/-- COMPLETENESS of the sweep: with known features ordered by start and longer than δ, and well-formed read features
    more than δ apart, every pair satisfying `equal_ranges · · δ` is recorded and its known feature is set to +1 -/
theorem ovSweep_complete (absent : Iv → Iv → Bool) (M : Iv) (δ : Int) :
    ∀ (ks : List Iv) (gi : Nat) (rs : List Iv) (ri : Nat) (st : OvState),
      SortedStarts ks → LongerThan δ ks → SepBy δ rs → WFR rs →
      ∀ (a b : Nat) (r k : Iv), rs[a]? = some r → ks[b]? = some k → equal_ranges r k δ = true →
        (ri + a, gi + b) ∈ (ovSweep (fun x y => equal_ranges x y δ) absent M ks gi rs ri st).matched ∧
        (gi + b < st.gene.length →
          (ovSweep (fun x y => equal_ranges x y δ) absent M ks gi rs ri st).gene[gi + b]? = some 1) := by
  intro ks gi rs ri st
  induction ks, gi, rs, ri, st using ovSweep.induct (fun x y => equal_ranges x y δ) absent M with
  | case1 => intro _ _ _ _ a b r k _ hk; simp at hk
  | case2 => intro _ _ _ _ a b r k hr; simp at hr
  | case3 k0 ks gi r0 rs ri st h1 st' ih =>
    intro hS hL hP hW a b r k hr hk hc
    rw [ovSweep]; simp only [h1, if_true]
    have hkm : k ∈ k0 :: ks := List.mem_of_getElem? hk
    have hk01 : k0.1 ≤ k.1 := by
      rcases List.mem_cons.mp hkm with e | e
      · subst e; omega
      · exact (List.pairwise_cons.mp hS).1 k e
    have hlen := hL k hkm
    cases a with
    | zero =>
      simp at hr; subst hr
      have := (eqr_iff r0 k δ).mp hc
      omega
    | succ a =>
      have hr' : rs[a]? = some r := by simpa using hr
      have := ih hS hL (List.pairwise_cons.mp hP).2 (fun x hx => hW x (List.mem_cons_of_mem _ hx)) a b r k hr' hk hc
      have e : ri + 1 + a = ri + (a + 1) := by omega
      rw [e] at this
      refine ⟨this.1, ?_⟩
      intro hlt
      apply this.2
      simp only [st']; split <;> exact hlt
  | case4 k0 ks gi r0 rs ri st h1 h2 st' ih =>
    intro hS hL hP hW a b r k hr hk hc
    rw [ovSweep]; simp only [h1, h2, if_true, if_false]
    have hrm : r ∈ r0 :: rs := List.mem_of_getElem? hr
    cases b with
    | zero =>
      simp at hk; subst hk
      have hc' := (eqr_iff r k0 δ).mp hc
      have hlen := hL k0 (by simp)
      rcases List.mem_cons.mp hrm with e | e
      · subst e; omega
      · have := (List.pairwise_cons.mp hP).1 r e
        have := hW r0 (by simp)
        omega
    | succ b =>
      have hk' : ks[b]? = some k := by simpa using hk
      have := ih (List.pairwise_cons.mp hS).2 (fun x hx => hL x (List.mem_cons_of_mem _ hx)) hP hW a b r k hr hk' hc
      have e : gi + 1 + b = gi + (b + 1) := by omega
      rw [e] at this
      refine ⟨this.1, ?_⟩
      intro hlt
      apply this.2
      simp only [st']; split
      · simp only [List.length_set]; exact hlt
      · exact hlt
  | case5 k0 ks gi r0 rs ri st h1 h2 h3 ih =>
    intro hS hL hP hW a b r k hr hk hc
    rw [ovSweep]; simp only [h1, h2, h3, if_true, if_false]
    have hrm : r ∈ r0 :: rs := List.mem_of_getElem? hr
    cases b with
    | zero =>
      simp at hk; subst hk
      cases a with
      | zero =>
        simp at hr; subst hr
        refine ⟨ovSweep_matched_mono _ absent M ks (gi + 1) (r0 :: rs) ri _ (ri, gi) (by simp), ?_⟩
        intro hlt
        simp only [Nat.add_zero] at hlt ⊢
        rw [ovSweep_gene_below _ absent M ks (gi + 1) (r0 :: rs) ri _ gi (by omega)]
        simp [hlt]
      | succ a =>
        exfalso
        have hr' : rs[a]? = some r := by simpa using hr
        have hsep := (List.pairwise_cons.mp hP).1 r (List.mem_of_getElem? hr')
        have hc0 := (eqr_iff r0 k0 δ).mp h3
        have hc' := (eqr_iff r k0 δ).mp hc
        have hlen := hL k0 (by simp)
        omega
    | succ b =>
      have hk' : ks[b]? = some k := by simpa using hk
      have := ih (List.pairwise_cons.mp hS).2 (fun x hx => hL x (List.mem_cons_of_mem _ hx)) hP hW a b r k hr hk' hc
      have e : gi + 1 + b = gi + (b + 1) := by omega
      rw [e] at this
      refine ⟨this.1, ?_⟩
      intro hlt
      apply this.2
      simp; exact hlt
  | case6 k0 ks gi r0 rs ri st h1 h2 h3 h4 st' ih =>
    intro hS hL hP hW a b r k hr hk hc
    rw [ovSweep]; simp only [h1, h2, h3, h4, if_true, if_false]
    cases b with
    | zero =>
      simp at hk; subst hk
      exfalso
      cases a with
      | zero => simp at hr; subst hr; exact h3 hc
      | succ a =>
        have hr' : rs[a]? = some r := by simpa using hr
        have hsep := (List.pairwise_cons.mp hP).1 r (List.mem_of_getElem? hr')
        have hc' := (eqr_iff r k0 δ).mp hc
        omega
    | succ b =>
      have hk' : ks[b]? = some k := by simpa using hk
      have := ih (List.pairwise_cons.mp hS).2 (fun x hx => hL x (List.mem_cons_of_mem _ hx)) hP hW a b r k hr hk' hc
      have e : gi + 1 + b = gi + (b + 1) := by omega
      rw [e] at this
      refine ⟨this.1, ?_⟩
      intro hlt
      apply this.2
      simp only [st']; split
      · simp only [List.length_set]; exact hlt
      · exact hlt
  | case7 k0 ks gi r0 rs ri st h1 h2 h3 h4 =>
    intro _ _ _ _ a b r k _ _ _
    exfalso
    simp [overlaps] at h4
    omega

/-! ### tie elimination does mark every tie loser -/

theorem foldl_keep {β : Type} (h : List Int → β → List Int) (i : Nat)
    (hkeep : ∀ (g : List Int) (x : β), g[i]? = some (-1) → (h g x)[i]? = some (-1)) :
    ∀ (L : List β) (g : List Int), g[i]? = some (-1) → (L.foldl h g)[i]? = some (-1) := by
  intro L
  induction L with
  | nil => intro g hg; exact hg
  | cons x xs ih => intro g hg; exact ih _ (hkeep g x hg)

theorem foldl_neg_hit {β : Type} (h : List Int → β → List Int) (i : Nat)
    (hlen : ∀ (g : List Int) (x : β), (h g x).length = g.length)
    (hkeep : ∀ (g : List Int) (x : β), g[i]? = some (-1) → (h g x)[i]? = some (-1))
    (P : β → Prop) (hhit : ∀ (g : List Int) (x : β), P x → i < g.length → (h g x)[i]? = some (-1)) :
    ∀ (L : List β) (g : List Int), i < g.length → (∃ x ∈ L, P x) → (L.foldl h g)[i]? = some (-1) := by
  intro L
  induction L with
  | nil => intro g _ ⟨x, hx, _⟩; simp at hx
  | cons y ys ih =>
    intro g hi ⟨x, hx, hp⟩
    simp only [List.foldl_cons]
    rcases List.mem_cons.mp hx with e | e
    · subst e
      exact foldl_keep h i hkeep ys _ (hhit g x hp hi)
    · exact ih _ (by rw [hlen]; exact hi) ⟨x, e, hp⟩

theorem mem_zip_map_of_mem {α β : Type} (f : α → β) (l : List α) (a : α) (h : a ∈ l) : (a, f a) ∈ l.zip (l.map f) := by
  induction l with
  | nil => simp at h
  | cons b t ih =>
    simp only [List.map_cons, List.zip_cons_cons, List.mem_cons]
    rcases List.mem_cons.mp h with e | e
    · subst e; exact Or.inl rfl
    · exact Or.inr (ih e)

theorem length_gt_one_of_two {α : Type} (l : List α) (a b : α) (ha : a ∈ l) (hb : b ∈ l) (hne : a ≠ b) : l.length > 1 := by
  match l, ha, hb with
  | [x], ha, hb => simp at ha hb; subst ha; subst hb; exact absurd rfl hne
  | _ :: _ :: _, _, _ => simp

theorem minList_some_of_ne_nil : ∀ (l : List Int), l ≠ [] → ∃ m, minList l = some m := by
  intro l hl
  cases l with
  | nil => exact absurd rfl hl
  | cons x xs =>
    simp only [minList]
    cases minList xs <;> simp

/-- the inner loop of the elimination -/
def elimInner (best : Int) (g : List Int) (L : List (Nat × Int)) : List Int :=
  L.foldl (fun g' p => if p.2 > best then g'.set p.1 (-1) else g') g

theorem elimInner_length (best : Int) (L : List (Nat × Int)) : ∀ g : List Int, (elimInner best g L).length = g.length := by
  induction L with
  | nil => intro g; rfl
  | cons p ps ih =>
    intro g
    simp only [elimInner, List.foldl_cons]
    have := ih (if p.2 > best then g.set p.1 (-1) else g)
    simp only [elimInner] at this
    rw [this]; split <;> simp

theorem elimInner_keep (best : Int) (i : Nat) (L : List (Nat × Int)) (g : List Int) (hg : g[i]? = some (-1)) :
    (elimInner best g L)[i]? = some (-1) := by
  apply foldl_keep _ i _ L g hg
  intro g' p hg'
  split
  · simp only [List.getElem?_set]
    split
    · rename_i e; subst e
      have : p.1 < g'.length := (List.getElem?_eq_some_iff.mp hg').1
      simp [this]
    · exact hg'
  · exact hg'

theorem ovEliminate_hit (K R : List Iv) (matched : List (Nat × Nat)) (g : List Int) (i : Nat) (hi : i < g.length)
    (hr : ∀ p ∈ matched, p.1 < R.length) (hl : LoserIdx K R matched i) :
    (ovEliminate K R matched g)[i]? = some (-1) := by
  obtain ⟨ri, i', hm, hm', hlt⟩ := hl
  unfold ovEliminate
  apply foldl_neg_hit _ i ?_ ?_
    (fun ri => ∃ i', (ri, i) ∈ matched ∧ (ri, i') ∈ matched ∧
      matchDelta (R.getD ri (0, 0)) (K.getD i' (0, 0)) < matchDelta (R.getD ri (0, 0)) (K.getD i (0, 0)))
    ?_ (List.range R.length) g hi ⟨ri, List.mem_range.mpr (hr _ hm), i', hm, hm', hlt⟩
  · intro g x
    simp only
    split
    · split
      · rfl
      · exact elimInner_length _ _ g
    · rfl
  · intro g x hg
    simp only
    split
    · split
      · exact hg
      · exact elimInner_keep _ i _ g hg
    · exact hg
  · intro g x ⟨j', h1, h2, h3⟩ hig
    simp only
    have hmem : ∀ y, (x, y) ∈ matched → y ∈ (matched.filter (fun p => p.1 == x)).map (·.2) := by
      intro y hy
      exact List.mem_map.mpr ⟨(x, y), List.mem_filter.mpr ⟨hy, by simp⟩, rfl⟩
    have hne : i ≠ j' := by intro e; subst e; omega
    have hlen : ((matched.filter (fun p => p.1 == x)).map (·.2)).length > 1 :=
      length_gt_one_of_two _ i j' (hmem i h1) (hmem j' h2) hne
    simp only [hlen, if_true]
    have hds : ((matched.filter (fun p => p.1 == x)).map (·.2)).map
        (fun gi => matchDelta (R.getD x (0, 0)) (K.getD gi (0, 0))) ≠ [] := by
      intro e
      have h0 := congrArg List.length e
      rw [List.length_map] at h0
      simp only [List.length_nil] at h0
      omega
    obtain ⟨best, hbest⟩ := minList_some_of_ne_nil _ hds
    rw [hbest]
    simp only
    obtain ⟨_, hmin⟩ := minList_mem _ best hbest
    have hb : best ≤ matchDelta (R.getD x (0, 0)) (K.getD j' (0, 0)) :=
      hmin _ (List.mem_map.mpr ⟨j', hmem j' h2, rfl⟩)
    apply foldl_neg_hit (fun (g' : List Int) (p : Nat × Int) => if p.2 > best then g'.set p.1 (-1) else g') i ?_ ?_
      (fun p => p.2 > best ∧ p.1 = i) ?_ _ g hig
      ⟨(i, matchDelta (R.getD x (0, 0)) (K.getD i (0, 0))), mem_zip_map_of_mem _ _ i (hmem i h1),
        (by show matchDelta (R.getD x (0, 0)) (K.getD i (0, 0)) > best; omega), rfl⟩
    · intro g' p; split <;> simp
    · intro g' p hg'
      exact elimInner_keep best i [p] g' hg'
    · intro g' p ⟨hp1, hp2⟩ hlt'
      simp only [hp1, if_true, List.getElem?_set, hp2]
      simp [hlt']

/-! ### assembly: the sweep state under the hypotheses, forward direction of the masking -/

theorem zipWith_mask_fwd (c : Iv → Prop) [DecidablePred c] (K : List Iv) (g : List Int) (i : Nat) (k : Iv) (v : Int)
    (hk : K[i]? = some k) (hg : g[i]? = some v) :
    (List.zipWith (fun (k : Iv) (v : Int) => if c k then -2 else v) K g)[i]? = some (if c k then -2 else v) := by
  rw [List.getElem?_zipWith, hk, hg]

theorem constructOverlapping_gene_fwd (K : List Iv) (gr : Iv) (cmp absent : Iv → Iv → Bool) (δ : Int) (R : List Iv) (M : Iv)
    (pa pt : Int) (i : Nat) (k : Iv) (v : Int) (hk : K[i]? = some k)
    (hg : (ovEliminate K R (sweepState K gr cmp absent R M).matched (sweepState K gr cmp absent R M).gene)[i]? = some v)
    (hpa : ¬ (pa ≠ -1 ∧ k.1 > pa + δ)) (hpt : ¬ (pt ≠ -1 ∧ k.2 < pt - δ)) :
    (constructOverlapping K gr cmp absent δ R M pa pt).gene[i]? = some v := by
  unfold constructOverlapping
  simp only
  have h1 : (if (pa != -1) = true then
      List.zipWith (fun (k : Iv) (v : Int) => if k.1 > pa + δ then -2 else v) K
        (ovEliminate K R (sweepState K gr cmp absent R M).matched (sweepState K gr cmp absent R M).gene)
      else ovEliminate K R (sweepState K gr cmp absent R M).matched (sweepState K gr cmp absent R M).gene)[i]? = some v := by
    split
    · rename_i hp
      rw [zipWith_mask_fwd (fun k : Iv => k.1 > pa + δ) K _ i k v hk hg]
      have : ¬ k.1 > pa + δ := fun h => hpa ⟨by simpa using hp, h⟩
      simp [this]
    · exact hg
  split
  · rename_i hp
    have := zipWith_mask_fwd (fun k : Iv => k.2 < pt - δ) K _ i k v hk h1
    have hn : ¬ k.2 < pt - δ := fun h => hpt ⟨by simpa using hp, h⟩
    simp only [hn, if_false] at this
    exact this
  · exact h1

theorem sweepState_complete (K : List Iv) (gr : Iv) (absent : Iv → Iv → Bool) (δ : Int) (R : List Iv) (M : Iv)
    (hS : SortedStarts K) (hL : LongerThan δ K) (hP : SepBy δ R) (hW : WFR R)
    (j i : Nat) (r k : Iv) (hr : R[j]? = some r) (hk : K[i]? = some k) (hc : equal_ranges r k δ = true) :
    (j, i) ∈ (sweepState K gr (fun x y => equal_ranges x y δ) absent R M).matched ∧
    (sweepState K gr (fun x y => equal_ranges x y δ) absent R M).gene[i]? = some 1 := by
  have := ovSweep_complete absent M δ K 0 R 0
    { gene := K.map (fun k => if absent M k then -1 else 0), read := R.map (fun r => if absent gr r then -1 else 0), matched := [] }
    hS hL hP hW j i r k hr hk hc
  simp only [Nat.zero_add] at this
  refine ⟨this.1, this.2 ?_⟩
  simp only [List.length_map]
  exact (List.getElem?_eq_some_iff.mp hk).1

/-- under the hypotheses a known feature is matched by at most one read feature -/
theorem sep_unique (δ : Int) (R : List Iv) (hP : SepBy δ R) (k : Iv) (hlen : k.2 - k.1 ≥ δ)
    (j j' : Nat) (r r' : Iv) (hr : R[j]? = some r) (hr' : R[j']? = some r')
    (hc : equal_ranges r k δ = true) (hc' : equal_ranges r' k δ = true) : j = j' := by
  have key : ∀ (a b : Nat) (x y : Iv), a < b → R[a]? = some x → R[b]? = some y →
      equal_ranges x k δ = true → equal_ranges y k δ = true → False := by
    intro a b x y hab hx hy hcx hcy
    obtain ⟨ha, hxa⟩ := List.getElem?_eq_some_iff.mp hx
    obtain ⟨hb, hyb⟩ := List.getElem?_eq_some_iff.mp hy
    have := (List.pairwise_iff_getElem.mp hP) a b ha hb hab
    rw [hxa, hyb] at this
    have h1 := (eqr_iff x k δ).mp hcx
    have h2 := (eqr_iff y k δ).mp hcy
    omega
  rcases Nat.lt_trichotomy j j' with h | h | h
  · exact absurd (key j j' r r' h hr hr' hc hc') id
  · exact h
  · exact absurd (key j' j r' r h hr' hr hc' hc) id

/-! ### the gene profile has one entry per known feature -/

theorem ovEliminate_length (K R : List Iv) (matched : List (Nat × Nat)) (g : List Int) :
    (ovEliminate K R matched g).length = g.length := by
  unfold ovEliminate
  generalize List.range R.length = L
  induction L generalizing g with
  | nil => rfl
  | cons x xs ih =>
    simp only [List.foldl_cons]
    rw [ih]
    split
    · split
      · rfl
      · exact elimInner_length _ _ g
    · rfl

theorem constructOverlapping_gene_length (K : List Iv) (gr : Iv) (cmp absent : Iv → Iv → Bool) (δ : Int) (R : List Iv) (M : Iv)
    (pa pt : Int) : (constructOverlapping K gr cmp absent δ R M pa pt).gene.length = K.length := by
  unfold constructOverlapping
  simp only
  have h0 : (ovEliminate K R (sweepState K gr cmp absent R M).matched (sweepState K gr cmp absent R M).gene).length = K.length := by
    rw [ovEliminate_length]; unfold sweepState; rw [ovSweep_gene_length]; simp
  have h0' := h0
  unfold sweepState at h0'
  split <;> split <;> (try simp only [List.length_zipWith]) <;> omega

/-! ### completeness of the exclusion marks -/

theorem tri_trans {a b c : Option Int} (h1 : a = b ∨ a = some (-1) ∨ a = some 1)
    (h2 : b = c ∨ b = some (-1) ∨ b = some 1) : a = c ∨ a = some (-1) ∨ a = some 1 := by
  rcases h1 with h | h | h
  · rw [h]; exact h2
  · exact Or.inr (Or.inl h)
  · exact Or.inr (Or.inr h)

theorem set_tri (l : List Int) (gi i : Nat) (v : Int) (hv : v = -1 ∨ v = 1) :
    (l.set gi v)[i]? = l[i]? ∨ (l.set gi v)[i]? = some (-1) ∨ (l.set gi v)[i]? = some 1 := by
  simp only [List.getElem?_set]
  split
  · rename_i e; subst e
    split
    · rcases hv with e | e <;> subst e <;> simp
    · left; rename_i hlt; rw [List.getElem?_eq_none_iff.mpr (by omega)]
  · left; rfl

/-- what the sweep can do to one entry of the gene profile: leave it, or write −1 or +1 -/
theorem ovSweep_gene_tri (cmp absent : Iv → Iv → Bool) (M : Iv) :
    ∀ (ks : List Iv) (gi : Nat) (rs : List Iv) (ri : Nat) (st : OvState) (i : Nat),
      (ovSweep cmp absent M ks gi rs ri st).gene[i]? = st.gene[i]? ∨
      (ovSweep cmp absent M ks gi rs ri st).gene[i]? = some (-1) ∨
      (ovSweep cmp absent M ks gi rs ri st).gene[i]? = some 1 := by
  intro ks gi rs ri st
  induction ks, gi, rs, ri, st using ovSweep.induct cmp absent M with
  | case1 => intro i; left; simp [ovSweep]
  | case2 => intro i; left; simp [ovSweep]
  | case3 k ks gi r rs ri st h1 st' ih =>
    intro i
    rw [ovSweep]; simp only [h1, if_true]
    refine tri_trans (ih i) ?_
    simp only [st']; split <;> exact Or.inl rfl
  | case4 k ks gi r rs ri st h1 h2 st' ih =>
    intro i
    rw [ovSweep]; simp only [h1, h2, if_true, if_false]
    refine tri_trans (ih i) ?_
    simp only [st']; split
    · exact set_tri _ _ _ _ (Or.inl rfl)
    · exact Or.inl rfl
  | case5 k ks gi r rs ri st h1 h2 h3 ih =>
    intro i
    rw [ovSweep]; simp only [h1, h2, h3, if_true, if_false]
    refine tri_trans (ih i) ?_
    exact set_tri _ _ _ _ (Or.inr rfl)
  | case6 k ks gi r rs ri st h1 h2 h3 h4 st' ih =>
    intro i
    rw [ovSweep]; simp only [h1, h2, h3, h4, if_true, if_false]
    refine tri_trans (ih i) ?_
    simp only [st']; split
    · exact set_tri _ _ _ _ (Or.inl rfl)
    · exact Or.inl rfl
  | case7 k ks gi r rs ri st h1 h2 h3 h4 =>
    intro i; left
    rw [ovSweep]; simp [h1, h2, h3, h4]

/-- a known feature that ends before the `c`-th remaining read feature starts, while all earlier remaining read
    features end before it starts, is marked −1 by the sweep (it lies in the gap in front of that read feature) -/
theorem ovSweep_gap (cmp absent : Iv → Iv → Bool) (M : Iv) :
    ∀ (ks : List Iv) (gi : Nat) (rs : List Iv) (ri : Nat) (st : OvState),
      SortedStarts ks → (∀ k ∈ ks, k.1 ≤ k.2) → WFR rs →
      ∀ (c b : Nat) (k r' : Iv), ks[b]? = some k → rs[c]? = some r' → k.2 < r'.1 → ri + c > 0 →
        (∀ (c' : Nat) (r'' : Iv), c' < c → rs[c']? = some r'' → r''.2 < k.1) →
        gi + b < st.gene.length →
        (ovSweep cmp absent M ks gi rs ri st).gene[gi + b]? = some (-1) := by
  intro ks gi rs ri st
  induction ks, gi, rs, ri, st using ovSweep.induct cmp absent M with
  | case1 => intro _ _ _ c b k r' hk; simp at hk
  | case2 => intro _ _ _ c b k r' _ hr; simp at hr
  | case3 k0 ks gi r0 rs ri st h1 st' ih =>
    intro hS hWk hWr c b k r' hk hr hlt hpos hbefore hlen
    rw [ovSweep]; simp only [h1, if_true]
    have hkm : k ∈ k0 :: ks := List.mem_of_getElem? hk
    have hk01 : k0.1 ≤ k.1 := by
      rcases List.mem_cons.mp hkm with e | e
      · subst e; omega
      · exact (List.pairwise_cons.mp hS).1 k e
    cases c with
    | zero =>
      exfalso
      simp at hr; subst hr
      have := hWk k hkm
      have := hWr r0 (by simp)
      omega
    | succ c =>
      have hr' : rs[c]? = some r' := by simpa using hr
      apply ih hS hWk (fun x hx => hWr x (List.mem_cons_of_mem _ hx)) c b k r' hk hr' hlt (by omega)
      · intro c' r'' hc' hr''
        exact hbefore (c' + 1) r'' (by omega) (by simpa using hr'')
      · simp only [st']; split <;> exact hlen
  | case4 k0 ks gi r0 rs ri st h1 h2 st' ih =>
    intro hS hWk hWr c b k r' hk hr hlt hpos hbefore hlen
    rw [ovSweep]; simp only [h1, h2, if_true, if_false]
    cases b with
    | zero =>
      simp at hk; subst hk
      have hc0 : c = 0 := by
        cases c with
        | zero => rfl
        | succ c => exact absurd (hbefore 0 r0 (by omega) (by simp)) h1
      subst hc0
      have hri : ri > 0 := by omega
      refine Eq.trans (ovSweep_gene_below cmp absent M ks (gi + 1) (r0 :: rs) ri st' (gi + 0) (by omega)) ?_
      simp only [st', hri, dite_true, Nat.add_zero] at hlen ⊢
      simp [hlen]
    | succ b =>
      have hk' : ks[b]? = some k := by simpa using hk
      have := ih (List.pairwise_cons.mp hS).2 (fun x hx => hWk x (List.mem_cons_of_mem _ hx)) hWr c b k r' hk' hr hlt hpos hbefore
        (by simp only [st']; split <;> (try simp only [List.length_set]) <;> omega)
      have e : gi + 1 + b = gi + (b + 1) := by omega
      rw [e] at this; exact this
  | case5 k0 ks gi r0 rs ri st h1 h2 h3 ih =>
    intro hS hWk hWr c b k r' hk hr hlt hpos hbefore hlen
    rw [ovSweep]; simp only [h1, h2, h3, if_true, if_false]
    cases b with
    | zero =>
      exfalso
      simp at hk; subst hk
      cases c with
      | zero => simp at hr; subst hr; exact h2 hlt
      | succ c => exact h1 (hbefore 0 r0 (by omega) (by simp))
    | succ b =>
      have hk' : ks[b]? = some k := by simpa using hk
      have := ih (List.pairwise_cons.mp hS).2 (fun x hx => hWk x (List.mem_cons_of_mem _ hx)) hWr c b k r' hk' hr hlt hpos hbefore
        (by simp; omega)
      have e : gi + 1 + b = gi + (b + 1) := by omega
      rw [e] at this; exact this
  | case6 k0 ks gi r0 rs ri st h1 h2 h3 h4 st' ih =>
    intro hS hWk hWr c b k r' hk hr hlt hpos hbefore hlen
    rw [ovSweep]; simp only [h1, h2, h3, h4, if_true, if_false]
    cases b with
    | zero =>
      exfalso
      simp at hk; subst hk
      cases c with
      | zero => simp at hr; subst hr; exact h2 hlt
      | succ c => exact h1 (hbefore 0 r0 (by omega) (by simp))
    | succ b =>
      have hk' : ks[b]? = some k := by simpa using hk
      have := ih (List.pairwise_cons.mp hS).2 (fun x hx => hWk x (List.mem_cons_of_mem _ hx)) hWr c b k r' hk' hr hlt hpos hbefore
        (by simp only [st']; split <;> (try simp only [List.length_set]) <;> omega)
      have e : gi + 1 + b = gi + (b + 1) := by omega
      rw [e] at this; exact this
  | case7 k0 ks gi r0 rs ri st h1 h2 h3 h4 =>
    intro _ _ _ c b k r' _ _ _ _ _ _
    exfalso
    simp [overlaps] at h4
    omega

end IsoVerif.Lemmas.C13
