/-
C11 helper lemmas — Model/Gtf.lean (`validate_exons`, `GFFPrinter.dump`, the novel-exon constructors) under
translation, and the feature lines of one transcript under reflection.
-/
import IsoVerif.Gen.Prims
import IsoVerif.Model.Interval
import IsoVerif.Model.Gtf
import IsoVerif.Model.C11Symmetry
import IsoVerif.Model.C11SymBedCorr
import IsoVerif.Lemmas.Interval
import IsoVerif.Lemmas.C03Sort
import IsoVerif.Lemmas.C11Shift
import IsoVerif.Lemmas.C11Mirror

namespace IsoVerif.Lemmas.C11
open IsoVerif.Gen IsoVerif.Model IsoVerif.Model.C03 IsoVerif.Model.C11 IsoVerif.Lemmas IsoVerif.Lemmas.C03

/-! ## Model/Gtf.lean — the stable insertion sort commutes with comparison-preserving maps -/

theorem gtf_insBy_map {α β} (lt : α → α → Bool) (lt' : β → β → Bool) (f : α → β)
    (h : ∀ a b, lt' (f a) (f b) = lt a b) (x : α) (l : List α) :
    insBy lt' (f x) (l.map f) = (insBy lt x l).map f := by
  induction l with
  | nil => rfl
  | cons y ys ih =>
    simp only [List.map_cons, insBy, h, ih]
    split <;> rfl

theorem gtf_isortBy_map {α β} (lt : α → α → Bool) (lt' : β → β → Bool) (f : α → β)
    (h : ∀ a b, lt' (f a) (f b) = lt a b) (l : List α) :
    isortBy lt' (l.map f) = (isortBy lt l).map f := by
  induction l with
  | nil => rfl
  | cons x xs ih => simp only [List.map_cons, isortBy, ih, gtf_insBy_map lt lt' f h]

theorem gtf_ivLt_shift (k : Int) (a b : Iv) : ivLt (shiftIv k a) (shiftIv k b) = ivLt a b := by
  simp only [ivLt, shiftIv]; grind

theorem gtf_featLt_shift (k : Int) (a b : Feat) : featLt (shiftFeat k a) (shiftFeat k b) = featLt a b := by
  simp only [featLt, shiftFeat]; grind

theorem gtf_intLt_shift (k a b : Int) : intLt (a + k) (b + k) = intLt a b := by
  simp only [intLt]; grind

theorem gtf_shiftIv_injective (k : Int) (a b : Iv) (h : shiftIv k a = shiftIv k b) : a = b := by
  simp only [shiftIv, Prod.mk.injEq] at h
  ext <;> omega

/-! ## `validate_exons` -/

/-- the `0 < x[0]` test gives the same answer on every exon before and after the shift -/
def PosStable (k : Int) (l : List Iv) : Prop := ∀ x ∈ l, (0 < x.1 ↔ 0 < x.1 + k)

theorem sorted_test_shift (k : Int) (l : List Iv) :
    (shiftL k l == isortBy ivLt (shiftL k l)) = (l == isortBy ivLt l) := by
  have e : isortBy ivLt (shiftL k l) = shiftL k (isortBy ivLt l) :=
    gtf_isortBy_map ivLt ivLt (shiftIv k) (gtf_ivLt_shift k) l
  rw [e]
  have hi : (shiftL k l = shiftL k (isortBy ivLt l)) ↔ l = isortBy ivLt l := by
    simp only [shiftL]
    exact List.map_inj_right (gtf_shiftIv_injective k)
  rw [Bool.eq_iff_iff]
  simp only [beq_iff_eq]
  exact hi

theorem all_pos_shift (k : Int) (l : List Iv) (h : PosStable k l) :
    (shiftL k l).all (fun x => decide (0 < x.1) && decide (x.1 ≤ x.2))
      = l.all (fun x => decide (0 < x.1) && decide (x.1 ≤ x.2)) := by
  induction l with
  | nil => rfl
  | cons x t ih =>
    have h1 := h x (by simp)
    have h2 : (x.1 + k ≤ x.2 + k) ↔ (x.1 ≤ x.2) := by omega
    simp only [shiftL_cons, List.all_cons, shiftIv_fst, shiftIv_snd, ← h1, h2,
      ih (fun y hy => h y (List.mem_cons_of_mem _ hy))]

theorem validateExons_shift (k : Int) (l : List Iv) (h : PosStable k l) :
    validateExons (shiftL k l) = validateExons l := by
  simp only [validateExons, sorted_test_shift, all_pos_shift k l h]

/-! ## feature lines -/

/-- `featLines` with the fields of the model as separate arguments -/
def featLinesOf (chr : Id) (strand : Strand) (gid tid : Id) (fs : List Feat) : List Line :=
  (if strand = strandMinus then (isortBy featLt fs).reverse else isortBy featLt fs).zipIdx.map
    (fun p => Line.feat chr p.1.2.2 p.1.1 p.1.2.1 strand gid tid (p.2 + 1))

def exonFeat (e : Iv) : Feat := (e.1, e.2, (0 : Int))

theorem featLines_eq_of (m : TModel) :
    featLines m = featLinesOf m.chr m.strand m.gid m.tid (m.other ++ m.exons.map exonFeat) := rfl

theorem featLinesOf_shift (k : Int) (chr : Id) (strand : Strand) (gid tid : Id) (fs : List Feat) :
    featLinesOf chr strand gid tid (fs.map (shiftFeat k)) = (featLinesOf chr strand gid tid fs).map (shiftLine k) := by
  simp only [featLinesOf, gtf_isortBy_map featLt featLt (shiftFeat k) (gtf_featLt_shift k)]
  split
  · rw [← List.map_reverse, List.zipIdx_map, List.map_map, List.map_map]
    apply List.map_congr_left; intro p _
    simp only [Function.comp, Prod.map, shiftFeat, shiftLine, id]
  · rw [List.zipIdx_map, List.map_map, List.map_map]
    apply List.map_congr_left; intro p _
    simp only [Function.comp, Prod.map, shiftFeat, shiftLine, id]

theorem featLines_shift (k : Int) (m : TModel) : featLines (shiftTM k m) = (featLines m).map (shiftLine k) := by
  rw [featLines_eq_of, featLines_eq_of, ← featLinesOf_shift]
  show featLinesOf m.chr m.strand m.gid m.tid (m.other.map (shiftFeat k) ++ (shiftL k m.exons).map exonFeat) = _
  congr 1
  simp only [shiftL, List.map_append, List.map_map]
  congr 1

theorem txBlock_shift (k : Int) (p : TModel × Iv) :
    txBlock (shiftTM k p.1, shiftIv k p.2) = (txBlock p).map (shiftLine k) := by
  simp only [txBlock, featLines_shift, List.map_cons]
  rfl

/-! ## `dump`: the accumulator contains functions, so the relation is stated extensionally -/

def shiftEntry (k : Int) (q : TModel × Iv) : TModel × Iv := (shiftTM k q.1, shiftIv k q.2)

structure AccShift (k : Int) (a a' : Acc) : Prop where
  keys : a'.keys = a.keys
  info : ∀ g, a'.info g = (a.info g).map (shiftGRec k)
  mods : ∀ g, a'.mods g = (a.mods g).map (shiftEntry k)

def OptAccShift (k : Int) : Option Acc → Option Acc → Prop
  | none, none => True
  | some a, some a' => AccShift k a a'
  | _, _ => False

theorem accShift_empty (k : Int) : AccShift k Acc.empty Acc.empty := ⟨rfl, fun _ => rfl, fun _ => rfl⟩

theorem lookup_regions_shift (k : Int) (rs : List (Id × Iv)) (g : Id) :
    (rs.map (fun q => (q.1, shiftIv k q.2))).lookup g = (rs.lookup g).map (shiftIv k) := by
  induction rs with
  | nil => rfl
  | cons q t ih =>
    obtain ⟨a, r⟩ := q
    simp only [List.map_cons, List.lookup_cons, ih]
    split <;> rfl

theorem gtf_max_range_shift (k : Int) (a b : Iv) : max_range (shiftIv k a) (shiftIv k b) = shiftIv k (max_range a b) := by
  simp only [max_range, shiftIv]; ext <;> simp <;> omega

theorem phase1Step_shift (k : Int) (ctx : GeneCtx) (a a' : Acc) (m : TModel) (h : AccShift k a a')
    (hv : validateExons (shiftL k m.exons) = validateExons m.exons) :
    OptAccShift k (phase1Step ctx a m) (phase1Step (shiftCtx k ctx) a' (shiftTM k m)) := by
  unfold phase1Step
  have e1 : (shiftTM k m).exons = shiftL k m.exons := rfl
  have e2 : (shiftTM k m).gid = m.gid := rfl
  have e3 : (shiftTM k m).chr = m.chr := rfl
  have e4 : (shiftCtx k ctx).chr = ctx.chr := rfl
  have e5 : (shiftTM k m).strand = m.strand := rfl
  have e6 : (shiftCtx k ctx).regions = ctx.regions.map (fun q => (q.1, shiftIv k q.2)) := rfl
  rw [e1, hv]
  cases hval : validateExons m.exons
  · simp only [if_true]; exact h
  · simp only [Bool.true_eq_false, if_false, shiftL_head?, shiftL_getLast?, e2, e3, e4, e5, e6]
    cases hf : m.exons.head? <;> cases hl : m.exons.getLast? <;>
      simp only [Option.map_none, Option.map_some] <;> try exact trivial
    rename_i f l
    rw [h.info m.gid]
    cases hi : a.info m.gid with
    | none =>
      simp only [Option.map_none]
      by_cases hc : m.chr ≠ ctx.chr
      · rw [if_pos hc, if_pos hc]; exact trivial
      · rw [if_neg hc, if_neg hc]
        refine ⟨by simp only [h.keys], ?_, ?_⟩
        · intro g
          by_cases hg : g = m.gid
          · simp only [hg, if_true, Option.map_some, shiftGRec, lookup_regions_shift]
            cases ctx.regions.lookup m.gid with
            | none => simp only [Option.map_none, shiftIv]
            | some r =>
              simp only [Option.map_some]
              have := gtf_max_range_shift k r (f.1, l.2)
              simp only [shiftIv] at this ⊢
              rw [this]
          · simp only [hg, if_false]; exact h.info g
        · intro g
          by_cases hg : g = m.gid
          · simp only [hg, if_true, h.mods m.gid, List.map_append, List.map_cons, List.map_nil, shiftEntry, shiftIv]
          · simp only [hg, if_false]; exact h.mods g
    | some r =>
      simp only [Option.map_some, shiftGRec]
      by_cases hc : m.chr ≠ r.chr
      · rw [if_pos hc, if_pos hc]; exact trivial
      · rw [if_neg hc, if_neg hc]
        refine ⟨by simp only [h.keys], ?_, ?_⟩
        · intro g
          by_cases hg : g = m.gid
          · simp only [hg, if_true, Option.map_some, shiftGRec]
            have := gtf_max_range_shift k r.range (f.1, l.2)
            simp only [shiftIv] at this ⊢
            rw [this]
          · simp only [hg, if_false]; exact h.info g
        · intro g
          by_cases hg : g = m.gid
          · simp only [hg, if_true, h.mods m.gid, List.map_append, List.map_cons, List.map_nil, shiftEntry, shiftIv]
          · simp only [hg, if_false]; exact h.mods g

theorem phase1_shift (k : Int) (ctx : GeneCtx) (ms : List TModel) (a a' : Acc) (h : AccShift k a a')
    (hv : ∀ m ∈ ms, validateExons (shiftL k m.exons) = validateExons m.exons) :
    OptAccShift k (phase1 ctx ms a) (phase1 (shiftCtx k ctx) (ms.map (shiftTM k)) a') := by
  induction ms generalizing a a' with
  | nil => exact h
  | cons m ms ih =>
    simp only [List.map_cons, phase1]
    have hs := phase1Step_shift k ctx a a' m h (hv m (by simp))
    cases h1 : phase1Step ctx a m <;> cases h2 : phase1Step (shiftCtx k ctx) a' (shiftTM k m) <;>
      simp only [h1, h2, OptAccShift] at hs ⊢
    exact ih _ _ hs (fun m' hm' => hv m' (by simp [hm']))

def shiftOrderEntry (k : Int) (q : Id × GRec) : Id × GRec := (q.1, shiftGRec k q.2)

theorem geneOrder_shift (k : Int) (a a' : Acc) (h : AccShift k a a') :
    geneOrder a' = (geneOrder a).map (shiftOrderEntry k) := by
  simp only [geneOrder, h.keys]
  have e : a.keys.filterMap (fun g => (a'.info g).map (fun r => (g, r)))
      = (a.keys.filterMap (fun g => (a.info g).map (fun r => (g, r)))).map (shiftOrderEntry k) := by
    rw [List.map_filterMap]
    have : (fun g => (a'.info g).map (fun r => (g, r)))
        = (fun g => ((a.info g).map (fun r => (g, r))).map (shiftOrderEntry k)) := by
      funext g
      rw [h.info g]
      cases a.info g <;> rfl
    rw [this]
  rw [e]
  exact gtf_isortBy_map _ _ (shiftOrderEntry k) (fun x y => gtf_ivLt_shift k x.2.range y.2.range) _

def shiftDumpRes (k : Int) (r : List Id × List Line) : List Id × List Line := (r.1, r.2.map (shiftLine k))

theorem emitGenes_shift (k : Int) (a a' : Acc) (h : AccShift k a a') (order : List (Id × GRec)) (printed : List Id) :
    emitGenes a' (order.map (shiftOrderEntry k)) printed = shiftDumpRes k (emitGenes a order printed) := by
  induction order generalizing printed with
  | nil => rfl
  | cons q rest ih =>
    obtain ⟨g, r⟩ := q
    simp only [List.map_cons, shiftOrderEntry, emitGenes, ih, h.mods g, List.length_map, shiftDumpRes,
      List.map_append, List.map_flatMap, List.flatMap_map]
    congr 2
    · congr 1
      · split <;> rfl
      · have : (fun p => txBlock (shiftEntry k p)) = (fun p => (txBlock p).map (shiftLine k)) := by
          funext p; exact txBlock_shift k p
        rw [this]

theorem dump_shift (k : Int) (printed : List Id) (ctx : GeneCtx) (models : List TModel)
    (hv : ∀ m ∈ models, validateExons (shiftL k m.exons) = validateExons m.exons) :
    dump printed (shiftCtx k ctx) (models.map (shiftTM k)) = (dump printed ctx models).map (shiftDumpRes k) := by
  simp only [dump, List.isEmpty_map]
  split
  · rfl
  · have hp := phase1_shift k ctx models Acc.empty Acc.empty (accShift_empty k) hv
    cases h1 : phase1 ctx models Acc.empty <;> cases h2 : phase1 (shiftCtx k ctx) (models.map (shiftTM k)) Acc.empty <;>
      simp only [h1, h2, OptAccShift] at hp ⊢
    · rfl
    · rename_i a a'
      simp only [Option.map_some, geneOrder_shift k a a' hp, emitGenes_shift k a a' hp]

theorem runCalls_shift (k : Int) (calls : List Call) (printed : List Id)
    (hv : ∀ c ∈ calls, ∀ m ∈ c.models, validateExons (shiftL k m.exons) = validateExons m.exons) :
    runCalls printed (calls.map (shiftCall k)) = (runCalls printed calls).map (shiftDumpRes k) := by
  induction calls generalizing printed with
  | nil => rfl
  | cons c cs ih =>
    simp only [List.map_cons, runCalls, shiftCall, dump_shift k printed c.ctx c.models (hv c (by simp))]
    cases dump printed c.ctx c.models with
    | none => rfl
    | some r =>
      obtain ⟨p1, l1⟩ := r
      simp only [Option.map_some, shiftDumpRes]
      rw [ih p1 (fun c' hc' => hv c' (by simp [hc']))]
      cases runCalls p1 cs with
      | none => rfl
      | some r2 =>
        obtain ⟨p2, l2⟩ := r2
        simp only [Option.map_some, shiftDumpRes, List.map_append]

/-! ## constructors of novel exon lists -/

theorem gtf_listMin_shift (k : Int) (l : List Int) :
    C03.listMin (l.map (· + k)) = (C03.listMin l).map (· + k) := by
  induction l with
  | nil => rfl
  | cons x xs ih =>
    simp only [List.map_cons, C03.listMin, ih]
    cases C03.listMin xs with
    | none => rfl
    | some m => simp only [Option.map_some, Option.some.injEq]; omega

theorem gtf_listMax_shift (k : Int) (l : List Int) :
    C03.listMax (l.map (· + k)) = (C03.listMax l).map (· + k) := by
  induction l with
  | nil => rfl
  | cons x xs ih =>
    simp only [List.map_cons, C03.listMax, ih]
    cases C03.listMax xs with
    | none => rfl
    | some m => simp only [Option.map_some, Option.some.injEq]; omega

theorem monoExonFromCluster_shift (k : Int) (cutoff : Nat) (forward : Bool) (reads : List Iv) (three : Int) :
    monoExonFromCluster cutoff forward (shiftL k reads) (three + k)
      = (monoExonFromCluster cutoff forward reads three).map (shiftL k) := by
  have e1 : (shiftL k reads).map (·.1) = (reads.map (·.1)).map (· + k) := by
    simp only [shiftL, List.map_map]; rfl
  have e2 : (shiftL k reads).map (·.2) = (reads.map (·.2)).map (· + k) := by
    simp only [shiftL, List.map_map]; rfl
  simp only [monoExonFromCluster, shiftL_length, e1, e2, gtf_listMin_shift, gtf_listMax_shift]
  split
  · rfl
  · split
    · cases C03.listMin (reads.map (·.1)) <;> rfl
    · cases C03.listMax (reads.map (·.2)) <;> rfl

/-- the state of the read loop with its recorded coordinates shifted -/
def shiftEndState (k : Int) (st : EndState) : EndState :=
  { st with readStarts := st.readStarts.map (· + k), readEnds := st.readEnds.map (· + k) }

theorem gtf_iabs_sub_shift (k a b : Int) : iabs (a + k - (b + k)) = iabs (a - b) := by
  have : a + k - (b + k) = a - b := by omega
  rw [this]

theorem endStep_shift (k apa ts te : Int) (first last : Iv) (st : EndState) (rd : Iv) :
    endStep apa (ts + k) (te + k) (shiftIv k first) (shiftIv k last) (shiftEndState k st) (shiftIv k rd)
      = shiftEndState k (endStep apa ts te first last st rd) := by
  have h1 : (rd.1 + k < first.2 + k) ↔ (rd.1 < first.2) := by omega
  have h2 : (rd.2 + k > last.1 + k) ↔ (rd.2 > last.1) := by omega
  simp only [endStep, shiftEndState, shiftIv_fst, shiftIv_snd, gtf_iabs_sub_shift, h1, h2, EndState.mk.injEq, true_and]
  constructor
  · split <;> simp
  · split <;> simp

theorem foldl_endStep_shift (k apa ts te : Int) (first last : Iv) (reads : List Iv) (st : EndState) :
    (shiftL k reads).foldl (endStep apa (ts + k) (te + k) (shiftIv k first) (shiftIv k last)) (shiftEndState k st)
      = shiftEndState k (reads.foldl (endStep apa ts te first last) st) := by
  induction reads generalizing st with
  | nil => rfl
  | cons r rs ih => simp only [shiftL_cons, List.foldl_cons, endStep_shift, ih]

/-- every recorded start / end is the start / end of one of the reads -/
theorem foldl_endStep_mem (apa ts te : Int) (first last : Iv) (reads : List Iv) (st : EndState) :
    (∀ s ∈ (reads.foldl (endStep apa ts te first last) st).readStarts, s ∈ st.readStarts ∨ ∃ rd ∈ reads, rd.1 = s) ∧
    (∀ e ∈ (reads.foldl (endStep apa ts te first last) st).readEnds, e ∈ st.readEnds ∨ ∃ rd ∈ reads, rd.2 = e) := by
  induction reads generalizing st with
  | nil => exact ⟨fun s hs => Or.inl hs, fun e he => Or.inl he⟩
  | cons r rs ih =>
    simp only [List.foldl_cons]
    obtain ⟨i1, i2⟩ := ih (endStep apa ts te first last st r)
    constructor
    · intro s hs
      rcases i1 s hs with h | ⟨rd, hrd, h⟩
      · simp only [endStep] at h
        split at h
        · rcases List.mem_cons.mp h with h | h
          · exact Or.inr ⟨r, by simp, h.symm⟩
          · exact Or.inl h
        · exact Or.inl h
      · exact Or.inr ⟨rd, List.mem_cons_of_mem _ hrd, h⟩
    · intro e he
      rcases i2 e he with h | ⟨rd, hrd, h⟩
      · simp only [endStep] at h
        split at h
        · rcases List.mem_cons.mp h with h | h
          · exact Or.inr ⟨r, by simp, h.symm⟩
          · exact Or.inl h
        · exact Or.inl h
      · exact Or.inr ⟨rd, List.mem_cons_of_mem _ hrd, h⟩

theorem setHead_shift (k : Int) (l : List Iv) (x : Iv) :
    setHead (shiftL k l) (shiftIv k x) = shiftL k (setHead l x) := by
  cases l <;> rfl

theorem setLast_shift (k : Int) (l : List Iv) (x : Iv) :
    setLast (shiftL k l) (shiftIv k x) = shiftL k (setLast l x) := by
  fun_induction setLast l x with
  | case1 => rfl
  | case2 a => rfl
  | case3 a b t ih =>
    simp only [shiftL_cons] at ih ⊢
    simp only [setLast, ih]

/-- Python truthiness of the new coordinate is the same before and after the shift -/
def ZeroStableAt (k : Int) (o : Option Int) : Prop := ∀ s, o = some s → (s = 0 ↔ s + k = 0)

theorem applyStart_shift (k : Int) (exons : List Iv) (first : Iv) (o : Option Int) (hz : ZeroStableAt k o) :
    applyStart (shiftL k exons) (shiftIv k first) (o.map (· + k)) = shiftL k (applyStart exons first o) := by
  cases o with
  | none => rfl
  | some s =>
    have h0 := hz s rfl
    have h1 : (s + k < first.2 + k) ↔ (s < first.2) := by omega
    have h2 : (s + k ≠ 0) ↔ (s ≠ 0) := by omega
    simp only [Option.map_some, applyStart, shiftIv_snd, h1, h2]
    split
    · have : ((s + k, first.2 + k) : Iv) = shiftIv k (s, first.2) := rfl
      rw [this, setHead_shift]
    · rfl

theorem applyEnd_shift (k : Int) (exons1 : List Iv) (o : Option Int) (hz : ZeroStableAt k o) :
    applyEnd (shiftL k exons1) (o.map (· + k)) = (applyEnd exons1 o).map (shiftL k) := by
  cases o with
  | none => cases h : exons1.getLast? <;> simp [applyEnd, shiftL_getLast?, h]
  | some e =>
    have h0 := hz e rfl
    simp only [Option.map_some, applyEnd, shiftL_getLast?]
    cases exons1.getLast? with
    | none => rfl
    | some last1 =>
      have h1 : (e + k > last1.1 + k) ↔ (e > last1.1) := by omega
      have h2 : (e + k ≠ 0) ↔ (e ≠ 0) := by omega
      simp only [Option.map_some, shiftIv_fst, h1, h2, Option.some.injEq]
      split
      · have : ((last1.1 + k, e + k) : Iv) = shiftIv k (last1.1, e) := rfl
        rw [this, setLast_shift]
      · rfl

theorem isortBy_intLt_shift (k : Int) (l : List Int) :
    isortBy intLt (l.map (· + k)) = (isortBy intLt l).map (· + k) :=
  gtf_isortBy_map intLt intLt (· + k) (fun a b => gtf_intLt_shift k a b) l

/-- `correct_novel_transcript_ends`, under the assumption that the chosen new start / end is 0 neither before nor
    after the shift (it is tested for truthiness) -/
theorem correctEnds_shift_aux (k apa : Int) (exons reads : List Iv)
    (hz : ∀ rd ∈ reads, (rd.1 = 0 ↔ rd.1 + k = 0) ∧ (rd.2 = 0 ↔ rd.2 + k = 0)) :
    correctEnds (shiftL k exons) (shiftL k reads) apa = (correctEnds exons reads apa).map (shiftL k) := by
  simp only [correctEnds, shiftL_head?, shiftL_getLast?]
  cases hf : exons.head? <;> cases hl : exons.getLast? <;> simp only [Option.map_none, Option.map_some]
  rename_i first last
  have hfold := foldl_endStep_shift k apa first.1 last.2 first last reads {}
  have he : shiftEndState k {} = {} := rfl
  rw [he] at hfold
  rw [show (shiftIv k first).1 = first.1 + k from rfl, show (shiftIv k last).2 = last.2 + k from rfl, hfold]
  obtain ⟨m1, m2⟩ := foldl_endStep_mem apa first.1 last.2 first last reads {}
  generalize reads.foldl (endStep apa first.1 last.2 first last) {} = st at m1 m2 ⊢
  have hs1 : ∀ s ∈ st.readStarts, (s = 0 ↔ s + k = 0) := by
    intro s hs
    rcases m1 s hs with h | ⟨rd, hrd, h⟩
    · simp at h
    · subst h; exact (hz rd hrd).1
  have hs2 : ∀ e ∈ st.readEnds, (e = 0 ↔ e + k = 0) := by
    intro e he'
    rcases m2 e he' with h | ⟨rd, hrd, h⟩
    · simp at h
    · subst h; exact (hz rd hrd).2
  have hns : (if (shiftEndState k st).startSupported then none
        else (isortBy intLt (shiftEndState k st).readStarts).find? (fun s => decide (s > first.1 + k)))
      = (if st.startSupported then none
          else (isortBy intLt st.readStarts).find? (fun s => decide (s > first.1))).map (· + k) := by
    rw [show (shiftEndState k st).startSupported = st.startSupported from rfl,
      show (shiftEndState k st).readStarts = st.readStarts.map (· + k) from rfl]
    split
    · rfl
    · rw [isortBy_intLt_shift, List.find?_map]
      congr 2
      funext s
      simp only [Function.comp, gt_iff_lt, decide_eq_decide]; omega
  have hne : (if (shiftEndState k st).endSupported then none
        else ((isortBy intLt (shiftEndState k st).readEnds).reverse).find? (fun e => decide (e < last.2 + k)))
      = (if st.endSupported then none
          else ((isortBy intLt st.readEnds).reverse).find? (fun e => decide (e < last.2))).map (· + k) := by
    rw [show (shiftEndState k st).endSupported = st.endSupported from rfl,
      show (shiftEndState k st).readEnds = st.readEnds.map (· + k) from rfl]
    split
    · rfl
    · rw [isortBy_intLt_shift, ← List.map_reverse, List.find?_map]
      congr 2
      funext e
      simp only [Function.comp, decide_eq_decide]; omega
  rw [hns, hne]
  have hz1 : ZeroStableAt k (if st.startSupported then none
      else (isortBy intLt st.readStarts).find? (fun s => decide (s > first.1))) := by
    intro s hs
    split at hs
    · cases hs
    · exact hs1 s ((mem_isortBy intLt _ s).mp (List.mem_of_find?_eq_some hs))
  have hz2 : ZeroStableAt k (if st.endSupported then none
      else ((isortBy intLt st.readEnds).reverse).find? (fun e => decide (e < last.2))) := by
    intro e he'
    split at he'
    · cases he'
    · exact hs2 e ((mem_isortBy intLt _ e).mp (List.mem_reverse.mp (List.mem_of_find?_eq_some he')))
  rw [applyStart_shift k exons first _ hz1, applyEnd_shift k _ _ hz2]

/-! ## reflection of the feature lines of one transcript (exons only) -/

theorem exonFeats_sorted (l : List Iv) (hsd : SD l) (hw : WFl l) :
    isortBy featLt (l.map exonFeat) = l.map exonFeat := by
  apply isortBy_eq_self
  induction l with
  | nil => exact List.Pairwise.nil
  | cons a t ih =>
    simp only [List.map_cons, List.pairwise_cons]
    refine ⟨?_, ih (SD_tail hsd) (WFl_tail hw)⟩
    intro f hf
    obtain ⟨b, hb, rfl⟩ := List.mem_map.mp hf
    have h1 := SD_all_right hsd hw b hb
    have h2 := WFl_head hw
    simp only [featLt, exonFeat]
    grind

theorem flipStrandCode_minus_iff (s : Strand) (h : s = 0 ∨ s = 1) : (flipStrandCode s = strandMinus ↔ ¬ s = strandMinus) := by
  rcases h with h | h <;> subst h <;> decide

theorem zipIdx_map_feat_mirror (L : Int) (chr : Id) (strand : Strand) (gid tid : Id) (l : List Iv) (n : Nat) :
    (((l.map (mirrorIv L)).map exonFeat).zipIdx n).map
        (fun p => Line.feat chr p.1.2.2 p.1.1 p.1.2.1 (flipStrandCode strand) gid tid (p.2 + 1))
      = (((l.map exonFeat).zipIdx n).map
          (fun p => Line.feat chr p.1.2.2 p.1.1 p.1.2.1 strand gid tid (p.2 + 1))).map (mirrorLine L) := by
  induction l generalizing n with
  | nil => rfl
  | cons a t ih =>
    simp only [List.map_cons, List.zipIdx_cons, ih, List.cons.injEq, and_true]
    simp only [exonFeat, mirrorIv, mirrorLine]

/-- exons only, sorted disjoint well formed, a stranded transcript: the lines of the mirrored transcript are the
    mirrored lines, in the same order, with the same exon numbers -/
theorem featLines_mirror (L : Int) (m : TModel) (ho : m.other = []) (hsd : SD m.exons) (hw : WFl m.exons)
    (hs : m.strand = 0 ∨ m.strand = 1) :
    featLines (mirrorTM L m) = (featLines m).map (mirrorLine L) := by
  rw [featLines_eq_of, featLines_eq_of]
  show featLinesOf m.chr (flipStrandCode m.strand) m.gid m.tid
      ((m.other.map (mirrorFeat L)).reverse ++ (mirrorL L m.exons).map exonFeat) = _
  rw [ho]
  simp only [List.map_nil, List.reverse_nil, List.nil_append, featLinesOf,
    exonFeats_sorted _ (SD_mirror L _ hsd) (WFl_mirror L _ hw), exonFeats_sorted _ hsd hw]
  have hflip := flipStrandCode_minus_iff m.strand hs
  by_cases hm : m.strand = strandMinus
  · have hf : ¬ flipStrandCode m.strand = strandMinus := fun c => (hflip.mp c) hm
    rw [if_neg hf, if_pos hm]
    have e : (mirrorL L m.exons).map exonFeat = ((m.exons.reverse).map (mirrorIv L)).map exonFeat := by
      rw [mirrorL_eq_map_reverse]
    rw [e, ← List.map_reverse, zipIdx_map_feat_mirror]
  · have hf : flipStrandCode m.strand = strandMinus := hflip.mpr hm
    rw [if_pos hf, if_neg hm]
    have e : ((mirrorL L m.exons).map exonFeat).reverse = ((m.exons).map (mirrorIv L)).map exonFeat := by
      rw [← List.map_reverse, mirrorL_reverse]
    rw [e, zipIdx_map_feat_mirror]

end IsoVerif.Lemmas.C11
