/-
C11 helper lemmas — `correct_misalignments` (event LIST → event map + retained micro introns) under reflection.

`mirrorEventList n m evs` = every event seen from the other end (`mirrorMEventS`: the two sentinels of `read_region` are
kept), in the opposite order.  Its event map is the mirrored event map of `evs` in the opposite order of insertion
(`buildEventMap_mirror`), its micro bindings are `mirrorMicroMap` of the bindings of `evs` (`buildMicroMap_mirror`).
The loop reads the event map through `lookup` only, so the order of insertion does not matter when the keys are
distinct (`processEvents_reverse`).
-/
import IsoVerif.Gen.Prims
import IsoVerif.Model.Interval
import IsoVerif.Model.Corrector
import IsoVerif.Model.C11Symmetry
import IsoVerif.Model.C11SymBedCorr
import IsoVerif.Lemmas.Corrector
import IsoVerif.Lemmas.CorrectorLoop
import IsoVerif.Lemmas.C11Mirror
import IsoVerif.Lemmas.C11CorrectorMirror
import IsoVerif.Lemmas.C11CorrectorMicro
import IsoVerif.Lemmas.C11CorrectorSeg

namespace IsoVerif.Lemmas.C11
open IsoVerif.Gen IsoVerif.Model IsoVerif.Model.C14 IsoVerif.Model.C11 IsoVerif.Lemmas IsoVerif.Lemmas.C14

theorem filterMap_congr' {α β} {f g : α → Option β} {l : List α} (h : ∀ x ∈ l, f x = g x) :
    l.filterMap f = l.filterMap g := by
  induction l with
  | nil => rfl
  | cons a t ih =>
    simp only [List.filterMap_cons, h a (by simp), ih (fun x hx => h x (List.mem_cons_of_mem _ hx))]

theorem nodup_reverse' {α} {l : List α} (h : l.Nodup) : l.reverse.Nodup := by
  unfold List.Nodup at *
  rw [List.pairwise_reverse]
  exact h.imp (fun hab hc => hab hc.symm)

/-- an event that enters the event map: neither sentinel in its read region -/
def normalB (e : MEvent) : Bool := !(decide (e.read = undefinedRegion)) && !(decide (e.read.1 = absentPosition))

def keyed (e : MEvent) : Int × MEvent := (e.read.1, e)

theorem addEvent_eq (m : List (Int × MEvent)) (e : MEvent) :
    addEvent m e = if normalB e then keyed e :: m else m := by
  unfold addEvent normalB keyed
  by_cases h1 : e.read = undefinedRegion
  · simp [h1]
  · by_cases h2 : e.read.1 = absentPosition
    · simp [h1, h2]
    · simp [h1, h2]

theorem foldl_addEvent_eq (evs : List MEvent) (acc : List (Int × MEvent)) :
    evs.foldl addEvent acc = ((evs.filter normalB).map keyed).reverse ++ acc := by
  induction evs generalizing acc with
  | nil => rfl
  | cons e t ih =>
    rw [List.foldl_cons, ih, addEvent_eq, List.filter_cons]
    by_cases h : normalB e = true
    · simp [h]
    · simp [h]

theorem buildEventMap_eq (evs : List MEvent) : buildEventMap evs = ((evs.filter normalB).map keyed).reverse := by
  unfold buildEventMap
  rw [foldl_addEvent_eq, List.append_nil]

theorem buildEventMap_mem_of {evs : List MEvent} {e : MEvent} (he : e ∈ evs) (hn : normalB e = true) :
    (e.read.1, e) ∈ buildEventMap evs := by
  rw [buildEventMap_eq, List.mem_reverse, List.mem_map]
  exact ⟨e, List.mem_filter.mpr ⟨he, hn⟩, rfl⟩

theorem absent_eq : absentPosition = 2147483647 := by decide
theorem undefined_eq : undefinedRegion = (2147483648, 2147483648) := by decide

/-- a sentinel event stays a sentinel event -/
theorem normalB_mirrorS_of_not (n m : Nat) (e : MEvent) (h : normalB e = false) :
    normalB (mirrorMEventS n m e) = false := by
  unfold normalB at h ⊢
  unfold mirrorMEventS
  by_cases h1 : e.read = undefinedRegion
  · simp [h1]
  · by_cases h2 : e.read.1 = absentPosition
    · simp only [h1, h2, if_false, if_true]
      simp
    · simp [h1, h2] at h

theorem mirrorS_of_normal (n m : Nat) (e : MEvent) (h : normalB e = true) :
    mirrorMEventS n m e = mirrorMEvent n m e := by
  unfold normalB at h
  unfold mirrorMEventS
  by_cases h1 : e.read = undefinedRegion
  · simp [h1] at h
  · by_cases h2 : e.read.1 = absentPosition
    · simp [h1, h2] at h
    · simp [h1, h2]

/-- an in-range event of a read with fewer than 2³¹ introns is not mirrored onto a sentinel -/
theorem normalB_mirror_of_inrange (n m : Nat) (e : MEvent) (hsz : (n : Int) ≤ absentPosition)
    (hr : 0 ≤ e.read.1 ∧ e.read.1 < n ∧ 0 ≤ e.read.2 ∧ e.read.2 < n) : normalB (mirrorMEvent n m e) = true := by
  rw [absent_eq] at hsz
  unfold normalB mirrorMEvent mirrorIdx
  simp only [absent_eq, undefined_eq, Bool.and_eq_true, Bool.not_eq_true', decide_eq_false_iff_not, Prod.mk.injEq]
  constructor
  · intro h; omega
  · omega

/-- the event map of the mirrored event list = the mirrored event map, built in the opposite order -/
theorem buildEventMap_mirror (n m : Nat) (evs : List MEvent)
    (hns : ∀ e ∈ evs, normalB e = true → normalB (mirrorMEvent n m e) = true) :
    buildEventMap (mirrorEventList n m evs) = mirrorEmap n m (buildEventMap evs).reverse := by
  rw [buildEventMap_eq, buildEventMap_eq, List.reverse_reverse]
  unfold mirrorEventList mirrorEmap
  rw [List.filter_reverse, List.map_reverse, List.reverse_reverse, List.filter_map, List.map_map, List.map_map]
  have hfil : evs.filter (normalB ∘ mirrorMEventS n m) = evs.filter normalB := by
    apply List.filter_congr
    intro e he
    simp only [Function.comp]
    cases hb : normalB e with
    | false => exact normalB_mirrorS_of_not n m e hb
    | true => rw [mirrorS_of_normal n m e hb]; exact hns e he hb
  rw [hfil]
  apply List.map_congr_left
  intro e he
  have hb := (List.mem_filter.mp he).2
  simp only [Function.comp, keyed, mirrorS_of_normal n m e hb]
  rfl

theorem swapLR_micro (t : MatchEventSubtype) :
    swapLR t = MatchEventSubtype.fake_micro_intron_retention ↔ t = MatchEventSubtype.fake_micro_intron_retention := by
  rw [corr_swapLR_eq_iff]; rfl

/-- the micro bindings of the mirrored event list = `mirrorMicroMap` of the bindings (a `fake_micro_intron_retention`
    event names ONE isoform intron: `isoform_region = (i, i)`, junction_comparator.py) -/
theorem buildMicroMap_mirror (n m : Nat) (micro : Bool) (evs : List MEvent)
    (hns : ∀ e ∈ evs, normalB e = true → normalB (mirrorMEvent n m e) = true)
    (hsingle : ∀ e ∈ evs, e.read.1 = absentPosition → e.iso.1 = e.iso.2) :
    buildMicroMap micro (mirrorEventList n m evs) = mirrorMicroMap n m (buildMicroMap micro evs) := by
  unfold buildMicroMap mirrorEventList mirrorMicroMap
  rw [List.filterMap_reverse, List.filterMap_map, List.map_filterMap]
  congr 1
  apply filterMap_congr'
  intro e he
  simp only [Function.comp]
  by_cases h1 : e.read = undefinedRegion
  · simp [microEntry, mirrorMEventS, h1]
  · by_cases h2 : e.read.1 = absentPosition
    · have hs := hsingle e he h2
      have hne : ¬ ((absentPosition, (n : Int) - e.read.2) = undefinedRegion) := by
        rw [absent_eq, undefined_eq]; simp
      simp only [microEntry, mirrorMEventS, h1, h2, if_false, if_true, hne, true_and, mirrorIdx,
        corrector_micro_intron_test, swapLR_micro]
      split
      · simp only [Option.map_some, hs]
      · rfl
    · have hb : normalB e = true := by simp [normalB, h1, h2]
      have hb' := hns e he hb
      rw [mirrorS_of_normal n m e hb]
      have g1 : ¬ ((mirrorMEvent n m e).read = undefinedRegion) := by
        intro hc; simp [normalB, hc] at hb'
      have g2 : ¬ ((mirrorMEvent n m e).read.1 = absentPosition) := by
        intro hc; simp [normalB, hc] at hb'
      simp [microEntry, h1, h2, g1, g2]

/-! ### the loop reads the event map through `lookup` only -/

theorem eventLoop_congr_emap (p : CParams) (emap emap' : List (Int × MEvent)) (mm : List (Int × Int)) (rr : Iv)
    (ri corr : List Iv) (isoR : Iv) (isoI : List Iv) (h : ∀ i, emap.lookup i = emap'.lookup i) :
    ∀ (fuel : Nat) (i : Int) (reg : Iv) (acc : List Iv),
      eventLoop p emap mm rr ri corr isoR isoI fuel i reg acc = eventLoop p emap' mm rr ri corr isoR isoI fuel i reg acc := by
  intro fuel
  induction fuel with
  | zero => intro i reg acc; rfl
  | succ fuel ih =>
    intro i reg acc
    rw [eventLoop, eventLoop]
    simp only [h, ih]

theorem lookup_of_mem_nodup {m : List (Int × MEvent)} (hnd : (m.map (·.1)).Nodup) {k : Int} {e : MEvent}
    (h : (k, e) ∈ m) : m.lookup k = some e := by
  cases hl : m.lookup k with
  | none => exact absurd rfl (lookup_none_keys hl _ h)
  | some e' =>
    have := nodup_keys_eq hnd _ (lookup_mem hl) _ h rfl
    simp only [Prod.mk.injEq, true_and] at this
    rw [this]

theorem lookup_reverse {m : List (Int × MEvent)} (hnd : (m.map (·.1)).Nodup) (k : Int) :
    m.reverse.lookup k = m.lookup k := by
  have hnd' : (m.reverse.map (·.1)).Nodup := by rw [List.map_reverse]; exact nodup_reverse' hnd
  cases hl : m.lookup k with
  | none =>
    apply lookup_none_of_keys
    intro q hq
    exact lookup_none_keys hl q (List.mem_reverse.mp hq)
  | some e => exact lookup_of_mem_nodup hnd' (List.mem_reverse.mpr (lookup_mem hl))

/-- the order in which distinct keys were inserted does not matter -/
theorem processEvents_reverse (p : CParams) (err : Nat → Bool → Int × Int) (known : List Iv) (emap : List (Int × MEvent))
    (mm : List (Int × Int)) (rr : Iv) (ri : List Iv) (isoR : Iv) (isoI : List Iv) (hnd : (emap.map (·.1)).Nodup) :
    processEvents p err known emap.reverse mm rr ri isoR isoI = processEvents p err known emap mm rr ri isoR isoI := by
  simp only [processEvents, eventFuel, List.length_reverse]
  exact eventLoop_congr_emap p _ _ mm rr ri _ isoR isoI (lookup_reverse hnd) _ _ _ _

theorem emapWF_reverse {n m : Nat} {emap : List (Int × MEvent)} (h : EmapWF n m emap) : EmapWF n m emap.reverse := by
  obtain ⟨h1, h2, h3, h4, h5, h6⟩ := h
  refine ⟨by rw [List.map_reverse]; exact nodup_reverse' h1,
    fun q hq => h2 q (List.mem_reverse.mp hq),
    fun q hq q' hq' => h3 q (List.mem_reverse.mp hq) q' (List.mem_reverse.mp hq'),
    fun q hq => h4 q (List.mem_reverse.mp hq), ?_, ?_⟩
  · rw [List.filter_reverse, List.length_reverse]; exact h5
  · rw [List.filter_reverse, List.length_reverse]; exact h6

end IsoVerif.Lemmas.C11
