/-
Refinement lemmas for `truncate_read_to_polya` of Gen/Loops.lean.  Statements: Props/C19Gen.lean.
-/
import IsoVerif.Gen.Loops
import IsoVerif.Lemmas.GenBase

namespace IsoVerif.Lemmas.GenLoops
open IsoVerif.Gen IsoVerif.Model IsoVerif.Lemmas

/-! ### `truncate_read_to_polya` -/

theorem pySlice_eq {α} (l : List α) (a b : Int) : Gen.pySlice l a b = Model.pySlice l a b := rfl

/-- the part of `truncate_read_to_polya` after the two scans, as written in the hand model -/
def tfin (l : List Iv) (f t : Iv) (si sp ei ep : Int) : Option (List Iv) :=
  if sp = f.1 ∧ ep = t.2 then some l
  else if si = ei then some [(sp, ep)]
  else
    match pyGet? l si, pyGet? l ei with
    | some s, some e => some ((sp, s.2) :: Model.pySlice l (si + 1) ei ++ [(e.1, ep)])
    | _, _ => none

theorem truncate_after2 (l : List Iv) (f t : Iv) (hf : l.head? = some f) (ht : l.getLast? = some t)
    (pa pt ei ep si sp : Int) :
    truncate_read_to_polya.after2 l pa pt ei ep si sp = tfin l f t si sp ei ep := by
  unfold truncate_read_to_polya.after2 tfin
  simp only [pyIdx_zero, pyIdx_neg_one, hf, ht]
  simp only [pyIdx_eq_pyGet, pySlice_eq]
  by_cases h1 : sp = f.1 <;> by_cases h2 : ep = t.2 <;> by_cases h3 : si = ei <;>
    cases hA : pyGet? l si <;> cases hB : pyGet? l ei <;> simp_all

theorem truncate_loop2 (l : List Iv) (pa pt : Int) (fuel k : Nat) (ei ep sp : Int)
    (hk : k ≤ l.length) (hei : ei < (l.length : Int)) (hf : l.length + 1 ≤ fuel + k) :
    truncate_read_to_polya.loop2 l pa pt fuel ei ep (k : Int) sp
      = truncate_read_to_polya.after2 l pa pt ei ep (startIndexLoop pt ei (l.drop k) (k : Int)) sp := by
  induction fuel generalizing k with
  | zero => omega
  | succ fuel ih =>
    unfold truncate_read_to_polya.loop2
    by_cases hle : (k : Int) ≤ ei
    · have hlt : k < l.length := by omega
      have hx : l[k]? = some l[k] := List.getElem?_eq_getElem hlt
      have hd := drop_eq_cons_of_getElem l k _ hx
      have hc : ((k : Int) + 1) = ((k + 1 : Nat) : Int) := by omega
      simp only [hle, decide_true, if_true, pyIdx_natCast, hx, hd, startIndexLoop, hc]
      by_cases hgt : l[k].2 > pt
      · simp only [hgt, decide_true, if_true]
      · simp only [hgt, decide_false, Bool.false_eq_true, if_false]
        rw [ih (k + 1) (by omega) (by omega)]
    · simp only [hle, decide_false, Bool.false_eq_true, if_false]
      cases hd : l.drop k with
      | nil => simp [startIndexLoop]
      | cons x rest => simp [startIndexLoop, hle]

theorem truncate_loop3 (l : List Iv) (pa pt : Int) (fuel k : Nat) (ep : Int)
    (hk : k ≤ l.length) (hf : k + 1 ≤ fuel) :
    truncate_read_to_polya.loop3 l pa pt fuel ((k : Int) - 1) ep
      = truncate_read_to_polya.after1 l pa pt (endIndexLoop pa (l.take k).reverse ((k : Int) - 1)) ep := by
  induction fuel generalizing k with
  | zero => omega
  | succ fuel ih =>
    unfold truncate_read_to_polya.loop3
    cases k with
    | zero => simp [endIndexLoop, truncate_read_to_polya.after3]
    | succ k =>
      have hlt : k < l.length := by omega
      have hx : l[k]? = some l[k] := List.getElem?_eq_getElem hlt
      have hi : (((k + 1 : Nat) : Int) - 1) = (k : Int) := by omega
      have hge : (k : Int) ≥ 0 := by omega
      simp only [hi, pyIdx_natCast, hx, take_succ_reverse l k hlt, endIndexLoop, hge, decide_true, if_true,
        truncate_read_to_polya.after3]
      by_cases hc : l[k].1 < pa
      · simp only [hc, decide_true, if_true]
      · simp only [hc, decide_false, Bool.false_eq_true, if_false]
        rw [ih k (by omega) (by omega)]

theorem endIndexLoop_le (pa : Int) (rs : List Iv) :
    endIndexLoop pa rs ((rs.length : Int) - 1) ≤ (rs.length : Int) - 1 := by
  induction rs with
  | nil => simp [endIndexLoop]
  | cons r rs ih =>
    simp only [endIndexLoop, List.length_cons]
    by_cases h : r.1 < pa
    · simp [h]
    · simp only [h, if_false]
      have : (((rs.length + 1 : Nat) : Int) - 1 - 1) = (rs.length : Int) - 1 := by omega
      rw [this]; omega

theorem truncate_after1 (l : List Iv) (f t : Iv) (hf : l.head? = some f) (ht : l.getLast? = some t)
    (pa pt ei ep : Int) (hei : ei < (l.length : Int)) :
    truncate_read_to_polya.after1 l pa pt ei ep
      = tfin l f t (if pt != -1 then startIndexLoop pt ei l 0 else 0) (if pt != -1 then pt else f.1) ei ep := by
  unfold truncate_read_to_polya.after1
  simp only [pyIdx_zero, hf]
  by_cases hpt : pt = -1
  · subst hpt
    have := truncate_after2 l f t hf ht pa (-1) ei ep 0 f.1
    unfold truncate_read_to_polya.after2 at this
    simp only [pyIdx_zero, hf] at this
    simpa using this
  · have h1 : (pt != -1) = true := by simpa using hpt
    simp only [hpt, h1, ne_eq, not_false_eq_true, decide_true, if_true, truncate_read_to_polya.fuel2]
    have := truncate_loop2 l pa pt (l.length + 1) 0 ei ep pt (by omega) hei (by omega)
    simp only [Int.natCast_zero, List.drop_zero] at this
    rw [this, truncate_after2 l f t hf ht]

theorem truncate_read_to_polya_eq (l : List Iv) (pa pt : Int) :
    truncate_read_to_polya l pa pt = truncateReadToPolya l pa pt := by
  unfold truncate_read_to_polya truncateReadToPolya
  rw [pyIdx_neg_one]
  cases hh : l.head? with
  | none => cases l with
    | nil => rfl
    | cons a t => simp at hh
  | some f =>
    cases hl : l.getLast? with
    | none =>
      cases l with
      | nil => simp at hh
      | cons a t => simp at hl
    | some t =>
      simp only [pyLen]
      by_cases hpa : pa = -1
      · subst hpa
        have e1 : ((-1 : Int) != -1) = false := by decide
        have e2 : decide ((-1 : Int) ≠ -1) = false := by decide
        simp only [e1, e2, Bool.false_eq_true, if_false]
        rw [truncate_after1 l f t hh hl _ _ _ _ (by omega)]
        unfold tfin
        simp only [eq_self, and_true]
        rfl
      · have h1 : (pa != -1) = true := by simpa using hpa
        simp only [hpa, h1, ne_eq, not_false_eq_true, decide_true, if_true, truncate_read_to_polya.fuel3]
        have := truncate_loop3 l pa pt (l.length + 1) l.length pa (by omega) (by omega)
        simp only [List.take_length] at this
        rw [this]
        have hb := endIndexLoop_le pa l.reverse
        simp only [List.length_reverse] at hb
        rw [truncate_after1 l f t hh hl _ _ _ _ (by omega)]
        rfl

end IsoVerif.Lemmas.GenLoops
