/-
Driver ops of the C11 extension for Model/C11MonoNovel.lean (`construct_monoexon_novel` from the clusters on):
  X.mono_novel        {cutoff, storage, polya, polyt, variant: "fixed"|"buggy"} -> models added to the storage
  T.mirror_cluster    the transformation of a cluster (Python twin checked against it)
-/
import IsoVerif.Driver.Core
import IsoVerif.Model.C11MonoNovel

namespace IsoVerif.Driver.C11MonoNovel
open Lean IsoVerif.Driver IsoVerif.Gen IsoVerif.Model IsoVerif.Model.C11

def jMModel (j : Json) : Except String MModel := do
  pure { forward := ← jBool (← arg j "forward"), exons := ← jIvList (← arg j "exons") }

def ofMModel (m : MModel) : Json := Json.mkObj [("forward", Json.bool m.forward), ("exons", ofIvList m.exons)]

def jCluster (fw : Bool) (j : Json) : Except String Cluster := do
  pure { forward := fw, three := ← jInt (← arg j "three"), reads := ← jIvList (← arg j "reads") }

def ofCluster (c : Cluster) : Json :=
  Json.mkObj [("forward", Json.bool c.forward), ("three", ofInt c.three), ("reads", ofIvList c.reads)]

def ops : List (String × Handler) := [
  ("X.mono_novel", fun j => do
      let cutoff ← jNat (← arg j "cutoff")
      let st ← jList jMModel (← arg j "storage")
      let pa ← jList (jCluster true) (← arg j "polya")
      let pt ← jList (jCluster false) (← arg j "polyt")
      let variant ← jStr (← arg j "variant")
      let r := if variant == "buggy" then constructMonoNovelBuggy cutoff st pa pt else constructMonoNovel cutoff st pa pt
      pure (match r with
        | none => jErr "error"
        | some l => Json.arr ((l.drop st.length).map ofMModel).toArray)),
  ("T.mirror_cluster", fun j => do
      let L ← jInt (← arg j "L")
      let c ← jCluster (← jBool (← arg j "forward")) j
      pure (ofCluster (mirrorCluster L c))),
  ("T.mirror_mmodel", fun j => do
      let L ← jInt (← arg j "L")
      pure (ofMModel (mirrorModel L (← jMModel j))))
]

end IsoVerif.Driver.C11MonoNovel
