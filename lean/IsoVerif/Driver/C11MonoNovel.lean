/-
Driver ops of the C11 extension for Model/C11MonoNovel.lean (`construct_monoexon_novel` from the clusters on):
  X.mono_novel        {cutoff, storage, polya, polyt, variant: "fixed"|"buggy"} -> models added to the storage
  X.mono_votes        {reads: [{id, iv, polya, polyt}], variant: "fixed"|"shared"} -> ids of the reads entering the polyA / polyT clusters
  T.mirror_cluster / T.mirror_read   the transformations (Python twins checked against them)
-/
import IsoVerif.Driver.Core
import IsoVerif.Model.C11MonoNovel

namespace IsoVerif.Driver.C11MonoNovel
open Lean IsoVerif.Driver IsoVerif.Gen IsoVerif.Model IsoVerif.Model.C11

def jMModel (j : Json) : Except String MModel := do
  pure { forward := ← jBool (← arg j "forward"), exons := ← jIvList (← arg j "exons") }

def ofMModel (m : MModel) : Json := Json.mkObj [("forward", Json.bool m.forward), ("exons", ofIvList m.exons)]

def jCluster (fw : Bool) (j : Json) : Except String Cluster := do
  pure { forward := fw, three := ← jInt (← arg j "three"), reads := ← jIvList (← arg j "reads") }

def ofCluster (c : Cluster) : Json :=
  Json.mkObj [("forward", Json.bool c.forward), ("three", ofInt c.three), ("reads", ofIvList c.reads)]

def jMRead (j : Json) : Except String MRead := do
  pure { id := ← jNat (← arg j "id"), iv := ← jIv (← arg j "iv"), polyA := ← jInt (← arg j "polya"),
         polyT := ← jInt (← arg j "polyt") }

def ops : List (String × Handler) := [
  ("X.mono_novel", fun j => do
      let cutoff ← jNat (← arg j "cutoff")
      let st ← jList jMModel (← arg j "storage")
      let pa ← jList (jCluster true) (← arg j "polya")
      let pt ← jList (jCluster false) (← arg j "polyt")
      let variant ← jStr (← arg j "variant")
      let r := if variant == "buggy" then constructMonoNovelBuggy cutoff st pa pt else constructMonoNovel cutoff st pa pt
      pure (match r with
        | none => jErr "error"
        | some l => Json.arr ((l.drop st.length).map ofMModel).toArray)),
  ("X.mono_votes", fun j => do
      let rs ← jList jMRead (← arg j "reads")
      let variant ← jStr (← arg j "variant")
      let ids : List MRead → Json := fun l => Json.arr (l.map (fun r => ofNat r.id)).toArray
      pure (if variant == "shared" then
              Json.mkObj [("polya", ids (votersOfShared true rs)), ("polyt", ids (votersOfShared false rs))]
            else Json.mkObj [("polya", ids (votersOf true rs)), ("polyt", ids (votersOf false rs))])),
  ("T.mirror_read", fun j => do
      let L ← jInt (← arg j "L")
      let r := mirrorMRead L (← jMRead j)
      pure (Json.mkObj [("id", ofNat r.id), ("iv", ofIv r.iv), ("polya", ofInt r.polyA), ("polyt", ofInt r.polyT)])),
  ("T.mirror_cluster", fun j => do
      let L ← jInt (← arg j "L")
      let c ← jCluster (← jBool (← arg j "forward")) j
      pure (ofCluster (mirrorCluster L c))),
  ("T.mirror_mmodel", fun j => do
      let L ← jInt (← arg j "L")
      pure (ofMModel (mirrorModel L (← jMModel j))))
]

end IsoVerif.Driver.C11MonoNovel
