import IsoVerif.Driver.Core
import IsoVerif.Model.ContigSets

namespace IsoVerif.Driver.C05C
open Lean IsoVerif.Driver IsoVerif.Model.C05C

def jAln (j : Json) : Except String Aln := do
  pure { name := ← jNat (← arg j "name"), contig := ← jNat (← arg j "contig"), cat := ← jNat (← arg j "cat") }

def jRun (j : Json) : Except String Run := do
  pure { fastaKeys := ← jList jNat (← arg j "fasta"), header := ← jList jNat (← arg j "header"),
         alns := ← jList jAln (← arg j "alns") }

def ofAlns (l : List Aln) : Json := ofList (fun a => Json.arr #[ofNat a.name, ofNat a.contig, ofNat a.cat]) l

def ops : List (String × Handler) := [
  -- the records a run visits (repaired / pinned), what the repaired run announces as skipped, the log statistics
  ("collect_run", fun j => do
      let r ← jRun j
      let c := collectRun r
      pure (Json.mkObj [("fixed", ofAlns c),
                        ("orig", match collectRunOrig r with
                                 | none => jErr "error"
                                 | some l => ofAlns l),
                        ("skipped", ofAlns (skipped r)),
                        ("stats", ofNatList [statOf c 0, statOf c 1, statOf c 2])]))
]

end IsoVerif.Driver.C05C
