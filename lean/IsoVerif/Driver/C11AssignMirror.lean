/-
Driver ops of the C11 reflection theorems about the assigner model (Props/C11AssignMirror.lean).
  T.*   the transformations of Model/C11SymAssignMirror.lean (compared with the harness's Python twins each run)
  X.am_*  the model functions the relations are about, on RAW inputs (profiles / ranges / exon lists given directly, so
          that the harness can evaluate exactly the quantifier of the theorems, incl. ill-formed profile data), and the
          decidable hypotheses (`ElongWF ∧ HasCommon`, `PolyaMirrorOK`, `PolytMirrorOK`, `ReadEndsMirrorOK`).
-/
import IsoVerif.Driver.Core
import IsoVerif.Model.Assign
import IsoVerif.Model.C11Symmetry
import IsoVerif.Model.C11SymAssignMirror

namespace IsoVerif.Driver.C11AssignMirror
open Lean IsoVerif.Driver IsoVerif.Gen IsoVerif.Model IsoVerif.Model.C01 IsoVerif.Model.C11

def jStrand (j : Json) : Except String Strand := do
  let s ← jStr j
  pure (if s == "+" then Strand.plus else if s == "-" then Strand.minus else Strand.other)

def jResolve (j : Json) : Except String Resolve := do
  let s ← jStr j
  match s with
  | "none" => pure Resolve.none
  | "monoexon_only" => pure Resolve.monoexon_only
  | "monoexon_and_fsm" => pure Resolve.monoexon_and_fsm
  | "all" => pure Resolve.all
  | _ => throw s!"unknown resolve method {s}"

def jParams (j : Json) : Except String Params := do
  pure { delta := ← jInt (← arg j "delta"),
         minor_exon_extension := ← jInt (← arg j "minor_exon_extension"),
         major_exon_extension := ← jInt (← arg j "major_exon_extension"),
         min_abs_exon_overlap := ← jInt (← arg j "min_abs_exon_overlap"),
         apa_delta := ← jInt (← arg j "apa_delta"),
         minimal_exon_overlap := ← jInt (← arg j "minimal_exon_overlap"),
         minimal_intron_absence_overlap := ← jInt (← arg j "minimal_intron_absence_overlap"),
         max_fake_terminal_exon_len := ← jInt (← arg j "max_fake_terminal_exon_len"),
         max_missed_exon_len := ← jInt (← arg j "max_missed_exon_len"),
         resolve_ambiguous := ← jResolve (← arg j "resolve_ambiguous") }

def jPolyA (j : Json) : Except String PolyA := do
  let l ← jList jInt j
  match l with
  | [a, b, c, d] => pure { extA := a, extT := b, intA := c, intT := d }
  | _ => throw "polya: 4 ints expected"

def ofPolyA (pa : PolyA) : Json := ofIntList [pa.extA, pa.extT, pa.intA, pa.intT]

def jEventTy (j : Json) : Except String MatchEventSubtype := do
  let s ← jStr j
  match MatchEventSubtype.ofName? s with
  | some t => pure t
  | none => throw s!"unknown event {s}"

/-- event = [name, [iso0, iso1], [read0, read1], info] -/
def jEvent (j : Json) : Except String Event := do
  let a ← jArr j
  if a.size = 4 then
    pure { ty := ← jEventTy a[0]!, isoRegion := ← jIv a[1]!, readRegion := ← jIv a[2]!, info := ← jInt a[3]! }
  else throw "event: 4 fields expected"

def ofEvent (e : Event) : Json :=
  Json.arr #[ofStr e.ty.name, ofIv e.isoRegion, ofIv e.readRegion, ofInt e.info]

def ofEvents (l : List Event) : Json := ofList ofEvent l

def oEvents : Option (List Event) → Json
  | none => jErr "error"
  | some l => ofEvents l

def ofRat (r : Rat) : Json := ofIv (r.num, (r.den : Int))

def dummyIso (exons : List Iv) (strand : Strand) (splitProf : List Int) (splitRange : Int × Int) : IsoInfo :=
  { id := 0, exons := exons, introns := junctionsFromBlocks exons, region := (0, 0), strand := strand,
    intronProf := [], intronRange := (0, 0), splitProf := splitProf, splitRange := splitRange }

def dummyGene (split : List Iv) : Gene :=
  { start := 0, stop := 0, introns := [], exons := split, splitExons := split, isos := [] }

def dummyRead (blocks : List Iv) (gene : List Int) (range : Int × Int) (nIntrons : Nat) (pa : PolyA) : ReadProf :=
  { blocks := blocks, region := ((blocks.head?.map (·.1)).getD 0, (blocks.getLast?.map (·.2)).getD 0),
    introns := junctionsFromBlocks blocks,
    intron := { gene := [], read := List.replicate nIntrons 1, range := (0, 0) },
    split := { gene := gene, read := [], range := range }, polya := pa }

def rawIso (id : Nat) (exons : List Iv) (region : Iv) (intronProf splitProf : List Int) (splitRange : Int × Int) : IsoInfo :=
  { id := id, exons := exons, introns := junctionsFromBlocks exons, region := region, strand := .other,
    intronProf := intronProf, intronRange := (0, 0), splitProf := splitProf, splitRange := splitRange }

def rawGene (split : List Iv) (nIntr : Nat) (isos : List IsoInfo) : Gene :=
  { start := 0, stop := 0, introns := List.replicate nIntr (0, 0), exons := split, splitExons := split, isos := isos }

def rawRead (blocks : List Iv) (reg : Iv) (rip : List Int) (rir : Int × Int) (rsp : List Int) (rsr : Int × Int) : ReadProf :=
  { blocks := blocks, region := reg, introns := junctionsFromBlocks blocks,
    intron := { gene := rip, read := [], range := rir }, split := { gene := rsp, read := [], range := rsr },
    polya := { extA := -1, extT := -1, intA := -1, intT := -1 } }

def noPA : PolyA := { extA := -1, extT := -1, intA := -1, intT := -1 }

/-- raw input of `categorize_exon_elongation_subtype` -/
def jElong (j : Json) : Except String (Gene × ReadProf × IsoInfo) := do
  let split ← jIvList (← arg j "split")
  let ip ← jList jInt (← arg j "iso_profile")
  let ir ← jIv (← arg j "iso_range")
  let rpf ← jList jInt (← arg j "read_profile")
  let rr ← jIv (← arg j "read_range")
  let blocks ← jIvList (← arg j "blocks")
  pure (dummyGene split, dummyRead blocks rpf rr 0 noPA, dummyIso [] .other ip ir)

def ofSides : Option (List Event × List Event) → Json
  | none => jErr "error"
  | some s => Json.mkObj [("left", ofEvents s.1), ("right", ofEvents s.2)]

structure RawMatch where
  prof : List Int
  range : Int × Int
  nEx : Nat
  events : List Event

def jRawMatch (j : Json) : Except String RawMatch := do
  pure { prof := ← jList jInt (← arg j "iso_profile"), range := ← jIv (← arg j "iso_range"),
         nEx := ← jNat (← arg j "n_exons"), events := ← jList jEvent (← arg j "events") }

def jType (j : Json) : Except String ReadAssignmentType := do
  let s ← jStr j
  match ReadAssignmentType.ofName? s with
  | some t => pure t
  | none => throw s!"unknown type {s}"

def ops : List (String × Handler) := [
  -- transformations
  ("T.mirror_event", fun j => do
      let L ← jInt (← arg j "L"); let n ← jNat (← arg j "n"); let e ← jEvent (← arg j "event")
      pure (ofEvent (mirrorEvent L n e))),
  ("T.mirror_polya", fun j => do
      let L ← jInt (← arg j "L"); let pa ← jPolyA (← arg j "polya")
      pure (ofPolyA (mirrorPolyA L pa))),
  ("T.mirror_elong", fun j => do
      let L ← jInt (← arg j "L")
      let (g, rp, I) ← jElong j
      let g' := mirrorGene L g
      let rp' := mirrorReadProf L g rp
      let I' := mirrorIsoInfo L g.introns.length g.splitExons.length I
      pure (Json.mkObj [("split", ofIvList g'.splitExons), ("iso_profile", ofIntList I'.splitProf),
        ("iso_range", ofIv I'.splitRange), ("read_profile", ofIntList rp'.split.gene), ("read_range", ofIv rp'.split.range),
        ("blocks", ofIvList rp'.blocks)])),
  -- hypotheses
  ("X.am_elong_ok", fun j => do
      let (g, rp, I) ← jElong j
      pure (Json.mkObj [("wf", ofBool (decide (ElongWF g rp I))), ("common", ofBool (decide (HasCommon rp I)))])),
  ("X.am_polya_ok", fun j => do
      let L ← jInt (← arg j "L")
      let iso ← jIvList (← arg j "iso"); let read ← jIvList (← arg j "read")
      let pa ← jPolyA (← arg j "polya"); let evs ← jList jEvent (← arg j "events")
      pure (Json.mkObj [
        ("a", ofBool (decide (PolyaMirrorOK L iso read pa.extA pa.intA (countTy evs .fake_terminal_exon_right)))),
        ("t", ofBool (decide (PolytMirrorOK L iso read pa.extT pa.intT (countTy evs .fake_terminal_exon_left))))])),
  ("X.am_read_ends_ok", fun j => do
      let L ← jInt (← arg j "L")
      let iso ← jIvList (← arg j "iso"); let read ← jIvList (← arg j "read")
      let pa ← jPolyA (← arg j "polya"); let evs ← jList jEvent (← arg j "events")
      let s ← jStrand (← arg j "strand")
      pure (ofBool (decide (ReadEndsMirrorOK L (dummyRead read [] (0, 0) 0 pa) (dummyIso iso s [] (0, 0)) evs)))),
  -- classification tables, penalty
  ("X.am_classify_assignment", fun j => do
      let ms ← jList (jList jEvent) (← arg j "ms")
      pure (ofStr (classifyAssignment ms).name)),
  ("X.am_inconsistency_cls", fun j => do
      let evs ← jList jEvent (← arg j "events")
      pure (ofStr (inconsistencyClassification evs).name)),
  ("X.am_mono_exon_cls", fun j => do
      let evs ← jList jEvent (← arg j "events")
      match monoExonClassification evs with
      | none => pure (jErr "error")
      | some c => pure (ofStr c.name)),
  ("X.am_penalty", fun j => do
      let p ← jParams (← arg j "params"); let evs ← jList jEvent (← arg j "events")
      match penaltyOf p evs with
      | none => pure (jErr "error")
      | some r => pure (ofRat r)),
  -- elongation, check_read_ends
  ("X.am_elongation", fun j => do
      let p ← jParams (← arg j "params")
      let (g, rp, I) ← jElong j
      pure (ofSides (elongSides g p rp I))),
  ("X.am_check_read_ends", fun j => do
      let p ← jParams (← arg j "params")
      let split ← jIvList (← arg j "split")
      let rpf ← jList jInt (← arg j "read_profile"); let rr ← jIv (← arg j "read_range")
      let blocks ← jIvList (← arg j "blocks")
      let ms ← jList jRawMatch (← arg j "matches")
      let ty ← jType (← arg j "type")
      let g := dummyGene split
      let rp := dummyRead blocks rpf rr 0 noPA
      let pairs : List (IsoInfo × IsoMatch) := ms.map (fun m =>
        (dummyIso (List.replicate m.nEx (0, 0)) .other m.prof m.range,
         ({ iso := some 0, cls := .undefined, events := m.events } : IsoMatch)))
      match checkReadEnds g p rp pairs ty with
      | none => pure (jErr "error")
      | some (r, t) =>
        pure (Json.mkObj [("type", ofStr t.name),
          ("matches", ofList (fun (x : (IsoInfo × IsoMatch) × RawMatch) =>
              Json.mkObj [("events", ofEvents x.1.2.events), ("base", ofEvents x.2.events),
                          ("sides", ofSides (elongSides g p rp x.1.1))]) (r.zip ms))])),
  -- polyA / polyT
  ("X.am_shift_polya", fun j => do
      let ex ← jIvList (← arg j "exons"); let c ← jNat (← arg j "count"); let pos ← jInt (← arg j "pos")
      pure (match C01.shiftPolya ex c pos with | none => jErr "error" | some r => ofInt r)),
  ("X.am_shift_polyt", fun j => do
      let ex ← jIvList (← arg j "exons"); let c ← jNat (← arg j "count"); let pos ← jInt (← arg j "pos")
      pure (match C01.shiftPolyt ex c pos with | none => jErr "error" | some r => ofInt r)),
  ("X.am_check_if_close", fun j => do
      let p ← jParams (← arg j "params")
      let stop ← jInt (← arg j "stop"); let ext ← jInt (← arg j "ext"); let int ← jInt (← arg j "int")
      let evs ← jList jEvent (← arg j "events"); let ty ← jEventTy (← arg j "ty")
      pure (match checkIfClose p stop ext int evs ty with | none => Json.null | some r => ofEvents r)),
  ("X.am_detect_beyond", fun j => do
      let p ← jParams (← arg j "params"); let iso ← jIvList (← arg j "iso")
      let ext ← jInt (← arg j "ext"); let int ← jInt (← arg j "int"); let evs ← jList jEvent (← arg j "events")
      pure (match detectBeyondPolya p iso ext int evs with
        | none => jErr "error"
        | some r => Json.arr #[ofEvents r.1, ofInt r.2.1, ofInt r.2.2])),
  ("X.am_detect_before", fun j => do
      let p ← jParams (← arg j "params"); let iso ← jIvList (← arg j "iso")
      let ext ← jInt (← arg j "ext"); let int ← jInt (← arg j "int"); let evs ← jList jEvent (← arg j "events")
      pure (match detectBeforePolyt p iso ext int evs with
        | none => jErr "error"
        | some r => Json.arr #[ofEvents r.1, ofInt r.2.1, ofInt r.2.2])),
  ("X.am_check_internal", fun j => do
      let pos ← jInt (← arg j "pos"); let evs ← jList jEvent (← arg j "events"); let w ← jStr (← arg j "which")
      let r := if w == "a" then checkInternal pos evs .incomplete_intron_retention_right .internal_polya_right
               else checkInternal pos evs .incomplete_intron_retention_left .internal_polya_left
      pure (Json.arr #[ofEvents r.1, ofBool r.2])),
  ("X.am_verify_polya", fun j => do
      let p ← jParams (← arg j "params"); let iso ← jIvList (← arg j "iso"); let read ← jIvList (← arg j "read")
      let pa ← jPolyA (← arg j "polya"); let evs ← jList jEvent (← arg j "events")
      pure (oEvents (verifyPolya p iso read pa evs))),
  ("X.am_verify_polyt", fun j => do
      let p ← jParams (← arg j "params"); let iso ← jIvList (← arg j "iso"); let read ← jIvList (← arg j "read")
      let pa ← jPolyA (← arg j "polya"); let evs ← jList jEvent (← arg j "events")
      pure (oEvents (verifyPolyt p iso read pa evs))),
  ("X.am_verify_read_ends", fun j => do
      let p ← jParams (← arg j "params"); let iso ← jIvList (← arg j "iso"); let read ← jIvList (← arg j "read")
      let pa ← jPolyA (← arg j "polya"); let evs ← jList jEvent (← arg j "events")
      let s ← jStrand (← arg j "strand")
      pure (oEvents (verifyReadEnds p (dummyRead read [] (0, 0) 0 pa) (dummyIso iso s [] (0, 0)) evs))),
  -- profile comparison, select_similar_isoforms
  ("X.am_has_overlapping", fun j => do
      let p1 ← jList jInt (← arg j "p1"); let p2 ← jList jInt (← arg j "p2"); let r ← jIv (← arg j "range")
      pure (match hasOverlappingFeatures p1 p2 r with | none => jErr "error" | some b => ofBool b)),
  ("X.am_difference", fun j => do
      let p1 ← jList jInt (← arg j "p1"); let p2 ← jList jInt (← arg j "p2"); let r ← jIv (← arg j "range")
      pure (match differenceInPresentFeatures p1 p2 r with | none => jErr "error" | some b => ofInt b)),
  ("X.am_select_similar", fun j => do
      let p ← jParams (← arg j "params")
      let split ← jIvList (← arg j "split"); let nIntr ← jNat (← arg j "n_introns")
      let blocks ← jIvList (← arg j "blocks")
      let rsp ← jList jInt (← arg j "read_split_profile"); let rsr ← jIv (← arg j "read_split_range")
      let rip ← jList jInt (← arg j "read_intron_profile"); let rir ← jIv (← arg j "read_intron_range")
      let isos ← jList (fun ij => do
          let ex ← jIvList (← arg ij "exons")
          let sp ← jList jInt (← arg ij "split_profile"); let sr ← jIv (← arg ij "split_range")
          let ip ← jList jInt (← arg ij "intron_profile")
          pure (ex, sp, sr, ip)) (← arg j "isos")
      match regionOf blocks with
      | none => pure (jErr "error")
      | some reg =>
        let infos : List (Option IsoInfo) := isos.zipIdx.map (fun x =>
          (regionOf x.1.1).map (fun r => rawIso x.2 x.1.1 r x.1.2.2.2 x.1.2.1 x.1.2.2.1))
        match mapOpt id infos with
        | none => pure (jErr "error")
        | some is =>
          let g := rawGene split nIntr is
          let rp := rawRead blocks reg rip rir rsp rsr
          pure (match selectSimilar g p rp with
            | none => jErr "error"
            | some l => ofNatList (l.map (·.id)))),
  -- candidate selection: per isoform (exon list) against one read
  ("X.am_candidates", fun j => do
      let p ← jParams (← arg j "params")
      let blocks ← jIvList (← arg j "blocks")
      let isos ← jList jIvList (← arg j "isos")
      match regionOf blocks with
      | none => pure (jErr "error")
      | some reg =>
        let rp : ReadProf := { dummyRead blocks [] (0, 0) (junctionsFromBlocks blocks).length noPA with region := reg }
        pure (ofList (fun (ex : List Iv) =>
          match regionOf ex with
          | none => jErr "error"
          | some r =>
            let I : IsoInfo := { dummyIso ex .other [] (0, 0) with region := r }
            let oB : Option Bool → Json := fun o => match o with | none => jErr "error" | some b => ofBool b
            let oR : Option Rat → Json := fun o => match o with | none => jErr "error" | some b => ofRat b
            Json.mkObj [("contains", ofBool (!(findContaining p rp [I]).isEmpty)),
              ("fsm", oB (isFsm rp I)),
              ("ism", match detectIsmSubtype rp I with | none => jErr "error" | some t => ofStr t.name),
              ("splice", match categorizeSplice rp I with
                | none => jErr "error"
                | some ce => Json.arr #[ofStr ce.1.name, ofStr ce.2.ty.name]),
              ("jaccard", oR (jaccardScore p rp I)), ("coverage", oR (coverageScore p rp I))]) isos))
]

end IsoVerif.Driver.C11AssignMirror
