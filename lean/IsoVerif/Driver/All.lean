import IsoVerif.Driver.Core
import IsoVerif.Driver.Gen
import IsoVerif.Driver.C19

namespace IsoVerif.Driver

def prefixOps (p : String) (l : List (String × Handler)) : List (String × Handler) :=
  l.map (fun (k, h) => (p ++ "." ++ k, h))

def allOps : List (String × Handler) :=
  prefixOps "Gen" GenOps.ops
  ++ prefixOps "C19" C19.ops

end IsoVerif.Driver
