import IsoVerif.Driver.Core
import IsoVerif.Driver.Gen
import IsoVerif.Gen.LoopsOps
import IsoVerif.Gen.LoopsCigarOps
import IsoVerif.Driver.C19
import IsoVerif.Driver.C17
import IsoVerif.Driver.C18
import IsoVerif.Driver.C13
import IsoVerif.Driver.C14
import IsoVerif.Driver.C15
import IsoVerif.Driver.C15Print
import IsoVerif.Driver.C02
import IsoVerif.Driver.C20
import IsoVerif.Driver.C06
import IsoVerif.Driver.C05
import IsoVerif.Driver.C05Multi
import IsoVerif.Driver.C05Contigs
import IsoVerif.Driver.C05Names
import IsoVerif.Driver.C10
import IsoVerif.Driver.C09
import IsoVerif.Driver.C08
import IsoVerif.Driver.C03
import IsoVerif.Driver.C03Text
import IsoVerif.Driver.C03Ref
import IsoVerif.Driver.C16
import IsoVerif.Driver.C12
import IsoVerif.Driver.C12Ids
import IsoVerif.Driver.C07
import IsoVerif.Driver.C11
import IsoVerif.Driver.C01
import IsoVerif.Driver.C04
import IsoVerif.Driver.C04Sim
import IsoVerif.Driver.C04Split

namespace IsoVerif.Driver

def prefixOps (p : String) (l : List (String × Handler)) : List (String × Handler) :=
  l.map (fun (k, h) => (p ++ "." ++ k, h))

def allOps : List (String × Handler) :=
  prefixOps "Gen" GenOps.ops
  ++ prefixOps "Gen" GenLoopsOps.ops
  ++ prefixOps "Gen" GenLoopsCigarOps.ops
  ++ prefixOps "C19" C19.ops
  ++ prefixOps "C17" C17.ops
  ++ prefixOps "C18" C18.ops
  ++ prefixOps "C13" C13.ops
  ++ prefixOps "C14" C14.ops
  ++ prefixOps "C15" C15.ops
  ++ prefixOps "C15" C15Print.ops
  ++ prefixOps "C02" C02.ops
  ++ prefixOps "C20" C20.ops
  ++ prefixOps "C06" C06.ops
  ++ prefixOps "C05" C05.ops
  ++ prefixOps "C05M" C05Multi.ops
  ++ prefixOps "C05C" C05C.ops
  ++ prefixOps "C05N" C05N.ops
  ++ prefixOps "C10" C10.ops
  ++ prefixOps "C09" C09.ops
  ++ prefixOps "C08" C08.ops
  ++ prefixOps "C03" C03.ops
  ++ prefixOps "C03T" C03T.ops
  ++ prefixOps "C03R" C03R.ops
  ++ prefixOps "C16" C16.ops
  ++ prefixOps "C12" C12.ops
  ++ prefixOps "C12I" C12I.ops
  ++ prefixOps "C07" C07.ops
  ++ prefixOps "C11" C11.ops
  ++ prefixOps "C01" C01.ops
  ++ prefixOps "C04" C04.ops
  ++ prefixOps "C04" C04Sim.ops
  ++ prefixOps "C04" C04Split.ops

end IsoVerif.Driver
