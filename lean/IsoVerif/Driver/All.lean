import IsoVerif.Driver.Core
import IsoVerif.Driver.Gen
import IsoVerif.Driver.C19
import IsoVerif.Driver.C17
import IsoVerif.Driver.C18

namespace IsoVerif.Driver

def prefixOps (p : String) (l : List (String × Handler)) : List (String × Handler) :=
  l.map (fun (k, h) => (p ++ "." ++ k, h))

def allOps : List (String × Handler) :=
  prefixOps "Gen" GenOps.ops
  ++ prefixOps "C19" C19.ops
  ++ prefixOps "C17" C17.ops
  ++ prefixOps "C18" C18.ops

end IsoVerif.Driver
