/-
Driver ops of the C11 extension for the alignment-level models (Model/Cigar.lean, Model/PolyA.lean, Model/PolyAFinder.lean):
only the TRANSFORMATIONS (`T.*`) — the model functions themselves are reached through the C16 driver ops; the harness
(props/c11x_cigar.py, c11x_polya.py) compares its Python twins of these transformations with the Lean definitions the
theorems are stated with.  Core Lean only.
-/
import IsoVerif.Driver.Core
import IsoVerif.Driver.C16
import IsoVerif.Model.C11Symmetry
import IsoVerif.Model.C11SymPolyA
import IsoVerif.Model.C11SymStrand

namespace IsoVerif.Driver.C11Align
open Lean IsoVerif.Driver IsoVerif.Gen IsoVerif.Model IsoVerif.Model.C11

def jAInfo (j : Json) : Except String C16.AInfo := do
  pure { exons := ← jIvList (← arg j "exons"), readBlocks := ← jIvList (← arg j "read_blocks"),
         cigarBlocks := ← jIvList (← arg j "cigar_blocks"), info := ← IsoVerif.Driver.C16.jInfo (← arg j "info"),
         exonsChanged := ← jBool (← arg j "changed"), readStart := ← jInt (← arg j "read_start"),
         readEnd := ← jInt (← arg j "read_end") }

def ops : List (String × Handler) := [
  -- 0-based start of the reverse-complemented read on the reverse-complemented chromosome, and the `L` of its read blocks
  ("T.mirror_start", fun j => do
      match ← IsoVerif.Driver.C16.jCigar (← arg j "cigar") with
      | none => pure (jErr "error")
      | some c =>
        let L ← jInt (← arg j "L"); let s ← jInt (← arg j "s")
        pure (Json.mkObj [("start", ofInt (L - s - C16.refLen c)), ("read_L", ofInt (C16.queryLen c - 2))])),
  ("T.shift_info", fun j => do
      pure (IsoVerif.Driver.C16.ofInfo (shiftInfo (← jInt (← arg j "k")) (← IsoVerif.Driver.C16.jInfo (← arg j "info"))))),
  ("T.mirror_info", fun j => do
      pure (IsoVerif.Driver.C16.ofInfo (mirrorInfo (← jInt (← arg j "L")) (← IsoVerif.Driver.C16.jInfo (← arg j "info"))))),
  ("T.shift_ainfo", fun j => do
      pure (IsoVerif.Driver.C16.ofAInfo (some (shiftAInfoBy (← IsoVerif.Driver.C16.jInfo (← arg j "orig")) (← jInt (← arg j "k"))
        (← jAInfo (← arg j "st")))))),
  ("T.mirror_ainfo", fun j => do
      pure (IsoVerif.Driver.C16.ofAInfo (some (mirrorAInfoBy (← IsoVerif.Driver.C16.jInfo (← arg j "orig")) (← jInt (← arg j "L"))
        (← jAInfo (← arg j "st")))))),
  ("T.mirror_strand_info", fun j => do
      let o ← arg j "read"
      let strandOf : String → Except String C18.Strand := fun s =>
        if s == "+" then pure .plus else if s == "-" then pure .minus else if s == "." then pure .dot else throw "strand"
      let ra : C18.ReadStrandInfo := {
        matchStrands := ← (← jList jStr (← arg o "matches")).mapM strandOf, atype := ← jStr (← arg o "atype"),
        extPolyA := ← jInt (← arg o "epa"), intPolyA := ← jInt (← arg o "ipa"),
        extPolyT := ← jInt (← arg o "ept"), intPolyT := ← jInt (← arg o "ipt"),
        nExons := ← jNat (← arg o "nexons"), correctedIntrons := ← jIvList (← arg o "introns") }
      let r := mirrorStrandInfo (← jInt (← arg j "L")) ra
      pure (Json.mkObj [("matches", ofList (fun s => ofStr s.toStr) r.matchStrands), ("atype", ofStr r.atype),
        ("epa", ofInt r.extPolyA), ("ipa", ofInt r.intPolyA), ("ept", ofInt r.extPolyT), ("ipt", ofInt r.intPolyT),
        ("nexons", ofNat r.nExons), ("introns", ofIvList r.correctedIntrons)])),
  ("T.shift_pos_by", fun j => do
      pure (ofInt (shiftPosBy (← jInt (← arg j "orig")) (← jInt (← arg j "k")) (← jInt (← arg j "p"))))),
  ("T.mirror_pos_by", fun j => do
      pure (ofInt (mirrorPosBy (← jInt (← arg j "orig")) (← jInt (← arg j "L")) (← jInt (← arg j "p")))))
]

end IsoVerif.Driver.C11Align
