import IsoVerif.Driver.Core
import IsoVerif.Driver.C04
import IsoVerif.Model.ChromosomeModels
import IsoVerif.Model.ChainAssigner

/-! driver ops of the C04 growth "the constructors of one chromosome task" (registered under the prefix `C04.`) -/
namespace IsoVerif.Driver.C04Split
open Lean IsoVerif.Driver IsoVerif.Gen IsoVerif.Model IsoVerif.Model.C04 IsoVerif.Driver.C04

def jChainKey (j : Json) : Except String ChainKey := do
  let a ← jArr j
  pure (← jStrand a[0]!, ← jIvList a[1]!)

def ofChainKey (k : ChainKey) : Json := Json.arr #[ofStr k.1.toString, ofIvList k.2]

def jCluster (x : Json) : Except String MonoCluster := do
  let rd (y : Json) : Except String (String × Int × Int) := do
    let a ← jArr y
    pure (← jStr a[0]!, ← jInt a[1]!, ← jInt a[2]!)
  pure { threePrime := ← jInt (← arg x "three_prime"), reads := ← jList rd (← arg x "reads") }

def jAOp (j : Json) : Except String AOp := do
  let a ← jArr j
  let k ← jStr a[0]!
  let x := a[1]!
  match k with
  | "known" => pure (.known (← jStr (← arg x "ref")) (← jTModel (← arg x "m")) (← jList jStr (← arg x "reads")))
  | "mono" => pure (.mono (← jBool (← arg x "forward")) (← jList jCluster (← arg x "clusters")))
  | _ => throw s!"unknown aop {k}"

/-- `null` (no read of the record has exons) or `[reads_start, reads_end]` -/
def jSpan (j : Json) : Except String (Option (Int × Int)) :=
  match j with
  | .null => pure none
  | _ => do
    let a ← jArr j
    pure (some (← jInt a[0]!, ← jInt a[1]!))

/-- one record of the chromosome; the heuristic answers (what the `detect_similar_isoforms` stub returned for the whole and for
    the pre-filtered storage, coverage terms, assigner answers, joined gene ids) are the ones recorded on the real run -/
def jRegion (j : Json) : Except String RegionIn := do
  let tbl ← jList (jPair jIv jStrand) (← arg j "sd")
  let mapq ← jList (jPair jStr jInt) (← arg j "mapq")
  let sub1 ← jList jStr (← arg j "sub1")
  let sub2 ← jList jStr (← arg j "sub2")
  let n1 ← jNat (← arg j "n1")
  let cov ← jList (jPair jStr jInt) (← arg j "cov_term")
  let genes ← jList (jPair jStr jStr) (← arg j "genes")
  pure { env := ← jEnv (← arg j "env"), sd := sdOf tbl, paths := ← jList jPathIn (← arg j "paths"),
         aops := ← jList jAOp (← arg j "aops"),
         fp := ⟨← jInt (← arg j "min_novel_count"), ← jInt (← arg j "mapq_cutoff")⟩,
         mapq := mapqOf mapq,
         similar := fun ms => some (if ms.length = n1 then sub1 else sub2),
         post := fun _ m => some m,
         covTerm := fun m => (amGet? cov m.tid).getD 0,
         ins1 := ← jList jAssignIn (← arg j "ins1"), ins2 := ← jList jAssignIn (← arg j "ins2"),
         newGene := fun m => (amGet? genes m.tid).getD m.gene,
         span := ← jSpan (← arg j "span") }

def keyLe (a b : ChainKey) : Bool :=
  if a.1 = b.1 then pathLexLe a.2 b.2 else decide (a.1.toString ≤ b.1.toString)

def jChainEntry (j : Json) : Except String (ChainKey × String) := do
  let a ← jArr j
  pure (← jChainKey a[0]!, ← jStr a[1]!)

def ofChainEntry (p : ChainKey × String) : Json := Json.arr #[ofChainKey p.1, ofStr p.2]

def entryLe (a b : ChainKey × String) : Bool := keyLe a.1 b.1

/-- an entry of the current dict: `[[strand, chain], model]` -/
def jModelEntry (j : Json) : Except String (ChainKey × TModel) := do
  let a ← jArr j
  pure (← jChainKey a[0]!, ← jTModel a[1]!)

/-- compared as (key, id of the model, its exons) -/
def ofModelEntry (p : ChainKey × TModel) : Json := Json.arr #[ofChainKey p.1, ofStr p.2.tid, ofIvList p.2.exons]

def mentryLe (a b : ChainKey × TModel) : Bool := keyLe a.1 b.1

def jRepair (j : Json) : Except String Repair := do
  match ← jStr j with
  | "orig" => pure .none
  | "b2b4dd9" => pure .dropOnly
  | "0c8e711" => pure .renameCopy
  | "join" => pure .joinEarlier
  | v => throw s!"unknown variant {v}"

def ofRegion (s : Store) : Json :=
  Json.mkObj [("store", ofStore s),
              ("r2t", ofList (fun p : String × String => Json.arr #[ofStr p.1, ofStr p.2]) s.dumpR2T)]

def ops : List (String × Handler) := [
  ("chr_run", fun j => do
      let forb ← jList jNat (← arg j "forbidden")
      let st ← arg j "state"
      let cs : ChrState := { detected := ← jList jStr (← arg st "detected"), idv := ← jNat (← arg st "idv"),
                             reported := ← jList jModelEntry (← arg st "reported") }
      let regs ← jList jRegion (← arg j "regions")
      let repaired ← jRepair (← arg j "variant")
      match runChromosome repaired (nextId forb (forb.length + 1)) regs cs [] with
      | none => pure (jErr "error")
      | some (cs', reps) =>
        pure (Json.mkObj [("detected", ofList ofStr cs'.detected), ("idv", ofNat cs'.idv),
                          ("reported", ofList ofModelEntry (cs'.reported.mergeSort mentryLe)),
                          ("regions", ofList ofRegion reps)])),
  -- the step of fix b2b4dd9 (kept as a variant): a repeated chain is deleted
  ("drop_reported", fun j => do
      let s ← jStore (← arg j "store")
      let rep ← jList jChainKey (← arg j "reported")
      match s.dropReported rep with
      | none => pure (jErr "error")
      | some (s', rep') => pure (Json.mkObj [("store", ofStore s'), ("reported", ofList ofChainKey (rep'.mergeSort keyLe))])),
  -- the current `drop_novel_chains_reported_elsewhere(read_assignment_storage)`: storage after the call (kept models + copies of
  -- the earlier models), the ids of the models that will be dumped, the new dict
  ("drop_join", fun j => do
      let s ← jStore (← arg j "store")
      let rep ← jList jModelEntry (← arg j "reported")
      let span ← jSpan (← arg j "span")
      match s.dropJoin rep span with
      | none => pure (jErr "error")
      | some (s', final, rep') =>
        pure (Json.mkObj [("store", ofStore s'), ("final", ofList ofStr (final.map (·.tid))),
                          ("reported", ofList ofModelEntry (rep'.mergeSort mentryLe))])),
  -- the step of fix 0c8e711 (kept as a variant): storage after the call (local copies under the first id), the ids of
  -- `repeated_chain_models`, the models that will be dumped, the new dict
  ("drop_keep", fun j => do
      let s ← jStore (← arg j "store")
      let rep ← jList jChainEntry (← arg j "reported")
      match s.dropKeep rep with
      | none => pure (jErr "error")
      | some (s', final, rep') =>
        pure (Json.mkObj [("store", ofStore s'), ("final", ofList ofStr (final.map (·.tid))),
                          ("reported", ofList ofChainEntry (rep'.mergeSort entryLe))])),
  -- closure `p04chain`: `assign_reads_to_models` with the assigner's answers given by POSITION in the storage (recorded on a run of
  -- the real assigner over the same contents under OTHER transcript / gene ids): `insOf` of the table
  ("assign_content", fun j => do
      let s ← jStore (← arg j "store")
      let ans ← jList (fun x => do
          pure ((← jStr (← arg x "read")), (⟨← jBool (← arg x "consistent"), ← jList jNat (← arg x "matched")⟩ : CAns)))
        (← arg j "answers")
      let A : CAssigner := fun r _ => (amGet? ans r).getD ⟨false, []⟩
      let s' := s.assignReads (insOf A (ans.map (·.1)) s.models)
      pure (ofRegion s'))
]

end IsoVerif.Driver.C04Split
