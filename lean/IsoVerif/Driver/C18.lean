import IsoVerif.Driver.Core
import IsoVerif.Model.Canonical

namespace IsoVerif.Driver.C18
open Lean IsoVerif.Driver IsoVerif.Gen IsoVerif.Model IsoVerif.Model.C18

def jStrand (j : Json) : Except String Strand := do
  match (← jStr j) with
  | "+" => pure .plus
  | "-" => pure .minus
  | "." => pure .dot
  | s => throw s!"strand expected, got {s}"

def jSeq (j : Json) : Except String Seq := do pure (← jStr j).toList

def ofStrand (s : Strand) : Json := ofStr s.toStr
def ofChars (l : List Char) : Json := ofStr (String.ofList l)
def ofSite (p : Site) : Json := Json.arr #[ofChars p.1, ofChars p.2]
def ofStrandDict (σ : StrandDict) : Json := ofList (fun e => Json.arr #[ofIv e.1, ofStrand e.2]) σ
def ofCanonMemo (σ : CanonMemo) : Json :=
  ofList (fun e => Json.arr #[ofIv e.1.1, ofStrand e.1.2, ofBool e.2]) σ
def ofCounts (c : Nat × Nat) : Json := Json.arr #[ofNat c.1, ofNat c.2]

def jReadSpan (j : Json) : Except String ReadSpan := do
  pure { exons := ← jIvList (← arg j "exons"), correctedExons := ← jIvList (← arg j "cexons") }

/-- `{"seq", "start"}`: the region string itself; `{"chrom", "start", "end"}`: through `set_reference_sequence`;
    with `"kept"` (the kept read assignments of the region): through the loader of the second pass (`loadRegion`) -/
def jGeneRef (j : Json) : Except String GeneRef := do
  match j.getObjVal? "chrom" with
  | .ok c =>
    match j.getObjVal? "kept" with
    | .ok rs =>
      let flank ← match j.getObjVal? "flank" with
        | .ok f => jInt f
        | .error _ => pure 0
      pure (loadRegion (← jSeq c) (← jInt (← arg j "start"), ← jInt (← arg j "end")) (← jList jReadSpan rs) flank).1
    | .error _ => pure (setReferenceSequence (← jSeq c) (← jInt (← arg j "start")) (← jInt (← arg j "end"))).1
  | .error _ => pure { refRegion := ← jSeq (← arg j "seq"), start := ← jInt (← arg j "start") }

/-- one operation on a `StrandDetector`; returns the observable result and the new dict -/
def detOp (seq : Seq) (σ : StrandDict) (j : Json) : Except String (Json × StrandDict) := do
  match (← jStr (← arg j "k")) with
  | "set" =>
    let it ← jIv (← arg j "intron")
    let st ← jOpt jStrand (← arg j "strand")
    pure (Json.null, setStrand seq σ it st)
  | "count" =>
    let r := countCanonicalSites seq (← jIvList (← arg j "introns")) σ
    pure (ofCounts r.1, r.2)
  | "clean" =>
    let r := getCleanStrand seq (← jIvList (← arg j "introns")) σ
    pure (ofStrand r.1, r.2)
  | "strand" =>
    let r := detGetStrand seq (← jIvList (← arg j "introns")) (← jBool (← arg j "pa")) (← jBool (← arg j "pt")) σ
    pure (ofStrand r.1, r.2)
  | "read" =>
    let ra : ReadStrandInfo := {
      matchStrands := ← jList jStrand (← arg j "matches"), atype := ← jStr (← arg j "atype"),
      extPolyA := ← jInt (← arg j "epa"), intPolyA := ← jInt (← arg j "ipa"),
      extPolyT := ← jInt (← arg j "ept"), intPolyT := ← jInt (← arg j "ipt"),
      nExons := ← jNat (← arg j "nexons"), correctedIntrons := ← jIvList (← arg j "introns") }
    let r := getAssignmentStrand seq ra σ
    pure (ofStrand r.1, r.2)
  | "novel" =>
    let lvl ← match (← jStr (← arg j "level")) with
      | "only_canonical" => pure ReportLevel.only_canonical
      | "only_stranded" => pure ReportLevel.only_stranded
      | "all" => pure ReportLevel.all
      | s => throw s!"level {s}"
    let prm : NovelParams := { minNovelCount := ← jInt (← arg j "min_novel_count"),
                               requireMonointronicPolya := ← jBool (← arg j "require_mono_polya"), level := lvl }
    let cands ← jList (jPair jStr jStrand) (← arg j "cands")
    let r := novelModelStrand seq prm (← jInt (← arg j "count")) (← jIv (← arg j "range")) (← jIvList (← arg j "introns"))
      (← jBool (← arg j "pa")) (← jBool (← arg j "pt")) cands σ
    pure (ofOpt ofStrand r.1, r.2)
  | k => throw s!"unknown detector op {k}"

def detRun (seq : Seq) : List Json → StrandDict → Except String (List Json × StrandDict)
  | [], σ => pure ([], σ)
  | j :: js, σ => do
    let (o, σ') ← detOp seq σ j
    let (os, σ'') ← detRun seq js σ'
    pure (o :: os, σ'')

def jQuery (j : Json) : Except String (List Iv × Strand) := jPair jIvList jStrand j

def jTModel (j : Json) : Except String TModel := do
  pure { exons := ← jIvList (← arg j "exons"), strand := ← jStrand (← arg j "strand"),
         canonicalAttr := ← jOpt jStr (← arg j "attr") }

def readFields (check : Bool) (g : GeneRef) : List (List Iv × Strand) → CanonMemo → List Json × CanonMemo
  | [], σ => ([], σ)
  | q :: qs, σ =>
    let r := readCanonicalField check g q.1 q.2 σ
    let rs := readFields check g qs r.2
    (ofOpt ofStr r.1 :: rs.1, rs.2)

/-- the three reference-derived columns of the rows a `SqantiTSVPrinter` writes for the models of one gene region (one
    `gene_info`, one memo): `all_canonical`, `seq_A_downstream_TTS`, numerator of `perc_A_downstream_TTS` -/
def sqantiRows (g : GeneRef) (n : Int) : List (List Iv × Strand) → CanonMemo → List Json × CanonMemo
  | [], σ => ([], σ)
  | q :: qs, σ =>
    let r := sqantiAllCanonical g q.1 q.2 σ
    let coords : Iv := match q.1.head?, q.1.getLast? with
      | some f, some l => (f.1, l.2)
      | _, _ => (0, 0)
    let d := sqantiDownstream g coords q.2 n
    let rs := sqantiRows g n qs r.2
    (Json.arr #[ofOpt ofStr r.1, ofOpt (fun x => ofChars x.1) d, ofOpt (fun x => ofNat x.2) d] :: rs.1, rs.2)

def jPModel (j : Json) : Except String (PModel × Option RefAttrs) := do
  pure ({ geneId := ← jStr (← arg j "gene_id"), transcriptId := ← jStr (← arg j "transcript_id"),
          exons := ← jIvList (← arg j "exons"), strand := ← jStrand (← arg j "strand"),
          info := ← jList (jPair jStr jStr) (← arg j "info") },
        ← jOpt (jList (jPair jStr (jList jStr))) (← arg j "ref"))

def ofAttrList (l : AttrList) : Json := ofList (fun e => Json.arr #[ofStr e.1, ofStr e.2]) l

def ops : List (String × Handler) := [
  ("attr_tables", fun _ => pure (Json.mkObj [
      ("gene_skip", ofList ofStr GENE_ATTR_SKIP), ("transcript_skip", ofList ofStr TRANSCRIPT_ATTR_SKIP),
      ("exon_skip", ofList ofStr EXON_ATTR_SKIP), ("canonical_key", ofStr CANONICAL_KEY), ("exons_key", ofStr EXONS_KEY)])),
  ("attr_lines", fun j => do
      let g ← jGeneRef j
      let r := printStorage TRANSCRIPT_ATTR_SKIP (← jBool (← arg j "check")) g (← jList jPModel (← arg j "models")) []
      pure (Json.mkObj [("out", ofList ofAttrList r.1), ("memo", ofCanonMemo r.2)])),
  ("tables", fun _ => pure (Json.mkObj [("fwd", ofList ofSite fwdSites), ("rev", ofList ofSite revSites)])),
  ("site_raw", fun j => do
      pure (ofSite (siteRaw (← jSeq (← arg j "seq")) (← jInt (← arg j "start")) (← jIv (← arg j "intron"))))),
  ("get_intron_strand", fun j => do
      pure (ofStrand (getIntronStrand (← jIv (← arg j "intron")) (← jSeq (← arg j "seq")) (← jInt (← arg j "start"))))),
  ("common_get_strand", fun j => do
      pure (ofStrand (commonGetStrand (← jIvList (← arg j "introns")) (← jSeq (← arg j "seq")) (← jInt (← arg j "start"))))),
  ("detector", fun j => do
      let seq ← jSeq (← arg j "seq")
      let (outs, σ) ← detRun seq (← jArr (← arg j "ops")).toList []
      pure (Json.mkObj [("out", Json.arr outs.toArray), ("dict", ofStrandDict σ)])),
  ("canon_history", fun j => do
      let g ← jGeneRef j
      let r := runQueries g (← jList jQuery (← arg j "queries")) []
      pure (Json.mkObj [("out", ofList ofBool r.1), ("memo", ofCanonMemo r.2)])),
  ("model_info", fun j => do
      let g ← jGeneRef j
      let r := addCanonicalInfo g (← jList jTModel (← arg j "models")) []
      pure (Json.mkObj [("out", ofList (fun m => ofOpt ofStr m.canonicalAttr) r.1), ("memo", ofCanonMemo r.2)])),
  ("sqanti_rows", fun j => do
      let g ← jGeneRef j
      let r := sqantiRows g (← jInt (← arg j "n")) (← jList jQuery (← arg j "rows")) []
      pure (Json.mkObj [("out", Json.arr r.1.toArray), ("memo", ofCanonMemo r.2)])),
  ("read_fields", fun j => do
      let g ← jGeneRef j
      let r := readFields (← jBool (← arg j "check")) g (← jList jQuery (← arg j "reads")) []
      pure (Json.mkObj [("out", Json.arr r.1.toArray), ("memo", ofCanonMemo r.2)]))
]

end IsoVerif.Driver.C18
