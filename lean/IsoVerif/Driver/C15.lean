import IsoVerif.Driver.Core
import IsoVerif.Model.Serial
import IsoVerif.Model.Reuse
import IsoVerif.Driver.C12

/-!
Driver ops of C15.  Transport conventions (both directions):
* a byte string is a lower-case hex string;
* a Python `str` is the list of its code points (no JSON string escaping issues for non-ASCII text);
* an enum member is its integer value; a penalty is the exact fraction `[num, den]`;
* a writer answers the hex string or `{"error": ..}`; a reader answers `{"v": value, "rest": #unread bytes}` or `{"error": ..}`.
-/
namespace IsoVerif.Driver.C15
open Lean IsoVerif.Driver IsoVerif.Gen IsoVerif.Model IsoVerif.Model.Serial IsoVerif.Model.C15

/-! ### transport helpers -/

def hexDigit (n : Nat) : Char := if n < 10 then Char.ofNat (48 + n) else Char.ofNat (87 + n)

def ofHex (bs : Bytes) : Json :=
  Json.str (String.ofList (bs.flatMap (fun b => [hexDigit (b.toNat / 16), hexDigit (b.toNat % 16)])))

def hexVal (c : Char) : Except String Nat :=
  let n := c.toNat
  if 48 ≤ n ∧ n ≤ 57 then pure (n - 48)
  else if 97 ≤ n ∧ n ≤ 102 then pure (n - 87)
  else throw "bad hex digit"

def hexPairs : List Char → Except String Bytes
  | [] => pure []
  | [_] => throw "odd hex length"
  | a :: b :: t => do
    let x ← hexVal a
    let y ← hexVal b
    let r ← hexPairs t
    pure (UInt8.ofNat (x * 16 + y) :: r)

def jHex (j : Json) : Except String Bytes := do
  let s ← j.getStr?
  hexPairs s.toList

def jS (j : Json) : Except String String := do
  let l ← jList jNat j
  pure (String.ofList (l.map Char.ofNat))
def ofS (s : String) : Json := ofNatList (s.toList.map (·.toNat))

def jRat (j : Json) : Except String Rat := do
  let p ← jPair jInt jNat j
  if p.2 = 0 then throw "zero denominator" else pure (mkRat p.1 p.2)
def ofRat (q : Rat) : Json := Json.arr #[ofInt q.num, ofNat q.den]

def ofW : Option Bytes → Json
  | some b => ofHex b
  | none => jErr "error"

def ofR {α} (f : α → Json) : Option (α × Bytes) → Json
  | some (a, rest) => Json.mkObj [("v", f a), ("rest", ofNat rest.length)]
  | none => jErr "error"

def enumOf {ε} (nm : String) (ofValue? : Nat → Option ε) (j : Json) : Except String ε := do
  let n ← jNat j
  match ofValue? n with
  | some e => pure e
  | none => throw s!"no {nm} with value {n}"

/-! ### objects <-> JSON -/

def jDictVal (j : Json) : Except String DictVal := do
  match j.getObjVal? "i" with
  | .ok v => pure (.int (← jInt v))
  | .error _ =>
    match j.getObjVal? "s" with
    | .ok v => pure (.str (← jS v))
    | .error _ =>
      let p ← jPair jInt jInt (← arg j "p")
      pure (.pair p.1 p.2)

def ofDictVal : DictVal → Json
  | .int v => Json.mkObj [("i", ofInt v)]
  | .str s => Json.mkObj [("s", ofS s)]
  | .pair a b => Json.mkObj [("p", ofIv (a, b))]

def jDict (j : Json) : Except String Dict := jList (jPair jS jDictVal) j
def ofDict (d : Dict) : Json := ofList (fun kv => Json.arr #[ofS kv.1, ofDictVal kv.2]) d

def jEvent (j : Json) : Except String MatchEvent := do
  pure { eventType := ← enumOf "MatchEventSubtype" MatchEventSubtype.ofValue? (← arg j "t"),
         isoformRegion := ← jIv (← arg j "ir"), readRegion := ← jIv (← arg j "rr"),
         eventInfo := ← jInt (← arg j "info") }
def ofEvent (e : MatchEvent) : Json := Json.mkObj [
  ("t", ofNat e.eventType.value), ("ir", ofIv e.isoformRegion), ("rr", ofIv e.readRegion), ("info", ofInt e.eventInfo)]

def jMatch (j : Json) : Except String IsoformMatch := do
  pure { assignedGene := ← jOpt jS (← arg j "gene"), assignedTranscript := ← jOpt jS (← arg j "tr"),
         transcriptStrand := ← jS (← arg j "strand"),
         matchClassification := ← enumOf "MatchClassification" MatchClassification.ofValue? (← arg j "cls"),
         penaltyScore := ← jRat (← arg j "pen"), events := ← jList jEvent (← arg j "events") }
def ofMatch (m : IsoformMatch) : Json := Json.mkObj [
  ("gene", ofOpt ofS m.assignedGene), ("tr", ofOpt ofS m.assignedTranscript), ("strand", ofS m.transcriptStrand),
  ("cls", ofNat m.matchClassification.value), ("pen", ofRat m.penaltyScore), ("events", ofList ofEvent m.events)]

def jRA (j : Json) : Except String ReadAssignment := do
  let flags ← jList jBool (← arg j "flags")
  let pa ← jList jInt (← arg j "polya")
  match flags, pa with
  | [f0, f1, f2], [p0, p1, p2, p3] =>
    pure { assignmentId := ← jInt (← arg j "id"), readId := ← jS (← arg j "read_id"),
           genomicRegion := ← jIv (← arg j "region"), exons := ← jIvList (← arg j "exons"),
           correctedExons := ← jIvList (← arg j "cexons"), correctedIntrons := ← jIvList (← arg j "cintrons"),
           multimapper := f0, polyAFound := f1, cageFound := f2, polyaInfo := ⟨p0, p1, p2, p3⟩,
           readGroup := ← jS (← arg j "group"), mappedStrand := ← jS (← arg j "mstrand"),
           strand := ← jS (← arg j "strand"), chrId := ← jS (← arg j "chr"),
           mappingQuality := ← jInt (← arg j "mapq"),
           assignmentType := ← enumOf "ReadAssignmentType" ReadAssignmentType.ofValue? (← arg j "atype"),
           geneAssignmentType := ← enumOf "ReadAssignmentType" ReadAssignmentType.ofValue? (← arg j "gtype"),
           isoformMatches := ← jList jMatch (← arg j "matches"),
           additionalInfo := ← jDict (← arg j "info"), additionalAttributes := ← jDict (← arg j "attrs"),
           intronsMatch := ← jBool (← arg j "introns_match"),
           exonGeneProfile := ← jList jInt (← arg j "eprof"), intronGeneProfile := ← jList jInt (← arg j "iprof") }
  | _, _ => throw "flags must have 3 entries and polya 4"
def ofRA (r : ReadAssignment) : Json := Json.mkObj [
  ("id", ofInt r.assignmentId), ("read_id", ofS r.readId), ("region", ofIv r.genomicRegion),
  ("exons", ofIvList r.exons), ("cexons", ofIvList r.correctedExons), ("cintrons", ofIvList r.correctedIntrons),
  ("flags", ofList ofBool [r.multimapper, r.polyAFound, r.cageFound]),
  ("polya", ofIntList [r.polyaInfo.externalPolyaPos, r.polyaInfo.externalPolytPos,
                       r.polyaInfo.internalPolyaPos, r.polyaInfo.internalPolytPos]),
  ("group", ofS r.readGroup), ("mstrand", ofS r.mappedStrand), ("strand", ofS r.strand), ("chr", ofS r.chrId),
  ("mapq", ofInt r.mappingQuality), ("atype", ofNat r.assignmentType.value), ("gtype", ofNat r.geneAssignmentType.value),
  ("matches", ofList ofMatch r.isoformMatches), ("info", ofDict r.additionalInfo), ("attrs", ofDict r.additionalAttributes),
  ("introns_match", ofBool r.intronsMatch), ("eprof", ofIntList r.exonGeneProfile), ("iprof", ofIntList r.intronGeneProfile)]

def jBasic (j : Json) : Except String BasicReadAssignment := do
  pure { assignmentId := ← jInt (← arg j "id"), readId := ← jS (← arg j "read_id"), chrId := ← jS (← arg j "chr"),
         start := ← jInt (← arg j "start"), «end» := ← jInt (← arg j "end"), genomicRegion := ← jIv (← arg j "region"),
         multimapper := ← jBool (← arg j "mm"), polyAFound := ← jBool (← arg j "polya"),
         assignmentType := ← enumOf "ReadAssignmentType" ReadAssignmentType.ofValue? (← arg j "atype"),
         geneAssignmentType := ← enumOf "ReadAssignmentType" ReadAssignmentType.ofValue? (← arg j "gtype"),
         penaltyScore := ← jRat (← arg j "pen"), genes := ← jList jS (← arg j "genes"),
         isoforms := ← jList jS (← arg j "isoforms") }
def ofBasic (b : BasicReadAssignment) : Json := Json.mkObj [
  ("id", ofInt b.assignmentId), ("read_id", ofS b.readId), ("chr", ofS b.chrId), ("start", ofInt b.start),
  ("end", ofInt b.end), ("region", ofIv b.genomicRegion), ("mm", ofBool b.multimapper), ("polya", ofBool b.polyAFound),
  ("atype", ofNat b.assignmentType.value), ("gtype", ofNat b.geneAssignmentType.value), ("pen", ofRat b.penaltyScore),
  ("genes", ofList ofS b.genes), ("isoforms", ofList ofS b.isoforms)]

def jHeader (j : Json) : Except String GeneHeader := do
  pure { delta := ← jInt (← arg j "delta"), geneIds := ← jList jS (← arg j "genes"), chrId := ← jS (← arg j "chr"),
         start := ← jInt (← arg j "start"), «end» := ← jInt (← arg j "end") }
def ofHeader (h : GeneHeader) : Json := Json.mkObj [
  ("delta", ofInt h.delta), ("genes", ofList ofS h.geneIds), ("chr", ofS h.chrId), ("start", ofInt h.start),
  ("end", ofInt h.end)]

def jItem (j : Json) : Except String Item := do
  match j.getObjVal? "gene" with
  | .ok v => pure (.gene (← jHeader v))
  | .error _ => pure (.read (← jRA (← arg j "read")))

def ofGroups {α} (f : α → Json) (gs : List (Group α)) : Json :=
  ofList (fun g => Json.mkObj [("gene", ofHeader g.1), ("reads", ofList f g.2)]) gs

def jInfo (j : Json) : Except String SaveInfo := do
  pure { totalAssignments := ← jInt (← arg j "total"), polyaAssignments := ← jInt (← arg j "polya"),
         readGroups := ← jList jS (← arg j "groups") }
def ofInfo (i : SaveInfo) : Json := Json.mkObj [
  ("total", ofInt i.totalAssignments), ("polya", ofInt i.polyaAssignments), ("groups", ofList ofS i.readGroups)]

/-- lexicographic order on code-point lists (Python's order on `str`) -/
def cpsLt : List Nat → List Nat → Bool
  | [], [] => false
  | [], _ :: _ => true
  | _ :: _, [] => false
  | a :: as, b :: bs => if a < b then true else if b < a then false else cpsLt as bs

def cpsInsert (x : List Nat) : List (List Nat) → List (List Nat)
  | [] => [x]
  | y :: ys => if x == y then y :: ys else if cpsLt x y then x :: y :: ys else y :: cpsInsert x ys

/-- canonical form of what `load_read_info` returns (`set(read_list(...))`): the groups sorted, duplicates dropped -/
def ofInfoSet (i : SaveInfo) : Json := Json.mkObj [
  ("total", ofInt i.totalAssignments), ("polya", ofInt i.polyaAssignments),
  ("groups", ofList ofNatList ((i.readGroups.map (fun s => s.toList.map (·.toNat))).foldr cpsInsert []))]

/-! ### reuse clause (Model/Reuse.lean): strings are interned by position in a table sent with the request -/

/-- `table` = the strings of the case (chromosome names first, in processing order); `derive` = per gene-id list of
    a header what the gene database gives: [[interned transcript id, number of introns]] -/
def jEnv (j : Json) : Except String Env := do
  let tbl ← jList jS (← arg j "table")
  let dt ← jList (jPair (jList jS) (jList (jPair jNat jNat))) (← arg j "derive")
  pure { intern := fun s => tbl.idxOf s, name := fun n => tbl[n]?.getD "",
         code := fun r => r.assignmentId.toNat, derive := fun h => (dt.lookup h.geneIds).getD [] }

def jGroup (j : Json) : Except String (Group ReadAssignment) := do
  pure (← jHeader (← arg j "gene"), ← jList jRA (← arg j "reads"))

def jChrIn (j : Json) : Except String ChrIn := do
  pure { name := ← jS (← arg j "name"), groups := ← jList jGroup (← arg j "groups") }

def jChrFiles (j : Json) : Except String ChrFiles := do
  pure { save := ← jHex (← arg j "save"), multimappers := ← jHex (← arg j "mm") }

def jSaved (j : Json) : Except String Saved := do
  pure { info := ← jHex (← arg j "info"), chrs := ← jList jChrFiles (← arg j "chrs") }

def ofSaved (f : Saved) : Json :=
  Json.mkObj [("info", ofHex f.info),
              ("chrs", ofList (fun c => Json.mkObj [("save", ofHex c.save), ("mm", ofHex c.multimappers)]) f.chrs)]

def ofRunOut (o : RunOut) : Json := Json.mkObj [("info", ofInfo o.info), ("out", C12.ofOutput o.out)]

/-- `--read_group` of a request: absent or null = not given -/
def jCmdReadGroup (j : Json) : Except String (Option String) :=
  match j.getObjVal? "cmd_read_group" with
  | .ok v => jOpt jS v
  | .error _ => pure none

def jOtherReplicas (j : Json) : Except String Bool :=
  match j.getObjVal? "other_replicas" with
  | .ok v => jBool v
  | .error _ => pure false

def ofSetup (s : Setup) : Json := Json.mkObj [
  ("read_group", ofOpt ofS s.readGroup), ("use_technical_replicas", ofBool s.useTechnicalReplicas),
  ("grouped_tables", ofBool (groupedTablesWritten s))]

def ofRunOutS (x : Setup × RunOut) : Json :=
  Json.mkObj [("info", ofInfo x.2.info), ("out", C12.ofOutput x.2.out), ("setup", ofSetup x.1)]

def jSavedSetup (j : Json) : Except String SavedSetup := do
  pure { fileCount := ← jInt (← arg j "files"), readGroup := ← jOpt jS (← arg j "read_group") }

def ofSavedSetup (s : SavedSetup) : Json :=
  Json.mkObj [("files", ofInt s.fileCount), ("read_group", ofOpt ofS s.readGroup)]

/-! ### op table -/

def wr {α} (dec : Json → Except String α) (f : α → Option Bytes) : Handler := fun j => do
  pure (ofW (f (← dec (← arg j "x"))))

def rd {α} (r : Rd α) (f : α → Json) : Handler := fun j => do
  pure (ofR f (r.run (← jHex (← arg j "b"))))

def ops : List (String × Handler) := [
  ("write_int", fun j => do pure (ofW (writeInt (← jInt (← arg j "x")) (← jNat (← arg j "k"))))),
  ("read_int", fun j => do pure (ofR ofInt ((readInt (← jNat (← arg j "k"))).run (← jHex (← arg j "b"))))),
  ("write_int_neg", wr jInt writeIntNeg),
  ("read_int_neg", rd readIntNeg ofInt),
  ("write_string", wr jS writeString),
  ("write_string_buggy", wr jS writeStringBuggy),
  ("read_string", rd readString ofS),
  ("write_string_or_none", wr (jOpt jS) writeStringOrNone),
  ("read_string_or_none", rd readStringOrNone (ofOpt ofS)),
  ("write_bool_array", wr (jList jBool) writeBoolArray),
  ("read_bool_array", fun j => do
      pure (ofR (ofList ofBool) ((readBoolArray (← jNat (← arg j "n"))).run (← jHex (← arg j "b"))))),
  ("write_list_int", wr (jList jInt) (fun l => writeList l (writeInt ·))),
  ("read_list_int", rd (readList readInt) ofIntList),
  ("write_list_int_neg", wr (jList jInt) (fun l => writeList l writeIntNeg)),
  ("read_list_int_neg", rd (readList readIntNeg) ofIntList),
  ("write_list_string", wr (jList jS) (fun l => writeList l writeString)),
  ("read_list_string", rd (readList readString) (ofList ofS)),
  ("write_list_of_pairs", wr jIvList (fun l => writeListOfPairs l (writeInt ·))),
  ("read_list_of_pairs", rd (readListOfPairs readInt) ofIvList),
  ("write_dict", wr jDict writeDict),
  ("read_dict", rd readDict ofDict),
  ("read_dict_buggy", rd readDictBuggy ofDict),
  ("write_penalty", wr jRat writePenalty),
  ("read_penalty", rd readPenalty ofRat),
  ("enc_event", wr jEvent writeMatchEvent),
  ("dec_event", rd readMatchEvent ofEvent),
  ("enc_match", wr jMatch writeIsoformMatch),
  ("dec_match", rd readIsoformMatch ofMatch),
  ("enc_ra", wr jRA writeReadAssignment),
  ("dec_ra", rd readReadAssignment ofRA),
  ("quick_ra", rd readBasicFromReadAssignment ofBasic),
  ("basic_of", fun j => do pure (ofBasic (basicOf (← jRA (← arg j "x"))))),
  ("enc_basic", wr jBasic writeBasic),
  ("dec_basic", rd readBasic ofBasic),
  ("enc_header", wr jHeader writeGeneHeader),
  ("dec_header", rd readGeneHeader ofHeader),
  ("enc_stream", wr (jList jItem) writeStream),
  ("load_stream", rd loadStreamFull (ofGroups ofRA)),
  ("load_stream_quick", rd loadStreamQuick (ofGroups ofBasic)),
  ("enc_multimap", wr (jList (jList jBasic)) writeMultimap),
  ("load_multimap", rd loadMultimap (ofList (ofList ofBasic))),
  ("enc_info", wr jInfo writeSaveInfo),
  ("dec_info", rd readSaveInfo ofInfoSet),
  ("collect_reads", fun j => do
      let E ← jEnv j
      match collectReads E (← jBool (← arg j "high_memory")) (← jList jS (← arg j "read_groups"))
              (← jNat (← arg j "unaligned")) (← jList jChrIn (← arg j "chroms")) with
      | some f => pure (ofSaved f)
      | none => pure (jErr "error")),
  ("process_saved", fun j => do
      let E ← jEnv j
      let cfg ← C12.jConfig (← arg j "cfg")
      match processSaved E cfg (← jList jNat (← arg j "unmapped")) (← jList jS (← arg j "names"))
              (← jSaved (← arg j "files")) with
      | some o => pure (ofRunOut o)
      | none => pure (jErr "error")),
  ("restart_run", fun j => do
      let E ← jEnv j
      let cfg ← C12.jConfig (← arg j "cfg")
      match restartRunS E cfg (← jCmdReadGroup j) (← jList jS (← arg j "names")) (← jSaved (← arg j "files")) with
      | some o => pure (ofRunOutS o)
      | none => pure (jErr "error")),
  ("restart_run_orig", fun j => do
      let E ← jEnv j
      let cfg ← C12.jConfig (← arg j "cfg")
      match restartRunOrig E cfg (← jList jS (← arg j "names")) (← jSaved (← arg j "files")) with
      | some o => pure (ofRunOut o)
      | none => pure (jErr "error")),
  ("restart_run_orig_setup", fun j => do
      let E ← jEnv j
      let cfg ← C12.jConfig (← arg j "cfg")
      match restartRunOrigS E cfg (← jCmdReadGroup j) (← jList jS (← arg j "names")) (← jSaved (← arg j "files")) with
      | some o => pure (ofRunOutS o)
      | none => pure (jErr "error")),
  ("restart_all", fun j => do
      let E ← jEnv j
      let cfg ← C12.jConfig (← arg j "cfg")
      let exps ← jList (fun x => do pure (← jList jS (← arg x "names"), ← jSaved (← arg x "files"))) (← arg j "experiments")
      pure (ofList (fun o => match o with | some x => ofRunOutS x | none => jErr "error")
              (restartAllS E cfg (← jCmdReadGroup j) exps))),
  ("enc_info_file_setup", fun j => do
      let x ← arg j "x"
      pure (ofW (writeInfoFileSetup (← jInfo x) (← jInt (← arg x "unaligned")) (← jSavedSetup (← arg x "setup"))))),
  ("dec_setup", rd readSetup (fun s => ofSavedSetup { s with readGroup := truthyStr s.readGroup })),
  ("setup_of", fun j => do
      let cmd ← jCmdReadGroup j
      let n ← jNat (← arg j "files")
      let other ← jOtherReplicas j
      pure (Json.mkObj [("saving", ofSetup (savingSetup cmd other n)), ("saved", ofSavedSetup (savedSetupOf cmd other n)),
                        ("restart", ofSetup (restartSetup cmd (savedSetupOf cmd other n))),
                        ("restart_orig", ofSetup (restartSetupOrig cmd))])),
  ("enc_info_file", fun j => do
      let x ← arg j "x"
      pure (ofW (writeInfoFile (← jInfo x) (← jInt (← arg x "unaligned"))))),
  ("dec_unaligned", rd readUnaligned ofInt),
  ("saving_run", fun j => do
      let E ← jEnv j
      let cfg ← C12.jConfig (← arg j "cfg")
      match savingRunS E cfg (← jCmdReadGroup j) (← jOtherReplicas j) (← jList jS (← arg j "read_groups"))
              (← jList jNat (← arg j "unmapped")) (← jList jChrIn (← arg j "chroms")) with
      | some (f, s, o) => pure (Json.mkObj [("files", ofSaved f), ("run", ofRunOutS (s, o))])
      | none => pure (jErr "error")),
  ("load_verdicts", fun j => do
      let E ← jEnv j
      match loadVerdicts E (← jS (← arg j "chr")) (← jHex (← arg j "b")) with
      | some d => pure (ofList (fun kv => Json.arr #[ofNat kv.1, ofList C08.ofRec kv.2]) d)
      | none => pure (jErr "error"))
]

end IsoVerif.Driver.C15
