import IsoVerif.Driver.C15
import IsoVerif.Model.ReusePrint

/-!
Driver ops of the read-level printers (Model/Printers.lean, Model/ReusePrint.lean); registered under the prefix `C15`.
Transport as in Driver/C15.lean: a Python `str` is the list of its code points; a reference sequence is a JSON string.
-/
namespace IsoVerif.Driver.C15Print
open Lean IsoVerif.Driver IsoVerif.Driver.C15 IsoVerif.Gen IsoVerif.Model IsoVerif.Model.Serial IsoVerif.Model.C15
open IsoVerif.Model.Printers

def jParams (j : Json) : Except String Params := do
  pure { cage := ← jBool (← arg j "cage"), checkCanonical := ← jBool (← arg j "check_canonical") }

def jChecker (j : Json) : Except String Checker := do
  if j.isNull then pure .all
  else
    let l ← jList (enumOf "ReadAssignmentType" ReadAssignmentType.ofValue?) j
    pure (.only l)

def jIsoIntrons (j : Json) : Except String (List (String × List Iv)) := jList (jPair jS jIvList) j

def jGeneView (j : Json) : Except String GeneView := do
  pure { chrId := ← jS (← arg j "chr"), isoformIntrons := ← jIsoIntrons (← arg j "iso"),
         ref := { refRegion := (← jStr (← arg j "ref")).toList, start := ← jInt (← arg j "start") } }

def ofTsvLine (l : TsvLine) : Json := ofList ofS l.fields

def ofBedRecord (r : C14.BedRecord) : Json :=
  Json.mkObj [("chrom", ofS r.chrom), ("start", ofInt r.chromStart), ("end", ofInt r.chromEnd), ("name", ofS r.name),
              ("strand", ofS r.strand), ("thick_start", ofInt r.thickStart), ("thick_end", ofInt r.thickEnd),
              ("count", ofNat r.blockCount), ("sizes", ofIntList r.blockSizes), ("starts", ofIntList r.blockStarts),
              ("line", ofS r.render)]

def ofLines (l : Lines) : Json :=
  Json.mkObj [("bed", ofList ofBedRecord l.bed), ("tsv", ofList ofTsvLine l.tsv),
              ("tsv_text", ofList (fun x => ofS x.render) l.tsv)]

def jPrintEnv (j : Json) : Except String PrintEnv := do
  let iso ← jList (jPair (jList jS) jIsoIntrons) (← arg j "iso")
  let seqs ← jList (jPair jS jStr) (← arg j "chr_seqs")
  pure { params := ← jParams (← arg j "params"),
         isoformIntrons := fun h => (iso.lookup h.geneIds).getD [],
         chrSeq := fun nm => ((seqs.lookup nm).getD "").toList,
         commonHeader := ← jList jS (← arg j "common_header") }

def ofPrinted (p : Printed) : Json := Json.mkObj [("tsv", ofList ofS p.tsv), ("bed", ofList ofS p.bed)]

def ops : List (String × Handler) := [
  ("subtype_str", fun j => do
      let t ← enumOf "MatchEventSubtype" MatchEventSubtype.ofValue? (← arg j "t")
      pure (ofS (subtypeToStr t (← jS (← arg j "strand"))))),
  ("event_str", fun j => do
      pure (ofS (eventStr (← jEvent (← arg j "e")) (← jS (← arg j "strand")) (← jIvList (← arg j "ri"))
                  (← jIvList (← arg j "ii"))))),
  ("range_list_str", fun j => do pure (ofS (rangeListToStr (← jIvList (← arg j "x"))))),
  -- the composite printer over the records of one gene region (fresh memo), both printers with the given checkers
  ("print_records", fun j => do
      let C : PrinterCfg := { bedChecker := ← jChecker (← arg j "bed_checker"), tsvChecker := ← jChecker (← arg j "tsv_checker"),
                              params := ← jParams (← arg j "params") }
      match printRecords C (← jGeneView (← arg j "gv")) (← jList jRA (← arg j "records")) [] with
      | some l => pure (ofLines l)
      | none => pure (jErr "error")),
  ("bed_of", fun j => do
      match bedOf (← jChecker (← arg j "checker")) (← jBool (← arg j "print_corrected")) (← jGeneView (← arg j "gv"))
              (← jRA (← arg j "x")) with
      | some none => pure Json.null
      | some (some r) => pure (ofBedRecord r)
      | none => pure (jErr "error")),
  ("print_saved", fun j => do
      let E ← jEnv j
      let X ← jPrintEnv (← arg j "penv")
      let order ← jList jNat (← arg j "merge_order")
      let names ← jList jS (← arg j "names")
      let files ← jSaved (← arg j "files")
      match (names.zip files.chrs).mapM (fun x => constructChrP E X x.1 x.2) with
      | some outs => pure (Json.mkObj [("files", ofPrinted (printedOf X order outs)), ("parts", ofList ofLines outs)])
      | none => pure (jErr "error")),
  -- the reference window of a gene region after `get_object` + `extend_reference_region`
  ("gene_window", fun j => do
      let g := refOf (← jStr (← arg j "chr_seq")).toList (← jHeader (← arg j "header")) (← jList jRA (← arg j "kept"))
      pure (Json.mkObj [("start", ofInt g.start), ("ref", ofStr (String.ofList g.refRegion))])),
  ("printer_headers", fun _ => pure (Json.mkObj [("tsv", ofS printer_tsv_header), ("bed", ofS printer_bed_header)])),
  ("merge_body", fun j => do
      pure (ofList ofS (mergeBody (← jNat (← arg j "header_lines")) (← jList jNat (← arg j "order"))
              (← jList (jList jS) (← arg j "parts"))))),
  ("merge_body_orig", fun j => do
      pure (ofList ofS (mergeBodyOrig (← jList jNat (← arg j "order")) (← jList (jList jS) (← arg j "parts")))))
]

end IsoVerif.Driver.C15Print
