/-
Driver ops of C11.  Every op evaluates BOTH sides of one equivariance relation on the model and returns
`{"lhs": …, "rhs": …}`; the harness evaluates the same two sides on the real code with its own (Python)
transformations, so that
   model.lhs = impl.lhs ∧ model.rhs = impl.rhs      is the model/implementation correspondence
                                                    (and checks that `shiftL`/`mirrorL` are the harness's
                                                    transformations), and
   impl.lhs = impl.rhs                               is the relation (a theorem of the model) on the real code.
Naming: `S.<fn>` translation, `M.<fn>` reflection.  Core Lean only.
-/
import IsoVerif.Driver.Core
import IsoVerif.Model.Interval
import IsoVerif.Model.Profiles
import IsoVerif.Model.C11Symmetry
import IsoVerif.Model.C11Polya
import IsoVerif.Model.C11Canonical
import IsoVerif.Gen.EventClasses
import IsoVerif.Driver.C11Align
import IsoVerif.Driver.C11Assign
import IsoVerif.Driver.C11Graph
import IsoVerif.Driver.C11BedCorr
import IsoVerif.Driver.C11MonoNovel
import IsoVerif.Driver.C11AssignMirror

namespace IsoVerif.Driver.C11
open Lean IsoVerif.Driver IsoVerif.Gen IsoVerif.Model IsoVerif.Model.C11

def both (l r : Json) : Json := Json.mkObj [("lhs", l), ("rhs", r)]

def oInt : Option Int → Json
  | none => jErr "error"
  | some p => ofInt p
def oIv : Option Iv → Json
  | none => jErr "error"
  | some p => ofIv p
def oIvL : Option (List Iv) → Json
  | none => jErr "error"
  | some p => ofIvList p
def oFrac : Option (Int × Int) → Json
  | none => jErr "error"
  | some p => ofIv p

def gK (j : Json) : Except String Int := do jInt (← arg j "k")
def gL (j : Json) : Except String Int := do jInt (← arg j "L")
def gA (j : Json) : Except String Iv := do jIv (← arg j "a")
def gB (j : Json) : Except String Iv := do jIv (← arg j "b")
def gD (j : Json) : Except String Int := do jInt (← arg j "d")
def gP (j : Json) : Except String Int := do jInt (← arg j "p")
def gI (j : Json) : Except String Int := do jInt (← arg j "i")
def gR (j : Json) : Except String Iv := do jIv (← arg j "r")
def gl (j : Json) : Except String (List Iv) := do jIvList (← arg j "l")
def gl1 (j : Json) : Except String (List Iv) := do jIvList (← arg j "l1")
def gl2 (j : Json) : Except String (List Iv) := do jIvList (← arg j "l2")

/-- shift relation of a two-interval primitive with an invariant result -/
def s2 {α} (o : α → Json) (f : Iv → Iv → α) : Handler := fun j => do
  let k ← gK j; let a ← gA j; let b ← gB j
  pure (both (o (f (shiftIv k a) (shiftIv k b))) (o (f a b)))
def s2d {α} (o : α → Json) (f : Iv → Iv → Int → α) : Handler := fun j => do
  let k ← gK j; let a ← gA j; let b ← gB j; let d ← gD j
  pure (both (o (f (shiftIv k a) (shiftIv k b) d)) (o (f a b d)))
/-- mirror relation `f (m a) (m b) = g a b` -/
def m2 {α} (o : α → Json) (f g : Iv → Iv → α) : Handler := fun j => do
  let L ← gL j; let a ← gA j; let b ← gB j
  pure (both (o (f (mirrorIv L a) (mirrorIv L b))) (o (g a b)))
def m2d {α} (o : α → Json) (f g : Iv → Iv → Int → α) : Handler := fun j => do
  let L ← gL j; let a ← gA j; let b ← gB j; let d ← gD j
  pure (both (o (f (mirrorIv L a) (mirrorIv L b) d)) (o (g a b d)))

def profJson (r : ProfileResult) : Json :=
  Json.mkObj [("gene", ofIntList r.gene), ("read", ofIntList r.read), ("range", ofIv r.range)]
def mirrorProf (r : ProfileResult) : ProfileResult :=
  let n : Int := r.gene.length
  { gene := r.gene.reverse, read := r.read.reverse, range := (n - r.range.2, n - r.range.1) }

def baseOps : List (String × Handler) := [
  -- the transformations themselves (compared with the harness's Python versions)
  ("T.shift_list", fun j => do pure (ofIvList (shiftL (← gK j) (← gl j)))),
  ("T.mirror_list", fun j => do pure (ofIvList (mirrorL (← gL j) (← gl j)))),
  ("T.shift_pos", fun j => do pure (ofInt (shiftPos (← gK j) (← gP j)))),
  ("T.mirror_pos", fun j => do pure (ofInt (mirrorPos (← gL j) (← gP j)))),
  ("T.swap_lr", fun j => do
      match MatchEventSubtype.ofName? (← jStr (← arg j "name")) with
      | none => pure (jErr "unknown")
      | some e => pure (ofStr (swapLR e).name)),
  ("T.event_class", fun j => do
      match MatchEventSubtype.ofName? (← jStr (← arg j "name")) with
      | none => pure (jErr "unknown")
      | some e => pure (Json.mkObj [
          ("is_consistent", ofBool e.is_consistent), ("is_minor_error", ofBool e.is_minor_error),
          ("is_alignment_artifact", ofBool e.is_alignment_artifact),
          ("is_major_elongation", ofBool e.is_major_elongation), ("is_minor_elongation", ofBool e.is_minor_elongation),
          ("is_major_inconsistency", ofBool e.is_major_inconsistency),
          ("is_intronic_inconsistency", ofBool e.is_intronic_inconsistency),
          ("cost", ofOpt ofNat (event_cost_hundredths e))])),
  -- polyA / polyT code pairs (plain model values; the harness forms the relations)
  ("P.count_polya_exons", fun j => do
      pure (ofNat (countPolyaExons (← jInt (← arg j "max_fake")) (← gl j) (← gP j)))),
  ("P.count_polyt_exons", fun j => do
      pure (ofNat (countPolytExons (← jInt (← arg j "max_fake")) (← gl j) (← gP j)))),
  ("P.shift_polya", fun j => do
      pure (oInt (shiftPolya (← gl j) (← jNat (← arg j "count")) (← gP j)))),
  ("P.shift_polyt", fun j => do
      pure (oInt (shiftPolyt (← gl j) (← jNat (← arg j "count")) (← gP j)))),
  -- splice-site strand detection over the generated canonical tables
  ("K.mirror_sites", fun j => do
      let p := mirrorSites (← jStr (← arg j "l"), ← jStr (← arg j "r"))
      pure (Json.arr #[ofStr p.1, ofStr p.2])),
  ("K.intron_strand", fun j => do
      pure (ofStr (intronStrandOfSites (← jStr (← arg j "l"), ← jStr (← arg j "r"))))),
  ("K.sites_of_intron", fun j => do
      let p := sitesOfIntron (← jStr (← arg j "ref")).toList (← jNat (← arg j "a")) (← jNat (← arg j "b"))
      pure (Json.arr #[ofStr p.1, ofStr p.2])),
  ("K.strand", fun j => do
      let l ← jList (jPair jStr jStr) (← arg j "sites")
      pure (Json.mkObj [("get_strand", ofStr (strandOfSites l)),
                        ("detector", ofStr (detectorStrand l (← jBool (← arg j "has_polya")) (← jBool (← arg j "has_polyt")))),
                        ("clean", ofStr (detectorCleanStrand l))])),
  -- translation: primitives
  ("S.cmp", fun j => do
      let k ← gK j; let x ← jInt (← arg j "x"); let y ← jInt (← arg j "y")
      pure (both (ofInt (cmp (x + k) (y + k))) (ofInt (cmp x y)))),
  ("S.overlaps", s2 ofBool overlaps),
  ("S.intersection_len", s2 ofInt intersection_len),
  ("S.left_of", s2 ofBool left_of),
  ("S.covers_end", s2 ofBool covers_end),
  ("S.covers_start", s2 ofBool covers_start),
  ("S.contains", s2 ofBool contains),
  ("S.overlap_intervals", fun j => do
      let k ← gK j; let a ← gA j; let b ← gB j
      pure (both (ofIv (overlap_intervals (shiftIv k a) (shiftIv k b))) (ofIv (shiftIv k (overlap_intervals a b))))),
  ("S.max_range", fun j => do
      let k ← gK j; let a ← gA j; let b ← gB j
      pure (both (ofIv (max_range (shiftIv k a) (shiftIv k b))) (ofIv (shiftIv k (max_range a b))))),
  ("S.overlaps_at_least", s2d ofBool overlaps_at_least),
  ("S.overlaps_at_least_when_overlap", s2d ofBool overlaps_at_least_when_overlap),
  ("S.equal_ranges", s2d ofBool equal_ranges),
  ("S.contains_well_inside", s2d ofBool contains_well_inside),
  ("S.contains_approx", s2d ofBool contains_approx),
  ("S.interval_len", fun j => do
      let k ← gK j; let a ← gA j
      pure (both (ofInt (interval_len (shiftIv k a))) (ofInt (interval_len a)))),
  -- reflection: primitives
  ("M.cmp", fun j => do
      let L ← gL j; let x ← jInt (← arg j "x"); let y ← jInt (← arg j "y")
      pure (both (ofInt (cmp (mirrorP L x) (mirrorP L y))) (ofInt (cmp y x)))),
  ("M.overlaps", m2 ofBool overlaps overlaps),
  ("M.intersection_len", m2 ofInt intersection_len intersection_len),
  ("M.left_of", m2 ofBool (fun a b => left_of b a) left_of),
  ("M.covers_end", m2 ofBool covers_end covers_start),
  ("M.covers_start", m2 ofBool covers_start covers_end),
  ("M.contains", m2 ofBool contains contains),
  ("M.overlap_intervals", fun j => do
      let L ← gL j; let a ← gA j; let b ← gB j
      pure (both (ofIv (overlap_intervals (mirrorIv L a) (mirrorIv L b))) (ofIv (mirrorIv L (overlap_intervals a b))))),
  ("M.max_range", fun j => do
      let L ← gL j; let a ← gA j; let b ← gB j
      pure (both (ofIv (max_range (mirrorIv L a) (mirrorIv L b))) (ofIv (mirrorIv L (max_range a b))))),
  ("M.overlaps_at_least", m2d ofBool overlaps_at_least overlaps_at_least),
  ("M.overlaps_at_least_when_overlap", m2d ofBool overlaps_at_least_when_overlap overlaps_at_least_when_overlap),
  ("M.equal_ranges", m2d ofBool equal_ranges equal_ranges),
  ("M.contains_well_inside", m2d ofBool contains_well_inside contains_well_inside),
  ("M.contains_approx", m2d ofBool contains_approx contains_approx),
  ("M.interval_len", fun j => do
      let L ← gL j; let a ← gA j
      pure (both (ofInt (interval_len (mirrorIv L a))) (ofInt (interval_len a)))),
  -- translation: list functions
  ("S.intervals_total_length", fun j => do
      let k ← gK j; let l ← gl j
      pure (both (ofInt (intervalsTotalLength (shiftL k l))) (ofInt (intervalsTotalLength l)))),
  ("S.sum_intervals_to_point", fun j => do
      let k ← gK j; let l ← gl j; let p ← gP j
      pure (both (oInt (sumIntervalsToPoint (shiftL k l) (p + k))) (oInt (sumIntervalsToPoint l p)))),
  ("S.sum_intervals_from_point", fun j => do
      let k ← gK j; let l ← gl j; let p ← gP j
      pure (both (oInt (sumIntervalsFromPoint (shiftL k l) (p + k))) (oInt (sumIntervalsFromPoint l p)))),
  ("S.read_coverage_fraction", fun j => do
      let k ← gK j; let l1 ← gl1 j; let l2 ← gl2 j
      pure (both (oFrac (readCoverageFraction (shiftL k l1) (shiftL k l2))) (oFrac (readCoverageFraction l1 l2)))),
  ("S.jaccard_similarity", fun j => do
      let k ← gK j; let l1 ← gl1 j; let l2 ← gl2 j
      pure (both (oFrac (jaccardSweep (shiftL k l1) (shiftL k l2))) (oFrac (jaccardSweep l1 l2)))),
  ("S.merge_ranges", fun j => do
      let k ← gK j; let l1 ← gl1 j; let l2 ← gl2 j
      pure (both (oIvL (mergeRanges (shiftL k l1) (shiftL k l2))) (oIvL ((mergeRanges l1 l2).map (shiftL k))))),
  ("S.extra_exon_percentage", fun j => do
      let k ← gK j; let r ← gR j; let l ← gl j
      pure (both (oFrac (extraExonPercentage (shiftIv k r) (shiftL k l))) (oFrac (extraExonPercentage r l)))),
  ("S.junctions_from_blocks", fun j => do
      let k ← gK j; let l ← gl j
      pure (both (ofIvList (junctionsFromBlocks (shiftL k l))) (ofIvList (shiftL k (junctionsFromBlocks l))))),
  ("S.get_exons", fun j => do
      let k ← gK j; let r ← gR j; let l ← gl j
      pure (both (ofIvList (getExons (shiftIv k r) (shiftL k l))) (ofIvList (shiftL k (getExons r l))))),
  ("S.get_exon", fun j => do
      let k ← gK j; let r ← gR j; let l ← gl j; let i ← gI j
      pure (both (oIv (getExon (shiftIv k r) (shiftL k l) i)) (oIv ((getExon r l i).map (shiftIv k))))),
  ("S.get_following_exon", fun j => do
      let k ← gK j; let r ← gR j; let l ← gl j; let i ← gI j
      pure (both (oIv (getFollowingExon (shiftIv k r) (shiftL k l) i)) (oIv ((getFollowingExon r l i).map (shiftIv k))))),
  ("S.get_preceding_exon", fun j => do
      let k ← gK j; let r ← gR j; let l ← gl j; let i ← gI j
      pure (both (oIv (getPrecedingExon (shiftIv k r) (shiftL k l) i)) (oIv ((getPrecedingExon r l i).map (shiftIv k))))),
  ("S.truncate_read_to_polya", fun j => do
      let k ← gK j; let l ← gl j; let pa ← jInt (← arg j "pa"); let pt ← jInt (← arg j "pt")
      pure (both (oIvL (truncateReadToPolya (shiftL k l) (shiftPos k pa) (shiftPos k pt)))
                 (oIvL ((truncateReadToPolya l pa pt).map (shiftL k))))),
  ("S.interval_bin_search", fun j => do
      let k ← gK j; let l ← gl j; let p ← gP j
      pure (both (oInt (intervalBinSearch (shiftL k l) (p + k))) (oInt (intervalBinSearch l p)))),
  ("S.interval_bin_search_rev", fun j => do
      let k ← gK j; let l ← gl j; let p ← gP j
      pure (both (oInt (intervalBinSearchRev (shiftL k l) (p + k))) (oInt (intervalBinSearchRev l p)))),
  ("S.split_exons", fun j => do
      let k ← gK j; let l ← gl j
      pure (both (oIvL (splitExons (shiftL k l))) (oIvL ((splitExons l).map (shiftL k))))),
  -- reflection: list functions
  ("M.intervals_total_length", fun j => do
      let L ← gL j; let l ← gl j
      pure (both (ofInt (intervalsTotalLength (mirrorL L l))) (ofInt (intervalsTotalLength l)))),
  ("M.sum_intervals_to_point", fun j => do
      let L ← gL j; let l ← gl j; let p ← gP j
      pure (both (oInt (sumIntervalsToPoint (mirrorL L l) (mirrorP L p))) (oInt (sumIntervalsFromPoint l p)))),
  ("M.sum_intervals_from_point", fun j => do
      let L ← gL j; let l ← gl j; let p ← gP j
      pure (both (oInt (sumIntervalsFromPoint (mirrorL L l) (mirrorP L p))) (oInt (sumIntervalsToPoint l p)))),
  ("M.read_coverage_fraction", fun j => do
      let L ← gL j; let l1 ← gl1 j; let l2 ← gl2 j
      pure (both (oFrac (readCoverageFraction (mirrorL L l1) (mirrorL L l2))) (oFrac (readCoverageFraction l1 l2)))),
  ("M.jaccard_similarity", fun j => do
      let L ← gL j; let l1 ← gl1 j; let l2 ← gl2 j
      pure (both (oFrac (jaccardSweep (mirrorL L l1) (mirrorL L l2))) (oFrac (jaccardSweep l1 l2)))),
  ("M.merge_ranges", fun j => do
      let L ← gL j; let l1 ← gl1 j; let l2 ← gl2 j
      pure (both (oIvL (mergeRanges (mirrorL L l1) (mirrorL L l2))) (oIvL ((mergeRanges l1 l2).map (mirrorL L))))),
  ("M.extra_exon_percentage", fun j => do
      let L ← gL j; let r ← gR j; let l ← gl j
      pure (both (oFrac (extraExonPercentage (mirrorIv L r) (mirrorL L l))) (oFrac (extraExonPercentage r l)))),
  ("M.junctions_from_blocks", fun j => do
      let L ← gL j; let l ← gl j
      pure (both (ofIvList (junctionsFromBlocks (mirrorL L l))) (ofIvList (mirrorL L (junctionsFromBlocks l))))),
  ("M.get_exons", fun j => do
      let L ← gL j; let r ← gR j; let l ← gl j
      pure (both (ofIvList (getExons (mirrorIv L r) (mirrorL L l))) (ofIvList (mirrorL L (getExons r l))))),
  ("M.get_exon", fun j => do
      let L ← gL j; let r ← gR j; let l ← gl j; let i ← gI j
      pure (both (oIv (getExon (mirrorIv L r) (mirrorL L l) ((l.length : Int) - i))) (oIv ((getExon r l i).map (mirrorIv L))))),
  ("M.get_following_exon", fun j => do
      let L ← gL j; let r ← gR j; let l ← gl j; let i ← gI j
      pure (both (oIv (getPrecedingExon (mirrorIv L r) (mirrorL L l) ((l.length : Int) - 1 - i)))
                 (oIv ((getFollowingExon r l i).map (mirrorIv L))))),
  ("M.get_preceding_exon", fun j => do
      let L ← gL j; let r ← gR j; let l ← gl j; let i ← gI j
      pure (both (oIv (getFollowingExon (mirrorIv L r) (mirrorL L l) ((l.length : Int) - 1 - i)))
                 (oIv ((getPrecedingExon r l i).map (mirrorIv L))))),
  ("M.truncate_read_to_polya", fun j => do
      let L ← gL j; let l ← gl j; let pa ← jInt (← arg j "pa"); let pt ← jInt (← arg j "pt")
      pure (both (oIvL (truncateReadToPolya (mirrorL L l) (mirrorPos L pt) (mirrorPos L pa)))
                 (oIvL ((truncateReadToPolya l pa pt).map (mirrorL L))))),
  ("M.interval_bin_search", fun j => do
      let L ← gL j; let l ← gl j; let p ← gP j
      let dual : Option Int := (intervalBinSearch l p).map (dualIdx l.length)
      pure (both (oInt (intervalBinSearchRev (mirrorL L l) (mirrorP L p))) (oInt dual))),
  ("M.interval_bin_search_rev", fun j => do
      let L ← gL j; let l ← gl j; let p ← gP j
      let dual : Option Int := (intervalBinSearchRev l p).map (dualIdx l.length)
      pure (both (oInt (intervalBinSearch (mirrorL L l) (mirrorP L p))) (oInt dual))),
  ("M.split_exons", fun j => do
      let L ← gL j; let l ← gl j
      pure (both (oIvL (splitExons (mirrorL L l))) (oIvL ((splitExons l).map (mirrorL L))))),
  -- profiles
  ("S.isoform_profile", fun j => do
      let k ← gK j
      let feats ← jIvList (← arg j "features"); let tf ← jIvList (← arg j "tf"); let region ← jIv (← arg j "region")
      let c ← jStr (← arg j "cmp")
      let cmpf : Iv → Iv → Bool := if c == "equal" then (fun a b => equal_ranges a b 0) else (fun a b => contains a b)
      let o := fun (r : List Int × (Int × Int)) => Json.mkObj [("profile", ofIntList r.1), ("range", ofIv r.2)]
      pure (both (o (setProfiles (shiftL k feats) (shiftL k tf) (shiftIv k region) cmpf)) (o (setProfiles feats tf region cmpf)))),
  ("M.isoform_profile", fun j => do
      let L ← gL j
      let feats ← jIvList (← arg j "features"); let tf ← jIvList (← arg j "tf"); let region ← jIv (← arg j "region")
      let c ← jStr (← arg j "cmp")
      let cmpf : Iv → Iv → Bool := if c == "equal" then (fun a b => equal_ranges a b 0) else (fun a b => contains a b)
      let o := fun (r : List Int × (Int × Int)) => Json.mkObj [("profile", ofIntList r.1), ("range", ofIv r.2)]
      let r := setProfiles feats tf region cmpf
      let n : Int := r.1.length
      pure (both (o (setProfiles (mirrorL L feats) (mirrorL L tf) (mirrorIv L region) cmpf))
                 (o (r.1.reverse, (n - r.2.2, n - r.2.1))))),
  ("S.overlapping_profile", fun j => do
      let k ← gK j
      let kind ← jStr (← arg j "kind")
      let known ← jIvList (← arg j "known"); let gr ← jIv (← arg j "gene_region")
      let read ← jIvList (← arg j "read"); let mapped ← jIv (← arg j "mapped")
      let polya ← jInt (← arg j "polya"); let polyt ← jInt (← arg j "polyt")
      let d ← jInt (← arg j "d"); let ad ← jInt (← arg j "abs_d")
      let cmpf : Iv → Iv → Bool := fun a b => equal_ranges a b d
      let absf : Iv → Iv → Bool := if kind == "intron" then (fun a b => overlaps_at_least a b ad) else (fun a b => contains a b)
      pure (both (profJson (constructOverlapping (shiftL k known) (shiftIv k gr) cmpf absf d (shiftL k read) (shiftIv k mapped)
                              (shiftPos k polya) (shiftPos k polyt)))
                 (profJson (constructOverlapping known gr cmpf absf d read mapped polya polyt)))),
  ("M.overlapping_profile", fun j => do
      let L ← gL j
      let kind ← jStr (← arg j "kind")
      let known ← jIvList (← arg j "known"); let gr ← jIv (← arg j "gene_region")
      let read ← jIvList (← arg j "read"); let mapped ← jIv (← arg j "mapped")
      let polya ← jInt (← arg j "polya"); let polyt ← jInt (← arg j "polyt")
      let d ← jInt (← arg j "d"); let ad ← jInt (← arg j "abs_d")
      let cmpf : Iv → Iv → Bool := fun a b => equal_ranges a b d
      let absf : Iv → Iv → Bool := if kind == "intron" then (fun a b => overlaps_at_least a b ad) else (fun a b => contains a b)
      pure (both (profJson (constructOverlapping (mirrorL L known) (mirrorIv L gr) cmpf absf d (mirrorL L read) (mirrorIv L mapped)
                              (mirrorPos L polyt) (mirrorPos L polya)))
                 (profJson (mirrorProf (constructOverlapping known gr cmpf absf d read mapped polya polyt))))),
  ("S.nonoverlapping_profile", fun j => do
      let k ← gK j
      let known ← jIvList (← arg j "known"); let read ← jIvList (← arg j "read")
      let polya ← jInt (← arg j "polya"); let polyt ← jInt (← arg j "polyt")
      let d ← jInt (← arg j "d"); let mo ← jInt (← arg j "min_ov")
      let cmpf : Iv → Iv → Bool := fun a b => overlaps_at_least_when_overlap a b mo
      let o : Option ProfileResult → Json := fun r => match r with | none => jErr "error" | some r => profJson r
      pure (both (o (constructNonOverlapping (shiftL k known) cmpf d (shiftL k read) (shiftPos k polya) (shiftPos k polyt)))
                 (o (constructNonOverlapping known cmpf d read polya polyt)))),
  ("M.nonoverlapping_profile", fun j => do
      let L ← gL j
      let known ← jIvList (← arg j "known"); let read ← jIvList (← arg j "read")
      let polya ← jInt (← arg j "polya"); let polyt ← jInt (← arg j "polyt")
      let d ← jInt (← arg j "d"); let mo ← jInt (← arg j "min_ov")
      let cmpf : Iv → Iv → Bool := fun a b => overlaps_at_least_when_overlap a b mo
      let o : Option ProfileResult → Json := fun r => match r with | none => jErr "error" | some r => profJson r
      pure (both (o (constructNonOverlapping (mirrorL L known) cmpf d (mirrorL L read) (mirrorPos L polyt) (mirrorPos L polya)))
                 (o ((constructNonOverlapping known cmpf d read polya polyt).map mirrorProf))))
]

/-- all C11 ops: the relations on the interval / profile models above + the ops of the extension files (transformations of
    the merged models; the models themselves are reached through their own properties' ops) -/
def ops : List (String × Handler) :=
  baseOps
  ++ IsoVerif.Driver.C11Align.ops
  ++ IsoVerif.Driver.C11Assign.ops
  ++ IsoVerif.Driver.C11Graph.ops
  ++ IsoVerif.Driver.C11BedCorr.ops
  ++ IsoVerif.Driver.C11MonoNovel.ops
  ++ IsoVerif.Driver.C11AssignMirror.ops

end IsoVerif.Driver.C11
