/- Driver ops exposing the GENERATED tables, so that the harness can compare them on every run with the live
   Python objects they were extracted from (translator self-check, DESIGN §3.1). -/
import IsoVerif.Driver.Core
import IsoVerif.Gen.Enums
import IsoVerif.Gen.EventClasses
import IsoVerif.Gen.Strategies
import IsoVerif.Gen.Constants
import IsoVerif.Gen.SharedState

namespace IsoVerif.Driver.GenOps
open Lean IsoVerif.Driver IsoVerif.Gen

def members {α} (all : List α) (name : α → String) (value : α → Nat) : Json :=
  ofList (fun x => Json.arr #[ofStr (name x), ofNat (value x)]) all

def names (l : List String) : Json := ofList ofStr l

def ops : List (String × Handler) := [
  ("enums", fun _ => pure (Json.mkObj [
      ("ReadAssignmentType", members ReadAssignmentType.allMembers ReadAssignmentType.name ReadAssignmentType.value),
      ("MatchClassification", members MatchClassification.allMembers MatchClassification.name MatchClassification.value),
      ("MatchEventSubtype", members MatchEventSubtype.allMembers MatchEventSubtype.name MatchEventSubtype.value),
      ("CountingStrategy", members CountingStrategy.allMembers CountingStrategy.name CountingStrategy.value),
      ("GroupedOutputFormat", members GroupedOutputFormat.allMembers GroupedOutputFormat.name GroupedOutputFormat.value),
      ("CigarEvent", members CigarEvent.allMembers CigarEvent.name CigarEvent.value),
      ("AlignmentType", members AlignmentType.allMembers AlignmentType.name AlignmentType.value),
      ("TranscriptModelType", members TranscriptModelType.allMembers TranscriptModelType.name TranscriptModelType.value)])),
  ("rat_classes", fun _ => pure (ofList (fun (t : ReadAssignmentType) => Json.mkObj [
      ("name", ofStr t.name), ("is_inconsistent", ofBool t.is_inconsistent), ("is_consistent", ofBool t.is_consistent),
      ("is_unassigned", ofBool t.is_unassigned), ("is_unique", ofBool t.is_unique), ("is_ambiguous", ofBool t.is_ambiguous)])
      ReadAssignmentType.allMembers)),
  ("mes_classes", fun _ => pure (ofList (fun (t : MatchEventSubtype) => Json.mkObj [
      ("name", ofStr t.name), ("is_alignment_artifact", ofBool t.is_alignment_artifact), ("is_minor_error", ofBool t.is_minor_error),
      ("is_consistent", ofBool t.is_consistent), ("is_major_elongation", ofBool t.is_major_elongation),
      ("is_minor_elongation", ofBool t.is_minor_elongation), ("is_major_inconsistency", ofBool t.is_major_inconsistency),
      ("is_intronic_inconsistency", ofBool t.is_intronic_inconsistency),
      ("nnic", ofBool (nnic_event_types.contains t)), ("nic", ofBool (nic_event_types.contains t)),
      ("nonintronic", ofBool (nonintronic_events.contains t)),
      ("cost_hundredths", ofOpt ofNat (event_cost_hundredths t))])
      MatchEventSubtype.allMembers)),
  ("cs_flags", fun _ => pure (ofList (fun (s : CountingStrategy) => Json.mkObj [
      ("name", ofStr s.name), ("no_inconsistent", ofBool s.no_inconsistent), ("ambiguous", ofBool s.ambiguous),
      ("inconsistent_minor", ofBool s.inconsistent_minor), ("inconsistent", ofBool s.inconsistent)])
      CountingStrategy.allMembers)),
  ("gof_flags", fun _ => pure (ofList (fun (s : GroupedOutputFormat) => Json.mkObj [
      ("name", ofStr s.name), ("output_matrix", ofBool s.output_matrix), ("output_linear", ofBool s.output_linear)])
      GroupedOutputFormat.allMembers)),
  ("matching_presets", fun _ => pure (ofList (fun (p : String × MatchingPreset) => Json.mkObj [
      ("name", ofStr p.1), ("delta", ofInt p.2.delta), ("max_intron_shift", ofInt p.2.max_intron_shift),
      ("max_missed_exon_len", ofInt p.2.max_missed_exon_len), ("max_fake_terminal_exon_len", ofInt p.2.max_fake_terminal_exon_len),
      ("max_suspicious_intron_abs_len", ofInt p.2.max_suspicious_intron_abs_len),
      ("max_suspicious_intron_rel_len_milli", ofInt p.2.max_suspicious_intron_rel_len),
      ("resolve_ambiguous", ofStr p.2.resolve_ambiguous), ("correct_minor_errors", ofBool p.2.correct_minor_errors)])
      matching_presets)),
  ("correction_presets", fun _ => pure (ofList (fun (p : String × CorrectionPreset) => Json.mkObj [
      ("name", ofStr p.1), ("fuzzy_junctions", ofBool p.2.fuzzy_junctions), ("intron_shifts", ofBool p.2.intron_shifts),
      ("skipped_exons", ofBool p.2.skipped_exons), ("terminal_exons", ofBool p.2.terminal_exons),
      ("fake_terminal_exons", ofBool p.2.fake_terminal_exons), ("microintron_retention", ofBool p.2.microintron_retention)])
      correction_presets)),
  ("constants", fun _ => pure (Json.mkObj [
      ("STR_LEN_BYTES", ofNat ser_STR_LEN_BYTES), ("NONE_STR_LEN", ofNat ser_NONE_STR_LEN),
      ("SHORT_INT_BYTES", ofNat ser_SHORT_INT_BYTES), ("LONG_INT_BYTES", ofNat ser_LONG_INT_BYTES),
      ("TERMINATION_INT", ofNat ser_TERMINATION_INT), ("SHORT_TERMINATION_INT", ofNat ser_SHORT_TERMINATION_INT),
      ("SHORT_FLOAT_MULTIPLIER", ofNat ser_SHORT_FLOAT_MULTIPLIER), ("DICT_TYPE_LEN", ofNat ser_DICT_TYPE_LEN),
      ("DICT_INT_TYPE", ofNat ser_DICT_INT_TYPE), ("DICT_INT_PAIR_TYPE", ofNat ser_DICT_INT_PAIR_TYPE),
      ("DICT_STR_TYPE", ofNat ser_DICT_STR_TYPE),
      ("COVERAGE_BIN", ofInt ap_COVERAGE_BIN), ("MAX_REGION_LEN", ofInt ap_MAX_REGION_LEN),
      ("MIN_READS_TO_SPLIT", ofInt ap_MIN_READS_TO_SPLIT), ("ABS_COV_VALLEY", ofInt ap_ABS_COV_VALLEY),
      ("REL_COV_VALLEY_e4", ofInt ap_REL_COV_VALLEY_e4),
      ("GENE_INFO", ofNat tmp_GENE_INFO), ("READ_ASSIGNMENT", ofNat tmp_READ_ASSIGNMENT),
      ("CANONICAL_FWD_SITES", ofList (fun (p : String × String) => Json.arr #[ofStr p.1, ofStr p.2]) CANONICAL_FWD_SITES),
      ("CANONICAL_REV_SITES", ofList (fun (p : String × String) => Json.arr #[ofStr p.1, ofStr p.2]) CANONICAL_REV_SITES),
      ("transcript_prefix", ofStr tn_transcript_prefix), ("novel_gene_prefix", ofStr tn_novel_gene_prefix),
      ("nic_transcript_suffix", ofStr tn_nic_transcript_suffix), ("nnic_transcript_suffix", ofStr tn_nnic_transcript_suffix),
      ("smc_extra_left_mod_position", ofNat smc_extra_left_mod_position), ("smc_extra_right_mod_position", ofNat smc_extra_right_mod_position),
      ("smc_undefined_position", ofNat smc_undefined_position), ("smc_absent_position", ofNat smc_absent_position)])),
  ("shared_state", fun _ => pure (Json.mkObj [("inventory", names shared_state_inventory), ("args_fields", names args_fields_mutated)]))
]

end IsoVerif.Driver.GenOps
