import IsoVerif.Driver.Core
import IsoVerif.Model.BamMerge
import IsoVerif.Model.GtfCache
import IsoVerif.Model.BamPipeline
import IsoVerif.Driver.C08

namespace IsoVerif.Driver.C12
open Lean IsoVerif.Driver IsoVerif.Gen IsoVerif.Model.C12 IsoVerif.Model.Resolver IsoVerif.Model.C02

def jAln (j : Json) : Except String Aln := do
  let a ← j.getArr?
  if a.size = 3 then
    pure { start := ← jInt a[0]!, stop := ← jInt a[1]!, tag := ← jNat a[2]! }
  else throw "alignment [start, stop, tag] expected"

def jFiles (j : Json) : Except String (List (List Aln)) := jList (jList jAln) j

def ofEntry (e : Entry) : Json := Json.arr #[ofNat e.1, ofNat e.2.tag]

def ofForwarded (l : List (Iv × List Entry)) : Json :=
  ofList (fun rc => Json.arr #[ofIv rc.1, ofList ofEntry rc.2]) l

/-- the implementation's `split_coverage_regions` values, passed in as a table region ↦ sub-regions -/
def splitOfTable (t : List (Iv × List Iv)) : SplitFn := fun r _ _ =>
  match t.lookup r with
  | some s => s
  | none => [r]

def jField {α} (f : Json → Except String α) (j : Json) (k : String) : Except String (Option α) :=
  match j.getObjVal? k with
  | .ok v => jOpt f v
  | .error _ => pure none

def jCacheEntry (j : Json) : Except String CacheEntry := do
  pure { genedb := ← jField jStr j "genedb", gtfMtime := ← jField jInt j "gtf_mtime",
         dbMtime := ← jField jInt j "db_mtime", complete := ← jField jBool j "complete_db" }

def jCache (j : Json) : Except String Cache := jList (jPair jStr jCacheEntry) j

def jFsM (j : Json) : Except String (List (String × Int)) := jList (jPair jStr jInt) j

def ofEntryC (e : CacheEntry) : Json :=
  Json.mkObj [("genedb", ofOpt ofStr e.genedb), ("gtf_mtime", ofOpt ofInt e.gtfMtime),
              ("db_mtime", ofOpt ofInt e.dbMtime), ("complete_db", ofOpt ofBool e.complete)]

def ofCache (c : Cache) : Json := ofList (fun kv => Json.arr #[ofStr kv.1, ofEntryC kv.2]) c

def ofLookup : Lookup → Json
  | .hit db => Json.mkObj [("hit", ofStr db)]
  | .miss => Json.str "miss"
  | .typeError => jErr "TypeError"

def convTok (g : Nat) (c : Bool) : Nat := 2 * g + (if c then 1 else 0)
def backTok (d : Nat) : Nat := 3 * d + 1

def dataOf (fs : FS) (p : String) : Json :=
  match List.lookup p fs with
  | some f => ofNat f.data
  | none => Json.null

/-- history ops: ["write", p, data] | ["remove", p] | ["gtf2db", gtf, db, complete, clean] |
    ["db2gtf", gtf, db, complete, clean]; the answer lists, per conversion, the returned pair and the content of
    both returned files, and finally the cache -/
def runHistory (ops : Array Json) : Except String Json := do
  let mut w : World := { fs := [], cache := [], clock := 1 }
  let mut outs : Array Json := #[]
  for o in ops do
    let a ← o.getArr?
    let kind ← jStr a[0]!
    if kind == "write" then
      w := applyOp convTok w (.write (← jStr a[1]!) (← jNat a[2]!))
    else if kind == "remove" then
      w := applyOp convTok w (.remove (← jStr a[1]!))
    else
      let g ← jStr a[1]!
      let d ← jStr a[2]!
      let c ← jBool a[3]!
      let cl ← jBool a[4]!
      let r := if kind == "gtf2db" then convertGtf2Db convTok w g d c cl else convertDb2Gtf backTok w g d c cl
      match r with
      | .ok w' g' d' =>
        outs := outs.push (Json.mkObj [("gtf", ofStr g'), ("db", ofStr d'), ("gtf_data", dataOf w'.fs g'),
                                       ("db_data", dataOf w'.fs d'), ("converted", ofBool (w'.clock != w.clock))])
        w := w'
      | .typeError => outs := outs.push (jErr "TypeError")
      | .convertFailed => outs := outs.push (jErr "convert")
  pure (Json.mkObj [("results", Json.arr outs), ("cache", ofCache w.cache)])

/-! ### end to end (Model/BamPipeline.lean) -/

def jMatchN (j : Json) : Except String (Match Nat) := do
  let (g, t) ← jPair (jOpt jNat) (jOpt jNat) j
  pure { gene := g, transcript := t }

def jPRec (j : Json) : Except String PRec := do
  pure { basic := ← C08.jRec (← arg j "rec"), isoMatches := ← jList jMatchN (← arg j "m"),
         nCorrectedExons := ← jNat (← arg j "nce"), isoformIntrons := ← jList (jPair jNat jNat) (← arg j "ii"),
         rest := ← jNat (← arg j "rest") }

def ofPRec (p : PRec) : Json := Json.mkObj [("rec", C08.ofRec p.basic), ("rest", ofNat p.rest)]

def ofPartN (p : Part Nat) : Json :=
  Json.mkObj [("rows", ofList (fun r => Json.arr #[ofNat r.1, ofInt r.2]) p.rows),
              ("stats", ofNatList [p.ambiguous, p.noFeature, p.notAligned, p.usable])]

def ofRatN (q : Rat) : Json := Json.arr #[ofInt q.num, ofNat q.den]

def ofTpmN (t : TpmTable Nat) : Json :=
  Json.mkObj [("rows", ofList (fun r => Json.arr #[ofNat r.1, ofRatN r.2, ofInt (millionths r.2)]) t.rows),
              ("unassigned", Json.arr #[ofRatN t.unassigned, ofInt (millionths t.unassigned)])]

def jCountingS (j : Json) : Except String CountingStrategy := C08.jCounting j

def jNormN (j : Json) : Except String NormalizationMethod := do
  let s ← jStr j
  match NormalizationMethod.ofName? s with
  | some x => pure x
  | none => throw s!"unknown normalization {s}"

/-- feature ids are interned fixed-width names ("T003", "G001"): numeric order = Python `str` order, and no name
    starts with `_` -/
def jConfig (j : Json) : Except String Config := do
  let cg ← jList (jList jNat) (← arg j "complete_genes")
  let ct ← jList (jList jNat) (← arg j "complete_transcripts")
  pure { highMemory := ← jBool (← arg j "high_memory"),
         geneStrategy := ← jCountingS (← arg j "gene_strategy"),
         transcriptStrategy := ← jCountingS (← arg j "transcript_strategy"),
         le := fun a b => decide (a ≤ b), norm := ← jNormN (← arg j "norm"), isStatLike := fun _ => false,
         completeGenes := fun c => cg[c]?.getD [], completeTranscripts := fun c => ct[c]?.getD [],
         mergeOrder := ← jList jNat (← arg j "merge_order") }

def ofOutput (o : Output) : Json :=
  Json.mkObj [("chrs", ofList (fun c => Json.mkObj [("records", ofList ofPRec c.records), ("gene", ofPartN c.gene),
                                                     ("transcript", ofPartN c.transcript)]) o.chrs),
              ("gene", ofPartN o.geneCounts), ("transcript", ofPartN o.transcriptCounts),
              ("gene_tpm", ofTpmN o.geneTpm), ("transcript_tpm", ofTpmN o.transcriptTpm)]

def idsOfTable (t : List (List Nat)) : Nat → Nat → Nat := fun c i => (t[c]?.getD [])[i]?.getD (1000000 + i)

def ops : List (String × Handler) := [
  ("downstream", fun j => do
      let cfg ← jConfig (← arg j "cfg")
      let ids ← jList (jList jNat) (← arg j "ids")
      let unmapped ← jList jNat (← arg j "unmapped")
      let chroms ← jList (jList jPRec) (← arg j "chroms")
      match downstream cfg (idsOfTable ids) unmapped chroms with
      | none => pure (jErr "error")
      | some o => pure (ofOutput o)),
  ("count_unaligned", fun j => do pure (ofNat (countUnaligned (← jList jNat (← arg j "unmapped"))))),
  ("stamp", fun j => do
      let ids ← jList jNat (← arg j "ids")
      let l ← jList jPRec (← arg j "records")
      pure (ofList ofPRec (stampChr (← jNat (← arg j "chr")) (fun i => ids[i]?.getD (1000000 + i)) l))),
  ("merge", fun j => do pure (ofList ofEntry (merge (← jFiles (← arg j "files"))))),
  ("forwarded", fun j => do
      let files ← jFiles (← arg j "files")
      let t ← jList (jPair jIv jIvList) (← arg j "splits")
      let mem ← jBool (← arg j "mem")
      pure (ofForwarded (if mem then forwardedMem (splitOfTable t) files else forwarded (splitOfTable t) files))),
  ("clusters", fun j => do
      let files ← jFiles (← arg j "files")
      pure (ofForwarded (clusters Prod.snd (merge files)))),
  ("find_converted_db", fun j => do
      let c ← jCache (← arg j "cache")
      let fs ← jFsM (← arg j "fs")
      pure (ofLookup (findConvertedDb c (fun p => fs.lookup p) (← jStr (← arg j "gtf")) (← jBool (← arg j "complete"))))),
  ("compare_stored_gtf", fun j => do
      let c ← jCache (← arg j "cache")
      let fs ← jFsM (← arg j "fs")
      pure (ofBool (compareStoredGtf c (fun p => fs.lookup p) (← jStr (← arg j "gtf")) (← jStr (← arg j "db"))))),
  ("history", fun j => do runHistory (← jArr (← arg j "ops")))
]

end IsoVerif.Driver.C12
