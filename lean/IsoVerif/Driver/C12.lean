import IsoVerif.Driver.Core
import IsoVerif.Model.BamMerge
import IsoVerif.Model.GtfCache

namespace IsoVerif.Driver.C12
open Lean IsoVerif.Driver IsoVerif.Gen IsoVerif.Model.C12

def jAln (j : Json) : Except String Aln := do
  let a ← j.getArr?
  if a.size = 3 then
    pure { start := ← jInt a[0]!, stop := ← jInt a[1]!, tag := ← jNat a[2]! }
  else throw "alignment [start, stop, tag] expected"

def jFiles (j : Json) : Except String (List (List Aln)) := jList (jList jAln) j

def ofEntry (e : Entry) : Json := Json.arr #[ofNat e.1, ofNat e.2.tag]

def ofForwarded (l : List (Iv × List Entry)) : Json :=
  ofList (fun rc => Json.arr #[ofIv rc.1, ofList ofEntry rc.2]) l

/-- the implementation's `split_coverage_regions` values, passed in as a table region ↦ sub-regions -/
def splitOfTable (t : List (Iv × List Iv)) : SplitFn := fun r _ _ =>
  match t.lookup r with
  | some s => s
  | none => [r]

def jField {α} (f : Json → Except String α) (j : Json) (k : String) : Except String (Option α) :=
  match j.getObjVal? k with
  | .ok v => jOpt f v
  | .error _ => pure none

def jCacheEntry (j : Json) : Except String CacheEntry := do
  pure { genedb := ← jField jStr j "genedb", gtfMtime := ← jField jInt j "gtf_mtime",
         dbMtime := ← jField jInt j "db_mtime", complete := ← jField jBool j "complete_db" }

def jCache (j : Json) : Except String Cache := jList (jPair jStr jCacheEntry) j

def jFsM (j : Json) : Except String (List (String × Int)) := jList (jPair jStr jInt) j

def ofEntryC (e : CacheEntry) : Json :=
  Json.mkObj [("genedb", ofOpt ofStr e.genedb), ("gtf_mtime", ofOpt ofInt e.gtfMtime),
              ("db_mtime", ofOpt ofInt e.dbMtime), ("complete_db", ofOpt ofBool e.complete)]

def ofCache (c : Cache) : Json := ofList (fun kv => Json.arr #[ofStr kv.1, ofEntryC kv.2]) c

def ofLookup : Lookup → Json
  | .hit db => Json.mkObj [("hit", ofStr db)]
  | .miss => Json.str "miss"
  | .typeError => jErr "TypeError"

def convTok (g : Nat) (c : Bool) : Nat := 2 * g + (if c then 1 else 0)
def backTok (d : Nat) : Nat := 3 * d + 1

def dataOf (fs : FS) (p : String) : Json :=
  match List.lookup p fs with
  | some f => ofNat f.data
  | none => Json.null

/-- history ops: ["write", p, data] | ["remove", p] | ["gtf2db", gtf, db, complete, clean] |
    ["db2gtf", gtf, db, complete, clean]; the answer lists, per conversion, the returned pair and the content of
    both returned files, and finally the cache -/
def runHistory (ops : Array Json) : Except String Json := do
  let mut w : World := { fs := [], cache := [], clock := 1 }
  let mut outs : Array Json := #[]
  for o in ops do
    let a ← o.getArr?
    let kind ← jStr a[0]!
    if kind == "write" then
      w := applyOp convTok w (.write (← jStr a[1]!) (← jNat a[2]!))
    else if kind == "remove" then
      w := applyOp convTok w (.remove (← jStr a[1]!))
    else
      let g ← jStr a[1]!
      let d ← jStr a[2]!
      let c ← jBool a[3]!
      let cl ← jBool a[4]!
      let r := if kind == "gtf2db" then convertGtf2Db convTok w g d c cl else convertDb2Gtf backTok w g d c cl
      match r with
      | .ok w' g' d' =>
        outs := outs.push (Json.mkObj [("gtf", ofStr g'), ("db", ofStr d'), ("gtf_data", dataOf w'.fs g'),
                                       ("db_data", dataOf w'.fs d'), ("converted", ofBool (w'.clock != w.clock))])
        w := w'
      | .typeError => outs := outs.push (jErr "TypeError")
      | .convertFailed => outs := outs.push (jErr "convert")
  pure (Json.mkObj [("results", Json.arr outs), ("cache", ofCache w.cache)])

def ops : List (String × Handler) := [
  ("merge", fun j => do pure (ofList ofEntry (merge (← jFiles (← arg j "files"))))),
  ("forwarded", fun j => do
      let files ← jFiles (← arg j "files")
      let t ← jList (jPair jIv jIvList) (← arg j "splits")
      let mem ← jBool (← arg j "mem")
      pure (ofForwarded (if mem then forwardedMem (splitOfTable t) files else forwarded (splitOfTable t) files))),
  ("clusters", fun j => do
      let files ← jFiles (← arg j "files")
      pure (ofForwarded (clusters Prod.snd (merge files)))),
  ("find_converted_db", fun j => do
      let c ← jCache (← arg j "cache")
      let fs ← jFsM (← arg j "fs")
      pure (ofLookup (findConvertedDb c (fun p => fs.lookup p) (← jStr (← arg j "gtf")) (← jBool (← arg j "complete"))))),
  ("compare_stored_gtf", fun j => do
      let c ← jCache (← arg j "cache")
      let fs ← jFsM (← arg j "fs")
      pure (ofBool (compareStoredGtf c (fun p => fs.lookup p) (← jStr (← arg j "gtf")) (← jStr (← arg j "db"))))),
  ("history", fun j => do runHistory (← jArr (← arg j "ops")))
]

end IsoVerif.Driver.C12
