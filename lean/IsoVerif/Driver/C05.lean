import IsoVerif.Driver.Core
import IsoVerif.Model.Regions
import IsoVerif.Model.RegionsEdge
import IsoVerif.Model.IntergenicFilter

namespace IsoVerif.Driver.C05
open Lean IsoVerif.Driver IsoVerif.Gen IsoVerif.Model.Regions

/-- alignment = `[start, stop, flags, mapq, rid]`, flags: 1 secondary, 2 supplementary, 4 reference_id == -1 -/
def jAln (j : Json) : Except String Aln := do
  let a ← j.getArr?
  if a.size = 5 then
    let fl ← jNat a[2]!
    pure { start := ← jInt a[0]!, stop := ← jInt a[1]!, secondary := fl % 2 == 1, supplementary := (fl / 2) % 2 == 1,
           mapped := (fl / 4) % 2 == 0, mapq := ← jInt a[3]!, rid := ← jNat a[4]! }
  else throw "alignment: 5 fields expected"

def jAlns (j : Json) : Except String (List Aln) := jList jAln j

/-- fetched record = `[start, stop | null, flags, mapq, rid]`; `null` = `reference_end is None` -/
def jRawAln (j : Json) : Except String RawAln := do
  let a ← j.getArr?
  if a.size = 5 then
    let fl ← jNat a[2]!
    pure { start := ← jInt a[0]!, stop := ← jOpt jInt a[1]!, secondary := fl % 2 == 1, supplementary := (fl / 2) % 2 == 1,
           mapped := (fl / 4) % 2 == 0, mapq := ← jInt a[3]!, rid := ← jNat a[4]! }
  else throw "record: 5 fields expected"

/-- retained record for the BED printer = `[rid, chr, exons, blocks, multimapper]` -/
def jBedRec (j : Json) : Except String BedRec := do
  let a ← j.getArr?
  if a.size = 5 then
    pure { rid := ← jNat a[0]!, chr := ← jNat a[1]!, exons := ← jIvList a[2]!, blocks := ← jIvList a[3]!,
           multi := ← jBool a[4]! }
  else throw "bed record: 5 fields expected"

def ofBedLine (l : Nat × Nat × List Iv) : Json := Json.arr #[ofNat l.1, ofNat l.2.1, ofIvList l.2.2]

def jCov (j : Json) : Except String CovDict := jList jIv j

def jMode (j : Json) : Except String Mode := do
  let s ← jStr j
  if s == "bam" then pure .bam else if s == "memory" then pure .memory else throw "mode"

def ofRids (l : List Aln) : Json := ofNatList (l.map (·.rid))

def ofOptRegions : Option (List Iv) → Json
  | none => jErr "error"
  | some l => ofIvList l

def ofOptRids : Option (List Aln) → Json
  | none => jErr "error"
  | some l => ofRids l

def ofForward : Option (List (Iv × List Aln)) → Json
  | none => jErr "error"
  | some l => ofList (fun p => Json.arr #[ofIv p.1, ofRids p.2]) l

/-- insertion sort of a coverage dict by key (for a canonical dump) -/
def insKey (p : Int × Int) : List (Int × Int) → List (Int × Int)
  | [] => [p]
  | q :: qs => if p.1 ≤ q.1 then p :: q :: qs else q :: insKey p qs
def sortCov (d : CovDict) : CovDict := d.foldr insKey []

def ofIdxRange (idx : Idx) (lo : Int) (n : Nat) : Json :=
  Json.arr ((List.range n).map (fun (i : Nat) =>
    let k : Int := lo + Int.ofNat i
    Json.arr #[ofInt k, ofOpt ofNat (idx.get k)])).toArray

def ofStore (s : Store) : Json :=
  Json.mkObj [("region", ofOpt ofIv s.region), ("cov", ofIvList (sortCov s.cov)), ("count", ofNat s.alns.length)]

def jRec (j : Json) : Except String Rec := do
  let a ← j.getArr?
  if a.size = 9 then
    let tn ← jStr a[6]!
    match ReadAssignmentType.ofName? tn with
    | none => throw "assignment type"
    | some t =>
      pure { rid := ← jNat a[0]!, chr := ← jNat a[1]!, start := ← jInt a[2]!, stop := ← jInt a[3]!,
             isoforms := ← jList jNat a[4]!, region := ← jIv a[5]!, atype := t, multimapper := ← jBool a[7]!,
             penalty := ← jInt a[8]! }
  else throw "record: 9 fields expected"

def jParams (j : Json) : Except String Params := do
  pure { noSecondary := ← jBool (← arg j "no_secondary"), minMapq := ← jInt (← arg j "min_mapq") }

def ofStats (s : Stats) : Json :=
  Json.mkObj (AlignmentType.allMembers.map (fun t => (t.name, ofNat (s t))))

/-- `{"aln": [start, stop, flags, mapq, rid], "exons": n, "trimmed": n}` -/
def jIgAln (j : Json) : Except String IgAln := do
  pure ⟨← jAln (← arg j "aln"), ← jNat (← arg j "exons"), ← jNat (← arg j "trimmed")⟩

def ops : List (String × Handler) := [
  ("intergenic_records", fun j => do
      let l ← jList jIgAln (← arg j "alns")
      pure (ofNatList ((intergenicRecords (← jParams (← arg j "params")) (← jInt (← arg j "cutoff")) l).map (fun a => a.aln.rid)))),
  ("bin", fun j => do pure (ofInt (bin (← jInt (← arg j "x"))))),
  ("storage", fun j => do pure (ofStore (buildStore (← jAlns (← arg j "alns"))))),
  ("not_adjacent", fun j => do
      pure (ofBool (notAdjacent (← jOpt jIv (← arg j "region")) (← jAln (← arg j "aln"))))),
  ("clusters", fun j => do
      let l ← jAlns (← arg j "alns")
      pure (Json.mkObj [("clusters", ofList ofRids (clusters l)),
                        ("regions", ofList (fun s => ofOpt ofIv s.region) (processStores l)),
                        ("stats", ofStats (processStats l))])),
  ("split", fun j => do
      pure (ofOptRegions (splitCoverageRegions (← jIv (← arg j "R")) (← jNat (← arg j "count")) (← jCov (← arg j "cov"))))),
  ("split_buggy", fun j => do
      pure (ofOptRegions (splitCoverageRegionsBuggy (← jIv (← arg j "R")) (← jNat (← arg j "count")) (← jCov (← arg j "cov"))))),
  ("split_of_alns", fun j => do
      let s := buildStore (← jAlns (← arg j "alns"))
      match s.region with
      | none => pure (jErr "error")
      | some R => pure (ofOptRegions (splitCoverageRegions R s.alns.length s.cov))),
  ("fill_index", fun j => do
      let s := buildStore (← jAlns (← arg j "alns"))
      match s.region, s.fillIndex with
      | some R, some s' =>
        let lo := bin R.1
        let n := (bin R.2 + 2 - lo).toNat
        pure (Json.mkObj [("start", ofIdxRange s'.startIdx lo n), ("end", ofIdxRange s'.endIdx lo n)])
      | _, _ => pure (jErr "error")),
  ("mem_get", fun j => do
      let s := buildStore (← jAlns (← arg j "alns"))
      pure (ofOptRids (s.memGet (← jOpt jIv (← arg j "region"))))),
  ("mem_get_buggy", fun j => do
      let s := buildStore (← jAlns (← arg j "alns"))
      pure (ofOptRids (s.memGetBuggy (← jOpt jIv (← arg j "region"))))),
  ("bam_get", fun j => do
      pure (ofRids (bamGet (← jAlns (← arg j "alns")) (← jIv (← arg j "region"))))),
  ("collect", fun j => do
      pure (ofForward (collect (← jMode (← arg j "mode")) (← jAlns (← arg j "alns"))))),
  ("collect_buggy", fun j => do
      pure (ofForward (collectBuggy (← jMode (← arg j "mode")) (← jAlns (← arg j "alns"))))),
  ("collect_raw", fun j => do
      pure (ofForward (collectRaw (← jMode (← arg j "mode")) (← jList jRawAln (← arg j "alns"))))),
  ("collect_raw_orig", fun j => do
      pure (ofForward (collectRawOrig (← jMode (← arg j "mode")) (← jList jRawAln (← arg j "alns"))))),
  ("raw_stats", fun j => do
      pure (ofStats (processStatsRaw (← jList jRawAln (← arg j "alns"))))),
  ("bed_lines", fun j => do
      pure (ofList ofBedLine (bedLines (← jList jBedRec (← arg j "recs"))))),
  ("bed_lines_orig", fun j => do
      pure (ofList ofBedLine (bedLinesOrig (← jList jBedRec (← arg j "recs"))))),
  ("passes", fun j => do
      pure (ofBool (passes (← jParams (← arg j "params")) (← jAln (← arg j "aln"))))),
  ("stat_key", fun j => do
      pure (ofOpt (fun (t : AlignmentType) => ofStr t.name) (statKey (← jAln (← arg j "aln"))))),
  ("rec_eq", fun j => do
      pure (ofBool ((← jRec (← arg j "a")).eqv (← jRec (← arg j "b"))))),
  ("find_duplicates", fun j => do
      let recs ← jList jRec (← arg j "recs")
      pure (ofNatList (findDuplicates (recEqAt recs) (← jList jNat (← arg j "idxs"))))),
  ("select_best", fun j => do
      match selectBest (← jList jRec (← arg j "recs")) with
      | .exact l => pure (Json.mkObj [("exact", ofNatList l)])
      | .oneOf l => pure (Json.mkObj [("one_of", ofNatList l)])),
  ("resolve_kept", fun j => do
      let r := resolveKeptExec (← jList jRec (← arg j "recs"))
      pure (Json.mkObj [(if r.1 then "exact" else "one_of", ofNatList r.2)]))
]

end IsoVerif.Driver.C05
