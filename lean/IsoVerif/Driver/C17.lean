import IsoVerif.Driver.Core
import IsoVerif.Model.Ids
import IsoVerif.Model.IdsPrinter
import IsoVerif.Model.IdsInput

namespace IsoVerif.Driver.C17
open Lean IsoVerif.Driver IsoVerif.Model.C17

def jS (j : Json) : Except String Str := do pure (← jStr j).toList
def ofS (s : Str) : Json := ofStr (String.ofList s)

/-- `null` or `{"genes":[..],"transcripts":[..]}` -/
def jGenedbIds (j : Json) : Except String (Option (List Str × List Str)) :=
  jOpt (fun o => do pure (← jList jS (← arg o "genes"), ← jList jS (← arg o "transcripts"))) j

def jRefFeature (j : Json) : Except String RefFeature := do
  pure ⟨← jInt (← arg j "start"), ← jInt (← arg j "end"), ← jS (← arg j "strand"),
        ← jOpt (jList jS) (← arg j "attr")⟩

/-- a reference record of any feature type: optional `"type"` (absent = `exon`); `ofType` = (type = "exon") -/
def jRefRecord (j : Json) : Except String RefRecord := do
  let t ← match j.getObjVal? "type" with
    | .ok v => if v.isNull then pure "exon" else jStr v
    | .error _ => pure "exon"
  pure ⟨t = "exon", ← jRefFeature j⟩

def jKey (j : Json) : Except String ExonKey := do
  let a ← j.getArr?
  if a.size = 4 then pure (← jS a[0]!, ← jInt a[1]!, ← jInt a[2]!, ← jS a[3]!)
  else throw "key expected"

def jEvent (j : Json) : Except String IdEvent := do
  let k ← jStr (← arg j "kind")
  if k = "fl_discard" then pure .flDiscard
  else if k = "fl_novel" then pure (.flNovel (← jOpt jS (← arg j "gene")) (← jBool (← arg j "nic")))
  else if k = "monoexon" then pure (.monoexon (← jBool (← arg j "valid")))
  else throw s!"unknown event {k}"

def drawMany : Nat → IdDistributor → Option (List Nat)
  | 0, _ => some []
  | n + 1, d =>
    match d.increment with
    | none => none
    | some (v, d1) => (drawMany n d1).map (v :: ·)

def ofIdList : Option (List Str × FeatureIdStorage) → Json
  | none => jErr "error"
  | some (ids, _) => ofList ofS ids

/-- distributor description: `null` = `SimpleIDDistributor()`, else the reference ids an
    `ExcludingIdDistributor` is built from -/
def jDist (j : Json) : Except String IdDistributor := do
  if j.isNull then pure SimpleIDDistributor.init
  else pure (ExcludingIdDistributor.init (← jGenedbIds j))

def storageOf (j : Json) : Except String FeatureIdStorage := do
  let d ← jDist (← arg j "dist")
  let recs ← jOpt (jList jRefRecord) (← arg j "genedb")
  pure (FeatureIdStorage.initRecords d recs (← jS (← arg j "chr")))

/-- the storage of the code before the repair (`featuretype=feature` in the region query) -/
def storageOrigOf (j : Json) : Except String FeatureIdStorage := do
  let d ← jDist (← arg j "dist")
  let recs ← jOpt (jList jRefRecord) (← arg j "genedb")
  pure (FeatureIdStorage.initOrig d recs (← jS (← arg j "chr")))

def jTModel (j : Json) : Except String TModel := do
  let other ← jList (fun o => do
      let a ← o.getArr?
      if a.size = 3 then pure (← jInt a[0]!, ← jInt a[1]!, ← jS a[2]!) else throw "feature triple expected")
    (← arg j "other")
  pure ⟨← jS (← arg j "chr"), ← jS (← arg j "strand"), ← jS (← arg j "tid"), ← jS (← arg j "gid"),
        ← jIvList (← arg j "exons"), other⟩

def jRegion (j : Json) : Except String (Str × (Int × Int)) := do
  let a ← j.getArr?
  if a.size = 3 then pure (← jS a[0]!, (← jInt a[1]!, ← jInt a[2]!)) else throw "region triple expected"

def jDumpCall (j : Json) : Except String DumpCall := do
  let regions ← jOpt (jList jRegion) (← arg j "gene_regions")
  pure ⟨(← jNat (← arg j "printer")) = 1, ← jS (← arg j "gene_chr"), regions.getD [],
        ← jList jTModel (← arg j "models")⟩

def ofOutLine : OutLine → Json
  | (.gene _ s e strand gid, _) =>
      Json.arr #[ofStr "gene", ofInt s, ofInt e, ofS strand, ofS gid, Json.null, Json.null]
  | (.transcript _ s e strand gid tid, _) =>
      Json.arr #[ofStr "transcript", ofInt s, ofInt e, ofS strand, ofS gid, ofS tid, Json.null]
  | (.feature ft _ s e strand gid tid num, id) =>
      Json.arr #[ofS ft, ofInt s, ofInt e, ofS strand, ofS gid, ofS tid, Json.arr #[ofNat num, ofOpt ofS id]]

/-- outputs of the calls up to (and marking) the first aborting one -/
def dumpSeq : PrintersState → List DumpCall → List Json
  | _, [] => []
  | s, c :: cs =>
    match dump s.st (if c.extended then s.printedExtended else s.printedModels) c.giChr c.regions c.models with
    | none => [jErr "error"]
    | some (out, printed', st') =>
      let s' : PrintersState := if c.extended then ⟨st', s.printedModels, printed'⟩ else ⟨st', printed', s.printedExtended⟩
      ofList ofOutLine out :: dumpSeq s' cs

/-- `[seq, kind, gene_id, transcript_id]`, kind = "gene" | "transcript" | anything else -/
def jGtfRec (j : Json) : Except String GtfRec := do
  let a ← j.getArr?
  if a.size = 4 then
    let k ← jStr a[1]!
    let tr ← jOpt jS a[3]!
    pure ⟨← jS a[0]!, if k = "gene" then .gene else if k = "transcript" || k = "mRNA" then .transcript else .other,
          ← jS a[2]!, tr.getD []⟩
  else throw "record expected"

def ofGtfRec (r : GtfRec) : Json :=
  Json.arr #[ofS r.gene, if r.kind == .gene then Json.null else ofS r.tr]

/-- the sequences gffutils gave the features (the parameter of `dbOf`): `[[id, seq], ...]` -/
def jSeqMap (j : Json) : Except String (Str → Str) := do
  let l ← jList (jPair jS jS) j
  pure (fun k => (l.lookup k).getD [])

def ops : List (String × Handler) := [
  ("check_gtf", fun j => do
      let r := check (← jBool (← arg j "track")) (← jList jGtfRec (← arg j "recs"))
      pure (Json.mkObj [("ok", ofBool r.1), ("out", ofList ofGtfRec r.2)])),
  ("db_of", fun j => do
      let db := dbOf (← jList jGtfRec (← arg j "recs")) (← jSeqMap (← arg j "gseq")) (← jSeqMap (← arg j "tseq"))
      let chrs ← jList jS (← arg j "chrs")
      pure (Json.mkObj [("accepted", ofBool (checkDb db)),
        ("genes", ofList (fun (g : Str × Str) => Json.arr #[ofS g.1, ofS g.2]) db.genes),
        ("transcripts", ofList (fun (g : Str × Str) => Json.arr #[ofS g.1, ofS g.2]) db.trs),
        ("printed", ofList (fun c => Json.arr #[ofS c, ofList ofS (printedOn db c)]) chrs),
        ("located", ofList (fun c => Json.arr #[ofS c, ofList ofS (locatedOn db c)]) chrs)])),
  ("py_int", fun j => do
      pure (match pyInt (← jS (← arg j "s")) with | none => jErr "error" | some v => ofInt v)),
  ("py_split", fun j => do
      let sep ← jStr (← arg j "sep")
      match sep.toList with
      | [c] => pure (ofList ofS (pySplit c (← jS (← arg j "s"))))
      | _ => throw "one-character separator expected"),
  ("gene_number", fun j => do pure (ofOpt ofInt (geneNumber (← jS (← arg j "id"))))),
  ("transcript_number", fun j => do pure (ofOpt ofInt (transcriptNumber (← jS (← arg j "id"))))),
  ("fmt_transcript", fun j => do
      pure (ofS (novelTranscriptId (← jNat (← arg j "n")) (← jS (← arg j "chr")) (← jBool (← arg j "nic"))))),
  ("fmt_gene", fun j => do pure (ofS (novelGeneId (← jS (← arg j "chr")) (← jNat (← arg j "n"))))),
  ("fmt_exon", fun j => do pure (ofS (exonIdStr (← jS (← arg j "chr")) (← jNat (← arg j "n"))))),
  ("increments", fun j => do
      let d := ExcludingIdDistributor.init (← jGenedbIds (← arg j "genedb"))
      pure (match drawMany (← jNat (← arg j "n")) d with | none => jErr "error" | some l => ofNatList l)),
  ("events", fun j => do
      let d := ExcludingIdDistributor.init (← jGenedbIds (← arg j "genedb"))
      let chr ← jS (← arg j "chr")
      let evs ← jList jEvent (← arg j "events")
      pure (match runEvents d evs with
        | none => jErr "error"
        | some (ms, d') => Json.mkObj [
            ("models", ofList (fun (m : NovelModel) => Json.arr #[ofS (m.transcriptId chr), ofS (m.geneId chr)]) ms),
            ("value", ofNat d'.value)])),
  ("exon_history", fun j => do
      let st ← storageOf j
      pure (ofIdList (st.getIds (← jList jKey (← arg j "calls"))))),
  ("exon_history_orig", fun j => do
      let st ← storageOrigOf j
      pure (ofIdList (st.getIds (← jList jKey (← arg j "calls"))))),
  ("exon_history_pinned", fun j => do
      let st ← storageOf j
      pure (ofIdList (getIdsWith FeatureIdStorage.getIdBuggy st (← jList jKey (← arg j "calls"))))),
  ("exon_history_no_exclude", fun j => do
      let st ← storageOf j
      pure (ofIdList (getIdsWith FeatureIdStorage.getIdNoExclude st (← jList jKey (← arg j "calls"))))),
  ("dump", fun j => do
      let recs ← jOpt (jList jRefRecord) (← arg j "genedb")
      let st := FeatureIdStorage.initRecords SimpleIDDistributor.init recs (← jS (← arg j "chr"))
      pure (Json.arr (dumpSeq ⟨st, [], []⟩ (← jList jDumpCall (← arg j "dumps"))).toArray))
]

end IsoVerif.Driver.C17
