import IsoVerif.Driver.Core
import IsoVerif.Model.Resolver

namespace IsoVerif.Driver.C08
open Lean IsoVerif.Driver IsoVerif.Gen IsoVerif.Model.Resolver

def jRType (j : Json) : Except String ReadAssignmentType := do
  let s ← jStr j
  match ReadAssignmentType.ofName? s with
  | some t => pure t
  | none => throw s!"unknown assignment type {s}"

def jStrategy (j : Json) : Except String MultimapResolvingStrategy := do
  let s ← jStr j
  match MultimapResolvingStrategy.ofName? s with
  | some t => pure t
  | none => throw s!"unknown strategy {s}"

def jCounting (j : Json) : Except String CountingStrategy := do
  let s ← jStr j
  match CountingStrategy.ofName? s with
  | some t => pure t
  | none => throw s!"unknown counting strategy {s}"

def jRec (j : Json) : Except String Rec := do
  pure { aid := ← jNat (← arg j "aid"), readId := ← jNat (← arg j "read"), chr := ← jNat (← arg j "chr"),
         start := ← jInt (← arg j "start"), stop := ← jInt (← arg j "end"), region := ← jIv (← arg j "region"),
         multimapper := ← jBool (← arg j "mm"), polyA := ← jBool (← arg j "polya"),
         atype := ← jRType (← arg j "atype"), gtype := ← jRType (← arg j "gtype"),
         penalty := ← jInt (← arg j "pen"), isoforms := ← jList jNat (← arg j "iso"),
         genes := ← jList jNat (← arg j "genes") }

def ofRec (r : Rec) : Json := Json.mkObj [
  ("aid", ofNat r.aid), ("read", ofNat r.readId), ("chr", ofNat r.chr), ("start", ofInt r.start),
  ("end", ofInt r.stop), ("region", ofIv r.region), ("mm", ofBool r.multimapper), ("polya", ofBool r.polyA),
  ("atype", ofStr r.atype.name), ("gtype", ofStr r.gtype.name), ("pen", ofInt r.penalty),
  ("iso", ofNatList r.isoforms), ("genes", ofNatList r.genes)]

def ofOptRecs : Option (List Rec) → Json
  | none => jErr "error"
  | some l => ofList ofRec l

def jFull (j : Json) : Except String Full := do
  pure { aid := ← jNat (← arg j "aid"), readId := ← jNat (← arg j "read"), chr := ← jNat (← arg j "chr"),
         atype := ← jRType (← arg j "atype"), gtype := ← jRType (← arg j "gtype"),
         multimapper := ← jBool (← arg j "mm"), introns := ← jIvList (← arg j "introns"),
         isoforms := ← jList jNat (← arg j "iso") }

def ofFull (r : Full) : Json := Json.mkObj [
  ("aid", ofNat r.aid), ("read", ofNat r.readId), ("chr", ofNat r.chr), ("atype", ofStr r.atype.name),
  ("gtype", ofStr r.gtype.name), ("mm", ofBool r.multimapper), ("introns", ofIvList r.introns),
  ("iso", ofNatList r.isoforms)]

def jDict (j : Json) : Except String (List (Nat × List Rec)) := jList (jPair jNat (jList jRec)) j

def ofIRecs (l : List IRec) : Json := ofList (fun x => ofNat x.2) l

def ops : List (String × Handler) := [
  ("resolve", fun j => do
      pure (ofOptRecs (resolve (← jStrategy (← arg j "strategy")) (← jList jRec (← arg j "recs"))))),
  ("resolve_buggy", fun j => do
      let l ← jList jRec (← arg j "recs")
      pure (ofOptRecs (if l.length ≤ 1 then some l else selectBestAssignmentBuggy l))),
  ("candidates", fun j => do
      match candidates (← jList jRec (← arg j "recs")) with
      | none => pure (jErr "error")
      | some c => pure (Json.mkObj [("candidates", ofIRecs c), ("kept", ofIRecs (findDuplicates c))])),
  ("find_duplicates", fun j => do
      let l ← jList jRec (← arg j "recs")
      let idx ← jList jNat (← arg j "idx")
      -- indices out of range raise IndexError in the code
      if idx.any (fun i => l.length ≤ i) then pure (jErr "error")
      else pure (ofIRecs (findDuplicates (idx.filterMap (fun i => (l[i]?).map (fun r => (r, i))))))),
  ("set_size", fun j => do pure (ofNat (setSize (← jList jNat (← arg j "l"))))),
  ("compact_penalty", fun j => do pure (ofInt (compactPenalty (← jList jInt (← arg j "l"))))),
  ("group", fun j => do
      let recs ← jList jRec (← arg j "records")
      let s ← jStrategy (← arg j "strategy")
      let high ← jBool (← arg j "high_memory")
      let pickled ← (do match j.getObjVal? "pickled" with
                        | .ok v => jBool v
                        | .error _ => pure false)
      let d? : Option (List (Nat × List Rec)) :=
        if high then (if pickled then groupAllPickled recs else some (groupAll recs)) else some (groupMulti recs)
      match d? with
      | none => pure (jErr "error")
      | some d => pure (ofList (fun kv => Json.arr #[ofNat kv.1, ofOptRecs kv.2]) (resolveAll s d))),
  ("pickle_roundtrip", fun j => do
      match pickleRoundTrip (← jRec (← arg j "rec")) with
      | none => pure (jErr "error")
      | some r => pure (ofRec r)),
  ("verdicts_for", fun j => do
      let d ← jDict (← arg j "resolved")
      pure (ofList (fun kv => Json.arr #[ofNat kv.1, ofList ofRec kv.2]) (verdictsFor (← jNat (← arg j "chr")) d))),
  ("load", fun j => do
      match load (← jDict (← arg j "dict")) (← jList jFull (← arg j "ras")) with
      | none => pure (jErr "error")
      | some l => pure (ofList ofFull l)),
  ("collect_introns", fun j => do pure (ofIvList (collectIntrons (← jList jFull (← arg j "storage"))))),
  ("graph_edges", fun j => do
      pure (ofList (fun e => Json.arr #[ofIv e.1, ofIv e.2])
        (graphEdges (← jIvList (← arg j "discarded")) (← jList jFull (← arg j "storage"))))),
  ("feature_weight", fun j => do
      let t ← jRType (← arg j "atype")
      let n ← jNat (← arg j "n")
      match featureWeight (← jCounting (← arg j "strategy")) t n with
      | none => pure (Json.mkObj [("credited", ofNat 0), ("w", Json.null)])
      | some (a, b) => pure (Json.mkObj [("credited", ofNat (creditedFeatures t n)), ("w", Json.arr #[ofNat a, ofNat b])])),
  ("read_total", fun j => do
      let out ← jList jRec (← arg j "recs")
      let s ← jCounting (← arg j "strategy")
      let t := readTotal s out
      let g := readTotalG s out
      pure (Json.mkObj [("transcript", Json.arr #[ofInt t.num, ofNat t.den]), ("gene", Json.arr #[ofInt g.num, ofNat g.den])])),
  ("tables", fun _ => do
      pure (Json.mkObj [("cli_multimap_strategy", ofStr cli_multimap_strategy),
                        ("basic_eq_fields", ofList ofStr basic_eq_fields),
                        ("basic_getstate_layout", ofList ofStr basic_getstate_layout),
                        ("basic_setstate_layout", ofList (fun p => Json.arr #[ofStr p.1, ofNat p.2]) basic_setstate_layout),
                        ("suspended_assigned_at", ofList ofStr suspended_assigned_at),
                        ("loader_skips_suspended", ofBool loader_skips_suspended),
                        ("loader_skips_missing", ofBool loader_skips_missing),
                        ("multimapper_guards", ofList (fun p => Json.arr #[ofStr p.1, ofBool p.2]) multimapper_guards)]))
]

end IsoVerif.Driver.C08
