import IsoVerif.Driver.Core
import IsoVerif.Model.Interval
import IsoVerif.Model.Gtf

namespace IsoVerif.Driver.C03
open Lean IsoVerif.Driver IsoVerif.Gen IsoVerif.Model IsoVerif.Model.C03

def jFeat (j : Json) : Except String Feat := do
  let a ← j.getArr?
  if a.size = 3 then pure (← jInt a[0]!, ← jInt a[1]!, ← jInt a[2]!) else throw "feature triple expected"

def jModel (j : Json) : Except String TModel := do
  pure { chr := ← jNat (← arg j "chr"), strand := ← jNat (← arg j "strand"), tid := ← jNat (← arg j "tid"),
         gid := ← jNat (← arg j "gid"), exons := ← jIvList (← arg j "exons"), known := ← jBool (← arg j "known"),
         other := ← jList jFeat (← arg j "other") }

def jRefTx (j : Json) : Except String RefTx := do
  pure { tid := ← jNat (← arg j "tid"), gid := ← jNat (← arg j "gid"), strand := ← jNat (← arg j "strand"),
         exons := ← jIvList (← arg j "exons"), other := ← jList jFeat (← arg j "other") }

def jCtx (j : Json) : Except String GeneCtx := do
  pure { chr := ← jNat (← arg j "chr"), regions := ← jList (jPair jNat jIv) (← arg j "regions"),
         isoforms := ← jList jRefTx (← arg j "isoforms") }

def jCall (j : Json) : Except String Call := do
  pure { ctx := ← jCtx (← arg j "ctx"), models := ← jList jModel (← arg j "models") }

def ofFeat (f : Feat) : Json := Json.arr #[ofInt f.1, ofInt f.2.1, ofInt f.2.2]

def ofModel (m : TModel) : Json :=
  Json.mkObj [("chr", ofNat m.chr), ("strand", ofNat m.strand), ("tid", ofNat m.tid), ("gid", ofNat m.gid),
              ("exons", ofIvList m.exons), ("known", ofBool m.known), ("other", ofList ofFeat m.other)]

def ofLine : Line → Json
  | .gene c s e st g n => Json.arr #[ofStr "gene", ofNat c, ofInt s, ofInt e, ofNat st, ofNat g, ofNat n]
  | .tx c s e st g t => Json.arr #[ofStr "tx", ofNat c, ofInt s, ofInt e, ofNat st, ofNat g, ofNat t]
  | .feat c k s e st g t n => Json.arr #[ofStr "feat", ofNat c, ofInt k, ofInt s, ofInt e, ofNat st, ofNat g, ofNat t, ofNat n]

def ofOptLines : Option (List Id × List Line) → Json
  | none => jErr "error"
  | some (p, ls) => Json.mkObj [("printed", ofNatList p), ("lines", ofList ofLine ls)]

def ofTok : Tok → Json
  | .num n => ofNat n
  | .txt s => ofStr (String.ofList s)

def ofOptIvList : Option (List Iv) → Json
  | none => jErr "error"
  | some p => ofIvList p

def ops : List (String × Handler) := [
  ("validate_exons", fun j => do pure (ofBool (validateExons (← jIvList (← arg j "l"))))),
  ("dump_history", fun j => do
      pure (ofOptLines (runCalls [] (← jList jCall (← arg j "calls"))))),
  ("from_reference", fun j => do
      pure (match fromReference (← jCtx (← arg j "ctx")) (← jNat (← arg j "isoform")) with
            | none => jErr "error"
            | some m => ofModel m)),
  ("extended_dump", fun j => do
      let ctx ← jCtx (← arg j "ctx")
      pure (match createExtendedStorage ctx (← jList jModel (← arg j "novel")) with
            | none => jErr "error"
            | some ms => Json.mkObj [("storage", ofList ofModel ms), ("dump", ofOptLines (dump [] ctx ms))])),
  ("mono_exon", fun j => do
      pure (ofOptIvList (monoExonFromCluster (← jNat (← arg j "cutoff")) (← jBool (← arg j "forward"))
                          (← jIvList (← arg j "reads")) (← jInt (← arg j "three"))))),
  ("correct_ends", fun j => do
      pure (ofOptIvList (correctEnds (← jIvList (← arg j "exons")) (← jIvList (← arg j "reads")) (← jInt (← arg j "apa"))))),
  ("get_exons", fun j => do pure (ofIvList (getExons (← jIv (← arg j "r")) (← jIvList (← arg j "l"))))),
  ("fl_novel_exons", fun j => do
      pure (match flNovelExons (← jIv (← arg j "r")) (← jIvList (← arg j "l")) with
            | none => Json.null
            | some l => ofIvList l)),
  ("nat_key", fun j => do pure (ofList ofTok (natKey (← jStr (← arg j "s")).toList))),
  ("sort_natural", fun j => do
      let names ← jList jStr (← arg j "names")
      pure (match sortNatural id (names.map String.toList) with
            | none => jErr "error"
            | some r => ofList (fun s => ofStr (String.ofList s)) r)),
  ("merge_files", fun j => do
      let files ← jList (jPair jStr (jList jInt)) (← arg j "files")
      pure (match mergeFiles (files.map (fun f => (f.1.toList, f.2))) with
            | none => jErr "error"
            | some r => ofIntList r)),
  -- text records (a record may start with '#'), `header_lines` as passed by the caller of merge_files
  ("merge_lines", fun j => do
      let files ← jList (jPair jStr (jList jStr)) (← arg j "files")
      pure (match mergeFilesH (← jNat (← arg j "header_lines")) (files.map (fun f => (f.1.toList, f.2))) with
            | none => jErr "error"
            | some r => ofList ofStr r))
]

end IsoVerif.Driver.C03
