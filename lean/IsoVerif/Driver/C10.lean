import IsoVerif.Driver.Core
import IsoVerif.Model.Samples
import IsoVerif.Model.SampleFolders

namespace IsoVerif.Driver.C10
open Lean IsoVerif.Driver IsoVerif.Gen IsoVerif.Model.C10

def fld {α} (j : Json) (k : String) (f : Json → Except String α) : Except String α := do f (← arg j k)

def jWiring (j : Json) : Except String Wiring := do
  match j.getStr? with
  | .ok "source" => pure wiringOfSource
  | .ok "fixed" => pure wiringFixed
  | .ok "pinned" => pure wiringPinned
  | _ => pure ⟨← fld j "reset_detected" jBool, ← fld j "mono_intronic_from_preset" jBool,
               ← fld j "mono_exonic_from_preset" jBool, ← fld j "stats_reset" jBool⟩

def jPolya (j : Json) : Except String PolyAUsage := do
  match (← jStr j) with
  | "auto" => pure .auto
  | "never" => pure .never
  | "always" => pure .always
  | s => throw s!"unknown polyA strategy {s}"

def jConfig (j : Json) : Except String Config := do
  match j.getObjVal? "preset" with
  | .ok pj =>
    let name ← jStr pj
    match construction_presets.lookup name with
    | none => throw s!"unknown preset {name}"
    | some p => pure (Config.ofPreset p (← fld j "polya" jPolya) (← fld j "file_name" jBool) (← fld j "grouped" jBool))
  | .error _ =>
    pure ⟨← fld j "mono_intronic" jBool, ← fld j "mono_exonic" jBool, ← fld j "min_known" jNat,
          ← fld j "min_novel" jNat, ← fld j "fl_only" jBool, ← fld j "polya" jPolya,
          ← fld j "file_name" jBool, ← fld j "grouped" jBool⟩

def jFlags (j : Json) : Except String Flags := do
  pure ⟨← fld j "requires_polya" jBool, ← fld j "mono_intronic" jBool, ← fld j "mono_exonic" jBool,
        ← fld j "tech_replicas" jBool⟩

def jFlCand (j : Json) : Except String FlCand := do
  pure ⟨← fld j "ref" (jOpt jStr), ← fld j "known_chain" jBool, ← fld j "count" jNat, ← fld j "label" jStr,
        ← fld j "two_exons" jBool, ← fld j "polya_site" jBool, ← fld j "clean_stranded" jBool,
        ← fld j "strand_ok" jBool, ← fld j "groups" jNat⟩

def jMonoCand (j : Json) : Except String MonoCand := do
  pure ⟨← fld j "iso" jStr, ← fld j "count" jNat, ← fld j "coverage_ok" jBool, ← fld j "polya_support" jNat⟩

def jNonflCand (j : Json) : Except String NonflCand := do
  pure ⟨← fld j "iso" jStr, ← fld j "count" jNat, ← fld j "in_graph" jBool, ← fld j "minus" jBool,
        ← fld j "left_pos" jNat, ← fld j "left_polya" jNat, ← fld j "right_pos" jNat, ← fld j "right_polya" jNat⟩

def jGene (j : Json) : Except String GeneData := do
  pure ⟨← fld j "fl" (jList jFlCand), ← fld j "mono" (jList jMonoCand), ← fld j "nonfl" (jList jNonflCand)⟩

def jChr (j : Json) : Except String ChrData := do
  pure ⟨← fld j "name" jStr, ← fld j "assignments" jNat, ← fld j "features" jNat, ← fld j "aligned" jNat,
        ← fld j "genes" (jList jGene)⟩

def jSample (j : Json) : Except String Sample := do
  pure ⟨← fld j "name" jStr, ← fld j "files" jNat, ← fld j "unaligned" jNat, ← fld j "total" jNat,
        ← fld j "polya" jNat, ← fld j "groups" (jList jStr), ← fld j "duplicates" jNat, ← fld j "chroms" (jList jChr)⟩

def jExec (j : Json) : Except String Exec := do
  if j.isNull then pure .single else pure (.pool (← jList jNat j))

def jStep (j : Json) : Except String (Exec × Sample) := do
  pure (← fld j "exec" jExec, ← fld j "sample" jSample)

def jState (cfg : Config) (j : Json) : Except String ProcState := do
  if j.isNull then pure (initState cfg) else
  pure { detected := ← fld j "detected" (jList jStr), assignmentId := ← fld j "assignment_id" jNat,
         featureId := ← fld j "feature_id" jNat, duplicates := ← fld j "duplicates" jNat,
         flags := ← fld j "flags" jFlags, unaligned := ← fld j "unaligned" jNat, aligned := ← fld j "aligned" jNat,
         readGroups := ← fld j "read_groups" (jList jStr) }

def jRg (j : Json) : Except String ReadGroupOpt := do
  if j.isNull then pure .unset else
  match (← jStr j) with
  | "file_name" => pure .fileName
  | _ => pure .other

def ofStrList (l : List String) : Json := ofList ofStr l

def ofFlags (f : Flags) : Json :=
  Json.mkObj [("requires_polya", ofBool f.requiresPolya), ("mono_intronic", ofBool f.monoIntronic),
              ("mono_exonic", ofBool f.monoExonic), ("tech_replicas", ofBool f.techReplicas)]

def ofOutputs (o : Outputs) : Json :=
  Json.mkObj [("flags", ofFlags o.flags), ("not_aligned", ofNat o.notAligned),
              ("transcripts", ofList (ofList ofStrList) o.transcripts), ("read_groups", ofStrList o.readGroups),
              ("grouped_tables", ofBool o.groupedTables)]

def ofState (σ : ProcState) : Json :=
  Json.mkObj [("detected", ofStrList σ.detected), ("assignment_id", ofNat σ.assignmentId),
              ("feature_id", ofNat σ.featureId), ("duplicates", ofNat σ.duplicates), ("flags", ofFlags σ.flags),
              ("unaligned", ofNat σ.unaligned), ("aligned", ofNat σ.aligned), ("read_groups", ofStrList σ.readGroups)]

/-- outputs and the state after every sample -/
def historyTrace (w : Wiring) (cfg : Config) : ProcState → List (Exec × Sample) → List (Outputs × ProcState)
  | _, [] => []
  | σ, (e, s) :: rest =>
    let r := processSample w cfg σ e s
    r :: historyTrace w cfg r.2 rest

def jInFile (j : Json) : Except String InFile := do
  let p ← jPair jStr jStr j
  pure ⟨p.1, p.2⟩

def jYamlEntry (j : Json) : Except String YamlEntry := do
  pure ⟨← fld j "name" (jOpt jStr), ← fld j "files" (jOpt (jList jInFile)), ← fld j "labels" (jOpt (jList jStr)),
        ← fld j "illumina" (jOpt (jList jStr))⟩

def jListLine (j : Json) : Except String ListLine := do
  match j.getObjVal? "header" with
  | .ok h => pure (.header (← jStr h))
  | .error _ => pure (.files (← fld j "files" (jList jInFile)) (← fld j "label" (jOpt jStr)))

def ofParsed (r : Option (List ParsedSample)) : Json :=
  match r with
  | none => jErr "exit"
  | some l => ofList (fun s => Json.mkObj [("name", ofStr s.name), ("libs", ofList ofStrList s.libs),
      ("readable", ofList (fun p => Json.arr #[ofStr p.1, ofStr p.2]) s.readable),
      ("illumina", ofOpt ofStrList s.illumina)]) l

def jYamlName (j : Json) : Except String YamlName := do
  let k ← fld j "kind" jStr
  match k with
  | "absent" => pure .absent
  | "null" => pure .null
  | "str" => pure (.str (← fld j "value" jStr))
  | "int" => pure (.int (← fld j "value" jInt))
  | "bool" => pure (.bool (← fld j "value" jBool))
  | "other" => pure (.other (← fld j "value" jStr))
  | _ => throw ("unknown kind of name: " ++ k)

def jRawEntry (j : Json) : Except String RawEntry := do
  pure ⟨← fld j "name" jYamlName, ← fld j "files" (jOpt (jList jInFile)), ← fld j "labels" (jOpt (jList jStr)),
        ← fld j "illumina" (jOpt (jList jStr))⟩

/-- experiments with their output folder and one output file (`SampleData.out_dir`, `.out_assigned_tsv`), a refusal, or a traceback -/
def ofDescribed (out : String) (d : Described (List ParsedSample)) : Json :=
  match d with
  | .exit => jErr "exit"
  | .crash => Json.mkObj [("traceback", ofStr "TypeError")]
  | .ok l => ofList (fun s => Json.mkObj [("name", ofStr s.name), ("libs", ofList ofStrList s.libs),
      ("readable", ofList (fun p => Json.arr #[ofStr p.1, ofStr p.2]) s.readable),
      ("illumina", ofOpt ofStrList s.illumina),
      ("out_dir", ofStr (String.ofList (outDirL out.toList s.name.toList))),
      ("assigned_tsv", ofStr (String.ofList (outFileL out.toList s.name.toList ".read_assignments.tsv".toList)))]) l

def ops : List (String × Handler) := [
  ("describe_yaml", fun j => do
      pure (ofDescribed (← fld j "output" jStr) (describeYaml (← fld j "prefix" jStr) (← fld j "entries" (jList jRawEntry))))),
  ("describe_list", fun j => do
      pure (ofDescribed (← fld j "output" jStr)
        (describeList (← fld j "bam" jBool) (← fld j "prefix" jStr) (← fld j "lines" (jList jListLine))))),
  ("name_policy_of_source", fun _ => do
      let p := namePolicyOfSource
      pure (Json.mkObj [("yaml_name_through_str", ofBool p.yamlStr), ("yaml_blank_name_positional", ofBool p.yamlBlank),
                        ("folder_check", ofBool p.folderCheck), ("one_bam_per_line", ofBool p.oneBamPerLine)])),
  ("resolve_path", fun j => do
      pure (ofList (fun c => ofStr (String.ofList c)) (resolveL (← fld j "path" jStr).toList))),
  ("parse_yaml", fun j => do
      pure (ofParsed (parseYaml (← fld j "prefix" jStr) (← fld j "entries" (jList jYamlEntry))))),
  ("parse_list", fun j => do
      pure (ofParsed (parseList (← fld j "prefix" jStr) (← fld j "lines" (jList jListLine))))),
  ("parse_yaml_rule", fun j => do
      pure (ofParsed (parseYamlR (← fld j "recheck" jBool) (← fld j "prefix" jStr) (← fld j "entries" (jList jYamlEntry))))),
  ("parse_list_rule", fun j => do
      pure (ofParsed (parseListR (← fld j "recheck" jBool) (← fld j "prefix" jStr) (← fld j "lines" (jList jListLine))))),
  ("name_rule_of_source", fun _ => do
      pure (Json.mkObj [("yaml_rechecks_generated_name", ofBool renameRuleOfSource.yaml),
                        ("list_rechecks_generated_name", ofBool renameRuleOfSource.list)])),
  ("wiring_of_source", fun _ => do
      let w := wiringOfSource
      pure (Json.mkObj [("reset_detected", ofBool w.resetDetectedPerTask), ("mono_intronic_from_preset", ofBool w.monoIntronicFromPreset),
                        ("mono_exonic_from_preset", ofBool w.monoExonicFromPreset),
                        ("stats_reset", ofBool w.statsResetPerSample)])),
  ("set_polya_requirement_strategy", fun j => do
      pure (ofBool (setPolyaRequirementStrategy (← fld j "flag" jBool) (← fld j "strategy" jPolya)))),
  ("preset_config", fun j => do
      let c ← jConfig j
      pure (Json.mkObj [("mono_intronic", ofBool c.presetMonoIntronic), ("mono_exonic", ofBool c.presetMonoExonic),
                        ("min_known", ofNat c.minKnownCount), ("min_novel", ofNat c.minNovelCount), ("fl_only", ofBool c.flOnly)])),
  ("gene_steps", fun j => do
      let cfg ← fld j "cfg" jConfig
      let r := genesRun cfg (← fld j "flags" jFlags) (← fld j "detected" (jList jStr)) (← fld j "genes" (jList jGene))
      pure (Json.mkObj [("reported", ofList ofStrList r.1), ("detected", ofStrList r.2)])),
  ("run_history", fun j => do
      let cfg ← fld j "cfg" jConfig
      let w ← fld j "wiring" jWiring
      let σ ← fld j "state" (jState cfg)
      let tr := historyTrace w cfg σ (← fld j "hist" (jList jStep))
      pure (Json.mkObj [("outputs", ofList (fun p => ofOutputs p.1) tr), ("states", ofList (fun p => ofState p.2) tr)])),
  ("run_invocation", fun j => do
      let cfg ← fld j "cfg" jConfig
      let w ← fld j "wiring" jWiring
      pure (ofList ofOutputs (runInvocation w cfg (← fld j "read_group" jRg) (← fld j "hist" (jList jStep))))),
  ("load_chr", fun j => do
      let recs ← fld j "recs" (jList (fun r => do
        pure (⟨← fld r "read_id" jStr, ← fld r "multi" jBool, ← fld r "verdict" jNat⟩ : Rec)))
      let foreign ← fld j "foreign" (jList (fun e => do
        pure (⟨← fld e "read_id" jStr, ← fld e "id" jNat, ← fld e "chr" jStr, ← fld e "verdict" jNat⟩ : Entry)))
      let r := loadChr (← fld j "chr" jStr) (← fld j "base" jNat) recs foreign
      pure (ofList (fun x => match x with
        | LoadResult.untouched => ofStr "untouched"
        | LoadResult.incomplete => ofStr "incomplete"
        | LoadResult.resolved v => ofNat v) r)),
  ("combine_table", fun j => do
      let ts ← fld j "tables" (jList (jPair jStr (jList (jPair jStr jStr))))
      let r := combineTable (← fld j "full" jBool) ts
      pure (Json.mkObj [("header", ofStrList r.1),
                        ("rows", ofList (fun row => Json.arr #[ofStr row.1, ofList (ofOpt ofStr) row.2]) r.2)]))
]

end IsoVerif.Driver.C10
