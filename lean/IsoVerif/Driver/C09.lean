import IsoVerif.Driver.Core
import IsoVerif.Model.C09
import IsoVerif.Model.C09Labels
import IsoVerif.Model.C09Tpm
import IsoVerif.Model.C09Files
import IsoVerif.Model.SampleFolders
import IsoVerif.Model.C09Options

namespace IsoVerif.Driver.C09
open Lean IsoVerif.Driver IsoVerif.Gen IsoVerif.Model.C09

def ofErr (e : Err) : Json := jErr e.name

def ofRat (q : Rat) : Json := Json.arr #[ofInt q.num, ofNat q.den]

def ofExcept {α} (f : α → Json) : Except Err α → Json
  | .error e => ofErr e
  | .ok a => f a

def jStrPair (j : Json) : Except String (String × String) := jPair jStr jStr j

def jTagVal (j : Json) : Except String TagVal :=
  match j.getStr? with
  | .ok s => pure (.str s)
  | .error _ => do pure (.int (← j.getInt?))

def jAln (j : Json) : Except String Aln := do
  let name ← jStr (← arg j "name")
  let tags ← jList (jPair jStr jTagVal) (← arg j "tags")
  let file ← jOpt jStr (← arg j "file")
  pure ⟨name, tags, file⟩

def jGrouper (j : Json) : Except String Grouper := do
  let kind ← jStr (← arg j "kind")
  if kind = "default" then pure .default
  else if kind = "tag" then pure (.tag (← jStr (← arg j "tag")))
  else if kind = "read_id" then pure (.readId (← jStr (← arg j "delim")))
  else if kind = "table" then pure (.table (← jList jStrPair (← arg j "map")))
  else if kind = "file_name" then pure (.fileName (← jList jStrPair (← arg j "names")))
  else if kind = "table_lines" then
    -- ReadTableGrouper.__init__: the map is what the model's `load_table` makes of the lines
    let lines ← jList jStr (← arg j "lines")
    let rc ← jNat (← arg j "rc")
    let gc ← jNat (← arg j "gc")
    let delim ← jStr (← arg j "delim")
    match loadTable rc gc delim.toList (lines.map String.toList) [] with
    | .ok m => pure (.table m)
    | .error e => throw s!"load_table raised {e.name}"
  else throw s!"unknown grouper kind {kind}"

def sortedStrs (l : List String) : Json := ofList ofStr (sortStr l)

def jStrategy (j : Json) : Except String CountingStrategy := do
  let s ← jStr j
  match CountingStrategy.ofName? s with
  | some x => pure x
  | none => throw s!"unknown strategy {s}"

def jFormat (j : Json) : Except String GroupedOutputFormat := do
  let s ← jStr j
  match GroupedOutputFormat.ofName? s with
  | some x => pure x
  | none => throw s!"unknown format {s}"

def jRat (j : Json) : Except String ReadAssignmentType := do
  let s ← jStr j
  match ReadAssignmentType.ofName? s with
  | some x => pure x
  | none => throw s!"unknown assignment type {s}"

def jCall (j : Json) : Except String Call := do
  let k ← jStr (← arg j "k")
  if k = "info" then
    pure (.info {
      present := ← jBool (← arg j "present"), rawType := ← jRat (← arg j "raw_type"),
      hasMatches := ← jBool (← arg j "has_matches"), firstTranscriptNone := ← jBool (← arg j "first_none"),
      features := ← jList jStr (← arg j "features"), atype := ← jRat (← arg j "atype"),
      confirms := ← jBool (← arg j "confirms"), group := ← jStr (← arg j "group") })
  else if k = "raw" then
    pure (.raw { hasId := ← jBool (← arg j "has_id"), features := ← jList jStr (← arg j "features"),
                 group := ← jStr (← arg j "group") })
  else if k = "confirm" then pure (.confirmFeatures (← jList jStr (← arg j "features")))
  else throw s!"unknown call {k}"

def ofRow (r : String × List Rat) : Json := Json.arr #[ofStr r.1, ofList ofRat r.2]
def ofTriple (t : String × String × Rat) : Json := Json.arr #[ofStr t.1, ofStr t.2.1, ofRat t.2.2]

def ofDump (ignore : Bool) (d : Dump) : Json :=
  Json.mkObj [
    ("header", ofList ofStr d.header),
    ("tpm_header", if d.matrix.isSome then ofList ofStr (tpmHeader false ignore d.header) else Json.null),
    ("tpm_header_buggy", if d.matrix.isSome then ofList ofStr (tpmHeader true ignore d.header) else Json.null),
    ("matrix", ofOpt (ofList ofRow) d.matrix),
    ("linear", ofOpt (ofList ofTriple) d.linear),
    ("stats", ofOpt (fun s => ofNatList [s.1, s.2.1, s.2.2.1, s.2.2.2]) d.stats)]

def ofState (c : Counter) : Json :=
  Json.mkObj [
    ("ignore", ofBool c.ignoreGroups),
    ("ordered", ofList ofStr c.ordered),
    ("ids", ofList (fun p => Json.arr #[ofStr p.1, ofNat p.2]) c.ids),
    ("all_features", sortedStrs c.allFeatures),
    ("confirmed", sortedStrs c.confirmed),
    ("counts", ofNatList [c.ambiguousReads, c.notAssigned, c.notAligned, c.forTpm]),
    ("fc", ofList (fun p => Json.arr #[ofStr p.1, ofList (fun kv => Json.arr #[ofNat kv.1, ofRat kv.2]) p.2]) c.fc)]

def ofGRes (r : Option String) : Json := ofOpt ofStr r

def counterOp (wantDump : Bool) : Handler := fun j => do
  let buggy ← jBool (← arg j "buggy")
  let rg ← jOpt (jList jStr) (← arg j "rg")
  let strategy ← jStrategy (← arg j "strategy")
  let allF ← jList jStr (← arg j "all_features")
  let oz ← jBool (← arg j "output_zeroes")
  let fmt ← jFormat (← arg j "fmt")
  let calls ← jList jCall (← arg j "calls")
  let c0 := initCounter buggy rg strategy allF oz fmt
  match run c0 calls with
  | .error e => pure (ofErr e)
  | .ok c =>
    if wantDump then
      match dump c with
      | .error e => pure (ofErr e)
      | .ok d => pure (Json.mkObj [("state", ofState c), ("dump", ofDump c.ignoreGroups d)])
    else pure (Json.mkObj [("state", ofState c)])

def jPRead (j : Json) : Except String PRead := do
  pure { valid := ← jBool (← arg j "valid"), profile := ← jList jInt (← arg j "profile"),
         fids := ← jList jStr (← arg j "fids"), group := ← jStr (← arg j "group") }

def profileOp : Handler := fun j => do
  let ignore ← jBool (← arg j "ignore")
  let reads ← jList jPRead (← arg j "reads")
  match pRun (initPCounter ignore) reads with
  | .error e => pure (ofErr e)
  | .ok c =>
    pure (Json.mkObj [
      ("ids", ofList (fun p => Json.arr #[ofStr p.1, ofNat p.2]) c.ids),
      ("lines", ofList (fun t => Json.arr #[ofStr t.1, ofStr t.2.1, ofRat t.2.2.1, ofRat t.2.2.2]) (pDump c))])


/-! ### growth: file labels, grouped TPM values, table splitting variant -/

def ofInErr (e : InErr) : Json := Json.mkObj [("error", Json.str "error"), ("exc", Json.str e.name)]

def ofDict (d : List (String × String)) : Json := ofList (fun p => Json.arr #[ofStr p.1, ofStr p.2]) d

def ofParsedSamples (r : Option (List IsoVerif.Model.C10.ParsedSample)) : Json :=
  match r with
  | none => jErr "exit"
  | some l => ofList (fun s => Json.mkObj [("name", ofStr s.name), ("libs", ofList (ofList ofStr) s.libs),
      ("readable", ofDict s.readable)]) l

def ofListLine : IsoVerif.Model.C10.ListLine → Json
  | .header n => Json.mkObj [("header", ofStr n)]
  | .files fs l => Json.mkObj [("files", ofList (fun f => Json.arr #[ofStr f.path, ofStr f.stem]) fs), ("label", ofOpt ofStr l)]

/-- a YAML entry whose labels are arbitrary scalars: the model of C10 is used when they are all strings -/
def jYEntry (j : Json) : Except String (Option String × Option (List String) × Option (List TagVal)) := do
  pure (← jOpt jStr (← arg j "name"), ← jOpt (jList jStr) (← arg j "files"), ← jOpt (jList jTagVal) (← arg j "labels"))

def growthOps : List (String × Handler) := [
  ("stem", fun j => do
      let p ← jStr (← arg j "p")
      pure (Json.mkObj [("base", ofStr (String.ofList (pyBasename p.toList))), ("stem", ofStr (fileStem p))])),
  ("split_ws", fun j => do
      let s ← jStr (← arg j "s")
      pure (ofList (fun p => ofStr (String.ofList p)) (pySplitWs s.toList))),
  ("parse_list_line", fun j => do
      let l ← jStr (← arg j "l")
      pure (ofListLine (parseListLine l.toList))),
  ("labels_cmd", fun j => do
      let files ← jList jStr (← arg j "files")
      let labels ← jOpt (jList jStr) (← arg j "labels")
      pure (match readableNamesCmd files labels with
        | .error e => ofInErr e
        | .ok d => ofDict d)),
  ("labels_list", fun j => do
      let pfx ← jStr (← arg j "prefix")
      let lines ← jList jStr (← arg j "lines")
      -- BAM input (`real_list` sets input_type = "bam"): a line with several files is refused since the repair of the C10 side finding
      pure (ofParsedSamples (IsoVerif.Model.C10.parseListBam pfx (lines.map (fun l => parseListLine l.toList))))),
  ("labels_yaml", fun j => do
      let pfx ← jStr (← arg j "prefix")
      let es ← jList jYEntry (← arg j "entries")
      -- `str(label)`: every label is stored by its printed value (repaired get_samples_from_yaml)
      let conv := es.map (fun e =>
        (⟨e.1, e.2.1.map (fun fs => fs.map mkInFile), e.2.2.map (fun ls => ls.map TagVal.render), none⟩ :
          IsoVerif.Model.C10.YamlEntry))
      pure (ofParsedSamples (IsoVerif.Model.C10.parseYaml pfx conv))),
  ("file_mode", fun j => do
      let d ← jList jStrPair (← arg j "dict")
      let libs ← jList (jList jStr) (← arg j "libs")
      let alns ← jList jAln (← arg j "alns")
      match fileNameGrouperInit d libs with
      | .error e => pure (ofInErr e)
      | .ok names =>
        pure (Json.mkObj [("names", ofDict names),
          ("run", ofExcept (fun r => Json.mkObj [("rets", ofList ofGRes r.1), ("groups", sortedStrs r.2)])
            (runGrouper (.fileName names) alns []))])),
  ("grouped_tpm", fun j => do
      let rows ← jList (jPair jStr (jList jInt)) (← arg j "rows")
      let un ← jBool (← arg j "usable_norm")
      let rt ← jNat (← arg j "reads_for_tpm")
      pure (ofExcept (ofList (fun r => Json.arr #[ofStr r.1, ofList ofRat r.2])) (groupedTpm un rt rows))),
  ("load_split_table", fun j => do
      let t ← jStr (← arg j "content")
      pure (ofExcept (ofList (fun p => Json.arr #[ofStr p.1, ofStr p.2])) (loadSplitTable t.toList))),
  ("groups_file", fun j => do
      let gs ← jList jStr (← arg j "groups")
      let text := groupsFileText gs
      pure (Json.mkObj [("content", ofStr (String.ofList text)), ("reread", sortedStrs (readGroupsFile text))])),
  ("split_table_global", fun j => do
      let m ← jList jStrPair (← arg j "map")
      let chr ← jStr (← arg j "chr")
      let alns ← jList (jPair jStr (jOpt jStr)) (← arg j "alns")
      pure (ofList (fun l => ofStr (String.ofList l)) (splitTableLinesGlobal m chr alns [])))
]

def ops : List (String × Handler) := growthOps ++ [
  ("split", fun j => do
      let d ← jStr (← arg j "d")
      let s ← jStr (← arg j "s")
      pure (ofExcept (ofList (fun p => ofStr (String.ofList p))) (pySplit d.toList s.toList))),
  ("run_grouper", fun j => do
      let g ← jGrouper (← arg j "grouper")
      let alns ← jList jAln (← arg j "alns")
      pure (ofExcept (fun r => Json.mkObj [("rets", ofList ofGRes r.1), ("groups", sortedStrs r.2)])
        (runGrouper g alns g.initGroups))),
  ("get_group_id", fun j => do
      let g ← jGrouper (← arg j "grouper")
      let a ← jAln (← arg j "aln")
      let buggy ← jBool (← arg j "buggy")
      pure (ofExcept (fun r => Json.mkObj [("ret", ofGRes r.ret), ("added", ofGRes r.added)])
        (if buggy then getGroupIdBuggy g a else getGroupId g a))),
  ("universe", fun j => do
      let l ← jList (jList jStr) (← arg j "per_chr")
      pure (sortedStrs (groupUniverse l))),
  ("parse_read_group", fun j => do
      let o ← jOpt jStr (← arg j "opt")
      pure (ofExcept (fun s => match s with
        | .default => Json.mkObj [("kind", ofStr "default")]
        | .fileName => Json.mkObj [("kind", ofStr "file_name")]
        | .tag t => Json.mkObj [("kind", ofStr "tag"), ("tag", ofStr t)]
        | .readId d => Json.mkObj [("kind", ofStr "read_id"), ("delim", ofStr d)]
        | .tableFile => Json.mkObj [("kind", ofStr "table")]) (parseReadGroup o))),
  ("file_props", fun j => do
      -- prepare_read_groups: null = nothing to split, else [FILE, READ_COL, GROUP_COL, DELIM]
      let o ← jOpt jStr (← arg j "opt")
      let orig ← jBool (← arg j "orig")
      pure (match prepareReadGroups orig (o.map String.toList) with
        | .error e => Json.mkObj [("error", Json.str "error"), ("exc", Json.str e.name)]
        | .ok none => Json.null
        | .ok (some p) => Json.arr #[ofStr (String.ofList p.file), ofInt p.readCol, ofInt p.groupCol, ofStr (String.ofList p.delim)])),
  ("py_int", fun j => do
      let s ← jStr (← arg j "s")
      pure (match pyInt s.toList with
        | .error e => Json.mkObj [("error", Json.str "error"), ("exc", Json.str e.name)]
        | .ok i => ofInt i)),
  ("split_file_map", fun j => do
      -- create_read_grouper for `file` on one chromosome: read_map of the grouper, or the error
      let hs ← jList (jList jStr) (← arg j "headers")
      let m ← jList jStrPair (← arg j "map")
      let chr ← jStr (← arg j "chr")
      let alns ← jList (jPair jStr (jOpt jStr)) (← arg j "alns")
      let orig ← jBool (← arg j "orig")
      pure (match loadSplitFile orig (splitFileOf hs m chr alns) with
        | .error e => Json.mkObj [("error", Json.str "error"), ("exc", Json.str e.name)]
        | .ok d => ofList (fun p => Json.arr #[ofStr p.1, ofStr p.2]) d)),
  ("parse_read_group_orig", fun j => do
      let o ← jOpt jStr (← arg j "opt")
      pure (ofExcept (fun s => match s with
        | .default => Json.mkObj [("kind", ofStr "default")]
        | .fileName => Json.mkObj [("kind", ofStr "file_name")]
        | .tag t => Json.mkObj [("kind", ofStr "tag"), ("tag", ofStr t)]
        | .readId d => Json.mkObj [("kind", ofStr "read_id"), ("delim", ofStr d)]
        | .tableFile => Json.mkObj [("kind", ofStr "table")]) (parseReadGroupOrig o))),
  ("py_space_codes", fun _ => pure (ofNatList pySpaceCodes)),
  ("strip", fun j => do
      let s ← jStr (← arg j "s")
      pure (ofStr (String.ofList (pyStrip s.toList)))),
  ("load_table", fun j => do
      let lines ← jList jStr (← arg j "lines")
      let rc ← jNat (← arg j "rc")
      let gc ← jNat (← arg j "gc")
      let delim ← jStr (← arg j "delim")
      pure (ofExcept (ofList (fun p => Json.arr #[ofStr p.1, ofStr p.2]))
        (loadTable rc gc delim.toList (lines.map String.toList) []))),
  ("split_table", fun j => do
      let m ← jList jStrPair (← arg j "map")
      let chr ← jStr (← arg j "chr")
      let alns ← jList (jPair jStr (jOpt jStr)) (← arg j "alns")
      pure (ofList (fun l => ofStr (String.ofList l)) (splitTableLines m chr alns []))),
  ("profile_counter", profileOp),
  ("counter", counterOp true),
  ("counter_state", counterOp false)
]

end IsoVerif.Driver.C09
