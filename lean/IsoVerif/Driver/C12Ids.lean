import IsoVerif.Driver.Core
import IsoVerif.Model.GtfIds

namespace IsoVerif.Driver.C12I
open Lean IsoVerif.Driver IsoVerif.Gen IsoVerif.Model.C12Ids

def jGRec (j : Json) : Except String GRec := do
  pure { ftype := ← jStr (← arg j "ftype"), gid := ← jStr (← arg j "gid"), tid := ← jOpt jStr (← arg j "tid"),
         span := ← jIv (← arg j "span") }

def ofFId : FId → Json
  | .named s => ofStr s
  | .auto t n => ofStr (t ++ "_" ++ toString n)

def ops : List (String × Handler) := [
  -- what GeneInfo reads of every gene of a GTF file converted with the id_spec of the CURRENT tree (generated table)
  ("isoforms", fun j => do
      let recs ← jList jGRec (← arg j "recs")
      let genes ← jList jStr (← arg j "genes")
      pure (ofList (fun g => Json.arr #[ofStr g,
              ofList (fun p => Json.arr #[ofFId p.1, ofIvList p.2]) (isoformsOf DB_ID_SPEC GENEINFO_TRANSCRIPT_TYPES recs g)]) genes)),
  ("tables", fun _ => pure (Json.mkObj [
      ("check_gtf", ofList ofStr CHECK_TRANSCRIPT_TYPES), ("check_gff3", ofList ofStr CHECK_GFF3_TRANSCRIPT_TYPES),
      ("geneinfo", ofList ofStr GENEINFO_TRANSCRIPT_TYPES),
      ("id_spec", ofList (fun p => Json.arr #[ofStr p.1, ofStr p.2]) DB_ID_SPEC)]))
]

end IsoVerif.Driver.C12I
