import IsoVerif.Driver.Core
import IsoVerif.Gen.Strategies
import IsoVerif.Model.IntronGraph
import IsoVerif.Model.ModelConstruction
import IsoVerif.Model.GeneJoiner
import IsoVerif.Model.IntronTerminals
import IsoVerif.Model.IntronSimplify

namespace IsoVerif.Driver.C04
open Lean IsoVerif.Driver IsoVerif.Gen IsoVerif.Model IsoVerif.Model.C04

/-! JSON decoding -/

def jRead (j : Json) : Except String Read := do
  pure { id := ← jStr (← arg j "id"), introns := ← jIvList (← arg j "introns"), exons := ← jIvList (← arg j "exons"),
         multimapper := ← jBool (← arg j "mm"), strand := ← jStr (← arg j "strand"),
         polya := ← jBool (← arg j "polya"), polyt := ← jBool (← arg j "polyt"), group := ← jStr (← arg j "group") }

def jCollector (j : Json) : Except String Collector := do
  pure { known := ← jIvList (← arg j "known"),
         clustered := ← jList (jPair jIv jInt) (← arg j "clustered"),
         corr := ← jList (jPair jIv jIv) (← arg j "corr"),
         discarded := ← jIvList (← arg j "discarded") }

def jGraph (j : Json) : Except String Graph := do
  pure { col := ← jCollector (← arg j "col"), out := ← jList (jPair jIv jIv) (← arg j "out"),
         inc := ← jList (jPair jIv jIv) (← arg j "inc") }

def jOp (j : Json) : Except String Op := do
  let a ← jArr j
  let k ← jStr a[0]!
  let iv (i : Nat) : Except String Iv := match a[i]? with
    | some x => jIv x
    | none => throw "op: missing argument"
  match k with
  | "add_edge" => pure (.addEdge (← iv 1) (← iv 2))
  | "collapse" => pure (.collapse (← iv 1) (← iv 2))
  | "del_vertex" => pure (.delVertex (← iv 1))
  | "del_out" => pure (.delOut (← iv 1))
  | "del_inc" => pure (.delInc (← iv 1))
  | "discard" => pure (.discard (← iv 1))
  | "touch" => pure (.touch (← iv 1))
  | "simplify_map" => pure .simplifyMap
  | "attach_out" => pure (.attachOut (← iv 1) (← iv 2))
  | "attach_inc" => pure (.attachInc (← iv 1) (← iv 2))
  | _ => throw s!"unknown graph op {k}"

def ofOp : Op → Json
  | .addEdge a b => Json.arr #[ofStr "add_edge", ofIv a, ofIv b]
  | .collapse a b => Json.arr #[ofStr "collapse", ofIv a, ofIv b]
  | .delVertex a => Json.arr #[ofStr "del_vertex", ofIv a]
  | .delOut a => Json.arr #[ofStr "del_out", ofIv a]
  | .delInc a => Json.arr #[ofStr "del_inc", ofIv a]
  | .discard a => Json.arr #[ofStr "discard", ofIv a]
  | .touch a => Json.arr #[ofStr "touch", ofIv a]
  | .simplifyMap => Json.arr #[ofStr "simplify_map"]
  | .attachOut a b => Json.arr #[ofStr "attach_out", ofIv a, ofIv b]
  | .attachInc a b => Json.arr #[ofStr "attach_inc", ofIv a, ofIv b]

def jSimpParams (j : Json) : Except String SimpParams := do
  pure { dist := ← jInt (← arg j "graph_clustering_distance"), ratioM := ← jInt (← arg j "graph_clustering_ratio"),
         sac := ← jInt (← arg j "singleton_adjacent_cov"), isoAbs := ← jInt (← arg j "min_novel_isolated_intron_abs") }

def jStrand (j : Json) : Except String Strand := do
  match Strand.ofString? (← jStr j) with
  | some s => pure s
  | none => throw "strand expected"

def jTType (j : Json) : Except String TranscriptModelType := do
  match TranscriptModelType.ofName? (← jStr j) with
  | some s => pure s
  | none => throw "transcript type expected"

def jTModel (j : Json) : Except String TModel := do
  pure { chr := ← jStr (← arg j "chr"), strand := ← jStrand (← arg j "strand"), tid := ← jStr (← arg j "tid"),
         gene := ← jStr (← arg j "gene"), exons := ← jIvList (← arg j "exons"), ttype := ← jTType (← arg j "type"),
         intronPath := ← jIvList (← arg j "intron_path") }

def jStore (j : Json) : Except String Store := do
  pure { models := ← jList jTModel (← arg j "models"),
         readIds := ← jList (jPair jStr (jList jStr)) (← arg j "read_ids"),
         counter := ← jList (jPair jStr jInt) (← arg j "counter"),
         rcount := ← jList (jPair jStr jInt) (← arg j "rcount") }

/-! JSON encoding (sets sorted: the implementation's order is a hash order) -/

def ivivLe (a b : Iv × Iv) : Bool := if a.1 = b.1 then ivLe a.2 b.2 else ivLe a.1 b.1
def ivIntLe (a b : Iv × Int) : Bool := ivLe a.1 b.1

def ofCollector (c : Collector) : Json :=
  Json.mkObj [("clustered", ofList (fun p : Iv × Int => Json.arr #[ofIv p.1, ofInt p.2]) (c.clustered.mergeSort ivIntLe)),
              ("corr", ofList (fun p : Iv × Iv => Json.arr #[ofIv p.1, ofIv p.2]) (c.corr.mergeSort ivivLe)),
              ("discarded", ofIvList (sortIv c.discarded))]

def ofGraph (g : Graph) : Json :=
  Json.mkObj [("col", ofCollector g.col),
              ("out", ofList (fun p : Iv × Iv => Json.arr #[ofIv p.1, ofIv p.2]) (g.out.mergeSort ivivLe)),
              ("inc", ofList (fun p : Iv × Iv => Json.arr #[ofIv p.1, ofIv p.2]) (g.inc.mergeSort ivivLe))]

def ofTModel (m : TModel) : Json :=
  Json.mkObj [("chr", ofStr m.chr), ("strand", ofStr m.strand.toString), ("tid", ofStr m.tid), ("gene", ofStr m.gene),
              ("exons", ofIvList m.exons), ("type", ofStr m.ttype.name), ("intron_path", ofIvList m.intronPath)]

def ofStore (s : Store) : Json :=
  Json.mkObj [("models", ofList ofTModel s.models),
              ("read_ids", ofList (fun p : String × List String => Json.arr #[ofStr p.1, ofList ofStr p.2]) s.readIds),
              ("counter", ofList (fun p : String × Int => Json.arr #[ofStr p.1, ofInt p.2]) s.counter),
              ("rcount", ofList (fun p : String × Int => Json.arr #[ofStr p.1, ofInt p.2]) s.rcount)]

def ofOptGraph : Option Graph → Json
  | none => jErr "error"
  | some g => ofGraph g

def ofOptStore : Option Store → Json
  | none => jErr "error"
  | some g => ofStore g

/-- `ExcludingIdDistributor.increment` on value `v` -/
def nextId (forb : List Nat) : Nat → Nat → Nat
  | 0, v => v + 1
  | fuel + 1, v => if (v + 1) ∈ forb then nextId forb fuel (v + 1) else v + 1

def jAssignIn (j : Json) : Except String AssignIn := do
  pure { read := ← jStr (← arg j "read"), consistent := ← jBool (← arg j "consistent"),
         matched := ← jList jStr (← arg j "matched") }

def jPathIn (j : Json) : Except String PathIn := do
  pure { path := ← jIvList (← arg j "path"), count := ← jInt (← arg j "count"),
         reads := ← jList (jPair jStr jStr) (← arg j "reads"), matching := ← jBool (← arg j "matching"),
         ref := ← jStr (← arg j "ref") }

def jLevel (j : Json) : Except String StrandnessReportingLevel := do
  match StrandnessReportingLevel.ofName? (← jStr j) with
  | some s => pure s
  | none => throw "reporting level expected"

def jEnv (j : Json) : Except String FLEnv := do
  pure { chr := ← jStr (← arg j "chr"), geneEmpty := ← jBool (← arg j "gene_empty"),
         knownIntrons := ← jIvList (← arg j "known_introns"),
         knownPaths := ← jList jIvList (← arg j "known_paths"),
         intronGenes := ← jList (jPair jIv (jList jStr)) (← arg j "intron_genes"),
         geneStrands := ← jList (jPair jStr jStrand) (← arg j "gene_strands"),
         refModels := ← jList (jPair jStr jTModel) (← arg j "ref_models"),
         minKnownCount := ← jInt (← arg j "min_known_count"), minNovelCount := ← jInt (← arg j "min_novel_count"),
         requireMonointronicPolya := ← jBool (← arg j "require_monointronic_polya"),
         level := ← jLevel (← arg j "level"), useTechnicalReplicas := ← jBool (← arg j "use_technical_replicas") }

def sdOf (tbl : List (Iv × Strand)) (i : Iv) : Strand := (amGet? tbl i).getD .dot

def ofDecision : Decision → Json
  | .skipped => Json.mkObj [("d", ofStr "skip")]
  | .knownAdded m => Json.mkObj [("d", ofStr "known"), ("m", ofTModel m)]
  | .novelAdded m => Json.mkObj [("d", ofStr "novel"), ("m", ofTModel m)]

def mapqOf (tbl : List (String × Int)) (r : String) : Int := (amGet? tbl r).getD 0

/-- store-level operations applied in sequence -/
def storeOp (mapq : List (String × Int)) (s : Store) (j : Json) : Except String (Option Store) := do
  let a ← jArr j
  let k ← jStr a[0]!
  let x := a[1]!
  match k with
  | "add_model" => pure (some (s.addModel (← jTModel (← arg x "m")) (← jList jStr (← arg x "reads"))))
  | "save_read" => pure (some (s.saveRead (← jStr (← arg x "read")) (← jStr (← arg x "tid"))))
  | "delete" => pure (s.deleteFromStorage (← jStr (← arg x "tid")))
  | "assign" => pure (some (s.assignReads (← jList jAssignIn (← arg x "ins"))))
  | "pre_filter" =>
    pure (s.preFilter ⟨← jInt (← arg x "min_novel_count"), ← jInt (← arg x "mapq_cutoff")⟩ (mapqOf mapq))
  | "filter" =>
    let sub1 ← jList jStr (← arg x "sub1")
    let sub2 ← jList jStr (← arg x "sub2")
    let cov ← jList (jPair jStr jInt) (← arg x "cov_term")
    -- `similar` is a function of the model list: the first call sees the whole storage, the second the pre-filtered one
    let n := s.models.length
    let similar : List TModel → List String := fun ms => if ms.length = n then sub1 else sub2
    pure (s.filterTranscripts ⟨← jInt (← arg x "min_novel_count"), ← jInt (← arg x "mapq_cutoff")⟩ (mapqOf mapq)
            similar (fun m => (amGet? cov m.tid).getD 0))
  | _ => throw s!"unknown store op {k}"

def runStoreOps (mapq : List (String × Int)) : Store → List Json → Except String (Option Store)
  | s, [] => pure (some s)
  | s, j :: t => do
    match ← storeOp mapq s j with
    | none => pure none
    | some s' => runStoreOps mapq s' t

def presetJson (p : ConstructionPreset) : Json :=
  Json.mkObj [("min_novel_intron_count", ofInt p.min_novel_intron_count),
              ("graph_clustering_ratio", ofInt p.graph_clustering_ratio),
              ("graph_clustering_distance", ofInt p.graph_clustering_distance),
              ("min_novel_isolated_intron_abs", ofInt p.min_novel_isolated_intron_abs),
              ("min_novel_isolated_intron_rel", ofInt p.min_novel_isolated_intron_rel),
              ("terminal_position_abs", ofInt p.terminal_position_abs),
              ("terminal_position_rel", ofInt p.terminal_position_rel),
              ("terminal_internal_position_rel", ofInt p.terminal_internal_position_rel),
              ("min_known_count", ofInt p.min_known_count), ("min_nonfl_count", ofInt p.min_nonfl_count),
              ("min_novel_count", ofInt p.min_novel_count), ("min_novel_count_rel", ofInt p.min_novel_count_rel),
              ("min_mono_count_rel", ofInt p.min_mono_count_rel),
              ("singleton_adjacent_cov", ofInt p.singleton_adjacent_cov), ("fl_only", ofBool p.fl_only),
              ("novel_monoexonic", ofBool p.novel_monoexonic),
              ("require_monointronic_polya", ofBool p.require_monointronic_polya),
              ("require_monoexonic_polya", ofBool p.require_monoexonic_polya),
              ("report_canonical", ofStr p.report_canonical)]

def ops : List (String × Handler) := [
  ("collect_introns", fun j => do
      let reads ← jList jRead (← arg j "reads")
      pure (ofList (fun p : Iv × Int => Json.arr #[ofIv p.1, ofInt p.2]) ((collectIntrons reads).mergeSort ivIntLe))),
  ("cluster", fun j => do
      let reads ← jList jRead (← arg j "reads")
      pure (ofCollector (collectorProcess (← jIvList (← arg j "known")) (← jInt (← arg j "delta")) reads
                           (← jInt (← arg j "min_count"))))),
  ("cluster_counts", fun j => do
      let c ← jCollector (← arg j "col")
      let all ← jList (jPair jIv jInt) (← arg j "all")
      pure (ofCollector (clusterIntrons c (← jInt (← arg j "delta")) all (← jInt (← arg j "min_count"))))),
  ("construct", fun j => do
      let reads ← jList jRead (← arg j "reads")
      pure (ofOptGraph (Graph.constructed (← jIvList (← arg j "known")) (← jInt (← arg j "delta")) reads
                          (← jInt (← arg j "min_count"))))),
  ("graph_run", fun j => do
      -- IntronGraph.__init__: process, construct, then the traced operations of simplify / attach_terminal_positions
      let reads ← jList jRead (← arg j "reads")
      let ops ← jList jOp (← arg j "ops")
      match Graph.constructed (← jIvList (← arg j "known")) (← jInt (← arg j "delta")) reads (← jInt (← arg j "min_count")) with
      | none => pure (jErr "error")
      | some g => pure (ofOptGraph (runOps (obsIntrons reads) g ops))),
  ("graph_ops", fun j => do
      -- arbitrary state, arbitrary history
      let g ← jGraph (← arg j "graph")
      let obs ← jIvList (← arg j "obs")
      let ops ← jList jOp (← arg j "ops")
      pure (ofOptGraph (runOps obs g ops))),
  ("graph_verts", fun j => do
      let g ← jGraph (← arg j "graph")
      pure (ofIvList (sortIv (g.verts.eraseDups)))),
  ("thread_introns", fun j => do
      let c ← jCollector (← arg j "col")
      match threadIntrons c (← jIvList (← arg j "introns")) with
      | none => pure Json.null
      | some p => pure (ofIvList p)),
  ("get_strand", fun j => do
      let tbl ← jList (jPair jIv jStrand) (← arg j "sd")
      let introns ← jIvList (← arg j "introns")
      pure (Json.mkObj [("strand", ofStr (getStrand (sdOf tbl) introns (← jBool (← arg j "polya")) (← jBool (← arg j "polyt"))).toString),
                        ("clean", ofStr (getCleanStrand (sdOf tbl) introns).toString)])),
  ("construct_fl", fun j => do
      let env ← jEnv (← arg j "env")
      let tbl ← jList (jPair jIv jStrand) (← arg j "sd")
      let forb ← jList jNat (← arg j "forbidden")
      let paths ← jList jPathIn (← arg j "paths")
      let st : FLState := { detected := ← jList jStr (← arg j "detected"), idv := ← jNat (← arg j "idv"), store := Store.empty }
      match constructFL env (sdOf tbl) (nextId forb (forb.length + 1)) st paths with
      | none => pure (jErr "error")
      | some (st', ds) =>
        pure (Json.mkObj [("detected", ofList ofStr st'.detected), ("idv", ofNat st'.idv), ("store", ofStore st'.store),
                          ("decisions", ofList ofDecision ds)])),
  ("store_run", fun j => do
      let s ← jStore (← arg j "store")
      let mapq ← jList (jPair jStr jInt) (← arg j "mapq")
      let ops ← jArr (← arg j "ops")
      match ← runStoreOps mapq s ops.toList with
      | none => pure (jErr "error")
      | some s' => pure (Json.mkObj [("store", ofStore s'),
          ("r2t", ofList (fun p : String × String => Json.arr #[ofStr p.1, ofStr p.2]) s'.dumpR2T)])),
  ("construction_preset", fun j => do
      match construction_presets.lookup (← jStr (← arg j "name")) with
      | none => pure (jErr "error")
      | some p => pure (presetJson p)),
  ("report_level", fun j => do
      let cli ← jLevel (← arg j "cli")
      match construction_report_level.lookup (← jStr (← arg j "preset")) with
      | none => pure (jErr "error")
      | some p => pure (ofStr (effective_report_level cli p).name)),
  ("fill", fun j => do
      let g ← jGraph (← arg j "graph")
      let reads ← jList jRead (← arg j "reads")
      -- answers of the real thread_ends / thread_starts: [[intron, pos, trusted], vertex | null]
      let key (x : Json) : Except String (Iv × Int × Bool) := do
        let a ← jArr x
        pure (← jIv a[0]!, ← jInt a[1]!, ← jBool a[2]!)
      let ends ← jList (jPair key (jOpt jIv)) (← arg j "ends")
      let starts ← jList (jPair key (jOpt jIv)) (← arg j "starts")
      let look (tbl : List ((Iv × Int × Bool) × Option Iv)) (i : Iv) (p : Int) (t : Bool) : Option Iv :=
        (amGet? tbl (i, p, t)).getD none
      let tp : ThreadParams := { ends := look ends, starts := look starts, requiresPolya := ← jBool (← arg j "requires_polya") }
      let ps := fillPaths g tp reads
      let pathLe : List Iv → List Iv → Bool := fun a b => flPathLe a b
      pure (Json.mkObj [
        ("paths", ofList (fun p : List Iv × Int => Json.arr #[ofIvList p.1, ofInt p.2]) (insSort (fun a b => pathLe a.1 b.1) ps.paths)),
        ("fl", ofList ofIvList (insSort pathLe ps.fl)),
        ("to_reads", ofList (fun p : List Iv × List Read => Json.arr #[ofIvList p.1, ofList (fun r : Read => ofStr r.id) p.2])
                       (insSort (fun a b => pathLe a.1 b.1) ps.toReads))])),
  ("get_edges", fun j => do
      -- IntronGraph.get_outgoing / get_incoming; "vtype" null = intron vertices
      let g ← jGraph (← arg j "graph")
      let intron ← jIv (← arg j "intron")
      let vt ← jOpt jInt (← arg j "vtype")
      pure (Json.mkObj [("out", ofIvList (getOutgoing g intron vt)), ("inc", ofIvList (getIncoming g intron vt))])),
  ("thread_end_start", fun j => do
      -- IntronPathProcessor.thread_ends / thread_starts on a graph
      let g ← jGraph (← arg j "graph")
      let intron ← jIv (← arg j "intron")
      let pos ← jInt (← arg j "pos")
      let trusted ← jBool (← arg j "trusted")
      let delta ← jInt (← arg j "delta")
      let apa ← jInt (← arg j "apa_delta")
      let o (v : Option Iv) : Json := match v with | none => Json.null | some x => ofIv x
      pure (Json.mkObj [("end", o (threadEnds g delta apa intron pos trusted)),
                        ("start", o (threadStarts g delta apa intron pos trusted))])),
  ("fill_graph", fun j => do
      -- IntronPathStorage.fill with the modelled thread_ends / thread_starts
      let g ← jGraph (← arg j "graph")
      let reads ← jList jRead (← arg j "reads")
      let ps := fillGraphPaths g (← jInt (← arg j "delta")) (← jInt (← arg j "apa_delta")) (← jBool (← arg j "requires_polya")) reads
      let pathLe : List Iv → List Iv → Bool := fun a b => flPathLe a b
      pure (Json.mkObj [
        ("paths", ofList (fun p : List Iv × Int => Json.arr #[ofIvList p.1, ofInt p.2]) (insSort (fun a b => pathLe a.1 b.1) ps.paths)),
        ("fl", ofList ofIvList (insSort pathLe ps.fl)),
        ("to_reads", ofList (fun p : List Iv × List Read => Json.arr #[ofIvList p.1, ofList (fun r : Read => ofStr r.id) p.2])
                       (insSort (fun a b => pathLe a.1 b.1) ps.toReads))])),
  ("count_score_exact", fun j => do
      let s := countScoreExact (← jIv (← arg j "r1")) (← jIv (← arg j "r2")) (← jIvList (← arg j "i1")) (← jIvList (← arg j "i2"))
      pure (Json.arr #[ofInt s.1, ofInt s.2])),
  ("join_transcripts", fun j => do
      -- TranscriptToGeneJoiner(storage, gene_info).join_transcripts(); "table": the floats the real count_score returned
      let rg (x : Json) : Except String RefGene := do
        pure { gid := ← jStr (← arg x "gid"), strand := ← jStrand (← arg x "strand"), region := ← jOpt jIv (← arg x "region") }
      let rt (x : Json) : Except String (String × String × List Iv) := do
        let a ← jArr x
        pure (← jStr a[0]!, ← jStr a[1]!, ← jIvList a[2]!)
      let key (x : Json) : Except String (Iv × Iv × List Iv × List Iv) := do
        let a ← jArr x
        pure (← jIv a[0]!, ← jIv a[1]!, ← jIvList a[2]!, ← jIvList a[3]!)
      let gs ← jList rg (← arg j "ref_genes")
      let ts ← jList rt (← arg j "ref_transcripts")
      let storage ← jList jTModel (← arg j "storage")
      let table ← jList (jPair key (jPair jInt jInt)) (← arg j "table")
      let heur : ScoreFn := fun r1 r2 i1 i2 =>
        match amGet? table (r1, r2, i1, i2) with
        | some s => s
        | none => countScoreExact r1 r2 i1 i2
      match joinTranscripts heur gs ts storage with
      | none => pure (jErr "error")
      | some (jn, ms) =>
        pure (Json.mkObj [
          ("genes", ofList (fun m : TModel => Json.arr #[ofStr m.tid, ofStr m.gene]) ms),
          ("strands", ofList (fun p : String × Strand => Json.arr #[ofStr p.1, ofStr p.2.toString]) jn.strands),
          ("regions", ofList (fun p : String × Iv => Json.arr #[ofStr p.1, ofIv p.2]) jn.regions),
          ("g2t", ofList (fun p : String × List String => Json.arr #[ofStr p.1, ofList ofStr p.2]) jn.g2t),
          ("introns", ofList (fun p : String × List Iv => Json.arr #[ofStr p.1, ofIvList (sortIv p.2)]) jn.introns),
          ("scores", ofList (fun p : (String × String) × Score => Json.arr #[ofStr p.1.1, ofStr p.1.2, ofInt p.2.1, ofInt p.2.2]) jn.scores)])),
  ("graph_attach", fun j => do
      -- IntronGraph.__init__ with the traced simplify() history and the MODELLED attach_terminal_positions()
      let reads ← jList jRead (← arg j "reads")
      let ops ← jList jOp (← arg j "ops")
      let tp : TermParams := {
        delta := ← jInt (← arg j "delta"), apaDelta := ← jInt (← arg j "apa_delta"),
        abs := ← jInt (← arg j "terminal_position_abs"), relM := ← jInt (← arg j "terminal_position_rel"),
        internalRelM := ← jInt (← arg j "terminal_internal_position_rel"),
        knownEnds := ← jList (jPair jIv (jList jInt)) (← arg j "known_ends"),
        knownStarts := ← jList (jPair jIv (jList jInt)) (← arg j "known_starts") }
      match Graph.constructed (← jIvList (← arg j "known")) (← jInt (← arg j "delta")) reads (← jInt (← arg j "min_count")) with
      | none => pure (jErr "error")
      | some g0 =>
        match runOps (obsIntrons reads) g0 ops with
        | none => pure (jErr "error")
        | some g1 =>
          match attachTerminalOps g1 tp reads with
          | none => pure (jErr "error")
          | some (aops, fragile) =>
            match aops.foldlM applyOp g1 with
            | none => pure (jErr "error")
            | some g2 => pure (Json.mkObj [("graph", ofGraph g2), ("fragile", ofBool fragile), ("n_attach", ofNat aops.length)])),
  ("simplify_run", fun j => do
      -- IntronGraph.__init__ up to and including simplify(), COMPUTED by the model: graph, operations, boundary flag
      let reads ← jList jRead (← arg j "reads")
      let sp ← jSimpParams (← arg j "simplify")
      match Graph.constructed (← jIvList (← arg j "known")) (← jInt (← arg j "delta")) reads (← jInt (← arg j "min_count")) with
      | none => pure (jErr "error")
      | some g0 =>
        match simplifySG sp (SG.init g0) with
        | none => pure (jErr "error")
        | some s => pure (Json.mkObj [("graph", ofGraph s.g), ("ops", ofList ofOp s.log), ("fragile", ofBool s.fragile)])),
  ("simplify_state", fun j => do
      -- simplify() on an arbitrary graph state
      let g ← jGraph (← arg j "graph")
      let sp ← jSimpParams (← arg j "simplify")
      match simplifySG sp (SG.init g) with
      | none => pure (jErr "error")
      | some s => pure (Json.mkObj [("graph", ofGraph s.g), ("ops", ofList ofOp s.log), ("fragile", ofBool s.fragile)])),
  ("collapse_vertex_set", fun j => do
      let sp ← jSimpParams (← arg j "simplify")
      let cl ← jList (jPair jIv jInt) (← arg j "clustered")
      let r := collapseVertexSet sp cl (← jIvList (← arg j "vs"))
      pure (Json.mkObj [("subst", ofList (fun p : Iv × Iv => Json.arr #[ofIv p.1, ofIv p.2]) (sortSubst r.1)), ("fragile", ofBool r.2)])),
  ("graph_full", fun j => do
      -- the whole IntronGraph.__init__ inside the model: process, construct, COMPUTED simplify(), MODELLED attachment
      let reads ← jList jRead (← arg j "reads")
      let sp ← jSimpParams (← arg j "simplify")
      let tp : TermParams := {
        delta := ← jInt (← arg j "delta"), apaDelta := ← jInt (← arg j "apa_delta"),
        abs := ← jInt (← arg j "terminal_position_abs"), relM := ← jInt (← arg j "terminal_position_rel"),
        internalRelM := ← jInt (← arg j "terminal_internal_position_rel"),
        knownEnds := ← jList (jPair jIv (jList jInt)) (← arg j "known_ends"),
        knownStarts := ← jList (jPair jIv (jList jInt)) (← arg j "known_starts") }
      match Graph.constructed (← jIvList (← arg j "known")) (← jInt (← arg j "delta")) reads (← jInt (← arg j "min_count")) with
      | none => pure (jErr "error")
      | some g0 =>
        match simplifySG sp (SG.init g0) with
        | none => pure (jErr "error")
        | some s =>
          match attachTerminalOps s.g tp reads with
          | none => pure (jErr "error")
          | some (aops, fragile) =>
            match aops.foldlM applyOp s.g with
            | none => pure (jErr "error")
            | some g2 => pure (Json.mkObj [("graph", ofGraph g2), ("fragile", ofBool (fragile || s.fragile)),
                                           ("n_attach", ofNat aops.length), ("n_simplify", ofNat s.log.length)])),
  ("monoexon", fun j => do
      let chr ← jStr (← arg j "chr")
      let forb ← jList jNat (← arg j "forbidden")
      let jc (x : Json) : Except String MonoCluster := do
        let rd (y : Json) : Except String (String × Int × Int) := do
          let a ← jArr y
          pure (← jStr a[0]!, ← jInt a[1]!, ← jInt a[2]!)
        pure { threePrime := ← jInt (← arg x "three_prime"), reads := ← jList rd (← arg x "reads") }
      let clusters ← jList jc (← arg j "clusters")
      let st : MonoState := { idv := ← jNat (← arg j "idv"), store := ← jStore (← arg j "store") }
      match monoLoop chr (← jInt (← arg j "min_novel_count")) (nextId forb (forb.length + 1)) (← jBool (← arg j "forward")) clusters st [] with
      | none => pure (jErr "error")
      | some (st', ms) => pure (Json.mkObj [("idv", ofNat st'.idv), ("store", ofStore st'.store), ("added", ofList ofTModel ms)])),
  ("set_ends", fun j => do
      pure (ofIvList (setEnd (setStart (← jIvList (← arg j "ex")) (← jInt (← arg j "s"))) (← jInt (← arg j "e"))))),
  ("validate_exons", fun j => do pure (ofBool (validateExons (← jIvList (← arg j "l"))))),
  ("matching_allowed", fun j => do
      match MatchEventSubtype.ofName? (← jStr (← arg j "event")) with
      | none => pure (jErr "error")
      | some e => pure (ofBool (matching_allowed_events.contains e))),
  ("constants", fun _ => do
      pure (Json.mkObj [("transcript_prefix", ofStr tn_transcript_prefix), ("novel_gene_prefix", ofStr tn_novel_gene_prefix),
                        ("nic", ofStr tn_nic_transcript_suffix), ("nnic", ofStr tn_nnic_transcript_suffix),
                        ("VERTEX_polya", ofInt VERTEX_polya), ("VERTEX_read_end", ofInt VERTEX_read_end),
                        ("VERTEX_polyt", ofInt VERTEX_polyt), ("VERTEX_read_start", ofInt VERTEX_read_start),
                        ("cli_default", ofStr report_canonical_cli_default.name)]))
]

end IsoVerif.Driver.C04
