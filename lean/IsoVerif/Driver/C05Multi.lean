import IsoVerif.Driver.Core
import IsoVerif.Driver.C05
import IsoVerif.Model.RegionsMulti
import IsoVerif.Model.ChromHeaders

namespace IsoVerif.Driver.C05Multi
open Lean IsoVerif.Driver IsoVerif.Gen IsoVerif.Model IsoVerif.Model.Regions IsoVerif.Model.RegionsMulti
open IsoVerif.Driver.C05 (jAln jAlns jMode ofStats)

/-- files = list of lists of `[start, stop, flags, mapq, rid]` -/
def jFiles (j : Json) : Except String (List (List Aln)) := jList jAlns j

def ofPair (e : FAln) : Json := Json.arr #[ofNat e.1, ofNat e.2.rid]
def ofPairs (l : List FAln) : Json := ofList ofPair l

def ofForwardM : Option (List (Iv × List FAln)) → Json
  | none => jErr "error"
  | some l => ofList (fun p => Json.arr #[ofIv p.1, ofPairs p.2]) l

def ofOptPairs : Option (List FAln) → Json
  | none => jErr "error"
  | some l => ofPairs l

def jFAln (j : Json) : Except String FAln := jPair jNat jAln j

def jChrom (j : Json) : Except String (List (List Aln) × Int) := do
  pure (← jFiles (← arg j "files"), ← jInt (← arg j "L"))

/-- one file with its header entry: `{"len": LN or null, "recs": [...]}` -/
def jHFile (j : Json) : Except String HFile := do
  pure ⟨← jOpt jInt (← arg j "len"), ← jAlns (← arg j "recs")⟩

def lookup (tbl : List (String × String)) (k : String) : Option String :=
  match tbl.find? (fun p => p.1 == k) with
  | some p => some p.2
  | none => none

def ops : List (String × Handler) := [
  ("collect_files", fun j => do
      pure (ofForwardM (collectFiles (← jMode (← arg j "mode")) (← jFiles (← arg j "files")) (← jInt (← arg j "L"))))),
  ("scan", fun j => do
      let files ← jFiles (← arg j "files")
      pure (ofPairs (scanStream (restOf files.flatten.toArray) (tagFiles 0 files) (← jInt (← arg j "L"))))),
  ("region_stream", fun j => do
      let files ← jFiles (← arg j "files")
      pure (ofPairs (regionStream (restOf files.flatten.toArray) (tagFiles 0 files) (← jIv (← arg j "region"))))),
  ("chrom_stats", fun j => do
      pure (ofStats (chromStatsFiles (← jFiles (← arg j "files")) (← jInt (← arg j "L"))))),
  ("collect_headers", fun j => do
      pure (ofForwardM (collectHeaders (← jMode (← arg j "mode")) (← jList jHFile (← arg j "hfiles"))
        (← jOpt jInt (← arg j "fasta"))))),
  ("chrom_stats_headers", fun j => do
      pure (ofStats (chromStatsHeaders (← jList jHFile (← arg j "hfiles")) (← jOpt jInt (← arg j "fasta"))))),
  ("chrom_length", fun j => do
      pure (ofInt (chromLength (← jList jHFile (← arg j "hfiles"))))),
  ("mem_get_m", fun j => do
      let pairs ← jList jFAln (← arg j "pairs")
      let s := pairs.foldl MStore.add MStore.empty
      pure (ofOptPairs (s.memGet (← jOpt jIv (← arg j "region"))))),
  ("experiment_stats", fun j => do
      let chroms ← jList jChrom (← arg j "chroms")
      let all := (chroms.map (fun c => c.1.flatten)).flatten
      -- one numbering for the whole experiment: tags continue from chromosome to chromosome
      let rec go (n : Nat) : List (List (List Aln) × Int) → List (List (List C12.Aln) × Int)
        | [] => []
        | c :: cs => (tagFiles n c.1, c.2) :: go (n + c.1.flatten.length) cs
      pure (ofStats (experimentStats (restOf all.toArray) (go 0 chroms) (← jList jNat (← arg j "unmapped"))))),
  ("file_group", fun j => do
      let names ← jList jStr (← arg j "names")
      let tbl ← jList (jPair jStr jStr) (← arg j "readable")
      pure (ofOpt ofStr (fileGroup names (lookup tbl) (← jNat (← arg j "i")))))
]

end IsoVerif.Driver.C05Multi
