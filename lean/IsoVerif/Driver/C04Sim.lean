import IsoVerif.Driver.Core
import IsoVerif.Driver.C01
import IsoVerif.Driver.C04
import IsoVerif.Model.SimilarIsoforms

/-! driver ops of the C04 growth "detect_similar_isoforms inside the model" (registered under the prefix `C04.`) -/
namespace IsoVerif.Driver.C04Sim
open Lean IsoVerif.Driver IsoVerif.Gen IsoVerif.Model IsoVerif.Model.C04

def jSimParams (j : Json) : Except String SimParams := do
  pure { p := ← IsoVerif.Driver.C01.jParams (← arg j "params"), q := ← IsoVerif.Driver.C01.jCParams (← arg j "cparams") }

def ofSub : Option (List (String × String)) → Json
  | none => jErr "error"
  | some l => ofList (fun p : String × String => Json.arr #[ofStr p.1, ofStr p.2]) l

def spanOf (tbl : List (String × Iv)) (r : String) : Iv := (amGet? tbl r).getD (0, 0)

def ops : List (String × Handler) := [
  ("is_matching", fun j => do
      -- is_matching_assignment on (type, events of isoform_matches[0] | null when there is no match)
      let s ← jStr (← arg j "type")
      let evs ← jOpt (jList IsoVerif.Driver.C01.jEventTy) (← arg j "events")
      match ReadAssignmentType.ofName? s with
      | none => throw s!"unknown type {s}"
      | some t =>
        let a : C01.Assignment :=
          { ty := t, isoMatches := match evs with
              | none => []
              | some l => [{ iso := some 0, cls := .undefined, events := l.map (fun e => ({ ty := e } : C01.Event)) }] }
        pure (IsoVerif.Driver.C01.ofOptBool (isMatchingAssignment a))),
  ("sim_match", fun j => do
      let sp ← jSimParams j
      let model ← IsoVerif.Driver.C04.jTModel (← arg j "model")
      let m ← IsoVerif.Driver.C04.jTModel (← arg j "m")
      pure (IsoVerif.Driver.C01.ofOptBool (simMatch sp model m))),
  ("detect_similar", fun j => do
      let sp ← jSimParams j
      let ms ← jList IsoVerif.Driver.C04.jTModel (← arg j "models")
      pure (ofSub (detectSimilar sp ms))),
  ("sim_filter", fun j => do
      -- [pre_filter_transcripts;] filter_transcripts with the computed detect_similar_isoforms and end correction
      let sp ← jSimParams j
      let s ← IsoVerif.Driver.C04.jStore (← arg j "store")
      let mapq ← jList (jPair jStr jInt) (← arg j "mapq")
      let spans ← jList (jPair jStr jIv) (← arg j "spans")
      let cov ← jList (jPair jStr jInt) (← arg j "cov_term")
      let fp : FilterParams := ⟨← jInt (← arg j "min_novel_count"), ← jInt (← arg j "mapq_cutoff")⟩
      let pre ← jBool (← arg j "pre_filter")
      let s0 : Option Store := if pre then s.preFilter fp (IsoVerif.Driver.C04.mapqOf mapq) else some s
      match s0 with
      | none => pure (jErr "error")
      | some s1 =>
        let sub1 := detectSimilar sp s1.models
        match s1.filterTranscriptsC fp sp (IsoVerif.Driver.C04.mapqOf mapq) (spanOf spans)
                (fun m => (amGet? cov m.tid).getD 0) with
        | none => pure (jErr "error")
        | some s' => pure (Json.mkObj [("store", IsoVerif.Driver.C04.ofStore s'), ("sub1", ofSub sub1)]))
]

end IsoVerif.Driver.C04Sim
