/-
Driver ops of the C11 extension for Model/Bed.lean, Model/Corrector.lean, Model/Gtf.lean: only the NEW
transformations (`T.*`), so that the harness can check that its Python twins are the Lean definitions used in
the theorems.  The functions themselves are evaluated through the owning properties' ops (`C14.*`, `C03.*`).
-/
import IsoVerif.Driver.Core
import IsoVerif.Model.Bed
import IsoVerif.Model.Corrector
import IsoVerif.Model.Gtf
import IsoVerif.Model.C11Symmetry
import IsoVerif.Model.C11SymBedCorr

namespace IsoVerif.Driver.C11BedCorr
open Lean IsoVerif.Driver IsoVerif.Gen IsoVerif.Model IsoVerif.Model.C14 IsoVerif.Model.C03 IsoVerif.Model.C11

def jBed (j : Json) : Except String BedRecord := do
  pure { chrom := ← jStr (← arg j "chrom"), chromStart := ← jInt (← arg j "chromStart"),
         chromEnd := ← jInt (← arg j "chromEnd"), name := ← jStr (← arg j "name"), strand := ← jStr (← arg j "strand"),
         thickStart := ← jInt (← arg j "thickStart"), thickEnd := ← jInt (← arg j "thickEnd"),
         blockCount := ← jNat (← arg j "blockCount"), blockSizes := ← jList jInt (← arg j "blockSizes"),
         blockStarts := ← jList jInt (← arg j "blockStarts") }

def ofBed (r : BedRecord) : Json :=
  Json.mkObj [("chrom", ofStr r.chrom), ("chromStart", ofInt r.chromStart), ("chromEnd", ofInt r.chromEnd),
              ("name", ofStr r.name), ("strand", ofStr r.strand), ("thickStart", ofInt r.thickStart),
              ("thickEnd", ofInt r.thickEnd), ("blockCount", ofNat r.blockCount),
              ("blockSizes", ofIntList r.blockSizes), ("blockStarts", ofIntList r.blockStarts),
              ("blocks", ofIvList r.blocks), ("line", ofStr r.render)]

def jFeat (j : Json) : Except String Feat := do
  let a ← j.getArr?
  if a.size = 3 then pure (← jInt a[0]!, ← jInt a[1]!, ← jInt a[2]!) else throw "feature triple expected"

def ofFeat (f : Feat) : Json := Json.arr #[ofInt f.1, ofInt f.2.1, ofInt f.2.2]

def jModel (j : Json) : Except String TModel := do
  pure { chr := ← jNat (← arg j "chr"), strand := ← jNat (← arg j "strand"), tid := ← jNat (← arg j "tid"),
         gid := ← jNat (← arg j "gid"), exons := ← jIvList (← arg j "exons"), known := ← jBool (← arg j "known"),
         other := ← jList jFeat (← arg j "other") }

def ofModel (m : TModel) : Json :=
  Json.mkObj [("chr", ofNat m.chr), ("strand", ofNat m.strand), ("tid", ofNat m.tid), ("gid", ofNat m.gid),
              ("exons", ofIvList m.exons), ("known", ofBool m.known), ("other", ofList ofFeat m.other)]

def jRefTx (j : Json) : Except String RefTx := do
  pure { tid := ← jNat (← arg j "tid"), gid := ← jNat (← arg j "gid"), strand := ← jNat (← arg j "strand"),
         exons := ← jIvList (← arg j "exons"), other := ← jList jFeat (← arg j "other") }

def ofRefTx (r : RefTx) : Json :=
  Json.mkObj [("tid", ofNat r.tid), ("gid", ofNat r.gid), ("strand", ofNat r.strand), ("exons", ofIvList r.exons),
              ("other", ofList ofFeat r.other)]

def jCtx (j : Json) : Except String GeneCtx := do
  pure { chr := ← jNat (← arg j "chr"), regions := ← jList (jPair jNat jIv) (← arg j "regions"),
         isoforms := ← jList jRefTx (← arg j "isoforms") }

def ofCtx (c : GeneCtx) : Json :=
  Json.mkObj [("chr", ofNat c.chr), ("regions", ofList (fun (q : Id × Iv) => Json.arr #[ofNat q.1, ofIv q.2]) c.regions),
              ("isoforms", ofList ofRefTx c.isoforms)]

def jCall (j : Json) : Except String Call := do
  pure { ctx := ← jCtx (← arg j "ctx"), models := ← jList jModel (← arg j "models") }

def ofCall (c : Call) : Json := Json.mkObj [("ctx", ofCtx c.ctx), ("models", ofList ofModel c.models)]

def ofLine : Line → Json
  | .gene c s e st g n => Json.arr #[ofStr "gene", ofNat c, ofInt s, ofInt e, ofNat st, ofNat g, ofNat n]
  | .tx c s e st g t => Json.arr #[ofStr "tx", ofNat c, ofInt s, ofInt e, ofNat st, ofNat g, ofNat t]
  | .feat c k s e st g t n => Json.arr #[ofStr "feat", ofNat c, ofInt k, ofInt s, ofInt e, ofNat st, ofNat g, ofNat t, ofNat n]

def jLine (j : Json) : Except String Line := do
  let a ← j.getArr?
  if a.size < 7 then throw "line expected"
  let kind ← jStr a[0]!
  if kind == "gene" then
    pure (.gene (← jNat a[1]!) (← jInt a[2]!) (← jInt a[3]!) (← jNat a[4]!) (← jNat a[5]!) (← jNat a[6]!))
  else if kind == "tx" then
    pure (.tx (← jNat a[1]!) (← jInt a[2]!) (← jInt a[3]!) (← jNat a[4]!) (← jNat a[5]!) (← jNat a[6]!))
  else if kind == "feat" ∧ a.size = 9 then
    pure (.feat (← jNat a[1]!) (← jInt a[2]!) (← jInt a[3]!) (← jInt a[4]!) (← jNat a[5]!) (← jNat a[6]!) (← jNat a[7]!)
            (← jNat a[8]!))
  else throw "line expected"

def jEvent (j : Json) : Except String MEvent := do
  let t ← jStr (← arg j "t")
  match MatchEventSubtype.ofName? t with
  | none => throw s!"unknown event type {t}"
  | some et => pure { etype := et, iso := ← jIv (← arg j "iso"), read := ← jIv (← arg j "read") }

def ofEvent (e : MEvent) : Json :=
  Json.mkObj [("t", ofStr e.etype.name), ("iso", ofIv e.iso), ("read", ofIv e.read)]

/-- `err`: one entry `[[indelL, mmL], [indelR, mmR]]` per read intron (as in Driver/C14.lean) -/
def jErrTable (j : Json) : Except String (Nat → Bool → Int × Int) := do
  let l ← jList (jPair jIv jIv) j
  pure (fun i left => match l[i]? with
    | some q => if left then q.1 else q.2
    | none => (1, 0))

def errName : CErr → String
  | .index => "index" | .assertion => "assertion" | .fuel => "fuel"

def ops : List (String × Handler) := [
  ("T.shift_bed", fun j => do pure (ofBed (shiftBed (← jInt (← arg j "k")) (← jBed (← arg j "rec"))))),
  ("T.mirror_bed", fun j => do
      pure (ofBed (mirrorBed (← jInt (← arg j "L")) (← jStr (← arg j "strand")) (← jBed (← arg j "rec"))))),
  ("T.shift_exons_result", fun j => do
      -- `shiftExL` on an `Except` rebuilt from JSON: {"error": e} or an exon list
      let k ← jInt (← arg j "k")
      let v ← arg j "value"
      let r : Except CErr (List Iv) ← (match v.getObjVal? "error" with
        | .ok e => do
          let s ← jStr e
          pure (.error (if s == "assertion" then CErr.assertion else if s == "fuel" then CErr.fuel else CErr.index))
        | .error _ => do pure (.ok (← jIvList v)))
      pure (match shiftExL k r with
        | .error e => jErr (errName e)
        | .ok l => ofIvList l)),
  ("T.mirror_emap", fun j => do
      let m := mirrorEmap (← jNat (← arg j "n")) (← jNat (← arg j "m")) (← jList (jPair jInt jEvent) (← arg j "emap"))
      pure (ofList (fun (q : Int × MEvent) => Json.arr #[ofInt q.1, ofEvent q.2]) m)),
  ("T.mirror_event_list", fun j => do
      let l := mirrorEventList (← jNat (← arg j "n")) (← jNat (← arg j "m")) (← jList jEvent (← arg j "events"))
      pure (ofList ofEvent l)),
  ("T.mirror_micro", fun j => do
      let m := mirrorMicroMap (← jNat (← arg j "n")) (← jNat (← arg j "m")) (← jList jIv (← arg j "micro"))
      pure (ofList ofIv m)),
  ("T.mirror_err", fun j => do
      let n ← jNat (← arg j "n")
      let f := mirrorErr n (← jErrTable (← arg j "err"))
      pure (ofList (fun i => Json.arr #[ofIv (f i true), ofIv (f i false)]) (List.range n))),
  ("T.shift_tmodel", fun j => do pure (ofModel (shiftTM (← jInt (← arg j "k")) (← jModel (← arg j "m"))))),
  ("T.mirror_tmodel", fun j => do pure (ofModel (mirrorTM (← jInt (← arg j "L")) (← jModel (← arg j "m"))))),
  ("T.shift_calls", fun j => do
      let k ← jInt (← arg j "k")
      pure (ofList ofCall ((← jList jCall (← arg j "calls")).map (shiftCall k)))),
  ("T.shift_lines", fun j => do
      let k ← jInt (← arg j "k")
      pure (ofList ofLine ((← jList jLine (← arg j "lines")).map (shiftLine k)))),
  ("T.mirror_lines", fun j => do
      let L ← jInt (← arg j "L")
      pure (ofList ofLine ((← jList jLine (← arg j "lines")).map (mirrorLine L))))
]

end IsoVerif.Driver.C11BedCorr
