import IsoVerif.Driver.Core
import IsoVerif.Driver.C03
import IsoVerif.Model.GtfRef
import IsoVerif.Model.GtfCheck

namespace IsoVerif.Driver.C03R
open Lean IsoVerif.Driver IsoVerif.Driver.C03 IsoVerif.Gen IsoVerif.Model IsoVerif.Model.C03

def jDbTx (j : Json) : Except String DbTx := do
  pure { tid := ← jNat (← arg j "tid"), gid := ← jNat (← arg j "gid"), seqid := ← jNat (← arg j "seqid"),
         strand := ← jNat (← arg j "strand"), exons := ← jIvList (← arg j "exons"), other := ← jList jFeat (← arg j "other") }

def jChrAnn (j : Json) : Except String ChrAnn := do
  pure { chr := ← jNat (← arg j "chr"), regions := ← jList (jPair jNat jIv) (← arg j "regions"),
         txs := ← jList jDbTx (← arg j "txs") }

def jRun (j : Json) : Except String RunInput := do
  pure { fastaKeys := ← jList jNat (← arg j "fasta"), ann := ← jList jChrAnn (← arg j "ann"),
         novel := ← jList (jPair jNat (jList jModel)) (← arg j "novel") }

def ofTables (t : RefTables) : Json :=
  Json.mkObj [("introns", ofList (fun p => Json.arr #[ofNat p.1, ofIvList p.2]) t.introns),
              ("g2t", ofList (fun p => Json.arr #[ofNat p.1, ofNatList p.2]) t.g2t)]

def jExonRec (j : Json) : Except String ExonRec := do
  pure { seq := ← jNat (← arg j "seq"), tid := ← jNat (← arg j "tid"), iv := ← jIv (← arg j "iv") }

def ofExonRec (r : ExonRec) : Json := Json.arr #[ofNat r.seq, ofNat r.tid, ofIv r.iv]

def ofVerdict : ExonVerdict → Json
  | .ok => ofStr "ok"
  | .dup => ofStr "dup"
  | .overlap => ofStr "overlap"

def ops : List (String × Handler) := [
  -- exon block of check_gtf_duplicates: gtf_correct, exon lines of the corrected annotation, verdict per line; repaired and pinned
  ("exon_check", fun j => do
      let l ← jList jExonRec (← arg j "lines")
      let r := exonCheck l
      let o := exonCheckOrig l
      pure (Json.mkObj [("correct", ofBool r.1), ("kept", ofList ofExonRec r.2), ("verdicts", ofList ofVerdict (exonVerdicts l)),
                        ("orig_correct", ofBool o.1), ("orig_kept", ofList ofExonRec o.2)])),
  -- keys of all_isoforms_exons of the chromosome-wide GeneInfo, and from_reference_transcript on one id
  ("isoforms", fun j => do
      let a ← jChrAnn (← arg j "ann")
      pure (ofNatList (a.ctx.isoforms.map (·.tid)))),
  ("from_reference", fun j => do
      let a ← jChrAnn (← arg j "ann")
      pure (match fromReference a.ctx (← jNat (← arg j "isoform")) with
            | none => jErr "error"
            | some m => ofModel m)),
  -- second loop of TranscriptToGeneJoiner.__init__: repaired and pinned
  ("joiner_tables", fun j => do
      let a ← jChrAnn (← arg j "ann")
      pure (Json.mkObj [("fixed", ofTables a.joinerTables),
                        ("orig", match a.joinerTablesOrig with
                                 | none => jErr "error"
                                 | some t => ofTables t)])),
  -- the extended annotation of a run: one block of lines per key of the FASTA
  ("extended_run", fun j => do
      let inp ← jRun j
      pure (match extendedRun inp with
            | none => jErr "error"
            | some bs => ofList (fun b => Json.arr #[ofNat b.1, ofList ofLine b.2]) bs))
]

end IsoVerif.Driver.C03R
