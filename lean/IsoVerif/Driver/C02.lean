import IsoVerif.Driver.Core
import IsoVerif.Model.Counter
import IsoVerif.Model.CounterCombine
import IsoVerif.Model.CounterGrouped
import IsoVerif.Gen.CounterTables
import IsoVerif.Gen.CombineTables
import IsoVerif.Gen.Weights

namespace IsoVerif.Driver.C02
open Lean IsoVerif.Driver IsoVerif.Gen IsoVerif.Model.C02

def ofRat (q : Rat) : Json := Json.arr #[ofInt q.num, ofNat q.den]

def jStrategy (j : Json) : Except String CountingStrategy := do
  let s ← jStr j
  match CountingStrategy.ofName? s with
  | some x => pure x
  | none => throw s!"unknown strategy {s}"

def jRat (j : Json) : Except String ReadAssignmentType := do
  let s ← jStr j
  match ReadAssignmentType.ofName? s with
  | some x => pure x
  | none => throw s!"unknown assignment type {s}"

def jNorm (j : Json) : Except String NormalizationMethod := do
  let s ← jStr j
  match NormalizationMethod.ofName? s with
  | some x => pure x
  | none => throw s!"unknown normalization {s}"

def jLevel (j : Json) : Except String Level := do
  let s ← jStr j
  if s == "gene" then pure Level.gene
  else if s == "transcript" then pure Level.transcript
  else throw s!"unknown level {s}"

def jMatch (j : Json) : Except String (Match String) := do
  let (g, t) ← jPair (jOpt jStr) (jOpt jStr) j
  pure { gene := g, transcript := t }

def jAssignment (j : Json) : Except String (Assignment String) := do
  pure { atype := ← jRat (← arg j "atype"),
         gtype := ← jRat (← arg j "gtype"),
         isoMatches := ← jList jMatch (← arg j "m"),
         nCorrectedExons := ← jNat (← arg j "nce"),
         isoformIntrons := ← jList (jPair jStr jNat) (← arg j "ii") }

def jEvent (j : Json) : Except String (Event String) := do
  let k ← jStr (← arg j "k")
  if k == "read" then pure (Event.read (← jOpt jAssignment (← arg j "a")))
  else if k == "raw" then pure (Event.raw (← jBool (← arg j "noid")) (← jList jStr (← arg j "fs")))
  else if k == "unassigned" then pure (Event.unassigned (← jNat (← arg j "n")))
  else if k == "unaligned" then pure (Event.unaligned (← jNat (← arg j "n")))
  else if k == "confirm" then pure (Event.confirm (← jList jStr (← arg j "fs")))
  else throw s!"unknown event {k}"

def ofEvent : Event String → Json
  | .read _ => Json.mkObj [("k", "read")]
  | .raw noId fs => Json.mkObj [("k", "raw"), ("noid", ofBool noId), ("fs", ofList ofStr fs)]
  | .unassigned n => Json.mkObj [("k", "unassigned"), ("n", ofNat n)]
  | .unaligned n => Json.mkObj [("k", "unaligned"), ("n", ofNat n)]
  | .confirm fs => Json.mkObj [("k", "confirm"), ("fs", ofList ofStr fs)]

/-- Python `str` order on the ids the harness generates (ASCII) -/
def strLe (a b : String) : Bool := !(decide (b < a))
/-- first column of a line at which `convert_counts_to_tpm` stops (generated from the source) -/
def statLike (s : String) : Bool :=
  if tpm_stop_exact then tpm_stop_names.contains s else tpm_stop_names.any (fun p => s.startsWith p)

def ofPart (p : Part String) : Json :=
  Json.mkObj [("rows", ofList (fun r => Json.arr #[ofStr r.1, ofInt r.2]) p.rows),
              ("stats", ofNatList [p.ambiguous, p.noFeature, p.notAligned, p.usable])]

def jPart (j : Json) : Except String (Part String) := do
  let rows ← jList (jPair jStr jInt) (← arg j "rows")
  let st ← jList jNat (← arg j "stats")
  match st with
  | [a, n, na, u] => pure { rows := rows, ambiguous := a, noFeature := n, notAligned := na, usable := u }
  | _ => throw "stats: 4 numbers expected"

def jTpmPrinted (j : Json) : Except String TpmPrinted := do
  pure { rows := ← jList (jPair jStr jInt) (← arg j "rows"), unassigned := ← jInt (← arg j "unassigned") }

def jExperiment (j : Json) : Except String ExperimentTables := do
  pure { name := ← jStr (← arg j "name"),
         geneCounts := ← jPart (← arg j "gene_counts"),
         transcriptCounts := ← jPart (← arg j "transcript_counts"),
         geneTpm := ← jTpmPrinted (← arg j "gene_tpm"),
         transcriptTpm := ← jTpmPrinted (← arg j "transcript_tpm") }

def ofCombined (t : List String × List (String × List (Option String))) : Json :=
  Json.mkObj [("header", ofList ofStr t.1),
              ("rows", ofList (fun row => Json.arr #[ofStr row.1, ofList (ofOpt ofStr) row.2]) t.2)]

def jFormat (j : Json) : Except String GroupedOutputFormat := do
  let s ← jStr j
  match GroupedOutputFormat.ofName? s with
  | some x => pure x
  | none => throw s!"unknown format {s}"

def ops : List (String × Handler) := [
  -- growth: part files given by NAME (the natural order is C06's model), combine_counts, grouped tables through C09
  ("merge_counts_named", fun j => do
      let named ← jList (jPair jStr jPart) (← arg j "parts")
      pure (Json.mkObj [("order", ofList ofStr ((orderParts named).map Prod.fst)),
                        ("merged", ofPart (mergeCountsNamed named (← jNat (← arg j "unaligned"))))])),
  ("combine_counts", fun j => do
      let es ← jList jExperiment (← arg j "exps")
      let r := combineCounts (fmtFixed count_decimals) (fmtFixed tpm_decimals) toString es
      pure (Json.mkObj [("combined_gene_counts.tsv", ofCombined r.geneCounts),
                        ("combined_gene_tpm.tsv", ofCombined r.geneTpm),
                        ("combined_transcript_counts.tsv", ofCombined r.transcriptCounts),
                        ("combined_transcript_tpm.tsv", ofCombined r.transcriptTpm)])),
  ("combine_tables_gen", fun _ => do
      pure (Json.mkObj [("combine_dropped_tail", ofNat combine_dropped_tail),
                        ("join", ofList ofStr [combine_join_key, combine_join_how]),
                        ("combine_calls", ofList (fun c => Json.arr #[ofStr c.1, ofStr c.2.1, ofStr c.2.2.1, ofStr c.2.2.2.1,
                                                                       ofBool c.2.2.2.2]) combine_calls),
                        ("header", ofList ofStr [counts_header_key, counts_header_value]),
                        ("tpm_header_replace", ofList ofStr [tpm_header_replace.1, tpm_header_replace.2]),
                        ("tpm_unassigned_name", ofStr tpm_unassigned_name)])),
  ("grouped_run_dump", fun j => do
      let s ← jStrategy (← arg j "s")
      let lvl ← jLevel (← arg j "lvl")
      let complete ← jList jStr (← arg j "complete")
      let groups ← jList jStr (← arg j "groups")
      let oz ← jBool (← arg j "output_zeroes")
      let fmt ← jFormat (← arg j "fmt")
      let tes ← jList (jPair jEvent jStr) (← arg j "events")
      -- the composite counter feeds the ungrouped counter first: a call that raises there never reaches the grouped one
      match run s lvl (CState.init complete) (tes.map Prod.fst) with
      | none => pure (jErr "error")
      | some _ =>
        match groupedRun groups s lvl complete oz fmt tes with
        | .error _ => pure (jErr "error")
        | .ok c =>
          match IsoVerif.Model.C09.dump c with
          | .error _ => pure (jErr "error")
          | .ok d =>
            pure (Json.mkObj [
              ("header", ofList ofStr d.header),
              ("matrix", ofOpt (ofList (fun r => Json.arr #[ofStr r.1, ofList ofRat r.2,
                                                            ofList (fun q => ofInt (hundredths q)) r.2])) d.matrix),
              ("linear", ofOpt (ofList (fun t => Json.arr #[ofStr t.1, ofStr t.2.1, ofRat t.2.2,
                                                            ofInt (hundredths t.2.2)])) d.linear),
              ("group_sums", ofList (fun g => Json.arr #[ofStr g,
                  ofList (fun f => Json.arr #[ofStr f, ofRat (groupSum s lvl tes g f)]) (isort strLe (dedup c.allFeatures))])
                (IsoVerif.Model.C09.sortStr groups))])),
  ("process_ambiguous", fun j => do
      pure (ofRat (processAmbiguous (← jStrategy (← arg j "s")) (← jNat (← arg j "k"))))),
  ("process_inconsistent", fun j => do
      match processInconsistent (← jStrategy (← arg j "s")) (← jRat (← arg j "t")) (← jNat (← arg j "k")) with
      | none => pure (jErr "error")
      | some q => pure (ofRat q)),
  -- the re-translated source functions (translator self-check)
  ("gen_process_ambiguous", fun j => do
      match process_ambiguous (← jStrategy (← arg j "s")) (← jNat (← arg j "k")) with
      | none => pure (jErr "error")
      | some q => pure (ofRat q)),
  ("gen_process_inconsistent", fun j => do
      match process_inconsistent (← jStrategy (← arg j "s")) (← jRat (← arg j "t")) (← jNat (← arg j "k")) with
      | none => pure (jErr "error")
      | some q => pure (ofRat q)),
  ("features", fun j => do
      let a ← jAssignment (← arg j "a")
      let lvl ← jLevel (← arg j "lvl")
      pure (Json.mkObj [("features", ofList ofStr (isort strLe (features lvl a))),
                        ("type", ofStr (typeOf lvl a).name),
                        ("confirms", match confirms lvl a with
                                     | none => jErr "error"
                                     | some b => ofBool b)])),
  -- a whole history on a fresh counter, then dump
  ("run_dump", fun j => do
      let s ← jStrategy (← arg j "s")
      let lvl ← jLevel (← arg j "lvl")
      let complete ← jList jStr (← arg j "complete")
      let events ← jList jEvent (← arg j "events")
      let oz ← jBool (← arg j "output_zeroes")
      match run s lvl (CState.init complete) events with
      | none => pure (jErr "error")
      | some st =>
        let exact := dumpRowsExact strLe oz st
        pure (Json.mkObj [
          ("exact", ofList (fun r => Json.arr #[ofStr r.1, ofRat r.2]) exact),
          ("part", ofPart (dump strLe oz st)),
          ("confirmed", ofList ofStr (isort strLe (dedup st.confirmed))),
          ("raw_counts", ofList (fun f => Json.arr #[ofStr f, ofRat (cget st.counts f)])
                            (sortedFeatures strLe st))])),
  ("merge_counts", fun j => do
      let parts ← jList jPart (← arg j "parts")
      pure (ofPart (mergeCounts parts (← jNat (← arg j "unaligned"))))),
  ("counts_to_tpm", fun j => do
      let norm ← jNorm (← arg j "norm")
      let oz ← jBool (← arg j "output_zeroes")
      let rows ← jList (jPair jStr jInt) (← arg j "rows")
      let usable ← jNat (← arg j "usable")
      let t := countsToTpm norm oz statLike rows usable
      pure (Json.mkObj [
        ("rows", ofList (fun r => Json.arr #[ofStr r.1, ofRat r.2, ofInt (millionths r.2)]) t.rows),
        ("unassigned", Json.arr #[ofRat t.unassigned, ofInt (millionths t.unassigned)])])),
  ("forward_counts", fun j => do
      let tr ← jList (jPair jStr (jList jStr)) (← arg j "tr")
      let cnt ← jList (jPair jStr jNat) (← arg j "cnt")
      let models ← jList jStr (← arg j "models")
      pure (ofList ofEvent (forwardCounts tr cnt models))),
  ("hundredths", fun j => do
      let (n, d) ← jPair jInt jNat (← arg j "q")
      pure (ofInt (hundredths ((n : Rat) / (d : Rat)))))
]

end IsoVerif.Driver.C02
