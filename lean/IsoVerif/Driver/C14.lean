import IsoVerif.Driver.Core
import IsoVerif.Model.Bed
import IsoVerif.Model.Corrector
import IsoVerif.Model.Illumina

namespace IsoVerif.Driver.C14
open Lean IsoVerif.Driver IsoVerif.Gen IsoVerif.Model IsoVerif.Model.C14

def jEvent (j : Json) : Except String MEvent := do
  let t ← jStr (← arg j "t")
  match MatchEventSubtype.ofName? t with
  | none => throw s!"unknown event type {t}"
  | some et => pure { etype := et, iso := ← jIv (← arg j "iso"), read := ← jIv (← arg j "read") }

def ofEvent (e : MEvent) : Json :=
  Json.mkObj [("t", ofStr e.etype.name), ("iso", ofIv e.iso), ("read", ofIv e.read)]

def jFlags (j : Json) : Except String CorrectionPreset := do
  pure { fuzzy_junctions := ← jBool (← arg j "fuzzy_junctions"),
         intron_shifts := ← jBool (← arg j "intron_shifts"),
         skipped_exons := ← jBool (← arg j "skipped_exons"),
         terminal_exons := ← jBool (← arg j "terminal_exons"),
         fake_terminal_exons := ← jBool (← arg j "fake_terminal_exons"),
         microintron_retention := ← jBool (← arg j "microintron_retention") }

def ofFlags (f : CorrectionPreset) : Json :=
  Json.mkObj [("fuzzy_junctions", ofBool f.fuzzy_junctions), ("intron_shifts", ofBool f.intron_shifts),
              ("skipped_exons", ofBool f.skipped_exons), ("terminal_exons", ofBool f.terminal_exons),
              ("fake_terminal_exons", ofBool f.fake_terminal_exons),
              ("microintron_retention", ofBool f.microintron_retention)]

def jParams (j : Json) : Except String CParams := do
  pure { fl := ← jFlags (← arg j "flags"), delta := ← jInt (← arg j "delta") }

/-- `err`: list (one entry per read intron) of `[[indelL, mmL], [indelR, mmR]]`; the real code calls
    `get_error_count` only for indices of read introns, so the table covers every call -/
def jErrTable (j : Json) : Except String (Nat → Bool → Int × Int) := do
  let l ← jList (jPair jIv jIv) j
  pure (fun i left => match l[i]? with
    | some q => if left then q.1 else q.2
    | none => (1, 0))

def errName : CErr → String
  | .index => "index" | .assertion => "assertion" | .fuel => "fuel"

def ofRes : Except CErr (Iv × List Iv) → Json
  | .error e => jErr (errName e)
  | .ok (reg, ni) => Json.mkObj [("region", ofIv reg), ("introns", ofIvList ni)]

def ofExons : Except CErr (List Iv) → Json
  | .error e => jErr (errName e)
  | .ok ex => ofIvList ex

def jEmap (j : Json) : Except String (List (Int × MEvent)) := jList (jPair jInt jEvent) j

def ops : List (String × Handler) := [
  ("bed_record", fun j => do
      let r := bedRecord (← jStr (← arg j "chrom")) (← jStr (← arg j "name")) (← jStr (← arg j "strand"))
                 (← jIvList (← arg j "exons"))
      pure (match r with
        | none => jErr "index"
        | some r => Json.mkObj [("chromStart", ofInt r.chromStart), ("chromEnd", ofInt r.chromEnd),
                                ("thickStart", ofInt r.thickStart), ("thickEnd", ofInt r.thickEnd),
                                ("blockCount", ofNat r.blockCount), ("blockSizes", ofIntList r.blockSizes),
                                ("blockStarts", ofIntList r.blockStarts), ("blocks", ofIvList r.blocks),
                                ("line", ofStr r.render)])),
  ("add_read_info", fun j => do
      let i : PrinterInput := {
        assignmentPresent := ← jBool (← arg j "assignment"), typePresent := ← jBool (← arg j "type"),
        geneInfoPresent := ← jBool (← arg j "gene_info"), checkerPresent := ← jBool (← arg j "checker"),
        checkerAccepts := ← jBool (← arg j "accepts"), printCorrected := ← jBool (← arg j "print_corrected"),
        chrom := ← jStr (← arg j "chrom"), name := ← jStr (← arg j "name"), strand := ← jStr (← arg j "strand"),
        exons := ← jIvList (← arg j "exons"), correctedExons := ← jIvList (← arg j "corrected") }
      pure (match addReadInfo i with
        | none => jErr "index"
        | some none => Json.null
        | some (some s) => ofStr s)),
  ("match_genomic_features", fun j => do
      pure (ofIvList (matchGenomicFeatures (← jInt (← arg j "delta")) (← jIvList (← arg j "known"))
              (← jIvList (← arg j "reads"))))),
  ("build_event_map", fun j => do
      let evs ← jList jEvent (← arg j "events")
      let m := buildEventMap evs
      let mm := buildMicroMap (← jBool (← arg j "micro")) evs
      -- the Python dict: one binding per key (the newest); canonical order = by first appearance in `m`;
      -- `retained_micro_introns`: per read exon the list of isoform intron indices in event order
      let keys := (m.map (·.1)).eraseDups
      let mkeys := (mm.map (·.1)).eraseDups
      pure (Json.mkObj [
        ("emap", ofList (fun k => Json.arr #[ofInt k, ofOpt ofEvent (m.lookup k)]) keys),
        ("micro", ofList (fun k => Json.arr #[ofInt k, ofIntList (microAt mm k)]) mkeys)])),
  ("process_events", fun j => do
      let p ← jParams j
      pure (ofRes (processEvents p (← jErrTable (← arg j "err")) (← jIvList (← arg j "known"))
              (← jEmap (← arg j "emap")) (← jList jIv (← arg j "micro")) (← jIv (← arg j "read_region"))
              (← jIvList (← arg j "read_introns"))
              (← jIv (← arg j "iso_region")) (← jIvList (← arg j "iso_introns"))))),
  ("correct_assigned_read", fun j => do
      let p ← jParams j
      pure (ofExons (correctAssignedRead p (← jErrTable (← arg j "err")) (← jIvList (← arg j "known"))
              (← jBool (← arg j "noninformative")) (← jOpt (jList jEvent) (← arg j "events"))
              (← jIv (← arg j "iso_region")) (← jIvList (← arg j "iso_introns")) (← jIvList (← arg j "exons"))))),
  ("presets", fun _ => do
      pure (ofList (fun (q : String × CorrectionPreset) => Json.arr #[ofStr q.1, ofFlags q.2]) correction_presets)),
  ("tables", fun _ => do
      pure (Json.mkObj [
        ("known_event_types", ofList (fun (e : MatchEventSubtype) => ofStr e.name) corrector_known_event_types),
        ("flag_binding", ofList (fun (q : String × String) => Json.arr #[ofStr q.1, ofStr q.2]) correction_flag_binding),
        ("default_strategy", ofList (fun (q : String × String) => Json.arr #[ofStr q.1, ofStr q.2]) correction_default_strategy)])),
  -- IlluminaExonCorrector (Model/Illumina.lean)
  ("ill_correct_exons", fun j => do
      pure (match Illumina.correctExons (← jIvList (← arg j "short")) (← jIvList (← arg j "exons")) with
        | none => jErr "index"
        | some ex => ofIvList ex)),
  ("ill_correct_exons_buggy", fun j => do
      pure (match Illumina.correctExonsBuggy (← jIvList (← arg j "short")) (← jIvList (← arg j "exons")) with
        | none => jErr "index"
        | some ex => ofIvList ex)),
  ("ill_corrected_introns", fun j => do
      pure (ofIvList (Illumina.correctedIntronList (← jIvList (← arg j "short")) (← jInt (← arg j "start"))
              (← jInt (← arg j "end")) (← jIvList (← arg j "introns"))))),
  ("ill_prims", fun j => do
      let l ← jIv (← arg j "left")
      let r ← jIv (← arg j "right")
      let o ← jIv (← arg j "old")
      let sc ← jInt (← arg j "score")
      pure (Json.mkObj [("skipped_score", ofInt (ill_skipped_score l r o)),
                        ("better_skipped", ofBool (ill_better_skipped l r o sc)),
                        ("right_length", ofBool (ill_right_length l r o)),
                        ("one_differs", ofBool (ill_one_differs l r o)),
                        ("site_distance", ofInt (ill_site_distance l r))])),
  ("ill_constants", fun _ => do
      pure (Json.mkObj [("MAX_SCORE", ofInt ill_MAX_SCORE), ("EXON_LENGTH", ofInt ill_EXON_LENGTH),
                        ("SIDE_DIFF", ofInt ill_SIDE_DIFF), ("ABSENT_INTRON", ofIv ill_ABSENT_INTRON)])),
  ("ill_short_introns", fun j => do
      let files ← jList (jList (jPair jIv jInt)) (← arg j "files")
      let counts := Illumina.mergeFiles files
      pure (Json.mkObj [("short", ofIvList (Illumina.shortIntronsOf counts)),
                        ("counts", ofList (fun (q : Iv × Int) => Json.arr #[ofIv q.1, ofInt q.2]) counts)]))
]

end IsoVerif.Driver.C14
