import IsoVerif.Driver.Core
import IsoVerif.Model.Cigar
import IsoVerif.Model.PolyA
import IsoVerif.Model.PolyAFinder
import IsoVerif.Model.TailSpec
import IsoVerif.Model.FinderChar
import IsoVerif.Model.FinderPad
import IsoVerif.Model.FinderMirror

namespace IsoVerif.Driver.C16
open Lean IsoVerif.Driver IsoVerif.Gen IsoVerif.Model IsoVerif.Model.C16

/-- `[[code, len], ...]`; `none` when a code is not a `CigarEvent` value (the code raises ValueError) -/
def jCigar (j : Json) : Except String (Option (List CigarOp)) := do
  let l ← jList (jPair jInt jInt) j
  pure (l.mapM (fun (p : Int × Int) =>
    if p.1 < 0 then none else (CigarEvent.ofValue? p.1.toNat).map (fun k => (k, p.2))))

def ofBlocks (st : RBState) : Json :=
  Json.mkObj [("ref", ofIvList st.refBlocks), ("read", ofIvList st.readBlocks), ("cigar", ofIvList st.cigarBlocks)]

/-- `[external_polya, external_polyt, internal_polya, internal_polyt]` -/
def jInfo (j : Json) : Except String PolyAInfo := do
  let l ← jList jInt j
  match l with
  | [ea, et, ia, it] => pure ⟨ea, et, ia, it⟩
  | _ => throw "info: four ints expected"

def ofInfo (i : PolyAInfo) : Json := ofIntList [i.externalPolyA, i.externalPolyT, i.internalPolyA, i.internalPolyT]

def ofOptInt : Option Int → Json
  | none => jErr "error"
  | some v => ofInt v

def ofCounts : Option (Int × Int) → Json
  | none => jErr "error"
  | some (a, t) => ofIntList [a, t]

def ofAInfo : Option AInfo → Json
  | none => jErr "error"
  | some r => Json.mkObj [("exons", ofIvList r.exons), ("read_blocks", ofIvList r.readBlocks),
      ("cigar_blocks", ofIvList r.cigarBlocks), ("info", ofInfo r.info), ("changed", ofBool r.exonsChanged),
      ("read_start", ofInt r.readStart), ("read_end", ofInt r.readEnd)]

def addPolyaHandler (f : Int → List Iv → List Iv → List Iv → PolyAInfo → Option AInfo) : Handler := fun j => do
  pure (ofAInfo (f (← jInt (← arg j "mf")) (← jIvList (← arg j "exons")) (← jIvList (← arg j "rb"))
    (← jIvList (← arg j "cb")) (← jInfo (← arg j "info"))))

/-- `AlignmentInfo(alignment)` followed by `add_polya_info`, for an alignment given by its CIGAR -/
def alignmentPolyaHandler (f : Int → List Iv → List Iv → List Iv → PolyAInfo → Option AInfo) : Handler := fun j => do
  match ← jCigar (← arg j "cigar") with
  | none => pure (jErr "error")
  | some c =>
    let st := getReadBlocks (← jInt (← arg j "s")) c
    if st.refBlocks.isEmpty then pure (Json.mkObj [("no_exons", ofBool true)])
    else pure (ofAInfo (f (← jInt (← arg j "mf")) st.refBlocks st.readBlocks st.cigarBlocks (← jInfo (← arg j "info"))))

def ofOptNatOrMinus1 : Option Nat → Json
  | none => ofInt (-1)
  | some v => ofNat v

def ops : List (String × Handler) := [
  -- the GENERATED tables of Gen/CigarClasses.lean, compared by the harness with the live Python objects
  ("gen_cigar_classes", fun _ => pure (Json.mkObj [
      ("match_events", ofNatList (cigar_match_events.map CigarEvent.value)),
      ("ins_del_match_events", ofNatList (cigar_ins_del_match_events.map CigarEvent.value)),
      ("polya_window", ofNat polya_window),
      ("polya_fraction", ofNatList [polya_fraction_num, polya_fraction_den])])),
  ("find_polya", fun j => do
      let seq ← jStr (← arg j "seq")
      pure (ofOptNatOrMinus1 (findPolya (← jNat (← arg j "w")) (← jNat (← arg j "c")) (seq.toList.map (· == 'A'))))),
  -- the brute-force specification of the window scan (Model/FinderChar.lean), compared with the real code as well
  ("find_polya_spec", fun j => do
      let seq ← jStr (← arg j "seq")
      pure (ofOptNatOrMinus1 (findPolyaSpec (← jNat (← arg j "w")) (← jNat (← arg j "c")) (seq.toList.map (· == 'A'))))),
  -- the specifications of the two tail finders (brute-force scan + base-by-base projection)
  ("find_polya_tail_spec", fun j => do
      match ← jCigar (← arg j "cigar") with
      | none => pure (jErr "error")
      | some c =>
        let seq ← jStr (← arg j "seq")
        pure (ofOptInt (findPolyaTailSpecFix (← jNat (← arg j "w")) (← jNat (← arg j "num")) (← jNat (← arg j "den"))
          (← jInt (← arg j "s")) c seq.toList (← jInt (← arg j "from")) (← jInt (← arg j "to"))
          (← jBool (← arg j "chk"))))),
  ("find_polyt_head_spec", fun j => do
      match ← jCigar (← arg j "cigar") with
      | none => pure (jErr "error")
      | some c =>
        let seq ← jStr (← arg j "seq")
        pure (ofOptInt (findPolytHeadSpecWin (← jNat (← arg j "w")) (← jNat (← arg j "num")) (← jNat (← arg j "den"))
          (← jInt (← arg j "s")) c seq.toList (← jInt (← arg j "from")) (← jInt (← arg j "to"))
          (← jBool (← arg j "chk"))))),
  -- the tree before `fix: padding inside the walked tail` (Props/C16Pad.lean: `pad_in_tail_witness`)
  ("move_ref_coord_orig", fun j => do
      match ← jCigar (← arg j "cigar") with
      | none => pure (jErr "error")
      | some c => pure (ofOptInt (moveRefCoordOrig c (← jInt (← arg j "shift"))))),
  ("move_ref_coord", fun j => do
      match ← jCigar (← arg j "cigar") with
      | none => pure (jErr "error")
      | some c => pure (ofOptInt (moveRefCoordFix c (← jInt (← arg j "shift"))))),
  -- the base-by-base specification of the walk (Model/TailSpec.lean), compared with the real code as well
  ("move_ref_coord_spec", fun j => do
      match ← jCigar (← arg j "cigar") with
      | none => pure (jErr "error")
      | some c => pure (ofOptInt (moveRefCoordSpecFix c (← jInt (← arg j "shift"))))),
  ("find_polya_tail", fun j => do
      match ← jCigar (← arg j "cigar") with
      | none => pure (jErr "error")
      | some c =>
        let seq ← jStr (← arg j "seq")
        pure (ofOptInt (findPolyaTailFix (← jNat (← arg j "w")) (← jNat (← arg j "num")) (← jNat (← arg j "den"))
          (← jInt (← arg j "s")) c seq.toList (← jInt (← arg j "from")) (← jInt (← arg j "to"))
          (← jBool (← arg j "chk"))))),
  ("find_polyt_head", fun j => do
      match ← jCigar (← arg j "cigar") with
      | none => pure (jErr "error")
      | some c =>
        let seq ← jStr (← arg j "seq")
        pure (ofOptInt (findPolytHeadWin (← jNat (← arg j "w")) (← jNat (← arg j "num")) (← jNat (← arg j "den"))
          (← jInt (← arg j "s")) c seq.toList (← jInt (← arg j "from")) (← jInt (← arg j "to"))
          (← jBool (← arg j "chk"))))),
  ("find_polyt_head_oldwin", fun j => do
      match ← jCigar (← arg j "cigar") with
      | none => pure (jErr "error")
      | some c =>
        let seq ← jStr (← arg j "seq")
        pure (ofOptInt (findPolytHeadFix (← jNat (← arg j "w")) (← jNat (← arg j "num")) (← jNat (← arg j "den"))
          (← jInt (← arg j "s")) c seq.toList (← jInt (← arg j "from")) (← jInt (← arg j "to"))
          (← jBool (← arg j "chk"))))),
  -- the whole chain for one record: CIGAR walk, modelled finder, trimming
  ("record_polya", fun j => do
      match ← jCigar (← arg j "cigar") with
      | none => pure (jErr "error")
      | some c =>
        let seq ← jStr (← arg j "seq")
        let s ← jInt (← arg j "s")
        let st := getReadBlocks s c
        if st.refBlocks.isEmpty then pure (Json.mkObj [("no_exons", ofBool true)])
        else
          match detectPolyaWin polya_window polya_fraction_num polya_fraction_den s c seq.toList with
          | none => pure (jErr "error")
          | some i =>
            pure (Json.mkObj [("found", ofInfo i),
              ("after", ofAInfo (addPolyaInfo (← jInt (← arg j "mf")) st.refBlocks st.readBlocks st.cigarBlocks i))])),
  ("detect_polya", fun j => do
      match ← jCigar (← arg j "cigar") with
      | none => pure (jErr "error")
      | some c =>
        let seq ← jStr (← arg j "seq")
        match detectPolyaWin (← jNat (← arg j "w")) (← jNat (← arg j "num")) (← jNat (← arg j "den"))
            (← jInt (← arg j "s")) c seq.toList with
        | none => pure (jErr "error")
        | some i => pure (ofInfo i)),
  -- with the window / fraction constants generated from /repo (PolyAFinder defaults = isoquant.py values)
  ("detect_polya_default", fun j => do
      match ← jCigar (← arg j "cigar") with
      | none => pure (jErr "error")
      | some c =>
        let seq ← jStr (← arg j "seq")
        match detectPolyaWin polya_window polya_fraction_num polya_fraction_den (← jInt (← arg j "s")) c seq.toList with
        | none => pure (jErr "error")
        | some i => pure (ofInfo i)),
  ("count_polya_exons", fun j => do
      pure (ofInt (countPolyaExons (← jInt (← arg j "mf")) (← jIvList (← arg j "exons")) (← jInt (← arg j "pos"))))),
  ("count_polyt_exons", fun j => do
      pure (ofInt (countPolytExons (← jInt (← arg j "mf")) (← jIvList (← arg j "exons")) (← jInt (← arg j "pos"))))),
  ("correct_read_info", fun j => do
      pure (ofCounts (correctReadInfo (← jInt (← arg j "mf")) (← jIvList (← arg j "exons")) (← jInfo (← arg j "info"))))),
  ("correct_read_info_buggy", fun j => do
      pure (ofCounts (correctReadInfoBuggy (← jInt (← arg j "mf")) (← jIvList (← arg j "exons")) (← jInfo (← arg j "info"))))),
  ("shift_polya", fun j => do
      pure (ofOptInt (shiftPolya (← jIvList (← arg j "exons")) (← jInt (← arg j "k")) (← jInt (← arg j "pos"))))),
  ("shift_polyt", fun j => do
      pure (ofOptInt (shiftPolyt (← jIvList (← arg j "exons")) (← jInt (← arg j "k")) (← jInt (← arg j "pos"))))),
  ("add_polya_info", addPolyaHandler addPolyaInfo),
  ("add_polya_info_buggy", addPolyaHandler addPolyaInfoBuggy),
  ("add_polya_info_orig_shift", addPolyaHandler addPolyaInfoOrigShift),
  ("alignment_polya", alignmentPolyaHandler addPolyaInfo),
  ("get_read_blocks", fun j => do
      match ← jCigar (← arg j "cigar") with
      | none => pure (jErr "error")
      | some c => pure (ofBlocks (getReadBlocks (← jInt (← arg j "s")) c))),
  ("blocks_spec", fun j => do
      match ← jCigar (← arg j "cigar") with
      | none => pure (jErr "error")
      | some c =>
        let s ← jInt (← arg j "s")
        pure (Json.mkObj [("ref", ofIvList (exonsSpec s c)), ("read", ofIvList (queryBlocksSpec c)),
                          ("cigar", ofIvList (cigarBlocksSpec c))])),
  ("aligned_blocks", fun j => do
      match ← jCigar (← arg j "cigar") with
      | none => pure (jErr "error")
      | some c =>
        let s ← jInt (← arg j "s")
        pure (Json.mkObj [("blocks", ofIvList (alignedBlocks s c)), ("reference_end", ofInt (referenceEnd s c))])),
  ("correct_bam_coords", fun j => do pure (ofIvList (correctBamCoords (← jIvList (← arg j "l"))))),
  -- the specification of concat_gapless_blocks on pysam's blocks (Model/TailSpec.lean)
  ("concat_gapless_spec", fun j => do
      match ← jCigar (← arg j "cigar") with
      | none => pure (jErr "error")
      | some c => pure (ofIvList (concatGaplessSpec (← jInt (← arg j "s")) c))),
  ("concat_gapless_blocks", fun j => do
      match ← jCigar (← arg j "cigar") with
      | none => pure (jErr "error")
      | some c => pure (ofIvList (concatGaplessBlocks (← jIvList (← arg j "blocks")) c)))
]

end IsoVerif.Driver.C16
