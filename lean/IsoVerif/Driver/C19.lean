import IsoVerif.Driver.Core
import IsoVerif.Model.Interval
import IsoVerif.Model.Profiles
import IsoVerif.Model.C19Callers

namespace IsoVerif.Driver.C19
open Lean IsoVerif.Driver IsoVerif.Gen IsoVerif.Model

def iv2 (f : Iv → Iv → Json) : Handler := fun j => do
  pure (f (← jIv (← arg j "a")) (← jIv (← arg j "b")))
def iv2d (f : Iv → Iv → Int → Json) : Handler := fun j => do
  pure (f (← jIv (← arg j "a")) (← jIv (← arg j "b")) (← jInt (← arg j "d")))

def ofFrac : Option (Int × Int) → Json
  | none => jErr "error"
  | some p => ofIv p
def ofOptInt : Option Int → Json
  | none => jErr "error"
  | some p => ofInt p
def ofOptIv : Option Iv → Json
  | none => jErr "error"
  | some p => ofIv p
def ofOptIvList : Option (List Iv) → Json
  | none => jErr "error"
  | some p => ofIvList p

def ops : List (String × Handler) := [
  ("cmp", fun j => do pure (ofInt (cmp (← jInt (← arg j "x")) (← jInt (← arg j "y"))))),
  ("overlaps", iv2 (fun a b => ofBool (overlaps a b))),
  ("overlap_intervals", iv2 (fun a b => ofIv (overlap_intervals a b))),
  ("overlaps_at_least", iv2d (fun a b d => ofBool (overlaps_at_least a b d))),
  ("overlaps_at_least_when_overlap", iv2d (fun a b d => ofBool (overlaps_at_least_when_overlap a b d))),
  ("intersection_len", iv2 (fun a b => ofInt (intersection_len a b))),
  ("left_of", iv2 (fun a b => ofBool (left_of a b))),
  ("equal_ranges", iv2d (fun a b d => ofBool (equal_ranges a b d))),
  ("covers_end", iv2 (fun a b => ofBool (covers_end a b))),
  ("covers_start", iv2 (fun a b => ofBool (covers_start a b))),
  ("contains", iv2 (fun a b => ofBool (contains a b))),
  ("contains_well_inside", iv2d (fun a b d => ofBool (contains_well_inside a b d))),
  ("contains_approx", iv2d (fun a b d => ofBool (contains_approx a b d))),
  ("max_range", iv2 (fun a b => ofIv (max_range a b))),
  ("interval_len", fun j => do pure (ofInt (interval_len (← jIv (← arg j "a"))))),
  ("intervals_total_length", fun j => do pure (ofInt (intervalsTotalLength (← jIvList (← arg j "l"))))),
  ("sum_intervals_to_point", fun j => do
      pure (ofOptInt (sumIntervalsToPoint (← jIvList (← arg j "l")) (← jInt (← arg j "p"))))),
  ("sum_intervals_from_point", fun j => do
      pure (ofOptInt (sumIntervalsFromPoint (← jIvList (← arg j "l")) (← jInt (← arg j "p"))))),
  ("read_coverage_fraction", fun j => do
      pure (ofFrac (readCoverageFraction (← jIvList (← arg j "l1")) (← jIvList (← arg j "l2"))))),
  ("jaccard_similarity", fun j => do
      pure (ofFrac (jaccardSweep (← jIvList (← arg j "l1")) (← jIvList (← arg j "l2"))))),
  ("merge_ranges", fun j => do
      pure (ofOptIvList (mergeRanges (← jIvList (← arg j "l1")) (← jIvList (← arg j "l2"))))),
  ("extra_exon_percentage", fun j => do
      pure (ofFrac (extraExonPercentage (← jIv (← arg j "r")) (← jIvList (← arg j "l"))))),
  ("junctions_from_blocks", fun j => do pure (ofIvList (junctionsFromBlocks (← jIvList (← arg j "l"))))),
  ("get_exons", fun j => do pure (ofIvList (getExons (← jIv (← arg j "r")) (← jIvList (← arg j "l"))))),
  ("get_exon", fun j => do
      pure (ofOptIv (getExon (← jIv (← arg j "r")) (← jIvList (← arg j "l")) (← jInt (← arg j "i"))))),
  ("get_following_exon", fun j => do
      pure (ofOptIv (getFollowingExon (← jIv (← arg j "r")) (← jIvList (← arg j "l")) (← jInt (← arg j "i"))))),
  ("get_preceding_exon", fun j => do
      pure (ofOptIv (getPrecedingExon (← jIv (← arg j "r")) (← jIvList (← arg j "l")) (← jInt (← arg j "i"))))),
  ("truncate_read_to_polya", fun j => do
      pure (ofOptIvList (truncateReadToPolya (← jIvList (← arg j "l")) (← jInt (← arg j "a")) (← jInt (← arg j "t"))))),
  ("interval_bin_search", fun j => do
      pure (ofOptInt (intervalBinSearch (← jIvList (← arg j "l")) (← jInt (← arg j "p"))))),
  ("interval_bin_search_rev", fun j => do
      pure (ofOptInt (intervalBinSearchRev (← jIvList (← arg j "l")) (← jInt (← arg j "p"))))),
  ("split_exons", fun j => do pure (ofOptIvList (splitExons (← jIvList (← arg j "l"))))),
  ("isoform_profile", fun j => do
      let feats ← jIvList (← arg j "features")
      let tf ← jIvList (← arg j "tf")
      let region ← jIv (← arg j "region")
      let c ← jStr (← arg j "cmp")
      let cmpf : Iv → Iv → Bool := if c == "equal" then (fun a b => equal_ranges a b 0) else (fun a b => contains a b)
      let r := setProfiles feats tf region cmpf
      pure (Json.mkObj [("profile", ofIntList r.1), ("range", ofIv r.2)])),
  ("overlapping_profile", fun j => do
      let kind ← jStr (← arg j "kind")
      let known ← jIvList (← arg j "known")
      let gr ← jIv (← arg j "gene_region")
      let read ← jIvList (← arg j "read")
      let mapped ← jIv (← arg j "mapped")
      let polya ← jInt (← arg j "polya")
      let polyt ← jInt (← arg j "polyt")
      let d ← jInt (← arg j "d")
      let ad ← jInt (← arg j "abs_d")
      let cmpf : Iv → Iv → Bool := fun a b => equal_ranges a b d
      let absf : Iv → Iv → Bool := if kind == "intron" then (fun a b => overlaps_at_least a b ad) else (fun a b => contains a b)
      let r := constructOverlapping known gr cmpf absf d read mapped polya polyt
      pure (Json.mkObj [("gene", ofIntList r.gene), ("read", ofIntList r.read), ("range", ofIv r.range)])),
  ("nonoverlapping_profile", fun j => do
      let known ← jIvList (← arg j "known")
      let read ← jIvList (← arg j "read")
      let polya ← jInt (← arg j "polya")
      let polyt ← jInt (← arg j "polyt")
      let d ← jInt (← arg j "d")
      let mo ← jInt (← arg j "min_ov")
      match C19Callers.constructNonOverlappingG known (fun a b => overlaps_at_least_when_overlap a b mo) d read polya polyt with
      | none => pure (jErr "error")
      | some r => pure (Json.mkObj [("gene", ofIntList r.gene), ("read", ofIntList r.read), ("range", ofIv r.range)])),
  -- audit-2 G4: tail of ExonCorrector.correct_assigned_read (intron-chain guard, exon-chain guard, junctions_from_blocks)
  ("corrector_guard", fun j => do
      let reg ← jIv (← arg j "reg")
      let ni ← jIvList (← arg j "ni")
      let exons ← jIvList (← arg j "exons")
      pure (ofIvList (C19Callers.guardedExons reg ni exons)))
]

end IsoVerif.Driver.C19
