import IsoVerif.Driver.Core
import IsoVerif.Driver.C17
import IsoVerif.Model.GtfText

namespace IsoVerif.Driver.C03T
open Lean IsoVerif.Driver IsoVerif.Gen IsoVerif.Model.C17 IsoVerif.Model.C03T
open IsoVerif.Driver.C17 (jS ofS jRefFeature jRegion)

def jFeat3 (j : Json) : Except String (Int × Int × Str) := do
  let a ← j.getArr?
  if a.size = 3 then pure (← jInt a[0]!, ← jInt a[1]!, ← jS a[2]!) else throw "feature triple expected"

def jKV (j : Json) : Except String (Str × Str) := jPair jS jS j

def jAModel (j : Json) : Except String AModel := do
  pure { chr := ← jS (← arg j "chr"), strand := ← jS (← arg j "strand"), tid := ← jS (← arg j "tid"),
         gid := ← jS (← arg j "gid"), source := ← jS (← arg j "source"), exons := ← jIvList (← arg j "exons"),
         other := ← jList jFeat3 (← arg j "other"), additional := ← jList jKV (← arg j "additional") }

def jGInfo (j : Json) : Except String GInfo := do
  pure { chr := ← jS (← arg j "chr"), regions := ← jList jRegion (← arg j "regions"),
         sources := ← jList jKV (← arg j "sources"), featAttrs := ← jList jKV (← arg j "feat_attrs") }

def jCallT (j : Json) : Except String CallT := do
  pure { gi := ← jGInfo (← arg j "gi"), models := ← jList jAModel (← arg j "models") }

def jAttrVals (j : Json) : Except String (Str × List Str) := jPair jS (jList jS) j

def jDbTx (j : Json) : Except String DbTx := do
  pure { id := ← jS (← arg j "id"), source := ← jS (← arg j "source"), strand := ← jS (← arg j "strand"),
         attrs := ← jList jAttrVals (← arg j "attrs"), feats := ← jList jFeat3 (← arg j "feats"),
         exons := ← jIvList (← arg j "exons") }

def jDbGene (j : Json) : Except String DbGene := do
  pure { id := ← jS (← arg j "id"), source := ← jS (← arg j "source"), attrs := ← jList jAttrVals (← arg j "attrs"),
         txs := ← jList jDbTx (← arg j "txs"), byStart := ← jList jS (← arg j "by_start"),
         exons := ← jList jFeat3 (← arg j "exons") }

def ofKV (p : Str × Str) : Json := Json.arr #[ofS p.1, ofS p.2]

def ofAModel (m : AModel) : Json :=
  Json.mkObj [("chr", ofS m.chr), ("strand", ofS m.strand), ("tid", ofS m.tid), ("gid", ofS m.gid),
              ("source", ofS m.source), ("exons", ofIvList m.exons),
              ("other", ofList (fun (f : Int × Int × Str) => Json.arr #[ofInt f.1, ofInt f.2.1, ofS f.2.2]) m.other),
              ("additional", ofList ofKV m.additional)]

/-- per call: the text lines and the `additional_info` of the storage afterwards; the first aborting call is marked -/
def textSeq : FeatureIdStorage → List Str → List CallT → List Json
  | _, _, [] => []
  | st, printed, c :: cs =>
    match dumpText st printed c.gi c.models with
    | none => [jErr "error"]
    | some (text, printed', st') =>
      Json.mkObj [("text", ofList ofS text), ("printed", ofList ofS printed'),
                  ("after", ofList (fun (m : AModel) => ofList ofKV m.additional) (storageAfter c.models))]
        :: textSeq st' printed' cs

def jFArg (j : Json) : Except String FArg :=
  match j with
  | Json.str s => pure (FArg.s s.toList)
  | _ => do pure (FArg.d (← jInt j))

def ops : List (String × Handler) := [
  ("py_format", fun j => do
      pure (match pyFormat (← jStr (← arg j "fmt")) (← jList jFArg (← arg j "args")) with
            | none => jErr "error"
            | some s => ofS s)),
  ("dump_text", fun j => do
      let feats ← jOpt (jList jRefFeature) (← arg j "genedb")
      let st := FeatureIdStorage.init SimpleIDDistributor.init feats (← jS (← arg j "chr"))
      pure (Json.arr (textSeq st [] (← jList jCallT (← arg j "calls"))).toArray)),
  ("gene_attributes", fun j => do
      let genes ← jList jDbGene (← arg j "genes")
      pure (match setGeneAttributes genes [] with
            | none => jErr "error"
            | some fa => Json.mkObj [
                ("feat_attrs", ofList ofKV fa), ("sources", ofList ofKV (setSources genes)),
                ("other", ofList (fun (p : Str × List (Int × Int × Str)) =>
                    Json.arr #[ofS p.1, ofList (fun (f : Int × Int × Str) => Json.arr #[ofInt f.1, ofInt f.2.1, ofS f.2.2]) p.2])
                  (setOtherFeatures genes))])),
  ("extended_text", fun j => do
      let chr ← jS (← arg j "chr")
      let genes ← jList jDbGene (← arg j "genes")
      let regions ← jList jRegion (← arg j "regions")
      let novel ← jList jAModel (← arg j "novel")
      let feats ← jOpt (jList jRefFeature) (← arg j "genedb")
      let st := FeatureIdStorage.init SimpleIDDistributor.init feats chr
      pure (match extendedStorageT (refInfoOf chr genes) novel, ginfoOf chr genes regions with
            | some storage, some gi =>
              Json.mkObj [("storage", ofList ofAModel storage),
                          ("dump", Json.arr (textSeq st [] [⟨gi, storage⟩]).toArray)]
            | _, _ => jErr "error")),
  ("parse_line", fun j => do
      let s ← jS (← arg j "s")
      let cols := pySplit '\t' s
      pure (Json.mkObj [("cols", ofList ofS cols),
                        ("attrs", match cols.getLast? with
                          | none => Json.null
                          | some c => ofOpt (ofList ofKV) (parseAttrs c))])),
  ("gtf_tables", fun _ => do
      let strs : List (String × String) := [
        ("gtf_gene_fmt", gtf_gene_fmt), ("gtf_transcript_fmt", gtf_transcript_fmt), ("gtf_prefix_fmt", gtf_prefix_fmt),
        ("gtf_suffix_fmt", gtf_suffix_fmt), ("gtf_feature_coord_fmt", gtf_feature_coord_fmt),
        ("gtf_feature_attr_fmt", gtf_feature_attr_fmt), ("gtf_exon_key_fmt", gtf_exon_key_fmt),
        ("gtf_default_source", gtf_default_source), ("gtf_exons_key", gtf_exons_key),
        ("gtf_exon_feature", gtf_exon_feature), ("gtf_reverse_strand", gtf_reverse_strand),
        ("gtf_tx_extra_sep", gtf_tx_extra_sep), ("gtf_exon_extra_sep", gtf_exon_extra_sep),
        ("tm_default_source", tm_default_source), ("tm_attr_fmt", tm_attr_fmt), ("tm_attr_join", tm_attr_join),
        ("gi_gene_attr_fmt", gi_gene_attr_fmt), ("gi_transcript_attr_fmt", gi_transcript_attr_fmt),
        ("gi_exon_attr_fmt", gi_exon_attr_fmt), ("gi_exon_key_fmt", gi_exon_key_fmt)]
      let lists : List (String × List String) := [
        ("gi_gene_attr_skip", gi_gene_attr_skip), ("gi_transcript_attr_skip", gi_transcript_attr_skip),
        ("gi_exon_attr_skip", gi_exon_attr_skip), ("gi_other_features", gi_other_features),
        ("gtf_additional_keys", gtf_additional_keys)]
      pure (Json.mkObj (strs.map (fun p => (p.1, ofStr p.2)) ++ lists.map (fun p => (p.1, ofList ofStr p.2)))))
]

end IsoVerif.Driver.C03T
