import IsoVerif.Driver.Core
import IsoVerif.Model.Assign
import IsoVerif.Model.JunctionCompare
import IsoVerif.Model.JunctionSpec
import IsoVerif.Gen.Strategies

namespace IsoVerif.Driver.C01
open Lean IsoVerif.Driver IsoVerif.Gen IsoVerif.Model IsoVerif.Model.C01

def jStrand (j : Json) : Except String Strand := do
  let s ← jStr j
  pure (if s == "+" then Strand.plus else if s == "-" then Strand.minus else Strand.other)

def jIsoform (j : Json) : Except String Isoform := do
  pure { exons := ← jIvList (← arg j "exons"), strand := ← jStrand (← arg j "strand") }

def jResolve (j : Json) : Except String Resolve := do
  let s ← jStr j
  match s with
  | "none" => pure Resolve.none
  | "monoexon_only" => pure Resolve.monoexon_only
  | "monoexon_and_fsm" => pure Resolve.monoexon_and_fsm
  | "all" => pure Resolve.all
  | _ => throw s!"unknown resolve method {s}"

def jParams (j : Json) : Except String Params := do
  pure { delta := ← jInt (← arg j "delta"),
         minor_exon_extension := ← jInt (← arg j "minor_exon_extension"),
         major_exon_extension := ← jInt (← arg j "major_exon_extension"),
         min_abs_exon_overlap := ← jInt (← arg j "min_abs_exon_overlap"),
         apa_delta := ← jInt (← arg j "apa_delta"),
         minimal_exon_overlap := ← jInt (← arg j "minimal_exon_overlap"),
         minimal_intron_absence_overlap := ← jInt (← arg j "minimal_intron_absence_overlap"),
         max_fake_terminal_exon_len := ← jInt (← arg j "max_fake_terminal_exon_len"),
         max_missed_exon_len := ← jInt (← arg j "max_missed_exon_len"),
         resolve_ambiguous := ← jResolve (← arg j "resolve_ambiguous") }

def jPolyA (j : Json) : Except String PolyA := do
  let l ← jList jInt j
  match l with
  | [a, b, c, d] => pure { extA := a, extT := b, intA := c, intT := d }
  | _ => throw "polya: 4 ints expected"

def jEventTy (j : Json) : Except String MatchEventSubtype := do
  let s ← jStr j
  match MatchEventSubtype.ofName? s with
  | some t => pure t
  | none => throw s!"unknown event {s}"

/-- event = [name, [iso0, iso1], [read0, read1], info] -/
def jEvent (j : Json) : Except String Event := do
  let a ← jArr j
  if a.size = 4 then
    pure { ty := ← jEventTy a[0]!, isoRegion := ← jIv a[1]!, readRegion := ← jIv a[2]!, info := ← jInt a[3]! }
  else throw "event: 4 fields expected"

def ofEvent (e : Event) : Json :=
  Json.arr #[ofStr e.ty.name, ofIv e.isoRegion, ofIv e.readRegion, ofInt e.info]

def ofMatch (m : IsoMatch) : Json :=
  Json.mkObj [("iso", ofOpt ofNat m.iso), ("cls", ofStr m.cls.name), ("events", ofList ofEvent m.events),
              ("penalty", ofIv (m.penaltyNum, m.penaltyDen))]

def ofPath : Path → Json
  | .intergenic => ofStr "intergenic"
  | .noninformative => ofStr "noninformative"
  | .inconsistent => ofStr "inconsistent"
  | .consistent => ofStr "consistent"
  | .fallback => ofStr "fallback"

def ofAssignment (a : Assignment) (path : Path) : Json :=
  Json.mkObj [("type", ofStr a.ty.name), ("path", ofPath path), ("matches", ofList ofMatch a.isoMatches)]

def ofProfile (r : ProfileResult) : Json :=
  Json.mkObj [("gene", ofIntList r.gene), ("read", ofIntList r.read), ("range", ofIv r.range)]

def ofRat (r : Rat) : Json := ofIv (r.num, (r.den : Int))

def ofIso (I : IsoInfo) : Json :=
  Json.mkObj [("id", ofNat I.id), ("introns", ofIvList I.introns), ("region", ofIv I.region),
              ("intron_profile", ofIntList I.intronProf), ("intron_range", ofIv I.intronRange),
              ("split_profile", ofIntList I.splitProf), ("split_range", ofIv I.splitRange)]

def getGene (j : Json) : Except String (Option Gene) := do
  let ms ← jList jIsoform (← arg j "isoforms")
  pure (Gene.fromModels ms)

def jFrac (j : Json) : Except String (Int × Int) := jPair jInt jInt j

def jCParams (j : Json) : Except String CParams := do
  let rd ← jFrac (← arg j "max_intron_rel_diff")
  let ro ← jFrac (← arg j "min_rel_exon_overlap")
  let rs ← jFrac (← arg j "max_suspicious_intron_rel_len")
  pure { max_intron_shift := ← jInt (← arg j "max_intron_shift"),
         micro_intron_length := ← jInt (← arg j "micro_intron_length"),
         max_intron_abs_diff := ← jInt (← arg j "max_intron_abs_diff"),
         max_intron_rel_diff_num := rd.1, max_intron_rel_diff_den := rd.2,
         min_rel_exon_overlap_num := ro.1, min_rel_exon_overlap_den := ro.2,
         max_suspicious_intron_abs_len := ← jInt (← arg j "max_suspicious_intron_abs_len"),
         max_suspicious_intron_rel_len_num := rs.1, max_suspicious_intron_rel_len_den := rs.2 }

/-- comparator object: params + cparams + known introns + gene region -/
def jCmpCtx (j : Json) : Except String CmpCtx := do
  pure { p := ← jParams (← arg j "params"), q := ← jCParams (← arg j "cparams"),
         known := ← jIvList (← arg j "known"), geneRegion := ← jIv (← arg j "gene_region") }

def ofEvents : Option (List Event) → Json
  | none => jErr "error"
  | some l => ofList ofEvent l

def ofOptBool : Option Bool → Json
  | none => jErr "error"
  | some b => ofBool b

def ofPair : CPair → Json
  | .retention r i => Json.arr #[ofStr "retention", ofNat r, ofNat i]
  | .extra r i => Json.arr #[ofStr "extra", ofNat r, ofNat i]
  | .both r0 r1 i0 i1 => Json.arr #[ofStr "both", ofNat r0, ofNat r1, ofNat i0, ofNat i1]

def cjOf (l : List (Option (List Event))) : Nat → Option (List Event) := fun i => l.getD i none

def ops : List (String × Handler) := [
  ("event_class", fun j => do
      let t ← jEventTy (← arg j "event")
      pure (Json.mkObj [("consistent", ofBool t.is_consistent), ("minor_error", ofBool t.is_minor_error),
        ("major", ofBool t.is_major_inconsistency), ("intronic", ofBool t.is_intronic_inconsistency),
        ("major_elongation", ofBool t.is_major_elongation), ("minor_elongation", ofBool t.is_minor_elongation),
        ("artifact", ofBool t.is_alignment_artifact),
        ("nic", ofBool (nic_event_types.contains t)), ("nnic", ofBool (nnic_event_types.contains t)),
        ("cost", ofOpt ofNat (event_cost_hundredths t))])),
  ("type_class", fun j => do
      let s ← jStr (← arg j "type")
      match ReadAssignmentType.ofName? s with
      | none => throw s!"unknown type {s}"
      | some t => pure (Json.mkObj [("inconsistent", ofBool t.is_inconsistent), ("consistent", ofBool t.is_consistent),
          ("unassigned", ofBool t.is_unassigned), ("unique", ofBool t.is_unique), ("ambiguous", ofBool t.is_ambiguous)])),
  ("preset", fun j => do
      let s ← jStr (← arg j "name")
      match matching_presets.lookup s with
      | none => pure (jErr "error")
      | some m => pure (Json.mkObj [("delta", ofInt m.delta), ("max_intron_shift", ofInt m.max_intron_shift),
          ("max_missed_exon_len", ofInt m.max_missed_exon_len),
          ("max_fake_terminal_exon_len", ofInt m.max_fake_terminal_exon_len),
          ("resolve_ambiguous", ofStr m.resolve_ambiguous), ("correct_minor_errors", ofBool m.correct_minor_errors)])),
  ("classify", fun j => do
      let amb ← jBool (← arg j "ambiguous")
      let evs ← jList jEventTy (← arg j "events")
      pure (ofStr (classifyEvents amb evs).name)),
  ("gene", fun j => do
      match ← getGene j with
      | none => pure (jErr "error")
      | some g => pure (Json.mkObj [("start", ofInt g.start), ("end", ofInt g.stop), ("introns", ofIvList g.introns),
          ("exons", ofIvList g.exons), ("split_exons", ofIvList g.splitExons), ("isoforms", ofList ofIso g.isos)])),
  ("profiles", fun j => do
      let p ← jParams (← arg j "params")
      let blocks ← jIvList (← arg j "blocks")
      let pa ← jPolyA (← arg j "polya")
      match ← getGene j with
      | none => pure (jErr "error")
      | some g =>
        match constructProfiles g p blocks pa with
        | none => pure (jErr "error")
        | some rp => pure (Json.mkObj [("intron", ofProfile rp.intron), ("split", ofProfile rp.split),
            ("introns", ofIvList rp.introns)])),
  ("elongation", fun j => do
      let p ← jParams (← arg j "params")
      let blocks ← jIvList (← arg j "blocks")
      let pa ← jPolyA (← arg j "polya")
      let i ← jNat (← arg j "iso")
      match ← getGene j with
      | none => pure (jErr "error")
      | some g =>
        match constructProfiles g p blocks pa, g.isos[i]? with
        | some rp, some I =>
          match elongationEvents g p rp I with
          | none => pure (jErr "error")
          | some evs => pure (ofList ofEvent evs)
        | _, _ => pure (jErr "error")),
  ("elongation_orig", fun j => do
      -- `categorize_exon_elongation_subtype` BEFORE the repair of audit finding C01-G1 (diagnosis only)
      let p ← jParams (← arg j "params")
      let blocks ← jIvList (← arg j "blocks")
      let pa ← jPolyA (← arg j "polya")
      let i ← jNat (← arg j "iso")
      match ← getGene j with
      | none => pure (jErr "error")
      | some g =>
        match constructProfiles g p blocks pa, g.isos[i]? with
        | some rp, some I =>
          match elongationEventsOrig g p rp I with
          | none => pure (jErr "error")
          | some evs => pure (ofList ofEvent evs)
        | _, _ => pure (jErr "error")),
  ("verify_read_ends", fun j => do
      let p ← jParams (← arg j "params")
      let blocks ← jIvList (← arg j "blocks")
      let pa ← jPolyA (← arg j "polya")
      let i ← jNat (← arg j "iso")
      let evs ← jList jEvent (← arg j "events")
      match ← getGene j with
      | none => pure (jErr "error")
      | some g =>
        match constructProfiles g p blocks pa, g.isos[i]? with
        | some rp, some I =>
          match verifyReadEnds p rp I evs with
          | none => pure (jErr "error")
          | some r => pure (ofList ofEvent r)
        | _, _ => pure (jErr "error")),
  ("tail_clause_hyp", fun j => do
      -- the hypotheses of Props/C01Tail `tail_far_never_consistent_geom`, decided per isoform
      let p ← jParams (← arg j "params")
      let blocks ← jIvList (← arg j "blocks")
      let pa ← jPolyA (← arg j "polya")
      match ← getGene j with
      | none => pure (jErr "error")
      | some g =>
        match constructProfiles g p blocks pa with
        | none => pure (jErr "error")
        | some rp => pure (Json.mkObj [("hyp", ofBool (tailClauseHyp g p rp)),
            ("isoforms", ofList (fun I => Json.mkObj [("id", ofNat I.id), ("tail_far", ofBool (tailFarB p rp I)),
              ("end_geom", ofBool (endGeomB p rp I))]) g.isos)])),
  ("scores", fun j => do
      let p ← jParams (← arg j "params")
      let blocks ← jIvList (← arg j "blocks")
      let pa ← jPolyA (← arg j "polya")
      match ← getGene j with
      | none => pure (jErr "error")
      | some g =>
        match constructProfiles g p blocks pa with
        | none => pure (jErr "error")
        | some rp => pure (ofList (fun I => Json.mkObj [("id", ofNat I.id),
            ("jaccard", match jaccardScore p rp I with | some r => ofRat r | none => jErr "error"),
            ("coverage", match coverageScore p rp I with | some r => ofRat r | none => jErr "error")]) g.isos)),
  ("match_consistent", fun j => do
      let p ← jParams (← arg j "params")
      let blocks ← jIvList (← arg j "blocks")
      let pa ← jPolyA (← arg j "polya")
      match ← getGene j with
      | none => pure (jErr "error")
      | some g =>
        match constructProfiles g p blocks pa with
        | none => pure (jErr "error")
        | some rp =>
          let cons : Json := match consistentIsoforms g p rp with
            | none => jErr "error"
            | some none => Json.null
            | some (some l) => ofNatList (l.map (·.id))
          match matchConsistent g p rp with
          | none => pure (jErr "error")
          | some none => pure (Json.mkObj [("assignment", Json.null), ("consistent", cons)])
          | some (some a) => pure (Json.mkObj [("assignment", ofAssignment a .consistent), ("consistent", cons)])),
  ("tolerance", fun j => do
      -- the hypotheses of Props/C01Converse `far_intron_major_event`, decided per read intron
      let c ← jCmpCtx j
      let rj ← jIvList (← arg j "read_junctions")
      let rr ← jIv (← arg j "read_region")
      let ij ← jIvList (← arg j "iso_junctions")
      let ir ← jIv (← arg j "iso_region")
      let wf := chainsWFb c.p.delta rj rr ij ir
      let rows := rj.zipIdx.map (fun (r, i) =>
        Json.mkObj [("far", ofBool (ij.all (fun k => !equal_ranges k r c.p.delta))),
                    ("tolerated", ofBool (tolerated c rj rr ij ir i r)),
                    ("terminal_misalignment_class", ofBool (terminalMisalignmentClass c rj rr ij ir i))])
      pure (Json.mkObj [("chains_wf", ofBool wf), ("introns", Json.arr rows.toArray),
        ("no_contradiction", ofBool (!(hasNeg (sweepOf c rj rr ij ir).readProf || hasNeg (sweepOf c rj rr ij ir).isoProf)))])),
  ("cmp_tables", fun _ => do
      pure (Json.mkObj [
        ("alternative_sites", ofList (fun (p : (String × Bool) × MatchEventSubtype) =>
            Json.arr #[ofStr p.1.1, ofBool p.1.2, ofStr p.2.name]) alternative_sites_table),
        ("suspicious_alternation_events", ofList (fun (t : MatchEventSubtype) => ofStr t.name) suspicious_alternation_events),
        ("comparator_event_types", ofList (fun (t : MatchEventSubtype) => ofStr t.name) comparator_event_types)])),
  ("known_introns", fun j => do
      let c ← jCmpCtx j
      pure (ofOptBool (knownIntrons c (← jIvList (← arg j "junctions")) (← jNat (← arg j "a")) (← jNat (← arg j "b"))))),
  ("suspicious_introns", fun j => do
      let c ← jCmpCtx j
      pure (ofOptBool (suspiciousIntrons c (← jIv (← arg j "read_region")) (← jIvList (← arg j "junctions"))
        (← jNat (← arg j "a")) (← jNat (← arg j "b"))))),
  ("add_extra_out", fun j => do
      let c ← jCmpCtx j
      pure (ofEvents (addExtraOut c (← jList jInt (← arg j "profile")) (← jIv (← arg j "read_region"))
        (← jIvList (← arg j "junctions")) (← jInt (← arg j "isoform_start"))))),
  ("sweep", fun j => do
      let c ← jCmpCtx j
      let o := sweepOf c (← jIvList (← arg j "read_junctions")) (← jIv (← arg j "read_region"))
        (← jIvList (← arg j "iso_junctions")) (← jIv (← arg j "iso_region"))
      pure (Json.mkObj [("read", ofIntList o.readProf), ("iso", ofIntList o.isoProf), ("pairs", ofList ofPair o.pairs)])),
  ("compare", fun j => do
      let c ← jCmpCtx j
      pure (ofEvents (compareJunctions c (← jIvList (← arg j "read_junctions")) (← jIv (← arg j "read_region"))
        (← jIvList (← arg j "iso_junctions")) (← jIv (← arg j "iso_region"))))),
  ("assign_m", fun j => do
      let p ← jParams (← arg j "params")
      let q ← jCParams (← arg j "cparams")
      let blocks ← jIvList (← arg j "blocks")
      let pa ← jPolyA (← arg j "polya")
      let ms ← jList jIsoform (← arg j "isoforms")
      match assignReadM ms p q blocks pa with
      | none => pure (jErr "error")
      | some (a, path) => pure (ofAssignment a path)),
  ("assign", fun j => do
      let p ← jParams (← arg j "params")
      let blocks ← jIvList (← arg j "blocks")
      let pa ← jPolyA (← arg j "polya")
      let cj ← jList (jOpt (jList jEvent)) (← arg j "cj")
      let ms ← jList jIsoform (← arg j "isoforms")
      match assignRead ms p blocks pa (cjOf cj) with
      | none => pure (jErr "error")
      | some (a, path) => pure (ofAssignment a path))
]

end IsoVerif.Driver.C01
