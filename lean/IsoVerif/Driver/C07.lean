import IsoVerif.Driver.Core
import IsoVerif.Model.Resume
import IsoVerif.Model.ResumePool
import IsoVerif.Model.ResumeMulti

namespace IsoVerif.Driver.C07
open Lean IsoVerif.Driver IsoVerif.Model.Resume

def streamName : Stream → String
  | .bed => "bed" | .assign => "assign" | .gtf => "gtf" | .r2t => "r2t" | .ext => "ext" | .sq => "sq"
  | .gene => "gene" | .tr => "tr" | .model => "model" | .geneG => "geneG" | .trG => "trG" | .modelG => "modelG"
  | .exon => "exon" | .intron => "intron" | .exonG => "exonG" | .intronG => "intronG"

def allStreams : List Stream := [.bed, .assign, .gtf, .r2t, .ext, .sq, .gene, .tr, .model, .geneG, .trG, .modelG,
                                 .exon, .intron, .exonG, .intronG]

def streamOf (s : String) : Except String Stream :=
  match allStreams.find? (fun x => streamName x == s) with
  | some x => pure x
  | none => throw s!"unknown stream {s}"

def ofPath : Path → Json
  | .params => Json.arr #[ofStr "params"]
  | .rgSplit c => Json.arr #[ofStr "rgSplit", ofNat c]
  | .rgLock => Json.arr #[ofStr "rgLock"]
  | .save c => Json.arr #[ofStr "save", ofNat c]
  | .groups c => Json.arr #[ofStr "groups", ofNat c]
  | .bamstat c => Json.arr #[ofStr "bamstat", ofNat c]
  | .collected c => Json.arr #[ofStr "collected", ofNat c]
  | .multimap c => Json.arr #[ofStr "multimap", ofNat c]
  | .info => Json.arr #[ofStr "info"]
  | .lock => Json.arr #[ofStr "lock"]
  | .part s c => Json.arr #[ofStr "part", ofStr (streamName s), ofNat c]
  | .partLin s c => Json.arr #[ofStr "partLin", ofStr (streamName s), ofNat c]
  | .partStats s c => Json.arr #[ofStr "partStats", ofStr (streamName s), ofNat c]
  | .readStat c => Json.arr #[ofStr "readStat", ofNat c]
  | .trStat c => Json.arr #[ofStr "trStat", ofNat c]
  | .processed c => Json.arr #[ofStr "processed", ofNat c]
  | .final s => Json.arr #[ofStr "final", ofStr (streamName s)]
  | .finalLin s => Json.arr #[ofStr "finalLin", ofStr (streamName s)]
  | .tpm s => Json.arr #[ofStr "tpm", ofStr (streamName s)]
  | .finalGz s => Json.arr #[ofStr "finalGz", ofStr (streamName s)]
  | .refFa => Json.arr #[ofStr "refFa"]
  | .refFai => Json.arr #[ofStr "refFai"]
  | .refFaiData => Json.arr #[ofStr "refFaiData"]
  | .refFaiTmp => Json.arr #[ofStr "refFaiTmp"]
  | .paramsTmp => Json.arr #[ofStr "paramsTmp"]

def jPath (j : Json) : Except String Path := do
  let a ← j.getArr?
  if a.size = 0 then throw "empty path"
  let k ← jStr a[0]!
  let chr : Except String Nat := if a.size = 2 then jNat a[1]! else throw s!"chromosome expected in {k}"
  let sc : Except String (Stream × Nat) := do
    if a.size = 3 then pure (← streamOf (← jStr a[1]!), ← jNat a[2]!) else throw s!"stream, chromosome expected in {k}"
  let st : Except String Stream := do
    if a.size = 2 then streamOf (← jStr a[1]!) else throw s!"stream expected in {k}"
  match k with
  | "params" => pure .params
  | "rgLock" => pure .rgLock
  | "info" => pure .info
  | "lock" => pure .lock
  | "refFa" => pure .refFa
  | "refFai" => pure .refFai
  | "refFaiData" => pure .refFaiData
  | "refFaiTmp" => pure .refFaiTmp
  | "paramsTmp" => pure .paramsTmp
  | "rgSplit" => return .rgSplit (← chr)
  | "save" => return .save (← chr)
  | "groups" => return .groups (← chr)
  | "bamstat" => return .bamstat (← chr)
  | "collected" => return .collected (← chr)
  | "multimap" => return .multimap (← chr)
  | "readStat" => return .readStat (← chr)
  | "trStat" => return .trStat (← chr)
  | "processed" => return .processed (← chr)
  | "part" => do let (s, c) ← sc; pure (.part s c)
  | "partLin" => do let (s, c) ← sc; pure (.partLin s c)
  | "partStats" => do let (s, c) ← sc; pure (.partStats s c)
  | "final" => return .final (← st)
  | "finalLin" => return .finalLin (← st)
  | "tpm" => return .tpm (← st)
  | "finalGz" => return .finalGz (← st)
  | _ => throw s!"unknown path kind {k}"

def ofTok : Tok → Json
  | .bad => ofStr "bad"
  | .good => ofStr "good"
  | .stale => ofStr "stale"

def jTok (j : Json) : Except String Tok := do
  match (← jStr j) with
  | "bad" => pure .bad
  | "good" => pure .good
  | "stale" => pure .stale
  | s => throw s!"unknown token {s}"

def ofEv : Ev → Json
  | .create p => Json.arr #[ofStr "create", ofPath p]
  | .append p => Json.arr #[ofStr "append", ofPath p]
  | .commit p t => Json.arr #[ofStr "commit", ofPath p, ofTok t]
  | .remove p => Json.arr #[ofStr "remove", ofPath p]

/-- optional boolean field -/
def jBoolD (j : Json) (k : String) (d : Bool) : Except String Bool :=
  match j.getObjVal? k with
  | .ok v => jBool v
  | .error _ => pure d

def jVariant (j : Json) : Except String Variant := do
  pure ⟨← jBool (← arg j "flushBeforeLock"), ← jBool (← arg j "dropProcessed"), ← jBool (← arg j "locksFirst"),
        ← jBool (← arg j "countUnaligned"), ← jBoolD j "cleanBeforeParams" true, ← jBoolD j "dropAtDumpPrefix" true,
        ← jBoolD j "flushSqanti" true, ← jBoolD j "resetCounter" true, ← jBoolD j "refRewrite" true, ← jBoolD j "faiAtomic" true, ← jBoolD j "paramsAtomic" true⟩

def jRG (j : Json) : Except String RG := do
  match (← jStr j) with
  | "none" => pure .none
  | "inline" => pure .inline
  | "file" => pure .file
  | s => throw s!"unknown read-group mode {s}"

def jCfg (j : Json) : Except String Cfg := do
  pure { chrs := ← jList jNat (← arg j "chrs"), mchrs := ← jList jNat (← arg j "mchrs"),
         bchrs := ← jList jNat (← arg j "bchrs"), genedb := ← jBool (← arg j "genedb"), rg := ← jRG (← arg j "rg"),
         keepTmp := ← jBool (← arg j "keepTmp"), unmapped := ← jBool (← arg j "unmapped"),
         fromSaves := ← jBoolD j "fromSaves" false, sqanti := ← jBoolD j "sqanti" false,
         carried := ← jBoolD j "carried" false, countExons := ← jBoolD j "countExons" false,
         noModel := ← jBoolD j "noModel" false, gzip := ← jBoolD j "gzip" false,
         highMemory := ← jBoolD j "highMemory" false, gzRef := ← jBoolD j "gzRef" false, idx := ← jBoolD j "idx" false }

/-- the configuration of the resumed run: optional fields `resumeHM` (`--resume --high_memory`) and `resumeKT`
    (`--resume --keep_tmp`), default: `--resume` alone = the options of the killed run; `resumeOrig` (development aid:
    the resume parser before the repair, `--high_memory` not restored from `.params`) -/
def jResumeCfg (j : Json) (cfg : Cfg) : Except String Cfg := do
  if ← jBoolD j "resumeOrig" false then
    pure (resumeCfgOrig cfg (← jBoolD j "resumeHM" false) (← jBoolD j "resumeKT" false))
  else
    pure (resumeCfg cfg (← jBoolD j "resumeHM" false) (← jBoolD j "resumeKT" false))

/-- a file system given as a list of [path, token] -/
def jFS (j : Json) : Except String FS := do
  let l ← jList (jPair jPath jTok) j
  pure (l.foldl (fun fs (p, t) => fs.set p (some t)) FS.empty)

/-- the initial file system of the first run (optional field `fs0`, default: empty folder) -/
def jFS0 (j : Json) : Except String FS :=
  match j.getObjVal? "fs0" with
  | .ok v => jFS v
  | .error _ => pure FS.empty

def ofFS (cfg : Cfg) (fs : FS) : Json :=
  Json.arr ((allPaths cfg).filterMap (fun p => (fs p).map (fun t => Json.arr #[ofPath p, ofTok t]))).toArray

def ofVerdict : Verdict → Json
  | .equal => ofStr "EQUAL"
  | .fail => ofStr "FAIL"
  | .diff => ofStr "DIFF"

def ofRes (cfg : Cfg) (r : Res) : Json :=
  Json.mkObj [("evs", ofList ofEv r.evs), ("ok", ofBool r.ok), ("fs", ofFS cfg r.fs)]

/-- the files a list of actions opens for reading (`exist` / `load`), up to the point where it raises (as `runActs`) -/
def readsOfActs : List Act → FS → List Path × FS × Bool
  | [], fs => ([], fs, true)
  | .ev e :: as, fs => readsOfActs as (apply fs e)
  | .exist p :: as, fs =>
      if fs.has p then let r := readsOfActs as fs; (p :: r.1, r.2) else ([p], fs, false)
  | .load p :: as, fs =>
      if fs.loadable p then let r := readsOfActs as fs; (p :: r.1, r.2) else ([p], fs, false)
  | .rm p :: as, fs =>
      if fs.has p then readsOfActs as (apply fs (.remove p)) else ([], fs, false)

def readsOfStages : List Stage → FS → List Path
  | [], _ => []
  | s :: ss, fs =>
      let r := readsOfActs (s fs) fs
      if r.2.2 then r.1 ++ readsOfStages ss r.2.1 else r.1

/-- the read accesses of one `--threads 1` run (same stage list as `run`) -/
def readsOfRun (v : Variant) (cfg : Cfg) (ord : List Path) (resume : Bool) (fs : FS) : List Path :=
  readsOfStages (forceClean v cfg resume :: stages v cfg ord resume (resume && fs.has .lock)) fs

/-- a run with the files it reads (`reads`: existence checks and loads in the order of the model's actions) -/
def ofResReads (v : Variant) (cfg : Cfg) (ord : List Path) (resume : Bool) (fs : FS) : Json :=
  let r := run v cfg ord resume fs
  Json.mkObj [("evs", ofList ofEv r.evs), ("ok", ofBool r.ok), ("fs", ofFS cfg r.fs),
              ("reads", ofList ofPath (readsOfRun v cfg ord resume fs))]

/-! ### process pool (Model/ResumePool.lean) -/

/-- the phases of a pool run one by one: (phase, file system at its start, its result) -/
def phaseTrace : List Phase → FS → List (Phase × FS × Res)
  | [], _ => []
  | p :: ps, fs =>
      let r := runPhase p fs
      (p, fs, r) :: (if r.ok then phaseTrace ps r.fs else [])

def ofPhase : Phase × FS × Res → Json
  | (.seq _, _, r) => Json.mkObj [("kind", ofStr "seq"), ("evs", ofList ofEv r.evs), ("ok", ofBool r.ok)]
  | (.pool task cs sc, fs, r) =>
      Json.mkObj [("kind", ofStr "pool"), ("evs", ofList ofEv r.evs), ("ok", ofBool r.ok),
                  ("workers", ofNat (workersNeeded task cs sc fs)),
                  ("tasks", ofList (fun c => Json.arr #[ofNat c, ofList ofEv (taskEvents task cs fs c),
                                                          ofBool (runActs (task c fs) fs).ok]) cs)]

def ofPoolRes (v : Variant) (cfg : Cfg) (ord : List Path) (resume : Bool) (s1 s2 : List Nat) (fs : FS) : Json :=
  let r := runPool v cfg ord resume s1 s2 fs
  let tr := phaseTrace (.seq (forceClean v cfg resume) :: phases v cfg ord resume (resume && fs.has .lock) s1 s2) fs
  Json.mkObj [("evs", ofList ofEv r.evs), ("ok", ofBool r.ok), ("fs", ofFS cfg r.fs), ("phases", ofList ofPhase tr)]

def jSched (j : Json) (k : String) : Except String (List Nat) :=
  match j.getObjVal? k with
  | .ok v => jList jNat v
  | .error _ => pure []

/-! ### several experiments in one invocation (Model/ResumeMulti.lean) -/

def ofMEv (x : MEv) : Json := Json.arr #[ofNat x.1, ofEv x.2]

/-- the folders of all experiments: [experiment, path, token]; `.params` and the files of the reference stage (top-level
    folder of the invocation) once (experiment 0) -/
def ofMFS (exps : List Exp) (m : MFS) : Json :=
  Json.arr (((m.params.map (fun t => Json.arr #[ofNat 0, ofPath .params, ofTok t])).toList ++
    [Path.refFa, .refFai, .refFaiTmp].filterMap (fun p => (m.ref p).map (fun t => Json.arr #[ofNat 0, ofPath p, ofTok t])) ++
    exps.flatMap (fun x => ((allPaths x.2.1).filter (fun p => p != Path.params && !isRefPath p)).filterMap
      (fun p => (m.dirs x.1 p).map (fun t => Json.arr #[ofNat x.1, ofPath p, ofTok t])))).toArray)

def ofMRes (exps : List Exp) (r : MRes) : Json :=
  Json.mkObj [("evs", ofList ofMEv r.evs), ("ok", ofBool r.ok), ("fs", ofMFS exps r.fs)]

def ops : List (String × Handler) := [
  -- one invocation with several experiments in a fresh output folder (`carried` is set by the model: mkExps)
  ("multiRun", fun j => do
      let v ← jVariant (← arg j "variant")
      let cfgs ← jList jCfg (← arg j "cfgs")
      let ords ← jList (jList jPath) (← arg j "ords")
      let exps := mkExps cfgs ords
      pure (ofMRes exps (runMulti v exps false MFS.empty))),
  -- killed after k events, resumed (directory orders ords2): verdict, files at the kill, the resumed invocation
  ("multiVerdict", fun j => do
      let v ← jVariant (← arg j "variant")
      let cfgs ← jList jCfg (← arg j "cfgs")
      let ords ← jList (jList jPath) (← arg j "ords")
      let ords2 ← jList (jList jPath) (← arg j "ords2")
      let k ← jNat (← arg j "k")
      let exps := mkExps cfgs ords
      -- the options of the resume command line (`resumeHM` / `resumeKT`: one command line for the whole invocation)
      let cfgs2 ← cfgs.mapM (jResumeCfg j)
      let exps2 := mkExps cfgs2 ords2
      let crash := crashMulti v exps MFS.empty k
      pure (Json.mkObj [("verdict", ofVerdict (verdictMulti v exps exps2 MFS.empty k)), ("crash", ofMFS exps crash),
                        ("resumed", ofMRes exps2 (runMulti v exps2 true crash))])),
  -- one pool run from a given file system: schedules s1 (collection) / s2 (model construction); the result lists the
  -- phases (main-process stage / parallel stage with the event list of every task)
  ("poolRun", fun j => do
      let v ← jVariant (← arg j "variant")
      let cfg ← jCfg (← arg j "cfg")
      let ord ← jList jPath (← arg j "ord")
      let resume ← jBool (← arg j "resume")
      let fs ← jFS (← arg j "fs")
      pure (ofPoolRes v cfg ord resume (← jSched j "s1") (← jSched j "s2") fs)),
  -- file system after the first k events of the pool run started on fs0
  ("poolCrash", fun j => do
      let v ← jVariant (← arg j "variant")
      let cfg ← jCfg (← arg j "cfg")
      let ord ← jList jPath (← arg j "ord")
      let k ← jNat (← arg j "k")
      let fs0 ← jFS0 j
      pure (ofFS cfg (crashFSPool v cfg ord (← jSched j "s1") (← jSched j "s2") fs0 k))),
  -- pool run on fs0 (schedules s1 s2) killed after k events, resumed (directory order ord2, schedules r1 r2):
  -- verdict + the resumed run with its phases
  ("poolVerdict", fun j => do
      let v ← jVariant (← arg j "variant")
      let cfg ← jCfg (← arg j "cfg")
      let ord ← jList jPath (← arg j "ord")
      let ord2 ← jList jPath (← arg j "ord2")
      let k ← jNat (← arg j "k")
      let fs0 ← jFS0 j
      let s1 ← jSched j "s1"
      let s2 ← jSched j "s2"
      let r1 ← jSched j "r1"
      let r2 ← jSched j "r2"
      let cfg2 ← jResumeCfg j cfg
      pure (Json.mkObj [("verdict", ofVerdict (verdictPoolFromOpts v cfg ord ord2 cfg2.highMemory cfg2.keepTmp s1 s2 r1 r2 fs0 k)),
                        ("resumed", ofPoolRes v cfg2 ord2 true r1 r2 (crashFSPool v cfg ord s1 s2 fs0 k))])),
  -- one run from a given file system
  ("run", fun j => do
      let v ← jVariant (← arg j "variant")
      let cfg ← jCfg (← arg j "cfg")
      let ord ← jList jPath (← arg j "ord")
      let resume ← jBool (← arg j "resume")
      let fs ← jFS (← arg j "fs")
      pure (ofResReads v cfg ord resume fs)),
  -- file system after the first k events of the uninterrupted run started on fs0
  ("crash", fun j => do
      let v ← jVariant (← arg j "variant")
      let cfg ← jCfg (← arg j "cfg")
      let ord ← jList jPath (← arg j "ord")
      let k ← jNat (← arg j "k")
      let fs0 ← jFS0 j
      pure (ofFS cfg (crashFSFrom v cfg ord fs0 k))),
  -- start on fs0, kill after k events, resume with directory order ord2: verdict + the resumed run
  ("verdict", fun j => do
      let v ← jVariant (← arg j "variant")
      let cfg ← jCfg (← arg j "cfg")
      let ord ← jList jPath (← arg j "ord")
      let ord2 ← jList jPath (← arg j "ord2")
      let k ← jNat (← arg j "k")
      let fs0 ← jFS0 j
      let cfg2 ← jResumeCfg j cfg
      pure (Json.mkObj [("verdict", ofVerdict (verdictFromOpts v cfg ord ord2 cfg2.highMemory cfg2.keepTmp fs0 k)),
                        ("resumed", ofResReads v cfg2 ord2 true (crashFSFrom v cfg ord fs0 k))])),
  -- killed after k events, resumed (ord2) and killed after k2 events of the resumed run, resumed again (ord3)
  ("verdict2", fun j => do
      let v ← jVariant (← arg j "variant")
      let cfg ← jCfg (← arg j "cfg")
      let ord ← jList jPath (← arg j "ord")
      let ord2 ← jList jPath (← arg j "ord2")
      let ord3 ← jList jPath (← arg j "ord3")
      let k ← jNat (← arg j "k")
      let k2 ← jNat (← arg j "k2")
      let fs0 ← jFS0 j
      let cfg2 ← jResumeCfg j cfg
      let fs1 := crashFSFrom v cfg ord fs0 k
      let r2 := run v cfg2 ord2 true fs1
      let fs2 := applyAll fs1 (r2.evs.take k2)
      let r3 := run v cfg2 ord3 true fs2
      let verdict := if !r3.ok then Verdict.fail
                     else if sameFinals cfg r3.fs (run v cfg ord false fs0).fs then Verdict.equal else Verdict.diff
      pure (Json.mkObj [("verdict", ofVerdict verdict), ("resumed1", ofRes cfg r2), ("crash2", ofFS cfg fs2),
                        ("resumed2", ofRes cfg r3)])),
  -- verdicts for every crash index 0..len
  ("verdicts", fun j => do
      let v ← jVariant (← arg j "variant")
      let cfg ← jCfg (← arg j "cfg")
      let ord ← jList jPath (← arg j "ord")
      let fs0 ← jFS0 j
      let n := (cleanEventsFrom v cfg ord fs0).length
      pure (ofList ofVerdict ((List.range (n + 1)).map (fun k => verdictFrom v cfg ord ord fs0 k))))
]

end IsoVerif.Driver.C07
