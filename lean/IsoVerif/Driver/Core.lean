/-
Line-protocol driver core: one request per line `op<space>json`, one response line (compact JSON).
Core Lean only (no Mathlib) so that the driver links as a `lean_exe`.
-/
import Lean.Data.Json

namespace IsoVerif.Driver
open Lean

abbrev Handler := Json → Except String Json

def jInt (j : Json) : Except String Int := j.getInt?
def jNat (j : Json) : Except String Nat := j.getNat?
def jStr (j : Json) : Except String String := j.getStr?
def jBool (j : Json) : Except String Bool := j.getBool?
def jArr (j : Json) : Except String (Array Json) := j.getArr?

def jList {α} (f : Json → Except String α) (j : Json) : Except String (List α) := do
  let a ← j.getArr?
  a.toList.mapM f

def jPair {α β} (f : Json → Except String α) (g : Json → Except String β) (j : Json) : Except String (α × β) := do
  let a ← j.getArr?
  if a.size = 2 then
    pure (← f a[0]!, ← g a[1]!)
  else throw "pair expected"

def jIv (j : Json) : Except String (Int × Int) := jPair jInt jInt j
def jIvList (j : Json) : Except String (List (Int × Int)) := jList jIv j

def jOpt {α} (f : Json → Except String α) (j : Json) : Except String (Option α) :=
  if j.isNull then pure none else some <$> f j

def arg (j : Json) (k : String) : Except String Json := j.getObjVal? k

def ofInt (i : Int) : Json := Json.num (JsonNumber.fromInt i)
def ofNat (i : Nat) : Json := Json.num (JsonNumber.fromNat i)
def ofIv (p : Int × Int) : Json := Json.arr #[ofInt p.1, ofInt p.2]
def ofIvList (l : List (Int × Int)) : Json := Json.arr (l.map ofIv).toArray
def ofIntList (l : List Int) : Json := Json.arr (l.map ofInt).toArray
def ofNatList (l : List Nat) : Json := Json.arr (l.map ofNat).toArray
def ofList {α} (f : α → Json) (l : List α) : Json := Json.arr (l.map f).toArray
def ofOpt {α} (f : α → Json) : Option α → Json
  | none => Json.null
  | some a => f a
def ofBool (b : Bool) : Json := Json.bool b
def ofStr (s : String) : Json := Json.str s
/-- model-side error (the implementation raises): compared as an enum -/
def jErr (kind : String) : Json := Json.mkObj [("error", Json.str kind)]

def splitOp (line : String) : String × String :=
  match line.splitOn " " with
  | [] => ("", "")
  | op :: rest => (op, " ".intercalate rest)

def handleLine (table : List (String × Handler)) (line : String) : String :=
  let (op, rest) := splitOp line
  match table.lookup op with
  | none => (Json.mkObj [("driver_error", Json.str s!"unknown op {op}")]).compress
  | some h =>
    match Json.parse rest with
    | .error e => (Json.mkObj [("driver_error", Json.str s!"bad json: {e}")]).compress
    | .ok j =>
      match h j with
      | .ok r => r.compress
      | .error e => (Json.mkObj [("driver_error", Json.str e)]).compress

partial def loop (table : List (String × Handler)) (hin hout : IO.FS.Stream) : IO Unit := do
  let line ← hin.getLine
  if line.isEmpty then return ()
  let l := line.trimAsciiEnd.toString
  if l.isEmpty then
    loop table hin hout
  else
    hout.putStrLn (handleLine table l)
    loop table hin hout

def runMain (table : List (String × Handler)) : IO Unit := do
  let hin ← IO.getStdin
  let hout ← IO.getStdout
  loop table hin hout
  hout.flush

end IsoVerif.Driver
