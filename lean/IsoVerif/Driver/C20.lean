import IsoVerif.Driver.Core
import IsoVerif.Model.Cache
import IsoVerif.Model.Artefact
import IsoVerif.Gen.CacheProtocol

/-
Driver of the cache-protocol model (C20).  The model is run with the *real* serialisation: the JSON text that
`json.dump` produces for the four config files (field names and their order come from the generated table
`IsoVerif.Gen.cache_entry_fields`, re-extracted from /repo on every run), and an order-preserving strict parser for
that text.  The harness compares the final bytes of every config file, the step trace and the outcome of every
process with what the real functions did under the same interleaving.
-/
namespace IsoVerif.Driver.C20
open Lean IsoVerif.Driver IsoVerif.Model.C20

/-! ### JSON text of a cache dict (as written by `json.dump`, default separators) -/

def quote (s : String) : String :=
  "\"" ++ (s.toList.foldl (fun acc ch =>
    if ch = '"' then acc ++ "\\\"" else if ch = '\\' then acc ++ "\\\\" else acc.push ch) "") ++ "\""

def mtimeText (m : Nat) : String := toString m ++ ".0"

def nameOf (names : Array String) (i : Nat) : String := names[i]?.getD s!"<unknown {i}>"

/-- value of one field of an entry, by its role in the generated table -/
def fieldText (names : Array String) (e : Entry) (role : String) : String :=
  match role with
  | "target" => quote (nameOf names e.target)
  | "src_mtime" => mtimeText e.srcM
  | "tgt_mtime" => mtimeText e.tgtM
  | "flag" => if e.tag = 1 then "true" else "false"
  | "kmer" => quote (toString e.tag)
  | "aux0" => match e.aux[0]? with | some m => mtimeText m | none => "\"\""
  | "aux1" => match e.aux[1]? with | some m => mtimeText m | none => "\"\""
  | _ => "null"

def fieldsOf (kind : Nat) : List (String × String) := (IsoVerif.Gen.cache_entry_fields[kind]?).getD []

def entryText (names : Array String) (e : Entry) : String :=
  "{" ++ ", ".intercalate ((fieldsOf e.kind).map (fun fr => quote fr.1 ++ ": " ++ fieldText names e fr.2)) ++ "}"

def cacheText (names : Array String) (d : Cache) : String :=
  "{" ++ ", ".intercalate (d.map (fun x => quote (nameOf names x.1) ++ ": " ++ entryText names x.2)) ++ "}"

/-! ### strict, order-preserving parser for that text -/

inductive JV where
  | str (s : String)
  | num (n : Nat)          -- `123.0` or `123`
  | bool (b : Bool)
  | null
  | arr (l : List JV)
  | obj (kv : List (String × JV))

def isWs (c : Char) : Bool := c = ' ' || c = '\n' || c = '\t' || c = '\r'
def skipWs : List Char → List Char
  | c :: r => if isWs c then skipWs r else c :: r
  | [] => []

def parseStr : List Char → String → Option (String × List Char)
  | '"' :: r, acc => some (acc, r)
  | '\\' :: '"' :: r, acc => parseStr r (acc.push '"')
  | '\\' :: '\\' :: r, acc => parseStr r (acc.push '\\')
  | '\\' :: '/' :: r, acc => parseStr r (acc.push '/')
  | '\\' :: _, _ => none
  | c :: r, acc => parseStr r (acc.push c)
  | [], _ => none

def parseDigits : List Char → Nat → Nat → (Nat × Nat × List Char)
  | c :: r, acc, n => if c.isDigit then parseDigits r (acc * 10 + (c.toNat - '0'.toNat)) (n + 1) else (acc, n, c :: r)
  | [], acc, n => (acc, n, [])

def parseNum (l : List Char) : Option (Nat × List Char) :=
  let (v, n, r) := parseDigits l 0 0
  if n = 0 then none else
  match r with
  | '.' :: r2 =>
    let (fv, fn, r3) := parseDigits r2 0 0
    if fn = 0 then none else if fv = 0 then some (v, r3) else none    -- only integral mtimes occur in the harness
  | _ => some (v, r)

mutual
  partial def parseVal (l : List Char) : Option (JV × List Char) :=
    match skipWs l with
    | '"' :: r => (parseStr r "").map (fun (s, r') => (JV.str s, r'))
    | 't' :: 'r' :: 'u' :: 'e' :: r => some (JV.bool true, r)
    | 'f' :: 'a' :: 'l' :: 's' :: 'e' :: r => some (JV.bool false, r)
    | 'n' :: 'u' :: 'l' :: 'l' :: r => some (JV.null, r)
    | '[' :: r =>
      match skipWs r with
      | ']' :: r' => some (JV.arr [], r')
      | r' => parseElems r' []
    | '{' :: r =>
      match skipWs r with
      | '}' :: r' => some (JV.obj [], r')
      | r' => parseMembers r' []
    | c :: r => if c.isDigit then (parseNum (c :: r)).map (fun (n, r') => (JV.num n, r')) else none
    | [] => none
  partial def parseElems (l : List Char) (acc : List JV) : Option (JV × List Char) :=
    match parseVal l with
    | none => none
    | some (v, r) =>
      match skipWs r with
      | ',' :: r' => parseElems r' (acc ++ [v])
      | ']' :: r' => some (JV.arr (acc ++ [v]), r')
      | _ => none
  partial def parseMembers (l : List Char) (acc : List (String × JV)) : Option (JV × List Char) :=
    match skipWs l with
    | '"' :: r =>
      match parseStr r "" with
      | none => none
      | some (k, r1) =>
        match skipWs r1 with
        | ':' :: r2 =>
          match parseVal r2 with
          | none => none
          | some (v, r3) =>
            -- python's dict keeps the first position of a repeated key and the last value
            let acc' := if acc.any (·.1 == k) then acc.map (fun kv => if kv.1 == k then (k, v) else kv) else acc ++ [(k, v)]
            match skipWs r3 with
            | ',' :: r4 => parseMembers r4 acc'
            | '}' :: r4 => some (JV.obj acc', r4)
            | _ => none
        | _ => none
    | _ => none
end

def parseDoc (l : List Char) : Option JV :=
  match parseVal l with
  | some (v, r) => if (skipWs r).isEmpty then some v else none
  | none => none

def nameId (names : Array String) (s : String) : Option Nat := names.toList.idxOf? s

def getField (kv : List (String × JV)) (k : String) : Option JV := (kv.find? (·.1 == k)).map (·.2)

/-- decode one entry object: its kind is the first generated field table whose target field is present -/
def decodeEntry (names : Array String) (kv : List (String × JV)) : Option Entry :=
  let kinds := (List.range IsoVerif.Gen.cache_entry_fields.length).filter (fun k =>
    match (fieldsOf k).find? (·.2 == "target") with
    | some (fname, _) => (getField kv fname).isSome
    | none => false)
  match kinds with
  | [] => none
  | kind :: _ =>
    let fs := fieldsOf kind
    let fieldBy (role : String) : Option JV := (fs.find? (·.2 == role)).bind (fun fr => getField kv fr.1)
    let num (role : String) : Option Nat := match fieldBy role with | some (JV.num n) => some n | _ => none
    match fieldBy "target", num "src_mtime", num "tgt_mtime" with
    | some (JV.str t), some sm, some tm =>
      match nameId names t with
      | none => none
      | some tid =>
        let tag : Nat := match fieldBy "flag", fieldBy "kmer" with
          | some (JV.bool b), _ => if b then 1 else 0
          | _, some (JV.str s) => s.toNat?.getD 0
          | _, _ => 0
        let aux : List Nat := match num "aux0", num "aux1" with
          | some a, some b => [a, b]
          | some a, none => [a]
          | _, _ => []
        some { kind := kind, target := tid, srcM := sm, tgtM := tm, tag := tag, aux := aux }
    | _, _, _ => none

/-- `load_config` keeps the entries that are dicts (an entry that is a string / number / null / list - a file written by
    another version or edited by hand - is no entry: audit2 C20-G5); a dict entry the model cannot represent (unknown key,
    missing field) makes the text "not a cache document" for the driver (such inputs are not generated) -/
def decodeCache (names : Array String) : List (String × JV) → Option Cache
  | [] => some []
  | (k, JV.obj kv) :: r =>
    match nameId names k, decodeEntry names kv, decodeCache names r with
    | some kid, some e, some d => some ((kid, e) :: d)
    | _, _, _ => none
  | (_, _) :: r => decodeCache names r

def jsonCodec (names : Array String) : Codec Char :=
  { ser := fun d => (cacheText names d).toList
    parse := fun l => match parseDoc l with
      | some (JV.obj kv) => decodeCache names kv
      | _ => none }

/-! ### request decoding -/

def jClient (file : Nat) (j : Json) : Except String Client := do
  pure { file := file, key := ← jNat (← arg j "key"), src := ← jNat (← arg j "src"),
         aux := ← jList jNat (← arg j "aux"), target := ← jNat (← arg j "target"), tag := ← jNat (← arg j "tag") }

def jRunCfg (j : Json) : Except String (Bool × RunCfg) := do
  let fixed := (← jStr (← arg j "proto")) == "fixed"
  let dbj ← arg j "db"
  let db ← if dbj.isNull then pure none else do
    let c ← jClient 0 dbj
    pure (some (c, ← jBool (← arg dbj "clean")))
  let stores ← jList (fun sj => do
    let f ← jNat (← arg sj "file")
    pure (← jClient f sj, ← jBool (← arg sj "lookup"))) (← arg j "stores")
  pure (fixed, { db := db, stores := stores })

/-- a production of the history (a finished earlier run) for the ghost log of the initial world -/
def jConv (j : Json) : Except String Conv := do
  let c ← jClient (← jNat (← arg j "file")) j
  pure { client := c, srcM0 := ← jNat (← arg j "srcM0"), srcM := ← jNat (← arg j "srcM"),
         auxM := ← jList jNat (← arg j "auxM"), tgtM := ← jNat (← arg j "tgtM") }

def label : Instr → String × Nat
  | .existsQ f _ => ("exists", f)
  | .openW f => ("openW", f)
  | .writeBuf f _ => ("write", f)
  | .replaceBuf f _ => ("replace", f)
  | .load f _ _ => ("load", f)
  | .lookup c _ => ("lookup", c.file)
  | .produce c _ => ("produce", c.file)

/-- run the interleaving, collecting the labels of the steps that really take place -/
def runTraced (cd : Codec Char) (s : Sys Char) (sched : List Nat) : Sys Char × List (Nat × String × Nat) :=
  sched.foldl (fun (acc : Sys Char × List (Nat × String × Nat)) pid =>
    let s := acc.1
    match s.procs[pid]? with
    | none => acc
    | some p =>
      if p.crashed then acc else
      match p.todo with
      | [] => acc
      | i :: _ => (stepSys cd s pid, acc.2 ++ [(pid, (label i).1, (label i).2)])) (s, [])

def ofContent : Option (List Char) → Json
  | none => Json.null
  | some l => Json.str (String.ofList l)

def kindName (k : Nat) : String := (["db", "index", "bed", "align"][k]?).getD "?"

def runOp : Handler := fun j => do
  let names := (← jList jStr (← arg j "names")).toArray
  let mts ← jList (jPair jNat jNat) (← arg j "mtimes")
  let clock ← jNat (← arg j "clock")
  let files ← jList (jOpt jStr) (← arg j "files")
  let cfgs ← jList jRunCfg (← arg j "procs")
  let sched ← jList jNat (← arg j "sched")
  let drainAfter := match j.getObjVal? "drain" with | .ok (Json.bool b) => b | _ => false
  -- productions performed by the finished runs that populated the initial cache (newest first); optional
  let hist ← match j.getObjVal? "history" with
    | .ok h => jList jConv h
    | .error _ => pure []
  let cd := jsonCodec names
  let w : World Char :=
    { names := fun f => match files[f]? with | some (some _) => some f | _ => none
      inodes := fun i => match files[i]? with | some (some s) => s.toList | _ => []
      nextInode := files.length
      mtime := fun p => (mts.find? (·.1 == p)).map (·.2)
      clock := clock, convs := hist, obs := [], stored := [] }
  let s0 := Sys.start w (cfgs.map (fun (fx, r) => if fx then progFixed r else progOrig r))
  let (s1, trace) := runTraced cd s0 sched
  let s := if drainAfter then drain cd s1 else s1
  pure (Json.mkObj [
    ("trace", Json.arr (trace.map (fun (p, l, f) => Json.arr #[ofNat p, ofStr l, ofNat f])).toArray),
    ("procs", Json.arr (s.procs.map (fun p => Json.mkObj [
        ("crashed", ofBool p.crashed), ("left", ofNat p.todo.length),
        ("results", Json.arr (p.results.reverse.map (fun r =>
            Json.arr #[ofStr (kindName r.client.file), ofStr (nameOf names r.target), ofBool r.hit])).toArray)])).toArray),
    ("files", Json.arr ((List.range files.length).map (fun f => ofContent (s.world.content f))).toArray),
    -- C20Stable: is every result still the file version the process took (final state), and the hypothesis of
    -- `results_stable_partial` evaluated on the start state
    ("stable", Json.arr (s.procs.map (fun p => Json.arr (p.results.reverse.map (fun r =>
        Json.arr #[ofStr (nameOf names r.target), ofNat r.tgtM, ofBool (decide (r.stable s.world))])).toArray)).toArray),
    ("private", ofBool (decide (PrivateTargets s0))),
    ("to_produce", Json.arr (s0.toProduce.map (fun t => ofStr (nameOf names t))).toArray),
    ("obs", Json.arr (s.world.obs.reverse.map (fun (f, c) => Json.arr #[ofNat f, ofContent c])).toArray),
    ("convs", Json.arr (s.world.convs.reverse.map (fun c => Json.arr #[ofStr (kindName c.client.file),
        ofStr (nameOf names c.client.key), ofStr (nameOf names c.client.target), ofNat c.srcM, ofNat c.tgtM,
        ofNat c.client.tag])).toArray)])

/-- the codec on its own: `parse (text)` rendered back, null when the text is not a cache document -/
def parseOp : Handler := fun j => do
  let names := (← jList jStr (← arg j "names")).toArray
  let text ← jStr (← arg j "text")
  pure (match (jsonCodec names).parse text.toList with
    | none => Json.null
    | some d => Json.str (cacheText names d))

/-! ### the artefact model (Model/Artefact.lean): builds and re-openings of shared artefact files -/

def jAInstr (j : Json) : Except String IsoVerif.Model.C20A.Instr := do
  let op ← jStr (← arg j "op")
  let p ← jNat (← arg j "p")
  match op with
  | "build" => pure (.build p (← jBool (← arg j "atomic")) (← jList (jList jNat) (← arg j "chunks")))
  | "use" => pure (.use p)
  | "ifMissing" => pure (.ifMissing p (← jNat (← arg j "skip")))
  | _ => throw s!"unknown artefact instruction {op}"

/-- `files`: [[path, [records]]…] present at the start; `procs`: instruction lists; `sched`: pids.  Returns what every
    `use` found, in the order the uses took place (null = no such file), and what is left of every program. -/
def artefactOp : Handler := fun j => do
  let files ← jList (jPair jNat (jList jNat)) (← arg j "files")
  let progs ← jList (jList jAInstr) (← arg j "procs")
  let sched ← jList jNat (← arg j "sched")
  let w : IsoVerif.Model.C20A.FS :=
    { names := fun q => files.findIdx? (·.1 == q)
      inodes := fun i => match files[i]? with | some (_, c) => c | none => []
      next := files.length, obs := [] }
  let s := IsoVerif.Model.C20A.run (IsoVerif.Model.C20A.Sys.start w progs) sched
  pure (Json.mkObj [
    ("obs", Json.arr (s.fs.obs.reverse.map (fun (q, c) => Json.arr #[ofNat q, ofOpt ofNatList c])).toArray),
    ("left", ofNatList (s.procs.map (fun p => p.todo.length)))])

def ops : List (String × Handler) := [("run", runOp), ("parse", parseOp), ("artefact", artefactOp)]

end IsoVerif.Driver.C20
