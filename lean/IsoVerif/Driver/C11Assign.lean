/-
Driver ops of the C11 extension for the assignment model (Model/Assign.lean): the transformations of
Model/C11SymAssign.lean on JSON values, so that the harness can compare them with its Python twins
(`harness/props/c11x_assign.py`).  The model functions themselves are evaluated through the existing `C01.*` ops.
Op names are registered with the prefix `C11.`.
-/
import IsoVerif.Driver.Core
import IsoVerif.Model.Assign
import IsoVerif.Model.C11Symmetry
import IsoVerif.Model.C11SymAssign

namespace IsoVerif.Driver.C11Assign
open Lean IsoVerif.Driver IsoVerif.Gen IsoVerif.Model IsoVerif.Model.C01 IsoVerif.Model.C11

def jStrand (j : Json) : Except String Strand := do
  let s ← jStr j
  pure (if s == "+" then Strand.plus else if s == "-" then Strand.minus else Strand.other)

def ofStrand : Strand → Json
  | .plus => ofStr "+"
  | .minus => ofStr "-"
  | .other => ofStr "."

def jIsoform (j : Json) : Except String Isoform := do
  pure { exons := ← jIvList (← arg j "exons"), strand := ← jStrand (← arg j "strand") }

def ofIsoform (m : Isoform) : Json := Json.mkObj [("exons", ofIvList m.exons), ("strand", ofStrand m.strand)]

def jPolyA (j : Json) : Except String PolyA := do
  let l ← jList jInt j
  match l with
  | [a, b, c, d] => pure { extA := a, extT := b, intA := c, intT := d }
  | _ => throw "polya: 4 ints expected"

def ofPolyA (pa : PolyA) : Json := ofIntList [pa.extA, pa.extT, pa.intA, pa.intT]

def jEventTy (j : Json) : Except String MatchEventSubtype := do
  let s ← jStr j
  match MatchEventSubtype.ofName? s with
  | some t => pure t
  | none => throw s!"unknown event {s}"

/-- event = [name, [iso0, iso1], [read0, read1], info] (the format of the `C01.*` ops) -/
def jEvent (j : Json) : Except String Event := do
  let a ← jArr j
  if a.size = 4 then
    pure { ty := ← jEventTy a[0]!, isoRegion := ← jIv a[1]!, readRegion := ← jIv a[2]!, info := ← jInt a[3]! }
  else throw "event: 4 fields expected"

def ofEvent (e : Event) : Json :=
  Json.arr #[ofStr e.ty.name, ofIv e.isoRegion, ofIv e.readRegion, ofInt e.info]

def jMatch (j : Json) : Except String IsoMatch := do
  let cls ← jStr (← arg j "cls")
  match MatchClassification.ofName? cls with
  | none => throw s!"unknown classification {cls}"
  | some c =>
    let pen ← jIv (← arg j "penalty")
    pure { iso := ← jOpt jNat (← arg j "iso"), cls := c, events := ← jList jEvent (← arg j "events"),
           penaltyNum := pen.1, penaltyDen := pen.2 }

def ofMatch (m : IsoMatch) : Json :=
  Json.mkObj [("iso", ofOpt ofNat m.iso), ("cls", ofStr m.cls.name), ("events", ofList ofEvent m.events),
              ("penalty", ofIv (m.penaltyNum, m.penaltyDen))]

def ofIso (I : IsoInfo) : Json :=
  Json.mkObj [("id", ofNat I.id), ("introns", ofIvList I.introns), ("region", ofIv I.region),
              ("intron_profile", ofIntList I.intronProf), ("intron_range", ofIv I.intronRange),
              ("split_profile", ofIntList I.splitProf), ("split_range", ofIv I.splitRange)]

def ofGene (g : Gene) : Json :=
  Json.mkObj [("start", ofInt g.start), ("end", ofInt g.stop), ("introns", ofIvList g.introns),
    ("exons", ofIvList g.exons), ("split_exons", ofIvList g.splitExons), ("isoforms", ofList ofIso g.isos)]

def ops : List (String × Handler) := [
  ("T.shift_isoforms", fun j => do
      let k ← jInt (← arg j "k")
      let ms ← jList jIsoform (← arg j "isoforms")
      pure (ofList ofIsoform (ms.map (shiftIsoform k)))),
  ("T.shift_polya_info", fun j => do
      let k ← jInt (← arg j "k")
      pure (ofPolyA (shiftPolyA k (← jPolyA (← arg j "polya"))))),
  ("T.shift_events", fun j => do
      let k ← jInt (← arg j "k")
      pure (ofList ofEvent (shiftEvents k (← jList jEvent (← arg j "events"))))),
  ("T.shift_cj", fun j => do
      let k ← jInt (← arg j "k")
      let cj ← jList (jOpt (jList jEvent)) (← arg j "cj")
      let f : Nat → Option (List Event) := fun i => cj.getD i none
      pure (ofList (fun (i : Nat) => ofOpt (ofList ofEvent) (shiftCj k f i)) (List.range cj.length))),
  ("T.shift_assignment", fun j => do
      let k ← jInt (← arg j "k")
      let ty ← jStr (← arg j "type")
      match ReadAssignmentType.ofName? ty with
      | none => throw s!"unknown type {ty}"
      | some t =>
        let a : Assignment := { ty := t, isoMatches := ← jList jMatch (← arg j "matches") }
        let b := shiftAssignment k a
        pure (Json.mkObj [("type", ofStr b.ty.name), ("matches", ofList ofMatch b.isoMatches)])),
  -- `shiftGene` on the gene model built from the isoforms (rendered like `C01.gene`)
  ("T.shift_gene", fun j => do
      let k ← jInt (← arg j "k")
      let ms ← jList jIsoform (← arg j "isoforms")
      match Gene.fromModels ms with
      | none => pure (jErr "error")
      | some g => pure (ofGene (shiftGene k g)))
]

end IsoVerif.Driver.C11Assign
