/-
Driver ops of the C11 extension for Model/Resolver.lean (C08) and Model/IntronGraph.lean (C04): the transformations of
Model/C11SymGraph.lean (`T.*`), so that the harness's Python twins can be compared with them on every run, and the one
model function no C04 op exposes (`X.read_edge_ops`).  The model functions themselves are evaluated through the owning
properties' ops (`C08.resolve`, `C04.cluster`, ...).  The JSON shapes are those of Driver/C08.lean / Driver/C04.lean
(order of lists kept: the harness compares what the transformation does to the list it sent).  Core Lean only.
-/
import IsoVerif.Driver.Core
import IsoVerif.Model.Resolver
import IsoVerif.Model.IntronGraph
import IsoVerif.Model.C11Symmetry
import IsoVerif.Model.C11SymGraph

namespace IsoVerif.Driver.C11Graph
open Lean IsoVerif.Driver IsoVerif.Gen IsoVerif.Model IsoVerif.Model.C11 IsoVerif.Model.C04

/-! records of the resolver (shape of Driver/C08.lean) -/

def jRType (j : Json) : Except String ReadAssignmentType := do
  let s ← jStr j
  match ReadAssignmentType.ofName? s with
  | some t => pure t
  | none => throw s!"unknown assignment type {s}"

def jRec (j : Json) : Except String Resolver.Rec := do
  pure { aid := ← jNat (← arg j "aid"), readId := ← jNat (← arg j "read"), chr := ← jNat (← arg j "chr"),
         start := ← jInt (← arg j "start"), stop := ← jInt (← arg j "end"), region := ← jIv (← arg j "region"),
         multimapper := ← jBool (← arg j "mm"), polyA := ← jBool (← arg j "polya"),
         atype := ← jRType (← arg j "atype"), gtype := ← jRType (← arg j "gtype"),
         penalty := ← jInt (← arg j "pen"), isoforms := ← jList jNat (← arg j "iso"),
         genes := ← jList jNat (← arg j "genes") }

def ofRec (r : Resolver.Rec) : Json := Json.mkObj [
  ("aid", ofNat r.aid), ("read", ofNat r.readId), ("chr", ofNat r.chr), ("start", ofInt r.start),
  ("end", ofInt r.stop), ("region", ofIv r.region), ("mm", ofBool r.multimapper), ("polya", ofBool r.polyA),
  ("atype", ofStr r.atype.name), ("gtype", ofStr r.gtype.name), ("pen", ofInt r.penalty),
  ("iso", ofNatList r.isoforms), ("genes", ofNatList r.genes)]

def jFull (j : Json) : Except String Resolver.Full := do
  pure { aid := ← jNat (← arg j "aid"), readId := ← jNat (← arg j "read"), chr := ← jNat (← arg j "chr"),
         atype := ← jRType (← arg j "atype"), gtype := ← jRType (← arg j "gtype"),
         multimapper := ← jBool (← arg j "mm"), introns := ← jIvList (← arg j "introns"),
         isoforms := ← jList jNat (← arg j "iso") }

def ofFull (r : Resolver.Full) : Json := Json.mkObj [
  ("aid", ofNat r.aid), ("read", ofNat r.readId), ("chr", ofNat r.chr), ("atype", ofStr r.atype.name),
  ("gtype", ofStr r.gtype.name), ("mm", ofBool r.multimapper), ("introns", ofIvList r.introns),
  ("iso", ofNatList r.isoforms)]

/-! reads, collector, graph, operations (shape of Driver/C04.lean) -/

def jRead (j : Json) : Except String Read := do
  pure { id := ← jStr (← arg j "id"), introns := ← jIvList (← arg j "introns"), exons := ← jIvList (← arg j "exons"),
         multimapper := ← jBool (← arg j "mm"), strand := ← jStr (← arg j "strand"),
         polya := ← jBool (← arg j "polya"), polyt := ← jBool (← arg j "polyt"), group := ← jStr (← arg j "group") }

def ofRead (r : Read) : Json := Json.mkObj [
  ("id", ofStr r.id), ("introns", ofIvList r.introns), ("exons", ofIvList r.exons), ("mm", ofBool r.multimapper),
  ("strand", ofStr r.strand), ("polya", ofBool r.polya), ("polyt", ofBool r.polyt), ("group", ofStr r.group)]

def jCollector (j : Json) : Except String Collector := do
  pure { known := ← jIvList (← arg j "known"),
         clustered := ← jList (jPair jIv jInt) (← arg j "clustered"),
         corr := ← jList (jPair jIv jIv) (← arg j "corr"),
         discarded := ← jIvList (← arg j "discarded") }

def ofPairs (l : List (Iv × Iv)) : Json := ofList (fun p : Iv × Iv => Json.arr #[ofIv p.1, ofIv p.2]) l

def ofCollector (c : Collector) : Json :=
  Json.mkObj [("known", ofIvList c.known),
              ("clustered", ofList (fun p : Iv × Int => Json.arr #[ofIv p.1, ofInt p.2]) c.clustered),
              ("corr", ofPairs c.corr), ("discarded", ofIvList c.discarded)]

def jGraph (j : Json) : Except String Graph := do
  pure { col := ← jCollector (← arg j "col"), out := ← jList (jPair jIv jIv) (← arg j "out"),
         inc := ← jList (jPair jIv jIv) (← arg j "inc") }

def ofGraph (g : Graph) : Json :=
  Json.mkObj [("col", ofCollector g.col), ("out", ofPairs g.out), ("inc", ofPairs g.inc)]

def jOp (j : Json) : Except String Op := do
  let a ← jArr j
  let k ← jStr a[0]!
  let iv (i : Nat) : Except String Iv := match a[i]? with
    | some x => jIv x
    | none => throw "op: missing argument"
  match k with
  | "add_edge" => pure (.addEdge (← iv 1) (← iv 2))
  | "collapse" => pure (.collapse (← iv 1) (← iv 2))
  | "del_vertex" => pure (.delVertex (← iv 1))
  | "del_out" => pure (.delOut (← iv 1))
  | "del_inc" => pure (.delInc (← iv 1))
  | "discard" => pure (.discard (← iv 1))
  | "touch" => pure (.touch (← iv 1))
  | "simplify_map" => pure .simplifyMap
  | "attach_out" => pure (.attachOut (← iv 1) (← iv 2))
  | "attach_inc" => pure (.attachInc (← iv 1) (← iv 2))
  | _ => throw s!"unknown graph op {k}"

def ofOp : Op → Json
  | .addEdge a b => Json.arr #[ofStr "add_edge", ofIv a, ofIv b]
  | .collapse a b => Json.arr #[ofStr "collapse", ofIv a, ofIv b]
  | .delVertex a => Json.arr #[ofStr "del_vertex", ofIv a]
  | .delOut a => Json.arr #[ofStr "del_out", ofIv a]
  | .delInc a => Json.arr #[ofStr "del_inc", ofIv a]
  | .discard a => Json.arr #[ofStr "discard", ofIv a]
  | .touch a => Json.arr #[ofStr "touch", ofIv a]
  | .simplifyMap => Json.arr #[ofStr "simplify_map"]
  | .attachOut a b => Json.arr #[ofStr "attach_out", ofIv a, ofIv b]
  | .attachInc a b => Json.arr #[ofStr "attach_inc", ofIv a, ofIv b]

def gK (j : Json) : Except String Int := do jInt (← arg j "k")
def gL (j : Json) : Except String Int := do jInt (← arg j "L")

def ops : List (String × Handler) := [
  -- resolver
  ("T.shift_recs", fun j => do pure (ofList ofRec (shiftRecs (← gK j) (← jList jRec (← arg j "recs"))))),
  ("T.shift_fulls", fun j => do
      pure (ofList ofFull ((← jList jFull (← arg j "ras")).map (shiftFull (← gK j))))),
  ("T.shift_dict", fun j => do
      let d ← jList (jPair jNat (jList jRec)) (← arg j "dict")
      pure (ofList (fun kv : Nat × List Resolver.Rec => Json.arr #[ofNat kv.1, ofList ofRec kv.2]) (shiftDict (← gK j) d))),
  ("T.shift_edges", fun j => do
      let e ← jList (jPair jIv jIv) (← arg j "edges")
      pure (ofPairs (e.map (mapPair (shiftIv (← gK j)))))),
  -- intron graph
  ("T.shift_v", fun j => do pure (ofIvList ((← jIvList (← arg j "l")).map (shiftV (← gK j))))),
  ("T.good_v", fun j => do
      let k ← gK j
      pure (ofList (fun v : Iv => ofBool (decide (GoodV k v))) (← jIvList (← arg j "l")))),
  ("T.shift_reads", fun j => do pure (ofList ofRead (shiftReads (← gK j) (← jList jRead (← arg j "reads"))))),
  ("T.shift_reads_v", fun j => do
      let k ← gK j
      pure (ofList ofRead ((← jList jRead (← arg j "reads")).map (mapRead (shiftV k) k)))),
  ("T.shift_collector", fun j => do pure (ofCollector (mapCollector (shiftIv (← gK j)) (← jCollector (← arg j "col"))))),
  ("T.shift_graph", fun j => do pure (ofGraph (mapGraph (shiftIv (← gK j)) (← jGraph (← arg j "graph"))))),
  ("T.shift_graph_v", fun j => do pure (ofGraph (mapGraph (shiftV (← gK j)) (← jGraph (← arg j "graph"))))),
  ("T.shift_ops_v", fun j => do pure (ofList ofOp ((← jList jOp (← arg j "ops")).map (mapOp (shiftV (← gK j)))))),
  ("T.good_graph", fun j => do
      let k ← gK j
      let g ← jGraph (← arg j "graph")
      let obs ← jIvList (← arg j "obs")
      let ops ← jList jOp (← arg j "ops")
      pure (ofBool (decide (GoodG k g) && obs.all (fun v => decide (GoodV k v)) && ops.all (fun op => decide (GoodOp k op))))),
  ("T.mirror_ops", fun j => do pure (ofList ofOp ((← jList jOp (← arg j "ops")).map (mirrorOp (← gL j))))),
  ("T.mirror_reads", fun j => do pure (ofList ofRead ((← jList jRead (← arg j "reads")).map (mirrorRead (← gL j))))),
  ("T.mirror_graph", fun j => do pure (ofGraph (mirrorGraph (← gL j) (← jGraph (← arg j "graph"))))),
  ("T.mirror_collector", fun j => do pure (ofCollector (mapCollector (mirrorIv (← gL j)) (← jCollector (← arg j "col"))))),
  -- the `add_edge` calls one read contributes in `IntronGraph.construct`
  ("X.read_edge_ops", fun j => do pure (ofList ofOp (readEdgeOps (← jIvList (← arg j "introns"))))),
  -- `add_edge` on an arbitrary state, edge sets in insertion order (for the out ↔ inc duality)
  ("X.add_edge", fun j => do
      let g ← jGraph (← arg j "graph")
      pure (ofGraph (g.addEdge (← jIv (← arg j "a")) (← jIv (← arg j "b")))))
]

end IsoVerif.Driver.C11Graph
