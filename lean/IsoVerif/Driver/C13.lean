import IsoVerif.Driver.Core
import IsoVerif.Model.Interval
import IsoVerif.Model.Profiles
import IsoVerif.Model.FeatureCounts
import IsoVerif.Model.C13Chromosome
import IsoVerif.Driver.C05

namespace IsoVerif.Driver.C13
open Lean IsoVerif.Driver IsoVerif.Gen IsoVerif.Model IsoVerif.Model.C13

def ofProfile : Option ProfileResult → Json
  | none => jErr "error"
  | some r => Json.mkObj [("gene", ofIntList r.gene), ("read", ofIntList r.read), ("range", ofIv r.range)]

def jFeatureInfo (j : Json) : Except String FeatureInfo := do
  pure { id := ← jNat (← arg j "id"), chr := ← jStr (← arg j "chr"), start := ← jInt (← arg j "start"),
         stop := ← jInt (← arg j "end"), strand := ← jStr (← arg j "strand"), ftype := ← jStr (← arg j "type"),
         genes := ← jList jStr (← arg j "genes") }

def ofFeatureInfo (f : FeatureInfo) : Json :=
  Json.mkObj [("id", ofNat f.id), ("chr", ofStr f.chr), ("start", ofInt f.start), ("end", ofInt f.stop),
              ("strand", ofStr f.strand), ("type", ofStr f.ftype), ("genes", ofList ofStr (sortStrs f.genes))]

def jIsoform (j : Json) : Except String IsoformFeatures := do
  pure { tid := ← jStr (← arg j "tid"), strand := ← jStr (← arg j "strand"), gene := ← jStr (← arg j "gene"),
         feats := ← jIvList (← arg j "feats") }

/-- rows are rendered with the gene list sorted (it is a `list(set(..))` in the code) -/
def rowJson (r : CountRow) : Json :=
  Json.mkObj [("chr", ofStr r.fi.chr), ("start", ofInt r.fi.start), ("end", ofInt r.fi.stop), ("strand", ofStr r.fi.strand),
              ("type", ofStr r.fi.ftype), ("genes", ofList ofStr (sortStrs r.fi.genes)), ("group", ofStr r.group),
              ("incl", ofNat r.incl), ("excl", ofNat r.excl), ("text", ofStr r.text)]

def rowsJson : Option (List CountRow) → Json
  | none => jErr "error"
  | some rows => ofList rowJson rows

def runAndDump (kind : String) (ignore : Bool) (dflt : String) (evs : List ReadEv) : Option (List CountRow) :=
  if kind == "id" then (countAll idKey keepFirst ignore dflt evs).map dumpRows
  else if kind == "strand" then (countAll strandKey keepFirst ignore dflt evs).map dumpRows
  else (countAll coordKey FeatureInfo.merge ignore dflt evs).map dumpRows

def jEvents (j : Json) : Except String (List ReadEv) := do
  let pmaps ← jList (jList jFeatureInfo) (← arg j "pmaps")
  let evs ← jList (fun e => do
      let idx ← jNat (← arg e "pmap")
      match pmaps[idx]? with
      | none => throw "pmap index"
      | some pm => pure ({ profile := ← jList jInt (← arg e "profile"), pmap := pm, group := ← jStr (← arg e "group") } : ReadEv))
    (← arg j "events")
  pure evs

def jGeneIn (j : Json) : Except String GeneIn := do
  pure { region := ← jIv (← arg j "region"), isoforms := ← jList jIsoform (← arg j "isoforms") }

def optAll {α} : List (Option α) → Option (List α)
  | [] => some []
  | none :: _ => none
  | some a :: r => (optAll r).map (a :: ·)

/-- the ids of `l` in first-occurrence order, each once -/
def dedupNat : List Nat → List Nat → List Nat
  | seen, [] => seen
  | seen, x :: r => if seen.contains x then dedupNat seen r else dedupNat (seen ++ [x]) r

def lookupTab {α} (t : List (Nat × List α)) (k : Nat) : List α :=
  match t.lookup k with
  | some l => l
  | none => []

/-- `chromosome`: one chromosome through the collector model (C05), the gene loading of every (sub-)region, the table-driven
    per-alignment answers, the resolver (C08) and the counter -/
def chromosomeOp (j : Json) : Except String Json := do
  let all ← IsoVerif.Driver.C05.jAlns (← arg j "alns")
  let mode ← IsoVerif.Driver.C05.jMode (← arg j "mode")
  let repaired ← jBool (← arg j "repaired")
  let genes ← jList (fun g => do
      let a ← g.getArr?
      if a.size = 3 then pure ({ gid := ← jNat a[0]!, span := (← jInt a[1]!, ← jInt a[2]!) } : C13Chr.GeneRec)
      else throw "gene: 3 fields expected") (← arg j "genes")
  let hits ← jList (jPair jNat (jList (jPair jNat jNat))) (← arg j "hits")
  let marks ← jList (jPair jNat (jList (fun m => do
      let a ← m.getArr?
      if a.size = 4 then pure ((← jNat a[0]!), ((← jInt a[1]!), (← jInt a[2]!)), (← jInt a[3]!))
      else throw "mark: 4 fields expected"))) (← arg j "marks")
  let ans : C13Chr.Answers := { hits := lookupTab hits, marks := lookupTab marks }
  let P := C13Chr.tableProc "chrF" ans
  let flt : IsoVerif.Model.Regions.Params := { noSecondary := ← jBool (← arg j "no_secondary"), minMapq := ← jInt (← arg j "min_mapq") }
  match IsoVerif.Model.Regions.collect mode all with
  | none => pure (jErr "error")
  | some out0 =>
    -- the records that are never assigned get no record and do not stretch the gene region
    let out := C13Chr.procOut flt out0
    let loads := out.map (fun ra =>
      Json.mkObj [("region", ofIv ra.1), ("gene_region", ofIv (C13Chr.loadRegion repaired ra)),
                  ("genes", ofNatList ((C13Chr.loadGenes genes (C13Chr.loadRegion repaired ra)).map (·.gid))),
                  ("rids", ofNatList (ra.2.map (·.rid)))])
    let its := C13Chr.chrItems repaired genes P out
    let rids := dedupNat [] (its.map (·.brec.readId))
    let kept := rids.map (fun rid => match C13Chr.keptEvents its rid with
      | none => Json.arr #[ofNat rid, jErr "error"]
      | some evs => Json.arr #[ofNat rid, ofNat evs.length])
    let rows := match C13Chr.collectEvents its rids with
      | none => jErr "error"
      | some evs => match countAll coordKey FeatureInfo.merge true "NA" evs with
        | none => jErr "error"
        | some st => ofList (fun (r : CountRow) => Json.arr #[ofInt r.fi.start, ofInt r.fi.stop, ofNat r.incl, ofNat r.excl]) (dumpRows st)
    pure (Json.mkObj [("loads", Json.arr loads.toArray), ("kept", Json.arr kept.toArray), ("rows", rows)])


/-- `chromosome_profiles` (closure `p13local`): one chromosome through the collector model (C05), the gene loading of every
    (sub-)region, the REAL profile work (`exonProc` / `intronProc`: GeneInfo of the loaded genes, construct_exon_profile /
    construct_intron_profile, set_feature_properties), the resolver (C08) and the exon / intron counters -/
def chromosomeProfilesOp (j : Json) : Except String Json := do
  let all ← IsoVerif.Driver.C05.jAlns (← arg j "alns")
  let mode ← IsoVerif.Driver.C05.jMode (← arg j "mode")
  let repaired ← jBool (← arg j "repaired")
  let genes ← jList (fun g => do
      let a ← g.getArr?
      if a.size = 3 then pure ({ gid := ← jNat a[0]!, span := (← jInt a[1]!, ← jInt a[2]!) } : C13Chr.GeneRec)
      else throw "gene: 3 fields expected") (← arg j "genes")
  let hits ← jList (jPair jNat (jList (jPair jNat jNat))) (← arg j "hits")
  let isos ← jList (jPair jNat (jList jIsoform)) (← arg j "isoforms")
  let reads ← jList (jPair jNat (fun r => do
      pure ({ blocks := ← jIvList (← arg r "blocks"), polya := ← jInt (← arg r "polya"), polyt := ← jInt (← arg r "polyt"),
              group := ← jStr (← arg r "group") } : ReadAln))) (← arg j "reads")
  let ans : C13Chr.Answers := { hits := lookupTab hits, marks := fun _ => [] }
  let A : C13Chr.Ann :=
    { chr := ← jStr (← arg j "chr"), delta := ← jInt (← arg j "d"), absDelta := ← jInt (← arg j "abs_d"),
      isoforms := lookupTab isos,
      reads := fun r => match reads.lookup r with
        | some x => x
        | none => { blocks := [], polya := -1, polyt := -1, group := "NA" } }
  let flt : IsoVerif.Model.Regions.Params := { noSecondary := ← jBool (← arg j "no_secondary"), minMapq := ← jInt (← arg j "min_mapq") }
  match IsoVerif.Model.Regions.collect mode all with
  | none => pure (jErr "error")
  | some out0 =>
    -- the records that are never assigned get no record and do not stretch the gene region
    let out := C13Chr.procOut flt out0
    let loads := out.map (fun ra =>
      Json.mkObj [("region", ofIv ra.1), ("gene_region", ofIv (C13Chr.loadRegion repaired ra)),
                  ("genes", ofNatList ((C13Chr.loadGenes genes (C13Chr.loadRegion repaired ra)).map (·.gid))),
                  ("rids", ofNatList (ra.2.map (·.rid)))])
    let table (P : C13Chr.Proc) : Json × Json :=
      let its := C13Chr.chrItems repaired genes P out
      let rids := dedupNat [] (its.map (·.brec.readId))
      let kept := rids.map (fun rid => match C13Chr.keptEvents its rid with
        | none => Json.arr #[ofNat rid, jErr "error"]
        | some evs => Json.arr #[ofNat rid, ofNat evs.length])
      let rows := match C13Chr.collectEvents its rids with
        | none => jErr "error"
        | some evs => match countAll coordKey FeatureInfo.merge true "NA" evs with
          | none => jErr "error"
          | some st => ofList (fun (r : CountRow) => Json.arr #[ofInt r.fi.start, ofInt r.fi.stop, ofNat r.incl, ofNat r.excl]) (dumpRows st)
      (Json.arr kept.toArray, rows)
    let (ke, re) := table (C13Chr.exonProc A ans)
    let (_, ri) := table (C13Chr.intronProc A ans)
    pure (Json.mkObj [("loads", Json.arr loads.toArray), ("kept", ke), ("exon", re), ("intron", ri)])

def ops : List (String × Handler) := [
  ("chromosome", chromosomeOp),
  ("chromosome_profiles", chromosomeProfilesOp),
  ("exon_profile", fun j => do
      pure (ofProfile (constructExonProfile (← jIvList (← arg j "known")) (← jIv (← arg j "gene_region")) (← jInt (← arg j "d"))
        (← jIvList (← arg j "blocks")) (← jInt (← arg j "polya")) (← jInt (← arg j "polyt"))))),
  ("intron_profile", fun j => do
      pure (ofProfile (constructIntronProfile (← jIvList (← arg j "known")) (← jIv (← arg j "gene_region")) (← jInt (← arg j "d"))
        (← jInt (← arg j "abs_d")) (← jIvList (← arg j "blocks")) (← jInt (← arg j "polya")) (← jInt (← arg j "polyt"))))),
  ("feature_properties", fun j => do
      let r := setFeatureProperties (← jStr (← arg j "chr")) (← jInt (← arg j "d")) (← jIvList (← arg j "features"))
        (← jList jIsoform (← arg j "isoforms")) (← jNat (← arg j "next_id"))
      pure (Json.mkObj [("props", ofList ofFeatureInfo r), ("strs", ofList (fun f => ofStr f.toStr) r)])),
  ("effective_delta", fun j => do
      match effectiveDelta (← jStr (← arg j "strategy")) (← jOpt jInt (← arg j "delta")) with
      | none => pure (jErr "error")
      | some d => pure (ofInt d)),
  ("merge_info", fun j => do
      let a ← jFeatureInfo (← arg j "a")
      let b ← jFeatureInfo (← arg j "b")
      let m := a.merge b
      pure (Json.mkObj [("chr", ofStr m.chr), ("start", ofInt m.start), ("end", ofInt m.stop), ("strand", ofStr m.strand),
                        ("type", ofStr m.ftype), ("genes", ofList ofStr m.genes), ("str", ofStr m.toStr)])),
  ("count_dump", fun j => do
      let evs ← jEvents j
      let r := runAndDump (← jStr (← arg j "key")) (← jBool (← arg j "ignore_groups")) (← jStr (← arg j "default_group")) evs
      pure (rowsJson r)),
  ("row_text", fun j => do
      let fi ← jFeatureInfo (← arg j "fi")
      let r : CountRow := { fi := fi, group := ← jStr (← arg j "group"), incl := ← jNat (← arg j "incl"), excl := ← jNat (← arg j "excl") }
      pure (ofStr r.text)),
  ("pipeline_counts", fun j => do
      let chr ← jStr (← arg j "chr")
      let d ← jInt (← arg j "d")
      let absd ← jInt (← arg j "abs_d")
      let dflt ← jStr (← arg j "default_group")
      let genes := mkGenes chr d (← jNat (← arg j "next_id")) (← jList jGeneIn (← arg j "genes"))
      let reads ← jList (fun r => do
          pure ((← jNat (← arg r "gene")),
                ({ blocks := ← jIvList (← arg r "blocks"), polya := ← jInt (← arg r "polya"), polyt := ← jInt (← arg r "polyt"),
                   group := ← jStr (← arg r "group") } : ReadAln))) (← arg j "reads")
      let ee := optAll (reads.map (fun (gi, r) => match genes[gi]? with | none => none | some g => exonEvent g r))
      let ie := optAll (reads.map (fun (gi, r) => match genes[gi]? with | none => none | some g => intronEvent g absd r))
      match ee, ie with
      | some ee, some ie =>
        pure (Json.mkObj [
          ("exon", rowsJson (runAndDump "coord" true dflt ee)), ("intron", rowsJson (runAndDump "coord" true dflt ie)),
          ("exon_grouped", rowsJson (runAndDump "coord" false dflt ee)), ("intron_grouped", rowsJson (runAndDump "coord" false dflt ie)),
          ("features", Json.mkObj [("exons", ofList (fun g => ofIvList g.exons) genes), ("introns", ofList (fun g => ofIvList g.introns) genes)])])
      | _, _ => pure (jErr "error"))
]

end IsoVerif.Driver.C13
