import IsoVerif.Driver.Core
import IsoVerif.Model.PartNames

namespace IsoVerif.Driver.C05N
open Lean IsoVerif.Driver IsoVerif.Model.PartNames

def ofS (s : Str) : Json := ofStr (String.ofList s)
def ofOS : Option Str → Json
  | none => jErr "ValueError"
  | some s => ofS s
def jS (j : Json) : Except String Str := do pure (← jStr j).toList

def ops : List (String × Handler) := [
  -- src/common.py rreplace
  ("rreplace", fun j => do pure (ofOS (rreplace (← jS (← arg j "s")) (← jS (← arg j "old")) (← jS (← arg j "new"))))),
  -- posixpath.split / join
  ("path_split", fun j => do
      let r := pathSplit (← jS (← arg j "p"))
      pure (Json.arr #[ofS r.1, ofS r.2])),
  ("path_join", fun j => do pure (ofS (pathJoin (← jS (← arg j "a")) (← jS (← arg j "b"))))),
  -- src/file_utils.py merge_file_list: repaired tree / tree before fix_prefix_in_suffix
  ("merge_file_list", fun j => do
      let chrs ← jList jS (← arg j "chr_ids")
      match mergeFileList (← jS (← arg j "fname")) (← jS (← arg j "label")) chrs with
      | none => pure (jErr "ValueError")
      | some l => pure (ofList ofS l)),
  ("merge_file_list_orig", fun j => do
      let chrs ← jList jS (← arg j "chr_ids")
      match mergeFileListOrig (← jS (← arg j "fname")) (← jS (← arg j "label")) chrs with
      | none => pure (jErr "ValueError")
      | some l => pure (ofList ofS l)),
  -- the name a chromosome task writes (SampleData with the prefix <label>_<chr>)
  ("written_name", fun j => do
      pure (ofS (writtenName (← jS (← arg j "dir")) (← jS (← arg j "label")) (← jS (← arg j "suf")) (← jS (← arg j "chr"))))),
  -- auxiliary files of a run (text after <out_raw>_) and the start-up check of the repaired tree
  ("aux_names", fun j => do pure (ofList ofS (allAuxNames (← jList jS (← arg j "chr_ids"))))),
  ("aux_check", fun j => do pure (ofBool (auxCheck (← jList jS (← arg j "chr_ids")))))
]

end IsoVerif.Driver.C05N
