import IsoVerif.Driver.Core
import IsoVerif.Model.Schedule
import IsoVerif.Model.C06Inventory

namespace IsoVerif.Driver.C06
open Lean IsoVerif.Driver IsoVerif.Model.C06 IsoVerif.Model.C06Inv IsoVerif.Gen

def ofTok : Tok → Json
  | .str s => ofStr (String.ofList (s.map Char.ofNat))
  | .num n => ofNat n

def jEvent (j : Json) : Except String Event := jPair jNat jNat j

def ofOrd : Option Ordering → Json
  | none => jErr "TypeError"
  | some .lt => ofInt (-1)
  | some .eq => ofInt 0
  | some .gt => ofInt 1

def jStrList (j : Json) : Except String (List String) := jList jStr j

def ofWState (s : WState) : Json :=
  Json.mkObj [("assign", ofNat s.assignCtr), ("feat", ofNat s.featCtr), ("detected", ofList ofStr (sortStr s.detected)),
              ("dup", ofNat s.dupCtr)]

def jRead (j : Json) : Except String ReadRec := do
  pure { readId := ← jStr (← arg j "id"), payload := ← jNat (← arg j "p") }

def jBlock (j : Json) : Except String Block := do
  pure { nFeatures := ← jNat (← arg j "feat"), reads := ← jList jRead (← arg j "reads"),
         known := ← jStrList (← arg j "known"), nAssign2 := ← jNat (← arg j "assign2") }

def jChr (j : Json) : Except String Chr := do
  pure { name := ← jStr (← arg j "name"), blocks := ← jList jBlock (← arg j "blocks") }

def ofRead (r : ReadRec) : Json := Json.mkObj [("id", ofStr r.readId), ("p", ofNat r.payload)]
def ofChrOut (o : ChrOut) : Json := Json.mkObj [("reads", ofList ofRead o.reads), ("transcripts", ofList ofStr o.transcripts)]

/-- instrumented task: the output also carries the worker state before and after (same `runEvents`) -/
def spy {χ ω : Type} (f : WState → χ → ω × WState) : WState → χ → (ω × WState × WState) × WState :=
  fun st c => let r := f st c; ((r.1, st, r.2), r.2)

/-- the resolver stand-in of the driver: verdict from the payload (`p % 3 == 0` suspended, else kept with p+100) -/
def toyResolve (l : List (String × Nat)) : List (Option Nat) :=
  l.map (fun x => if x.2 % 3 == 0 then none else some (x.2 + 100))

/-- worker 0 of a `--threads 1` run is the parent itself: the second "pool" continues in the state the first left -/
def finalState (chrs : List Chr) (st : Nat → WState) (s : List Event) : Nat → WState :=
  (runEvents collectTask chrs st s).2

def ofSnap (x : Option (ω × WState × WState)) : Json :=
  match x with
  | none => Json.null
  | some (_, b, a) => Json.mkObj [("before", ofWState b), ("after", ofWState a)]

def jBRec (j : Json) : Except String BRec := do
  pure { readId := ← jStr (← arg j "id"), chr := ← jStr (← arg j "chr"), polyA := ← jBool (← arg j "polya"),
         suspended := ← jBool (← arg j "susp"), tag := ← jNat (← arg j "tag") }
def ofBRec (r : BRec) : Json :=
  Json.mkObj [("id", ofStr r.readId), ("chr", ofStr r.chr), ("polya", ofBool r.polyA), ("susp", ofBool r.suspended), ("tag", ofNat r.tag)]
/-- resolver stand-in on BRec lists: keeps the first record with the largest tag, suspends the others -/
def toyResolveB (l : List BRec) : List BRec :=
  let best := l.foldl (fun m r => if r.tag > m then r.tag else m) 0
  let rec go : List BRec → Bool → List BRec
    | [], _ => []
    | r :: rs, found =>
      if !found && r.tag == best then r :: go rs true else { r with suspended := true } :: go rs found
  go l false
def ofBook (x : List BRec × Nat × Nat) : Json :=
  Json.mkObj [("table", ofList ofBRec x.1), ("total", ofNat x.2.1), ("polya", ofNat x.2.2)]

def ops : List (String × Handler) := [
  ("natural_key", fun j => do pure (ofList ofTok (naturalKey (← jStr (← arg j "s"))))),
  ("cmp_key", fun j => do
      pure (ofOrd (cmpKey (naturalKey (← jStr (← arg j "a"))) (naturalKey (← jStr (← arg j "b")))))),
  ("merge_order", fun j => do pure (ofList ofStr (mergeOrder (← jStrList (← arg j "names"))))),
  ("merge_files", fun j => do
      let names ← jStrList (← arg j "names")
      let contents ← jList (jOpt jStrList) (← arg j "files")
      let fs : String → Option (List String) := fun n => ((names.zip contents).lookup n).join
      pure (ofList ofStr (mergeFiles fs names (← jBool (← arg j "copy_header")) (← jNat (← arg j "header_lines"))))),
  ("merge_files_orig", fun j => do
      let names ← jStrList (← arg j "names")
      let contents ← jList (jOpt jStrList) (← arg j "files")
      let fs : String → Option (List String) := fun n => ((names.zip contents).lookup n).join
      pure (ofList ofStr (mergeFilesOrig fs names (← jBool (← arg j "copy_header"))))),
  ("part_name", fun j => do
      pure (ofStr (partName (← jStr (← arg j "pre")) (← jStr (← arg j "label")) (← jStr (← arg j "suf")) (← jStr (← arg j "chr"))))),
  -- the two pools of one sample under given schedules; per task the worker state before / after
  ("trace", fun j => do
      let chrs ← jList jChr (← arg j "chrs")
      let s1 ← jList jEvent (← arg j "s1")
      let s2 ← jList jEvent (← arg j "s2")
      let threads1 ← jBool (← arg j "threads1")
      let init : Nat → WState := fun _ => {}
      let r1 := poolMap (spy collectTask) chrs init s1
      match (poolMap collectTask chrs init s1).mapM id with
      | none => pure (jErr "schedule")
      | some saves =>
        let st2 : Nat → WState := if threads1 then finalState chrs init s1 else init
        let t2 := tasks2 toyResolve chrs saves
        let r2 := poolMap (spy constructTask) t2 st2 s2
        let outs := (poolMap constructTask t2 st2 s2).map (fun o => ofOpt ofChrOut o)
        pure (Json.mkObj [("phase1", ofList ofSnap r1), ("phase2", ofList ofSnap r2), ("outputs", Json.arr outs.toArray),
                          ("valid1", ofBool (decide (ValidSchedule chrs.length s1))),
                          ("valid2", ofBool (decide (ValidSchedule chrs.length s2)))])),
  ("loader_match", fun j => do
      let chr ← jStr (← arg j "chr")
      let mm ← jList (fun x => do
          pure ({ readId := ← jStr (← arg x "id"), chr := ← jStr (← arg x "chr"), aid := ← jNat (← arg x "aid"),
                  verdict := ← jOpt jNat (← arg x "v") } : MMRec)) (← arg j "mm")
      let ids ← jList (fun x => do pure ((← jNat (← arg x "aid")), (← jRead x))) (← arg j "reads")
      pure (ofList ofRead (loadBlock chr mm ids))),
  ("gene_ids_column", fun j => do pure (ofStr (geneIdsColumn (← jStrList (← arg j "iter"))))),
  ("isoforms_key", fun j => do pure (ofList ofStr (isoformsKey (← jStrList (← arg j "iter"))))),
  ("reference_gene", fun j => do
      let iter ← jList jStrList (← arg j "introns")
      let minus ← jStrList (← arg j "minus")
      let strand ← jStr (← arg j "strand")
      let ok : String → Bool := fun g => strand == "." || (if minus.contains g then "-" else "+") == strand
      pure (ofOpt ofStr (selectReferenceGene iter ok))),
  ("group_numbering", fun j => do
      let it ← jStrList (← arg j "iter")
      pure (ofList (fun (p : String × Nat) => Json.arr #[ofStr p.1, ofNat p.2]) (groupNumbering it))),
  ("groups_header", fun j => do
      let per ← jList jStrList (← arg j "per_chr")
      let rev ← jBool (← arg j "reverse2")
      pure (ofList ofStr (groupsHeader per (fun l => if rev then l.reverse else l)))),
  ("bookkeeping", fun j => do
      let recs ← jList jBRec (← arg j "recs")
      pure (Json.mkObj [("high", ofBook (bookkeepingHigh toyResolveB recs)), ("low", ofBook (bookkeepingLow toyResolveB recs))])),
  ("inventory", fun _ => do
      pure (Json.mkObj [
        ("shared_state", ofList ofStr shared_state_inventory),
        ("unreachable", ofList ofStr shared_state_unreachable),
        ("unhandled_state", ofList ofStr (unhandled shared_state_inventory (handled_state.map Prod.fst))),
        ("unhandled_args", ofList ofStr (unhandled args_fields_mutated handled_args_fields)),
        ("set_sites", ofNat set_iteration_sites.length),
        ("unhandled_set_sites", ofList ofStr (unhandled set_iteration_sites (handled_set_sites.map Prod.fst))),
        ("unhandled_nondet", ofList ofStr (unhandled nondeterminism_calls handled_nondeterminism)),
        ("unhandled_aid_readers", ofList ofStr (unhandled assignment_id_readers handled_assignment_id_readers)),
        ("unhandled_feature_readers", ofList ofStr (unhandled feature_info_readers handled_feature_info_readers))]))
]

end IsoVerif.Driver.C06
