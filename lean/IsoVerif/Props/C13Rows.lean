/-
C13 — exon / intron inclusion and exclusion counts equal a recount from the alignments.
Part 3: row identity (src/gene_info.py GeneInfo.set_feature_properties / FeatureInfo) and the feed of
src/alignment_processor.py process_genic put together with the counters: chromosome, coordinates, strand and gene
list of each row match the annotation; the counters never raise on that feed; the table entries are numbers of reads.
-/
import IsoVerif.Model.FeatureCounts
import IsoVerif.Lemmas.C13Counts
import IsoVerif.Lemmas.C13Features
import IsoVerif.Lemmas.C13ProfileComplete
import IsoVerif.Props.C13

namespace IsoVerif.Props.C13Rows
open IsoVerif.Gen IsoVerif.Model IsoVerif.Model.C13 IsoVerif.Lemmas.C13

/-! ### set_feature_properties: what a row says about its feature -/

/-- the `i`-th FeatureInfo describes the `i`-th feature of the GeneInfo: chromosome and coordinates verbatim; a gene id
    is listed iff an isoform of that gene has the feature; the strand string is the concatenation of the sorted
    distinct strands of the isoforms that have the feature -/
theorem feature_row_spec (chr : String) (δ : Int) (features : List Iv) (isoforms : List IsoformFeatures) (n : Nat)
    (i : Nat) (f : Iv) (hf : features[i]? = some f) :
    ∃ fi, (setFeatureProperties chr δ features isoforms n)[i]? = some fi ∧
      fi.chr = chr ∧ fi.start = f.1 ∧ fi.stop = f.2 ∧
      (∀ g, g ∈ fi.genes ↔ ∃ t ∈ isoforms, t.gene = g ∧ f ∈ t.feats) ∧
      (∃ strands : List String, fi.strand = concatStrs (sortStrs strands) ∧
        ∀ s, s ∈ strands ↔ ∃ t ∈ isoforms, t.strand = s ∧ f ∈ t.feats) := by
  obtain ⟨fi, h1, _, h3, h4, h5, h6, h7⟩ := setFeatureProperties_get chr δ features isoforms n i f hf
  refine ⟨fi, h1, h3, h4, h5, ?_, ⟨_, h7, ?_⟩⟩
  · intro g
    rw [h6, List.mem_eraseDups, List.mem_map]
    constructor
    · rintro ⟨⟨s, g', b⟩, he, hg⟩
      simp only at hg; subst hg
      obtain ⟨t, ht, _, hg, hft⟩ := (mem_featureEntries isoforms f s g').mp ⟨b, he⟩
      exact ⟨t, ht, hg, hft⟩
    · rintro ⟨t, ht, hg, hft⟩
      obtain ⟨b, hb⟩ := (mem_featureEntries isoforms f t.strand g).mpr ⟨t, ht, rfl, hg, hft⟩
      exact ⟨(t.strand, g, b), hb, rfl⟩
  · intro s
    rw [List.mem_eraseDups, List.mem_map]
    constructor
    · rintro ⟨⟨s', g', b⟩, he, hs⟩
      simp only at hs; subst hs
      obtain ⟨t, ht, hs, _, hft⟩ := (mem_featureEntries isoforms f s' g').mp ⟨b, he⟩
      exact ⟨t, ht, hs, hft⟩
    · rintro ⟨t, ht, hs, hft⟩
      obtain ⟨b, hb⟩ := (mem_featureEntries isoforms f s t.gene).mpr ⟨t, ht, hs, rfl, hft⟩
      exact ⟨(s, t.gene, b), hb, rfl⟩

/-- one FeatureInfo per feature, and (the features of a GeneInfo being distinct) no two of them share a row key -/
theorem feature_keys_nodup (chr : String) (δ : Int) (features : List Iv) (isoforms : List IsoformFeatures) (n : Nat)
    (h : features.Nodup) :
    (setFeatureProperties chr δ features isoforms n).length = features.length ∧
    ((setFeatureProperties chr δ features isoforms n).map coordKey).Nodup :=
  ⟨setFeatureProperties_length chr δ features isoforms n, setFeatureProperties_keys_nodup chr δ features isoforms n h⟩

example : (setFeatureProperties "chr1" 2 [(10, 20), (12, 20), (30, 40)]
      [⟨"t1", "+", "g1", [(10, 20), (30, 40)]⟩, ⟨"t2", "-", "g2", [(12, 20), (30, 40)]⟩] 0).map (·.toStr) =
    ["chr1\t10\t20\t+\tXSU\tg1", "chr1\t12\t20\t-\tXSCU\tg2", "chr1\t30\t40\t+-\tXM\tg1,g2"] := by decide

/-! ### the feed of process_genic into the counters -/

/-- a GeneInfo as the counting sees it, with its property maps produced by `set_feature_properties` from distinct
    feature lists (GeneInfo keeps them as sorted lists of a set) -/
structure GeneOK (g : GeneModel) : Prop where
  exons_nodup : g.exons.Nodup
  introns_nodup : g.introns.Nodup
  exon_map : ∃ isoforms n, g.exonMap = setFeatureProperties g.chr g.delta g.exons isoforms n
  intron_map : ∃ isoforms n, g.intronMap = setFeatureProperties g.chr g.delta g.introns isoforms n

/-- the events of a history are exon events of well-formed gene models -/
def ExonFeed (evs : List ReadEv) : Prop := ∀ ev ∈ evs, ∃ g r, GeneOK g ∧ exonEvent g r = some ev
def IntronFeed (absδ : Int) (evs : List ReadEv) : Prop := ∀ ev ∈ evs, ∃ g r, GeneOK g ∧ intronEvent g absδ r = some ev

theorem exonEvent_shape (g : GeneModel) (r : ReadAln) (ev : ReadEv) (hg : GeneOK g) (h : exonEvent g r = some ev) :
    ev.profile.length = ev.pmap.length ∧ (ev.pmap.map coordKey).Nodup ∧ ev.group = r.group := by
  unfold exonEvent at h
  cases hp : constructExonProfile g.exons g.region g.delta r.blocks r.polya r.polyt with
  | none => rw [hp] at h; simp at h
  | some p =>
    rw [hp] at h; simp at h; subst h
    obtain ⟨isoforms, n, hm⟩ := hg.exon_map
    have hlen : p.gene.length = g.exons.length := by
      unfold constructExonProfile at hp
      split at hp
      · simp at hp; subst hp; exact constructOverlapping_gene_length _ _ _ _ _ _ _ _ _
      · simp at hp
    refine ⟨?_, ?_, rfl⟩
    · simp only; rw [hlen, hm, setFeatureProperties_length]
    · simp only; rw [hm]; exact setFeatureProperties_keys_nodup _ _ _ _ _ hg.exons_nodup

theorem intronEvent_shape (g : GeneModel) (a : Int) (r : ReadAln) (ev : ReadEv) (hg : GeneOK g) (h : intronEvent g a r = some ev) :
    ev.profile.length = ev.pmap.length ∧ (ev.pmap.map coordKey).Nodup ∧ ev.group = r.group := by
  unfold intronEvent at h
  cases hp : constructIntronProfile g.introns g.region g.delta a r.blocks r.polya r.polyt with
  | none => rw [hp] at h; simp at h
  | some p =>
    rw [hp] at h; simp at h; subst h
    obtain ⟨isoforms, n, hm⟩ := hg.intron_map
    have hlen : p.gene.length = g.introns.length := by
      unfold constructIntronProfile at hp
      split at hp
      · simp at hp; subst hp; exact constructOverlapping_gene_length _ _ _ _ _ _ _ _ _
      · simp at hp
    refine ⟨?_, ?_, rfl⟩
    · simp only; rw [hlen, hm, setFeatureProperties_length]
    · simp only; rw [hm]; exact setFeatureProperties_keys_nodup _ _ _ _ _ hg.introns_nodup

/-- the exon counters never raise on the feed of process_genic, and every table entry is a NUMBER OF READS: the
    include (exclude) count of an annotated exon in a group is the number of processed reads of that group whose
    exon profile is +1 (−1) at that exon -/
theorem exon_table_counts (ignore : Bool) (dflt : String) (evs : List ReadEv) (hfeed : ExonFeed evs) :
    ∃ st, countAll coordKey ignore dflt evs = some st ∧
      ∀ (k : CoordKey) (grp : String),
        st.inclOf k grp = (evs.filter (fun ev => groupOf ignore dflt ev == grp)).countP (marks coordKey 1 k) ∧
        st.exclOf k grp = (evs.filter (fun ev => groupOf ignore dflt ev == grp)).countP (marks coordKey (-1) k) := by
  have hshape : ∀ ev ∈ evs, ev.profile.length ≤ ev.pmap.length ∧ (ev.pmap.map coordKey).Nodup := by
    intro ev hev
    obtain ⟨g, r, hg, he⟩ := hfeed ev hev
    have := exonEvent_shape g r ev hg he
    exact ⟨by omega, this.2.1⟩
  have hsome := runCounter_isSome coordKey ignore dflt evs (PCounter.init ignore dflt) (fun ev hev => (hshape ev hev).1)
  cases hc : countAll coordKey ignore dflt evs with
  | none => unfold countAll at hc; rw [hc] at hsome; simp at hsome
  | some st =>
    refine ⟨st, rfl, ?_⟩
    intro k grp
    exact ⟨C13.include_counts_reads coordKey ignore dflt evs st hc (fun ev hev => (hshape ev hev).2) k grp,
           C13.exclude_counts_reads coordKey ignore dflt evs st hc (fun ev hev => (hshape ev hev).2) k grp⟩

theorem intron_table_counts (ignore : Bool) (dflt : String) (absδ : Int) (evs : List ReadEv) (hfeed : IntronFeed absδ evs) :
    ∃ st, countAll coordKey ignore dflt evs = some st ∧
      ∀ (k : CoordKey) (grp : String),
        st.inclOf k grp = (evs.filter (fun ev => groupOf ignore dflt ev == grp)).countP (marks coordKey 1 k) ∧
        st.exclOf k grp = (evs.filter (fun ev => groupOf ignore dflt ev == grp)).countP (marks coordKey (-1) k) := by
  have hshape : ∀ ev ∈ evs, ev.profile.length ≤ ev.pmap.length ∧ (ev.pmap.map coordKey).Nodup := by
    intro ev hev
    obtain ⟨g, r, hg, he⟩ := hfeed ev hev
    have := intronEvent_shape g absδ r ev hg he
    exact ⟨by omega, this.2.1⟩
  have hsome := runCounter_isSome coordKey ignore dflt evs (PCounter.init ignore dflt) (fun ev hev => (hshape ev hev).1)
  cases hc : countAll coordKey ignore dflt evs with
  | none => unfold countAll at hc; rw [hc] at hsome; simp at hsome
  | some st =>
    refine ⟨st, rfl, ?_⟩
    intro k grp
    exact ⟨C13.include_counts_reads coordKey ignore dflt evs st hc (fun ev hev => (hshape ev hev).2) k grp,
           C13.exclude_counts_reads coordKey ignore dflt evs st hc (fun ev hev => (hshape ev hev).2) k grp⟩

/-- the error branch exists and is modelled: a profile with a ±1 beyond the end of the property map makes the real
    code raise IndexError, the model return `none` -/
theorem counter_error_witness :
    countAll coordKey true "NA" [{ profile := [0, 1], pmap := [C13.exFi 1 10 20], group := "A" }] = none ∧
    (countAll coordKey true "NA" [{ profile := [1, 0], pmap := [C13.exFi 1 10 20], group := "A" }]).isSome = true := by
  constructor <;> decide

-- non-vacuity of the feed hypotheses: a gene model built the way the driver builds it
example : GeneOK (mkGene "chr1" 4 0 { region := (100, 600), isoforms := [⟨"t1", "+", "g1", [(100, 200), (300, 400), (500, 600)]⟩] }).1 := by
  refine ⟨by decide, by decide, ⟨_, _, rfl⟩, ⟨_, _, rfl⟩⟩

/-! ### the delta of a run -/

/-- for every matching strategy of the regenerated preset table an explicit non-negative `--delta` is the delta the
    run uses — 0 included (exact comparison); without one it is the preset -/
theorem explicit_delta_respected (s : String) (hs : s ∈ matching_presets.map (·.1)) (d : Int) (hd : 0 ≤ d) :
    effectiveDelta s (some d) = some d ∧ ∃ p, (s, p) ∈ matching_presets ∧ effectiveDelta s none = some p.delta := by
  unfold effectiveDelta
  cases hl : matching_presets.lookup s with
  | none => exact absurd hs ((lookup_none_iff matching_presets s).mp hl)
  | some p =>
    have : ¬ d < 0 := by omega
    exact ⟨by simp [this], p, lookup_some_mem _ _ _ hl, rfl⟩

example : effectiveDelta "default" (some 0) = some 0 ∧ effectiveDelta "default" none = some 6 ∧
    effectiveDelta "precise" (some 0) = some 0 ∧ effectiveDelta "loose" (some (-1)) = none := by decide

end IsoVerif.Props.C13Rows
