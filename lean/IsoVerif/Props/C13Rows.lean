/-
C13 — exon / intron inclusion and exclusion counts equal a recount from the alignments.
Part 3: row identity (src/gene_info.py GeneInfo.set_feature_properties / FeatureInfo) and the feed of
src/alignment_processor.py process_genic put together with the counters: chromosome, coordinates, strand and gene
list of each row match the annotation; the counters never raise on that feed; the table entries are numbers of reads.
-/
import IsoVerif.Model.FeatureCounts
import IsoVerif.Lemmas.C13Counts
import IsoVerif.Lemmas.C13Features
import IsoVerif.Lemmas.C13Merge
import IsoVerif.Lemmas.C13ProfileComplete
import IsoVerif.Props.C13

namespace IsoVerif.Props.C13Rows
open IsoVerif.Gen IsoVerif.Model IsoVerif.Model.C13 IsoVerif.Lemmas.C13

/-! ### set_feature_properties: what a row says about its feature -/

/-- the `i`-th FeatureInfo describes the `i`-th feature of the GeneInfo: chromosome and coordinates verbatim; a gene id
    is listed iff an isoform of that gene has the feature; the strand string is the concatenation of the sorted
    distinct strands (`sorted(set(..))`) of the isoforms that have the feature -/
theorem feature_row_spec (chr : String) (δ : Int) (features : List Iv) (isoforms : List IsoformFeatures) (n : Nat)
    (i : Nat) (f : Iv) (hf : features[i]? = some f) :
    ∃ fi, (setFeatureProperties chr δ features isoforms n)[i]? = some fi ∧
      fi.chr = chr ∧ fi.start = f.1 ∧ fi.stop = f.2 ∧
      (∀ g, g ∈ fi.genes ↔ ∃ t ∈ isoforms, t.gene = g ∧ f ∈ t.feats) ∧
      (∃ strands : List String, fi.strand = concatStrs (sortSD strLt strands) ∧
        ∀ s, s ∈ strands ↔ ∃ t ∈ isoforms, t.strand = s ∧ f ∈ t.feats) := by
  obtain ⟨fi, h1, _, h3, h4, h5, h6, h7⟩ := setFeatureProperties_get chr δ features isoforms n i f hf
  refine ⟨fi, h1, h3, h4, h5, ?_, ⟨_, h7, ?_⟩⟩
  · intro g
    rw [h6, mem_sortSD, List.mem_map]
    constructor
    · rintro ⟨⟨s, g', b⟩, he, hg⟩
      simp only at hg; subst hg
      obtain ⟨t, ht, _, hg, hft⟩ := (mem_featureEntries isoforms f s g').mp ⟨b, he⟩
      exact ⟨t, ht, hg, hft⟩
    · rintro ⟨t, ht, hg, hft⟩
      obtain ⟨b, hb⟩ := (mem_featureEntries isoforms f t.strand g).mpr ⟨t, ht, rfl, hg, hft⟩
      exact ⟨(t.strand, g, b), hb, rfl⟩
  · intro s
    rw [List.mem_map]
    constructor
    · rintro ⟨⟨s', g', b⟩, he, hs⟩
      simp only at hs; subst hs
      obtain ⟨t, ht, hs, _, hft⟩ := (mem_featureEntries isoforms f s' g').mp ⟨b, he⟩
      exact ⟨t, ht, hs, hft⟩
    · rintro ⟨t, ht, hs, hft⟩
      obtain ⟨b, hb⟩ := (mem_featureEntries isoforms f s t.gene).mpr ⟨t, ht, hs, rfl, hft⟩
      exact ⟨(s, t.gene, b), hb, rfl⟩

/-- one FeatureInfo per feature, and (the features of a GeneInfo being distinct) no two of them share a row key -/
theorem feature_keys_nodup (chr : String) (δ : Int) (features : List Iv) (isoforms : List IsoformFeatures) (n : Nat)
    (h : features.Nodup) :
    (setFeatureProperties chr δ features isoforms n).length = features.length ∧
    ((setFeatureProperties chr δ features isoforms n).map coordKey).Nodup :=
  ⟨setFeatureProperties_length chr δ features isoforms n, setFeatureProperties_keys_nodup chr δ features isoforms n h⟩

example : (setFeatureProperties "chr1" 2 [(10, 20), (12, 20), (30, 40)]
      [⟨"t1", "+", "g1", [(10, 20), (30, 40)]⟩, ⟨"t2", "-", "g2", [(12, 20), (30, 40)]⟩] 0).map (·.toStr) =
    ["chr1\t10\t20\t+\tXSU\tg1", "chr1\t12\t20\t-\tXSCU\tg2", "chr1\t30\t40\t+-\tXM\tg1,g2"] := by decide

/-! ### the feed of process_genic into the counters -/

/-- a GeneInfo as the counting sees it, with its property maps produced by `set_feature_properties` from distinct
    feature lists (GeneInfo keeps them as sorted lists of a set) -/
structure GeneOK (g : GeneModel) : Prop where
  exons_nodup : g.exons.Nodup
  introns_nodup : g.introns.Nodup
  exon_map : ∃ isoforms n, g.exonMap = setFeatureProperties g.chr g.delta g.exons isoforms n
  intron_map : ∃ isoforms n, g.intronMap = setFeatureProperties g.chr g.delta g.introns isoforms n

/-- the events of a history are exon events of well-formed gene models -/
def ExonFeed (evs : List ReadEv) : Prop := ∀ ev ∈ evs, ∃ g r, GeneOK g ∧ exonEvent g r = some ev
def IntronFeed (absδ : Int) (evs : List ReadEv) : Prop := ∀ ev ∈ evs, ∃ g r, GeneOK g ∧ intronEvent g absδ r = some ev

theorem exonEvent_shape (g : GeneModel) (r : ReadAln) (ev : ReadEv) (hg : GeneOK g) (h : exonEvent g r = some ev) :
    ev.profile.length = ev.pmap.length ∧ (ev.pmap.map coordKey).Nodup ∧ ev.group = r.group := by
  unfold exonEvent at h
  cases hp : constructExonProfile g.exons g.region g.delta r.blocks r.polya r.polyt with
  | none => rw [hp] at h; simp at h
  | some p =>
    rw [hp] at h; simp at h; subst h
    obtain ⟨isoforms, n, hm⟩ := hg.exon_map
    have hlen : p.gene.length = g.exons.length := by
      unfold constructExonProfile at hp
      split at hp
      · simp at hp; subst hp; exact constructOverlapping_gene_length _ _ _ _ _ _ _ _ _
      · simp at hp
    refine ⟨?_, ?_, rfl⟩
    · simp only; rw [hlen, hm, setFeatureProperties_length]
    · simp only; rw [hm]; exact setFeatureProperties_keys_nodup _ _ _ _ _ hg.exons_nodup

theorem intronEvent_shape (g : GeneModel) (a : Int) (r : ReadAln) (ev : ReadEv) (hg : GeneOK g) (h : intronEvent g a r = some ev) :
    ev.profile.length = ev.pmap.length ∧ (ev.pmap.map coordKey).Nodup ∧ ev.group = r.group := by
  unfold intronEvent at h
  cases hp : constructIntronProfile g.introns g.region g.delta a r.blocks r.polya r.polyt with
  | none => rw [hp] at h; simp at h
  | some p =>
    rw [hp] at h; simp at h; subst h
    obtain ⟨isoforms, n, hm⟩ := hg.intron_map
    have hlen : p.gene.length = g.introns.length := by
      unfold constructIntronProfile at hp
      split at hp
      · simp at hp; subst hp; exact constructOverlapping_gene_length _ _ _ _ _ _ _ _ _
      · simp at hp
    refine ⟨?_, ?_, rfl⟩
    · simp only; rw [hlen, hm, setFeatureProperties_length]
    · simp only; rw [hm]; exact setFeatureProperties_keys_nodup _ _ _ _ _ hg.introns_nodup

/-- the exon counters never raise on the feed of process_genic, and every table entry is a NUMBER OF READS: the
    include (exclude) count of an annotated exon in a group is the number of processed reads of that group whose
    exon profile is +1 (−1) at that exon -/
theorem exon_table_counts (ignore : Bool) (dflt : String) (evs : List ReadEv) (hfeed : ExonFeed evs) :
    ∃ st, countAll coordKey FeatureInfo.merge ignore dflt evs = some st ∧
      ∀ (k : CoordKey) (grp : String),
        st.inclOf k grp = (evs.filter (fun ev => groupOf ignore dflt ev == grp)).countP (marks coordKey 1 k) ∧
        st.exclOf k grp = (evs.filter (fun ev => groupOf ignore dflt ev == grp)).countP (marks coordKey (-1) k) := by
  have hshape : ∀ ev ∈ evs, ev.profile.length ≤ ev.pmap.length ∧ (ev.pmap.map coordKey).Nodup := by
    intro ev hev
    obtain ⟨g, r, hg, he⟩ := hfeed ev hev
    have := exonEvent_shape g r ev hg he
    exact ⟨by omega, this.2.1⟩
  have hsome := runCounter_isSome (upd := FeatureInfo.merge) coordKey ignore dflt evs (PCounter.init ignore dflt) (fun ev hev => (hshape ev hev).1)
  cases hc : countAll coordKey FeatureInfo.merge ignore dflt evs with
  | none => unfold countAll at hc; rw [hc] at hsome; simp at hsome
  | some st =>
    refine ⟨st, rfl, ?_⟩
    intro k grp
    exact ⟨C13.include_counts_reads coordKey C13.hupd_merge ignore dflt evs st hc (fun ev hev => (hshape ev hev).2) k grp,
           C13.exclude_counts_reads coordKey C13.hupd_merge ignore dflt evs st hc (fun ev hev => (hshape ev hev).2) k grp⟩

theorem intron_table_counts (ignore : Bool) (dflt : String) (absδ : Int) (evs : List ReadEv) (hfeed : IntronFeed absδ evs) :
    ∃ st, countAll coordKey FeatureInfo.merge ignore dflt evs = some st ∧
      ∀ (k : CoordKey) (grp : String),
        st.inclOf k grp = (evs.filter (fun ev => groupOf ignore dflt ev == grp)).countP (marks coordKey 1 k) ∧
        st.exclOf k grp = (evs.filter (fun ev => groupOf ignore dflt ev == grp)).countP (marks coordKey (-1) k) := by
  have hshape : ∀ ev ∈ evs, ev.profile.length ≤ ev.pmap.length ∧ (ev.pmap.map coordKey).Nodup := by
    intro ev hev
    obtain ⟨g, r, hg, he⟩ := hfeed ev hev
    have := intronEvent_shape g absδ r ev hg he
    exact ⟨by omega, this.2.1⟩
  have hsome := runCounter_isSome (upd := FeatureInfo.merge) coordKey ignore dflt evs (PCounter.init ignore dflt) (fun ev hev => (hshape ev hev).1)
  cases hc : countAll coordKey FeatureInfo.merge ignore dflt evs with
  | none => unfold countAll at hc; rw [hc] at hsome; simp at hsome
  | some st =>
    refine ⟨st, rfl, ?_⟩
    intro k grp
    exact ⟨C13.include_counts_reads coordKey C13.hupd_merge ignore dflt evs st hc (fun ev hev => (hshape ev hev).2) k grp,
           C13.exclude_counts_reads coordKey C13.hupd_merge ignore dflt evs st hc (fun ev hev => (hshape ev hev).2) k grp⟩

/-- the error branch exists and is modelled: a profile with a ±1 beyond the end of the property map makes the real
    code raise IndexError, the model return `none` -/
theorem counter_error_witness :
    countAll coordKey FeatureInfo.merge true "NA" [{ profile := [0, 1], pmap := [C13.exFi 1 10 20], group := "A" }] = none ∧
    (countAll coordKey FeatureInfo.merge true "NA" [{ profile := [1, 0], pmap := [C13.exFi 1 10 20], group := "A" }]).isSome = true := by
  constructor <;> decide

-- non-vacuity of the feed hypotheses: a gene model built the way the driver builds it
example : GeneOK (mkGene "chr1" 4 0 { region := (100, 600), isoforms := [⟨"t1", "+", "g1", [(100, 200), (300, 400), (500, 600)]⟩] }).1 := by
  refine ⟨by decide, by decide, ⟨_, _, rfl⟩, ⟨_, _, rfl⟩⟩

/-! ### rows after a region split: the label merge (candidate repair of finding G1) -/

/-- MERGE IS COMMUTATIVE: the merged strand string, flags and gene list do not depend on which description came first -/
theorem merge_comm (a b : Label) : mergeLabel a b = mergeLabel b a := mergeLabel_comm a b

/-- MERGE IS ASSOCIATIVE -/
theorem merge_assoc (a b c : Label) : mergeLabel (mergeLabel a b) c = mergeLabel a (mergeLabel b c) := mergeLabel_assoc a b c

/-- MERGE IS IDEMPOTENT on descriptions in normal form (gene list and strand characters strictly increasing, flags =
    base letter, S, C, then M exactly for more than one gene, else U or nothing) -/
theorem merge_idem (a : Label) (h : LNormal a) : mergeLabel a a = a := mergeLabel_idem a h

/-- every merged description is in normal form, so merging is idempotent on everything it produces -/
theorem merge_normal_closed (a b : Label) :
    LNormal (mergeLabel a b) ∧ mergeLabel (mergeLabel a b) (mergeLabel a b) = mergeLabel a b :=
  ⟨mergeLabel_normal a b, mergeLabel_idem_merged a b⟩

/-- `FeatureInfo.merge` (with its short cut "equal descriptions: keep self") is the label merge on normal forms, keeps the
    coordinates and yields a normal form -/
theorem merge_info_spec (a b : FeatureInfo) (ha : FNormal a) :
    (a.merge b).label = mergeLabel a.label b.label ∧ coordKey (a.merge b) = coordKey a ∧ FNormal (a.merge b) :=
  ⟨merge_label a b ha, merge_coordKey a b, merge_normal a b ha⟩

-- non-vacuity: the two descriptions of exon 50001-50200 of the G1 input (gene gA alone / gA and gB loaded together)
def labA : Label := { strand := "+", ftype := "XU", genes := ["gA"] }
def labAB : Label := { strand := "+-", ftype := "XM", genes := ["gA", "gB"] }
example : LNormal labA ∧ LNormal labAB ∧ mergeLabel labA labAB = labAB ∧ mergeLabel labAB labA = labAB ∧
    mergeLabel labA { strand := "-", ftype := "ISU", genes := ["g0"] } = { strand := "+-", ftype := "TSM", genes := ["g0", "gA"] } := by
  refine ⟨⟨by unfold Incr; decide, by unfold Incr; decide, by decide⟩, ⟨by unfold Incr; decide, by unfold Incr; decide, by decide⟩,
    by decide, by decide, by decide⟩

/-- ROW LABEL = UNION (code after the repair): for every row of the dumped table, let `S` be the descriptions counted for
    its coordinates (FeatureInfos of the property maps of processed reads at +1 / −1 positions, from whatever gene infos,
    in whatever order).  `S` is not empty, all of `S` have the row's coordinates, a gene is listed in the row iff it is
    listed in a member of `S`, a strand character occurs in the row iff it occurs in a member of `S`; and when the
    members of `S` have sorted gene lists and strand strings (as `set_feature_properties` produces) the row's gene list IS
    the sorted union of their gene lists and its strand string the sorted union of their strand characters -/
theorem row_label_is_union (ignore : Bool) (dflt : String) (evs : List ReadEv) (st : PCounter CoordKey)
    (h : countAll coordKey FeatureInfo.merge ignore dflt evs = some st) (r : CountRow) (hr : r ∈ dumpRows st) :
    let S := (touched evs).filter (fun x => coordKey x == coordKey r.fi)
    S ≠ [] ∧
    (∀ g, g ∈ r.fi.genes ↔ ∃ x ∈ S, g ∈ x.genes) ∧
    (∀ c, c ∈ r.fi.strand.toList ↔ ∃ x ∈ S, c ∈ x.strand.toList) ∧
    ((∀ x ∈ S, Incr strLt x.genes) → r.fi.genes = sortSD strLt (S.flatMap (·.genes))) ∧
    ((∀ x ∈ S, Incr charLt x.strand.toList) → r.fi.strand = String.ofList (sortSD charLt (S.flatMap (·.strand.toList)))) := by
  intro S
  obtain ⟨f, rest, hf, hfi⟩ := C13.row_description coordKey C13.hupd_merge ignore dflt evs st h r hr
  have hS : S = f :: rest := hf
  have hg : ∀ g, g ∈ r.fi.genes ↔ ∃ x ∈ S, g ∈ x.genes := by
    intro g; rw [hfi, hS]; exact mem_foldl_merge_genes f rest g
  have hc : ∀ c, c ∈ r.fi.strand.toList ↔ ∃ x ∈ S, c ∈ x.strand.toList := by
    intro c; rw [hfi, hS]; exact mem_foldl_merge_strand f rest c
  refine ⟨by rw [hS]; simp, hg, hc, ?_, ?_⟩
  · intro hn
    have hf0 := hn f (by rw [hS]; exact List.mem_cons_self ..)
    have i1 : Incr strLt r.fi.genes := by
      rw [hfi]; clear hfi hg hc hn hf hS
      induction rest generalizing f with
      | nil => exact hf0
      | cons x xs ih => rw [List.foldl_cons]; exact ih _ (merge_genes_incr f x hf0)
    apply incr_ext strLt_lin _ _ i1 (sortSD_incr strLt_lin _)
    intro g; rw [hg g, mem_sortSD]; simp [List.mem_flatMap]
  · intro hn
    have hf0 := hn f (by rw [hS]; exact List.mem_cons_self ..)
    have i2 : Incr charLt r.fi.strand.toList := by
      rw [hfi]; clear hfi hg hc hn hf hS
      induction rest generalizing f with
      | nil => exact hf0
      | cons x xs ih => rw [List.foldl_cons]; exact ih _ (merge_strand_incr f x hf0)
    have : r.fi.strand.toList = sortSD charLt (S.flatMap (·.strand.toList)) := by
      apply incr_ext charLt_lin _ _ i2 (sortSD_incr charLt_lin _)
      intro c; rw [hc c, mem_sortSD]; simp [List.mem_flatMap]
    rw [← this, String.ofList_toList]

/-- on the feed of `process_genic` (property maps produced by `set_feature_properties`) the gene list of every row of the
    repaired exon / intron table IS the sorted union of the gene lists of the descriptions counted for its coordinates -
    no hypothesis on the descriptions left -/
theorem feed_row_genes_union (ignore : Bool) (dflt : String) (evs : List ReadEv) (st : PCounter CoordKey)
    (hfeed : ∀ ev ∈ evs, ∃ chr δ features isoforms n, ev.pmap = setFeatureProperties chr δ features isoforms n)
    (h : countAll coordKey FeatureInfo.merge ignore dflt evs = some st) (r : CountRow) (hr : r ∈ dumpRows st) :
    r.fi.genes = sortSD strLt (((touched evs).filter (fun x => coordKey x == coordKey r.fi)).flatMap (·.genes)) := by
  apply (row_label_is_union ignore dflt evs st h r hr).2.2.2.1
  intro x hx
  obtain ⟨ev, hev, p, hp, _, hpx⟩ := (mem_touched evs x).mp (List.mem_filter.mp hx).1
  obtain ⟨chr, δ, features, isoforms, n, hm⟩ := hfeed ev hev
  have hxm : x ∈ ev.pmap := by rw [← hpx]; exact (List.of_mem_zip hp).2
  rw [hm] at hxm
  unfold setFeatureProperties at hxm
  obtain ⟨y, _, hy⟩ := List.mem_map.mp hxm
  rw [← hy]
  exact sortSD_incr strLt_lin _

/-- the same for the strand string, for annotations over the GTF strands `+`, `-`, `.`: the strand string of every row IS the
    sorted union of the strand characters of the descriptions counted for its coordinates -/
theorem feed_row_strand_union (ignore : Bool) (dflt : String) (evs : List ReadEv) (st : PCounter CoordKey)
    (hfeed : ∀ ev ∈ evs, ∃ chr δ features isoforms n, ev.pmap = setFeatureProperties chr δ features isoforms n ∧
      ∀ t ∈ isoforms, t.strand ∈ ["+", "-", "."])
    (h : countAll coordKey FeatureInfo.merge ignore dflt evs = some st) (r : CountRow) (hr : r ∈ dumpRows st) :
    r.fi.strand = String.ofList (sortSD charLt
      (((touched evs).filter (fun x => coordKey x == coordKey r.fi)).flatMap (·.strand.toList))) := by
  apply (row_label_is_union ignore dflt evs st h r hr).2.2.2.2
  intro x hx
  obtain ⟨ev, hev, p, hp, _, hpx⟩ := (mem_touched evs x).mp (List.mem_filter.mp hx).1
  obtain ⟨chr, δ, features, isoforms, n, hm, hstd⟩ := hfeed ev hev
  have hxm : x ∈ ev.pmap := by rw [← hpx]; exact (List.of_mem_zip hp).2
  rw [hm] at hxm
  unfold setFeatureProperties at hxm
  obtain ⟨y, _, hy⟩ := List.mem_map.mp hxm
  rw [← hy]
  apply concat_std_strands_incr _ (sortSD_incr strLt_lin _)
  intro s hs
  rw [mem_sortSD, List.mem_map] at hs
  obtain ⟨⟨s', g', b⟩, he, hs'⟩ := hs
  simp only at hs'; subst hs'
  obtain ⟨t, ht, hts, _, _⟩ := (mem_featureEntries isoforms y.1 s' g').mp ⟨b, he⟩
  rw [← hts]; exact hstd t ht

/-- every description `set_feature_properties` produces from an annotation over the GTF strands is in normal form (sorted
    gene list, sorted strand characters, flags = base letter, S, C, then M exactly for more than one gene, else U / nothing) -/
theorem feature_labels_normal (chr : String) (δ : Int) (features : List Iv) (isoforms : List IsoformFeatures) (n : Nat)
    (hstd : ∀ t ∈ isoforms, t.strand ∈ ["+", "-", "."]) :
    ∀ x ∈ setFeatureProperties chr δ features isoforms n, FNormal x :=
  setFeatureProperties_normal chr δ features isoforms n hstd

/-- so every description counted on the feed of `process_genic` is in normal form: the hypothesis `hnorm` of
    `row_label_order_independent` and the hypothesis of `merge_idem` hold on the feed -/
theorem feed_descriptions_normal (evs : List ReadEv)
    (hfeed : ∀ ev ∈ evs, ∃ chr δ features isoforms n, ev.pmap = setFeatureProperties chr δ features isoforms n ∧
      ∀ t ∈ isoforms, t.strand ∈ ["+", "-", "."]) :
    ∀ x ∈ touched evs, FNormal x := by
  intro x hx
  obtain ⟨ev, hev, p, hp, _, hpx⟩ := (mem_touched evs x).mp hx
  obtain ⟨chr, δ, features, isoforms, n, hm, hstd⟩ := hfeed ev hev
  have hxm : x ∈ ev.pmap := by rw [← hpx]; exact (List.of_mem_zip hp).2
  rw [hm] at hxm
  exact feature_labels_normal chr δ features isoforms n hstd x hxm

/-- ORDER INDEPENDENCE of the whole label (flags included): two histories that count, for some coordinates, the same
    descriptions (in normal form) in a different order print the same strand string, flags and gene list there -/
theorem row_label_order_independent (ignore ignore' : Bool) (dflt dflt' : String) (evs evs' : List ReadEv)
    (st st' : PCounter CoordKey)
    (h : countAll coordKey FeatureInfo.merge ignore dflt evs = some st)
    (h' : countAll coordKey FeatureInfo.merge ignore' dflt' evs' = some st')
    (r r' : CountRow) (hr : r ∈ dumpRows st) (hr' : r' ∈ dumpRows st') (hk : coordKey r.fi = coordKey r'.fi)
    (hperm : (((touched evs).filter (fun x => coordKey x == coordKey r.fi)).map (·.label)).Perm
             (((touched evs').filter (fun x => coordKey x == coordKey r.fi)).map (·.label)))
    (hnorm : ∀ x ∈ touched evs, coordKey x = coordKey r.fi → FNormal x) :
    r.fi.label = r'.fi.label := by
  obtain ⟨f, rest, hf, hfi⟩ := C13.row_description coordKey C13.hupd_merge ignore dflt evs st h r hr
  obtain ⟨f', rest', hf', hfi'⟩ := C13.row_description coordKey C13.hupd_merge ignore' dflt' evs' st' h' r' hr'
  rw [← hk] at hf'
  rw [hf, hf'] at hperm
  have hmem : ∀ x ∈ f :: rest, FNormal x := by
    intro x hx
    have : x ∈ (touched evs).filter (fun x => coordKey x == coordKey r.fi) := by rw [hf]; exact hx
    obtain ⟨h1, h2⟩ := List.mem_filter.mp this
    exact hnorm x h1 (by simpa using h2)
  have hl1 : ∀ l ∈ (f :: rest).map (·.label), LNormal l := by
    intro l hl; obtain ⟨x, hx, e⟩ := List.mem_map.mp hl; subst e; exact hmem x hx
  have hf'n : FNormal f' := by
    have : f'.label ∈ (f :: rest).map (·.label) := hperm.symm.subset (by simp)
    exact hl1 _ this
  have e1 := (foldl_merge_label f rest (hmem f (List.mem_cons_self ..))).1
  have e2 := (foldl_merge_label f' rest' hf'n).1
  have j1 : labelJoin ((f :: rest).map (·.label)) = some r.fi.label := by
    rw [hfi, e1]; simp [labelJoin, List.foldl_map]
  have j2 : labelJoin ((f' :: rest').map (·.label)) = some r'.fi.label := by
    rw [hfi', e2]; simp [labelJoin, List.foldl_map]
  have := labelJoin_perm _ _ hperm hl1
  rw [j1, j2] at this
  exact Option.some.inj this

def rowTexts {κ} [BEq κ] (st : Option (PCounter κ)) : Option (List String) := st.map (fun s => (dumpRows s).map (·.text))

-- non-vacuity of the hypotheses of `feed_row_genes_union` / `feed_row_strand_union` / `row_label_order_independent`
def exFeedEv : ReadEv :=
  { profile := [1, -1], group := "A",
    pmap := setFeatureProperties "chr1" 2 [(10, 20), (30, 40)] [⟨"t1", "+", "g1", [(10, 20), (30, 40)]⟩, ⟨"t2", "-", "g2", [(30, 40)]⟩] 0 }
example : (∀ ev ∈ [exFeedEv], ∃ chr δ features isoforms n, ev.pmap = setFeatureProperties chr δ features isoforms n ∧
      ∀ t ∈ isoforms, t.strand ∈ ["+", "-", "."]) ∧
    (∃ st, countAll coordKey FeatureInfo.merge true "NA" [exFeedEv] = some st ∧
      (dumpRows st).map (·.text) = ["chr1\t10\t20\t+\tXU\tg1\tNA\t1\t0", "chr1\t30\t40\t+-\tXM\tg1,g2\tNA\t0\t1"]) := by
  refine ⟨?_, _, rfl, by decide⟩
  intro ev hev
  simp only [List.mem_singleton] at hev
  subst hev
  exact ⟨_, _, _, _, _, rfl, by decide⟩

def exA : FeatureInfo := ⟨1, "chr1", 50001, 50200, "+", "XU", ["gA"]⟩
def exAB : FeatureInfo := ⟨9, "chr1", 50001, 50200, "+-", "XM", ["gA", "gB"]⟩
example : FNormal exA ∧ FNormal exAB ∧
    (((touched [⟨[1], [exA], "NA"⟩, ⟨[1], [exAB], "NA"⟩]).filter (fun x => coordKey x == ("chr1", 50001, 50200))).map (·.label)).Perm
    (((touched [⟨[1], [exAB], "NA"⟩, ⟨[1], [exA], "NA"⟩]).filter (fun x => coordKey x == ("chr1", 50001, 50200))).map (·.label)) ∧
    rowTexts (countAll coordKey FeatureInfo.merge true "NA" [⟨[1], [exA], "NA"⟩, ⟨[1], [exAB], "NA"⟩]) =
    rowTexts (countAll coordKey FeatureInfo.merge true "NA" [⟨[1], [exAB], "NA"⟩, ⟨[1], [exA], "NA"⟩]) := by
  refine ⟨⟨by unfold Incr; decide, by unfold Incr; decide, by decide⟩, ⟨by unfold Incr; decide, by unfold Incr; decide, by decide⟩, ?_, by decide⟩
  exact List.Perm.swap _ _ _

/-- the G1 input as the counters see it (audit, 70-kb chr1): gene gA (+) = tA1 1001-1200, 20001-20200, 50001-50200 and
    tA2 1001-1200, 20001-20200, 22001-22200; gene gB (−) = tB1 50001-50200, 51801-52000.  The read cluster is cut into two
    sub-regions; the first loads gA only (the tA1 read is processed there), the second gA and gB (3 tB1 reads). -/
def g1GeneA : GeneIn :=
  { region := (1001, 50200), isoforms := [⟨"tA1", "+", "gA", [(1001, 1200), (20001, 20200), (50001, 50200)]⟩,
                                           ⟨"tA2", "+", "gA", [(1001, 1200), (20001, 20200), (22001, 22200)]⟩] }
def g1GeneAB : GeneIn :=
  { region := (1001, 52000), isoforms := g1GeneA.isoforms ++ [⟨"tB1", "-", "gB", [(50001, 50200), (51801, 52000)]⟩] }
def g1Loads : List GeneModel := mkGenes "chr1" 6 0 [g1GeneA, g1GeneAB]
def g1Read (blocks : List Iv) : ReadAln := { blocks := blocks, polya := -1, polyt := -1, group := "NA" }
/-- the exon profiles of the 8 reads against the gene info of their sub-region (real constructor model) -/
def g1Profiles : List (Option (List Int)) :=
  match g1Loads with
  | [a, ab] =>
    [(exonEvent a (g1Read [(1001, 1200), (20001, 20200), (50001, 50200)])).map (·.profile),
     (exonEvent a (g1Read [(1001, 1200), (20001, 20200), (22001, 22200)])).map (·.profile),
     (exonEvent ab (g1Read [(50001, 50200), (51801, 52000)])).map (·.profile)]
  | _ => []

theorem g1_profiles_witness : g1Profiles = [some [1, 1, -1, 1], some [1, 1, 1, 0], some [0, 0, 0, 1, 1]] := by decide +kernel

/-- the history the counters see: 1 read of tA1 and 4 of tA2 against the gene info of sub-region 1 (gA only), 3 reads of
    tB1 against the gene info of sub-region 2 (gA and gB); profiles as in `g1_profiles_witness` -/
def g1History : List ReadEv :=
  match g1Loads with
  | [a, ab] =>
    [{ profile := [1, 1, -1, 1], pmap := a.exonMap, group := "NA" }] ++
      List.replicate 4 { profile := [1, 1, 1, 0], pmap := a.exonMap, group := "NA" } ++
      List.replicate 3 { profile := [0, 0, 0, 1, 1], pmap := ab.exonMap, group := "NA" }
  | _ => []

/-- THE DEFECT (finding G1) on the code before the repair: the shared exon 50001-50200 is printed in two rows, 1 + 3 -/
theorem split_rows_orig_witness :
    rowTexts (countAll strandKey keepFirst true "NA" g1History) =
      some ["chr1\t1001\t1200\t+\tX\tgA\tNA\t5\t0", "chr1\t20001\t20200\t+\tI\tgA\tNA\t5\t0",
            "chr1\t22001\t22200\t+\tXU\tgA\tNA\t4\t1", "chr1\t50001\t50200\t+\tXU\tgA\tNA\t1\t0",
            "chr1\t50001\t50200\t+-\tXM\tgA,gB\tNA\t3\t0", "chr1\t51801\t52000\t-\tXU\tgB\tNA\t3\t0"] := by
  decide +kernel

/-- the same history on the repaired code: one row, 4 reads, the description of the feature with both genes -/
theorem split_label_witness :
    rowTexts (countAll coordKey FeatureInfo.merge true "NA" g1History) =
      some ["chr1\t1001\t1200\t+\tX\tgA\tNA\t5\t0", "chr1\t20001\t20200\t+\tI\tgA\tNA\t5\t0",
            "chr1\t22001\t22200\t+\tXU\tgA\tNA\t4\t1", "chr1\t50001\t50200\t+-\tXM\tgA,gB\tNA\t4\t0",
            "chr1\t51801\t52000\t-\tXU\tgB\tNA\t3\t0"] := by
  decide +kernel

/-- what remains after the repair (known finding `partial_load_label`): when the shared exon is counted ONLY through the
    sub-region that loads gA alone, the row cannot name gB, although the annotation (both genes loaded) says +- / gA,gB -/
theorem partial_label_witness :
    rowTexts (countAll coordKey FeatureInfo.merge true "NA" (g1History.take 1)) =
      some ["chr1\t1001\t1200\t+\tX\tgA\tNA\t1\t0", "chr1\t20001\t20200\t+\tI\tgA\tNA\t1\t0",
            "chr1\t22001\t22200\t+\tXU\tgA\tNA\t0\t1", "chr1\t50001\t50200\t+\tXU\tgA\tNA\t1\t0"] ∧
    (match g1Loads with
     | [_, ab] => (ab.exonMap.filter (fun fi => fi.start == 50001)).map (·.toStr)
     | _ => []) = ["chr1\t50001\t50200\t+-\tXM\tgA,gB"] := by
  constructor <;> decide +kernel

/-! ### totals -/

/-- the counts do not depend on how a row is re-described: the repair's merge changes labels only -/
theorem counts_independent_of_upd {κ : Type} [BEq κ] [LawfulBEq κ] (key : FeatureInfo → κ)
    (upd upd' : FeatureInfo → FeatureInfo → FeatureInfo)
    (hupd : ∀ a b, key (upd a b) = key a) (hupd' : ∀ a b, key (upd' a b) = key a) (ignore : Bool) (dflt : String)
    (evs : List ReadEv) (st st' : PCounter κ) (h : countAll key upd ignore dflt evs = some st)
    (h' : countAll key upd' ignore dflt evs = some st') (k : κ) (g : String) :
    st.inclOf k g = st'.inclOf k g ∧ st.exclOf k g = st'.exclOf k g := by
  rw [C13.include_counts key hupd ignore dflt evs st h k g, C13.include_counts key hupd' ignore dflt evs st' h' k g,
      C13.exclude_counts key hupd ignore dflt evs st h k g, C13.exclude_counts key hupd' ignore dflt evs st' h' k g]
  exact ⟨rfl, rfl⟩

/-- sums over two lists commute -/
theorem sum_sum_comm {α β : Type} (l1 : List α) (l2 : List β) (f : α → β → Nat) :
    (l1.map (fun a => (l2.map (fun b => f a b)).sum)).sum = (l2.map (fun b => (l1.map (fun a => f a b)).sum)).sum := by
  induction l1 with
  | nil => simp only [List.map_nil, List.sum_nil]; exact (sum_map_zero l2).symm
  | cons a as ih =>
    simp only [List.map_cons, List.sum_cons, ih]
    rw [← sum_map_add]

/-- one read: the positions counted for coordinates `c` split by the strand string of their description -/
theorem hits_sum_strands (v : Int) (c : CoordKey) (strands : List String) (hnd : strands.Nodup) (prof : List Int)
    (pm : List FeatureInfo)
    (hcov : ∀ p ∈ prof.zip pm, p.1 = v → coordKey p.2 = c → p.2.strand ∈ strands) :
    hits coordKey v c prof pm = (strands.map (fun s => hits strandKey v (c.1, c.2.1, c.2.2, s) prof pm)).sum := by
  unfold hits
  generalize prof.zip pm = l at hcov
  induction l with
  | nil => simp only [List.countP_nil]; exact (sum_map_zero strands).symm
  | cons p ps ih =>
    have ih' := ih (fun q hq => hcov q (List.mem_cons_of_mem _ hq))
    simp only [List.countP_cons, ih']
    rw [sum_map_add]
    congr 1
    obtain ⟨c1, c2, c3⟩ := c
    by_cases hp : (p.1 == v && coordKey p.2 == (c1, c2, c3)) = true
    · have hp' := hp
      simp only [Bool.and_eq_true, beq_iff_eq] at hp'
      have hs := hcov p (List.mem_cons_self ..) hp'.1 hp'.2
      have hk : ∀ s, (p.1 == v && strandKey p.2 == (c1, c2, c3, s)) = decide (p.2.strand = s) := by
        intro s
        have h2 := hp'.2
        simp only [coordKey, Prod.mk.injEq] at h2
        rw [Bool.eq_iff_iff]
        simp only [Bool.and_eq_true, beq_iff_eq, strandKey, Prod.mk.injEq, decide_eq_true_eq]
        constructor
        · rintro ⟨_, _, _, _, h⟩; exact h
        · intro h; exact ⟨hp'.1, h2.1, h2.2.1, h2.2.2, h⟩
      simp only [hp, if_true, hk, decide_eq_true_eq]
      exact (sum_indicator strands hnd p.2.strand 1 hs).symm
    · have hk : ∀ s, (p.1 == v && strandKey p.2 == (c1, c2, c3, s)) = false := by
        intro s
        rw [Bool.eq_false_iff]
        intro h
        apply hp
        simp only [Bool.and_eq_true, beq_iff_eq, strandKey, coordKey, Prod.mk.injEq] at h ⊢
        exact ⟨h.1, h.2.1, h.2.2.1, h.2.2.2.1⟩
      simp only [hp, hk, Bool.false_eq_true, if_false]
      exact (sum_map_zero strands).symm

/-- ROWS SUM (totals unchanged by the repair, full strength): for every coordinates `c` and group `g` the counts of the
    repaired table's row equal the SUM of the counts of the old table's rows with these coordinates, one per strand string
    under which the feature was described (`strands`: any duplicate-free list covering the strand strings of the counted
    descriptions of `c`).  Instance on the G1 input: 1 + 3 = 4 (`split_rows_orig_witness`, `split_label_witness`). -/
theorem rows_sum (ignore : Bool) (dflt : String) (evs : List ReadEv) (sn : PCounter CoordKey) (so : PCounter StrandKey)
    (hn : countAll coordKey FeatureInfo.merge ignore dflt evs = some sn)
    (ho : countAll strandKey keepFirst ignore dflt evs = some so) (c : CoordKey) (g : String) (strands : List String)
    (hnd : strands.Nodup) (hcov : ∀ x ∈ touched evs, coordKey x = c → x.strand ∈ strands) :
    sn.inclOf c g = (strands.map (fun s => so.inclOf (c.1, c.2.1, c.2.2, s) g)).sum ∧
    sn.exclOf c g = (strands.map (fun s => so.exclOf (c.1, c.2.1, c.2.2, s) g)).sum := by
  have hev : ∀ (v : Int), (v = 1 ∨ v = -1) → ∀ ev ∈ evs, hits coordKey v c ev.profile ev.pmap =
      (strands.map (fun s => hits strandKey v (c.1, c.2.1, c.2.2, s) ev.profile ev.pmap)).sum := by
    intro v hv ev hev
    apply hits_sum_strands v c strands hnd
    intro p hp hpv hpc
    exact hcov p.2 ((mem_touched evs p.2).mpr ⟨ev, hev, p, hp, by rw [hpv]; exact hv, rfl⟩) hpc
  have hi : ∀ s, so.inclOf (c.1, c.2.1, c.2.2, s) g = _ :=
    fun s => C13.include_counts strandKey (C13.hupd_keepFirst strandKey) ignore dflt evs so ho (c.1, c.2.1, c.2.2, s) g
  have he : ∀ s, so.exclOf (c.1, c.2.1, c.2.2, s) g = _ :=
    fun s => C13.exclude_counts strandKey (C13.hupd_keepFirst strandKey) ignore dflt evs so ho (c.1, c.2.1, c.2.2, s) g
  rw [C13.include_counts coordKey C13.hupd_merge ignore dflt evs sn hn c g,
      C13.exclude_counts coordKey C13.hupd_merge ignore dflt evs sn hn c g]
  simp only [hi, he]
  constructor
  · rw [sum_sum_comm]
    congr 1
    apply List.map_congr_left
    intro ev hev'; exact hev 1 (Or.inl rfl) ev (List.mem_filter.mp hev').1
  · rw [sum_sum_comm]
    congr 1
    apply List.map_congr_left
    intro ev hev'; exact hev (-1) (Or.inr rfl) ev (List.mem_filter.mp hev').1

-- non-vacuity: the G1 history, exon 50001-50200 described as "+" (gA alone) and "+-" (gA and gB)
example : ∃ sn so, countAll coordKey FeatureInfo.merge true "NA" g1History = some sn ∧
    countAll strandKey keepFirst true "NA" g1History = some so ∧
    (∀ x ∈ touched g1History, coordKey x = ("chr1", 50001, 50200) → x.strand ∈ ["+", "+-"]) ∧
    sn.inclOf ("chr1", 50001, 50200) "NA" = 4 ∧
    so.inclOf ("chr1", 50001, 50200, "+") "NA" = 1 ∧ so.inclOf ("chr1", 50001, 50200, "+-") "NA" = 3 := by
  refine ⟨_, _, rfl, rfl, by decide +kernel, by decide +kernel, by decide +kernel, by decide +kernel⟩

/-- the single-strand special case: the old table has one row for the coordinates and it carries the same counts -/
theorem rows_sum_partial (ignore : Bool) (dflt : String) (evs : List ReadEv) (sn : PCounter CoordKey) (so : PCounter StrandKey)
    (hn : countAll coordKey FeatureInfo.merge ignore dflt evs = some sn)
    (ho : countAll strandKey keepFirst ignore dflt evs = some so) (c : CoordKey) (s : String)
    (hone : ∀ ev ∈ evs, ∀ x ∈ ev.pmap, coordKey x = c → x.strand = s) (g : String) :
    sn.inclOf c g = so.inclOf (c.1, c.2.1, c.2.2, s) g ∧ sn.exclOf c g = so.exclOf (c.1, c.2.1, c.2.2, s) g := by
  rw [C13.include_counts coordKey C13.hupd_merge ignore dflt evs sn hn c g,
      C13.include_counts strandKey (C13.hupd_keepFirst strandKey) ignore dflt evs so ho _ g,
      C13.exclude_counts coordKey C13.hupd_merge ignore dflt evs sn hn c g,
      C13.exclude_counts strandKey (C13.hupd_keepFirst strandKey) ignore dflt evs so ho _ g]
  have hh : ∀ (v : Int), ∀ ev ∈ evs, hits coordKey v c ev.profile ev.pmap = hits strandKey v (c.1, c.2.1, c.2.2, s) ev.profile ev.pmap := by
    intro v ev hev
    unfold hits
    apply List.countP_congr
    intro p hp
    have hx : p.2 ∈ ev.pmap := (List.of_mem_zip hp).2
    have := hone ev hev p.2 hx
    obtain ⟨c1, c2, c3⟩ := c
    simp only [coordKey, strandKey, Bool.and_eq_true, beq_iff_eq, Prod.mk.injEq] at this ⊢
    constructor
    · rintro ⟨h1, h2, h3, h4⟩; exact ⟨h1, h2, h3, h4, this ⟨h2, h3, h4⟩⟩
    · rintro ⟨h1, h2, h3, h4, _⟩; exact ⟨h1, h2, h3, h4⟩
  constructor
  · congr 1
    apply List.map_congr_left
    intro ev hev; exact hh 1 ev (List.mem_filter.mp hev).1
  · congr 1
    apply List.map_congr_left
    intro ev hev; exact hh (-1) ev (List.mem_filter.mp hev).1

example : ∃ sn so, countAll coordKey FeatureInfo.merge true "NA" C13.exHistory = some sn ∧
    countAll strandKey keepFirst true "NA" C13.exHistory = some so ∧
    (∀ ev ∈ C13.exHistory, ∀ x ∈ ev.pmap, coordKey x = ("chr1", 10, 20) → x.strand = "+") ∧
    sn.inclOf ("chr1", 10, 20) "NA" = 2 := by
  refine ⟨_, _, rfl, rfl, by decide, by decide⟩

/-! ### the delta of a run -/

/-- for every matching strategy of the regenerated preset table an explicit non-negative `--delta` is the delta the
    run uses — 0 included (exact comparison); without one it is the preset -/
theorem explicit_delta_respected (s : String) (hs : s ∈ matching_presets.map (·.1)) (d : Int) (hd : 0 ≤ d) :
    effectiveDelta s (some d) = some d ∧ ∃ p, (s, p) ∈ matching_presets ∧ effectiveDelta s none = some p.delta := by
  unfold effectiveDelta
  cases hl : matching_presets.lookup s with
  | none => exact absurd hs ((lookup_none_iff matching_presets s).mp hl)
  | some p =>
    have : ¬ d < 0 := by omega
    exact ⟨by simp [this], p, lookup_some_mem _ _ _ hl, rfl⟩

example : effectiveDelta "default" (some 0) = some 0 ∧ effectiveDelta "default" none = some 6 ∧
    effectiveDelta "precise" (some 0) = some 0 ∧ effectiveDelta "loose" (some (-1)) = none := by decide

end IsoVerif.Props.C13Rows
